import DoltVerif.Lemmas.Query
/-! C26: the inner merge join state machine returns a permutation of the nested-loop join. -/
namespace DoltVerif.Query

theorem perm_flatMap_left {α β : Type} (f g : α → List β) : ∀ l : List α, (∀ a ∈ l, (f a).Perm (g a)) →
    (l.flatMap f).Perm (l.flatMap g)
  | [], _ => List.Perm.refl _
  | a :: as, h => by
    simp only [List.flatMap_cons]
    exact (h a (by simp)).append (perm_flatMap_left f g as (fun x hx => h x (by simp [hx])))

theorem keyEq_true {a b : Cell} (h : keyEq a b = true) : a = b := by
  cases a <;> cases b <;> simp [keyEq] at h ⊢; exact h

theorem keyEq_false_of_clt {a b : Cell} (h : clt a b = true ∨ clt b a = true) : keyEq a b = false := by
  cases hk : keyEq a b with
  | false => rfl
  | true =>
    have := keyEq_true hk
    subst this
    simp [clt_irrefl] at h

theorem nlj_nil_right {α β : Type} (on : α → β → Bool) (l : List α) : nlj on l ([] : List β) = [] := by
  induction l with
  | nil => rfl
  | cons a as ih => simp only [nlj, List.flatMap_cons, List.filter_nil, List.map_nil, List.nil_append] at ih ⊢; exact ih

theorem nlj_cons_left {α β : Type} (on : α → β → Bool) (a : α) (l : List α) (r : List β) :
    nlj on (a :: l) r = (r.filter (on a)).map (fun b => (a, b)) ++ nlj on l r := by
  simp [nlj]

theorem nlj_append_left {α β : Type} (on : α → β → Bool) (l1 l2 : List α) (r : List β) :
    nlj on (l1 ++ l2) r = nlj on l1 r ++ nlj on l2 r := by
  simp [nlj]

theorem filter_none {β : Type} (p : β → Bool) (l : List β) (h : ∀ b ∈ l, p b = false) : l.filter p = [] := by
  rw [List.filter_eq_nil_iff]; intro b hb; simp [h b hb]

/-- dropping a block of right rows that match no left row -/
theorem nlj_drop_right {α β : Type} (on : α → β → Bool) : ∀ (l : List α) (r1 r2 : List β),
    (∀ a ∈ l, ∀ b ∈ r1, on a b = false) → nlj on l (r1 ++ r2) = nlj on l r2
  | [], _, _, _ => rfl
  | a :: as, r1, r2, h => by
    rw [nlj_cons_left, nlj_cons_left, List.filter_append, filter_none (on a) r1 (h a (by simp)), List.nil_append,
      nlj_drop_right on as r1 r2 (fun x hx => h x (by simp [hx]))]

theorem nlj_drop_right_tail {α β : Type} (on : α → β → Bool) : ∀ (l : List α) (r1 r2 : List β),
    (∀ a ∈ l, ∀ b ∈ r2, on a b = false) → nlj on l (r1 ++ r2) = nlj on l r1
  | [], _, _, _ => rfl
  | a :: as, r1, r2, h => by
    rw [nlj_cons_left, nlj_cons_left, List.filter_append, filter_none (on a) r2 (h a (by simp)), List.append_nil,
      nlj_drop_right_tail on as r1 r2 (fun x hx => h x (by simp [hx]))]

theorem nlj_no_match {α β : Type} (on : α → β → Bool) : ∀ (l : List α) (r : List β),
    (∀ a ∈ l, ∀ b ∈ r, on a b = false) → nlj on l r = []
  | [], _, _ => rfl
  | a :: as, r, h => by
    rw [nlj_cons_left, filter_none (on a) r (h a (by simp)), nlj_no_match on as r (fun x hx => h x (by simp [hx]))]; rfl

-- ---------------------------------------------------------------- fillBuf

theorem fillBuf_spec (rk : Tuple → Cell) (k : Cell) : ∀ rs : List Tuple,
    (fillBuf rk k rs).1 ++ (fillBuf rk k rs).2 = rs ∧ (∀ b ∈ (fillBuf rk k rs).1, rk b = k) ∧
    (∀ b, (fillBuf rk k rs).2.head? = some b → rk b ≠ k)
  | [] => by simp [fillBuf]
  | r :: rs => by
    obtain ⟨h1, h2, h3⟩ := fillBuf_spec rk k rs
    by_cases hc : (ccmp k (rk r) == 0) = true
    · have hk : rk r = k := (ccmp_zero.mp (by simpa using hc)).symm
      simp only [fillBuf, hc, if_true, List.cons_append, h1, true_and]
      refine ⟨?_, h3⟩
      intro b hb
      simp only [List.mem_cons] at hb
      rcases hb with rfl | hb
      · exact hk
      · exact h2 b hb
    · have hk : rk r ≠ k := fun e => hc (by simp [ccmp_zero.mpr e.symm])
      simp only [fillBuf, hc, Bool.false_eq_true, if_false, List.nil_append, List.not_mem_nil, false_imp_iff, implies_true,
        List.head?_cons, Option.some.injEq, true_and]
      intro b hb; subst hb; exact hk

end DoltVerif.Query
