import DoltVerif.Lemmas.Query
/-! C26: the inner merge join state machine returns a permutation of the nested-loop join. -/
namespace DoltVerif.Query

theorem perm_flatMap_left {α β : Type} (f g : α → List β) : ∀ l : List α, (∀ a ∈ l, (f a).Perm (g a)) →
    (l.flatMap f).Perm (l.flatMap g)
  | [], _ => List.Perm.refl _
  | a :: as, h => by
    simp only [List.flatMap_cons]
    exact (h a (by simp)).append (perm_flatMap_left f g as (fun x hx => h x (by simp [hx])))

theorem keyEq_true {a b : Cell} (h : keyEq a b = true) : a = b := by
  cases a <;> cases b <;> simp [keyEq] at h ⊢; exact h

theorem keyEq_false_of_clt {a b : Cell} (h : clt a b = true ∨ clt b a = true) : keyEq a b = false := by
  cases hk : keyEq a b with
  | false => rfl
  | true =>
    have := keyEq_true hk
    subst this
    simp [clt_irrefl] at h

theorem nlj_nil_right {α β : Type} (on : α → β → Bool) (l : List α) : nlj on l ([] : List β) = [] := by
  induction l with
  | nil => rfl
  | cons a as ih => simp only [nlj, List.flatMap_cons, List.filter_nil, List.map_nil, List.nil_append] at ih ⊢; exact ih

theorem nlj_cons_left {α β : Type} (on : α → β → Bool) (a : α) (l : List α) (r : List β) :
    nlj on (a :: l) r = (r.filter (on a)).map (fun b => (a, b)) ++ nlj on l r := by
  simp [nlj]

theorem nlj_append_left {α β : Type} (on : α → β → Bool) (l1 l2 : List α) (r : List β) :
    nlj on (l1 ++ l2) r = nlj on l1 r ++ nlj on l2 r := by
  simp [nlj]

theorem filter_none {β : Type} (p : β → Bool) (l : List β) (h : ∀ b ∈ l, p b = false) : l.filter p = [] := by
  rw [List.filter_eq_nil_iff]; intro b hb; simp [h b hb]

/-- dropping a block of right rows that match no left row -/
theorem nlj_drop_right {α β : Type} (on : α → β → Bool) : ∀ (l : List α) (r1 r2 : List β),
    (∀ a ∈ l, ∀ b ∈ r1, on a b = false) → nlj on l (r1 ++ r2) = nlj on l r2
  | [], _, _, _ => rfl
  | a :: as, r1, r2, h => by
    rw [nlj_cons_left, nlj_cons_left, List.filter_append, filter_none (on a) r1 (h a (by simp)), List.nil_append,
      nlj_drop_right on as r1 r2 (fun x hx => h x (by simp [hx]))]

theorem nlj_drop_right_tail {α β : Type} (on : α → β → Bool) : ∀ (l : List α) (r1 r2 : List β),
    (∀ a ∈ l, ∀ b ∈ r2, on a b = false) → nlj on l (r1 ++ r2) = nlj on l r1
  | [], _, _, _ => rfl
  | a :: as, r1, r2, h => by
    rw [nlj_cons_left, nlj_cons_left, List.filter_append, filter_none (on a) r2 (h a (by simp)), List.append_nil,
      nlj_drop_right_tail on as r1 r2 (fun x hx => h x (by simp [hx]))]

theorem nlj_no_match {α β : Type} (on : α → β → Bool) : ∀ (l : List α) (r : List β),
    (∀ a ∈ l, ∀ b ∈ r, on a b = false) → nlj on l r = []
  | [], _, _ => rfl
  | a :: as, r, h => by
    rw [nlj_cons_left, filter_none (on a) r (h a (by simp)), nlj_no_match on as r (fun x hx => h x (by simp [hx]))]; rfl

-- ---------------------------------------------------------------- fillBuf

theorem fillBuf_spec (rk : Tuple → Cell) (k : Cell) : ∀ rs : List Tuple,
    (fillBuf rk k rs).1 ++ (fillBuf rk k rs).2 = rs ∧ (∀ b ∈ (fillBuf rk k rs).1, rk b = k) ∧
    (∀ b, (fillBuf rk k rs).2.head? = some b → rk b ≠ k)
  | [] => by simp [fillBuf]
  | r :: rs => by
    obtain ⟨h1, h2, h3⟩ := fillBuf_spec rk k rs
    by_cases hc : (ccmp k (rk r) == 0) = true
    · have hk : rk r = k := (ccmp_zero.mp (by simpa using hc)).symm
      simp only [fillBuf, hc, if_true, List.cons_append, h1, true_and]
      refine ⟨?_, h3⟩
      intro b hb
      simp only [List.mem_cons] at hb
      rcases hb with rfl | hb
      · exact hk
      · exact h2 b hb
    · have hk : rk r ≠ k := fun e => hc (by simp [ccmp_zero.mpr e.symm])
      simp only [fillBuf, hc, Bool.false_eq_true, if_false, List.nil_append, List.not_mem_nil, false_imp_iff, implies_true,
        List.head?_cons, Option.some.injEq, true_and]
      intro b hb; subst hb; exact hk

end DoltVerif.Query

namespace DoltVerif.Query

theorem clt_of_lt_of_le {a b c : Cell} (h1 : clt a b = true) (h2 : clt c b = false) : clt a c = true := by
  rcases clt_total b c with e | e | e
  · subst e; exact h1
  · exact clt_trans h1 e
  · rw [e] at h2; cases h2

theorem clt_of_le_of_lt {a b c : Cell} (h1 : clt b a = false) (h2 : clt b c = true) : clt a c = true := by
  rcases clt_total a b with e | e | e
  · subst e; exact h2
  · exact clt_trans e h2
  · rw [e] at h1; cases h1

/-- `key` is non-decreasing along the list -/
def SortedBy (key : Tuple → Cell) (l : List Tuple) : Prop := l.Pairwise (fun a b => clt (key b) (key a) = false)

/-- in a sorted list whose keys are all ≥ k and whose head differs from k, every key is > k -/
theorem sorted_all_gt (key : Tuple → Cell) (k : Cell) : ∀ l : List Tuple, SortedBy key l →
    (∀ b ∈ l, clt (key b) k = false) → (∀ b, l.head? = some b → key b ≠ k) → ∀ b ∈ l, clt k (key b) = true
  | [], _, _, _ => by simp
  | x :: xs, hs, hge, hne => by
    have hx : clt k (key x) = true := by
      rcases clt_total k (key x) with e | e | e
      · exact absurd e.symm (hne x rfl)
      · exact e
      · rw [hge x (by simp)] at e; cases e
    intro b hb
    simp only [List.mem_cons] at hb
    rcases hb with rfl | hb
    · exact hx
    · have := (List.pairwise_cons.mp hs).1 b hb
      exact clt_of_lt_of_le hx this

theorem mem_takeWhile_p {α : Type} (p : α → Bool) : ∀ (l : List α) (a : α), a ∈ l.takeWhile p → p a = true
  | [], _, h => by simp at h
  | x :: xs, a, h => by
    by_cases hp : p x = true
    · simp only [List.takeWhile_cons, hp, if_true, List.mem_cons] at h
      rcases h with rfl | h
      · exact hp
      · exact mem_takeWhile_p p xs a h
    · simp [List.takeWhile_cons, hp] at h

theorem dropWhile_head {α : Type} (p : α → Bool) : ∀ (l : List α) (b : α), (l.dropWhile p).head? = some b → p b = false
  | [], _, h => by simp at h
  | x :: xs, b, h => by
    by_cases hp : p x = true
    · simp only [List.dropWhile_cons, hp, if_true] at h; exact dropWhile_head p xs b h
    · simp only [List.dropWhile_cons, hp, Bool.false_eq_true, if_false, List.head?_cons, Option.some.injEq] at h
      subst h; simpa using hp

/-- **the merge join equals the nested-loop join up to order** -/
theorem mergeJoinFuel_perm (lk rk : Tuple → Cell) :
    ∀ (fuel : Nat) (L R : List Tuple), L.length + R.length < fuel → SortedBy lk L → SortedBy rk R →
      (mergeJoinFuel lk rk (fun a b => keyEq (lk a) (rk b)) fuel L R).Perm (nlj (fun a b => keyEq (lk a) (rk b)) L R) := by
  intro fuel
  induction fuel with
  | zero => intro L R h; omega
  | succ fuel ih =>
    intro L R hf hL hR
    cases L with
    | nil => simp [mergeJoinFuel, nlj]
    | cons l ls =>
      cases R with
      | nil => rw [nlj_nil_right]; simp [mergeJoinFuel]
      | cons r rs =>
        have hLt := List.pairwise_cons.mp hL
        have hRt := List.pairwise_cons.mp hR
        simp only [List.length_cons] at hf
        unfold mergeJoinFuel
        by_cases hlt : ccmp (lk l) (rk r) < 0
        · -- left key smaller: l matches nothing
          simp only [hlt, if_true]
          have hl : clt (lk l) (rk r) = true := ccmp_neg.mp hlt
          rw [nlj_cons_left, filter_none _ (r :: rs) (by
            intro b hb
            simp only [List.mem_cons] at hb
            rcases hb with rfl | hb
            · exact keyEq_false_of_clt (Or.inl hl)
            · exact keyEq_false_of_clt (Or.inl (clt_of_lt_of_le hl (hRt.1 b hb))))]
          exact ih ls (r :: rs) (by simp only [List.length_cons]; omega) hLt.2 hR
        · simp only [hlt, if_false]
          by_cases hgt : ccmp (lk l) (rk r) > 0
          · simp only [hgt, if_true]
            have hr : clt (rk r) (lk l) = true := ccmp_pos.mp hgt
            have := nlj_drop_right (fun a b => keyEq (lk a) (rk b)) (l :: ls) [r] rs (by
              intro a ha b hb
              simp only [List.mem_singleton] at hb
              subst hb
              simp only [List.mem_cons] at ha
              rcases ha with rfl | ha
              · exact keyEq_false_of_clt (Or.inr hr)
              · exact keyEq_false_of_clt (Or.inr (clt_of_lt_of_le hr (hLt.1 a ha))))
            simp only [List.singleton_append] at this
            rw [this]
            exact ih (l :: ls) rs (by simp only [List.length_cons]; omega) hL hRt.2
          · simp only [hgt, if_false]
            have hz : lk l = rk r := ccmp_zero.mp (by omega)
            obtain ⟨hfb1, hfb2, hfb3⟩ := fillBuf_spec rk (lk l) rs
            -- names
            generalize hbuf : (fillBuf rk (lk l) rs).1 = buf at *
            generalize hrest : (fillBuf rk (lk l) rs).2 = rest at *
            generalize hsame : ls.takeWhile (fun l' => ccmp (lk l) (lk l') == 0) = same
            generalize hlsr : ls.dropWhile (fun l' => ccmp (lk l) (lk l') == 0) = lsRest
            have hls : ls = same ++ lsRest := by rw [← hsame, ← hlsr, List.takeWhile_append_dropWhile]
            have hsameK : ∀ a ∈ same, lk a = lk l := by
              intro a ha
              rw [← hsame] at ha
              have := mem_takeWhile_p _ ls a ha
              exact (ccmp_zero.mp (by simpa using this)).symm
            have hsubL : lsRest.Sublist ls := by rw [← hlsr]; exact List.dropWhile_sublist _
            have hsubR : rest.Sublist rs := by rw [← hfb1]; exact List.sublist_append_right _ _
            have hLR : SortedBy lk lsRest := List.Pairwise.sublist hsubL hLt.2
            have hRR : SortedBy rk rest := List.Pairwise.sublist hsubR hRt.2
            have hrestGt : ∀ b ∈ rest, clt (lk l) (rk b) = true :=
              sorted_all_gt rk (lk l) rest hRR (fun b hb => by rw [hz]; exact hRt.1 b (hsubR.subset hb)) hfb3
            have hlsrGt : ∀ a ∈ lsRest, clt (lk l) (lk a) = true :=
              sorted_all_gt lk (lk l) lsRest hLR (fun a ha => hLt.1 a (hsubL.subset ha)) (by
                intro b hb
                rw [← hlsr] at hb
                have := dropWhile_head _ ls b hb
                intro e
                simp [ccmp_zero.mpr e.symm] at this)
            -- the reference, split the same way
            have href : nlj (fun a b => keyEq (lk a) (rk b)) (l :: ls) (r :: rs) =
                nlj (fun a b => keyEq (lk a) (rk b)) (l :: same) (r :: buf) ++ nlj (fun a b => keyEq (lk a) (rk b)) lsRest rest := by
              have e1 : l :: ls = (l :: same) ++ lsRest := by rw [hls]; rfl
              have e2 : r :: rs = (r :: buf) ++ rest := by rw [← hfb1]; rfl
              rw [e1, nlj_append_left, e2]
              congr 1
              · apply nlj_drop_right_tail
                intro a ha b hb
                have hak : lk a = lk l := by
                  simp only [List.mem_cons] at ha
                  rcases ha with rfl | ha
                  · rfl
                  · exact hsameK a ha
                exact keyEq_false_of_clt (Or.inl (by rw [hak]; exact hrestGt b hb))
              · apply nlj_drop_right
                intro a ha b hb
                have hbk : rk b = lk l := by
                  simp only [List.mem_cons] at hb
                  rcases hb with rfl | hb
                  · exact hz.symm
                  · exact hfb2 b hb
                exact keyEq_false_of_clt (Or.inr (by rw [hbk]; exact hlsrGt a ha))
            rw [href]
            apply List.Perm.append
            · -- the look-ahead buffer is emitted before the current right row
              show ((l :: same).flatMap _).Perm (nlj _ (l :: same) (r :: buf))
              unfold nlj
              apply perm_flatMap_left
              intro a _
              exact ((List.perm_append_singleton r buf).filter _).map _
            · exact ih lsRest rest (by
                have h1 := hsubL.length_le
                have h2 := hsubR.length_le
                omega) hLR hRR

/-- **`merge_join_eq_nlj`** -/
theorem mergeJoin_perm (lk rk : Tuple → Cell) (left right : List Tuple) (hL : SortedBy lk left) (hR : SortedBy rk right) :
    (mergeJoin lk rk (fun a b => keyEq (lk a) (rk b)) left right).Perm (nlj (fun a b => keyEq (lk a) (rk b)) left right) :=
  mergeJoinFuel_perm lk rk _ left right (by omega) hL hR

end DoltVerif.Query
