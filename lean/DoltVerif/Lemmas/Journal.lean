import DoltVerif.Model.JournalRec
import DoltVerif.Model.JournalRecover
/-! Helper lemmas for C03/C04: framing, codec round trip, scan over encoded records. -/
namespace DoltVerif.Journal

-- the proofs never look inside the checksum
attribute [local irreducible] crc32c

theorem length_be32 (n : Nat) : (be32 n).length = 4 := rfl

theorem readU32?_be32 (n : Nat) (h : n < 4294967296) (xs : Bytes) : readU32? (be32 n ++ xs) = some n := by
  simp only [be32, List.cons_append, List.nil_append, readU32?]
  simp only [UInt8.toNat_ofNat']
  congr 1
  omega

theorem readU32?_none_of_short (bs : Bytes) (h : bs.length < 4) : readU32? bs = none := by
  match bs, h with
  | [], _ => rfl
  | [_], _ => rfl
  | [_, _], _ => rfl
  | [_, _, _], _ => rfl
  | _ :: _ :: _ :: _ :: _, h => simp at h; omega

theorem readU32?_isSome_of_long (bs : Bytes) (h : 4 ≤ bs.length) : ∃ n, readU32? bs = some n ∧ n < 4294967296 := by
  match bs, h with
  | a :: b :: c :: d :: _, _ =>
    refine ⟨_, rfl, ?_⟩
    have := a.toNat_lt; have := b.toNat_lt; have := c.toNat_lt; have := d.toNat_lt
    omega
  | [], h => simp at h
  | [_], h => simp at h
  | [_, _], h => simp at h
  | [_, _, _], h => simp at h

/-- length ++ body ++ crc(length ++ body): the shape of every journal record. -/
def frame (body : Bytes) : Bytes :=
  let b := be32 (body.length + 8) ++ body
  b ++ be32 (crc32c b).toNat

theorem length_frame (body : Bytes) : (frame body).length = body.length + 8 := by
  simp [frame, length_be32]; omega

theorem readU32?_frame (body rest : Bytes) (h : body.length + 8 < 4294967296) :
    readU32? (frame body ++ rest) = some (body.length + 8) := by
  simp only [frame, List.append_assoc]
  exact readU32?_be32 _ h _

theorem validate_ok_of (buf : Bytes) (l c : Nat) (h8 : 8 ≤ buf.length) (hr : readU32? buf = some l)
    (hle : l ≤ buf.length) (h4 : 4 ≤ l) (hc : readU32? (buf.drop (l - 4)) = some c)
    (hcrc : (crc32c (buf.take (l - 4))).toNat = c) : validate buf = .ok () := by
  unfold validate
  have h1 : ¬ (buf.length < lenSz + checksumSz) := by simp [lenSz, checksumSz]; omega
  have h2 : ¬ (l > buf.length) := by omega
  have h3 : ¬ (l < checksumSz) := by simp [checksumSz]; omega
  rw [if_neg h1, hr]
  simp only []
  rw [if_neg h2, if_neg h3]
  simp only [checksumSz, hc, hcrc, if_true]

theorem isValid_frame (body : Bytes) (h : body.length + 8 < 4294967296) : isValid (frame body) = true := by
  have hl := length_frame body
  have hr := readU32?_frame body [] h
  simp only [List.append_nil] at hr
  have hlen : (be32 (body.length + 8) ++ body).length = body.length + 8 - 4 := by
    simp [length_be32]; omega
  have hd : (frame body).drop (body.length + 8 - 4) = be32 (crc32c (be32 (body.length + 8) ++ body)).toNat := by
    unfold frame; simp only []; rw [← hlen]; exact List.drop_left
  have ht : (frame body).take (body.length + 8 - 4) = be32 (body.length + 8) ++ body := by
    unfold frame; simp only []; rw [← hlen]; exact List.take_left
  have hc := readU32?_be32 (crc32c (be32 (body.length + 8) ++ body)).toNat (UInt32.toNat_lt _) []
  simp only [List.append_nil] at hc
  have hv := validate_ok_of (frame body) (body.length + 8) _ (by omega) hr (by omega) (by omega) (by rw [hd]; exact hc) (by rw [ht])
  unfold isValid
  rw [hv]

theorem take_frame_append (body rest : Bytes) : (frame body ++ rest).take (body.length + 8) = frame body := by
  rw [← length_frame body]; exact List.take_left

theorem drop_frame_append (body rest : Bytes) : (frame body ++ rest).drop (body.length + 8) = rest := by
  rw [← length_frame body]; exact List.drop_left

/-! ### the two record shapes are frames -/

def chunkBody (a p : Bytes) : Bytes := [tagKind, UInt8.ofNat kindChunk, tagAddr] ++ a ++ [tagPayload] ++ p
def rootBody (a : Bytes) (ts : Nat) : Bytes := [tagKind, UInt8.ofNat kindRoot, tagTimestamp] ++ be64 ts ++ [tagAddr] ++ a

theorem length_be64 (n : Nat) : (be64 n).length = 8 := rfl

theorem encodeChunk_eq_frame (a p : Bytes) (ha : a.length = 20) : encodeChunk a p = frame (chunkBody a p) := by
  have hl : chunkRecSz p.length = (chunkBody a p).length + 8 := by
    simp [chunkRecSz, chunkPayloadOff, chunkBody, lenSz, addrSz, checksumSz, ha]; omega
  unfold encodeChunk frame
  simp only [hl]
  simp [chunkBody]

theorem encodeRoot_eq_frame (a : Bytes) (ts : Nat) (ha : a.length = 20) : encodeRoot a ts = frame (rootBody a ts) := by
  have hl : rootRecSz = (rootBody a ts).length + 8 := by
    simp [rootRecSz, rootBody, lenSz, addrSz, checksumSz, timestampSz, ha, length_be64]
  unfold encodeRoot frame
  simp only [hl]
  simp [rootBody]

/-- what the writer can produce: 20-byte addresses, lengths that fit the uint32 length field,
a uint64 timestamp -/
def Rec.Fits : Rec → Prop
  | .chunk a p => a.length = 20 ∧ chunkRecSz p.length < 4294967296
  | .root a ts => a.length = 20 ∧ ts < 18446744073709551616

def Rec.body : Rec → Bytes
  | .chunk a p => chunkBody a p
  | .root a ts => rootBody a ts

theorem Rec.encode_eq_frame (r : Rec) (h : r.Fits) : r.encode = frame r.body := by
  cases r with
  | chunk a p => exact encodeChunk_eq_frame a p h.1
  | root a ts => exact encodeRoot_eq_frame a ts h.1

theorem Rec.body_length_lt (r : Rec) (h : r.Fits) : r.body.length + 8 < 4294967296 := by
  cases r with
  | chunk a p =>
    have := h.2
    simp [Rec.body, chunkBody, chunkRecSz, chunkPayloadOff, lenSz, addrSz, checksumSz, h.1] at *
    omega
  | root a ts =>
    simp [Rec.body, rootBody, h.1, length_be64]

theorem Rec.length_encode (r : Rec) (h : r.Fits) : r.encode.length = r.body.length + 8 := by
  rw [r.encode_eq_frame h, length_frame]

theorem Rec.length_encode_chunk (a p : Bytes) (h : (Rec.chunk a p).Fits) : (Rec.chunk a p).encode.length = chunkRecSz p.length := by
  rw [Rec.length_encode _ h]
  simp [Rec.body, chunkBody, chunkRecSz, chunkPayloadOff, lenSz, addrSz, checksumSz, h.1]; omega

theorem Rec.length_encode_root (a : Bytes) (ts : Nat) (h : (Rec.root a ts).Fits) : (Rec.root a ts).encode.length = 40 := by
  rw [Rec.length_encode _ h]
  simp [Rec.body, rootBody, h.1, length_be64]

end DoltVerif.Journal
