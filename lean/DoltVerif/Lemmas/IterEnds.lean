/-
The two end cursors: `newCursorAtStart` is the search cursor of the always-true predicate;
`newCursorPastEnd` is NOT a search cursor (every level invalidated) — facts about both.
-/
import DoltVerif.Lemmas.CursorOrder
import DoltVerif.Lemmas.OrdinalPath
namespace DoltVerif.Prolly
open DoltVerif.SortedDict

variable {κ ν : Type} [Inhabited κ]

theorem psearch_true (keys : List κ) : psearch (fun _ => true) keys = 0 := by
  unfold psearch sortSearch
  cases h : keys.length with
  | zero => unfold bsearch; simp
  | succ m =>
    -- the predicate is true everywhere: the boundary is 0
    have hm : ∀ a b : Nat, a ≤ b → (fun i : Nat => match keys[i]? with | some _ => true | none => true) a = true →
        (fun i : Nat => match keys[i]? with | some _ => true | none => true) b = true := by
      intro a b _ _; simp only; split <;> rfl
    obtain ⟨_, h2, _⟩ := sortSearch_spec (m+1) _ hm
    unfold sortSearch at h2
    rcases Nat.eq_zero_or_pos (bsearch (fun i => match keys[i]? with | some _ => true | none => true) 0 (m+1)) with h0 | hpos
    · exact h0
    · have h00 := h2 0 hpos
      cases hk : keys[0]? <;> simp [hk] at h00

theorem mono_true (cmp : κ → κ → Ordering) : Mono cmp (fun _ => true) := fun _ _ _ _ => rfl

/-- `newCursorAtStart` = the search cursor of the always-true predicate -/
theorem seekPath_true : ∀ (n : Nat) (nd : NodeH κ ν n), WFNode n nd → (n = 0 ∨ nd ≠ []) →
    seekPath (psearch (fun _ => true)) n nd = some (startPath n)
  | 0, nd, _, _ => by simp [seekPath, psearch_true, startPath]
  | n+1, nd, hwf, hne => by
    have hne : nd ≠ [] := by rcases hne with h | h; exact absurd h (by simp); exact h
    rw [seekPath_succ, psearch_true]
    have h0 : min 0 (nd.length - 1) = 0 := by omega
    rw [h0]
    cases nd with
    | nil => exact absurd rfl hne
    | cons it rest =>
      simp only [List.getElem?_cons_zero]
      obtain ⟨hch, _, _, hwfc⟩ := hwf it (by simp)
      rw [seekPath_true n (childOf it) hwfc (Or.inr hch)]
      simp [startPath, List.replicate_succ]

/-- `newCursorPastEnd` compares above every cursor whose root index is in bounds and whose leaf
index (at height 0) is below `Count` -/
theorem cmpPath_pastEnd_lt (n : Nat) (nd : NodeH κ ν n) (i : Nat) (rest : List Nat) (hi : i < nd.length) :
    cmpPath (i :: rest) (pastEndPath n nd) = .lt := by
  cases n with
  | zero => simp [pastEndPath, cmpPath, hi]
  | succ n => simp [pastEndPath, cmpPath, hi]

end DoltVerif.Prolly
