import DoltVerif.Lemmas.DagClosure
/-! Merge bases (family Dag, C19): the closure merge-walk.  Core Lean only. -/
namespace DoltVerif.Dag

/-- strictly descending key lists -/
abbrev Desc (l : List Key) : Prop := l.Pairwise (fun a b => klt b a)

theorem desc_head_max {k : Key} {r : List Key} (h : Desc (k :: r)) {x : Key} (hx : x ∈ k :: r) :
    x = k ∨ klt x k := by
  cases hx with
  | head => exact .inl rfl
  | tail _ hx' => exact .inr ((List.pairwise_cons.1 h).1 x hx')

/-- The merge-walk over two strictly descending key lists in which an address determines its key
finds the greatest common key, and finds nothing only when the lists are disjoint. -/
theorem mergeWalk_spec : ∀ (l1 l2 : List Key), Desc l1 → Desc l2 →
    (∀ k1 ∈ l1, ∀ k2 ∈ l2, k1.2 = k2.2 → k1 = k2) →
    (∀ a, mergeWalk l1 l2 = some a →
      ∃ k, k ∈ l1 ∧ k ∈ l2 ∧ k.2 = a ∧ ∀ k', k' ∈ l1 → k' ∈ l2 → k' = k ∨ klt k' k) ∧
    (mergeWalk l1 l2 = none → ∀ k, k ∈ l1 → k ∉ l2)
  | [], l2, _, _, _ => by simp [mergeWalk]
  | k1 :: r1, [], _, _, _ => by simp [mergeWalk]
  | k1 :: r1, k2 :: r2, h1, h2, hk => by
    have e : mergeWalk (k1 :: r1) (k2 :: r2) =
        if k1.2 = k2.2 then some k1.2 else if klt k1 k2 then mergeWalk (k1 :: r1) r2 else mergeWalk r1 (k2 :: r2) := by
      rw [mergeWalk]
    rw [e]
    by_cases heq : k1.2 = k2.2
    · rw [if_pos heq]
      have hkk : k1 = k2 := hk k1 List.mem_cons_self k2 List.mem_cons_self heq
      subst hkk
      refine ⟨?_, fun h => by cases h⟩
      intro a ha
      cases ha
      exact ⟨k1, List.mem_cons_self, List.mem_cons_self, rfl, fun k' h1' _ => desc_head_max h1 h1'⟩
    · rw [if_neg heq]
      by_cases hlt : klt k1 k2
      · rw [if_pos hlt]
        have hnot : k2 ∉ k1 :: r1 := by
          intro hm
          rcases desc_head_max h1 hm with h | h
          · subst h; exact klt_irrefl _ hlt
          · exact klt_asymm hlt h
        have ih := mergeWalk_spec (k1 :: r1) r2 h1 (List.pairwise_cons.1 h2).2
          (fun a ha b hb => hk a ha b (List.mem_cons_of_mem _ hb))
        refine ⟨?_, ?_⟩
        · intro a ha
          obtain ⟨k, hk1, hk2, hka, hmax⟩ := ih.1 a ha
          refine ⟨k, hk1, List.mem_cons_of_mem _ hk2, hka, ?_⟩
          intro k' h1' h2'
          cases h2' with
          | head => exact absurd h1' hnot
          | tail _ h2'' => exact hmax k' h1' h2''
        · intro hn k h1' h2'
          cases h2' with
          | head => exact hnot h1'
          | tail _ h2'' => exact ih.2 hn k h1' h2''
      · rw [if_neg hlt]
        have hgt : klt k2 k1 := by
          rcases klt_trichotomy k1 k2 with h | h | h
          · exact absurd h hlt
          · subst h; exact absurd rfl heq
          · exact h
        have hnot : k1 ∉ k2 :: r2 := by
          intro hm
          rcases desc_head_max h2 hm with h | h
          · subst h; exact klt_irrefl _ hgt
          · exact klt_asymm hgt h
        have ih := mergeWalk_spec r1 (k2 :: r2) (List.pairwise_cons.1 h1).2 h2
          (fun a ha b hb => hk a (List.mem_cons_of_mem _ ha) b hb)
        refine ⟨?_, ?_⟩
        · intro a ha
          obtain ⟨k, hk1, hk2, hka, hmax⟩ := ih.1 a ha
          refine ⟨k, List.mem_cons_of_mem _ hk1, hk2, hka, ?_⟩
          intro k' h1' h2'
          cases h1' with
          | head => exact absurd h2' hnot
          | tail _ h1'' => exact hmax k' h1'' h2'
        · intro hn k h1' h2'
          cases h1' with
          | head => exact hnot h2'
          | tail _ h1'' => exact ih.2 hn k h1'' h2'
termination_by l1 l2 => l1.length + l2.length

/-- symmetric by construction on such lists -/
theorem mergeWalk_comm (l1 l2 : List Key) (h1 : Desc l1) (h2 : Desc l2)
    (hk : ∀ k1 ∈ l1, ∀ k2 ∈ l2, k1.2 = k2.2 → k1 = k2) : mergeWalk l1 l2 = mergeWalk l2 l1 := by
  have s1 := mergeWalk_spec l1 l2 h1 h2 hk
  have s2 := mergeWalk_spec l2 l1 h2 h1 (fun a ha b hb he => (hk b hb a ha he.symm).symm)
  cases e1 : mergeWalk l1 l2 with
  | none =>
    cases e2 : mergeWalk l2 l1 with
    | none => rfl
    | some b =>
      obtain ⟨k, hk2, hk1, _, _⟩ := s2.1 b e2
      exact absurd hk2 (s1.2 e1 k hk1)
  | some a =>
    obtain ⟨k, hk1, hk2, hka, hmax⟩ := s1.1 a e1
    cases e2 : mergeWalk l2 l1 with
    | none => exact absurd hk1 (s2.2 e2 k hk2)
    | some b =>
      obtain ⟨k', hk2', hk1', hka', hmax'⟩ := s2.1 b e2
      rcases hmax k' hk1' hk2' with e | e
      · subst e; rw [← hka, ← hka']
      · rcases hmax' k hk2 hk1 with e' | e'
        · subst e'; rw [← hka, ← hka']
        · exact absurd e (klt_asymm e')

/-! ### the descending key list of a stored commit = its ancestors-or-self -/

theorem ancStar_height_le {g : Graph} (hi : Inv g) {a c : Addr} (h : AncStar g a c) {ac cc : Commit}
    (ha : lookup g a = some ac) (hc : lookup g c = some cc) : ac.height ≤ cc.height ∧ (ac.height = cc.height → a = c) := by
  rcases h with ⟨he, _⟩ | h
  · subst he; rw [ha] at hc; cases hc; exact ⟨Nat.le_refl _, fun _ => rfl⟩
  · have := height_anc_lt hi h ha hc
    exact ⟨Nat.le_of_lt this, fun he => by omega⟩

theorem descKeys_mem_iff {g : Graph} (hi : Inv g) {c : Commit} (hm : c ∈ g) {k : Key} :
    k ∈ descKeys c ↔ ∃ ac, AncStar g ac.addr c.addr ∧ lookup g ac.addr = some ac ∧ k = ac.key := by
  have hself := lookup_self_of_inv hi hm
  unfold descKeys
  rw [List.mem_cons, List.mem_reverse, closure_mem_iff hi hm]
  constructor
  · rintro (h | ⟨ac, h1, h2, h3⟩)
    · exact ⟨c, .inl ⟨rfl, by rw [hself]; rfl⟩, hself, h⟩
    · exact ⟨ac, .inr h1, h2, h3⟩
  · rintro ⟨ac, h1 | h1, h2, h3⟩
    · left
      rw [h1.1, hself] at h2
      cases h2
      exact h3
    · exact .inr ⟨ac, h1, h2, h3⟩

theorem descKeys_desc {g : Graph} (hi : Inv g) {c : Commit} (hm : c ∈ g) : Desc (descKeys c) := by
  have hself := lookup_self_of_inv hi hm
  unfold descKeys Desc
  rw [List.pairwise_cons]
  constructor
  · intro k hk
    rw [List.mem_reverse] at hk
    obtain ⟨ac, h1, h2, h3⟩ := (closure_mem_iff hi hm).1 hk
    have := height_anc_lt hi h1 h2 hself
    subst h3
    exact .inl this
  · rw [List.pairwise_reverse]
    exact closure_sorted hi hm

theorem descKeys_addr_key {g : Graph} (hi : Inv g) {c1 c2 : Commit} (h1 : c1 ∈ g) (h2 : c2 ∈ g) :
    ∀ k1 ∈ descKeys c1, ∀ k2 ∈ descKeys c2, k1.2 = k2.2 → k1 = k2 := by
  intro k1 hk1 k2 hk2 he
  obtain ⟨a1, _, hl1, e1⟩ := (descKeys_mem_iff hi h1).1 hk1
  obtain ⟨a2, _, hl2, e2⟩ := (descKeys_mem_iff hi h2).1 hk2
  subst e1 e2
  have : a1.addr = a2.addr := he
  rw [this, hl2] at hl1
  cases hl1
  rfl

end DoltVerif.Dag
