import DoltVerif.Model.ManStore
/-! Helper lemmas about the ManStore model shared by Props/C02 and Props/C07. -/
namespace DoltVerif.ManStore

/-! ### `Disk.update` is a compare-and-swap on the lock -/

theorem update_cases (d : Disk) (l : Lock) (n : Contents) :
    ((d.update l n).1 = d ∧ ∀ c, (d.update l n).2 ≠ .wrote c) ∨
    ((d.update l n).1 = { d with manifest := some n } ∧ (d.update l n).2 = .wrote n ∧ d.lock = l ∧ n.lock ≠ none) := by
  unfold Disk.update
  split
  · simp
  · rename_i h0
    have hn : n.lock ≠ none := by intro h; simp [h] at h0
    split
    · rename_i hm
      split
      · simp
      · rename_i h1
        have hl : l = none := by cases l <;> simp_all
        split
        · right; simp [Disk.lock, hm, hl, hn]
        · simp
    · rename_i up hm
      split
      · simp
      · rename_i h1
        have hl : l = up.lock := by simpa using h1
        split
        · right; simp [Disk.lock, hm, hl, hn]
        · simp

theorem update_files (d : Disk) (l : Lock) (n : Contents) : (d.update l n).1.files = d.files := by
  rcases update_cases d l n with ⟨h, _⟩ | ⟨h, _⟩ <;> rw [h]

theorem update_stale (d : Disk) (l : Lock) (n up : Contents) (h : (d.update l n).2 = .stale up) :
    d.manifest = some up ∧ (d.update l n).1 = d := by
  unfold Disk.update at h ⊢
  split at h
  · simp at h
  · split at h
    · split at h
      · simp at h
      · split at h <;> simp at h
    · rename_i up' hm
      split at h
      · rename_i h1
        simp at h
        subst h
        simp_all
      · split at h <;> simp at h

/-! ### well-formed contents: the lock determines the root -/

/-- the lock of a manifest is the lock hash of its own root (and specs); the zero lock goes with the
zero root (a store that has never seen a manifest) -/
def Contents.WF (c : Contents) : Prop :=
  match c.lock with
  | none => c.root = 0
  | some (r, _) => r = c.root

theorem Contents.WF.root_eq {a b : Contents} (ha : a.WF) (hb : b.WF) (h : a.lock = b.lock) : a.root = b.root := by
  unfold Contents.WF at ha hb
  rw [h] at ha
  cases hl : b.lock with
  | none => rw [hl] at ha hb; simp only at ha hb; rw [ha, hb]
  | some p => obtain ⟨r, s⟩ := p; rw [hl] at ha hb; simp only at ha hb; rw [← ha, ← hb]

theorem initial_wf : Contents.initial.WF := by simp [Contents.WF, Contents.initial]

theorem mk_wf (r : Addr) (s : List Table) : ({ root := r, lock := mkLock r s, specs := s } : Contents).WF := by
  simp [Contents.WF, mkLock]

theorem mkLock_ne_none (r : Addr) (s : List Table) : mkLock r s ≠ none := by simp [mkLock]

/-! ### handle-level facts -/

theorem rebaseTo_upstream (h : Handle) (c : Contents) : (h.rebaseTo c).upstream = c := rfl
theorem rebaseTo_pc (h : Handle) (c : Contents) : (h.rebaseTo c).pc = h.pc := rfl
theorem rebaseTo_opened (h : Handle) (c : Contents) : (h.rebaseTo c).opened = h.opened := rfl

theorem rebase_cases (d : Disk) (h : Handle) :
    (h.rebase d).1 = h ∨ ∃ m, d.manifest = some m ∧ (h.rebase d).1 = h.rebaseTo m ∧ (h.rebase d).2 = none := by
  unfold Handle.rebase
  cases hm : d.manifest with
  | none => simp
  | some m =>
    by_cases h1 : m.lock == h.upstream.lock
    · simp [h1]
    · by_cases h2 : canOpen d h m.specs
      · right; exact ⟨m, rfl, by simp [h1, h2], by simp [h1, h2]⟩
      · simp [h1, h2]

theorem flushed_upstream (env : Env) (h : Handle) (m : Mem) (x : Option Mem) : (flushed env h m x).upstream = h.upstream := rfl
theorem flushed_pc (env : Env) (h : Handle) (m : Mem) (x : Option Mem) : (flushed env h m x).pc = h.pc := rfl
theorem flushed_upTables (env : Env) (h : Handle) (m : Mem) (x : Option Mem) : (flushed env h m x).upTables = h.upTables := rfl

theorem put_upstream (env : Env) (h : Handle) (a : Addr) : (h.put env a).1.upstream = h.upstream := by
  unfold Handle.put; simp only []; repeat' split
  all_goals simp [flushed]

theorem put_pc (env : Env) (h : Handle) (a : Addr) : (h.put env a).1.pc = h.pc := by
  unfold Handle.put; simp only []; repeat' split
  all_goals simp [flushed]

theorem flushForCommit_fields (env : Env) (h h1 : Handle) (hf : h.flushForCommit env = some h1) :
    h1.upstream = h.upstream ∧ h1.pc = h.pc ∧ h1.upTables = h.upTables ∧ h1.opened = h.opened ∧ h1.memMax = h.memMax := by
  unfold Handle.flushForCommit at hf
  split at hf
  · simp at hf; subst hf; simp
  · split at hf
    · simp at hf; subst hf; simp
    · split at hf
      · simp at hf; subst hf; simp [flushed]
      · simp at hf

theorem noteRoot_fields (h : Handle) (cur : Addr) :
    (h.noteRoot cur).upstream = h.upstream ∧ (h.noteRoot cur).pc = h.pc ∧ (h.noteRoot cur).upTables = h.upTables ∧
    (h.noteRoot cur).novel = h.novel ∧ (h.noteRoot cur).mem = h.mem ∧ (h.noteRoot cur).opened = h.opened := by
  unfold Handle.noteRoot; split <;> simp

/-- what `prepare` can do to the fields the CAS argument looks at -/
theorem prepare_cases (env : Env) (h : Handle) (cur last : Addr) :
    (h.prepare env cur last).1.upstream = h.upstream ∧
    (((h.prepare env cur last).2 ≠ .parked ∧ (h.prepare env cur last).2 ≠ .ok true ∧ (h.prepare env cur last).1.pc = h.pc) ∨
     ((h.prepare env cur last).2 = .parked ∧ h.upstream.root = last ∧
        ∃ specs, (h.prepare env cur last).1.pc =
          some { cur := cur, last := last, new := { root := cur, lock := mkLock cur specs, specs := specs } })) := by
  unfold Handle.prepare
  split
  · simp
  · rename_i h0
    have hl : h.upstream.root = last := by simpa using h0
    split
    · simp
    · rename_i h1 hf
      have hfs := flushForCommit_fields env h h1 hf
      split
      · simp [hfs.1, hfs.2.1]
      · refine ⟨?_, Or.inr ⟨rfl, hl, _, rfl⟩⟩
        simp [Handle.park, (noteRoot_fields h1 cur).1, hfs.1]

end DoltVerif.ManStore
