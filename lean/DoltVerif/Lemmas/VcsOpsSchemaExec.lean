import DoltVerif.Lemmas.VcsOpsExec
/-!
Execution of the schema statements of a patch (`ALTER TABLE … DROP` for every removed column, then
`ALTER TABLE … ADD` for every new one) and of the data statements across a changed column list.
-/
namespace DoltVerif.VcsOps

/-! ### DROP COLUMN -/

theorem filter_name_ne_self (cs : List Col) (cn : String) (h : cn ∉ cs.map (·.name)) :
    cs.filter (fun c' => c'.name ≠ cn) = cs := by
  apply List.filter_eq_self.mpr
  intro c hc
  simp only [ne_eq, decide_not, Bool.not_eq_eq_eq_not, Bool.not_true, decide_eq_false_iff_not]
  intro e
  exact h (e ▸ List.mem_map_of_mem hc)

theorem dropCell_map (cur : List Col) (f : Col → Val) (cn : String) (hn : (cur.map (·.name)).Nodup) :
    dropCell cur (cur.map f) cn = (cur.filter (fun c' => c'.name ≠ cn)).map f := by
  induction cur with
  | nil => rfl
  | cons c cs ih =>
    have hn' := List.nodup_cons.mp (by simpa using hn : (c.name :: cs.map (·.name)).Nodup)
    simp only [List.map_cons, dropCell]
    by_cases e : c.name = cn
    · subst e
      simp only [if_true]
      rw [List.filter_cons]
      simp only [ne_eq, not_true_eq_false, decide_false, Bool.false_eq_true, if_false]
      rw [filter_name_ne_self cs c.name hn'.1]
    · simp only [e, if_false]
      rw [List.filter_cons]
      simp only [ne_eq, e, not_false_eq_true, decide_true, if_true, List.map_cons]
      rw [ih hn'.2]

/-- the columns that survive dropping the names of `ds` -/
def keepCols (cur ds : List Col) : List Col := cur.filter (fun c' => ds.all (fun d => decide (c'.name ≠ d.name)))

theorem keepCols_nil (cur : List Col) : keepCols cur [] = cur := by
  simp [keepCols]

theorem keepCols_cons (cur : List Col) (d : Col) (ds : List Col) :
    keepCols (cur.filter (fun c' => c'.name ≠ d.name)) ds = keepCols cur (d :: ds) := by
  simp only [keepCols, List.filter_filter, List.all_cons]
  apply List.filter_congr
  intro c _
  simp only [ne_eq, decide_not, Bool.and_comm]

theorem nodup_names_filter (cur : List Col) (p : Col → Bool) (h : (cur.map (·.name)).Nodup) :
    ((cur.filter p).map (·.name)).Nodup :=
  List.Nodup.sublist (List.Sublist.map _ List.filter_sublist) h

theorem execTs_drops (n : String) (g : Row → Col → Val) (rows : List (Int × Row)) (ds : List Col) :
    ∀ cur : List Col, (cur.map (·.name)).Nodup → (ds.map (·.name)).Nodup →
      (∀ d ∈ ds, d.name ∈ cur.map (·.name)) →
      execTs (some ⟨cur, rows.map (fun kr => (kr.1, cur.map (g kr.2)))⟩) (ds.map (fun d => Stmt.dropCol n d.name))
        = some (some ⟨keepCols cur ds, rows.map (fun kr => (kr.1, (keepCols cur ds).map (g kr.2)))⟩) := by
  induction ds with
  | nil => intro cur _ _ _; simp [keepCols_nil]
  | cons d rest ih =>
    intro cur hcur hds hsub
    have hds' := List.nodup_cons.mp (by simpa using hds : (d.name :: rest.map (·.name)).Nodup)
    rw [List.map_cons, execTs_cons]
    have hany : cur.any (fun c' => decide (c'.name = d.name)) = true := by
      have := hsub d List.mem_cons_self
      obtain ⟨c, hc, e⟩ := List.mem_map.mp this
      exact List.any_eq_true.mpr ⟨c, hc, by simp [e]⟩
    have hstep : execT (some ⟨cur, rows.map (fun kr => (kr.1, cur.map (g kr.2)))⟩) (Stmt.dropCol n d.name)
        = some (some ⟨cur.filter (fun c' => c'.name ≠ d.name),
            rows.map (fun kr => (kr.1, (cur.filter (fun c' => c'.name ≠ d.name)).map (g kr.2)))⟩) := by
      simp only [execT, hany, if_true, List.map_map]
      congr 3
      apply List.map_congr_left
      intro kr _
      simp only [Function.comp]
      rw [dropCell_map cur (g kr.2) d.name hcur]
    rw [hstep]
    simp only [Option.bind_some]
    have hsub' : ∀ d' ∈ rest, d'.name ∈ (cur.filter (fun c' => c'.name ≠ d.name)).map (·.name) := by
      intro d' hd'
      obtain ⟨c, hc, e⟩ := List.mem_map.mp (hsub d' (List.mem_cons_of_mem _ hd'))
      refine List.mem_map.mpr ⟨c, List.mem_filter.mpr ⟨hc, ?_⟩, e⟩
      simp only [ne_eq, decide_not, Bool.not_eq_eq_eq_not, Bool.not_true, decide_eq_false_iff_not]
      intro e'
      exact hds'.1 (by rw [← e', e]; exact List.mem_map_of_mem hd')
    rw [ih _ (nodup_names_filter cur _ hcur) hds'.2 hsub', keepCols_cons]

/-! ### ADD COLUMN -/

theorem execTs_adds (n : String) (as : List Col) :
    ∀ (cur : List Col) (rows : List (Int × Row)), ((cur ++ as).map (·.name)).Nodup →
      execTs (some ⟨cur, rows⟩) (as.map (fun c => Stmt.addCol n c))
        = some (some ⟨cur ++ as, rows.map (fun kr => (kr.1, kr.2 ++ List.replicate as.length Val.null))⟩) := by
  induction as with
  | nil => intro cur rows _; simp
  | cons c rest ih =>
    intro cur rows hn
    rw [List.map_cons, execTs_cons]
    have hnot : cur.any (fun c' => decide (c'.name = c.name)) = false := by
      rw [List.any_eq_false]
      intro c' hc'
      simp only [decide_eq_true_eq]
      intro e
      have hn2 : ((cur.map (·.name)) ++ (c.name :: rest.map (·.name))).Nodup := by simpa using hn
      have := (List.nodup_append.mp hn2).2.2 c'.name (List.mem_map_of_mem hc') c.name List.mem_cons_self
      exact this e
    simp only [execT, hnot, Bool.false_eq_true, if_false, Option.bind_some]
    have hn' : (((cur ++ [c]) ++ rest).map (·.name)).Nodup := by simpa using hn
    rw [ih (cur ++ [c]) _ hn']
    simp only [List.append_assoc, List.singleton_append, List.map_map]
    congr 3
    apply List.map_congr_left
    intro kr _
    simp [Function.comp, List.replicate_succ]

/-! ### re-laying rows -/

theorem cellOf_not_mem (src : List Col) (r : Row) (c : Col) (h : c ∉ src) : cellOf src r c = Val.null := by
  induction src generalizing r with
  | nil => simp [cellOf]
  | cons c' cs ih =>
    cases r with
    | nil => simp [cellOf]
    | cons v vs =>
      have hne : ¬ c' = c := fun e => h (e ▸ List.mem_cons_self)
      simp only [cellOf, hne, if_false]
      exact ih vs (fun h' => h (List.mem_cons_of_mem _ h'))

theorem get_projRows (src dst : List Col) (rows : List (Int × Row)) (k : Int) :
    get (projRows src dst rows) k = (get rows k).map (projRow src dst) := by
  induction rows with
  | nil => rfl
  | cons kv rest ih =>
    obtain ⟨k', v⟩ := kv
    simp only [projRows, List.map_cons, get]
    by_cases e : k' = k
    · simp [e]
    · simp only [e, if_false]; exact ih

/-! ### data statements across a changed column list -/

/-- rows whose stored tuples coincide are equal after re-laying (false e.g. when a dropped leading
column held the value the next column now has — then dolt's diff misses the row, design/C32.md) -/
def NoTupleAlias (ft tt : Table) : Prop :=
  ∀ k fr tr, get ft.rows k = some fr → get tt.rows k = some tr → trimNulls fr = trimNulls tr →
    projRow ft.cols tt.cols fr = tr

theorem execTs_dataU (n : String) (ft tt : Table) (hnn : (tt.cols.map (·.name)).Nodup)
    (hlt : ∀ k r, get tt.rows k = some r → r.length = tt.cols.length)
    (halias : NoTupleAlias ft tt) (ks : List Int) (hks : ks.Nodup) :
    ∀ (cur : List (Int × Row)), Sorted ltInt (keys cur) →
      (∀ k ∈ ks, get cur k = (get ft.rows k).map (projRow ft.cols tt.cols)) →
    ∃ cur', execTs (some ⟨tt.cols, cur⟩)
        ((ks.filterMap (fun k => diffKeyU k (get ft.rows k) (get tt.rows k))).flatMap (dataStmt n ft.cols tt.cols))
        = some (some ⟨tt.cols, cur'⟩) ∧ Sorted ltInt (keys cur') ∧
      (∀ k ∈ ks, get cur' k = get tt.rows k) ∧ (∀ k, k ∉ ks → get cur' k = get cur k) := by
  induction ks with
  | nil =>
    intro cur hcur _
    exact ⟨cur, rfl, hcur, (fun k hk => absurd hk List.not_mem_nil), (fun _ _ => rfl)⟩
  | cons k rest ih =>
    intro cur hcur hinv
    have hkn := List.nodup_cons.mp hks
    have hk := hinv k List.mem_cons_self
    have hinvr : ∀ k' ∈ rest, get cur k' = (get ft.rows k').map (projRow ft.cols tt.cols) :=
      fun k' h' => hinv k' (List.mem_cons_of_mem _ h')
    rw [List.filterMap_cons]
    cases hd : diffKeyU k (get ft.rows k) (get tt.rows k) with
    | none =>
      have heq : get cur k = get tt.rows k := by
        rw [hk]
        cases hf : get ft.rows k with
        | none =>
          cases ht : get tt.rows k with
          | none => rfl
          | some tr => rw [hf, ht] at hd; simp [diffKeyU] at hd
        | some fr =>
          cases ht : get tt.rows k with
          | none => rw [hf, ht] at hd; simp [diffKeyU] at hd
          | some tr =>
            rw [hf, ht] at hd
            simp only [diffKeyU] at hd
            split at hd
            · next htrim => simp [halias k fr tr hf ht htrim]
            · cases hd
      obtain ⟨cur', h1, h2, h3, h4⟩ := ih hkn.2 cur hcur hinvr
      refine ⟨cur', h1, h2, ?_, ?_⟩
      · intro k' hk'
        rcases List.mem_cons.mp hk' with e | h'
        · subst e; rw [h4 k' hkn.1, heq]
        · exact h3 k' h'
      · intro k' hk'
        exact h4 k' (fun h' => hk' (List.mem_cons_of_mem _ h'))
    | some d =>
      obtain ⟨hpk, hfrom, hto, _⟩ := diffKeyU_some k _ _ d hd
      simp only [List.flatMap_cons]
      rw [execTs_append]
      have step : ∃ cur1, execTs (some ⟨tt.cols, cur⟩) (dataStmt n ft.cols tt.cols d) = some (some ⟨tt.cols, cur1⟩) ∧
          Sorted ltInt (keys cur1) ∧ get cur1 k = get tt.rows k ∧ ∀ k', k' ≠ k → get cur1 k' = get cur k' := by
        cases hf : get ft.rows k with
        | none =>
          cases ht : get tt.rows k with
          | none => rw [hf, ht] at hd; simp [diffKeyU] at hd
          | some tr =>
            rw [hf, ht] at hd
            simp only [diffKeyU, Option.some.injEq] at hd
            subst hd
            have hcurk : get cur k = none := by rw [hk, hf]; rfl
            refine ⟨putRow cur k tr, ?_, sorted_put strictTotal_ltInt cur k tr hcur, ?_, ?_⟩
            · simp only [dataStmt, execTs_cons, execT, has, hcurk, Option.isSome_none, Bool.false_or,
                hlt k tr ht, ne_eq, not_true_eq_false, decide_false, Bool.false_eq_true, if_false, Option.bind_some,
                execTs_nil]
            · simp [putRow, get_put]
            · intro k' hk'
              have : ¬ k = k' := fun e => hk' e.symm
              simp [putRow, get_put, this]
        | some fr =>
          have hcurk : get cur k = some (projRow ft.cols tt.cols fr) := by rw [hk, hf]; rfl
          cases ht : get tt.rows k with
          | none =>
            rw [hf, ht] at hd
            simp only [diffKeyU, Option.some.injEq] at hd
            subst hd
            refine ⟨del cur k, ?_, sorted_del cur k hcur, ?_, ?_⟩
            · simp [dataStmt, execTs_cons, execT]
            · simp [get_del strictTotal_ltInt cur k k hcur]
            · intro k' hk'
              have : ¬ k = k' := fun e => hk' e.symm
              simp [get_del strictTotal_ltInt cur k k' hcur, this]
          | some tr =>
            rw [hf, ht] at hd
            simp only [diffKeyU] at hd
            split at hd
            · cases hd
            · simp only [Option.some.injEq] at hd
              subst hd
              have hlen : (projRow ft.cols tt.cols fr).length = tt.cols.length := by simp [projRow]
              have happ := applySets_changedSets tt.cols (projRow ft.cols tt.cols fr) tr hnn hlen (hlt k tr ht)
              by_cases hemp : (changedSets tt.cols (projRow ft.cols tt.cols fr) tr).isEmpty = true
              · have hnil := List.isEmpty_iff.mp hemp
                have hfrtr : projRow ft.cols tt.cols fr = tr := by
                  rw [hnil] at happ; simpa [applySets] using happ
                refine ⟨cur, ?_, hcur, ?_, fun _ _ => rfl⟩
                · simp [dataStmt, hemp]
                · rw [hcurk, hfrtr]
              · refine ⟨putRow cur k tr, ?_, sorted_put strictTotal_ltInt cur k tr hcur, ?_, ?_⟩
                · simp [dataStmt, hemp, execTs_cons, execT, hcurk, happ]
                · simp [putRow, get_put]
                · intro k' hk'
                  have : ¬ k = k' := fun e => hk' e.symm
                  simp [putRow, get_put, this]
      obtain ⟨cur1, hs1, hs2, hs3, hs4⟩ := step
      rw [hs1]
      simp only [Option.bind_some]
      have hinv1 : ∀ k' ∈ rest, get cur1 k' = (get ft.rows k').map (projRow ft.cols tt.cols) := by
        intro k' hk'
        have : k' ≠ k := fun e => hkn.1 (e ▸ hk')
        rw [hs4 k' this]; exact hinvr k' hk'
      obtain ⟨cur', h1, h2, h3, h4⟩ := ih hkn.2 cur1 hs2 hinv1
      refine ⟨cur', h1, h2, ?_, ?_⟩
      · intro k' hk'
        rcases List.mem_cons.mp hk' with e | h'
        · subst e; rw [h4 k' hkn.1, hs3]
        · exact h3 k' h'
      · intro k' hk'
        have hk'r : k' ∉ rest := fun h' => hk' (List.mem_cons_of_mem _ h')
        have hk'k : k' ≠ k := fun e => hk' (e ▸ List.mem_cons_self)
        rw [h4 k' hk'r, hs4 k' hk'k]

/-! ### the whole patch of one table whose column list changed -/

theorem eq_of_name_eq (l : List Col) (h : (l.map (·.name)).Nodup) (c d : Col) (hc : c ∈ l) (hd : d ∈ l)
    (e : c.name = d.name) : c = d := by
  induction l with
  | nil => cases hc
  | cons x xs ih =>
    have hn := List.nodup_cons.mp (by simpa using h : (x.name :: xs.map (·.name)).Nodup)
    rcases List.mem_cons.mp hc with e1 | h1
    · rcases List.mem_cons.mp hd with e2 | h2
      · rw [e1, e2]
      · exact absurd (by rw [← e1, e]; exact List.mem_map_of_mem h2) hn.1
    · rcases List.mem_cons.mp hd with e2 | h2
      · exact absurd (by rw [← e2, ← e]; exact List.mem_map_of_mem h1) hn.1
      · exact ih hn.2 h1 h2

theorem keepCols_drops (fc tc : List Col) (hfn : (fc.map (·.name)).Nodup) :
    keepCols fc (fc.filter (fun c => !(tc.contains c))) = fc.filter (fun c => tc.contains c) := by
  unfold keepCols
  apply List.filter_congr
  intro c hc
  by_cases hct : tc.contains c = true
  · rw [hct]
    apply List.all_eq_true.mpr
    intro d hd
    have hdm := List.mem_filter.mp hd
    simp only [ne_eq, decide_not, Bool.not_eq_eq_eq_not, Bool.not_true, decide_eq_false_iff_not]
    intro e
    have := eq_of_name_eq fc hfn c d hc hdm.1 e
    subst this
    have h2 := hdm.2
    rw [hct] at h2
    cases h2
  · have hcf : tc.contains c = false := by simpa using hct
    rw [hcf]
    apply Bool.eq_false_iff.mpr
    intro hall
    have := List.all_eq_true.mp hall c (List.mem_filter.mpr ⟨hc, by rw [hcf]; rfl⟩)
    simp at this

theorem execTs_patch_cols (n : String) (ft tt : Table) (hf : ft.WF) (ht : tt.WF) (hne : ft.cols ≠ tt.cols)
    (hfn : (ft.cols.map (·.name)).Nodup) (htn : (tt.cols.map (·.name)).Nodup)
    (happ : ColsAppend ft.cols tt.cols) (halias : NoTupleAlias ft tt) :
    execTs (some ft) (patchTable n (some ft) (some tt)) = some (some tt) := by
  have hne' : ft ≠ tt := fun e => hne (by rw [e])
  have hp : patchTable n (some ft) (some tt) =
      ((ft.cols.filter (fun c => !(tt.cols.contains c))).map (fun c => Stmt.dropCol n c.name) ++
        (tt.cols.filter (fun c => !(ft.cols.contains c))).map (fun c => Stmt.addCol n c)) ++
      ((unionKeys ltInt (keys ft.rows) (keys tt.rows)).filterMap (fun k =>
        diffKeyU k (get ft.rows k) (get tt.rows k))).flatMap (dataStmt n ft.cols tt.cols) := by
    simp only [patchTable, hne', if_false, schemaStmts, diffTables_eq ft tt hne]
  rw [hp, execTs_append, execTs_append]
  -- the stored rows, written through `cellOf`
  have hstart : (some ft : Option Table) =
      some ⟨ft.cols, ft.rows.map (fun kr => (kr.1, ft.cols.map (cellOf ft.cols kr.2)))⟩ := by
    have := projRows_self ft hf
    simp only [projRows, projRow] at this
    rw [this]
  rw [hstart]
  -- DROP statements
  have hdn : ((ft.cols.filter (fun c => !(tt.cols.contains c))).map (·.name)).Nodup := nodup_names_filter _ _ hfn
  have hdsub : ∀ d ∈ ft.cols.filter (fun c => !(tt.cols.contains c)), d.name ∈ ft.cols.map (·.name) :=
    fun d hd => List.mem_map_of_mem (List.mem_filter.mp hd).1
  rw [execTs_drops n (cellOf ft.cols) ft.rows _ ft.cols hfn hdn hdsub, keepCols_drops ft.cols tt.cols hfn]
  simp only [Option.bind_some]
  -- ADD statements
  have hnn2 : ((ft.cols.filter (fun c => tt.cols.contains c) ++ tt.cols.filter (fun c => !(ft.cols.contains c))).map (·.name)).Nodup := by
    rw [happ]; exact htn
  rw [execTs_adds n _ _ _ hnn2]
  simp only [Option.bind_some]
  -- the table is now tt's columns over the re-laid rows
  have hrows : (ft.rows.map (fun kr => (kr.1, (ft.cols.filter (fun c => tt.cols.contains c)).map (cellOf ft.cols kr.2)))).map
        (fun kr => (kr.1, kr.2 ++ List.replicate (tt.cols.filter (fun c => !(ft.cols.contains c))).length Val.null))
      = projRows ft.cols tt.cols ft.rows := by
    simp only [List.map_map, projRows, projRow]
    apply List.map_congr_left
    intro kr _
    simp only [Function.comp]
    congr 1
    have hnull : (tt.cols.filter (fun c => !(ft.cols.contains c))).map (cellOf ft.cols kr.2)
        = List.replicate (tt.cols.filter (fun c => !(ft.cols.contains c))).length Val.null := by
      apply List.eq_replicate_iff.mpr
      refine ⟨by simp, ?_⟩
      intro v hv
      obtain ⟨c, hc, e⟩ := List.mem_map.mp hv
      rw [← e]
      apply cellOf_not_mem
      have := (List.mem_filter.mp hc).2
      simpa using this
    rw [← hnull, ← List.map_append, happ]
  rw [hrows, happ]
  -- data statements
  have hks := nodup_of_sorted strictTotal_ltInt _ (sorted_unionKeys strictTotal_ltInt (keys ft.rows) (keys tt.rows))
  have hsorted : Sorted ltInt (keys (projRows ft.cols tt.cols ft.rows)) := by rw [keys_projRows]; exact hf.1
  obtain ⟨cur', h1, h2, h3, h4⟩ := execTs_dataU n ft tt htn (len_of_wf tt ht) halias _ hks
    (projRows ft.cols tt.cols ft.rows) hsorted (fun k _ => get_projRows ft.cols tt.cols ft.rows k)
  rw [h1]
  have : cur' = tt.rows := by
    apply sorted_ext strictTotal_ltInt _ _ h2 ht.1
    intro k
    by_cases hk : k ∈ unionKeys ltInt (keys ft.rows) (keys tt.rows)
    · exact h3 k hk
    · rw [h4 k hk, get_projRows]
      rw [mem_unionKeys] at hk
      rw [get_none_of_not_mem ft.rows k (fun h => hk (Or.inl h)),
        get_none_of_not_mem tt.rows k (fun h => hk (Or.inr h))]
      rfl
  rw [this]

end DoltVerif.VcsOps
