import DoltVerif.Lemmas.ProllyMergeRange
/-!
C14, obligation R3: `ApplyPatches` over a *tiled* stream of point and range patches, at the level of
the key-value content.  `Tiles` (ascending, non-overlapping, each patch well-formed) is the property
R1/R2 have to establish for the stream `SendPatches` emits; here it is a hypothesis.
-/
namespace DoltVerif.ProllyMerge
open DoltVerif.ProllyDiff

variable {cmp : Bytes → Bytes → Ordering}

/-- `k` lies in the key interval the patch rewrites: the key itself for a point patch,
`(keyBelowStart, endKey]` for a range patch -/
def Patch.covers (cmp : Bytes → Bytes → Ordering) (p : Patch) (k : Bytes) : Bool :=
  if p.level == 0 then cmp k p.endKey == .eq
  else (match p.keyBelowStart with | none => true | some a => cmp a k == .lt) && cmp k p.endKey != .gt

/-- what the patch makes of a key it covers -/
def Patch.valAt (cmp : Bytes → Bytes → Ordering) (p : Patch) (k : Bytes) : Option KV :=
  if p.level == 0 then pointEffect p else lookupKV cmp k p.ins

/-- a well-formed patch: a range patch has `keyBelowStart ≤ endKey` and carries strictly ascending
pairs inside its interval -/
structure PatchOK (cmp : Bytes → Bytes → Ordering) (p : Patch) : Prop where
  lohi : p.level ≠ 0 → ∀ a, p.keyBelowStart = some a → cmp a p.endKey ≠ .gt
  inside : p.level ≠ 0 → ∀ x ∈ p.ins, (∀ a, p.keyBelowStart = some a → cmp a x.1 = .lt) ∧ cmp x.1 p.endKey ≠ .gt
  sorted : p.level ≠ 0 → Sorted cmp p.ins

/-- `q` starts after `p` ends -/
def Patch.before (cmp : Bytes → Bytes → Ordering) (p q : Patch) : Prop :=
  if q.level = 0 then cmp p.endKey q.endKey = .lt
  else ∃ a, q.keyBelowStart = some a ∧ cmp p.endKey a ≠ .gt

/-- **Tiles**: the tiling property of a patch stream (R1/R2's obligation) -/
structure Tiles (cmp : Bytes → Bytes → Ordering) (ps : List Patch) : Prop where
  ok : ∀ p ∈ ps, PatchOK cmp p
  asc : ps.Pairwise (Patch.before cmp)

theorem Tiles.tail {p : Patch} {ps : List Patch} (h : Tiles cmp (p :: ps)) : Tiles cmp ps :=
  ⟨fun q hq => h.ok q (by simp [hq]), (List.pairwise_cons.mp h.asc).2⟩

theorem covers_iff_point {p : Patch} (hp : p.level = 0) (k : Bytes) : p.covers cmp k = true ↔ cmp k p.endKey = .eq := by
  simp [Patch.covers, hp]

theorem covers_iff_range {p : Patch} (hp : p.level ≠ 0) (k : Bytes) :
    p.covers cmp k = true ↔ (∀ a, p.keyBelowStart = some a → cmp a k = .lt) ∧ cmp k p.endKey ≠ .gt := by
  have hb : (p.level == 0) = false := by simpa using hp
  simp only [Patch.covers, hb, Bool.false_eq_true, if_false, Bool.and_eq_true, bne_iff_ne, ne_eq]
  cases p.keyBelowStart with
  | none => simp
  | some a => simp

/-- one patch, point or range, on a sorted content -/
theorem applyPatch_lookup (ol : OrdLaws cmp) (p : Patch) (hok : PatchOK cmp p) {l : List KV} (sl : Sorted cmp l) (k : Bytes) :
    lookupKV cmp k (applyPatch cmp l p) = if p.covers cmp k = true then p.valAt cmp k else lookupKV cmp k l := by
  by_cases hp : p.level = 0
  · rw [applyPatch_point_lookup ol p hp k sl]
    by_cases hk : cmp k p.endKey = .eq
    · simp [hk, (covers_iff_point hp k).mpr hk, Patch.valAt, hp]
    · have : ¬ (p.covers cmp k = true) := fun h => hk ((covers_iff_point hp k).mp h)
      simp [hk, this]
  · have h := range_patch_lookup' ol p hp sl (hok.lohi hp) (hok.inside hp) k
    rw [h]
    have hb : (p.level == 0) = false := by simpa using hp
    by_cases hc : p.covers cmp k = true
    · rw [if_pos ((covers_iff_range hp k).mp hc), if_pos hc]
      simp [Patch.valAt, hb]
    · have : ¬ ((∀ a, p.keyBelowStart = some a → cmp a k = .lt) ∧ cmp k p.endKey ≠ .gt) :=
        fun h => hc ((covers_iff_range hp k).mpr h)
      rw [if_neg this, if_neg hc]

theorem applyPatch_sorted (ol : OrdLaws cmp) (p : Patch) (hok : PatchOK cmp p) {l : List KV} (sl : Sorted cmp l) :
    Sorted cmp (applyPatch cmp l p) := by
  by_cases hp : p.level = 0
  · exact applyPatch_point_sorted ol p hp sl
  · rw [applyPatch_range_eq p hp]
    exact sorted_replaceRange ol sl (hok.sorted hp) _ _ (hok.inside hp)

/-- a later patch of a tiled stream does not cover a key that an earlier one covers -/
theorem not_covers_of_before (ol : OrdLaws cmp) {p q : Patch} (hb : Patch.before cmp p q) (hq : PatchOK cmp q) {k : Bytes}
    (hk : cmp k p.endKey ≠ .gt) : q.covers cmp k = false := by
  unfold Patch.before at hb
  by_cases hl : q.level = 0
  · simp only [hl, if_true] at hb
    have : cmp k q.endKey = .lt := le_lt_lt ol hk hb
    cases h : q.covers cmp k with
    | false => rfl
    | true => rw [(covers_iff_point hl k).mp h] at this; simp at this
  · simp only [hl, if_false] at hb
    obtain ⟨a, ha, hle⟩ := hb
    cases h : q.covers cmp k with
    | false => rfl
    | true =>
      have := ((covers_iff_range hl k).mp h).1 a ha
      -- k ≤ p.endKey ≤ a < k
      have h2 : cmp k a ≠ .gt := by
        cases hka : cmp k p.endKey with
        | gt => exact absurd hka hk
        | lt =>
          have := lt_le_lt ol hka hle
          intro hgt; rw [this] at hgt; simp at hgt
        | eq =>
          cases hpa : cmp p.endKey a with
          | gt => exact absurd hpa hle
          | lt => have := ol.eq_lt _ _ _ hka hpa; intro hgt; rw [this] at hgt; simp at hgt
          | eq => have := ol.eq_trans hka hpa; intro hgt; rw [this] at hgt; simp at hgt
      exact absurd ((ol.gt_iff _ _).mpr this) h2

theorem covers_le_end {p : Patch} {k : Bytes} (ol : OrdLaws cmp) (h : p.covers cmp k = true) : cmp k p.endKey ≠ .gt := by
  by_cases hl : p.level = 0
  · rw [(covers_iff_point hl k).mp h]; simp
  · exact ((covers_iff_range hl k).mp h).2

/-- **apply_tiled (R3)**: applying a tiled stream of point and range patches to a strictly ascending
content gives a strictly ascending content in which a key covered by a patch maps to what that patch
says (the point patch's value / nothing, or the range patch's subtree pair / nothing) and every
other key maps to what it mapped to before. -/
theorem apply_tiled (ol : OrdLaws cmp) : ∀ (ps : List Patch) (l : List KV), Sorted cmp l → Tiles cmp ps →
    Sorted cmp (applyPatches cmp l ps) ∧
    ∀ k, lookupKV cmp k (applyPatches cmp l ps) =
      match ps.find? (fun p => p.covers cmp k) with
      | some p => p.valAt cmp k
      | none => lookupKV cmp k l
  | [], l, sl, _ => ⟨by simpa [applyPatches] using sl, by simp [applyPatches]⟩
  | p :: ps, l, sl, ht => by
    have hok := ht.ok p (by simp)
    have hs := applyPatch_sorted ol p hok sl
    obtain ⟨ih1, ih2⟩ := apply_tiled ol ps (applyPatch cmp l p) hs ht.tail
    have hb := (List.pairwise_cons.mp ht.asc).1
    simp only [applyPatches, List.foldl_cons] at ih1 ih2 ⊢
    refine ⟨ih1, fun k => ?_⟩
    rw [ih2 k, applyPatch_lookup ol p hok sl k]
    by_cases hc : p.covers cmp k = true
    · have hnone : ps.find? (fun q => q.covers cmp k) = none := by
        rw [List.find?_eq_none]
        intro q hq
        have := not_covers_of_before ol (hb q hq) (ht.ok q (by simp [hq])) (covers_le_end ol hc)
        simp [this]
      simp [hnone, hc, List.find?_cons]
    · have hf : p.covers cmp k = false := by simpa using hc
      simp [hf, List.find?_cons]

end DoltVerif.ProllyMerge
