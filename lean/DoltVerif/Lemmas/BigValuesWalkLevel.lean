import DoltVerif.Lemmas.BigValuesWalkN
/-! One level of the aligned walk of `blobChunkDiffer.Next`, and the induction over levels (C16). -/
namespace DoltVerif.BigValues
open DoltVerif.ValCodec

theorem leafCmp_drop_common : ∀ (n : Nat) (A B : List Bytes), A.take n = B.take n →
    leafCmp A B = leafCmp (A.drop n) (B.drop n) := by
  intro n
  induction n with
  | zero => intro A B _; rfl
  | succ n ih =>
    intro A B h
    cases A with
    | nil => cases B with
      | nil => rfl
      | cons b B' => simp at h
    | cons a A' => cases B with
      | nil => simp at h
      | cons b B' =>
        simp only [List.take_succ_cons, List.cons.injEq] at h
        obtain ⟨rfl, h'⟩ := h
        simp only [leafCmp, if_true, List.drop_succ_cons]
        exact ih A' B' h'

/-- the hypothesis under which a synchronized pair of frames never has to resume in its parents
with both sides alive: either there are no parents (root, covering both values entirely), or the
remaining windows differ -/
def Dcond (sz m o q : Nat) (L R : List Bytes) (S : List Frame) : Prop :=
  (S = [] ∧ L.length ≤ o + sz ^ (m + 1) ∧ R.length ≤ o + sz ^ (m + 1)) ∨
  (L.drop q).take (o + sz ^ (m + 1) - q) ≠ (R.drop q).take (o + sz ^ (m + 1) - q)

/-- the statement for synchronized frames of level `m+1` -/
def WalkAt (sz : Nat) (L R : List Bytes) (tl tr m : Nat) : Prop :=
  ∀ (fuel o i : Nat) (S : List Frame), i ≤ sz → Above sz (o + sz ^ (m + 1)) S →
    Dcond sz m o (o + i * sz ^ m) L R S →
    (L.length - (o + i * sz ^ m)) + 2 * (m + 1) + 3 ≤ fuel →
    resultOrd (differNext fuel ⟨some ⟨tl, sz, L⟩, ⟨m + 1, o, i⟩ :: S, none, false⟩
        ⟨some ⟨tr, sz, R⟩, ⟨m + 1, o, i⟩ :: S, none, false⟩) =
      some (leafCmp (L.drop (o + i * sz ^ m)) (R.drop (o + i * sz ^ m)))

/-- what must hold after descending into a pair of differing children -/
def DescAt (sz : Nat) (L R : List Bytes) (tl tr m : Nat) : Prop :=
  ∀ (fuel o i : Nat) (S : List Frame), i < sz → o + i * sz ^ m < L.length → o + i * sz ^ m < R.length →
    (L.drop (o + i * sz ^ m)).take (sz ^ m) ≠ (R.drop (o + i * sz ^ m)).take (sz ^ m) →
    Above sz (o + sz ^ (m + 1)) S →
    (L.length - (o + i * sz ^ m)) + 2 * m + 3 ≤ fuel →
    resultOrd (differNext fuel
        ⟨some ⟨tl, sz, L⟩, ⟨m, o + i * sz ^ m, 0⟩ :: ⟨m + 1, o, i + 1⟩ :: S, none, false⟩
        ⟨some ⟨tr, sz, R⟩, ⟨m, o + i * sz ^ m, 0⟩ :: ⟨m + 1, o, i + 1⟩ :: S, none, false⟩) =
      some (leafCmp (L.drop (o + i * sz ^ m)) (R.drop (o + i * sz ^ m)))

theorem child_eq (tl sz m o i : Nat) (L : List Bytes) :
    childLeaves ⟨tl, sz, L⟩ ⟨m + 1, o, i⟩ = (L.drop (o + i * sz ^ m)).take (sz ^ m) := by
  simp [childLeaves]

theorem walk_level (sz : Nat) (hsz : 1 ≤ sz) (L R : List Bytes) (tl tr m : Nat)
    (hd : DescAt sz L R tl tr m) : WalkAt sz L R tl tr m := by
  have hw : 0 < sz ^ m := Nat.pow_pos (by omega)
  have hpow : sz ^ (m + 1) = sz * sz ^ m := by rw [Nat.pow_succ, Nat.mul_comm]
  intro fuel
  induction fuel with
  | zero => intro o i S _ _ _ h; omega
  | succ fuel ih =>
    intro o i S hi hab hD hf
    -- membership of child i on each side
    have cL := count_spec L tl sz m o i i hsz
    have cR := count_spec R tr sz m o i i hsz
    have hile : i * sz ^ m ≤ sz * sz ^ m := Nat.mul_le_mul_right _ hi
    by_cases hL : i < sz ∧ o + i * sz ^ m < L.length
    · have kL : ¬ (⟨m + 1, o, i⟩ : Frame).idx ≥ nodeCount ⟨tl, sz, L⟩ ⟨m + 1, o, i⟩ := by
        have := cL.2 hL; show ¬ i ≥ _; omega
      have tL := trim_keep ⟨tl, sz, L⟩ ⟨m + 1, o, i⟩ S kL
      by_cases hR : i < sz ∧ o + i * sz ^ m < R.length
      · -- both sides have child i: aligned step
        have kR : ¬ (⟨m + 1, o, i⟩ : Frame).idx ≥ nodeCount ⟨tr, sz, R⟩ ⟨m + 1, o, i⟩ := by
          have := cR.2 hR; show ¬ i ≥ _; omega
        have tR := trim_keep ⟨tr, sz, R⟩ ⟨m + 1, o, i⟩ S kR
        rw [dn_aligned fuel _ _ _ _ _ _ _ _ tL tR ⟨by simp, by simp, rfl⟩, child_eq, child_eq]
        by_cases he : (L.drop (o + i * sz ^ m)).take (sz ^ m) = (R.drop (o + i * sz ^ m)).take (sz ^ m)
        · rw [if_pos ⟨he, rfl⟩]
          have hq' : o + (i + 1) * sz ^ m = o + i * sz ^ m + sz ^ m := by rw [Nat.add_mul]; omega
          have hD' : Dcond sz m o (o + (i + 1) * sz ^ m) L R S := by
            rcases hD with h | h
            · exact .inl h
            · refine .inr ?_
              intro hcon
              apply h
              have hsplit : o + sz ^ (m + 1) - (o + i * sz ^ m) = sz ^ m + (o + sz ^ (m + 1) - (o + (i + 1) * sz ^ m)) := by
                have : (i + 1) * sz ^ m ≤ sz * sz ^ m := Nat.mul_le_mul_right _ hL.1
                rw [hpow, hq']; rw [Nat.add_mul] at this; omega
              rw [hsplit, List.take_add, List.take_add, he, List.drop_drop, List.drop_drop, ← hq', hcon]
          have := ih o (i + 1) S hL.1 hab hD' (by rw [hq']; omega)
          show resultOrd (differNext fuel ⟨some ⟨tl, sz, L⟩, ⟨m + 1, o, i + 1⟩ :: S, none, false⟩
            ⟨some ⟨tr, sz, R⟩, ⟨m + 1, o, i + 1⟩ :: S, none, false⟩) = _
          rw [this, leafCmp_drop_common (sz ^ m) _ _ he, List.drop_drop, List.drop_drop, ← hq']
        · rw [if_neg (fun h => he h.1), descend_eq, descend_eq]
          simp only [Nat.add_sub_cancel]
          exact hd fuel o i S hL.1 hL.2 hR.2 he hab (by omega)
      · -- R has no child i: R ended inside this window
        have hqR : R.length ≤ o + i * sz ^ m := by
          rcases Nat.lt_or_ge (o + i * sz ^ m) R.length with h | h
          · exact absurd ⟨hL.1, h⟩ hR
          · exact h
        have xR : (⟨m + 1, o, i⟩ : Frame).idx ≥ nodeCount ⟨tr, sz, R⟩ ⟨m + 1, o, i⟩ := by
          rcases Nat.lt_or_ge i (nodeCount ⟨tr, sz, R⟩ ⟨m + 1, o, i⟩) with h | h
          · exact absurd (cR.1 h) hR
          · exact h
        have tR : Side.trim ⟨some ⟨tr, sz, R⟩, ⟨m + 1, o, i⟩ :: S, none, false⟩ = ⟨some ⟨tr, sz, R⟩, [], none, false⟩ := by
          rw [trim_drop_top _ _ _ xR]
          exact trim_all R tr sz (o + sz ^ (m + 1)) hsz (by rw [hpow]; omega) S hab
        rw [dn_right_done fuel _ _ _ _ _ _ tL tR, nextLeaf_nil,
          nextLeaf_down L tl sz hsz m o i S fuel hL.1 hL.2 (by omega)]
        rw [List.drop_eq_nil_of_le hqR, List.drop_eq_getElem_cons hL.2]
        rfl
    · have xL : (⟨m + 1, o, i⟩ : Frame).idx ≥ nodeCount ⟨tl, sz, L⟩ ⟨m + 1, o, i⟩ := by
        rcases Nat.lt_or_ge i (nodeCount ⟨tl, sz, L⟩ ⟨m + 1, o, i⟩) with h | h
        · exact absurd (cL.1 h) hL
        · exact h
      by_cases hR : i < sz ∧ o + i * sz ^ m < R.length
      · have hqL : L.length ≤ o + i * sz ^ m := by
          rcases Nat.lt_or_ge (o + i * sz ^ m) L.length with h | h
          · exact absurd ⟨hR.1, h⟩ hL
          · exact h
        have kR : ¬ (⟨m + 1, o, i⟩ : Frame).idx ≥ nodeCount ⟨tr, sz, R⟩ ⟨m + 1, o, i⟩ := by
          have := cR.2 hR; show ¬ i ≥ _; omega
        have tR := trim_keep ⟨tr, sz, R⟩ ⟨m + 1, o, i⟩ S kR
        have tL : Side.trim ⟨some ⟨tl, sz, L⟩, ⟨m + 1, o, i⟩ :: S, none, false⟩ = ⟨some ⟨tl, sz, L⟩, [], none, false⟩ := by
          rw [trim_drop_top _ _ _ xL]
          exact trim_all L tl sz (o + sz ^ (m + 1)) hsz (by rw [hpow]; omega) S hab
        rw [dn_left_done fuel _ _ _ _ _ _ tL tR, nextLeaf_nil,
          nextLeaf_down R tr sz hsz m o i S fuel hR.1 hR.2 (by omega)]
        rw [List.drop_eq_nil_of_le hqL, List.drop_eq_getElem_cons hR.2]
        rfl
      · -- neither side has child i
        have xR : (⟨m + 1, o, i⟩ : Frame).idx ≥ nodeCount ⟨tr, sz, R⟩ ⟨m + 1, o, i⟩ := by
          rcases Nat.lt_or_ge i (nodeCount ⟨tr, sz, R⟩ ⟨m + 1, o, i⟩) with h | h
          · exact absurd (cR.1 h) hR
          · exact h
        rcases hD with ⟨hS, hLe, hRe⟩ | hdiff
        · subst hS
          have tL := trim_pop ⟨tl, sz, L⟩ ⟨m + 1, o, i⟩ xL
          have tR := trim_pop ⟨tr, sz, R⟩ ⟨m + 1, o, i⟩ xR
          rw [dn_both_done fuel _ _ _ _ tL tR]
          have hqL : L.length ≤ o + i * sz ^ m := by
            rcases Nat.lt_or_ge i sz with h | h
            · rcases Nat.lt_or_ge (o + i * sz ^ m) L.length with h2 | h2
              · exact absurd ⟨h, h2⟩ hL
              · exact h2
            · have : sz * sz ^ m ≤ i * sz ^ m := Nat.mul_le_mul_right _ h
              rw [hpow] at hLe; omega
          have hqR : R.length ≤ o + i * sz ^ m := by
            rcases Nat.lt_or_ge i sz with h | h
            · rcases Nat.lt_or_ge (o + i * sz ^ m) R.length with h2 | h2
              · exact absurd ⟨h, h2⟩ hR
              · exact h2
            · have : sz * sz ^ m ≤ i * sz ^ m := Nat.mul_le_mul_right _ h
              rw [hpow] at hRe; omega
          rw [List.drop_eq_nil_of_le hqL, List.drop_eq_nil_of_le hqR]; rfl
        · exfalso
          apply hdiff
          rcases Nat.lt_or_ge i sz with h | h
          · have hqL : L.length ≤ o + i * sz ^ m := by
              rcases Nat.lt_or_ge (o + i * sz ^ m) L.length with h2 | h2
              · exact absurd ⟨h, h2⟩ hL
              · exact h2
            have hqR : R.length ≤ o + i * sz ^ m := by
              rcases Nat.lt_or_ge (o + i * sz ^ m) R.length with h2 | h2
              · exact absurd ⟨h, h2⟩ hR
              · exact h2
            rw [List.drop_eq_nil_of_le hqL, List.drop_eq_nil_of_le hqR]
          · have : sz * sz ^ m ≤ i * sz ^ m := Nat.mul_le_mul_right _ h
            have z : o + sz ^ (m + 1) - (o + i * sz ^ m) = 0 := by rw [hpow]; omega
            rw [z]; simp

end DoltVerif.BigValues

namespace DoltVerif.BigValues
open DoltVerif.ValCodec

/-- below level 1 the descended frames are leaves: the pair is delivered -/
theorem desc_zero (sz : Nat) (L R : List Bytes) (tl tr : Nat) : DescAt sz L R tl tr 0 := by
  intro fuel o i S _ hqL hqR hne _ hf
  obtain ⟨f, rfl⟩ : ∃ f, fuel = f + 1 := ⟨fuel - 1, by omega⟩
  simp only [Nat.pow_zero, Nat.mul_one] at *
  have kL := trim_keep ⟨tl, sz, L⟩ ⟨0, o + i, 0⟩ (⟨0 + 1, o, i + 1⟩ :: S) (by rw [count0]; show ¬ 0 ≥ 1; omega)
  have kR := trim_keep ⟨tr, sz, R⟩ ⟨0, o + i, 0⟩ (⟨0 + 1, o, i + 1⟩ :: S) (by rw [count0]; show ¬ 0 ≥ 1; omega)
  rw [dn_unaligned f _ _ _ _ _ _ _ _ kL kR (by simp),
    nextLeaf_leaf _ _ _ _ (by rw [count0]; show ¬ 0 ≥ 1; omega) rfl,
    nextLeaf_leaf _ _ _ _ (by rw [count0]; show ¬ 0 ≥ 1; omega) rfl]
  rw [List.drop_eq_getElem_cons hqL, List.drop_eq_getElem_cons hqR] at hne ⊢
  have he : L[o + i] ≠ R[o + i] := by
    intro e; apply hne; rw [e]; rfl
  simp [hqL, hqR, resultOrd, leafCmp, he]

/-- the statement at level `m+1` discharges the descent obligation of level `m+2` -/
theorem desc_of_walk (sz : Nat) (hsz : 1 ≤ sz) (L R : List Bytes) (tl tr m : Nat)
    (hwk : WalkAt sz L R tl tr m) : DescAt sz L R tl tr (m + 1) := by
  intro fuel o i S hi hqL hqR hne hab hf
  have hpow : sz ^ (m + 1 + 1) = sz * sz ^ (m + 1) := by rw [Nat.pow_succ, Nat.mul_comm]
  have habove : Above sz (o + i * sz ^ (m + 1) + sz ^ (m + 1)) (⟨m + 1 + 1, o, i + 1⟩ :: S) := by
    intro g hg
    rcases List.mem_cons.1 hg with rfl | hg
    · refine ⟨by simp, ?_⟩
      simp only [nextStart, Nat.add_sub_cancel]
      rw [Nat.add_mul]; omega
    · have := hab g hg
      refine ⟨this.1, Nat.le_trans ?_ this.2⟩
      have : (i + 1) * sz ^ (m + 1) ≤ sz * sz ^ (m + 1) := Nat.mul_le_mul_right _ hi
      rw [hpow]; rw [Nat.add_mul] at this; omega
  have hD : Dcond sz m (o + i * sz ^ (m + 1)) (o + i * sz ^ (m + 1) + 0 * sz ^ m) L R (⟨m + 1 + 1, o, i + 1⟩ :: S) := by
    refine .inr ?_
    simp only [Nat.zero_mul, Nat.add_zero, Nat.add_sub_cancel_left]
    exact hne
  have := hwk fuel (o + i * sz ^ (m + 1)) 0 (⟨m + 1 + 1, o, i + 1⟩ :: S) (Nat.zero_le _) habove hD
    (by simp only [Nat.zero_mul, Nat.add_zero]; omega)
  simpa using this

/-- **the walk over two same-height fixed-fan-out trees, any height** -/
theorem walkN (sz : Nat) (hsz : 1 ≤ sz) (L R : List Bytes) (tl tr : Nat) : ∀ m, WalkAt sz L R tl tr m := by
  intro m
  induction m with
  | zero => exact walk_level sz hsz L R tl tr 0 (desc_zero sz L R tl tr)
  | succ m ih => exact walk_level sz hsz L R tl tr (m + 1) (desc_of_walk sz hsz L R tl tr m ih)

theorem topLevelOf_pos (cs n : Nat) (hc : 0 < cs) (h : cs < n) : 1 ≤ topLevelOf cs n := by
  unfold topLevelOf topLevelLoop
  have : n / cs > 0 := Nat.div_pos (Nat.le_of_lt h) hc
  simp [this]

end DoltVerif.BigValues
