import DoltVerif.Model.BigValues
import DoltVerif.Lemmas.ValCodecLE
/-! SQLite4 varint round trip (C16). -/
namespace DoltVerif.BigValues
open DoltVerif.ValCodec

theorem foldr_eq_leNat (xs : Bytes) :
    xs.foldr (fun b acc => acc * 256 + b.toNat) 0 = leNat xs := by
  induction xs with
  | nil => rfl
  | cons x xs ih => simp only [List.foldr_cons, leNat, ih]; omega

theorem beNat_reverse (xs : Bytes) : beNat xs.reverse = leNat xs := by
  unfold beNat
  rw [List.foldl_reverse]
  exact foldr_eq_leNat xs

theorem beNat_beBytes (k n : Nat) : beNat (beBytes k n) = n % 256 ^ k := by
  unfold beBytes; rw [beNat_reverse, leNat_leBytes]

theorem beBytes_length (k n : Nat) : (beBytes k n).length = k := by
  simp [beBytes, leBytes_length]

theorem ofNat_toNat_lt {n : Nat} (h : n < 256) : (UInt8.ofNat n).toNat = n := by
  simp [UInt8.toNat_ofNat']; omega

/-- the big-endian branches: tag byte `0xFA + (k-3)` followed by `k` bytes -/
theorem decode_be (tag : UInt8) (k n : Nat) (rest : Bytes) (htag : tag.toNat = 0xFA + (k - 3)) (hk : 3 ≤ k)
    (hk8 : k ≤ 8) (hn : n < 256 ^ k) :
    varintDecode (tag :: (beBytes k n ++ rest)) = some (n, k + 1) := by
  unfold varintDecode
  have h1 : ¬ tag ≤ 0xF0 := by rw [UInt8.le_iff_toNat_le]; simp; omega
  have h2 : ¬ tag ≤ 0xF8 := by rw [UInt8.le_iff_toNat_le]; simp; omega
  have h3 : ¬ tag = 0xF9 := by
    intro e; rw [e] at htag; simp at htag; omega
  simp only [h1, h2, h3, if_false]
  have hn' : tag.toNat - 0xFA + 3 = k := by omega
  rw [hn']
  have hl : ¬ (beBytes k n ++ rest).length < k := by simp [beBytes_length]
  rw [if_neg hl, List.take_left' (beBytes_length k n), beNat_beBytes, Nat.mod_eq_of_lt hn]

theorem enc1 {n : Nat} (h : n < 241) : varintEncode n = [UInt8.ofNat n] := by
  unfold varintEncode; rw [if_pos h]
theorem enc2 {n : Nat} (h1 : ¬ n < 241) (h2 : n < 2288) :
    varintEncode n = [UInt8.ofNat ((n - 240) / 256 + 241), UInt8.ofNat ((n - 240) % 256)] := by
  unfold varintEncode; rw [if_neg h1, if_pos h2]
theorem enc3 {n : Nat} (h1 : ¬ n < 241) (h2 : ¬ n < 2288) (h3 : n < 67824) :
    varintEncode n = [0xF9, UInt8.ofNat ((n - 2288) / 256), UInt8.ofNat ((n - 2288) % 256)] := by
  unfold varintEncode; rw [if_neg h1, if_neg h2, if_pos h3]
/-- the big-endian forms: tag `0xFA + (k-3)`, `k` bytes, for `256^(k-1) ≤ n < 256^k` (3 ≤ k ≤ 8) -/
theorem encBE {n : Nat} (h3 : ¬ n < 67824) (hn : n < 2 ^ 64) :
    ∃ (tag : UInt8) (k : Nat), varintEncode n = tag :: beBytes k n ∧ tag.toNat = 0xFA + (k - 3) ∧ 3 ≤ k ∧ k ≤ 8 ∧
      n < 256 ^ k ∧ tag ≠ 0 := by
  have h1 : ¬ n < 241 := by omega
  have h2 : ¬ n < 2288 := by omega
  unfold varintEncode
  rw [if_neg h1, if_neg h2, if_neg h3]
  by_cases c4 : n < 2 ^ 24
  · rw [if_pos c4]; exact ⟨0xFA, 3, rfl, by decide, by omega, by omega, by omega, by decide⟩
  · rw [if_neg c4]
    by_cases c5 : n < 2 ^ 32
    · rw [if_pos c5]; exact ⟨0xFB, 4, rfl, by decide, by omega, by omega, by omega, by decide⟩
    · rw [if_neg c5]
      by_cases c6 : n < 2 ^ 40
      · rw [if_pos c6]; exact ⟨0xFC, 5, rfl, by decide, by omega, by omega, by omega, by decide⟩
      · rw [if_neg c6]
        by_cases c7 : n < 2 ^ 48
        · rw [if_pos c7]; exact ⟨0xFD, 6, rfl, by decide, by omega, by omega, by omega, by decide⟩
        · rw [if_neg c7]
          by_cases c8 : n < 2 ^ 56
          · rw [if_pos c8]; exact ⟨0xFE, 7, rfl, by decide, by omega, by omega, by omega, by decide⟩
          · rw [if_neg c8]; exact ⟨0xFF, 8, rfl, by decide, by omega, by omega, by omega, by decide⟩

/-- **varint round trip** for every 64-bit length, whatever follows -/
theorem varint_roundtrip (n : Nat) (hn : n < 2 ^ 64) (rest : Bytes) :
    varintDecode (varintEncode n ++ rest) = some (n, (varintEncode n).length) := by
  by_cases c1 : n < 241
  · rw [enc1 c1]
    simp only [List.cons_append, List.nil_append, List.length_cons, List.length_nil]
    unfold varintDecode
    have hb : (UInt8.ofNat n).toNat = n := ofNat_toNat_lt (by omega)
    have : UInt8.ofNat n ≤ 0xF0 := by rw [UInt8.le_iff_toNat_le, hb]; simp; omega
    simp only [this, if_true, hb]
  · by_cases c2 : n < 2288
    · rw [enc2 c1 c2]
      simp only [List.cons_append, List.nil_append, List.length_cons, List.length_nil]
      unfold varintDecode
      have hb0 : (UInt8.ofNat ((n - 240) / 256 + 241)).toNat = (n - 240) / 256 + 241 := ofNat_toNat_lt (by omega)
      have hb1 : (UInt8.ofNat ((n - 240) % 256)).toNat = (n - 240) % 256 := ofNat_toNat_lt (by omega)
      have h1 : ¬ UInt8.ofNat ((n - 240) / 256 + 241) ≤ 0xF0 := by rw [UInt8.le_iff_toNat_le, hb0]; simp
      have h2 : UInt8.ofNat ((n - 240) / 256 + 241) ≤ 0xF8 := by rw [UInt8.le_iff_toNat_le, hb0]; simp; omega
      simp only [h1, h2, if_true, if_false, hb0, hb1]
      refine congrArg some (Prod.ext ?_ rfl)
      show _ = n
      omega
    · by_cases c3 : n < 67824
      · rw [enc3 c1 c2 c3]
        simp only [List.cons_append, List.nil_append, List.length_cons, List.length_nil]
        unfold varintDecode
        have hb1 : (UInt8.ofNat ((n - 2288) / 256)).toNat = (n - 2288) / 256 := ofNat_toNat_lt (by omega)
        have hb2 : (UInt8.ofNat ((n - 2288) % 256)).toNat = (n - 2288) % 256 := ofNat_toNat_lt (by omega)
        have h1 : ¬ (0xF9 : UInt8) ≤ 0xF0 := by decide
        have h2 : ¬ (0xF9 : UInt8) ≤ 0xF8 := by decide
        simp only [h1, h2, if_true, if_false, hb1, hb2]
        refine congrArg some (Prod.ext ?_ rfl)
        show _ = n
        omega
      · obtain ⟨tag, k, he, ht, k3, k8, hk, _⟩ := encBE c3 hn
        rw [he]
        simp only [List.cons_append, List.length_cons, beBytes_length]
        exact decode_be tag k n rest ht k3 k8 hk

/-- the first byte of the varint of a positive length is not 0 -/
theorem varint_head_ne_zero (n : Nat) (h0 : 0 < n) (hn : n < 2 ^ 64) :
    ∃ b bs, varintEncode n = b :: bs ∧ b ≠ 0 := by
  by_cases c1 : n < 241
  · refine ⟨UInt8.ofNat n, [], enc1 c1, ?_⟩
    intro e
    have := congrArg UInt8.toNat e
    rw [ofNat_toNat_lt (by omega)] at this; simp at this; omega
  · by_cases c2 : n < 2288
    · refine ⟨_, _, enc2 c1 c2, ?_⟩
      intro e
      have := congrArg UInt8.toNat e
      rw [ofNat_toNat_lt (by omega)] at this; simp at this
    · by_cases c3 : n < 67824
      · exact ⟨0xF9, _, enc3 c1 c2 c3, by decide⟩
      · obtain ⟨tag, k, he, _, _, _, _, hz⟩ := encBE c3 hn
        exact ⟨tag, _, he, hz⟩

end DoltVerif.BigValues
