import DoltVerif.Model.BranchControl
/-!
C38 helper lemmas, part 6: the radix trie's `Match` against the per-rule direct match, for
well-formed tries.  Core Lean only.
-/
set_option linter.unusedSimpArgs false
namespace DoltVerif.BranchControl

/-! ### the rules stored in a trie -/

mutual
/-- every (full sort-order key below this node, data) stored in the subtree -/
def rulesN : Node → List (List Int × Data)
  | .mk so ch d =>
    (match d with | some x => [(so, x)] | none => []) ++ (rulesL ch).map (fun kd => (so ++ kd.1, kd.2))
def rulesL : List (Int × Node) → List (List Int × Data)
  | [] => []
  | (_, n) :: t => rulesN n ++ rulesL t
end

mutual
/-- well-formed: sort orders non-empty, every child is filed under its first sort order, child keys
are distinct -/
def wfN : Node → Bool
  | .mk so ch _ => !so.isEmpty && wfL ch
def wfL : List (Int × Node) → Bool
  | [] => true
  | (k, n) :: t => (n.so.head? == some k) && wfN n && (lookupChild t k).isNone && wfL t
end

mutual
/-- no node has an any-match child that is a bare `[%]` destination (the shape on which `Match`'s
final loop loses the rule, known finding `trailing-any-at-node-end`) -/
def noAnyLeafN : Node → Bool
  | .mk _ ch _ => noAnyLeafL ch
def noAnyLeafL : List (Int × Node) → Bool
  | [] => true
  | (_, n) :: t => !(n.so == [anyMatch] && n.data.isSome) && noAnyLeafN n && noAnyLeafL t
end

theorem mem_rulesL (ch : List (Int × Node)) (kd : List Int × Data) :
    kd ∈ rulesL ch ↔ ∃ kn ∈ ch, kd ∈ rulesN kn.2 := by
  induction ch with
  | nil => simp [rulesL]
  | cons a t ih =>
    obtain ⟨k, n⟩ := a
    simp only [rulesL, List.mem_append, ih, List.mem_cons]
    constructor
    · rintro (h | ⟨kn, hkn, h⟩)
      · exact ⟨(k, n), Or.inl rfl, h⟩
      · exact ⟨kn, Or.inr hkn, h⟩
    · rintro ⟨kn, (rfl | hkn), h⟩
      · exact Or.inl h
      · exact Or.inr ⟨kn, hkn, h⟩

theorem mem_rulesN (so : List Int) (ch : List (Int × Node)) (d : Option Data) (k : List Int) (x : Data) :
    (k, x) ∈ rulesN (.mk so ch d) ↔
      ((d = some x ∧ k = so) ∨ ∃ kn ∈ ch, ∃ ck, (ck, x) ∈ rulesN kn.2 ∧ k = so ++ ck) := by
  simp only [rulesN, List.mem_append, List.mem_map, mem_rulesL]
  constructor
  · rintro (h | ⟨kd, ⟨kn, hkn, hkd⟩, he⟩)
    · cases d with
      | none => simp at h
      | some y => simp at h; exact Or.inl ⟨by rw [h.2], h.1⟩
    · simp only [Prod.mk.injEq] at he
      refine Or.inr ⟨kn, hkn, kd.1, ?_, he.1.symm⟩
      rw [← he.2]; exact hkd
  · rintro (⟨rfl, rfl⟩ | ⟨kn, hkn, ck, hck, rfl⟩)
    · exact Or.inl (by simp)
    · exact Or.inr ⟨(ck, x), ⟨kn, hkn, hck⟩, rfl⟩


theorem rules_cons (x : Int) (q : List Int) (ch : List (Int × Node)) (data : Option Data) (k : List Int) (d : Data) :
    (k, d) ∈ rulesN (.mk (x :: q) ch data) ↔ ∃ k', k = x :: k' ∧ (k', d) ∈ rulesN (.mk q ch data) := by
  simp only [mem_rulesN]
  constructor
  · rintro (⟨h1, rfl⟩ | ⟨kn, hkn, ck, hck, rfl⟩)
    · exact ⟨q, rfl, Or.inl ⟨h1, rfl⟩⟩
    · exact ⟨q ++ ck, rfl, Or.inr ⟨kn, hkn, ck, hck, rfl⟩⟩
  · rintro ⟨k', rfl, (⟨h1, rfl⟩ | ⟨kn, hkn, ck, hck, rfl⟩)⟩
    · exact Or.inl ⟨h1, rfl⟩
    · exact Or.inr ⟨kn, hkn, ck, hck, rfl⟩

theorem rules_nil (ch : List (Int × Node)) (data : Option Data) (k : List Int) (d : Data) :
    (k, d) ∈ rulesN (.mk [] ch data) ↔ ((data = some d ∧ k = []) ∨ ∃ kn ∈ ch, (k, d) ∈ rulesN kn.2) := by
  simp only [mem_rulesN, List.nil_append]
  constructor
  · rintro (h | ⟨kn, hkn, ck, hck, rfl⟩)
    · exact Or.inl h
    · exact Or.inr ⟨kn, hkn, hck⟩
  · rintro (h | ⟨kn, hkn, h⟩)
    · exact Or.inl h
    · exact Or.inr ⟨kn, hkn, k, h, rfl⟩

/-! ### facts about well-formed child lists -/

theorem lookup_mem : ∀ (ch : List (Int × Node)) (k : Int) (n : Node), lookupChild ch k = some n → (k, n) ∈ ch
  | [], _, _, h => by simp [lookupChild] at h
  | (k', n') :: t, k, n, h => by
    simp only [lookupChild] at h
    by_cases hk : k' = k
    · simp only [hk, if_true, Option.some.injEq] at h
      subst hk; subst h; exact List.mem_cons_self
    · simp only [hk, if_false] at h
      exact List.mem_cons_of_mem _ (lookup_mem t k n h)

theorem wfL_mem : ∀ (ch : List (Int × Node)) (k : Int) (n : Node), wfL ch = true → (k, n) ∈ ch →
    n.so.head? = some k ∧ wfN n = true ∧ lookupChild ch k = some n
  | [], _, _, _, h => by simp at h
  | (k', n') :: t, k, n, hw, h => by
    simp only [wfL, Bool.and_eq_true, beq_iff_eq, Option.isNone_iff_eq_none] at hw
    obtain ⟨⟨⟨h1, h2⟩, h3⟩, h4⟩ := hw
    rcases List.mem_cons.mp h with he | hm
    · simp only [Prod.mk.injEq] at he
      obtain ⟨rfl, rfl⟩ := he
      exact ⟨h1, h2, by simp [lookupChild]⟩
    · obtain ⟨a, b, c⟩ := wfL_mem t k n h4 hm
      refine ⟨a, b, ?_⟩
      have hne : k' ≠ k := by
        intro e; subst e; rw [c] at h3; simp at h3
      simp [lookupChild, hne, c]

theorem naL_mem : ∀ (ch : List (Int × Node)) (k : Int) (n : Node), noAnyLeafL ch = true → (k, n) ∈ ch →
    ¬ (n.so = [anyMatch] ∧ n.data.isSome = true) ∧ noAnyLeafN n = true
  | [], _, _, _, h => by simp at h
  | (k', n') :: t, k, n, hw, h => by
    simp only [noAnyLeafL, Bool.and_eq_true, Bool.not_eq_true', Bool.and_eq_false_iff, beq_eq_false_iff_ne] at hw
    obtain ⟨⟨h1, h2⟩, h3⟩ := hw
    rcases List.mem_cons.mp h with he | hm
    · simp only [Prod.mk.injEq] at he
      obtain ⟨rfl, rfl⟩ := he
      refine ⟨?_, h2⟩
      rintro ⟨ha, hb⟩
      rcases h1 with h1 | h1
      · exact h1 ha
      · rw [hb] at h1; simp at h1
    · exact naL_mem t k n h3 hm

/-! ### per-rule states and the direct step -/

/-- a rule in flight: remaining key, data, sort orders consumed so far -/
abbrev RS := List Int × Data × Nat

/-- the matcher's step on one rule alone (`processMatch` on a childless node) -/
def dstep (y : RS) (c : Int) : List RS :=
  match y.1 with
  | [] => []
  | x :: q =>
    if x = singleMatch then (if c < singleMatch then [] else [(q, y.2.1, y.2.2 + 1)])
    else if x = anyMatch then
      (match q with
        | z :: q' => if z = c then [(q', y.2.1, y.2.2 + 2)] else []
        | [] => [])
      ++ (if c ≠ columnMarker then [y] else [])
    else if c = x then [(q, y.2.1, y.2.2 + 1)] else []

/-- all rules in flight below a trie state -/
def flat (n : Counted) : List RS :=
  (rulesN (.mk n.so n.children n.data)).map (fun kd => (kd.1, kd.2, n.length))

theorem mem_flat (n : Counted) (z : RS) :
    z ∈ flat n ↔ z.2.2 = n.length ∧ (z.1, z.2.1) ∈ rulesN (.mk n.so n.children n.data) := by
  obtain ⟨k, d, l⟩ := z
  simp only [flat, List.mem_map, Prod.mk.injEq]
  constructor
  · rintro ⟨kd, hkd, rfl, rfl, rfl⟩
    exact ⟨rfl, hkd⟩
  · rintro ⟨rfl, h⟩
    exact ⟨(k, d), h, rfl, rfl, rfl⟩

/-! ### the step simulation -/

theorem dstep_cons (x : Int) (k : List Int) (d : Data) (l : Nat) (c : Int) :
    dstep (x :: k, d, l) c =
      if x = singleMatch then (if c < singleMatch then [] else [(k, d, l + 1)])
      else if x = anyMatch then
        (match k with
          | z :: q' => if z = c then [(q', d, l + 2)] else []
          | [] => [])
        ++ (if c ≠ columnMarker then [(x :: k, d, l)] else [])
      else if c = x then [(k, d, l + 1)] else [] := rfl

/-- consuming the first sort order `x` of a node: the rules in flight keep their tails -/
theorem flat_consume (x : Int) (q : List Int) (ch : List (Int × Node)) (data : Option Data) (len L : Nat) (z : RS) :
    z ∈ flat { so := q, children := ch, data := data, length := len + L } ↔
      ∃ k' d, (x :: k', d, len) ∈ flat { so := x :: q, children := ch, data := data, length := len } ∧
        z = (k', d, len + L) := by
  obtain ⟨k, d, l⟩ := z
  simp only [mem_flat, rules_cons]
  constructor
  · rintro ⟨rfl, h⟩
    refine ⟨k, d, ⟨?_, k, ?_, h⟩, rfl⟩ <;> simp
  · rintro ⟨k', d', ⟨_, k'', he, h⟩, hz⟩
    simp only [Prod.mk.injEq] at hz
    obtain ⟨rfl, rfl, rfl⟩ := hz
    simp only [List.cons.injEq, true_and] at he
    subst he
    exact ⟨rfl, h⟩

theorem flat_head (x : Int) (q : List Int) (ch : List (Int × Node)) (data : Option Data) (len : Nat) (y : RS)
    (h : y ∈ flat { so := x :: q, children := ch, data := data, length := len }) :
    ∃ k', y = (x :: k', y.2.1, len) := by
  obtain ⟨k, d, l⟩ := y
  simp only [mem_flat, rules_cons] at h
  obtain ⟨rfl, k', rfl, _⟩ := h
  exact ⟨k', rfl⟩


theorem flat_cons_iff (x : Int) (q : List Int) (ch : List (Int × Node)) (data : Option Data) (len l : Nat)
    (k' : List Int) (d : Data) :
    (x :: k', d, l) ∈ flat { so := x :: q, children := ch, data := data, length := len } ↔
      (k', d, l) ∈ flat { so := q, children := ch, data := data, length := len } := by
  simp only [mem_flat, rules_cons]
  constructor
  · rintro ⟨h1, k'', he, h⟩
    simp only [List.cons.injEq, true_and] at he
    subst he; exact ⟨h1, h⟩
  · rintro ⟨h1, h⟩
    exact ⟨h1, k', rfl, h⟩

theorem flat_len (n : Counted) (L : Nat) (k : List Int) (d : Data) (l : Nat) :
    (k, d, l) ∈ flat { n with length := L } ↔ l = L ∧ (k, d, n.length) ∈ flat n := by
  simp only [mem_flat]
  constructor
  · rintro ⟨h1, h2⟩; exact ⟨h1, trivial, h2⟩
  · rintro ⟨h1, _, h2⟩; exact ⟨h1, h2⟩

/-- simulation of one `processMatch` on a state with unconsumed sort orders -/
theorem step_ne (x : Int) (q : List Int) (ch : List (Int × Node)) (data : Option Data) (len : Nat) (c : Int)
    (hw : wfL ch = true) (z : RS) :
    z ∈ (processMatch { so := x :: q, children := ch, data := data, length := len } c).flatMap flat ↔
      ∃ y ∈ flat { so := x :: q, children := ch, data := data, length := len }, z ∈ dstep y c := by
  by_cases h1 : x = singleMatch
  · subst h1
    by_cases hc : c < singleMatch
    · simp only [processMatch, hc, if_true, List.flatMap_nil, List.not_mem_nil, false_iff]
      rintro ⟨y, hy, hz⟩
      obtain ⟨k', he⟩ := flat_head _ _ _ _ _ y hy
      rw [he, dstep_cons] at hz
      simp [hc] at hz
    · simp only [processMatch, hc, if_false, if_true, List.flatMap_cons, List.flatMap_nil, List.append_nil]
      rw [flat_consume singleMatch q ch data len 1 z]
      constructor
      · rintro ⟨k', d, hy, rfl⟩
        exact ⟨_, hy, by rw [dstep_cons]; simp [hc]⟩
      · rintro ⟨y, hy, hz⟩
        obtain ⟨k', he⟩ := flat_head _ _ _ _ _ y hy
        rw [he] at hy hz
        rw [dstep_cons] at hz
        simp [hc] at hz
        exact ⟨k', y.2.1, hy, hz⟩
  · by_cases h2 : x = anyMatch
    · subst h2
      have hstay : ∀ y ∈ flat { so := anyMatch :: q, children := ch, data := data, length := len },
          c ≠ columnMarker → y ∈ dstep y c := by
        intro y hy hcm
        obtain ⟨k', he⟩ := flat_head _ _ _ _ _ y hy
        rw [he, dstep_cons]
        simp [h1, hcm]
      cases q with
      | cons z0 q' =>
        simp only [processMatch, h1, if_false, if_true, List.flatMap_append, List.mem_append]
        constructor
        · rintro (hA | hB)
          · by_cases hzc : z0 = c
            · simp only [hzc, if_true, List.flatMap_cons, List.flatMap_nil, List.append_nil] at hA
              subst hzc
              obtain ⟨k', d, hy, rfl⟩ := (flat_consume z0 q' ch data len 2 z).mp hA
              refine ⟨(anyMatch :: z0 :: k', d, len), (flat_cons_iff _ _ _ _ _ _ _ _).mpr hy, ?_⟩
              rw [dstep_cons]; simp [h1]
            · simp [hzc] at hA
          · by_cases hcm : c ≠ columnMarker
            · simp only [hcm, if_true, List.flatMap_cons, List.flatMap_nil, List.append_nil, ne_eq,
                not_false_eq_true] at hB
              exact ⟨z, hB, hstay z hB hcm⟩
            · simp [hcm] at hB
        · rintro ⟨y, hy, hz⟩
          obtain ⟨k1, he⟩ := flat_head _ _ _ _ _ y hy
          rw [he] at hy hz
          have hy' := (flat_cons_iff _ _ _ _ _ _ _ _).mp hy
          obtain ⟨k2, he2⟩ := flat_head _ _ _ _ _ _ hy'
          simp only [Prod.mk.injEq, and_true] at he2
          subst he2
          rw [dstep_cons] at hz
          simp only [h1, if_false, if_true, List.mem_append] at hz
          rcases hz with hz | hz
          · by_cases hzc : z0 = c
            · left
              simp only [hzc, if_true, List.mem_singleton] at hz
              simp only [hzc, if_true, List.flatMap_cons, List.flatMap_nil, List.append_nil]
              rw [flat_consume z0 q' ch data len 2 z]
              exact ⟨k2, y.2.1, hy', hz⟩
            · simp [hzc] at hz
          · right
            by_cases hcm : c ≠ columnMarker
            · simp only [hcm, if_true, List.mem_singleton, ne_eq, not_false_eq_true] at hz
              simp only [hcm, if_true, List.flatMap_cons, List.flatMap_nil, List.append_nil, ne_eq,
                not_false_eq_true]
              rw [hz]; exact hy
            · simp [hcm] at hz
      | nil =>
        simp only [processMatch, h1, if_false, if_true, List.flatMap_append, List.mem_append]
        constructor
        · rintro (hA | hB)
          · cases hl : lookupChild ch c with
            | none => rw [hl] at hA; simp at hA
            | some child =>
              obtain ⟨cso, cch, cd⟩ := child
              rw [hl] at hA
              simp only [List.flatMap_cons, List.flatMap_nil, List.append_nil] at hA
              have hmem := lookup_mem ch c _ hl
              obtain ⟨hhead, _, _⟩ := wfL_mem ch c _ hw hmem
              -- the child's sort orders start with `c`
              cases cso with
              | nil => simp [Node.so] at hhead
              | cons c0 cso' =>
                simp only [Node.so, List.head?_cons, Option.some.injEq] at hhead
                subst hhead
                simp only [List.drop_succ_cons, List.drop_zero] at hA
                obtain ⟨k, d, l⟩ := z
                rw [mem_flat] at hA
                obtain ⟨hl2, hr⟩ := hA
                simp only at hl2 hr
                refine ⟨(anyMatch :: c0 :: k, d, len), ?_, ?_⟩
                · rw [mem_flat]
                  refine ⟨rfl, ?_⟩
                  simp only
                  rw [mem_rulesN]
                  exact Or.inr ⟨(c0, .mk (c0 :: cso') cch cd), hmem, c0 :: k,
                    (rules_cons _ _ _ _ _ _).mpr ⟨k, rfl, hr⟩, rfl⟩
                · rw [dstep_cons]; simp [h1, hl2]
          · by_cases hcm : c ≠ columnMarker
            · simp only [hcm, if_true, List.flatMap_cons, List.flatMap_nil, List.append_nil, ne_eq,
                not_false_eq_true] at hB
              exact ⟨z, hB, hstay z hB hcm⟩
            · simp [hcm] at hB
        · rintro ⟨y, hy, hz⟩
          obtain ⟨k1, he⟩ := flat_head _ _ _ _ _ y hy
          rw [he] at hy hz
          rw [dstep_cons] at hz
          simp only [h1, if_false, if_true, List.mem_append] at hz
          rcases hz with hz | hz
          · -- an advance: the rule continues in the child filed under `c`
            cases k1 with
            | nil => simp at hz
            | cons z0 k2 =>
              by_cases hzc : z0 = c
              · subst hzc
                simp only [if_true, List.mem_singleton] at hz
                rw [mem_flat] at hy
                obtain ⟨_, hr⟩ := hy
                simp only at hr
                rw [mem_rulesN] at hr
                rcases hr with ⟨_, he0⟩ | ⟨kn, hkn, ck, hck, he0⟩
                · simp at he0
                · simp only [List.cons_append, List.nil_append, List.cons.injEq, true_and] at he0
                  obtain ⟨kk, child⟩ := kn
                  obtain ⟨cso, cch, cd⟩ := child
                  obtain ⟨hhead, _, hlook⟩ := wfL_mem ch kk _ hw hkn
                  cases cso with
                  | nil => simp [Node.so] at hhead
                  | cons c0 cso' =>
                    simp only [Node.so, List.head?_cons, Option.some.injEq] at hhead
                    subst hhead
                    subst he0
                    obtain ⟨k', hk', hr'⟩ := (rules_cons _ _ _ _ _ _).mp hck
                    simp only [List.cons.injEq] at hk'
                    obtain ⟨rfl, rfl⟩ := hk'
                    left
                    rw [hlook]
                    simp only [List.flatMap_cons, List.flatMap_nil, List.append_nil, List.drop_succ_cons,
                      List.drop_zero]
                    rw [hz, mem_flat]
                    exact ⟨rfl, hr'⟩
              · simp [hzc] at hz
          · right
            by_cases hcm : c ≠ columnMarker
            · simp only [hcm, if_true, List.mem_singleton, ne_eq, not_false_eq_true] at hz
              simp only [hcm, if_true, List.flatMap_cons, List.flatMap_nil, List.append_nil, ne_eq,
                not_false_eq_true]
              rw [hz]; exact hy
            · simp [hcm] at hz
    · by_cases hc : c = x
      · subst hc
        simp only [processMatch, h1, h2, if_false, if_true, List.flatMap_cons, List.flatMap_nil, List.append_nil]
        rw [flat_consume c q ch data len 1 z]
        constructor
        · rintro ⟨k', d, hy, rfl⟩
          exact ⟨_, hy, by rw [dstep_cons]; simp [h1, h2]⟩
        · rintro ⟨y, hy, hz⟩
          obtain ⟨k', he⟩ := flat_head _ _ _ _ _ y hy
          rw [he] at hy hz
          rw [dstep_cons] at hz
          simp [h1, h2] at hz
          exact ⟨k', y.2.1, hy, hz⟩
      · simp only [processMatch, h1, h2, hc, if_false, List.flatMap_nil, List.not_mem_nil, false_iff]
        rintro ⟨y, hy, hz⟩
        obtain ⟨k', he⟩ := flat_head _ _ _ _ _ y hy
        rw [he, dstep_cons] at hz
        simp [h1, h2, hc] at hz


theorem wfN_mk (so : List Int) (ch : List (Int × Node)) (d : Option Data) :
    wfN (.mk so ch d) = true ↔ so ≠ [] ∧ wfL ch = true := by
  simp [wfN]

/-- the step from an exhausted node into the child filed under `k` -/
theorem child_step (ch : List (Int × Node)) (data : Option Data) (len : Nat) (k c : Int) (hw : wfL ch = true)
    (cso : List Int) (cch : List (Int × Node)) (cd : Option Data)
    (hl : lookupChild ch k = some (.mk cso cch cd)) (z : RS) :
    z ∈ (childStep { so := [], children := ch, data := data, length := len } k c).flatMap flat ↔
      ∃ y ∈ flat { so := cso, children := cch, data := cd, length := len }, z ∈ dstep y c := by
  have hmem := lookup_mem ch k _ hl
  obtain ⟨hhead, hwc, _⟩ := wfL_mem ch k _ hw hmem
  obtain ⟨hne, hwcc⟩ := (wfN_mk _ _ _).mp hwc
  cases cso with
  | nil => exact absurd rfl hne
  | cons c0 cso' =>
    simp only [childStep, hl]
    exact step_ne c0 cso' cch cd len c hwcc z

theorem step_one (n : Counted) (hw : wfL n.children = true) (c : Int) (z : RS) :
    z ∈ (stepTrie [n] c).flatMap flat ↔ ∃ y ∈ flat n, z ∈ dstep y c := by
  obtain ⟨so, ch, data, len⟩ := n
  simp only at hw
  cases so with
  | cons x q =>
    simp only [stepTrie, List.flatMap_cons, List.flatMap_nil, List.append_nil, List.isEmpty_cons,
      Bool.false_eq_true, if_false]
    exact step_ne x q ch data len c hw z
  | nil =>
    simp only [stepTrie, List.flatMap_cons, List.flatMap_nil, List.append_nil, List.isEmpty_nil, if_true,
      List.flatMap_append, List.mem_append]
    -- membership in the step through the child filed under `k`
    have viaChild : ∀ k, z ∈ (childStep { so := [], children := ch, data := data, length := len } k c).flatMap flat →
        ∃ y ∈ flat { so := [], children := ch, data := data, length := len }, z ∈ dstep y c := by
      intro k hz
      cases hl : lookupChild ch k with
      | none => simp [childStep, hl] at hz
      | some child =>
        obtain ⟨cso, cch, cd⟩ := child
        obtain ⟨y, hy, hzy⟩ := (child_step ch data len k c hw cso cch cd hl z).mp hz
        refine ⟨y, ?_, hzy⟩
        rw [mem_flat] at hy ⊢
        refine ⟨hy.1, ?_⟩
        simp only at hy ⊢
        rw [rules_nil]
        exact Or.inr ⟨(k, .mk cso cch cd), lookup_mem ch k _ hl, hy.2⟩
    constructor
    · rintro ((h | h) | h)
      · exact viaChild _ h
      · exact viaChild _ h
      · exact viaChild _ h
    · rintro ⟨y, hy, hz⟩
      obtain ⟨k, d, l⟩ := y
      rw [mem_flat] at hy
      obtain ⟨hl0, hr⟩ := hy
      simp only at hl0 hr
      rw [rules_nil] at hr
      rcases hr with ⟨_, rfl⟩ | ⟨kn, hkn, hr⟩
      · simp [dstep] at hz
      · obtain ⟨kk, child⟩ := kn
        obtain ⟨cso, cch, cd⟩ := child
        obtain ⟨hhead, hwc, hlook⟩ := wfL_mem ch kk _ hw hkn
        obtain ⟨hne, _⟩ := (wfN_mk _ _ _).mp hwc
        cases cso with
        | nil => exact absurd rfl hne
        | cons c0 cso' =>
          simp only [Node.so, List.head?_cons, Option.some.injEq] at hhead
          subst hhead
          have hyc : (k, d, l) ∈ flat { so := c0 :: cso', children := cch, data := cd, length := len } := by
            rw [mem_flat]; exact ⟨hl0, hr⟩
          have hzc := (child_step ch data len c0 c hw _ cch cd hlook z).mpr ⟨_, hyc, hz⟩
          -- which of the three look-ups finds this child
          obtain ⟨k', he⟩ := flat_head _ _ _ _ _ _ hyc
          simp only [Prod.mk.injEq] at he
          obtain ⟨rfl, _, _⟩ := he
          rw [dstep_cons] at hz
          by_cases h1 : c0 = singleMatch
          · subst h1; exact Or.inl (Or.inl hzc)
          · by_cases h2 : c0 = anyMatch
            · subst h2; exact Or.inl (Or.inr hzc)
            · by_cases h3 : c = c0
              · subst h3; exact Or.inr hzc
              · simp [h1, h2, h3] at hz

/-- one token over a whole list of states -/
theorem step_all (sts : List Counted) (hw : ∀ n ∈ sts, wfL n.children = true) (c : Int) (z : RS) :
    z ∈ (stepTrie sts c).flatMap flat ↔ ∃ y ∈ sts.flatMap flat, z ∈ dstep y c := by
  induction sts with
  | nil => simp [stepTrie]
  | cons n rest ih =>
    have hsplit : stepTrie (n :: rest) c = stepTrie [n] c ++ stepTrie rest c := by
      simp [stepTrie]
    rw [hsplit]
    simp only [List.flatMap_append, List.mem_append, List.flatMap_cons]
    rw [step_one n (hw n (by simp)) c z, ih (fun m hm => hw m (by simp [hm]))]
    constructor
    · rintro (⟨y, hy, hz⟩ | ⟨y, hy, hz⟩)
      · exact ⟨y, Or.inl hy, hz⟩
      · exact ⟨y, Or.inr hy, hz⟩
    · rintro ⟨y, (hy | hy), hz⟩
      · exact Or.inl ⟨y, hy, hz⟩
      · exact Or.inr ⟨y, hy, hz⟩


/-! ### the invariant carried by the states -/

def Inv (n : Counted) : Prop := wfL n.children = true ∧ noAnyLeafL n.children = true

theorem naN_mk (so : List Int) (ch : List (Int × Node)) (d : Option Data) :
    noAnyLeafN (.mk so ch d) = noAnyLeafL ch := by
  simp [noAnyLeafN]

theorem inv_child (ch : List (Int × Node)) (k : Int) (cso : List Int) (cch : List (Int × Node)) (cd : Option Data)
    (hw : wfL ch = true) (hn : noAnyLeafL ch = true) (hl : lookupChild ch k = some (.mk cso cch cd)) :
    wfL cch = true ∧ noAnyLeafL cch = true := by
  have hmem := lookup_mem ch k _ hl
  obtain ⟨_, hwc, _⟩ := wfL_mem ch k _ hw hmem
  obtain ⟨_, hnc⟩ := naL_mem ch k _ hn hmem
  rw [naN_mk] at hnc
  exact ⟨((wfN_mk _ _ _).mp hwc).2, hnc⟩

theorem inv_process (n : Counted) (hi : Inv n) (c : Int) : ∀ n' ∈ processMatch n c, Inv n' := by
  obtain ⟨so, ch, data, len⟩ := n
  obtain ⟨hw, hn⟩ := hi
  simp only at hw hn
  intro n' hn'
  cases so with
  | nil => simp [processMatch] at hn'
  | cons x q =>
    by_cases h1 : x = singleMatch
    · simp only [processMatch, h1, if_true] at hn'
      by_cases hc : c < singleMatch
      · simp [hc] at hn'
      · simp only [hc, if_false, List.mem_singleton] at hn'
        subst hn'; exact ⟨hw, hn⟩
    · by_cases h2 : x = anyMatch
      · subst h2
        have hstay : n' ∈ (if c ≠ columnMarker then [({ so := anyMatch :: q, children := ch, data := data, length := len } : Counted)] else []) →
            Inv n' := by
          intro h
          by_cases hcm : c ≠ columnMarker
          · simp only [hcm, if_true, List.mem_singleton, ne_eq, not_false_eq_true] at h
            subst h; exact ⟨hw, hn⟩
          · simp [hcm] at h
        cases q with
        | cons z0 q' =>
          simp only [processMatch, h1, if_false, if_true, List.mem_append] at hn'
          rcases hn' with h | h
          · by_cases hz : z0 = c
            · simp only [hz, if_true, List.mem_singleton] at h
              subst h; exact ⟨hw, hn⟩
            · simp [hz] at h
          · exact hstay h
        | nil =>
          simp only [processMatch, h1, if_false, if_true, List.mem_append] at hn'
          rcases hn' with h | h
          · cases hl : lookupChild ch c with
            | none => rw [hl] at h; simp at h
            | some child =>
              obtain ⟨cso, cch, cd⟩ := child
              rw [hl] at h
              simp only [List.mem_singleton] at h
              subst h
              exact inv_child ch c cso cch cd hw hn hl
          · exact hstay h
      · simp only [processMatch, h1, h2, if_false] at hn'
        by_cases hc : c = x
        · simp only [hc, if_true, List.mem_singleton] at hn'
          subst hn'; exact ⟨hw, hn⟩
        · simp [hc] at hn'

theorem inv_step (sts : List Counted) (hi : ∀ n ∈ sts, Inv n) (c : Int) : ∀ n' ∈ stepTrie sts c, Inv n' := by
  intro n' hn'
  simp only [stepTrie, List.mem_flatMap] at hn'
  obtain ⟨n, hn, h⟩ := hn'
  have hin := hi n hn
  by_cases he : n.so.isEmpty = true
  · simp only [he, if_true, List.mem_append] at h
    have viaChild : ∀ k, n' ∈ childStep n k c → Inv n' := by
      intro k hk
      simp only [childStep] at hk
      cases hl : lookupChild n.children k with
      | none => rw [hl] at hk; simp at hk
      | some child =>
        obtain ⟨cso, cch, cd⟩ := child
        rw [hl] at hk
        have := inv_child n.children k cso cch cd hin.1 hin.2 hl
        exact inv_process _ ⟨this.1, this.2⟩ c n' hk
    rcases h with (h | h) | h
    · exact viaChild _ h
    · exact viaChild _ h
    · exact viaChild _ h
  · simp only [he, Bool.false_eq_true, if_false] at h
    exact inv_process n hin c n' h

/-! ### whole runs -/

/-- `z` is reachable from the rule-in-flight `y` by reading `toks` -/
def dreach : RS → List Int → RS → Prop
  | y, [], z => z = y
  | y, c :: t, z => ∃ y', y' ∈ dstep y c ∧ dreach y' t z

theorem run_sim (toks : List Int) : ∀ (sts : List Counted), (∀ n ∈ sts, Inv n) → ∀ z,
    (z ∈ (toks.foldl stepTrie sts).flatMap flat ↔ ∃ y ∈ sts.flatMap flat, dreach y toks z) := by
  induction toks with
  | nil => intro sts _ z; simp [dreach]
  | cons c t ih =>
    intro sts hi z
    simp only [List.foldl_cons]
    rw [ih (stepTrie sts c) (inv_step sts hi c) z]
    constructor
    · rintro ⟨y', hy', hr⟩
      obtain ⟨y, hy, hstep⟩ := (step_all sts (fun n hn => (hi n hn).1) c y').mp hy'
      exact ⟨y, hy, y', hstep, hr⟩
    · rintro ⟨y, hy, y', hstep, hr⟩
      exact ⟨y', (step_all sts (fun n hn => (hi n hn).1) c y').mpr ⟨y, hy, hstep⟩, hr⟩

theorem run_inv (toks : List Int) : ∀ (sts : List Counted), (∀ n ∈ sts, Inv n) →
    ∀ n ∈ toks.foldl stepTrie sts, Inv n := by
  induction toks with
  | nil => intro sts hi; simpa using hi
  | cons c t ih => intro sts hi; simp only [List.foldl_cons]; exact ih _ (inv_step sts hi c)

/-- what a finished rule-in-flight reports -/
def dfin (z : RS) : Option (Data × Nat) :=
  if z.1 = [] then some (z.2.1, z.2.2) else if z.1 = [anyMatch] then some (z.2.1, z.2.2 + 1) else none

theorem rules_nonempty (nd : Node) (hw : wfN nd = true) (k : List Int) (d : Data) (h : (k, d) ∈ rulesN nd) :
    k ≠ [] := by
  obtain ⟨so, ch, data⟩ := nd
  obtain ⟨hne, _⟩ := (wfN_mk _ _ _).mp hw
  rw [mem_rulesN] at h
  rcases h with ⟨_, rfl⟩ | ⟨_, _, ck, _, rfl⟩
  · exact hne
  · intro e; exact hne (List.append_eq_nil_iff.mp e).1

theorem finish_sim (sts : List Counted) (hi : ∀ n ∈ sts, Inv n) (r : Data × Nat) :
    r ∈ finish sts ↔ ∃ z ∈ sts.flatMap flat, dfin z = some r := by
  simp only [finish, List.mem_filterMap, List.mem_flatMap]
  constructor
  · rintro ⟨n, hn, hf⟩
    obtain ⟨so, ch, data, len⟩ := n
    cases data with
    | none => simp at hf
    | some d0 =>
      simp only at hf
      by_cases he : so.isEmpty = true
      · have hso : so = [] := by simpa using he
        subst hso
        simp only [List.isEmpty_nil, if_true, Option.some.injEq] at hf
        refine ⟨([], d0, len), ⟨_, hn, ?_⟩, ?_⟩
        · rw [mem_flat]; exact ⟨rfl, (mem_rulesN _ _ _ _ _).mpr (Or.inl ⟨rfl, rfl⟩)⟩
        · simp [dfin, hf]
      · simp only [he, Bool.false_eq_true, if_false] at hf
        by_cases ha : (so == [anyMatch]) = true
        · have hso : so = [anyMatch] := by simpa using ha
          subst hso
          simp only [beq_self_eq_true, if_true, Option.some.injEq] at hf
          refine ⟨([anyMatch], d0, len), ⟨_, hn, ?_⟩, ?_⟩
          · rw [mem_flat]; exact ⟨rfl, (mem_rulesN _ _ _ _ _).mpr (Or.inl ⟨rfl, rfl⟩)⟩
          · simp [dfin, hf]
        · simp [ha] at hf
  · rintro ⟨z, ⟨n, hn, hz⟩, hf⟩
    obtain ⟨hw, hna⟩ := hi n hn
    obtain ⟨so, ch, data, len⟩ := n
    obtain ⟨k, d, l⟩ := z
    rw [mem_flat] at hz
    obtain ⟨hl, hr⟩ := hz
    simp only at hl hr hw hna
    subst hl
    refine ⟨_, hn, ?_⟩
    rw [mem_rulesN] at hr
    rcases hr with ⟨rfl, rfl⟩ | ⟨kn, hkn, ck, hck, rfl⟩
    · -- the node's own rule
      simp only [dfin] at hf
      by_cases h0 : k = []
      · subst h0; simpa using hf
      · by_cases h1 : k = [anyMatch]
        · subst h1; simpa [h0] using hf
        · simp [h0, h1] at hf
    · -- a rule of a child can only finish here as a bare `[%]` leaf under an exhausted node: excluded
      exfalso
      obtain ⟨kk, child⟩ := kn
      obtain ⟨hhead, hwc, _⟩ := wfL_mem ch kk child hw hkn
      obtain ⟨hleaf, _⟩ := naL_mem ch kk child hna hkn
      have hckne := rules_nonempty child hwc ck d hck
      obtain ⟨cso, cch, cd⟩ := child
      simp only [dfin] at hf
      by_cases h0 : so ++ ck = []
      · exact hckne (List.append_eq_nil_iff.mp h0).2
      · by_cases h1 : so ++ ck = [anyMatch]
        · -- so = [] and ck = [%]
          have hso : so = [] := by
            cases so with
            | nil => rfl
            | cons a t =>
              simp only [List.cons_append, List.cons.injEq, List.append_eq_nil_iff] at h1
              exact absurd h1.2.2 hckne
          subst hso
          simp only [List.nil_append] at h1
          subst h1
          obtain ⟨hne, hwcc⟩ := (wfN_mk _ _ _).mp hwc
          rw [mem_rulesN] at hck
          rcases hck with ⟨hcd, hcs⟩ | ⟨kn2, hkn2, ck2, hck2, he2⟩
          · exact hleaf ⟨by simp [Node.so, hcs], by simp [Node.data, hcd]⟩
          · obtain ⟨kk2, child2⟩ := kn2
            obtain ⟨_, hwc2, _⟩ := wfL_mem cch kk2 child2 hwcc hkn2
            have hne2 := rules_nonempty child2 hwc2 ck2 d hck2
            cases cso with
            | nil => exact hne rfl
            | cons a t =>
              simp only [List.cons_append, List.cons.injEq] at he2
              exact hne2 (List.append_eq_nil_iff.mp he2.2.symm).2
        · simp [h0, h1] at hf


/-- what the trie reports, in terms of the rules it stores, each run on its own -/
theorem match_iff (root : Node) (hw : wfN root = true) (hn : noAnyLeafN root = true) (toks : List Int)
    (r : Data × Nat) :
    r ∈ root.matchTokens toks ↔
      ∃ kd ∈ rulesN root, ∃ z, dreach (kd.1, kd.2, 0) toks z ∧ dfin z = some r := by
  obtain ⟨so, ch, data⟩ := root
  rw [naN_mk] at hn
  have hi : ∀ n ∈ [({ so := so, children := ch, data := data, length := 0 } : Counted)], Inv n := by
    intro n hn'
    simp only [List.mem_singleton] at hn'
    subst hn'
    exact ⟨((wfN_mk _ _ _).mp hw).2, hn⟩
  simp only [Node.matchTokens, Node.so, Node.children, Node.data]
  rw [finish_sim _ (run_inv toks _ hi) r]
  constructor
  · rintro ⟨z, hz, hf⟩
    obtain ⟨y, hy, hr⟩ := (run_sim toks _ hi z).mp hz
    simp only [List.flatMap_cons, List.flatMap_nil, List.append_nil] at hy
    obtain ⟨k, d, l⟩ := y
    rw [mem_flat] at hy
    obtain ⟨hl, hk⟩ := hy
    simp only at hl hk
    subst hl
    exact ⟨(k, d), hk, z, hr, hf⟩
  · rintro ⟨kd, hkd, z, hr, hf⟩
    refine ⟨z, (run_sim toks _ hi z).mpr ⟨(kd.1, kd.2, 0), ?_, hr⟩, hf⟩
    simp only [List.flatMap_cons, List.flatMap_nil, List.append_nil]
    rw [mem_flat]
    exact ⟨rfl, hkd⟩

/-- **the trie's `Match` = the per-rule direct match over the rules it stores** (well-formed tries
without a bare `[%]` child) -/
theorem trie_match_eq_direct (root : Node) (hw : wfN root = true) (hn : noAnyLeafN root = true)
    (toks : List Int) (r : Data × Nat) :
    r ∈ root.matchTokens toks ↔
      ∃ kd ∈ rulesN root, r ∈ (Node.mk kd.1 [] (some kd.2)).matchTokens toks := by
  rw [match_iff root hw hn]
  constructor
  · rintro ⟨kd, hkd, z, hr, hf⟩
    refine ⟨kd, hkd, ?_⟩
    have hne := rules_nonempty root hw kd.1 kd.2 hkd
    rw [match_iff _ (by simp [wfN, wfL, hne]) (by simp [noAnyLeafN, noAnyLeafL])]
    exact ⟨kd, by simp [rulesN, rulesL], z, hr, hf⟩
  · rintro ⟨kd, hkd, h⟩
    have hne := rules_nonempty root hw kd.1 kd.2 hkd
    rw [match_iff _ (by simp [wfN, wfL, hne]) (by simp [noAnyLeafN, noAnyLeafL])] at h
    obtain ⟨kd', hkd', z, hr, hf⟩ := h
    simp only [rulesN, rulesL, List.map_nil, List.append_nil, List.mem_singleton] at hkd'
    subst hkd'
    exact ⟨kd, hkd, z, hr, hf⟩

end DoltVerif.BranchControl
