import DoltVerif.Model.Query
/-! Helper lemmas for C26: cell order, per-field correctness of the SQL→prolly range conversion,
monotonicity of the partition predicates, the slice lemma. -/
namespace DoltVerif.Query

-- ---------------------------------------------------------------- cells

theorem clt_irrefl (a : Cell) : clt a a = false := by cases a <;> simp [clt]
theorem clt_trans {a b c : Cell} (h1 : clt a b = true) (h2 : clt b c = true) : clt a c = true := by
  cases a <;> cases b <;> cases c <;> simp [clt] at * <;> omega
theorem clt_asymm {a b : Cell} (h : clt a b = true) : clt b a = false := by
  cases a <;> cases b <;> simp [clt] at * <;> omega
theorem clt_total (a b : Cell) : a = b ∨ clt a b = true ∨ clt b a = true := by
  cases a <;> cases b <;> simp [clt] <;> omega

theorem ccmp_neg {a b : Cell} : ccmp a b < 0 ↔ clt a b = true := by
  unfold ccmp; by_cases h : clt a b = true
  · simp [h]
  · by_cases h2 : clt b a = true <;> simp [h, h2]
theorem ccmp_pos {a b : Cell} : ccmp a b > 0 ↔ clt b a = true := by
  unfold ccmp; by_cases h : clt a b = true
  · simp [h, clt_asymm h]
  · by_cases h2 : clt b a = true <;> simp [h, h2]
theorem ccmp_zero {a b : Cell} : ccmp a b = 0 ↔ a = b := by
  unfold ccmp
  rcases clt_total a b with h | h | h
  · subst h; simp [clt_irrefl]
  · have hne : a ≠ b := fun e => by subst e; simp [clt_irrefl] at h
    simp [h, hne]
  · have hne : a ≠ b := fun e => by subst e; simp [clt_irrefl] at h
    simp [h, clt_asymm h, hne]

theorem ccmp_beq_zero (a b : Cell) : (ccmp a b == 0) = decide (a = b) := by
  by_cases h : a = b
  · simp [h, ccmp_zero.mpr rfl]
  · have : ccmp a b ≠ 0 := fun e => h (ccmp_zero.mp e)
    simp [h, this]

-- ---------------------------------------------------------------- one field

/-- the per-field test of `Range.Matches` -/
def fieldMatches (f : RangeField) (v : Cell) : Bool :=
  if f.boundsAreEqual then ccmp v f.lo.value == 0
  else
    !(f.lo.binding && (ccmp v f.lo.value < 0 || (ccmp v f.lo.value == 0 && !f.lo.inclusive))) &&
    !(f.hi.binding && (ccmp v f.hi.value > 0 || (ccmp v f.hi.value == 0 && !f.hi.inclusive)))

theorem rmatches_cons (f : RangeField) (fs : List RangeField) (t : Tuple) :
    rmatches (f :: fs) t = (fieldMatches f (headCell t) && rmatches fs t.tail) := by
  simp only [rmatches, fieldMatches]
  by_cases h1 : f.boundsAreEqual = true
  · simp only [h1, if_true]
    by_cases h2 : (ccmp (headCell t) f.lo.value == 0) = true <;> simp [h2]
  · simp only [h1, Bool.false_eq_true, if_false]
    by_cases h2 : (f.lo.binding && (decide (ccmp (headCell t) f.lo.value < 0) || (ccmp (headCell t) f.lo.value == 0 && !f.lo.inclusive))) = true
    · simp [h2]
    · by_cases h3 : (f.hi.binding && (decide (ccmp (headCell t) f.hi.value > 0) || (ccmp (headCell t) f.hi.value == 0 && !f.hi.inclusive))) = true
      · simp [h2, h3]
      · simp [h2, h3]

/-- **the conversion is right column by column**: for a non-empty column expression the prolly field
built by `prollyRangesFromSqlRanges` accepts exactly the cells between the two cuts — NULL included
(`IS NULL` = (BelowNull, AboveNull], `IS NOT NULL` / every `<`,`≤` range starts above NULL). -/
theorem fieldMatches_toField (e : ColExpr) (v : Cell) (h : colNonEmpty e = true) :
    fieldMatches (toField e) v = member e v := by
  obtain ⟨lo, hi⟩ := e
  cases lo <;> cases hi <;> cases v <;>
    simp [colNonEmpty, cutLt, cutPos, toField, fieldMatches, member, aboveCut, cutIsBinding, cutValue, lowerClosed,
      upperClosed, ccmp_neg, ccmp_pos, ccmp_zero, ccmp_beq_zero, clt, beq_iff_eq] at h ⊢ <;>
    (try omega)
  all_goals first
    | (have h' := of_decide_eq_true h; clear h; (first | (split <;> first | omega | (rw [Bool.eq_iff_iff]; simp <;> omega)) | (rw [Bool.eq_iff_iff]; simp <;> omega)))
    | (have h' := h.imp of_decide_eq_true id; clear h; (first | (split <;> first | omega | (rw [Bool.eq_iff_iff]; simp <;> omega)) | (rw [Bool.eq_iff_iff]; simp <;> omega)))
    | (first | (split <;> first | omega | (rw [Bool.eq_iff_iff]; simp <;> omega)) | (rw [Bool.eq_iff_iff]; simp <;> omega))

theorem rmatches_toProlly (r : List ColExpr) : ∀ t : Tuple, rangeNonEmpty r = true →
    rmatches (r.map toField) t = memberAll r t := by
  induction r with
  | nil => intro t _; rfl
  | cons e es ih =>
    intro t h
    simp only [rangeNonEmpty, List.all_cons, Bool.and_eq_true] at h
    simp only [List.map_cons, rmatches_cons, memberAll, fieldMatches_toField e _ h.1]
    rw [ih t.tail (by simpa [rangeNonEmpty] using h.2)]

-- ---------------------------------------------------------------- well-formed fields

/-- what `toField` guarantees and the partition lemmas need -/
structure WFField (f : RangeField) : Prop where
  eqVals : f.boundsAreEqual = true → f.hi.value = f.lo.value ∧ f.hi.binding = true ∧ f.lo.binding = true

theorem wf_toField (e : ColExpr) : WFField (toField e) := by
  constructor
  intro h
  simp only [toField, Bool.and_eq_true, ccmp_beq_zero, decide_eq_true_eq] at h
  exact ⟨h.1.1, h.1.2, h.2⟩

-- ---------------------------------------------------------------- lexicographic order on equal-length tuples

theorem tle_cons (a b : Cell) (as bs : Tuple) : tle (a :: as) (b :: bs) = (clt a b || (a == b && tle as bs)) := rfl

/-- `aboveStart` is monotone along the index order -/
theorem aboveStart_mono : ∀ (fs : List RangeField) (t t' : Tuple), t.length = t'.length → fs.length ≤ t.length →
    tle t t' = true → aboveStart fs t = true → aboveStart fs t' = true := by
  intro fs
  induction fs with
  | nil => intros; rfl
  | cons f fs ih =>
    intro t t' hl hn hle h
    cases t with
    | nil => simp at hn
    | cons v vs =>
      cases t' with
      | nil => simp at hl
      | cons v' vs' =>
        simp only [aboveStart, headCell, List.tail_cons] at h ⊢
        by_cases hb : f.lo.binding = true
        case neg => simp [hb]
        simp only [hb, Bool.not_true, Bool.false_eq_true, if_false] at h ⊢
        rw [tle_cons] at hle
        by_cases hlt : clt v v' = true
        · -- strictly larger head: c' > c ≥ 0
          have hc : ¬ ccmp v f.lo.value < 0 := by
            intro hc; simp [hc] at h
          have hc' : ccmp v' f.lo.value > 0 := by
            rw [ccmp_pos]
            rcases clt_total v f.lo.value with e | e | e
            · subst e; exact hlt
            · exact absurd (ccmp_neg.mpr e) hc
            · exact clt_trans e hlt
          have hn0 : ¬ ccmp v' f.lo.value < 0 := by omega
          have hn1 : ¬ ccmp v' f.lo.value = 0 := by omega
          simp [hn0, hn1, hc']
        · have heq : v = v' ∧ tle vs vs' = true := by
            simp only [hlt, Bool.false_or, Bool.and_eq_true, beq_iff_eq] at hle
            exact hle
          obtain ⟨e, hts⟩ := heq
          subst e
          by_cases hc : ccmp v f.lo.value < 0
          · simp [hc] at h
          · simp only [hc, if_false] at h ⊢
            by_cases hq : (f.boundsAreEqual && ccmp v f.lo.value == 0) = true
            · simp only [hq, if_true] at h ⊢
              exact ih vs vs' (by simpa using hl) (by simp at hn; omega) hts h
            · simp only [hq, Bool.false_eq_true, if_false] at h ⊢
              exact h

/-- `belowStop` is antitone along the index order -/
theorem belowStop_anti : ∀ (fs : List RangeField) (t t' : Tuple), t.length = t'.length → fs.length ≤ t.length →
    tle t t' = true → belowStop fs t' = true → belowStop fs t = true := by
  intro fs
  induction fs with
  | nil => intros; rfl
  | cons f fs ih =>
    intro t t' hl hn hle h
    cases t with
    | nil => simp at hn
    | cons v vs =>
      cases t' with
      | nil => simp at hl
      | cons v' vs' =>
        simp only [belowStop, headCell, List.tail_cons] at h ⊢
        by_cases hb : f.hi.binding = true
        case neg => simp [hb]
        simp only [hb, Bool.not_true, Bool.false_eq_true, if_false] at h ⊢
        rw [tle_cons] at hle
        by_cases hlt : clt v v' = true
        · have hc' : ¬ ccmp v' f.hi.value > 0 := by
            intro hc; simp [hc] at h
          have hc : ccmp v f.hi.value < 0 := by
            rw [ccmp_neg]
            rcases clt_total v' f.hi.value with e | e | e
            · subst e; exact hlt
            · exact clt_trans hlt e
            · exact absurd (ccmp_pos.mpr e) hc'
          have hn0 : ¬ ccmp v f.hi.value > 0 := by omega
          have hn1 : ¬ ccmp v f.hi.value = 0 := by omega
          simp [hn0, hn1, hc]
        · have heq : v = v' ∧ tle vs vs' = true := by
            simp only [hlt, Bool.false_or, Bool.and_eq_true, beq_iff_eq] at hle
            exact hle
          obtain ⟨e, hts⟩ := heq
          subst e
          by_cases hc : ccmp v f.hi.value > 0
          · simp [hc] at h
          · simp only [hc, if_false] at h ⊢
            by_cases hq : (f.boundsAreEqual && ccmp v f.hi.value == 0) = true
            · simp only [hq, if_true] at h ⊢
              exact ih vs vs' (by simpa using hl) (by simp at hn; omega) hts h
            · simp only [hq, Bool.false_eq_true, if_false] at h ⊢
              exact h

-- ---------------------------------------------------------------- Matches vs. the partition predicates

theorem rmatches_aboveStart : ∀ (fs : List RangeField) (t : Tuple), (∀ f ∈ fs, WFField f) →
    rmatches fs t = true → aboveStart fs t = true := by
  intro fs
  induction fs with
  | nil => intros; rfl
  | cons f fs ih =>
    intro t hw h
    rw [rmatches_cons, Bool.and_eq_true] at h
    obtain ⟨hf, hr⟩ := h
    have ihr := ih t.tail (fun g hg => hw g (by simp [hg])) hr
    simp only [aboveStart]
    by_cases hb : f.lo.binding = true
    case neg => simp [hb]
    simp only [hb, Bool.not_true, Bool.false_eq_true, if_false]
    simp only [fieldMatches] at hf
    by_cases he : f.boundsAreEqual = true
    · simp only [he, if_true, ccmp_beq_zero, decide_eq_true_eq] at hf
      have hz : ccmp (headCell t) f.lo.value = 0 := ccmp_zero.mpr hf
      simp [he, hz, ihr]
    · simp only [he, Bool.false_eq_true, if_false, hb, Bool.true_and, Bool.and_eq_true, Bool.not_eq_true',
        Bool.or_eq_false_iff, decide_eq_false_iff_not, Bool.and_eq_false_iff, Bool.not_eq_false'] at hf
      obtain ⟨⟨h1, h2⟩, _⟩ := hf
      simp only [he, Bool.false_and, Bool.false_eq_true, if_false, h1]
      by_cases hz : ccmp (headCell t) f.lo.value = 0
      · rcases h2 with h2 | h2
        · simp [hz] at h2
        · simp [h2]
      · have : ccmp (headCell t) f.lo.value > 0 := by omega
        simp [this]

theorem rmatches_belowStop : ∀ (fs : List RangeField) (t : Tuple), (∀ f ∈ fs, WFField f) →
    rmatches fs t = true → belowStop fs t = true := by
  intro fs
  induction fs with
  | nil => intros; rfl
  | cons f fs ih =>
    intro t hw h
    rw [rmatches_cons, Bool.and_eq_true] at h
    obtain ⟨hf, hr⟩ := h
    have ihr := ih t.tail (fun g hg => hw g (by simp [hg])) hr
    simp only [belowStop]
    by_cases hb : f.hi.binding = true
    case neg => simp [hb]
    simp only [hb, Bool.not_true, Bool.false_eq_true, if_false]
    simp only [fieldMatches] at hf
    by_cases he : f.boundsAreEqual = true
    · simp only [he, if_true, ccmp_beq_zero, decide_eq_true_eq] at hf
      have hv := ((hw f (by simp)).eqVals he).1
      have hz : ccmp (headCell t) f.hi.value = 0 := ccmp_zero.mpr (by rw [hv]; exact hf)
      simp [he, hz, ihr]
    · simp only [he, Bool.false_eq_true, if_false, hb, Bool.true_and, Bool.and_eq_true, Bool.not_eq_true',
        Bool.or_eq_false_iff, decide_eq_false_iff_not, Bool.and_eq_false_iff, Bool.not_eq_false'] at hf
      obtain ⟨_, ⟨h1, h2⟩⟩ := hf
      simp only [he, Bool.false_and, Bool.false_eq_true, if_false, h1]
      by_cases hz : ccmp (headCell t) f.hi.value = 0
      · rcases h2 with h2 | h2
        · simp [hz] at h2
        · simp [h2]
      · have : ccmp (headCell t) f.hi.value < 0 := by omega
        simp [this]

theorem contigLoop_false (fs : List RangeField) : ∀ found, contigLoop fs found false = false := by
  induction fs with
  | nil => intro _; rfl
  | cons f fs ih => intro found; simp only [contigLoop]; split <;> exact ih _

theorem contigLoop_found : ∀ (fs : List RangeField), contigLoop fs true true = true → fs = [] := by
  intro fs
  cases fs with
  | nil => intro _; rfl
  | cons f fs => intro h; simp [contigLoop, contigLoop_false] at h

/-- for a contiguous range the physical partition needs no post-filter -/
theorem bounds_rmatches_of_contig : ∀ (fs : List RangeField) (t : Tuple), (∀ f ∈ fs, WFField f) →
    contigLoop fs false true = true → aboveStart fs t = true → belowStop fs t = true → rmatches fs t = true := by
  intro fs
  induction fs with
  | nil => intros; rfl
  | cons f fs ih =>
    intro t hw hc ha hb
    rw [rmatches_cons, Bool.and_eq_true]
    have hc' : contigLoop fs (false || !f.boundsAreEqual || (f.lo.value == none && f.hi.value == none))
        (if (false || (f.lo.value == none && f.hi.value == none)) = true then false else true) = true := hc
    clear hc
    generalize hnbv : (f.lo.value == none && f.hi.value == none) = nb at hc'
    cases nb with
    | true => simp [contigLoop_false] at hc'
    | false =>
    simp only [Bool.false_or, Bool.or_false, Bool.false_eq_true, if_false] at hc'
    have hc := hc'
    by_cases he : f.boundsAreEqual = true
    · simp only [he, Bool.not_true] at hc
      obtain ⟨hv, hhb, hlb⟩ := (hw f (by simp)).eqVals he
      simp only [aboveStart, hlb, Bool.not_true, Bool.false_eq_true, if_false, he, Bool.true_and] at ha
      simp only [belowStop, hhb, Bool.not_true, Bool.false_eq_true, if_false, he, Bool.true_and, hv] at hb
      have hz : ccmp (headCell t) f.lo.value = 0 := by
        by_cases h1 : ccmp (headCell t) f.lo.value < 0
        · simp [h1] at ha
        · by_cases h2 : ccmp (headCell t) f.lo.value > 0
          · simp [h2] at hb
          · omega
      simp only [hz, Int.lt_irrefl, if_false, beq_self_eq_true, if_true, gt_iff_lt] at ha hb
      exact ⟨by simp [fieldMatches, he, hz], ih t.tail (fun g hg => hw g (by simp [hg])) hc ha hb⟩
    · simp only [he, Bool.not_false] at hc
      have hnil := contigLoop_found fs hc
      subst hnil
      refine ⟨?_, rfl⟩
      simp only [fieldMatches, he, Bool.false_eq_true, if_false, Bool.and_eq_true, Bool.not_eq_true',
        Bool.and_eq_false_iff, Bool.or_eq_false_iff, decide_eq_false_iff_not, Bool.not_eq_false']
      simp only [aboveStart, he, Bool.false_and, Bool.false_eq_true, if_false] at ha
      simp only [belowStop, he, Bool.false_and, Bool.false_eq_true, if_false] at hb
      constructor
      · by_cases hlb : f.lo.binding = true
        · right
          simp only [hlb, Bool.not_true, Bool.false_eq_true, if_false] at ha
          by_cases h1 : ccmp (headCell t) f.lo.value < 0
          · simp [h1] at ha
          · simp only [h1, if_false, Bool.or_eq_true, decide_eq_true_eq] at ha
            refine ⟨h1, ?_⟩
            rcases ha with ha | ha
            · left; simp; omega
            · right; exact ha
        · left; simpa using hlb
      · by_cases hhb : f.hi.binding = true
        · right
          simp only [hhb, Bool.not_true, Bool.false_eq_true, if_false] at hb
          by_cases h1 : ccmp (headCell t) f.hi.value > 0
          · simp [h1] at hb
          · simp only [h1, if_false, Bool.or_eq_true, decide_eq_true_eq] at hb
            refine ⟨h1, ?_⟩
            rcases hb with hb | hb
            · left; simp; omega
            · right; exact hb
        · left; simpa using hhb

-- ---------------------------------------------------------------- the slice lemma

theorem findFirst_all {α : Type} (p : α → Bool) : ∀ l : List α, (∀ a ∈ l, p a = true) → l ≠ [] → findFirst p l = 0
  | [], _, h => absurd rfl h
  | a :: _, h, _ => by simp [findFirst, h a (by simp)]

/-- On a list sorted by `R`, with `p` monotone and `q` antitone along `R`, the half-open slice
between "first `p`" and "first `¬q`" (the two `sort.Search`es) is exactly the `p ∧ q` filter. -/
theorem slice_eq_filter {α : Type} (R : α → α → Prop) (p q : α → Bool)
    (hp : ∀ a b, R a b → p a = true → p b = true) (hq : ∀ a b, R a b → q b = true → q a = true) :
    ∀ l : List α, l.Pairwise R →
      slice l (findFirst p l) (findFirst (fun t => !q t) l) = l.filter (fun t => p t && q t) := by
  intro l
  induction l with
  | nil => intro _; rfl
  | cons a l ih =>
    intro hs
    rw [List.pairwise_cons] at hs
    obtain ⟨ha, hl⟩ := hs
    have ih' := ih hl
    by_cases hqa : q a = true
    · by_cases hpa : p a = true
      · -- a passes; every later element satisfies p
        have hall : ∀ b ∈ l, p b = true := fun b hb => hp a b (ha b hb) hpa
        simp only [findFirst, hqa, Bool.not_true, Bool.false_eq_true, if_false, hpa, if_true, slice, List.take_succ_cons,
          List.drop_zero, List.filter_cons, Bool.and_self]
        congr 1
        by_cases hnil : l = []
        · subst hnil; rfl
        · have := findFirst_all p l hall hnil
          simp only [slice, this, List.drop_zero] at ih'
          exact ih'
      · simp only [findFirst, hqa, Bool.not_true, Bool.false_eq_true, if_false, hpa, slice, List.take_succ_cons,
          List.drop_succ_cons, List.filter_cons, Bool.false_and]
        exact ih'
    · have hnone : ∀ b ∈ l, q b = false := by
        intro b hb
        cases hqb : q b with
        | false => rfl
        | true => exact absurd (hq a b (ha b hb) hqb) hqa
      have hqa' : q a = false := by simpa using hqa
      simp only [findFirst, hqa', Bool.not_false, if_true, slice, List.take_zero, List.drop_nil, List.filter_cons,
        Bool.and_false, Bool.false_eq_true, if_false]
      symm
      rw [List.filter_eq_nil_iff]
      intro b hb
      simp [hnone b hb]

end DoltVerif.Query
