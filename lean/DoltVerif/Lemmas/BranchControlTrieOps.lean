import DoltVerif.Model.BranchControl
import DoltVerif.Lemmas.BranchControlTrie
/-!
C38 helper lemmas, part 7: `MatchNode.Add` / `Remove` keep the trie well formed and change the set
of stored rules exactly as an insert-or-overwrite / delete on the rule table.  Core Lean only.
-/
set_option linter.unusedSimpArgs false
namespace DoltVerif.BranchControl

theorem rules_prefix (p s : List Int) (ch : List (Int × Node)) (data : Option Data) (K : List Int) (x : Data) :
    (K, x) ∈ rulesN (.mk (p ++ s) ch data) ↔ ∃ k0, K = p ++ k0 ∧ (k0, x) ∈ rulesN (.mk s ch data) := by
  simp only [mem_rulesN]
  constructor
  · rintro (⟨h, rfl⟩ | ⟨kn, hkn, ck, hck, rfl⟩)
    · exact ⟨s, rfl, Or.inl ⟨h, rfl⟩⟩
    · exact ⟨s ++ ck, by simp, Or.inr ⟨kn, hkn, ck, hck, rfl⟩⟩
  · rintro ⟨k0, rfl, (⟨h, rfl⟩ | ⟨kn, hkn, ck, hck, rfl⟩)⟩
    · exact Or.inl ⟨h, rfl⟩
    · exact Or.inr ⟨kn, hkn, ck, hck, by simp⟩

/-- every rule below a node starts with the node's sort orders -/
theorem rules_so_prefix (so : List Int) (ch : List (Int × Node)) (data : Option Data) (K : List Int) (x : Data)
    (h : (K, x) ∈ rulesN (.mk so ch data)) : ∃ t, K = so ++ t := by
  rw [mem_rulesN] at h
  rcases h with ⟨_, rfl⟩ | ⟨_, _, ck, _, rfl⟩
  · exact ⟨[], by simp⟩
  · exact ⟨ck, rfl⟩

/-! ### child-list surgery -/

theorem lookup_none_ne : ∀ (ch : List (Int × Node)) (k : Int), lookupChild ch k = none →
    ∀ kk nd, (kk, nd) ∈ ch → kk ≠ k
  | [], _, _, _, _, h => by simp at h
  | (k', n') :: t, k, hl, kk, nd, h => by
    simp only [lookupChild] at hl
    by_cases hk : k' = k
    · simp [hk] at hl
    · simp only [hk, if_false] at hl
      rcases List.mem_cons.mp h with he | hm
      · simp only [Prod.mk.injEq] at he; rw [he.1]; exact hk
      · exact lookup_none_ne t k hl kk nd hm

theorem lookup_replace_ne : ∀ (ch : List (Int × Node)) (k2 : Int) (c' : Node) (k : Int), k ≠ k2 →
    lookupChild (replaceChild ch k2 c') k = lookupChild ch k
  | [], _, _, _, _ => rfl
  | (k', n') :: t, k2, c', k, hne => by
    simp only [replaceChild]
    by_cases hk : k' = k2
    · subst hk
      have : ¬ k' = k := fun e => hne e.symm
      simp [lookupChild, this]
    · simp only [hk, if_false, lookupChild]
      by_cases hkk : k' = k
      · simp [hkk]
      · simp [hkk, lookup_replace_ne t k2 c' k hne]

theorem mem_replace : ∀ (ch : List (Int × Node)) (k2 : Int) (c c' : Node), wfL ch = true →
    lookupChild ch k2 = some c → ∀ kk nd,
    ((kk, nd) ∈ replaceChild ch k2 c' ↔ ((kk = k2 ∧ nd = c') ∨ (kk ≠ k2 ∧ (kk, nd) ∈ ch)))
  | [], _, _, _, _, hl, _, _ => by simp [lookupChild] at hl
  | (k', n') :: t, k2, c, c', hw, hl, kk, nd => by
    simp only [wfL, Bool.and_eq_true, beq_iff_eq, Option.isNone_iff_eq_none] at hw
    obtain ⟨⟨⟨_, _⟩, h3⟩, h4⟩ := hw
    simp only [replaceChild]
    by_cases hk : k' = k2
    · subst hk
      simp only [if_true, List.mem_cons, Prod.mk.injEq]
      have hnot := lookup_none_ne t k' h3
      constructor
      · rintro (⟨rfl, rfl⟩ | hm)
        · exact Or.inl ⟨rfl, rfl⟩
        · exact Or.inr ⟨hnot kk nd hm, Or.inr hm⟩
      · rintro (⟨rfl, rfl⟩ | ⟨hne, (⟨rfl, _⟩ | hm)⟩)
        · exact Or.inl ⟨rfl, rfl⟩
        · exact absurd rfl hne
        · exact Or.inr hm
    · simp only [hk, if_false, List.mem_cons, Prod.mk.injEq]
      have hl' : lookupChild t k2 = some c := by simpa [lookupChild, hk] using hl
      rw [mem_replace t k2 c c' h4 hl' kk nd]
      constructor
      · rintro (⟨rfl, rfl⟩ | (h | ⟨hne, hm⟩))
        · exact Or.inr ⟨hk, Or.inl ⟨rfl, rfl⟩⟩
        · exact Or.inl h
        · exact Or.inr ⟨hne, Or.inr hm⟩
      · rintro (h | ⟨hne, (⟨rfl, rfl⟩ | hm)⟩)
        · exact Or.inr (Or.inl h)
        · exact Or.inl ⟨rfl, rfl⟩
        · exact Or.inr (Or.inr ⟨hne, hm⟩)

theorem wfL_replace : ∀ (ch : List (Int × Node)) (k2 : Int) (c c' : Node), wfL ch = true →
    lookupChild ch k2 = some c → c'.so.head? = some k2 → wfN c' = true → wfL (replaceChild ch k2 c') = true
  | [], _, _, _, _, hl, _, _ => by simp [lookupChild] at hl
  | (k', n') :: t, k2, c, c', hw, hl, hh, hwc => by
    simp only [wfL, Bool.and_eq_true, beq_iff_eq, Option.isNone_iff_eq_none] at hw
    obtain ⟨⟨⟨h1, h2⟩, h3⟩, h4⟩ := hw
    simp only [replaceChild]
    by_cases hk : k' = k2
    · subst hk
      simp [wfL, hh, hwc, h3, h4]
    · have hl' : lookupChild t k2 = some c := by simpa [lookupChild, hk] using hl
      simp only [hk, if_false, wfL, Bool.and_eq_true, beq_iff_eq, Option.isNone_iff_eq_none]
      refine ⟨⟨⟨h1, h2⟩, ?_⟩, wfL_replace t k2 c c' h4 hl' hh hwc⟩
      rw [lookup_replace_ne t k2 c' k' hk]; exact h3

theorem lookup_append_none : ∀ (ch : List (Int × Node)) (k2 : Int) (nd : Node) (k : Int), k ≠ k2 →
    lookupChild ch k = none → lookupChild (ch ++ [(k2, nd)]) k = none
  | [], k2, nd, k, hne, _ => by
    have : ¬ k2 = k := fun e => hne e.symm
    simp [lookupChild, this]
  | (k', n') :: t, k2, nd, k, hne, hl => by
    simp only [lookupChild, List.cons_append] at hl ⊢
    by_cases hk : k' = k
    · simp [hk] at hl
    · simp only [hk, if_false] at hl ⊢
      exact lookup_append_none t k2 nd k hne hl

theorem wfL_append : ∀ (ch : List (Int × Node)) (k2 : Int) (nd : Node), wfL ch = true →
    lookupChild ch k2 = none → nd.so.head? = some k2 → wfN nd = true → wfL (ch ++ [(k2, nd)]) = true
  | [], k2, nd, _, _, hh, hwn => by simp [wfL, hh, hwn, lookupChild]
  | (k', n') :: t, k2, nd, hw, hl, hh, hwn => by
    simp only [wfL, Bool.and_eq_true, beq_iff_eq, Option.isNone_iff_eq_none] at hw
    obtain ⟨⟨⟨h1, h2⟩, h3⟩, h4⟩ := hw
    have hk : k' ≠ k2 := by
      intro e; simp [lookupChild, e] at hl
    have hl' : lookupChild t k2 = none := by simpa [lookupChild, hk] using hl
    simp only [List.cons_append, wfL, Bool.and_eq_true, beq_iff_eq, Option.isNone_iff_eq_none]
    exact ⟨⟨⟨h1, h2⟩, lookup_append_none t k2 nd k' hk h3⟩, wfL_append t k2 nd h4 hl' hh hwn⟩

/-! ### Add -/

/-- what one `Add` must achieve on the node `mk (pre ++ rem) ch data` for the key `pre ++ key` -/
def AddSpec (pre rem : List Int) (ch : List (Int × Node)) (data : Option Data) (key : List Int) (d : Data)
    (t' : Node) : Prop :=
  wfN t' = true ∧ t'.so.head? = (pre ++ rem).head? ∧
  ∀ K x, (K, x) ∈ rulesN t' ↔
    ((K = pre ++ key ∧ x = d) ∨ (K ≠ pre ++ key ∧ (K, x) ∈ rulesN (.mk (pre ++ rem) ch data)))

theorem rules_leaf (key : List Int) (d : Data) (K : List Int) (x : Data) :
    (K, x) ∈ rulesN (.mk key [] (some d)) ↔ (K = key ∧ x = d) := by
  simp [rulesN, rulesL, eq_comm]

theorem wfN_leaf (key : List Int) (d : Data) (h : key ≠ []) : wfN (.mk key [] (some d)) = true := by
  simp [wfN, wfL, h]

theorem add_case_mismatch (pre : List Int) (r : Int) (rem' : List Int) (ch : List (Int × Node)) (data : Option Data)
    (k : Int) (key' : List Int) (d : Data) (hpre : pre ≠ []) (hrk : r ≠ k) (hw : wfL ch = true) :
    AddSpec pre (r :: rem') ch data (k :: key') d
      (.mk pre [(r, .mk (r :: rem') ch data), (k, .mk (k :: key') [] (some d))] none) := by
  refine ⟨?_, ?_, ?_⟩
  · have hkr : ¬ k = r := fun e => hrk e.symm
    simp [wfN, wfL, hpre, hw, Node.so, lookupChild, hkr]
  · simp only [Node.so]
    cases pre with
    | nil => exact absurd rfl hpre
    | cons a t => rfl
  · intro K x
    rw [mem_rulesN, rules_prefix pre (r :: rem')]
    constructor
    · rintro (⟨h, _⟩ | ⟨kn, hkn, ck, hck, rfl⟩)
      · simp at h
      · simp only [List.mem_cons, List.not_mem_nil, or_false] at hkn
        rcases hkn with rfl | rfl
        · right
          obtain ⟨t, ht⟩ := rules_so_prefix _ _ _ _ _ hck
          refine ⟨?_, ck, rfl, hck⟩
          intro e
          have := List.append_cancel_left e
          rw [ht] at this
          simp only [List.cons_append, List.cons.injEq] at this
          exact hrk this.1
        · left
          rw [rules_leaf] at hck
          exact ⟨by rw [hck.1], hck.2⟩
    · rintro (⟨rfl, rfl⟩ | ⟨_, k0, rfl, hk0⟩)
      · exact Or.inr ⟨(k, .mk (k :: key') [] (some x)), by simp, k :: key', (rules_leaf _ _ _ _).mpr ⟨rfl, rfl⟩, rfl⟩
      · exact Or.inr ⟨(r, .mk (r :: rem') ch data), by simp, k0, hk0, rfl⟩

theorem add_case_exact (pre : List Int) (r : Int) (ch : List (Int × Node)) (data : Option Data) (d : Data)
    (hw : wfL ch = true) (hwc : ∀ kn ∈ ch, wfN kn.2 = true) :
    AddSpec pre [r] ch data [r] d (.mk (pre ++ [r]) ch (some d)) := by
  refine ⟨by simp [wfN, hw], rfl, ?_⟩
  intro K x
  simp only [mem_rulesN]
  constructor
  · rintro (⟨h, rfl⟩ | ⟨kn, hkn, ck, hck, rfl⟩)
    · simp only [Option.some.injEq] at h
      exact Or.inl ⟨rfl, h.symm⟩
    · right
      refine ⟨?_, Or.inr ⟨kn, hkn, ck, hck, rfl⟩⟩
      intro e
      have hne := rules_nonempty kn.2 (hwc kn hkn) ck x hck
      have : ck = [] := by
        have := congrArg List.length e
        simp only [List.length_append] at this
        exact List.eq_nil_of_length_eq_zero (by omega)
      exact hne this
  · rintro (⟨rfl, rfl⟩ | ⟨hne, (⟨_, rfl⟩ | ⟨kn, hkn, ck, hck, rfl⟩)⟩)
    · exact Or.inl ⟨rfl, rfl⟩
    · exact absurd rfl hne
    · exact Or.inr ⟨kn, hkn, ck, hck, rfl⟩


theorem wfL_child (ch : List (Int × Node)) (hw : wfL ch = true) :
    ∀ kn ∈ ch, wfN kn.2 = true ∧ kn.2.so.head? = some kn.1 := by
  intro kn hkn
  obtain ⟨k, n⟩ := kn
  obtain ⟨a, b, _⟩ := wfL_mem ch k n hw hkn
  exact ⟨b, a⟩

/-- a child's rule keys start with the key the child is filed under -/
theorem child_rule_head (ch : List (Int × Node)) (hw : wfL ch = true) (kn : Int × Node) (hkn : kn ∈ ch)
    (ck : List Int) (x : Data) (h : (ck, x) ∈ rulesN kn.2) : ∃ t, ck = kn.1 :: t := by
  obtain ⟨k, n⟩ := kn
  obtain ⟨so, cch, cd⟩ := n
  obtain ⟨hwn, hh⟩ := wfL_child ch hw _ hkn
  obtain ⟨t, ht⟩ := rules_so_prefix _ _ _ _ _ h
  simp only [Node.so] at hh
  cases so with
  | nil => simp at hh
  | cons a s =>
    simp only [List.head?_cons, Option.some.injEq] at hh
    subst hh
    exact ⟨s ++ t, by rw [ht]; rfl⟩

theorem add_case_endinside (pre : List Int) (r r2 : Int) (rem'' : List Int) (ch : List (Int × Node))
    (data : Option Data) (d : Data) (hw : wfL ch = true) :
    AddSpec pre (r :: r2 :: rem'') ch data [r] d
      (.mk (pre ++ [r]) [(r2, .mk (r2 :: rem'') ch data)] (some d)) := by
  refine ⟨by simp [wfN, wfL, hw, Node.so, lookupChild], ?_, ?_⟩
  · simp only [Node.so]
    cases pre <;> rfl
  · intro K x
    have hassoc : pre ++ r :: r2 :: rem'' = (pre ++ [r]) ++ (r2 :: rem'') := by simp
    rw [mem_rulesN, hassoc, rules_prefix (pre ++ [r]) (r2 :: rem'')]
    constructor
    · rintro (⟨h, rfl⟩ | ⟨kn, hkn, ck, hck, rfl⟩)
      · simp only [Option.some.injEq] at h
        exact Or.inl ⟨rfl, h.symm⟩
      · simp only [List.mem_singleton] at hkn
        subst hkn
        right
        obtain ⟨t, ht⟩ := rules_so_prefix _ _ _ _ _ hck
        refine ⟨?_, ck, rfl, hck⟩
        intro e
        have := congrArg List.length e
        rw [ht] at this
        simp only [List.length_append, List.length_cons, List.length_nil] at this
        omega
    · rintro (⟨rfl, rfl⟩ | ⟨_, k0, rfl, hk0⟩)
      · exact Or.inl ⟨rfl, rfl⟩
      · exact Or.inr ⟨(r2, .mk (r2 :: rem'') ch data), by simp, k0, hk0, rfl⟩

theorem add_case_newchild (pre : List Int) (r k2 : Int) (key'' : List Int) (ch : List (Int × Node))
    (data : Option Data) (d : Data) (hw : wfL ch = true) (hl : lookupChild ch k2 = none) :
    AddSpec pre [r] ch data (r :: k2 :: key'') d
      (.mk (pre ++ [r]) (ch ++ [(k2, .mk (k2 :: key'') [] (some d))]) data) := by
  refine ⟨?_, rfl, ?_⟩
  · have := wfL_append ch k2 (.mk (k2 :: key'') [] (some d)) hw hl rfl (wfN_leaf _ _ (by simp))
    simp [wfN, this]
  · intro K x
    have hkey : pre ++ r :: k2 :: key'' = (pre ++ [r]) ++ (k2 :: key'') := by simp
    simp only [mem_rulesN, List.mem_append, List.mem_singleton]
    constructor
    · rintro (⟨h, rfl⟩ | ⟨kn, (hkn | rfl), ck, hck, rfl⟩)
      · right
        refine ⟨?_, Or.inl ⟨h, rfl⟩⟩
        intro e
        have := congrArg List.length e
        simp only [List.length_append, List.length_cons, List.length_nil] at this
        omega
      · right
        refine ⟨?_, Or.inr ⟨kn, hkn, ck, hck, rfl⟩⟩
        intro e
        rw [hkey] at e
        have e' := List.append_cancel_left e
        obtain ⟨t, ht⟩ := child_rule_head ch hw kn hkn ck x hck
        rw [ht] at e'
        simp only [List.cons.injEq] at e'
        exact lookup_none_ne ch k2 hl kn.1 kn.2 hkn e'.1
      · left
        rw [rules_leaf] at hck
        exact ⟨by rw [hck.1, hkey], hck.2⟩
    · rintro (⟨rfl, rfl⟩ | ⟨_, (h | ⟨kn, hkn, ck, hck, rfl⟩)⟩)
      · exact Or.inr ⟨_, Or.inr rfl, k2 :: key'', (rules_leaf _ _ _ _).mpr ⟨rfl, rfl⟩, by simp⟩
      · exact Or.inl h
      · exact Or.inr ⟨kn, Or.inl hkn, ck, hck, rfl⟩

theorem add_case_descend (pre : List Int) (r k2 : Int) (key'' : List Int) (ch : List (Int × Node))
    (data : Option Data) (d : Data) (hw : wfL ch = true) (cso : List Int) (cch : List (Int × Node))
    (cd : Option Data) (hl : lookupChild ch k2 = some (.mk cso cch cd)) (c' : Node)
    (hspec : AddSpec [] cso cch cd (k2 :: key'') d c') :
    AddSpec pre [r] ch data (r :: k2 :: key'') d (.mk (pre ++ [r]) (replaceChild ch k2 c') data) := by
  obtain ⟨hwc', hhead', hrules'⟩ := hspec
  have hmemc := lookup_mem ch k2 _ hl
  obtain ⟨hheadc, _, _⟩ := wfL_mem ch k2 _ hw hmemc
  simp only [List.nil_append] at hhead' hrules'
  have hh : c'.so.head? = some k2 := by rw [hhead']; exact hheadc
  refine ⟨?_, rfl, ?_⟩
  · have := wfL_replace ch k2 _ c' hw hl hh hwc'
    simp [wfN, this]
  · intro K x
    have hkey : pre ++ r :: k2 :: key'' = (pre ++ [r]) ++ (k2 :: key'') := by simp
    simp only [mem_rulesN]
    constructor
    · rintro (⟨h, rfl⟩ | ⟨kn, hkn, ck, hck, rfl⟩)
      · right
        refine ⟨?_, Or.inl ⟨h, rfl⟩⟩
        intro e
        have := congrArg List.length e
        simp only [List.length_append, List.length_cons, List.length_nil] at this
        omega
      · obtain ⟨kk, nd⟩ := kn
        rcases (mem_replace ch k2 _ c' hw hl kk nd).mp hkn with ⟨rfl, rfl⟩ | ⟨hne, hm⟩
        · rcases (hrules' ck x).mp hck with ⟨rfl, rfl⟩ | ⟨hne2, hold⟩
          · exact Or.inl ⟨by rw [hkey], rfl⟩
          · right
            refine ⟨?_, Or.inr ⟨_, hmemc, ck, hold, rfl⟩⟩
            intro e
            rw [hkey] at e
            exact hne2 (List.append_cancel_left e)
        · right
          refine ⟨?_, Or.inr ⟨(kk, nd), hm, ck, hck, rfl⟩⟩
          intro e
          rw [hkey] at e
          have e' := List.append_cancel_left e
          obtain ⟨t, ht⟩ := child_rule_head ch hw _ hm ck x hck
          rw [ht] at e'
          simp only [List.cons.injEq] at e'
          exact hne e'.1
    · rintro (⟨rfl, rfl⟩ | ⟨hneK, (h | ⟨kn, hkn, ck, hck, rfl⟩)⟩)
      · refine Or.inr ⟨(k2, c'), (mem_replace ch k2 _ c' hw hl k2 c').mpr (Or.inl ⟨rfl, rfl⟩), k2 :: key'',
          (hrules' _ _).mpr (Or.inl ⟨rfl, rfl⟩), by simp⟩
      · exact Or.inl h
      · obtain ⟨kk, nd⟩ := kn
        by_cases hk : kk = k2
        · subst hk
          -- the rule lives in the child we descended into
          obtain ⟨_, _, hlook⟩ := wfL_mem ch kk nd hw hkn
          rw [hl] at hlook
          simp only [Option.some.injEq] at hlook
          subst hlook
          have hne2 : ck ≠ kk :: key'' := by
            intro e; apply hneK; rw [hkey, e]
          exact Or.inr ⟨(kk, c'), (mem_replace ch kk _ c' hw hl kk c').mpr (Or.inl ⟨rfl, rfl⟩), ck,
            (hrules' _ _).mpr (Or.inr ⟨hne2, hck⟩), rfl⟩
        · exact Or.inr ⟨(kk, nd), (mem_replace ch k2 _ c' hw hl kk nd).mpr (Or.inr ⟨hk, hkn⟩), ck, hck, rfl⟩

theorem add_case_continue (pre : List Int) (r : Int) (rem' : List Int) (ch : List (Int × Node))
    (data : Option Data) (key' : List Int) (d : Data) (t' : Node)
    (h : AddSpec (pre ++ [r]) rem' ch data key' d t') : AddSpec pre (r :: rem') ch data (r :: key') d t' := by
  have e1 : pre ++ [r] ++ rem' = pre ++ r :: rem' := by simp
  have e2 : pre ++ [r] ++ key' = pre ++ r :: key' := by simp
  unfold AddSpec at h ⊢
  rw [e1, e2] at h
  exact h


theorem addGo_spec : ∀ (key : List Int) (pre rem : List Int) (ch : List (Int × Node)) (data : Option Data) (d : Data),
    key ≠ [] → rem ≠ [] → wfL ch = true → (pre ≠ [] ∨ rem.head? = key.head?) →
    AddSpec pre rem ch data key d (addGo pre rem ch data key d) := by
  intro key
  induction key with
  | nil => intro _ _ _ _ _ h; exact absurd rfl h
  | cons k key' ih =>
    intro pre rem ch data d _ hrem hw hH
    cases rem with
    | nil => exact absurd rfl hrem
    | cons r rem' =>
      by_cases hrk : r = k
      · subst hrk
        cases rem' with
        | cons r2 rem'' =>
          cases key' with
          | cons k2 key'' =>
            have := ih (pre ++ [r]) (r2 :: rem'') ch data d (by simp) (by simp) hw (Or.inl (by simp))
            simp only [addGo, if_true]
            exact add_case_continue pre r (r2 :: rem'') ch data (k2 :: key'') d _ this
          | nil =>
            simp only [addGo, if_true]
            exact add_case_endinside pre r r2 rem'' ch data d hw
        | nil =>
          cases key' with
          | cons k2 key'' =>
            simp only [addGo, if_true]
            cases hl : lookupChild ch k2 with
            | none =>
              simp only []
              exact add_case_newchild pre r k2 key'' ch data d hw hl
            | some child =>
              obtain ⟨cso, cch, cd⟩ := child
              simp only []
              have hmem := lookup_mem ch k2 _ hl
              obtain ⟨hhead, hwc, _⟩ := wfL_mem ch k2 _ hw hmem
              obtain ⟨hne, hwcc⟩ := (wfN_mk _ _ _).mp hwc
              have := ih [] cso cch cd d (by simp) hne hwcc (Or.inr (by simpa [Node.so] using hhead))
              exact add_case_descend pre r k2 key'' ch data d hw cso cch cd hl _ this
          | nil =>
            simp only [addGo, if_true]
            exact add_case_exact pre r ch data d hw (fun kn hkn => (wfL_child ch hw kn hkn).1)
      · have hpre : pre ≠ [] := by
          rcases hH with h | h
          · exact h
          · simp only [List.head?_cons, Option.some.injEq] at h; exact absurd h hrk
        simp only [addGo, hrk, if_false]
        exact add_case_mismatch pre r rem' ch data k key' d hpre hrk hw

/-- **`Add`**: the trie stays well formed and stores exactly the old rules with `key ↦ d` inserted or
overwritten -/
theorem add_spec (t : Node) (key : List Int) (d : Data) (hw : wfN t = true) (hk : key ≠ [])
    (hh : t.so.head? = key.head?) :
    wfN (t.add key d) = true ∧ (t.add key d).so.head? = t.so.head? ∧
    ∀ K x, (K, x) ∈ rulesN (t.add key d) ↔ ((K = key ∧ x = d) ∨ (K ≠ key ∧ (K, x) ∈ rulesN t)) := by
  obtain ⟨so, ch, data⟩ := t
  obtain ⟨hne, hwl⟩ := (wfN_mk _ _ _).mp hw
  have := addGo_spec key [] so ch data d hk hne hwl (Or.inr hh)
  simpa [AddSpec, Node.add, Node.so, Node.children, Node.data] using this

/-! ### Remove -/

theorem lookup_erase_ne : ∀ (ch : List (Int × Node)) (k2 k : Int), k ≠ k2 →
    lookupChild (eraseChild ch k2) k = lookupChild ch k
  | [], _, _, _ => rfl
  | (k', n') :: t, k2, k, hne => by
    simp only [eraseChild]
    by_cases hk : k' = k2
    · subst hk
      have : ¬ k' = k := fun e => hne e.symm
      simp [lookupChild, this]
    · simp only [hk, if_false, lookupChild]
      by_cases hkk : k' = k
      · simp [hkk]
      · simp [hkk, lookup_erase_ne t k2 k hne]

theorem mem_erase : ∀ (ch : List (Int × Node)) (k2 : Int), wfL ch = true → ∀ kk nd,
    ((kk, nd) ∈ eraseChild ch k2 ↔ (kk ≠ k2 ∧ (kk, nd) ∈ ch))
  | [], _, _, _, _ => by simp [eraseChild]
  | (k', n') :: t, k2, hw, kk, nd => by
    simp only [wfL, Bool.and_eq_true, beq_iff_eq, Option.isNone_iff_eq_none] at hw
    obtain ⟨⟨⟨_, _⟩, h3⟩, h4⟩ := hw
    simp only [eraseChild]
    by_cases hk : k' = k2
    · subst hk
      simp only [if_true, List.mem_cons, Prod.mk.injEq]
      have hnot := lookup_none_ne t k' h3
      constructor
      · intro hm; exact ⟨hnot kk nd hm, Or.inr hm⟩
      · rintro ⟨hne, (⟨rfl, _⟩ | hm)⟩
        · exact absurd rfl hne
        · exact hm
    · simp only [hk, if_false, List.mem_cons, Prod.mk.injEq]
      rw [mem_erase t k2 h4 kk nd]
      constructor
      · rintro (⟨rfl, rfl⟩ | ⟨hne, hm⟩)
        · exact ⟨hk, Or.inl ⟨rfl, rfl⟩⟩
        · exact ⟨hne, Or.inr hm⟩
      · rintro ⟨hne, (⟨rfl, rfl⟩ | hm)⟩
        · exact Or.inl ⟨rfl, rfl⟩
        · exact Or.inr ⟨hne, hm⟩

theorem wfL_erase : ∀ (ch : List (Int × Node)) (k2 : Int), wfL ch = true → wfL (eraseChild ch k2) = true
  | [], _, _ => by simp [eraseChild, wfL]
  | (k', n') :: t, k2, hw => by
    have hw0 := hw
    simp only [wfL, Bool.and_eq_true, beq_iff_eq, Option.isNone_iff_eq_none] at hw
    obtain ⟨⟨⟨h1, h2⟩, h3⟩, h4⟩ := hw
    simp only [eraseChild]
    by_cases hk : k' = k2
    · simp [hk, h4]
    · simp only [hk, if_false, wfL, Bool.and_eq_true, beq_iff_eq, Option.isNone_iff_eq_none]
      refine ⟨⟨⟨h1, h2⟩, ?_⟩, wfL_erase t k2 h4⟩
      rw [lookup_erase_ne t k2 k' hk]; exact h3

/-- what one `Remove` must achieve on the node `mk (pre ++ rem) ch data` for the key `pre ++ key` -/
def RemSpec (isTop : Bool) (pre rem : List Int) (ch : List (Int × Node)) (data : Option Data) (key : List Int)
    (res : RemRes) : Prop :=
  match res with
  | .noop => ∀ x, (pre ++ key, x) ∉ rulesN (.mk (pre ++ rem) ch data)
  | .replaced t' _ =>
    wfN t' = true ∧ t'.so.head? = (pre ++ rem).head? ∧
    ∀ K x, (K, x) ∈ rulesN t' ↔ (K ≠ pre ++ key ∧ (K, x) ∈ rulesN (.mk (pre ++ rem) ch data))
  | .deleted _ => isTop = false ∧ ∀ K x, (K, x) ∈ rulesN (.mk (pre ++ rem) ch data) → K = pre ++ key

theorem rem_case_mismatch (pre : List Int) (r : Int) (rem' : List Int) (ch : List (Int × Node)) (data : Option Data)
    (k : Int) (key' : List Int) (hrk : r ≠ k) (x : Data) :
    (pre ++ k :: key', x) ∉ rulesN (.mk (pre ++ r :: rem') ch data) := by
  intro h
  obtain ⟨t, ht⟩ := rules_so_prefix _ _ _ _ _ h
  rw [List.append_assoc] at ht
  have := List.append_cancel_left ht
  simp only [List.cons_append, List.cons.injEq] at this
  exact hrk this.1.symm

theorem rem_case_short (pre : List Int) (r r2 : Int) (rem'' : List Int) (ch : List (Int × Node)) (data : Option Data)
    (x : Data) : (pre ++ [r], x) ∉ rulesN (.mk (pre ++ r :: r2 :: rem'') ch data) := by
  intro h
  obtain ⟨t, ht⟩ := rules_so_prefix _ _ _ _ _ h
  have := congrArg List.length ht
  simp only [List.length_append, List.length_cons, List.length_nil] at this
  omega


theorem rem_long (pre : List Int) (r : Int) (ch : List (Int × Node)) (hw : wfL ch = true) :
    ∀ kn ∈ ch, ∀ ck x, (ck, x) ∈ rulesN kn.2 → pre ++ [r] ++ ck ≠ pre ++ [r] := by
  intro kn hkn ck x hck e
  have hne := rules_nonempty kn.2 (wfL_child ch hw kn hkn).1 ck x hck
  have := congrArg List.length e
  simp only [List.length_append] at this
  exact hne (List.eq_nil_of_length_eq_zero (by omega))

/-- exact match at a node that keeps its children: only the data goes -/
theorem rem_exact_generic (isTop : Bool) (pre : List Int) (r : Int) (ch : List (Int × Node)) (data : Option Data)
    (hw : wfL ch = true) (idx : Option Nat) :
    RemSpec isTop pre [r] ch data [r] (.replaced (.mk (pre ++ [r]) ch none) idx) := by
  refine ⟨by simp [wfN, hw], rfl, ?_⟩
  intro K x
  simp only [mem_rulesN]
  constructor
  · rintro (⟨h, _⟩ | ⟨kn, hkn, ck, hck, rfl⟩)
    · simp at h
    · exact ⟨rem_long pre r ch hw kn hkn ck x hck, Or.inr ⟨kn, hkn, ck, hck, rfl⟩⟩
  · rintro ⟨hne, (⟨_, rfl⟩ | ⟨kn, hkn, ck, hck, rfl⟩)⟩
    · exact absurd rfl hne
    · exact Or.inr ⟨kn, hkn, ck, hck, rfl⟩

theorem rem_exact_none_top (pre : List Int) (r : Int) (data : Option Data) (idx : Option Nat)
    (htop : (pre ++ [r]).head? = some columnMarker) :
    RemSpec true pre [r] [] data [r] (.replaced (.mk [columnMarker] [] none) idx) := by
  refine ⟨by simp [wfN, wfL], by simp [Node.so, htop], ?_⟩
  intro K x
  simp only [mem_rulesN]
  constructor
  · rintro (⟨h, _⟩ | ⟨kn, hkn, _⟩)
    · simp at h
    · simp at hkn
  · rintro ⟨hne, (⟨_, rfl⟩ | ⟨kn, hkn, _⟩)⟩
    · exact absurd rfl hne
    · simp at hkn

theorem rem_exact_none_sub (pre : List Int) (r : Int) (data : Option Data) (idx : Option Nat) :
    RemSpec false pre [r] [] data [r] (.deleted idx) := by
  refine ⟨rfl, ?_⟩
  intro K x h
  rw [mem_rulesN] at h
  rcases h with ⟨_, rfl⟩ | ⟨kn, hkn, _⟩
  · rfl
  · simp at hkn

/-- exact match at a node with a single child: the child is merged into the node -/
theorem rem_exact_one (isTop : Bool) (pre : List Int) (r kk : Int) (s2 : List Int) (c2 : List (Int × Node))
    (d2 data : Option Data) (idx : Option Nat) (hw : wfL [(kk, Node.mk s2 c2 d2)] = true) :
    RemSpec isTop pre [r] [(kk, .mk s2 c2 d2)] data [r] (.replaced (.mk (pre ++ [r] ++ s2) c2 d2) idx) := by
  obtain ⟨hwc, hhc⟩ := wfL_child _ hw (kk, .mk s2 c2 d2) (by simp)
  obtain ⟨hne2, hwc2⟩ := (wfN_mk _ _ _).mp hwc
  refine ⟨by simp [wfN, hwc2], ?_, ?_⟩
  · simp only [Node.so]
    cases pre <;> simp
  · intro K x
    rw [rules_prefix (pre ++ [r]) s2]
    simp only [mem_rulesN (pre ++ [r])]
    constructor
    · rintro ⟨k0, rfl, hk0⟩
      exact ⟨rem_long pre r _ hw (kk, .mk s2 c2 d2) (by simp) k0 x hk0,
        Or.inr ⟨(kk, .mk s2 c2 d2), by simp, k0, hk0, rfl⟩⟩
    · rintro ⟨hne, (⟨_, rfl⟩ | ⟨kn, hkn, ck, hck, rfl⟩)⟩
      · exact absurd rfl hne
      · simp only [List.mem_singleton] at hkn
        subst hkn
        exact ⟨ck, rfl, hck⟩


theorem key_longer (pre : List Int) (r k2 : Int) (key'' : List Int) : pre ++ [r] ≠ pre ++ r :: k2 :: key'' := by
  intro e
  have := congrArg List.length e
  simp only [List.length_append, List.length_cons, List.length_nil] at this
  omega

/-- where the key `pre ++ r :: k2 :: key''` can live below `mk (pre ++ [r]) ch data`: only in the child
filed under `k2` -/
theorem key_in_old (pre : List Int) (r k2 : Int) (key'' : List Int) (ch : List (Int × Node)) (data : Option Data)
    (hw : wfL ch = true) (x : Data) :
    (pre ++ r :: k2 :: key'', x) ∈ rulesN (.mk (pre ++ [r]) ch data) ↔
      ∃ nd, lookupChild ch k2 = some nd ∧ (k2 :: key'', x) ∈ rulesN nd := by
  have hkey : pre ++ r :: k2 :: key'' = (pre ++ [r]) ++ (k2 :: key'') := by simp
  rw [mem_rulesN]
  constructor
  · rintro (⟨_, e⟩ | ⟨kn, hkn, ck, hck, e⟩)
    · exact absurd e.symm (key_longer pre r k2 key'')
    · rw [hkey] at e
      have e' := List.append_cancel_left e
      subst e'
      obtain ⟨t, ht⟩ := child_rule_head ch hw kn hkn _ x hck
      simp only [List.cons.injEq] at ht
      obtain ⟨kk, nd⟩ := kn
      simp only at ht
      obtain ⟨_, _, hl⟩ := wfL_mem ch kk nd hw hkn
      exact ⟨nd, by rw [ht.1]; exact hl, hck⟩
  · rintro ⟨nd, hl, h⟩
    exact Or.inr ⟨(k2, nd), lookup_mem ch k2 nd hl, k2 :: key'', h, hkey⟩

theorem rem_desc_replaced (isTop : Bool) (pre : List Int) (r k2 : Int) (key'' : List Int) (ch : List (Int × Node))
    (data : Option Data) (hw : wfL ch = true) (cso : List Int) (cch : List (Int × Node)) (cd : Option Data)
    (hl : lookupChild ch k2 = some (.mk cso cch cd)) (c' : Node) (idx : Option Nat)
    (hspec : RemSpec false [] cso cch cd (k2 :: key'') (.replaced c' idx)) :
    RemSpec isTop pre [r] ch data (r :: k2 :: key'')
      (.replaced (.mk (pre ++ [r]) (replaceChild ch k2 c') data) idx) := by
  obtain ⟨hwc', hhead', hrules'⟩ := hspec
  have hmemc := lookup_mem ch k2 _ hl
  obtain ⟨hheadc, _, _⟩ := wfL_mem ch k2 _ hw hmemc
  simp only [List.nil_append] at hhead' hrules'
  have hh : c'.so.head? = some k2 := by rw [hhead']; exact hheadc
  have hkey : pre ++ r :: k2 :: key'' = (pre ++ [r]) ++ (k2 :: key'') := by simp
  refine ⟨?_, rfl, ?_⟩
  · have := wfL_replace ch k2 _ c' hw hl hh hwc'
    simp [wfN, this]
  · intro K x
    simp only [mem_rulesN]
    constructor
    · rintro (⟨h, rfl⟩ | ⟨kn, hkn, ck, hck, rfl⟩)
      · exact ⟨key_longer pre r k2 key'', Or.inl ⟨h, rfl⟩⟩
      · obtain ⟨kk, nd⟩ := kn
        rcases (mem_replace ch k2 _ c' hw hl kk nd).mp hkn with ⟨rfl, rfl⟩ | ⟨hne, hm⟩
        · obtain ⟨hne2, hold⟩ := (hrules' ck x).mp hck
          refine ⟨?_, Or.inr ⟨_, hmemc, ck, hold, rfl⟩⟩
          intro e
          rw [hkey] at e
          exact hne2 (List.append_cancel_left e)
        · refine ⟨?_, Or.inr ⟨(kk, nd), hm, ck, hck, rfl⟩⟩
          intro e
          rw [hkey] at e
          have e' := List.append_cancel_left e
          obtain ⟨t, ht⟩ := child_rule_head ch hw _ hm ck x hck
          rw [ht] at e'
          simp only [List.cons.injEq] at e'
          exact hne e'.1
    · rintro ⟨hneK, (h | ⟨kn, hkn, ck, hck, rfl⟩)⟩
      · exact Or.inl h
      · obtain ⟨kk, nd⟩ := kn
        by_cases hk : kk = k2
        · subst hk
          obtain ⟨_, _, hlook⟩ := wfL_mem ch kk nd hw hkn
          rw [hl] at hlook
          simp only [Option.some.injEq] at hlook
          subst hlook
          have hne2 : ck ≠ kk :: key'' := by
            intro e; apply hneK; rw [hkey, e]
          exact Or.inr ⟨(kk, c'), (mem_replace ch kk _ c' hw hl kk c').mpr (Or.inl ⟨rfl, rfl⟩), ck,
            (hrules' _ _).mpr ⟨hne2, hck⟩, rfl⟩
        · exact Or.inr ⟨(kk, nd), (mem_replace ch k2 _ c' hw hl kk nd).mpr (Or.inr ⟨hk, hkn⟩), ck, hck, rfl⟩

/-- the child was deleted and the node keeps its remaining children -/
theorem rem_desc_deleted_keep (isTop : Bool) (pre : List Int) (r k2 : Int) (key'' : List Int)
    (ch : List (Int × Node)) (data : Option Data) (hw : wfL ch = true) (child : Node)
    (hl : lookupChild ch k2 = some child) (idx : Option Nat)
    (hchild : ∀ ck x, (ck, x) ∈ rulesN child → ck = k2 :: key'') :
    RemSpec isTop pre [r] ch data (r :: k2 :: key'')
      (.replaced (.mk (pre ++ [r]) (eraseChild ch k2) data) idx) := by
  have hkey : pre ++ r :: k2 :: key'' = (pre ++ [r]) ++ (k2 :: key'') := by simp
  refine ⟨by simp [wfN, wfL_erase ch k2 hw], rfl, ?_⟩
  intro K x
  simp only [mem_rulesN]
  constructor
  · rintro (⟨h, rfl⟩ | ⟨kn, hkn, ck, hck, rfl⟩)
    · exact ⟨key_longer pre r k2 key'', Or.inl ⟨h, rfl⟩⟩
    · obtain ⟨kk, nd⟩ := kn
      obtain ⟨hne, hm⟩ := (mem_erase ch k2 hw kk nd).mp hkn
      refine ⟨?_, Or.inr ⟨(kk, nd), hm, ck, hck, rfl⟩⟩
      intro e
      rw [hkey] at e
      have e' := List.append_cancel_left e
      obtain ⟨t, ht⟩ := child_rule_head ch hw _ hm ck x hck
      rw [ht] at e'
      simp only [List.cons.injEq] at e'
      exact hne e'.1
  · rintro ⟨hneK, (h | ⟨kn, hkn, ck, hck, rfl⟩)⟩
    · exact Or.inl h
    · obtain ⟨kk, nd⟩ := kn
      by_cases hk : kk = k2
      · subst hk
        obtain ⟨_, _, hlook⟩ := wfL_mem ch kk nd hw hkn
        rw [hl] at hlook
        simp only [Option.some.injEq] at hlook
        subst hlook
        exact absurd (by rw [hkey, hchild ck x hck]) hneK
      · exact Or.inr ⟨(kk, nd), (mem_erase ch k2 hw kk nd).mpr ⟨hk, hkn⟩, ck, hck, rfl⟩

/-- … or is left with a single child and no data of its own: that child is merged into it -/
theorem rem_desc_deleted_merge (isTop : Bool) (pre : List Int) (r k2 : Int) (key'' : List Int)
    (ch : List (Int × Node)) (hw : wfL ch = true) (child : Node)
    (hl : lookupChild ch k2 = some child) (idx : Option Nat)
    (hchild : ∀ ck x, (ck, x) ∈ rulesN child → ck = k2 :: key'')
    (kk : Int) (s2 : List Int) (c2 : List (Int × Node)) (d2 : Option Data)
    (he : eraseChild ch k2 = [(kk, .mk s2 c2 d2)]) :
    RemSpec isTop pre [r] ch none (r :: k2 :: key'') (.replaced (.mk (pre ++ [r] ++ s2) c2 d2) idx) := by
  obtain ⟨hwk, _, hrk⟩ := rem_desc_deleted_keep isTop pre r k2 key'' ch none hw child hl idx hchild
  rw [he] at hwk hrk
  have hwl : wfL [(kk, Node.mk s2 c2 d2)] = true := by simpa [wfN] using hwk
  obtain ⟨hwc, _⟩ := wfL_child _ hwl (kk, .mk s2 c2 d2) (by simp)
  obtain ⟨hne2, hwc2⟩ := (wfN_mk _ _ _).mp hwc
  refine ⟨by simp [wfN, hwc2], ?_, ?_⟩
  · simp only [Node.so]
    cases pre <;> simp
  · intro K x
    rw [← hrk K x, rules_prefix (pre ++ [r]) s2, mem_rulesN (pre ++ [r])]
    constructor
    · rintro ⟨k0, rfl, hk0⟩
      exact Or.inr ⟨(kk, .mk s2 c2 d2), by simp, k0, hk0, rfl⟩
    · rintro (⟨h, _⟩ | ⟨kn, hkn, ck, hck, rfl⟩)
      · simp at h
      · simp only [List.mem_singleton] at hkn
        subst hkn
        exact ⟨ck, rfl, hck⟩

theorem rem_case_continue (isTop : Bool) (pre : List Int) (r : Int) (rem' : List Int) (ch : List (Int × Node))
    (data : Option Data) (key' : List Int) (res : RemRes)
    (h : RemSpec isTop (pre ++ [r]) rem' ch data key' res) : RemSpec isTop pre (r :: rem') ch data (r :: key') res := by
  have e1 : pre ++ [r] ++ rem' = pre ++ r :: rem' := by simp
  have e2 : pre ++ [r] ++ key' = pre ++ r :: key' := by simp
  unfold RemSpec at h ⊢
  rw [e1, e2] at h
  exact h


theorem removeGo_spec : ∀ (key : List Int) (isTop : Bool) (pre rem : List Int) (ch : List (Int × Node))
    (data : Option Data), rem ≠ [] → wfL ch = true →
    (isTop = true → (pre ++ rem).head? = some columnMarker) →
    RemSpec isTop pre rem ch data key (removeGo isTop pre rem ch data key) := by
  intro key
  induction key with
  | nil =>
    intro isTop pre rem ch data hrem _ _
    simp only [removeGo, RemSpec]
    intro x h
    obtain ⟨t, ht⟩ := rules_so_prefix _ _ _ _ _ h
    have := congrArg List.length ht
    simp only [List.length_append, List.append_nil] at this
    exact hrem (List.eq_nil_of_length_eq_zero (by omega))
  | cons k key' ih =>
    intro isTop pre rem ch data hrem hw htop
    cases rem with
    | nil => exact absurd rfl hrem
    | cons r rem' =>
      by_cases hrk : r = k
      · subst hrk
        cases rem' with
        | cons r2 rem'' =>
          cases key' with
          | cons k2 key'' =>
            have := ih isTop (pre ++ [r]) (r2 :: rem'') ch data (by simp) hw (by simpa using htop)
            simp only [removeGo, if_true]
            exact rem_case_continue isTop pre r (r2 :: rem'') ch data (k2 :: key'') _ this
          | nil =>
            simp only [removeGo, if_true, RemSpec]
            exact fun x => rem_case_short pre r r2 rem'' ch data x
        | nil =>
          cases key' with
          | cons k2 key'' =>
            rw [removeGo]
            simp only [if_true]
            cases hl : lookupChild ch k2 with
            | none =>
              simp only [RemSpec]
              intro x h
              obtain ⟨nd, hnd, _⟩ := (key_in_old pre r k2 key'' ch data hw x).mp h
              rw [hl] at hnd; simp at hnd
            | some child =>
              obtain ⟨cso, cch, cd⟩ := child
              simp only []
              have hmem := lookup_mem ch k2 _ hl
              obtain ⟨hhead, hwc, _⟩ := wfL_mem ch k2 _ hw hmem
              obtain ⟨hne, hwcc⟩ := (wfN_mk _ _ _).mp hwc
              have hc := ih false [] cso cch cd hne hwcc (by simp)
              cases hres : removeGo false [] cso cch cd (k2 :: key'') with
              | noop =>
                rw [hres] at hc
                simp only [RemSpec, List.nil_append] at hc ⊢
                intro x h
                obtain ⟨nd, hnd, hin⟩ := (key_in_old pre r k2 key'' ch data hw x).mp h
                rw [hl] at hnd
                simp only [Option.some.injEq] at hnd
                subst hnd
                exact hc x hin
              | replaced c' idx =>
                rw [hres] at hc
                simp only []
                exact rem_desc_replaced isTop pre r k2 key'' ch data hw cso cch cd hl c' idx hc
              | deleted idx =>
                rw [hres] at hc
                simp only [RemSpec, List.nil_append] at hc
                have hchild := hc.2
                simp only []
                cases he : eraseChild ch k2 with
                | nil =>
                  have := rem_desc_deleted_keep isTop pre r k2 key'' ch data hw _ hl idx hchild
                  rw [he] at this
                  cases data <;> exact this
                | cons a t =>
                  obtain ⟨kk, nd⟩ := a
                  obtain ⟨s2, c2, d2⟩ := nd
                  cases t with
                  | cons b t' =>
                    have := rem_desc_deleted_keep isTop pre r k2 key'' ch data hw _ hl idx hchild
                    rw [he] at this
                    cases data <;> exact this
                  | nil =>
                    cases data with
                    | none =>
                      exact rem_desc_deleted_merge isTop pre r k2 key'' ch hw _ hl idx hchild kk s2 c2 d2 he
                    | some dd =>
                      have := rem_desc_deleted_keep isTop pre r k2 key'' ch (some dd) hw _ hl idx hchild
                      rw [he] at this
                      exact this
          | nil =>
            simp only [removeGo, if_true]
            cases ch with
            | nil =>
              by_cases ht : isTop = true
              · subst ht
                simp only [if_true]
                exact rem_exact_none_top pre r data _ (htop rfl)
              · have ht' : isTop = false := by simpa using ht
                subst ht'
                simp only [Bool.false_eq_true, if_false]
                exact rem_exact_none_sub pre r data _
            | cons a t =>
              obtain ⟨kk, nd⟩ := a
              obtain ⟨s2, c2, d2⟩ := nd
              cases t with
              | cons b t' => exact rem_exact_generic isTop pre r _ data hw _
              | nil => exact rem_exact_one isTop pre r kk s2 c2 d2 data _ hw
      · simp only [removeGo, hrk, if_false, RemSpec]
        exact fun x => rem_case_mismatch pre r rem' ch data k key' hrk x

/-- **`Remove`**: the trie stays well formed and stores exactly the old rules without `key` -/
theorem remove_spec (t : Node) (key : List Int) (hw : wfN t = true) (hh : t.so.head? = some columnMarker) :
    wfN (t.remove key).1 = true ∧ (t.remove key).1.so.head? = some columnMarker ∧
    ∀ K x, (K, x) ∈ rulesN (t.remove key).1 ↔ (K ≠ key ∧ (K, x) ∈ rulesN t) := by
  obtain ⟨so, ch, data⟩ := t
  obtain ⟨hne, hwl⟩ := (wfN_mk _ _ _).mp hw
  have hs := removeGo_spec key true [] so ch data hne hwl (fun _ => by simpa [Node.so] using hh)
  simp only [Node.remove, Node.so, Node.children, Node.data]
  cases hres : removeGo true [] so ch data key with
  | noop =>
    rw [hres] at hs
    simp only [RemSpec, List.nil_append] at hs
    dsimp only
    refine ⟨hw, hh, ?_⟩
    intro K x
    constructor
    · intro h
      refine ⟨?_, h⟩
      rintro rfl
      exact hs x h
    · exact fun h => h.2
  | replaced t' idx =>
    rw [hres] at hs
    simp only [RemSpec, List.nil_append] at hs
    obtain ⟨h1, h2, h3⟩ := hs
    dsimp only
    have h2' : t'.so.head? = some columnMarker := by rw [h2]; simpa [Node.so] using hh
    exact ⟨h1, h2', h3⟩
  | deleted idx =>
    rw [hres] at hs
    simp only [RemSpec] at hs
    exact absurd hs.1 (by simp)

end DoltVerif.BranchControl
