import DoltVerif.Lemmas.JournalIndexWriter
import DoltVerif.Lemmas.JournalLoss
/-! Bootstrapping from a faithful index equals bootstrapping from the journal alone. -/
namespace DoltVerif.Journal

theorem lastRoot_append (xs ys : List (Nat × Parsed)) :
    lastRoot (xs ++ ys) = match lastRoot ys with | some r => some r | none => lastRoot xs := by
  induction xs with
  | nil => simp [lastRoot]; cases lastRoot ys <;> rfl
  | cons x xs ih =>
    obtain ⟨o, r⟩ := x
    simp only [List.cons_append, lastRoot, ih]
    cases lastRoot ys with
    | some v => rfl
    | none => rfl

theorem lookupRange_foldl_some (rs : List RangeEnt) (a : Bytes) (acc : Option RangeEnt) :
    rs.foldl (fun acc e => if e.addr = a then some e else acc) acc =
      match rs.foldl (fun acc e => if e.addr = a then some e else acc) none with
      | some e => some e
      | none => acc := by
  induction rs generalizing acc with
  | nil => rfl
  | cons e rs ih =>
    simp only [List.foldl_cons]
    rw [ih, ih (if e.addr = a then some e else none)]
    by_cases h : e.addr = a
    · simp only [h, if_true]
      cases List.foldl (fun acc e => if e.addr = a then some e else acc) none rs <;> rfl
    · simp only [h, if_false]
      cases List.foldl (fun acc e => if e.addr = a then some e else acc) none rs <;> rfl

theorem lookupRange_append (xs ys : List RangeEnt) (a : Bytes) :
    lookupRange (xs ++ ys) a = match lookupRange ys a with | some e => some e | none => lookupRange xs a := by
  unfold lookupRange
  rw [List.foldl_append, lookupRange_foldl_some]

/-- the addr16-keyed map loaded from the index -/
def cachedGet (ls : List Lookup) (a : Bytes) : Option (Nat × Nat) :=
  ls.foldl (fun acc l => if l.a16 = a.take 16 then some (l.off, l.len) else acc) none

/-- no stored address shares its 16-byte prefix with `a` unless it is `a` (C01 finding (a) is the
failure of this assumption) -/
def NoAlias (rs : List RangeEnt) (a : Bytes) : Prop := ∀ e ∈ rs, e.addr.take 16 = a.take 16 → e.addr = a

theorem cachedGet_faithful (rs : List RangeEnt) (a : Bytes) (h : NoAlias rs a) :
    cachedGet (rs.map toLookup) a = (lookupRange rs a).map (fun e => (e.off, e.len)) := by
  unfold cachedGet lookupRange
  suffices ∀ (acc : Option RangeEnt),
      (rs.map toLookup).foldl (fun acc l => if l.a16 = a.take 16 then some (l.off, l.len) else acc)
          (acc.map (fun e => (e.off, e.len))) =
        (rs.foldl (fun acc e => if e.addr = a then some e else acc) acc).map (fun e => (e.off, e.len)) by
    simpa using this none
  induction rs with
  | nil => intro acc; rfl
  | cons e rs ih =>
    intro acc
    have h' : NoAlias rs a := fun x hx => h x (by simp [hx])
    simp only [List.map_cons, List.foldl_cons, toLookup]
    by_cases he : e.addr = a
    · have : e.addr.take 16 = a.take 16 := by rw [he]
      simp only [this, he, if_true]
      exact ih h' (some e)
    · have : ¬ e.addr.take 16 = a.take 16 := fun hp => he (h e (by simp) hp)
      simp only [this, he, if_false]
      exact ih h' acc

/-- replaying from a record boundary yields the suffix of the full replay, with the same outcome -/
theorem recoverFrom_boundary (B : Nat) (rs1 : List Rec) (g : Bytes) (h : AllFit B rs1) :
    (∃ recs2 off, recoverFrom B (encAll rs1 ++ g) 0 = .ok (placed rs1 0 ++ recs2) off ∧
        recoverFrom B (encAll rs1 ++ g) (encAll rs1).length = .ok recs2 off) ∨
    (∃ off, recoverFrom B (encAll rs1 ++ g) 0 = .dataLoss off ∧
        recoverFrom B (encAll rs1 ++ g) (encAll rs1).length = .dataLoss off) ∨
    (∃ e, recoverFrom B (encAll rs1 ++ g) 0 = .fatal e ∧
        recoverFrom B (encAll rs1 ++ g) (encAll rs1).length = .fatal e) := by
  have hs := scan_encAll_append B true rs1 g 0 h
  simp only [Nat.zero_add] at hs
  have hd : (encAll rs1 ++ g).drop (encAll rs1).length = g := List.drop_left
  unfold recoverFrom
  simp only [List.drop_zero, hs, hd]
  cases hst : (scan B true g (encAll rs1).length).stop with
  | eof => exact Or.inl ⟨_, _, rfl, rfl⟩
  | fatal e => exact Or.inr (Or.inr ⟨e, rfl, rfl⟩)
  | recovered =>
    simp only []
    generalize dlc B (List.drop (scan B true g (encAll rs1).length).off (encAll rs1 ++ g)) false = d
    match d with
    | .ok true => exact Or.inr (Or.inl ⟨_, rfl, rfl⟩)
    | .ok false => exact Or.inl ⟨_, _, rfl, rfl⟩
    | .error _ => exact Or.inl ⟨_, _, rfl, rfl⟩

end DoltVerif.Journal
