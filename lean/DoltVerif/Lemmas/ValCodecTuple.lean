import DoltVerif.Lemmas.ValCodecBytes
/-! Tuple layout: `getField (newTuple fs) i` (C15). -/
namespace DoltVerif.ValCodec

/-- how a field reads back: a zero-length field is NULL -/
def normField : Field → Field
  | some [] => none
  | f => f

def prefixLen (vs : List Field) (k : Nat) : Nat := dataSize (vs.take k)

theorem dataOf_length (vs : List Field) : (dataOf vs).length = dataSize vs := by
  induction vs with
  | nil => rfl
  | cons f fs ih => simp [dataOf, dataSize, fieldLen] at *; omega

theorem dataSize_cons (f : Field) (fs : List Field) : dataSize (f :: fs) = fieldLen f + dataSize fs := by
  simp [dataSize]

theorem dataOf_cons (f : Field) (fs : List Field) : dataOf (f :: fs) = fieldBytes f ++ dataOf fs := by
  simp [dataOf]

theorem offsAux_length (p : Nat) (fs : List Field) : (offsAux p fs).length = 2 * fs.length := by
  induction fs generalizing p with
  | nil => rfl
  | cons f fs ih => simp [offsAux, leBytes_length, ih]; omega

theorem offsetBytes_length (vs : List Field) : (offsetBytes vs).length = 2 * (vs.length - 1) := by
  cases vs with
  | nil => rfl
  | cons f fs => simp [offsetBytes, offsAux_length]

theorem prefixLen_le (vs : List Field) (k : Nat) : prefixLen vs k ≤ dataSize vs := by
  induction vs generalizing k with
  | nil => simp [prefixLen, dataSize]
  | cons f fs ih =>
    cases k with
    | zero => simp [prefixLen, dataSize]
    | succ k =>
      have := ih k
      simp [prefixLen, dataSize_cons] at *; omega

theorem prefixLen_succ (vs : List Field) (k : Nat) (hk : k < vs.length) :
    prefixLen vs (k + 1) = prefixLen vs k + fieldLen vs[k] := by
  induction vs generalizing k with
  | nil => simp at hk
  | cons f fs ih =>
    cases k with
    | zero => simp [prefixLen, dataSize]
    | succ k =>
      have := ih k (by simpa using hk)
      simp [prefixLen, dataSize_cons] at *; omega

theorem prefixLen_length (vs : List Field) : prefixLen vs vs.length = dataSize vs := by
  simp [prefixLen]

/-- the `k`-th stored offset -/
theorem offsAux_get (p : Nat) (fs : List Field) (k : Nat) (hk : k < fs.length) :
    ((offsAux p fs).drop (2 * k)).take 2 = leBytes 2 (p + dataSize (fs.take k)) := by
  induction fs generalizing p k with
  | nil => simp at hk
  | cons f fs ih =>
    cases k with
    | zero =>
      simp only [offsAux, Nat.mul_zero, List.drop_zero, List.take_zero, dataSize, List.map_nil, List.sum_nil,
        Nat.add_zero]
      rw [List.take_append_of_le_length (by simp [leBytes_length])]
      rw [List.take_of_length_le (by simp [leBytes_length])]
    | succ k =>
      have hk' : k < fs.length := by simpa using hk
      have := ih (p + fieldLen f) k hk'
      simp only [offsAux, List.take_succ_cons, dataSize_cons]
      have h2 : 2 * (k + 1) = (leBytes 2 p).length + 2 * k := by simp [leBytes_length]; omega
      rw [h2, List.drop_append]
      simp only [Nat.add_sub_cancel_left]
      rw [List.drop_of_length_le (by omega), List.nil_append, this]
      congr 1; omega

theorem offsetBytes_get (vs : List Field) (j : Nat) (h1 : 1 ≤ j) (hj : j < vs.length) :
    ((offsetBytes vs).drop (2 * (j - 1))).take 2 = leBytes 2 (prefixLen vs j) := by
  cases vs with
  | nil => simp at hj
  | cons f fs =>
    have hk : j - 1 < fs.length := by simp at hj; omega
    rw [offsetBytes, offsAux_get _ _ _ hk]
    congr 1
    obtain ⟨k, rfl⟩ : ∃ k, j = k + 1 := ⟨j - 1, by omega⟩
    simp [prefixLen, dataSize_cons]

/-- the bytes of field `i` inside the data region -/
theorem dataOf_slice (vs : List Field) (i : Nat) (hi : i < vs.length) :
    ((dataOf vs).drop (prefixLen vs i)).take (fieldLen vs[i]) = fieldBytes vs[i] := by
  induction vs generalizing i with
  | nil => simp at hi
  | cons f fs ih =>
    cases i with
    | zero =>
      simp only [prefixLen, List.take_zero, dataSize, List.map_nil, List.sum_nil, List.drop_zero,
        List.getElem_cons_zero, dataOf_cons, fieldLen]
      rw [List.take_append_of_le_length (Nat.le_refl _), List.take_length]
    | succ i =>
      have hi' : i < fs.length := by simpa using hi
      have := ih i hi'
      simp only [prefixLen, List.take_succ_cons, dataSize_cons, dataOf_cons, List.getElem_cons_succ] at *
      have hl : fieldLen f = (fieldBytes f).length := rfl
      rw [hl, List.drop_append]
      simp only [Nat.add_sub_cancel_left]
      rw [List.drop_of_length_le (by omega), List.nil_append]
      exact this

/-! ### trimNullSuffix -/

theorem trim_cons_some (b : Bytes) (fs : List Field) :
    trimNullSuffix (some b :: fs) = some b :: trimNullSuffix fs := by
  simp only [trimNullSuffix]; split <;> simp_all

theorem trim_cons_none_nil {fs : List Field} (h : trimNullSuffix fs = []) :
    trimNullSuffix (none :: fs) = [] := by
  simp only [trimNullSuffix, h]

theorem trim_cons_ne {fs : List Field} (f : Field) (h : trimNullSuffix fs ≠ []) :
    trimNullSuffix (f :: fs) = f :: trimNullSuffix fs := by
  simp only [trimNullSuffix]; split <;> simp_all

theorem trim_idem (fs : List Field) : trimNullSuffix (trimNullSuffix fs) = trimNullSuffix fs := by
  induction fs with
  | nil => rfl
  | cons f fs ih =>
    by_cases ht : trimNullSuffix fs = []
    · cases f with
      | none => rw [trim_cons_none_nil ht]; rfl
      | some b => rw [trim_cons_some, trim_cons_some, ih]
    · rw [trim_cons_ne f ht, trim_cons_ne f (by rw [ih]; exact ht), ih]

/-- trimming only removes trailing NULLs: `fs = trim fs ++ (NULL)*` -/
theorem trim_append_nulls (fs : List Field) :
    fs = trimNullSuffix fs ++ List.replicate (fs.length - (trimNullSuffix fs).length) none := by
  induction fs with
  | nil => rfl
  | cons f fs ih =>
    by_cases ht : trimNullSuffix fs = []
    · rw [ht] at ih
      cases f with
      | none =>
        rw [trim_cons_none_nil ht]
        simp only [List.length_cons, List.length_nil, Nat.sub_zero, List.nil_append] at ih ⊢
        rw [List.replicate_succ, ← ih]
      | some b =>
        rw [trim_cons_some, ht]
        simp only [List.length_cons, List.length_nil, Nat.sub_zero, List.nil_append, List.cons_append] at ih ⊢
        have : fs.length + 1 - 1 = fs.length := by omega
        rw [this, ← ih]
    · rw [trim_cons_ne f ht]
      have hl : (trimNullSuffix fs).length ≤ fs.length := by
        have := congrArg List.length ih
        simp at this; omega
      simp only [List.length_cons, List.cons_append]
      have : fs.length + 1 - ((trimNullSuffix fs).length + 1) = fs.length - (trimNullSuffix fs).length := by omega
      rw [this, ← ih]

/-- the trimmed list does not end in NULL -/
theorem trim_getLast (fs : List Field) (h : trimNullSuffix fs ≠ []) :
    (trimNullSuffix fs).getLast h ≠ none := by
  induction fs with
  | nil => simp [trimNullSuffix] at h
  | cons f fs ih =>
    by_cases ht : trimNullSuffix fs = []
    · cases f with
      | none => exact absurd (trim_cons_none_nil ht) h
      | some b => simp [trim_cons_some, ht]
    · have := ih ht
      simp only [trim_cons_ne f ht]
      rw [List.getLast_cons ht]
      exact this

theorem trim_getElem? (fs : List Field) (i : Nat) :
    ((trimNullSuffix fs)[i]?).join = (fs[i]?).join := by
  conv => rhs; rw [trim_append_nulls fs]
  by_cases h : i < (trimNullSuffix fs).length
  · rw [List.getElem?_append_left h]
  · rw [List.getElem?_append_right (by omega), List.getElem?_eq_none (by omega)]
    simp only [Option.join]
    cases hh : (List.replicate (fs.length - (trimNullSuffix fs).length) (none : Field))[i - (trimNullSuffix fs).length]? with
    | none => rfl
    | some x =>
      have := List.mem_replicate.1 (List.mem_of_getElem? hh)
      simp [this.2]

end DoltVerif.ValCodec
