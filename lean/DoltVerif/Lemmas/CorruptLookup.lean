import DoltVerif.Lemmas.CorruptStages
/-! C10 helper lemmas: the table-index accessors do not panic on a well-shaped index whose
ordinals are in range (the guard dolt lacks, as a hypothesis). -/
namespace DoltVerif.Corrupt.Table
open DoltVerif.Corrupt
set_option linter.unusedSimpArgs false

/-- shape of the index buffers after `newOnHeapTableIndex` (for `count < 2^29`, see `openFile_wf`) -/
structure WF (ti : TableIndex) : Prop where
  mlen : ti.mbuff.length = ti.count * 28 + 20
  o1len : ti.offs1.length = 8 * (ti.count - ti.count / 2)

theorem slice_be64_ok {buf : Bytes} {start lo : Nat} (h : start + (lo + 8) ≤ buf.length) :
    ∃ v, (goSlice buf start lo (lo + 8) >>= be64) = .ok v := by
  rw [goSlice_ok ⟨by omega, h⟩]
  have hl : 8 ≤ ((buf.drop (start + lo)).take (lo + 8 - lo)).length := by
    simp [List.length_take, List.length_drop]; omega
  exact ⟨_, by simp only [bind, Except.bind]; exact be64_ok hl⟩

theorem slice_be32_ok {buf : Bytes} {start lo : Nat} (h : start + (lo + 4) ≤ buf.length) :
    ∃ v, (goSlice buf start lo (lo + 4) >>= be32) = .ok v := by
  rw [goSlice_ok ⟨by omega, h⟩]
  have hl : 4 ≤ ((buf.drop (start + lo)).take (lo + 4 - lo)).length := by
    simp [List.length_take, List.length_drop]; omega
  exact ⟨_, by simp only [bind, Except.bind]; exact be32_ok hl⟩

namespace TableIndex

theorem prefixAt_ok {ti : TableIndex} (w : WF ti) {idx : Nat} (h : idx < ti.count) : ∃ v, ti.prefixAt idx = .ok v := by
  unfold prefixAt
  have := w.mlen
  exact slice_be64_ok (by simp [prefixTupleSize, prefixLen, ordinalSize]; omega)

theorem ordinalAt_ok {ti : TableIndex} (w : WF ti) {idx : Nat} (h : idx < ti.count) : ∃ v, ti.ordinalAt idx = .ok v := by
  unfold ordinalAt
  have := w.mlen
  exact slice_be32_ok (by simp [prefixTupleSize, prefixLen, ordinalSize]; omega)

theorem suffixAt_ok {ti : TableIndex} (w : WF ti) {ord : Nat} (h : ord ≤ ti.count) : ∃ s, ti.suffixAt ord = .ok s := by
  unfold suffixAt
  have := w.mlen
  exact ⟨_, goSlice_ok ⟨by omega, by simp [prefixTupleSize, prefixLen, ordinalSize, lengthSize, suffixLen]; omega⟩⟩

theorem offsetAt_ok {ti : TableIndex} (w : WF ti) {ord : Nat} (h : ord < ti.count) : ∃ v, ti.offsetAt ord = .ok v := by
  unfold offsetAt
  have h1 := w.mlen
  have h2 := w.o1len
  by_cases hc : ord < ti.count - ti.count / 2
  · simp only [hc, if_true]
    exact slice_be64_ok (by simp [offsetSize]; omega)
  · simp only [hc, if_false]
    exact slice_be64_ok (by simp [offsetSize, prefixTupleSize, prefixLen, ordinalSize]; omega)

theorem getIndexEntry_ok {ti : TableIndex} (w : WF ti) {ord : Nat} (h : ord < ti.count) :
    ∃ e, ti.getIndexEntry ord = .ok e := by
  unfold getIndexEntry
  obtain ⟨c, hc⟩ := offsetAt_ok w h
  by_cases h0 : (ord == 0) = true
  · simp only [h0, if_true, bind, Except.bind, pure, Except.pure, hc]
    exact ⟨_, rfl⟩
  · have hp : ord - 1 < ti.count := by omega
    obtain ⟨p, hp⟩ := offsetAt_ok w hp
    simp only [h0, if_false, bind, Except.bind, pure, Except.pure, hc, hp]
    exact ⟨_, rfl⟩

theorem findPrefixLoop_ok {ti : TableIndex} (w : WF ti) (pfx : Nat) :
    ∀ (fuel idx j : Nat), j ≤ ti.count → ∃ r, ti.findPrefixLoop pfx fuel idx j = .ok r
  | 0, idx, j, _ => ⟨idx, rfl⟩
  | fuel + 1, idx, j, hj => by
    unfold findPrefixLoop
    by_cases hlt : idx < j
    · simp only [hlt, if_true]
      have hh : idx + (j - idx) / 2 < ti.count := by omega
      obtain ⟨t, ht⟩ := prefixAt_ok w hh
      simp only [bind, Except.bind, ht]
      split
      · exact findPrefixLoop_ok w pfx fuel _ _ hj
      · exact findPrefixLoop_ok w pfx fuel _ _ (by omega)
    · simp only [hlt, if_false]
      exact ⟨idx, rfl⟩

/-- the guard dolt lacks, as a hypothesis: every ordinal stored in a prefix tuple is below the chunk count -/
def OrdinalsInRange (ti : TableIndex) : Prop :=
  ∀ idx ord, idx < ti.count → ti.ordinalAt idx = .ok ord → ord < ti.count

theorem entrySuffixMatches_ok {ti : TableIndex} (w : WF ti) (ho : OrdinalsInRange ti) (h : Bytes) {idx : Nat}
    (hi : idx < ti.count) : ∃ m, ti.entrySuffixMatches idx h = .ok m := by
  unfold entrySuffixMatches
  obtain ⟨ord, hord⟩ := ordinalAt_ok w hi
  obtain ⟨s, hs⟩ := suffixAt_ok w (Nat.le_of_lt (ho idx ord hi hord))
  simp only [bind, Except.bind, hord, hs, pure, Except.pure]
  exact ⟨_, rfl⟩

/-- `lookupLoop` returns `count` (absent) or an ordinal below `count` -/
theorem lookupLoop_ok {ti : TableIndex} (w : WF ti) (ho : OrdinalsInRange ti) (h : Bytes) (pfx : Nat) :
    ∀ (fuel idx : Nat), ∃ r, ti.lookupLoop h pfx fuel idx = .ok r ∧ r ≤ ti.count
  | 0, _ => ⟨ti.count, rfl, Nat.le_refl _⟩
  | fuel + 1, idx => by
    unfold lookupLoop
    by_cases hi : idx < ti.count
    · simp only [hi, if_true]
      obtain ⟨p, hp⟩ := prefixAt_ok w hi
      obtain ⟨m, hm⟩ := entrySuffixMatches_ok w ho h hi
      obtain ⟨ord, hord⟩ := ordinalAt_ok w hi
      simp only [bind, Except.bind, hp]
      split
      · simp only [hm]
        cases m with
        | true => simp only [if_true]; exact ⟨ord, hord, Nat.le_of_lt (ho idx ord hi hord)⟩
        | false => exact lookupLoop_ok w ho h pfx fuel (idx + 1)
      · exact ⟨ti.count, rfl, Nat.le_refl _⟩
    · simp only [hi, if_false]
      exact ⟨ti.count, rfl, Nat.le_refl _⟩

/-- `lookup` under the two shape facts: never a panic, and a found entry is the entry of an ordinal below `count` -/
theorem lookup_ok {ti : TableIndex} (w : WF ti) (ho : OrdinalsInRange ti) (h : Bytes) :
    ∃ e, ti.lookup h = .ok e ∧ ∀ x, e = some x → ∃ ord, ord < ti.count ∧ ti.getIndexEntry ord = .ok x := by
  unfold lookup lookupOrdinal findPrefix
  obtain ⟨i0, hi0⟩ := findPrefixLoop_ok w (beNat (h.take prefixLen)) (ti.count + 1) 0 ti.count (Nat.le_refl _)
  obtain ⟨r, hr, hle⟩ := lookupLoop_ok w ho h (beNat (h.take prefixLen)) ti.count i0
  simp only [bind, Except.bind, hi0, hr]
  by_cases hc : (r == ti.count) = true
  · simp only [hc, if_true, pure, Except.pure]
    exact ⟨none, rfl, fun x hx => by cases hx⟩
  · have hlt : r < ti.count := by
      have : r ≠ ti.count := by intro he; apply hc; simp [he]
      omega
    obtain ⟨e, he⟩ := getIndexEntry_ok w hlt
    simp only [hc, if_false, he, pure, Except.pure]
    exact ⟨some e, rfl, fun x hx => by cases hx; exact ⟨r, hlt, he⟩⟩

end TableIndex
end DoltVerif.Corrupt.Table

namespace DoltVerif.Corrupt.Table.TableIndex
open DoltVerif.Corrupt DoltVerif.Corrupt.Table

theorem getIndexEntry_len_lt {ti : TableIndex} {ord : Nat} {e : Nat × Nat} (h : ti.getIndexEntry ord = .ok e) :
    e.2 < two32 := by
  unfold getIndexEntry at h
  have key : ∀ (p : Nat), (do let cur ← ti.offsetAt ord; pure (p, sub64 cur p % two32) : R (Nat × Nat)) = .ok e → e.2 < two32 := by
    intro p hp
    cases hc : ti.offsetAt ord with
    | error err => simp only [bind, Except.bind, hc] at hp; cases hp
    | ok c =>
      simp only [bind, Except.bind, hc, pure, Except.pure] at hp
      injection hp with hp
      subst hp
      exact Nat.mod_lt _ (by decide)
  by_cases h0 : (ord == 0) = true
  · simp only [h0, if_true, bind, Except.bind, pure, Except.pure] at h
    exact key 0 h
  · simp only [h0, if_false] at h
    cases hp : ti.offsetAt (ord - 1) with
    | error err => simp only [bind, Except.bind, hp] at h; cases h
    | ok p =>
      simp only [bind, Except.bind, hp] at h
      exact key p h

end DoltVerif.Corrupt.Table.TableIndex

namespace DoltVerif.Corrupt.Table
open DoltVerif.Corrupt
set_option linter.unusedSimpArgs false

theorem natBE_length (w n : Nat) : (natBE w n).length = w := by simp [natBE]

theorem flatMap_natBE_length (xs : List Nat) : (xs.flatMap (natBE 8)).length = 8 * xs.length := by
  induction xs with
  | nil => simp
  | cons x xs ih => simp [List.flatMap_cons, natBE_length, ih]; omega

theorem prefixSums_length (acc : Nat) (xs : List Nat) : (prefixSums acc xs).length = xs.length := by
  induction xs generalizing acc with
  | nil => simp [prefixSums]
  | cons x xs ih => simp [prefixSums, ih]

theorem lengthsOf_length : ∀ (n : Nat) (l : Bytes), l.length = 4 * n → (lengthsOf l).length = n
  | 0, l, h => by
    have : l = [] := List.eq_nil_of_length_eq_zero (by omega)
    subst this; simp [lengthsOf]
  | n + 1, l, h => by
    match l, h with
    | a :: b :: c :: d :: rest, h =>
      simp only [lengthsOf, List.length_cons]
      have := lengthsOf_length n rest (by simp at h; omega)
      omega

/-- the count field is the footer's count. (Same skeleton as below.) what `newOnHeapTableIndex` builds has the shape `WF` (for `count < 2^29`: beyond that the uint32
product `chunks1*offsetSize` wraps and `offsetsBuff1` is too short — a 15 GiB index) -/
theorem newOnHeapTableIndex_count {b : Bytes} {count total : Nat} {ti : TableIndex}
    (h : newOnHeapTableIndex b count total = .ok ti) : ti.count = count := by
  unfold newOnHeapTableIndex at h
  by_cases hg : b.length ≠ indexSize count + footerSize
  · simp [hg, throw, throwThe, MonadExceptOf.throw, bind, Except.bind] at h
  · have hl : b.length = count * 28 + 20 := by
      simp [indexSize, footerSize, suffixLen, lengthSize, prefixTupleSize, prefixLen, ordinalSize, uint32Size, uint64Size, magicNumberSize] at hg; omega
    have e1 := @goSlice_ok b 0 0 (prefixTupleSize * count) (by simp [prefixTupleSize, prefixLen, ordinalSize]; omega)
    have e2 := @goSlice_ok b 0 (prefixTupleSize * count) (prefixTupleSize * count + lengthSize * count)
      (by simp [prefixTupleSize, prefixLen, ordinalSize, lengthSize]; omega)
    have e3 := @goSlice_ok b 0 (prefixTupleSize * count + lengthSize * count) (indexSize count)
      (by simp [indexSize, suffixLen, prefixTupleSize, prefixLen, ordinalSize, lengthSize]; omega)
    have e4 := @goSliceFrom_ok b 0 b.length (indexSize count)
      (by simp [indexSize, suffixLen, prefixTupleSize, prefixLen, ordinalSize, lengthSize]; omega)
    have e5 := @goSlice_ok b (prefixTupleSize * count) 0 (count / 2 * offsetSize)
      (by simp [prefixTupleSize, prefixLen, ordinalSize, offsetSize]; omega)
    simp only [hg, if_false, bind, Except.bind, pure, Except.pure, e1, e2, e3, e4] at h
    have hlens : ((b.drop (0 + prefixTupleSize * count)).take (prefixTupleSize * count + lengthSize * count - prefixTupleSize * count)).length = 4 * count := by
      simp [List.length_take, List.length_drop, prefixTupleSize, prefixLen, ordinalSize, lengthSize]; omega
    have hsum := lengthsOf_length count _ hlens
    have key : ∀ t : TableIndex,
        t = { mbuff := (b.drop (0 + 0)).take (prefixTupleSize * count - 0) ++
                (((prefixSums 0 (lengthsOf ((b.drop (0 + prefixTupleSize * count)).take (prefixTupleSize * count + lengthSize * count - prefixTupleSize * count)))).drop
                    ((count - count / 2) * offsetSize % two32 / offsetSize)).take (count / 2)).flatMap (natBE 8) ++
                ((b.drop (0 + prefixTupleSize * count)).take (prefixTupleSize * count + lengthSize * count - prefixTupleSize * count)).drop (count / 2 * offsetSize) ++
                b.drop ((prefixTupleSize + lengthSize) * count),
              offs1 := ((prefixSums 0 (lengthsOf ((b.drop (0 + prefixTupleSize * count)).take (prefixTupleSize * count + lengthSize * count - prefixTupleSize * count)))).take
                    ((count - count / 2) * offsetSize % two32 / offsetSize)).flatMap (natBE 8),
              count := count, total := total } → t.count = count := by
      intro t ht
      subst ht
      rfl
    split at h
    · simp only [e5, bind, Except.bind, pure, Except.pure] at h
      injection h with h
      exact key ti h.symm
    · try simp only [bind, Except.bind, pure, Except.pure] at h
      injection h with h
      exact key ti h.symm


/-- what `newOnHeapTableIndex` builds has the shape `WF` (for `count < 2^29`: beyond that the uint32
product `chunks1*offsetSize` wraps and `offsetsBuff1` is too short — a 15 GiB index) -/
theorem newOnHeapTableIndex_wf {b : Bytes} {count total : Nat} {ti : TableIndex}
    (h : newOnHeapTableIndex b count total = .ok ti) (hsmall : (count - count / 2) * offsetSize < two32) : WF ti ∧ ti.count = count := by
  unfold newOnHeapTableIndex at h
  by_cases hg : b.length ≠ indexSize count + footerSize
  · simp [hg, throw, throwThe, MonadExceptOf.throw, bind, Except.bind] at h
  · have hl : b.length = count * 28 + 20 := by
      simp [indexSize, footerSize, suffixLen, lengthSize, prefixTupleSize, prefixLen, ordinalSize, uint32Size, uint64Size, magicNumberSize] at hg; omega
    have e1 := @goSlice_ok b 0 0 (prefixTupleSize * count) (by simp [prefixTupleSize, prefixLen, ordinalSize]; omega)
    have e2 := @goSlice_ok b 0 (prefixTupleSize * count) (prefixTupleSize * count + lengthSize * count)
      (by simp [prefixTupleSize, prefixLen, ordinalSize, lengthSize]; omega)
    have e3 := @goSlice_ok b 0 (prefixTupleSize * count + lengthSize * count) (indexSize count)
      (by simp [indexSize, suffixLen, prefixTupleSize, prefixLen, ordinalSize, lengthSize]; omega)
    have e4 := @goSliceFrom_ok b 0 b.length (indexSize count)
      (by simp [indexSize, suffixLen, prefixTupleSize, prefixLen, ordinalSize, lengthSize]; omega)
    have e5 := @goSlice_ok b (prefixTupleSize * count) 0 (count / 2 * offsetSize)
      (by simp [prefixTupleSize, prefixLen, ordinalSize, offsetSize]; omega)
    simp only [hg, if_false, bind, Except.bind, pure, Except.pure, e1, e2, e3, e4] at h
    have hmod : (count - count / 2) * offsetSize % two32 = (count - count / 2) * offsetSize := Nat.mod_eq_of_lt hsmall
    have hlens : ((b.drop (0 + prefixTupleSize * count)).take (prefixTupleSize * count + lengthSize * count - prefixTupleSize * count)).length = 4 * count := by
      simp [List.length_take, List.length_drop, prefixTupleSize, prefixLen, ordinalSize, lengthSize]; omega
    have hsum := lengthsOf_length count _ hlens
    have key : ∀ t : TableIndex,
        t = { mbuff := (b.drop (0 + 0)).take (prefixTupleSize * count - 0) ++
                (((prefixSums 0 (lengthsOf ((b.drop (0 + prefixTupleSize * count)).take (prefixTupleSize * count + lengthSize * count - prefixTupleSize * count)))).drop
                    ((count - count / 2) * offsetSize % two32 / offsetSize)).take (count / 2)).flatMap (natBE 8) ++
                ((b.drop (0 + prefixTupleSize * count)).take (prefixTupleSize * count + lengthSize * count - prefixTupleSize * count)).drop (count / 2 * offsetSize) ++
                b.drop ((prefixTupleSize + lengthSize) * count),
              offs1 := ((prefixSums 0 (lengthsOf ((b.drop (0 + prefixTupleSize * count)).take (prefixTupleSize * count + lengthSize * count - prefixTupleSize * count)))).take
                    ((count - count / 2) * offsetSize % two32 / offsetSize)).flatMap (natBE 8),
              count := count, total := total } → WF t ∧ t.count = count := by
      intro t ht
      subst ht
      refine ⟨⟨?_, ?_⟩, rfl⟩
      · simp only [List.length_append, flatMap_natBE_length, List.length_take, List.length_drop, prefixSums_length, hsum, hmod]
        simp [prefixTupleSize, prefixLen, ordinalSize, lengthSize, offsetSize] <;> omega
      · simp only [flatMap_natBE_length, List.length_take, prefixSums_length, hsum, hmod]
        simp [offsetSize] <;> omega
    split at h
    · simp only [e5, bind, Except.bind, pure, Except.pure] at h
      injection h with h
      exact key ti h.symm
    · try simp only [bind, Except.bind, pure, Except.pure] at h
      injection h with h
      exact key ti h.symm

/-- the index of a table file opened by the store's own path has the shape `WF` -/
theorem openFile_wf {file : Bytes} {m : Nat} {o : Open} (h : openFile file m = .ok o)
    (hsmall : (m - m / 2) * offsetSize < two32) : WF o.idx := by
  unfold openFile at h
  by_cases hlt : file.length < indexSize m + footerSize
  · simp [hlt, throw, throwThe, MonadExceptOf.throw, bind, Except.bind] at h
  · simp only [hlt, if_false, bind, Except.bind, pure, Except.pure] at h
    generalize file.drop (file.length - (indexSize m + footerSize)) = b at h
    unfold parseTableIndex at h
    cases hf : readTableFooter b with
    | error e => simp only [bind, Except.bind, hf] at h; cases h
    | ok ct =>
      obtain ⟨c, t⟩ := ct
      simp only [bind, Except.bind, hf] at h
      cases hn : newOnHeapTableIndex b c t with
      | error e => simp only [hn] at h; cases h
      | ok ti =>
        simp only [hn] at h
        by_cases hm : m ≠ ti.count
        · simp [hm, throw, throwThe, MonadExceptOf.throw] at h
        · have hm' : m = ti.count := Classical.not_not.mp hm
          simp only [hm, if_false] at h
          cases hp : ti.prefixes with
          | error e => simp only [hp] at h; cases h
          | ok ps =>
            simp only [hp] at h
            injection h with h
            subst h
            show WF ti
            have hcc : ti.count = c := newOnHeapTableIndex_count hn
            exact (newOnHeapTableIndex_wf hn (by rw [← hcc, ← hm']; exact hsmall)).1


/-- the two missing guards as a decidable check over a parsed index -/
def ordinalsInRangeB (ti : TableIndex) : Bool :=
  (List.range ti.count).all fun idx => match ti.ordinalAt idx with
    | .ok ord => decide (ord < ti.count)
    | .error _ => true

def lengthsOkB (ti : TableIndex) : Bool :=
  (List.range ti.count).all fun ord => match ti.getIndexEntry ord with
    | .ok (_, len) => decide (4 ≤ len)
    | .error _ => true

theorem ordinalsInRangeB_sound {ti : TableIndex} (h : ordinalsInRangeB ti = true) : TableIndex.OrdinalsInRange ti := by
  intro idx ord hi ho
  have := List.all_eq_true.mp h idx (List.mem_range.mpr hi)
  rw [ho] at this
  simpa using this

theorem lengthsOkB_sound {ti : TableIndex} (h : lengthsOkB ti = true) :
    ∀ ord off len, ord < ti.count → ti.getIndexEntry ord = .ok (off, len) → 4 ≤ len := by
  intro ord off len hi ho
  have := List.all_eq_true.mp h ord (List.mem_range.mpr hi)
  rw [ho] at this
  simpa using this

end DoltVerif.Corrupt.Table
