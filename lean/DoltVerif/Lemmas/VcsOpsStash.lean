import DoltVerif.Lemmas.VcsOpsDb
import DoltVerif.Lemmas.VcsOpsPatch
/-!
Lemmas for C34's stash theorem: a root-level merge whose tables are all decided at table level.
-/
namespace DoltVerif.VcsOps

theorem mergeRootsOn_pointwise (c : Bool) (names : List String) (b o t x : Root)
    (h : ∀ n ∈ names, mergeTable c (get b n) (get o n) (get t n) = .ok (get x n)) :
    mergeRootsOn c names b o t = .ok (names.filterMap (fun n => (get x n).map (fun v => (n, v)))) := by
  induction names with
  | nil => rfl
  | cons n rest ih =>
    simp only [mergeRootsOn, h n List.mem_cons_self, ih (fun m hm => h m (List.mem_cons_of_mem _ hm)),
      List.filterMap_cons]
    cases get x n <;> rfl

theorem merge3_pointwise (c : Bool) (b o t x : Root) (hx : Sorted ltStr (keys x))
    (hsub : ∀ n ∈ keys x, n ∈ keys o ∨ n ∈ keys t)
    (h : ∀ n, mergeTable c (get b n) (get o n) (get t n) = .ok (get x n)) :
    merge3 c b o t = .ok x := by
  unfold merge3
  rw [mergeRootsOn_pointwise c _ b o t x (fun n _ => h n)]
  congr 1
  apply filterMap_get_eq strictTotal_ltStr _ (sorted_unionKeys strictTotal_ltStr _ _) x hx
  intro k hk
  exact (mem_unionKeys _ _ k).mpr (hsub k hk)

theorem mem_changedTables (a b : Root) (n : String) : n ∈ changedTables a b ↔ get a n ≠ get b n := by
  unfold changedTables
  rw [List.mem_filter]
  constructor
  · rintro ⟨_, h⟩; simpa using h
  · intro h
    refine ⟨?_, by simpa using h⟩
    rw [mem_unionKeys]
    apply Classical.byContradiction
    intro hn
    exact h (by rw [get_none_of_not_mem a n (fun h' => hn (Or.inl h')), get_none_of_not_mem b n (fun h' => hn (Or.inr h'))])

theorem mem_keys_of_get_ne_none {κ α : Type} [DecidableEq κ] (m : List (κ × α)) (k : κ) (h : get m k ≠ none) : k ∈ keys m := by
  apply Classical.byContradiction
  intro hn
  exact h (get_none_of_not_mem m k hn)

theorem get_of_mem {κ α : Type} [DecidableEq κ] {lt : κ → κ → Bool} (st : StrictTotal lt)
    (m : List (κ × α)) (hm : Sorted lt (keys m)) (k : κ) (v : α) (h : (k, v) ∈ m) : get m k = some v := by
  induction m with
  | nil => cases h
  | cons kv rest ih =>
    obtain ⟨k', v'⟩ := kv
    have h1 := List.pairwise_cons.mp (show List.Pairwise (fun a b => lt a b = true) (k' :: keys rest) from hm)
    rcases List.mem_cons.mp h with e | h'
    · cases e; simp [get]
    · have hk : k ∈ keys rest := by simp only [keys, List.mem_map]; exact ⟨(k, v), h', rfl⟩
      have hne : ¬ k' = k := by
        intro e
        have := h1.1 k hk
        rw [e, st.irrefl] at this
        cases this
      simp only [get, hne, if_false]
      exact ih h1.2 h'

end DoltVerif.VcsOps
