import DoltVerif.Lemmas.ProllyMergeApply
/-!
C14 helper lemmas: bridge between the per-pair description of a diff (`DiffSpec`) and lookups of
one key in the two sorted maps.
-/
namespace DoltVerif.ProllyMerge
open DoltVerif.ProllyDiff

variable {cmp : Bytes → Bytes → Ordering}

theorem lookup_some_iff (ol : OrdLaws cmp) (k : Bytes) : ∀ {l : List KV}, Sorted cmp l → ∀ x,
    lookupKV cmp k l = some x ↔ x ∈ l ∧ cmp k x.1 = .eq
  | [], _, x => by simp [lookupKV]
  | y :: ys, hs, x => by
    have hy := sorted_head_lt hs
    have ih := lookup_some_iff ol k (sorted_tail hs) x
    by_cases h : cmp k y.1 = .eq
    · simp only [lookupKV, h, beq_self_eq_true, if_true, Option.some.injEq, List.mem_cons]
      constructor
      · rintro rfl; exact ⟨Or.inl rfl, h⟩
      · rintro ⟨rfl | hx, hk⟩
        · rfl
        · -- y < x and k ~ y, so k < x, contradicting k ~ x
          have h2 := ol.eq_lt _ _ _ h (hy x hx)
          rw [hk] at h2; simp at h2
    · have hb : (cmp k y.1 == .eq) = false := by simpa using h
      simp only [lookupKV, hb, Bool.false_eq_true, if_false, ih, List.mem_cons]
      constructor
      · rintro ⟨hx, hk⟩; exact ⟨Or.inr hx, hk⟩
      · rintro ⟨rfl | hx, hk⟩
        · exact absurd hk h
        · exact ⟨hx, hk⟩

theorem lookup_none_iff (ol : OrdLaws cmp) (k : Bytes) {l : List KV} (hs : Sorted cmp l) :
    lookupKV cmp k l = none ↔ ∀ x ∈ l, cmp k x.1 ≠ .eq := by
  constructor
  · intro h x hx hk
    have := (lookup_some_iff ol k hs x).mpr ⟨hx, hk⟩
    rw [h] at this; simp at this
  · intro h
    cases hl : lookupKV cmp k l with
    | none => rfl
    | some x =>
      have := (lookup_some_iff ol k hs x).mp hl
      exact absurd this.2 (h x this.1)

/-- the change of one key between two maps as the event the *differ* reports for it (key bytes of
the base side for modified/removed) -/
def changeD (b x : Option KV) : Option Event :=
  match b, x with
  | none, none => none
  | none, some y => some (Event.added y)
  | some a, none => some (Event.removed a)
  | some a, some y => if a.2 != y.2 then some (Event.modified a y) else none

theorem cmp_congr_left (ol : OrdLaws cmp) {k a b : Bytes} (h : cmp k a = .eq) : cmp k b = .eq ↔ cmp a b = .eq := by
  constructor
  · intro h2; exact ol.eq_trans (ol.eq_symm h) h2
  · intro h2; exact ol.eq_trans h h2

/-- an event of the key-wise diff with key `k` is the change of `k` between the lookups -/
theorem diffSpec_at_key (ol : OrdLaws cmp) {B X : List KV} (sb : Sorted cmp B) (sx : Sorted cmp X) (k : Bytes) (e : Event) :
    (DiffSpec cmp false B X e ∧ cmp k e.key = .eq) ↔ changeD (lookupKV cmp k B) (lookupKV cmp k X) = some e := by
  constructor
  · rintro ⟨(⟨x, hx, rfl, hno⟩ | ⟨y, hy, rfl, hno⟩ | ⟨x, hx, y, hy, rfl, he, hv⟩), hk⟩
    · have h1 := (lookup_some_iff ol k sb x).mpr ⟨hx, hk⟩
      have h2 : lookupKV cmp k X = none := by
        rw [lookup_none_iff ol k sx]
        intro y hy hky
        exact hno y hy ((cmp_congr_left ol hk).mp hky)
      simp [changeD, h1, h2]
    · have h2 := (lookup_some_iff ol k sx y).mpr ⟨hy, hk⟩
      have h1 : lookupKV cmp k B = none := by
        rw [lookup_none_iff ol k sb]
        intro x hx hkx
        have : cmp x.1 y.1 = .eq := ol.eq_trans (ol.eq_symm hkx) hk
        exact hno x hx this
      simp [changeD, h1, h2]
    · have h1 := (lookup_some_iff ol k sb x).mpr ⟨hx, hk⟩
      have h2 := (lookup_some_iff ol k sx y).mpr ⟨hy, (cmp_congr_left ol hk).mpr he⟩
      have hv' : x.2 ≠ y.2 := by simpa using hv
      simp [changeD, h1, h2, hv']
  · intro h
    cases hb : lookupKV cmp k B with
    | none =>
      cases hx : lookupKV cmp k X with
      | none => simp [changeD, hb, hx] at h
      | some y =>
        simp [changeD, hb, hx] at h; subst h
        have hy := (lookup_some_iff ol k sx y).mp hx
        refine ⟨Or.inr (Or.inl ⟨y, hy.1, rfl, ?_⟩), hy.2⟩
        intro x hxm he
        have := (lookup_none_iff ol k sb).mp hb x hxm
        exact this (ol.eq_trans hy.2 (ol.eq_symm he))
    | some a =>
      have ha := (lookup_some_iff ol k sb a).mp hb
      cases hx : lookupKV cmp k X with
      | none =>
        simp [changeD, hb, hx] at h; subst h
        refine ⟨Or.inl ⟨a, ha.1, rfl, ?_⟩, ha.2⟩
        intro y hy he
        exact (lookup_none_iff ol k sx).mp hx y hy (ol.eq_trans ha.2 he)
      | some y =>
        have hy := (lookup_some_iff ol k sx y).mp hx
        simp only [changeD, hb, hx] at h
        by_cases hv : a.2 = y.2
        · simp [hv] at h
        · simp [hv] at h; subst h
          exact ⟨Or.inr (Or.inr ⟨a, ha.1, y, hy.1, rfl, ol.eq_trans (ol.eq_symm ha.2) hy.2, Or.inr hv⟩), ha.2⟩

theorem diffSpec_none_at_key (ol : OrdLaws cmp) {B X : List KV} (sb : Sorted cmp B) (sx : Sorted cmp X) (k : Bytes) :
    (∀ e, DiffSpec cmp false B X e → cmp k e.key ≠ .eq) ↔ changeD (lookupKV cmp k B) (lookupKV cmp k X) = none := by
  constructor
  · intro h
    cases hc : changeD (lookupKV cmp k B) (lookupKV cmp k X) with
    | none => rfl
    | some e =>
      have := (diffSpec_at_key ol sb sx k e).mpr hc
      exact absurd this.2 (h e this.1)
  · intro h e he hk
    have := (diffSpec_at_key ol sb sx k e).mp ⟨he, hk⟩
    rw [h] at this; simp at this

end DoltVerif.ProllyMerge
