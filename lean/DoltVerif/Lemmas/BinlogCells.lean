import DoltVerif.Lemmas.BinlogBytes
/-! Per-type round-trip lemmas for C40: the replica-side decoder applied to dolt's encoder. -/
namespace DoltVerif.Binlog
set_option linter.unusedSimpArgs false
theorem twos64_nonneg (v : Int) (h0 : 0 ≤ v) (h1 : v < 18446744073709551616) : twos 64 v = v.toNat := by
  unfold twos; omega
theorem twos64_neg (v : Int) (h0 : v < 0) (h1 : -9223372036854775808 ≤ v) :
    twos 64 v = (v + 18446744073709551616).toNat := by
  unfold twos; omega

theorem signExtend_twos (w : IntW) (sg : Bool) (v : Int) (h : intInRange w sg v = true) :
    signExtend w.bytes sg (twos 64 v % 256 ^ w.bytes) = v := by
  by_cases hv : 0 ≤ v
  · cases w <;> cases sg <;> (
      simp only [intInRange, IntW.bytes, Bool.false_eq_true, if_false, if_true, Nat.reduceMul, Nat.reduceSub, Int.reducePow, Int.reduceNeg] at h
      have h2 := of_decide_eq_true h
      rw [twos64_nonneg v hv (by omega)]
      generalize hn : v.toNat = n
      have hn2 : (n : Int) = v := by omega
      simp only [signExtend, IntW.bytes, Bool.false_eq_true, false_and, true_and, if_false,
        Nat.reducePow, Nat.reduceMul, Nat.reduceSub, Int.reducePow, decide_eq_true_eq]
      try split
      all_goals omega)
  · cases w <;> cases sg <;> (
      simp only [intInRange, IntW.bytes, Bool.false_eq_true, if_false, if_true, Nat.reduceMul, Nat.reduceSub, Int.reducePow, Int.reduceNeg] at h
      have h2 := of_decide_eq_true h
      try omega)
    all_goals (
      rw [twos64_neg v (by omega) (by omega)]
      generalize hn : (v + 18446744073709551616).toNat = n
      have hn2 : (n : Int) = v + 18446744073709551616 := by omega
      simp only [signExtend, IntW.bytes, Bool.false_eq_true, false_and, true_and, if_false,
        Nat.reducePow, Nat.reduceMul, Nat.reduceSub, Int.reducePow, decide_eq_true_eq]
      try split
      all_goals omega)
theorem decode_int (w : IntW) (sg : Bool) (v : Int) (r : Bytes) (h : intInRange w sg v = true) :
    decodeCell sg (colMeta (.int w sg)).1 (colMeta (.int w sg)).2 (encInt w v ++ r) = some (.int v, r) := by
  have hs := signExtend_twos w sg v h
  cases w <;>
    simp [decodeCell, colMeta, tTiny, tShort, tInt24, tLong, tLongLong, decIntLE, encInt, readLE_leBytes, IntW.bytes] at hs ⊢ <;>
    exact hs

theorem decode_float32 (v : Int) (r : Bytes) (h0 : 0 ≤ v) (h1 : v < 2 ^ 32) :
    decodeCell false tFloat 4 (leBytes 4 v.toNat ++ r) = some (.int v, r) := by
  simp [decodeCell, tTiny, tShort, tInt24, tLong, tLongLong, tFloat, decIntLE, readLE_leBytes, signExtend]
  omega

theorem decode_float64 (v : Int) (r : Bytes) (h0 : 0 ≤ v) (h1 : v < 2 ^ 64) :
    decodeCell false tDouble 8 (leBytes 8 v.toNat ++ r) = some (.int v, r) := by
  simp [decodeCell, tTiny, tShort, tInt24, tLong, tLongLong, tFloat, tDouble, decIntLE, readLE_leBytes, signExtend]
  omega
theorem decode_year (v : Int) (r : Bytes) (h : v = 0 ∨ (1901 ≤ v ∧ v ≤ 2155)) :
    decodeCell false tYear 0 (encYear v ++ r) = some (.int v, r) := by
  rcases h with h | h
  · subst h
    simp [decodeCell, tTiny, tShort, tInt24, tLong, tLongLong, tFloat, tDouble, tYear, encYear]
  · have hne : ¬ v = 0 := by omega
    simp [decodeCell, tTiny, tShort, tInt24, tLong, tLongLong, tFloat, tDouble, tYear, encYear, byteOf_toNat, twos, hne]
    split <;> omega

/-- JSON object key entry (after /repo 22b8e06): offset and 16-bit key length are read back. -/
theorem readKeyEntry_jsonKeyEntry (large : Bool) (off len : Nat) (r : Bytes)
    (hoff : off < (if large then 2 ^ 32 else 2 ^ 16)) (hlen : len < 65536) :
    readKeyEntry large (jsonKeyEntry off len large ++ r) = some ((off, len), r) := by
  have e : [byteOf len, byteOf (len >>> 8)] = leBytes 2 len := by
    simp [leBytes, Nat.shiftRight_eq_div_pow]
  cases large
  · simp only [Bool.false_eq_true, if_false] at hoff
    have h1 : off % 2 ^ 32 = off := Nat.mod_eq_of_lt (by omega)
    simp only [readKeyEntry, jsonKeyEntry, appendForEncoding, Bool.false_eq_true, if_false, e, h1, List.append_assoc,
      readLE_leBytes]
    simp [Nat.mod_eq_of_lt (show off < 256 ^ 2 by omega), Nat.mod_eq_of_lt (show len < 256 ^ 2 by omega)]
  · simp only [if_true] at hoff
    have h1 : off % 2 ^ 32 = off := Nat.mod_eq_of_lt hoff
    simp only [readKeyEntry, jsonKeyEntry, appendForEncoding, if_true, e, h1, List.append_assoc, readLE_leBytes]
    simp [Nat.mod_eq_of_lt (show off < 256 ^ 4 by omega), Nat.mod_eq_of_lt (show len < 256 ^ 2 by omega)]

theorem date_pack (y m d : Nat) (hm : m < 16) (hd : d < 32) :
    (y <<< 9 ||| m <<< 5 ||| d) = y * 512 + m * 32 + d := by
  rw [Nat.shiftLeft_eq, Nat.shiftLeft_eq]
  have h1 : y * 2 ^ 9 ||| m * 2 ^ 5 = y * 2 ^ 9 + m * 2 ^ 5 := by
    have := Nat.shiftLeft_add_eq_or_of_lt (a := y) (b := m * 2 ^ 5) (i := 9) (by omega)
    simp only [Nat.shiftLeft_eq] at this
    exact this.symm
  rw [h1]
  have h2 : (y * 2 ^ 9 + m * 2 ^ 5) ||| d = (y * 16 + m) * 2 ^ 5 ||| d := by congr 1; omega
  rw [h2]
  have := Nat.shiftLeft_add_eq_or_of_lt (a := y * 16 + m) (b := d) (i := 5) (by omega)
  simp only [Nat.shiftLeft_eq] at this
  rw [← this]; omega

theorem decode_date (y m d : Nat) (r : Bytes) (hy : y ≤ 9999) (hm : m ≤ 12) (hd : d ≤ 31) :
    decodeCell false tDate 0 (encDate y m d ++ r) = some (.date y m d, r) := by
  simp [decodeCell, tTiny, tShort, tInt24, tLong, tLongLong, tFloat, tDouble, tYear, tDate, encDate, readLE_leBytes]
  rw [date_pack y m d (by omega) (by omega)]
  refine ⟨?_, ?_, ?_⟩ <;> omega
theorem pow_le_256 (n k : Nat) (h : n ≤ 8 * k) : 2 ^ n ≤ 256 ^ k := by
  have : (256 : Nat) ^ k = 2 ^ (8 * k) := by rw [Nat.pow_mul]
  rw [this]; exact Nat.pow_le_pow_right (by decide) h

theorem or_low (a b : Nat) (hb : b < 256) : (a <<< 8 ||| b) = a * 256 + b := by
  have := Nat.shiftLeft_add_eq_or_of_lt (a := a) (b := b) (i := 8) (by omega)
  rw [← this, Nat.shiftLeft_eq]

theorem decode_bit (n : Nat) (v : Int) (r : Bytes) (hn1 : 1 ≤ n) (hn : n ≤ 64) (h0 : 0 ≤ v) (h1 : v < 2 ^ n) :
    decodeCell false (colMeta (.bit n)).1 (colMeta (.bit n)).2 (encBit n v.toNat ++ r) = some (.int v, r) := by
  have hmeta : (colMeta (.bit n)).2 = (n / 8) * 256 + n % 8 := by
    simp only [colMeta]
    rw [Nat.mod_eq_of_lt (a := n / 8) (by omega), Nat.mod_eq_of_lt (a := n % 8) (by omega), or_low _ _ (by omega)]
    omega
  have hnb : ((n / 8 * 256 + n % 8) >>> 8) * 8 + ((n / 8 * 256 + n % 8) &&& 0xff) = n := by
    have h255 : (0xff : Nat) = 2 ^ 8 - 1 := by decide
    rw [Nat.shiftRight_eq_div_pow, h255, Nat.and_two_pow_sub_one_eq_mod]
    omega
  rw [hmeta]
  simp only [decodeCell, colMeta, tTiny, tShort, tInt24, tLong, tLongLong, tFloat, tDouble, tYear, tDate, tTime2,
    tDateTime2, tTimestamp2, tNewDecimal, tBit, encBit, hnb]
  simp only [show (16 : Nat) = 1 ↔ False by decide, show (16 : Nat) = 2 ↔ False by decide, show (16 : Nat) = 9 ↔ False by decide,
    show (16 : Nat) = 3 ↔ False by decide, show (16 : Nat) = 8 ↔ False by decide, show (16 : Nat) = 4 ↔ False by decide,
    show (16 : Nat) = 5 ↔ False by decide, show (16 : Nat) = 13 ↔ False by decide, show (16 : Nat) = 10 ↔ False by decide,
    show (16 : Nat) = 19 ↔ False by decide, show (16 : Nat) = 18 ↔ False by decide, show (16 : Nat) = 17 ↔ False by decide,
    show (16 : Nat) = 246 ↔ False by decide, if_false, if_true, readBE_beBytes]
  have hv : v.toNat < 2 ^ n := by
    rw [Int.toNat_lt h0, Int.natCast_pow]; exact h1
  have h64 : (2 : Nat) ^ n ≤ 2 ^ 64 := Nat.pow_le_pow_right (by decide) hn
  have hle : 2 ^ n ≤ 256 ^ ((n + 7) / 8) := pow_le_256 n _ (by omega)
  rw [Nat.mod_eq_of_lt (a := v.toNat) (by omega), Nat.mod_eq_of_lt (by omega)]
  rw [Int.toNat_of_nonneg h0]
theorem and_ff (x : Nat) : x &&& 0xff = x % 256 := by
  have h255 : (0xff : Nat) = 2 ^ 8 - 1 := by decide
  rw [h255, Nat.and_two_pow_sub_one_eq_mod]

theorem decLenPrefixed_ok (k : Nat) (b r : Bytes) (h : b.length < 256 ^ k) :
    decLenPrefixed k (leBytes k b.length ++ b ++ r) = some (.bytes b, r) := by
  simp [decLenPrefixed, List.append_assoc, readLE_leBytes, Nat.mod_eq_of_lt h, takeN_append]

theorem decode_enum (n : Nat) (v : Int) (r : Bytes) (hn1 : 1 ≤ n) (hn : n ≤ 65535) (h0 : 0 ≤ v) (h1 : v ≤ n) :
    decodeCell false (colMeta (.enum n)).1 (colMeta (.enum n)).2 (encEnum n v.toNat ++ r) = some (.int v, r) := by
  have hv : ((v.toNat : Nat) : Int) = v := Int.toNat_of_nonneg h0
  by_cases hc : n ≤ 0xFF
  · have h2 : v.toNat < 256 := by omega
    simp [decodeCell, colMeta, hc, tTiny, tShort, tInt24, tLong, tLongLong, tFloat, tDouble, tYear, tDate, tTime2,
      tDateTime2, tTimestamp2, tNewDecimal, tBit, tString, tEnum, tSet, encEnum, readLE, byteOf_toNat, Nat.mod_eq_of_lt h2, hv]
  · have h2 : v.toNat < 65536 := by omega
    simp [decodeCell, colMeta, hc, tTiny, tShort, tInt24, tLong, tLongLong, tFloat, tDouble, tYear, tDate, tTime2,
      tDateTime2, tTimestamp2, tNewDecimal, tBit, tString, tEnum, tSet, encEnum, readLE_leBytes, Nat.mod_eq_of_lt h2, hv]

theorem decode_set (n : Nat) (v : Int) (r : Bytes) (hn1 : 1 ≤ n) (hn : n ≤ 64) (h0 : 0 ≤ v) (h1 : v < 2 ^ n) :
    decodeCell false (colMeta (.set n)).1 (colMeta (.set n)).2 (encSet n v.toNat ++ r) = some (.int v, r) := by
  obtain ⟨k, rfl⟩ := Int.eq_ofNat_of_zero_le h0
  have hmeta : (colMeta (.set n)).2 = 248 * 256 + (n + 7) / 8 := by
    simp only [colMeta, tSet]
    rw [Nat.mod_eq_of_lt (a := (n + 7) / 8) (by omega), or_low _ _ (by omega)]
    omega
  have hk : (248 * 256 + (n + 7) / 8) >>> 8 = 248 := by rw [Nat.shiftRight_eq_div_pow]; omega
  have hl : (248 * 256 + (n + 7) / 8) &&& 0xff = (n + 7) / 8 := by rw [and_ff]; omega
  have hv : k < 2 ^ n := by exact_mod_cast h1
  have h64 : (2 : Nat) ^ n ≤ 2 ^ 64 := Nat.pow_le_pow_right (by decide) hn
  have hle : 2 ^ n ≤ 256 ^ ((n + 7) / 8) := pow_le_256 n _ (by omega)
  have e1 : k % 2 ^ 64 = k := Nat.mod_eq_of_lt (by omega)
  have e2 : k % 256 ^ ((n + 7) / 8) = k := Nat.mod_eq_of_lt (by omega)
  rw [hmeta]
  simp only [Int.toNat_natCast, encSet, e1]
  simp [decodeCell, colMeta, tTiny, tShort, tInt24, tLong, tLongLong, tFloat, tDouble, tYear, tDate, tTime2,
      tDateTime2, tTimestamp2, tNewDecimal, tBit, tString, tEnum, tSet, hk, hl, readLE_leBytes, e2]

theorem decode_varchar (m : Nat) (b r : Bytes) (hm : m ≤ 65535) (hb : b.length ≤ m) :
    decodeCell false tVarchar (colMeta (.varchar m)).2 (encVar m b ++ r) = some (.bytes b, r) := by
  have hmm : m % 65536 = m := Nat.mod_eq_of_lt (by omega)
  by_cases hc : m > 255
  · have := decLenPrefixed_ok 2 b r (by omega)
    simp [decodeCell, colMeta, hmm, hc, tTiny, tShort, tInt24, tLong, tLongLong, tFloat, tDouble, tYear, tDate, tTime2,
      tDateTime2, tTimestamp2, tNewDecimal, tBit, tString, tVarchar, encVar, Nat.mod_eq_of_lt (show b.length < 65536 by omega)]
    simpa [List.append_assoc] using this
  · have := decLenPrefixed_ok 1 b r (by omega)
    simp [decodeCell, colMeta, hmm, hc, tTiny, tShort, tInt24, tLong, tLongLong, tFloat, tDouble, tYear, tDate, tTime2,
      tDateTime2, tTimestamp2, tNewDecimal, tBit, tString, tVarchar, encVar]
    simpa [List.append_assoc, leBytes] using this

theorem decode_blob (m : Nat) (b r : Bytes) (hm : m < 2 ^ 32) (hb : b.length ≤ m) :
    decodeCell false tBlob (colMeta (.blob m)).2 (encBlob m b ++ r) = some (.bytes b, r) := by
  have h32 : b.length % 2 ^ 32 = b.length := Nat.mod_eq_of_lt (by omega)
  have hk : 1 ≤ blobLenBytes m ∧ blobLenBytes m ≤ 4 := by unfold blobLenBytes; split <;> (try split) <;> (try split) <;> omega
  have hlt : b.length < 256 ^ blobLenBytes m := by
    unfold blobLenBytes; split
    · omega
    · split
      · omega
      · split <;> omega
  have := decLenPrefixed_ok (blobLenBytes m) b r hlt
  simp [decodeCell, colMeta, tTiny, tShort, tInt24, tLong, tLongLong, tFloat, tDouble, tYear, tDate, tTime2,
      tDateTime2, tTimestamp2, tNewDecimal, tBit, tString, tVarchar, tBlob, encBlob, h32, hk]
  simpa [List.append_assoc] using this

theorem decode_len4 (tc : Nat) (htc : tc = tJSON ∨ tc = tGeometry) (b r : Bytes) (hb : b.length < 2 ^ 32) :
    decodeCell false tc 4 (leBytes 4 (b.length % 2 ^ 32) ++ b ++ r) = some (.bytes b, r) := by
  have h32 : b.length % 2 ^ 32 = b.length := Nat.mod_eq_of_lt hb
  have := decLenPrefixed_ok 4 b r (by omega)
  rcases htc with h | h <;> subst h <;>
    simp [decodeCell, tTiny, tShort, tInt24, tLong, tLongLong, tFloat, tDouble, tYear, tDate, tTime2,
      tDateTime2, tTimestamp2, tNewDecimal, tBit, tString, tVarchar, tBlob, tJSON, tGeometry, h32] <;>
    simpa [List.append_assoc] using this


/-- CHAR/BINARY metadata (`stringSerializer.metadata`): over every field length the 10-bit
"real type ^ upper bits | low byte" encoding is read back by a replica as the same maximum
length and is never mistaken for ENUM/SET. -/
theorem char_meta_table : ∀ m : Fin 1024,
    ((colMeta (.char m.val)).2 >>> 8 ≠ tEnum ∧ (colMeta (.char m.val)).2 >>> 8 ≠ tSet) ∧
    ((((colMeta (.char m.val)).2 >>> 4) &&& 0x300) ^^^ 0x300) + ((colMeta (.char m.val)).2 &&& 0xff) = m.val := by
  decide +kernel

theorem decode_char (m : Nat) (b r : Bytes) (hm : m ≤ 1020) (hb : b.length ≤ m) :
    decodeCell false tString (colMeta (.char m)).2 (encVar m b ++ r) = some (.bytes b, r) := by
  have ht := char_meta_table ⟨m, by omega⟩
  simp only at ht
  obtain ⟨⟨h1, h2⟩, h3⟩ := ht
  by_cases hc : m > 255
  · have := decLenPrefixed_ok 2 b r (by omega)
    simp [decodeCell, tTiny, tShort, tInt24, tLong, tLongLong, tFloat, tDouble, tYear, tDate, tTime2,
      tDateTime2, tTimestamp2, tNewDecimal, tBit, tString, h1, h2, h3, hc, encVar,
      Nat.mod_eq_of_lt (show b.length < 65536 by omega)]
    simpa [List.append_assoc] using this
  · have := decLenPrefixed_ok 1 b r (by omega)
    simp [decodeCell, tTiny, tShort, tInt24, tLong, tLongLong, tFloat, tDouble, tYear, tDate, tTime2,
      tDateTime2, tTimestamp2, tNewDecimal, tBit, tString, h1, h2, h3, hc, encVar]
    simpa [List.append_assoc, leBytes] using this

theorem frac_roundtrip (fsp us : Nat) (r : Bytes) (hf : fsp ≤ 6) (hus : us < 1000000) (hm : us % 10 ^ (6 - fsp) = 0) :
    ∃ f, readBE (fracBytes fsp) (encFrac fsp us ++ r) = some (f, r) ∧ fracToMicros fsp f = us := by
  have : fsp = 0 ∨ fsp = 1 ∨ fsp = 2 ∨ fsp = 3 ∨ fsp = 4 ∨ fsp = 5 ∨ fsp = 6 := by omega
  rcases this with rfl | rfl | rfl | rfl | rfl | rfl | rfl
  · refine ⟨0, ?_, ?_⟩
    · simp [encFrac, fracBytes, readBE, readBEAux]
    · simp [fracToMicros, fracBytes] at hm ⊢; omega
  · refine ⟨us / 10000 % 256, ?_, ?_⟩
    · simp [encFrac, fracBytes, readBE, readBEAux, byteOf_toNat]
    · simp [fracToMicros, fracBytes] at hm ⊢; omega
  · refine ⟨us / 10000 % 256, ?_, ?_⟩
    · simp [encFrac, fracBytes, readBE, readBEAux, byteOf_toNat]
    · simp [fracToMicros, fracBytes] at hm ⊢; omega
  · refine ⟨us / 100 % 256 ^ 2, ?_, ?_⟩
    · simp [encFrac, fracBytes, readBE_beBytes]
    · simp [fracToMicros, fracBytes] at hm ⊢; omega
  · refine ⟨us / 100 % 256 ^ 2, ?_, ?_⟩
    · simp [encFrac, fracBytes, readBE_beBytes]
    · simp [fracToMicros, fracBytes] at hm ⊢; omega
  · refine ⟨us % 256 ^ 3, ?_, ?_⟩
    · simp [encFrac, fracBytes, readBE_beBytes]
    · simp [fracToMicros, fracBytes] at hm ⊢; omega
  · refine ⟨us % 256 ^ 3, ?_, ?_⟩
    · simp [encFrac, fracBytes, readBE_beBytes]
    · simp [fracToMicros, fracBytes] at hm ⊢; omega

theorem decode_timestamp (fsp secs us : Nat) (r : Bytes) (hf : fsp ≤ 6) (hs : secs < 2 ^ 32) (hus : us < 1000000)
    (hm : us % 10 ^ (6 - fsp) = 0) :
    decodeCell false tTimestamp2 (colMeta (.timestamp fsp)).2 (encTimestamp fsp secs us ++ r) = some (.timestamp secs us, r) := by
  obtain ⟨f, hf1, hf2⟩ := frac_roundtrip fsp us r hf hus hm
  have hfsp : fsp % 65536 = fsp := Nat.mod_eq_of_lt (by omega)
  have h32 : secs % 2 ^ 32 = secs := Nat.mod_eq_of_lt hs
  simp [decodeCell, colMeta, hfsp, tTiny, tShort, tInt24, tLong, tLongLong, tFloat, tDouble, tYear, tDate, tTime2,
      tDateTime2, tTimestamp2, decTimestamp2, encTimestamp, List.append_assoc, readBE_beBytes, hf1, hf2, h32]

theorem dt_pack (y mo d h mi s : Nat) (hmo : mo ≤ 12) (hd : d ≤ 31) (hh : h ≤ 23) (hmi : mi ≤ 59) (hs : s ≤ 59) :
    ((((y * 13 + mo) <<< 5) ||| d) <<< 17) ||| ((h <<< 12) ||| (mi <<< 6) ||| s)
      = ((y * 13 + mo) * 32 + d) * 131072 + (h * 4096 + mi * 64 + s) := by
  have e1 : ((y * 13 + mo) <<< 5) ||| d = (y * 13 + mo) * 32 + d := by
    have := Nat.shiftLeft_add_eq_or_of_lt (a := y * 13 + mo) (b := d) (i := 5) (by omega)
    rw [← this, Nat.shiftLeft_eq]
  have e2 : (h <<< 12) ||| (mi <<< 6) = h * 4096 + mi * 64 := by
    have := Nat.shiftLeft_add_eq_or_of_lt (a := h) (b := mi <<< 6) (i := 12) (by rw [Nat.shiftLeft_eq]; omega)
    rw [← this, Nat.shiftLeft_eq, Nat.shiftLeft_eq]
  have e3 : (h * 4096 + mi * 64) ||| s = h * 4096 + mi * 64 + s := by
    have := Nat.shiftLeft_add_eq_or_of_lt (a := h * 64 + mi) (b := s) (i := 6) (by omega)
    rw [Nat.shiftLeft_eq] at this
    have e : (h * 64 + mi) * 2 ^ 6 = h * 4096 + mi * 64 := by omega
    rw [e] at this; exact this.symm
  rw [e1, e2, e3]
  have := Nat.shiftLeft_add_eq_or_of_lt (a := (y * 13 + mo) * 32 + d) (b := h * 4096 + mi * 64 + s) (i := 17) (by omega)
  rw [← this, Nat.shiftLeft_eq]

set_option maxRecDepth 8000 in
theorem decode_datetime (fsp y mo d h mi s us : Nat) (r : Bytes) (hf : fsp ≤ 6) (hy : y ≤ 9999) (hmo : mo ≤ 12) (hd : d ≤ 31)
    (hh : h ≤ 23) (hmi : mi ≤ 59) (hs : s ≤ 59) (hus : us < 1000000) (hm : us % 10 ^ (6 - fsp) = 0) :
    decodeCell false tDateTime2 (colMeta (.datetime fsp)).2 (encDatetime fsp y mo d h mi s us ++ r)
      = some (.datetime y mo d h mi s us, r) := by
  obtain ⟨f, hf1, hf2⟩ := frac_roundtrip fsp us r hf hus hm
  have hfsp : fsp % 65536 = fsp := Nat.mod_eq_of_lt (by omega)
  have hp := dt_pack y mo d h mi s hmo hd hh hmi hs
  obtain ⟨P, hP⟩ : ∃ P, ((y * 13 + mo) * 32 + d) * 131072 + (h * 4096 + mi * 64 + s) = P := ⟨_, rfl⟩
  rw [hP] at hp
  simp only [encDatetime, hp]
  have hlt : P < 549755813888 := by omega
  have hx : (P + 549755813888) % 1099511627776 - 549755813888 = P := by omega
  simp [decodeCell, colMeta, hfsp, tTiny, tShort, tInt24, tLong, tLongLong, tFloat, tDouble, tYear, tDate, tTime2,
      tDateTime2, decDateTime2, List.append_assoc, readBE_beBytes, hf1, hf2, Nat.shiftRight_eq_div_pow]
  rw [hx]
  refine ⟨?_, ?_, ?_, ?_, ?_, ?_⟩ <;> omega

end DoltVerif.Binlog
