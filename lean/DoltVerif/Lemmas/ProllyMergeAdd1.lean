import DoltVerif.Lemmas.ProllyMergeSendR2
/-!
C14, obligation R1 for a first class of trees with RANGE patches: the generator for `empty → x`
with `x` of height 1 (a root of leaf children).  All patches are `added`: one level-1 range patch per
child, `split` descends into the child and emits its pairs as point patches, `Next` at a leaf's end
climbs back to the root.  Shows that the range clauses of `GenSound` (`form`, `split`) are met by the
real generator, not only vacuously by the leaf one.
-/
namespace DoltVerif.ProllyMerge
open DoltVerif.ProllyDiff

variable {cmp : Bytes → Bytes → Ordering}

/-! ### list facts -/

theorem getLast?_append_cons {α} : ∀ (A : List α) (b : α) (B : List α), (A ++ b :: B).getLast? = (b :: B).getLast?
  | [], _, _ => rfl
  | [a], b, B => by simp [List.getLast?_cons_cons]
  | a :: a' :: A, b, B => by
    have := getLast?_append_cons (a' :: A) b B
    simp only [List.cons_append] at this ⊢
    rw [List.getLast?_cons_cons]; exact this

theorem le_getLast (ol : OrdLaws cmp) : ∀ {A : List KV}, Sorted cmp A → ∀ x ∈ A, ∃ y, A.getLast? = some y ∧ cmp x.1 y.1 ≠ .gt
  | [], _, x, hx => by cases hx
  | [a], _, x, hx => by
    simp at hx; subst hx; exact ⟨x, rfl, by rw [ol.refl]; simp⟩
  | a :: b :: A, hs, x, hx => by
    have hs' : Sorted cmp (b :: A) := sorted_tail hs
    rw [List.getLast?_cons_cons]
    rcases List.mem_cons.mp hx with hxa | hx
    · obtain ⟨y, hy, hle⟩ := le_getLast ol hs' b (by simp)
      refine ⟨y, hy, ?_⟩
      rw [hxa, lt_le_lt ol (sorted_head_lt hs b (by simp)) hle]; simp
    · exact le_getLast ol hs' x hx

/-- key of the last pair below a list of children -/
def lastKeyCs (pre : List Child) : Option Bytes := (flattenCs pre).getLast?.map (·.1)

theorem flattenCs_single (c : Child) : flattenCs [c] = c.2.2.flatten := by
  simp [flattenCs]

theorem flattenCs_mid (pre : List Child) (c : Child) (post : List Child) :
    flattenCs (pre ++ c :: post) = flattenCs pre ++ (c.2.2.flatten ++ flattenCs post) := by
  rw [flattenCs_append]; simp [flattenCs]

theorem lastKeyCs_snoc (pre : List Child) (c : Child) (y : KV) (ys : List KV) (h : c.2.2.flatten = y :: ys) :
    lastKeyCs (pre ++ [c]) = (y :: ys).getLast?.map (·.1) := by
  unfold lastKeyCs
  rw [flattenCs_append, flattenCs_single, h, getLast?_append_cons]

/-- the order facts of a sorted `A ++ m :: C` -/
theorem sorted_mid {A C : List KV} {m : KV} (h : Sorted cmp (A ++ m :: C)) :
    (∀ x ∈ A, cmp x.1 m.1 = .lt) ∧ (∀ y ∈ C, cmp m.1 y.1 = .lt) ∧ (∀ x ∈ A, ∀ y ∈ C, cmp x.1 y.1 = .lt) := by
  have h' := List.pairwise_append.mp h
  refine ⟨fun x hx => h'.2.2 x hx m (by simp), fun y hy => (List.pairwise_cons.mp h'.2.1).1 y hy,
    fun x hx y hy => h'.2.2 x hx y (by simp [hy])⟩

theorem sorted_append_left {A C : List KV} (h : Sorted cmp (A ++ C)) : Sorted cmp A := (List.pairwise_append.mp h).1
theorem sorted_append_right {A C : List KV} (h : Sorted cmp (A ++ C)) : Sorted cmp C := (List.pairwise_append.mp h).2.1
theorem sorted_cross {A C : List KV} (h : Sorted cmp (A ++ C)) : ∀ x ∈ A, ∀ y ∈ C, cmp x.1 y.1 = .lt :=
  (List.pairwise_append.mp h).2.2

theorem lookup_none_split (ol : OrdLaws cmp) {A C : List KV} {k : Bytes} (hA : ∀ x ∈ A, cmp x.1 k = .lt) (hC : ∀ y ∈ C, cmp k y.1 = .lt) :
    lookupKV cmp k (A ++ C) = none := by
  rw [lookup_append, lookup_none_of_gt ol hA, lookup_none_of_lt ol hC]; rfl

/-! ### cursor computations -/

theorem advance_single (t : Tree) (j : Nat) (h : j < t.count) : advance [⟨t, j⟩] = [⟨t, j + 1⟩] := by
  unfold advance
  by_cases h1 : j + 1 < t.count
  · simp [h1]
  · have : t.count = j + 1 := by omega
    simp [h1, this]

theorem getElem?_mid {α} (pre : List α) (c : α) (post : List α) : (pre ++ c :: post)[pre.length]? = some c := by simp

/-- `findNextPatch` with an exhausted `from` and `to` on a root slot: the slot's added range -/
theorem fnp_R (sf n : Nat) (pre : List Child) (c : Child) (post : List Child) (pk : Option Bytes) (pl : Nat) (pt : Option DiffType) :
    findNextPatch cmp sf (n + 1) ⟨[], [⟨.node (pre ++ c :: post), pre.length⟩], pk, pl, pt⟩ =
      .ok (⟨[], [⟨.node (pre ++ c :: post), pre.length⟩], pk, firstHeight (pre ++ c :: post) + 1, some .added⟩,
        some ({ keyBelowStart := pk, endKey := c.1, to? := some (.sub c.2.1 c.2.2), subtreeCount := c.2.2.size,
                level := firstHeight (pre ++ c :: post) + 1 }, .added)) := by
  simp [findNextPatch, valid, Frame.valid, Tree.count, level, Tree.height, sendAddedRange, needKey, curKey, Tree.key?,
    curVal, subtreeSize, bind, Except.bind, pure, Except.pure]

theorem fnp_end (sf n : Nat) (cs : List Child) (pk : Option Bytes) (pl : Nat) (pt : Option DiffType) :
    findNextPatch cmp sf (n + 1) ⟨[], [⟨.node cs, cs.length⟩], pk, pl, pt⟩ = .ok (⟨[], [⟨.node cs, cs.length⟩], pk, pl, pt⟩, none) := by
  simp [findNextPatch, valid, Frame.valid, Tree.count, pure, Except.pure]

/-- … and `to` inside a leaf: the pair's added key -/
theorem fnp_P (sf n : Nat) (done : List KV) (kv : KV) (rest : List KV) (par : Cur) (pk : Option Bytes) (pl : Nat) (pt : Option DiffType) :
    findNextPatch cmp sf (n + 1) ⟨[], ⟨.leaf (done ++ kv :: rest), done.length⟩ :: par, pk, pl, pt⟩ =
      .ok (⟨[], ⟨.leaf (done ++ kv :: rest), done.length⟩ :: par, pk, 0, some .added⟩,
        some ({ endKey := kv.1, to? := some (.val kv.2) }, .added)) := by
  simp [findNextPatch, valid, Frame.valid, Tree.count, level, Tree.height, sendAddedKey, needKey, curKey, Tree.key?,
    curVal, bind, Except.bind, pure, Except.pure]

/-- `Next` after a level-1 added range: on to the next root slot -/
theorem afp_R (fuel : Nat) (cs : List Child) (j : Nat) (hj : j < cs.length) (pk : Option Bytes) (lvl : Nat) :
    advanceFromPreviousPatch cmp fuel ⟨[], [⟨.node cs, j⟩], pk, lvl + 1, some .added⟩ =
      .ok (⟨[], [⟨.node cs, j + 1⟩], cs[j]?.map (·.1), lvl + 1, some .added⟩, none) := by
  have ha : advance [⟨.node cs, j⟩] = [⟨.node cs, j + 1⟩] := advance_single _ _ (by simpa [Tree.count] using hj)
  simp [advanceFromPreviousPatch, climb, ha, curKey, Tree.key?, pure, Except.pure]

/-- `Next` after an added key inside a leaf (exhausted `from`): the next pair, or climb to the root -/
theorem afp_P (fuel : Nat) (kvs : List KV) (a : Nat) (cs : List Child) (j : Nat) (hj : j < cs.length) (pk : Option Bytes) :
    advanceFromPreviousPatch cmp fuel ⟨[], [⟨.leaf kvs, a⟩, ⟨.node cs, j⟩], pk, 0, some .added⟩ =
      .ok (⟨[], if a + 1 = kvs.length then [⟨.node cs, j + 1⟩] else advance [⟨.leaf kvs, a⟩, ⟨.node cs, j⟩],
        kvs[a]?.map (·.1), 0, some .added⟩, none) := by
  have ha : advance [⟨.node cs, j⟩] = [⟨.node cs, j + 1⟩] := advance_single _ _ (by simpa [Tree.count] using hj)
  by_cases h : a + 1 = kvs.length
  · simp [advanceFromPreviousPatch, climb, atNodeEnd, Tree.count, h, ha, valid, curKey, Tree.key?, pure, Except.pure]
  · simp [advanceFromPreviousPatch, climb, atNodeEnd, Tree.count, h, valid, curKey, Tree.key?, pure, Except.pure]

theorem advance_leaf_next (kvs : List KV) (a : Nat) (h : a + 1 < kvs.length) (ps : Cur) :
    advance (⟨.leaf kvs, a⟩ :: ps) = ⟨.leaf kvs, a + 1⟩ :: ps := by
  unfold advance
  simp [Tree.count, h]

theorem fnp_R' (sf n : Nat) (cs : List Child) (j : Nat) (c : Child) (hc : cs[j]? = some c) (pk : Option Bytes) (pl : Nat) (pt : Option DiffType) :
    findNextPatch cmp sf (n + 1) ⟨[], [⟨.node cs, j⟩], pk, pl, pt⟩ =
      .ok (⟨[], [⟨.node cs, j⟩], pk, firstHeight cs + 1, some .added⟩,
        some ({ keyBelowStart := pk, endKey := c.1, to? := some (.sub c.2.1 c.2.2), subtreeCount := c.2.2.size,
                level := firstHeight cs + 1 }, .added)) := by
  obtain ⟨hj, hce⟩ := List.getElem?_eq_some_iff.mp hc
  simp [findNextPatch, valid, Frame.valid, Tree.count, level, Tree.height, sendAddedRange, needKey, curKey, Tree.key?,
    curVal, subtreeSize, bind, Except.bind, pure, Except.pure, hj, hce]

theorem fnp_P' (sf n : Nat) (kvs : List KV) (a : Nat) (kv : KV) (hk : kvs[a]? = some kv) (par : Cur) (pk : Option Bytes) (pl : Nat) (pt : Option DiffType) :
    findNextPatch cmp sf (n + 1) ⟨[], ⟨.leaf kvs, a⟩ :: par, pk, pl, pt⟩ =
      .ok (⟨[], ⟨.leaf kvs, a⟩ :: par, pk, 0, some .added⟩,
        some ({ endKey := kv.1, to? := some (.val kv.2) }, .added)) := by
  obtain ⟨hj, hke⟩ := List.getElem?_eq_some_iff.mp hk
  simp [findNextPatch, valid, Frame.valid, Tree.count, level, Tree.height, sendAddedKey, needKey, curKey, Tree.key?,
    curVal, bind, Except.bind, pure, Except.pure, hj, hke]

theorem pgNext_fresh (fuel : Nat) (f t : Cur) (pk : Option Bytes) (pl : Nat) :
    pgNext cmp fuel ⟨f, t, pk, pl, none⟩ = findNextPatch cmp fuel fuel ⟨f, t, pk, pl, none⟩ := by
  simp [pgNext, bind, Except.bind, pure, Except.pure]

theorem pgNext_R (fuel : Nat) (cs : List Child) (j : Nat) (hj : j < cs.length) (pk : Option Bytes) (lvl : Nat) :
    pgNext cmp fuel ⟨[], [⟨.node cs, j⟩], pk, lvl + 1, some .added⟩ =
      findNextPatch cmp fuel fuel ⟨[], [⟨.node cs, j + 1⟩], cs[j]?.map (·.1), lvl + 1, some .added⟩ := by
  simp [pgNext, afp_R fuel cs j hj, bind, Except.bind, pure, Except.pure]

theorem pgNext_P (fuel : Nat) (kvs : List KV) (a : Nat) (cs : List Child) (j : Nat) (hj : j < cs.length) (pk : Option Bytes) :
    pgNext cmp fuel ⟨[], [⟨.leaf kvs, a⟩, ⟨.node cs, j⟩], pk, 0, some .added⟩ =
      findNextPatch cmp fuel fuel ⟨[], if a + 1 = kvs.length then [⟨.node cs, j + 1⟩] else advance [⟨.leaf kvs, a⟩, ⟨.node cs, j⟩],
        kvs[a]?.map (·.1), 0, some .added⟩ := by
  simp [pgNext, afp_P fuel kvs a cs j hj, bind, Except.bind, pure, Except.pure]

theorem pgSplit_R (fuel : Nat) (cs : List Child) (j : Nat) (key : Bytes) (addr : Addr) (kv : KV) (rest : List KV)
    (hc : cs[j]? = some (key, addr, .leaf (kv :: rest))) (pk : Option Bytes) (lvl : Nat) :
    pgSplit cmp fuel ⟨[], [⟨.node cs, j⟩], pk, lvl + 1, some .added⟩ =
      .ok (⟨[], [⟨.leaf (kv :: rest), 0⟩, ⟨.node cs, j⟩], pk, 0, some .added⟩,
        some ({ endKey := kv.1, to? := some (.val kv.2) }, .added)) := by
  simp [pgSplit, pushChild, Tree.child?, hc, level, Tree.height, sendAddedKey, needKey, curKey, Tree.key?, curVal,
    bind, Except.bind, pure, Except.pure]

/-! ### order facts of a root slot -/

theorem getLast?_mem {α} : ∀ {A : List α} {z : α}, A.getLast? = some z → z ∈ A
  | [], _, h => by simp at h
  | [a], z, h => by simp at h; simp [h]
  | a :: b :: A, z, h => by
    rw [List.getLast?_cons_cons] at h
    exact List.mem_cons_of_mem _ (getLast?_mem h)

structure RFacts (cmp : Bytes → Bytes → Ordering) (store : Addr → Option Tree) (cs pre post : List Child) (c : Child)
    (kvs : List KV) : Prop where
  hc : cs[pre.length]? = some c
  hj : pre.length < cs.length
  leaf : c.2.2 = .leaf kvs
  ne : ∃ y ys, kvs = y :: ys
  st : store c.2.1 = some c.2.2
  last : kvs.getLast?.map (·.1) = some c.1
  flat : flattenCs cs = flattenCs pre ++ (kvs ++ flattenCs post)
  g1 : ∀ a, lastKeyCs pre = some a → ∀ y ∈ kvs ++ flattenCs post, cmp a y.1 = .lt
  g2 : ∀ x ∈ flattenCs pre, ∃ a, lastKeyCs pre = some a ∧ cmp x.1 a ≠ .gt
  skv : Sorted cmp kvs
  le : ∀ x ∈ kvs, cmp x.1 c.1 ≠ .gt
  gt : ∀ y ∈ flattenCs post, cmp c.1 y.1 = .lt
  lsnoc : lastKeyCs (pre ++ [c]) = some c.1
  s2 : Sorted cmp (kvs ++ flattenCs post)

theorem rfacts (ol : OrdLaws cmp) {store : Addr → Option Tree} {cs pre post : List Child} {c : Child}
    (wf : WFCs store 0 cs) (ks : KeysOKCs cs) (sx : Sorted cmp (flattenCs cs)) (hcs : cs = pre ++ c :: post) :
    ∃ kvs, RFacts cmp store cs pre post c kvs := by
  have hc : cs[pre.length]? = some c := by rw [hcs]; exact getElem?_mid _ _ _
  obtain ⟨hst, hcnt, hht, _⟩ := WFCs_get wf hc
  obtain ⟨hlast, _⟩ := KeysOKCs_get ks hc
  cases hleaf : c.2.2 with
  | node xs => rw [hleaf] at hht; simp [Tree.height] at hht
  | leaf kvs =>
    rw [hleaf] at hcnt hlast
    simp only [Tree.count, Tree.flatten] at hcnt hlast
    have hflat : flattenCs cs = flattenCs pre ++ (kvs ++ flattenCs post) := by
      rw [hcs, flattenCs_mid, hleaf]; rfl
    rw [hflat] at sx
    have s2 := sorted_append_right sx
    have skv : Sorted cmp kvs := sorted_append_left s2
    obtain ⟨y, ys, hy⟩ : ∃ y ys, kvs = y :: ys := by
      cases kvs with
      | nil => simp at hcnt
      | cons y ys => exact ⟨y, ys, rfl⟩
    have hle : ∀ x ∈ kvs, cmp x.1 c.1 ≠ .gt := by
      intro x hx
      obtain ⟨z, hz, hxz⟩ := le_getLast ol skv x hx
      rw [hz] at hlast; simp at hlast
      rw [← hlast]; exact hxz
    obtain ⟨z, hz⟩ : ∃ z, kvs.getLast? = some z := by
      cases hg : kvs.getLast? with
      | none => rw [hg] at hlast; simp at hlast
      | some z => exact ⟨z, rfl⟩
    have hzk : z.1 = c.1 := by rw [hz] at hlast; simpa using hlast
    refine ⟨kvs, hc, (List.getElem?_eq_some_iff.mp hc).1, hleaf, ⟨y, ys, hy⟩, by rw [hleaf] at hst ⊢; exact hst, hlast, hflat, ?_, ?_, skv, hle, ?_, ?_, s2⟩
    · intro a ha y' hy'
      unfold lastKeyCs at ha
      cases hg : (flattenCs pre).getLast? with
      | none => rw [hg] at ha; simp at ha
      | some w =>
        rw [hg] at ha; simp at ha
        rw [← ha]
        exact sorted_cross sx w (getLast?_mem hg) y' hy'
    · intro x hx
      obtain ⟨w, hw, hxw⟩ := le_getLast ol (sorted_append_left sx) x hx
      exact ⟨w.1, by unfold lastKeyCs; rw [hw]; rfl, hxw⟩
    · intro y' hy'
      rw [← hzk]
      exact sorted_cross s2 z (getLast?_mem hz) y' hy'
    · rw [lastKeyCs_snoc pre c y ys (by rw [hleaf, hy]; rfl), ← hy]; exact hlast

theorem RFacts.preLt (ol : OrdLaws cmp) {store : Addr → Option Tree} {cs pre post : List Child} {c : Child} {kvs : List KV}
    (F : RFacts cmp store cs pre post c kvs) : ∀ x ∈ flattenCs pre, cmp x.1 c.1 = .lt := by
  intro x hx
  obtain ⟨a, ha, hxa⟩ := F.g2 x hx
  obtain ⟨y, ys, hy⟩ := F.ne
  have h1 := F.g1 a ha y (by rw [hy]; simp)
  exact le_lt_lt ol hxa (lt_le_lt ol h1 (F.le y (by rw [hy]; simp)))

/-! ### the invariant -/

/-- where the generator `empty → node cs` stands: before the first patch; on the added range of a root
slot (`prevKey` = last key below the slots before it); on an added pair inside a child leaf; exhausted -/
def AddInv (cs : List Child) (d : PG) : GenPos → Prop
  | .start => d = ⟨[], [⟨.node cs, 0⟩], none, 0, none⟩
  | .at p t => t = .added ∧
      ((∃ pre c post n, cs = pre ++ c :: post ∧ d = ⟨[], [⟨.node cs, pre.length⟩], lastKeyCs pre, 1, some .added⟩ ∧
          p = { keyBelowStart := lastKeyCs pre, endKey := c.1, to? := some (.sub c.2.1 c.2.2), subtreeCount := n, level := 1 }) ∨
       (∃ pre key addr done kv rest post pk, cs = pre ++ (key, addr, .leaf (done ++ kv :: rest)) :: post ∧
          d = ⟨[], [⟨.leaf (done ++ kv :: rest), done.length⟩, ⟨.node cs, pre.length⟩], pk, 0, some .added⟩ ∧
          p = { endKey := kv.1, to? := some (.val kv.2) }))
  | .done => True

theorem chg_none {X : List KV} {k : Bytes} (h : lookupKV cmp k X = none) :
    changeOf (lookupKV cmp k []) (lookupKV cmp k X) = none := by rw [h]; rfl

section
variable (ol : OrdLaws cmp) {store : Addr → Option Tree} {cs : List Child}
  (hne : cs ≠ []) (hh : firstHeight cs = 0) (wf : WFCs store 0 cs) (ks : KeysOKCs cs) (sx : Sorted cmp (flattenCs cs))
include ol hne hh wf ks sx

theorem add_form (d : PG) (p : Patch) (t : DiffType) (hi : AddInv cs d (.at p t)) :
    (p.level = 0 → p.to? = (pvalBytes p.to?).map PVal.val) ∧
    (p.level ≠ 0 → p.to? = none ∨ ∃ a T, p.to? = some (.sub a T)) ∧
    (p.level ≠ 0 → ∀ a T, p.to? = some (.sub a T) → store a = some T ∧ T.flatten.getLast?.map (·.1) = some p.endKey) ∧
    (p.level ≠ 0 → p.to? = none → ∀ k, ¬ startsAfter cmp p k → lookupKV cmp k (flattenCs cs) = none) := by
  obtain ⟨rfl, ⟨pre, c, post, n, hcs, rfl, rfl⟩ | ⟨pre, key, addr, done, kv, rest, post, pk, hcs, rfl, rfl⟩⟩ := hi
  · obtain ⟨kvs, F⟩ := rfacts ol wf ks sx hcs
    refine ⟨fun h => absurd h (by simp), fun _ => Or.inr ⟨_, _, rfl⟩, ?_, fun _ h => by simp at h⟩
    intro _ a T h
    simp at h
    obtain ⟨rfl, rfl⟩ := h
    refine ⟨F.st, ?_⟩
    rw [F.leaf]; simp only [Tree.flatten]; exact F.last
  · exact ⟨fun _ => rfl, fun h => absurd rfl h, fun h => absurd rfl h, fun h => absurd rfl h⟩

theorem add_cur (d : PG) (p : Patch) (t : DiffType) (hi : AddInv cs d (.at p t)) :
    PatchOK cmp p ∧ d.getLevel = p.level ∧
    (∀ k, p.covers cmp k = true → lookupKV cmp k (flattenCs cs) = p.valAt cmp k) ∧
    (p.level = 0 → changeOf (lookupKV cmp p.endKey []) (lookupKV cmp p.endKey (flattenCs cs)) =
      some ⟨t, p.endKey, pvalBytes p.from?, pvalBytes p.to?⟩) := by
  obtain ⟨rfl, ⟨pre, c, post, n, hcs, rfl, rfl⟩ | ⟨pre, key, addr, done, kv, rest, post, pk, hcs, rfl, rfl⟩⟩ := hi
  · obtain ⟨kvs, F⟩ := rfacts ol wf ks sx hcs
    obtain ⟨y, ys, hy⟩ := F.ne
    have hins : Patch.ins ({ keyBelowStart := lastKeyCs pre, endKey := c.1, to? := some (.sub c.2.1 c.2.2), subtreeCount := n, level := 1 } : Patch) = kvs := by
      show c.2.2.flatten = kvs
      rw [F.leaf]; simp only [Tree.flatten]
    refine ⟨⟨fun _ a ha => ?_, fun _ x hx => ?_, fun _ => by rw [hins]; exact F.skv⟩, ?_, ?_, fun h => absurd h (by simp)⟩
    · have h1 := F.g1 a ha y (by rw [hy]; simp)
      have := lt_le_lt ol h1 (F.le y (by rw [hy]; simp))
      show cmp a c.1 ≠ .gt
      rw [this]; simp
    · rw [hins] at hx
      exact ⟨fun a ha => F.g1 a ha x (List.mem_append_left _ hx), F.le x hx⟩
    · simp [PG.getLevel, valid, Frame.valid, Tree.count, level, Tree.height, F.hj, hh]
    · intro k hk
      obtain ⟨h1, h2⟩ := (covers_iff_range (by simp) k).mp hk
      have hpre : ∀ x ∈ flattenCs pre, cmp x.1 k = .lt := by
        intro x hx
        obtain ⟨a, ha, hxa⟩ := F.g2 x hx
        exact le_lt_lt ol hxa (h1 a ha)
      have hpost : ∀ y ∈ flattenCs post, cmp k y.1 = .lt := fun y hy => le_lt_lt ol h2 (F.gt y hy)
      rw [valAt_range (by simp), hins, F.flat, lookup_append, lookup_none_of_gt ol hpre, lookup_append, lookup_none_of_lt ol hpost]
      cases lookupKV cmp k kvs <;> rfl
  · obtain ⟨kvs, F⟩ := rfacts ol wf ks sx hcs
    have hk : kvs = done ++ kv :: rest := by have := F.leaf; simp at this; exact this.symm
    subst hk
    have hmem : kv ∈ flattenCs cs := by rw [F.flat]; simp
    have hlk : ∀ k, cmp k kv.1 = .eq → lookupKV cmp k (flattenCs cs) = some kv := fun k hk =>
      (lookup_some_iff ol k sx kv).mpr ⟨hmem, hk⟩
    refine ⟨⟨fun h => absurd rfl h, fun h => absurd rfl h, fun h => absurd rfl h⟩, ?_, ?_, ?_⟩
    · simp [PG.getLevel, valid, Frame.valid, Tree.count, level, Tree.height]
    · intro k hk
      rw [hlk k ((covers_iff_point rfl k).mp hk)]
      simp [Patch.valAt, pointEffect]
    · intro _
      show changeOf (lookupKV cmp kv.1 []) (lookupKV cmp kv.1 (flattenCs cs)) = _
      rw [hlk kv.1 (ol.refl _)]
      simp [lookupKV, changeOf, Event.added, pvalBytes]

theorem add_next (fuel : Nat) (d : PG) (pos : GenPos) (d' : PG) (c' : Option (Patch × DiffType))
    (hi : AddInv cs d pos) (hpos : pos ≠ .done) (hn : pgNext cmp fuel d = .ok (d', c')) :
    AddInv cs d' (GenPos.ofResult c') ∧
    (∀ p t p' t', pos = .at p t → c' = some (p', t') → Patch.before cmp p p') ∧
    (∀ k, (∀ p t, pos = .at p t → cmp p.endKey k = .lt) → (∀ p' t', c' = some (p', t') → startsAfter cmp p' k) →
      changeOf (lookupKV cmp k []) (lookupKV cmp k (flattenCs cs)) = none) := by
  cases pos with
  | done => exact absurd rfl hpos
  | start =>
    have hd : d = ⟨[], [⟨.node cs, 0⟩], none, 0, none⟩ := hi
    subst hd
    rw [pgNext_fresh] at hn
    cases fuel with
    | zero => simp [findNextPatch] at hn
    | succ m =>
      cases cs with
      | nil => exact absurd rfl hne
      | cons c post =>
        rw [fnp_R' (m + 1) m (c :: post) 0 c rfl] at hn
        cases hn
        refine ⟨⟨rfl, Or.inl ⟨[], c, post, c.2.2.size, rfl, ?_, ?_⟩⟩, ?_, ?_⟩
        · simp [lastKeyCs, flattenCs, hh]
        · simp [lastKeyCs, flattenCs, hh]
        · intro p t p' t' h; cases h
        · intro k _ h2
          have := h2 _ _ rfl
          simp [startsAfter] at this
  | «at» p t =>
    obtain ⟨rfl, ⟨pre, c, post, n, hcs, rfl, rfl⟩ | ⟨pre, key, addr, done, kv, rest, post, pk, hcs, rfl, rfl⟩⟩ := hi
    · obtain ⟨kvs, F⟩ := rfacts ol wf ks sx hcs
      rw [pgNext_R fuel cs _ F.hj] at hn
      cases fuel with
      | zero => simp [findNextPatch] at hn
      | succ m =>
        cases post with
        | nil =>
          have hl : pre.length + 1 = cs.length := by rw [hcs]; simp
          rw [hl, fnp_end] at hn
          cases hn
          refine ⟨trivial, fun p t p' t' _ h => (by cases h), ?_⟩
          intro k h1 _
          have hk : cmp c.1 k = .lt := h1 _ _ rfl
          apply chg_none
          rw [F.flat]
          apply lookup_none_of_gt ol
          intro x hx
          simp [flattenCs] at hx
          rcases hx with hx | hx
          · exact ol.lt_trans _ _ _ (F.preLt ol x hx) hk
          · exact le_lt_lt ol (F.le x hx) hk
        | cons c2 post2 =>
          have hc2 : cs[pre.length + 1]? = some c2 := by rw [hcs]; simp
          rw [fnp_R' (m + 1) m cs _ c2 hc2] at hn
          cases hn
          refine ⟨⟨rfl, Or.inl ⟨pre ++ [c], c2, post2, c2.2.2.size, (by rw [hcs]; simp), ?_, ?_⟩⟩, ?_, ?_⟩
          · simp [F.hc, F.lsnoc, hh]
          · simp [F.hc, F.lsnoc, hh]
          · intro p t p' t' h1 h2
            cases h1; cases h2
            simp [Patch.before, F.hc, ol.refl]
          · intro k h1 h2
            have hk : cmp c.1 k = .lt := h1 _ _ rfl
            have hs := h2 _ _ rfl
            simp [startsAfter, F.hc] at hs
            exact absurd ((ol.gt_iff _ _).mpr hk) hs
    · obtain ⟨kvs, F⟩ := rfacts ol wf ks sx hcs
      have hk : kvs = done ++ kv :: rest := by have := F.leaf; simp at this; exact this.symm
      subst hk
      rw [pgNext_P fuel _ _ cs _ F.hj] at hn
      have hX : flattenCs cs = (flattenCs pre ++ done) ++ kv :: (rest ++ flattenCs post) := by rw [F.flat]; simp
      have sx' := sx
      rw [hX] at sx'
      obtain ⟨mA, mC, _⟩ := sorted_mid sx'
      cases fuel with
      | zero => simp [findNextPatch] at hn
      | succ m =>
        cases rest with
        | nil =>
          have hif : done.length + 1 = (done ++ [kv]).length := by simp
          rw [if_pos hif] at hn
          have hkey : kv.1 = key := by
            have := F.last
            rw [getLast?_append_cons] at this
            simpa using this
          have hpk : (done ++ [kv])[done.length]?.map (·.1) = some kv.1 := by simp
          rw [hpk] at hn
          cases post with
          | nil =>
            have hl : pre.length + 1 = cs.length := by rw [hcs]; simp
            rw [hl, fnp_end] at hn
            cases hn
            refine ⟨trivial, fun p t p' t' _ h => (by cases h), ?_⟩
            intro k h1 _
            have hk : cmp kv.1 k = .lt := h1 _ _ rfl
            apply chg_none
            rw [hX]
            apply lookup_none_of_gt ol
            intro x hx
            simp [flattenCs] at hx
            rcases hx with hx | hx | hx
            · exact ol.lt_trans _ _ _ (mA x (List.mem_append_left _ hx)) hk
            · exact ol.lt_trans _ _ _ (mA x (List.mem_append_right _ hx)) hk
            · rw [hx]; exact hk
          | cons c2 post2 =>
            have hc2 : cs[pre.length + 1]? = some c2 := by rw [hcs]; simp
            rw [fnp_R' (m + 1) m cs _ c2 hc2] at hn
            cases hn
            have hls : lastKeyCs (pre ++ [(key, addr, Tree.leaf (done ++ [kv]))]) = some kv.1 := by rw [F.lsnoc, hkey]
            refine ⟨⟨rfl, Or.inl ⟨pre ++ [(key, addr, Tree.leaf (done ++ [kv]))], c2, post2, c2.2.2.size, (by rw [hcs]; simp), ?_, ?_⟩⟩, ?_, ?_⟩
            · simp [hls, hh]
            · simp [hls, hh]
            · intro p t p' t' h1 h2
              cases h1; cases h2
              simp [Patch.before, ol.refl]
            · intro k h1 h2
              have hk : cmp kv.1 k = .lt := h1 _ _ rfl
              have hs := h2 _ _ rfl
              simp [startsAfter] at hs
              exact absurd ((ol.gt_iff _ _).mpr hk) hs
        | cons kv2 rest2 =>
          have hlen : (done ++ kv :: kv2 :: rest2).length = done.length + (rest2.length + 2) := by simp
          have hif : ¬ (done.length + 1 = (done ++ kv :: kv2 :: rest2).length) := by omega
          rw [if_neg hif, advance_leaf_next _ _ (by omega)] at hn
          have hk2 : (done ++ kv :: kv2 :: rest2)[done.length + 1]? = some kv2 := by simp
          rw [fnp_P' (m + 1) m _ _ kv2 hk2] at hn
          cases hn
          have hlt : cmp kv.1 kv2.1 = .lt := mC kv2 (by simp)
          refine ⟨⟨rfl, Or.inr ⟨pre, key, addr, done ++ [kv], kv2, rest2, post, some kv.1, (by rw [hcs]; simp), ?_, rfl⟩⟩, ?_, ?_⟩
          · simp
          · intro p t p' t' h1 h2
            cases h1; cases h2
            simpa [Patch.before] using hlt
          · intro k h1 h2
            have hk : cmp kv.1 k = .lt := h1 _ _ rfl
            have hs := h2 _ _ rfl
            simp [startsAfter] at hs
            apply chg_none
            have hX2 : flattenCs cs = ((flattenCs pre ++ done) ++ [kv]) ++ (kv2 :: (rest2 ++ flattenCs post)) := by rw [hX]; simp
            have sx2 := sx
            rw [hX2] at sx2
            rw [hX2]
            apply lookup_none_split ol
            · intro x hx
              rcases List.mem_append.mp hx with hx | hx
              · exact ol.lt_trans _ _ _ (mA x hx) hk
              · simp at hx; rw [hx]; exact hk
            · intro y hy
              rcases List.mem_cons.mp hy with rfl | hy
              · exact hs
              · exact ol.lt_trans _ _ _ hs (sorted_head_lt (sorted_append_right sx2) y hy)

theorem add_split (fuel : Nat) (d : PG) (p : Patch) (t : DiffType) (d' : PG) (c' : Option (Patch × DiffType))
    (hi : AddInv cs d (.at p t)) (hlev : p.level ≠ 0) (hs : pgSplit cmp fuel d = .ok (d', c')) :
    AddInv cs d' (GenPos.ofResult c') ∧
    (∀ p' t', c' = some (p', t') → ∀ k, startsAfter cmp p k → startsAfter cmp p' k) ∧
    (∀ k, ¬ startsAfter cmp p k → (∀ p' t', c' = some (p', t') → startsAfter cmp p' k) →
      changeOf (lookupKV cmp k []) (lookupKV cmp k (flattenCs cs)) = none) := by
  obtain ⟨rfl, ⟨pre, c, post, n, hcs, rfl, rfl⟩ | ⟨pre, key, addr, done, kv, rest, post, pk, hcs, rfl, rfl⟩⟩ := hi
  · obtain ⟨kvs, F⟩ := rfacts ol wf ks sx hcs
    obtain ⟨y, ys, hy⟩ := F.ne
    have hce : c = (c.1, c.2.1, Tree.leaf (y :: ys)) := by rw [← hy, ← F.leaf]
    have hc' : cs[pre.length]? = some (c.1, c.2.1, Tree.leaf (y :: ys)) := by rw [F.hc, ← hce]
    rw [pgSplit_R fuel cs _ _ _ y ys hc'] at hs
    cases hs
    refine ⟨⟨rfl, Or.inr ⟨pre, c.1, c.2.1, [], y, ys, post, lastKeyCs pre, (by rw [hcs, List.nil_append, ← hce]), rfl, rfl⟩⟩, ?_, ?_⟩
    · intro p' t' h k hk
      cases h
      simp [startsAfter] at hk ⊢
      obtain ⟨a, ha, hka⟩ := hk
      exact le_lt_lt ol hka (F.g1 a ha y (by rw [hy]; simp))
    · intro k hns hsa
      have h2 := hsa _ _ rfl
      simp [startsAfter] at hns h2
      apply chg_none
      rw [F.flat]
      apply lookup_none_split ol
      · intro x hx
        obtain ⟨a, ha, hxa⟩ := F.g2 x hx
        exact le_lt_lt ol hxa ((ol.gt_iff _ _).mp (hns a ha))
      · intro z hz
        have s2 := F.s2
        rw [hy] at s2 hz
        rcases List.mem_cons.mp hz with rfl | hz
        · exact h2
        · exact ol.lt_trans _ _ _ h2 (sorted_head_lt s2 z hz)
  · exact absurd rfl hlev

/-- **GenSound for `empty → node cs`** (height 1) -/
theorem add_genSound (fuel : Nat) : GenSound cmp store fuel [] (flattenCs cs) (AddInv cs) :=
  ⟨add_form ol hne hh wf ks sx, add_cur ol hne hh wf ks sx,
   fun d pos d' c' hi hpos hn => add_next ol hne hh wf ks sx fuel d pos d' c' hi hpos hn,
   fun d p t d' c' hi hlev hs => add_split ol hne hh wf ks sx fuel d p t d' c' hi hlev hs⟩

end

end DoltVerif.ProllyMerge
