import DoltVerif.Lemmas.RowMergeTotal
/-! The cell-wise merger under schema mappings (C29 rowmerge_schema): TryMerge equals a
specification written by COLUMN ID, for arbitrary (type-consistent) base / left / right / result
schemas — columns added at any position, dropped, reordered.  Core Lean only. -/
namespace DoltVerif.RowMerge

/-- the cell of column `id` in a stored row of schema `sch`; outer `none` = the schema has no such column -/
def cellOf (sch : Schema) (row : Row) (id : Nat) : Option Val := (findCol sch id).map (cellAt row)

theorem hasTy_cellAt_of_get (side : Schema) (row : Row) (hrow : rowOk side row = true) (j : Nat) (d : Col)
    (hd : side[j]? = some d) : Val.hasTy (cellAt row j) d.ty = true := by
  have hj : j < side.length := by
    apply Classical.byContradiction; intro h
    have := List.getElem?_eq_none (Nat.le_of_not_lt h); rw [hd] at this; cases this
  obtain ⟨v, hv, ht⟩ := rowOk_get side row hrow j hj
  have : side[j] = d := by
    have := List.getElem?_eq_getElem hj; rw [hd] at this; cases this; rfl
  rw [this] at ht
  simpa [cellAt, hv] using ht

/-- the merged cell of result column `id` (reachable cases only: a result column that exists in
the base exists on both sides; otherwise it exists on at least one side) -/
def cellSpec (m : VM) (id : Nat) (l r : Row) (b : Option Row) : Val × Bool :=
  match b.bind (fun bb => cellOf m.baseSch bb id), cellOf m.leftSch l id, cellOf m.rightSch r id with
  | some bv, some lv, some rv => cellMerge bv lv rv
  | none, some lv, some rv => cellMergeNoBase lv rv
  | _, some lv, none => (lv, false)
  | _, none, some rv => (rv, false)
  | _, none, none => (none, false)

/-- structural facts about result column `c` -/
structure ColOk (m : VM) (c : Col) : Prop where
  s1 : findCol m.leftSch c.id = none → findCol m.rightSch c.id = none → False
  s2 : findCol m.baseSch c.id ≠ none → findCol m.leftSch c.id ≠ none ∧ findCol m.rightSch c.id ≠ none

theorem processColumn_schema (m : VM) (i : Nat) (c : Col) (hc : m.resultSch[i]? = some c)
    (hrb : Cons m.resultSch m.baseSch) (hrl : Cons m.resultSch m.leftSch) (hrr : Cons m.resultSch m.rightSch)
    (hok : ColOk m c)
    (l r : Row) (b : Option Row) (hl : rowOk m.leftSch l = true) (hr : rowOk m.rightSch r = true)
    (hb : okOpt m.baseSch b) :
    processColumn m i l r b = .ok (cellSpec m c.id l r b) := by
  have hty := colTy_of_get _ _ _ hc
  have conv : ∀ (side : Schema) (row : Row) (j : Nat) (d : Col), Cons m.resultSch side →
      rowOk side row = true → side[j]? = some d → d.id = c.id →
      convertField c.ty row j = .ok (cellAt row j) ∧ Val.hasTy (cellAt row j) c.ty = true := by
    intro side row j d hcons hrow hd hid
    have hdt : d.ty = c.ty := (hcons c (mem_of_get _ _ _ hc) _ (mem_of_get _ _ _ hd) hid.symm).symm
    refine ⟨?_, ?_⟩
    · apply convertField_total side row hrow j c.ty
      intro e he
      rw [hd] at he; cases he; exact hdt
    · rw [← hdt]; exact hasTy_cellAt_of_get side row hrow j d hd
  have hn : Val.hasTy none c.ty = true := rfl
  rcases getColumn_mapping m.resultSch m.leftSch l i c hc with ⟨fl, gl⟩ | ⟨jl, dl, fl, hdl, hidl, gl⟩ <;>
  rcases getColumn_mapping m.resultSch m.rightSch r i c hc with ⟨fr, gr⟩ | ⟨jr, dr, fr, hdr, hidr, gr⟩
  · exact absurd fr (fun h => hok.s1 fl h)
  · -- only theirs has the column: it is not a base column
    have fb : findCol m.baseSch c.id = none := by
      apply Classical.byContradiction; intro h; exact (hok.s2 h).1 fl
    obtain ⟨cr, _⟩ := conv m.rightSch r jr dr hrr hr hdr hidr
    cases b with
    | none =>
      simp [processColumn, hty, gl, gr, VM.leftMapping, VM.rightMapping, bind, Except.bind, pure, Except.pure, cr,
        cellSpec, cellOf, fl, fr]
    | some bb =>
      rcases getColumn_mapping m.resultSch m.baseSch bb i c hc with ⟨_, gb⟩ | ⟨jb, db, fb', _, _, _⟩
      · simp [processColumn, hty, gl, gr, gb, VM.leftMapping, VM.rightMapping, VM.baseMapping, bind, Except.bind,
          pure, Except.pure, cr, cellSpec, cellOf, fl, fr, fb]
      · rw [fb] at fb'; cases fb'
  · -- only ours has the column
    have fb : findCol m.baseSch c.id = none := by
      apply Classical.byContradiction; intro h; exact (hok.s2 h).2 fr
    obtain ⟨cl, _⟩ := conv m.leftSch l jl dl hrl hl hdl hidl
    cases b with
    | none =>
      simp [processColumn, hty, gl, gr, VM.leftMapping, VM.rightMapping, bind, Except.bind, pure, Except.pure, cl,
        cellSpec, cellOf, fl, fr]
    | some bb =>
      rcases getColumn_mapping m.resultSch m.baseSch bb i c hc with ⟨_, gb⟩ | ⟨jb, db, fb', _, _, _⟩
      · simp [processColumn, hty, gl, gr, gb, VM.leftMapping, VM.rightMapping, VM.baseMapping, bind, Except.bind,
          pure, Except.pure, cl, cellSpec, cellOf, fl, fr, fb]
      · rw [fb] at fb'; cases fb'
  · -- both sides have the column
    obtain ⟨cl, tl⟩ := conv m.leftSch l jl dl hrl hl hdl hidl
    obtain ⟨cr, tr⟩ := conv m.rightSch r jr dr hrr hr hdr hidr
    have noBase : ∀ bopt : Option Row,
        (∀ bb, bopt = some bb → findCol m.baseSch c.id = none ∧
          getColumn bb (mapping m.resultSch m.baseSch) i = .ok (none, none)) →
        processColumn m i l r bopt = .ok (cellSpec m c.id l r bopt) := by
      intro bopt hgb
      cases bopt with
      | none =>
        simp only [processColumn, hty, gl, gr, VM.leftMapping, VM.rightMapping, bind, Except.bind, pure, Except.pure,
          cl, cr, eqUnder_of_hasTy _ _ _ tl tr, cellSpec, cellOf, fl, fr, Option.map, Option.bind, cellMergeNoBase]
        by_cases h1 : cellAt l jl = cellAt r jr <;> simp [h1]
      | some bb =>
        obtain ⟨fb, gb⟩ := hgb bb rfl
        simp only [processColumn, hty, gl, gr, gb, VM.leftMapping, VM.rightMapping, VM.baseMapping, bind, Except.bind,
          pure, Except.pure, cl, cr, eqUnder_of_hasTy _ _ _ tl tr, cellSpec, cellOf, fl, fr, fb, Option.map, Option.bind,
          cellMergeNoBase]
        by_cases h1 : cellAt l jl = cellAt r jr <;> simp [h1]
    cases b with
    | none => exact noBase none (fun bb h => by cases h)
    | some bb =>
      have hbb := hb bb rfl
      rcases getColumn_mapping m.resultSch m.baseSch bb i c hc with ⟨fb, gb⟩ | ⟨jb, db, fb, hdb, hidb, gb⟩
      · exact noBase (some bb) (fun x h => by cases h; exact ⟨fb, gb⟩)
      · obtain ⟨cb, tb⟩ := conv m.baseSch bb jb db hrb hbb hdb hidb
        simp only [processColumn, hty, gl, gr, gb, VM.leftMapping, VM.rightMapping, VM.baseMapping, bind, Except.bind,
          pure, Except.pure, cl, cr, cb, eqUnder_of_hasTy _ _ _ tl tr, eqUnder_of_hasTy _ _ _ tr tb,
          eqUnder_of_hasTy _ _ _ tl tb, cellSpec, cellOf, fl, fr, fb, Option.map, Option.bind]
        generalize cellAt bb jb = vb at *
        generalize cellAt l jl = vl at *
        generalize cellAt r jr = vr at *
        cases vb with
        | none =>
          simp only [eqUnder_of_hasTy _ _ _ tl hn, eqUnder_of_hasTy _ _ _ tr hn, cellMerge]
          by_cases h1 : vl = vr
          · subst h1; simp
          · by_cases h2 : vl = none <;> by_cases h3 : vr = none <;> simp_all
        | some x =>
          simp only [cellMerge]
          by_cases h1 : vl = vr
          · subst h1; simp
          · by_cases h2 : vl = some x <;> by_cases h3 : vr = some x <;> simp_all

/-- base cell `bv` of base column `id`: was the column dropped by one side and the cell changed by
the other — or, when one side deleted the row, changed by the surviving side -/
def dropConflict (m : VM) (id : Nat) (bv : Val) (l r : Option Row) : Bool :=
  match l, r with
  | none, none => false
  | none, some rr => (match cellOf m.rightSch rr id with | some rv => !decide (bv = rv) | none => false)
  | some ll, none => (match cellOf m.leftSch ll id with | some lv => !decide (bv = lv) | none => false)
  | some ll, some rr =>
    (match cellOf m.leftSch ll id, cellOf m.rightSch rr id with
     | none, some rv => !decide (rv = bv)
     | some lv, none => !decide (lv = bv)
     | _, _ => false)

theorem processBaseColumn_schema (m : VM) (i : Nat) (hi : i < m.baseSch.length)
    (hbl : Cons m.baseSch m.leftSch) (hbr : Cons m.baseSch m.rightSch)
    (l r : Option Row) (bb : Row) (hbb : rowOk m.baseSch bb = true)
    (hl : okOpt m.leftSch l) (hr : okOpt m.rightSch r) :
    processBaseColumnG leftTypeSchemaInRightDeleteBranch m i l r (some bb) =
      .ok (dropConflict m (m.baseSch[i]'hi).id (cellAt bb i) l r) := by
  have hc : m.baseSch[i]? = some (m.baseSch[i]'hi) := List.getElem?_eq_getElem hi
  have conv : ∀ (side : Schema) (j : Nat) (d : Col), Cons m.baseSch side → side[j]? = some d →
      d.id = (m.baseSch[i]'hi).id →
      convertField d.ty bb i = .ok (cellAt bb i) ∧ Val.hasTy (cellAt bb i) d.ty = true := by
    intro side j d hcons hd hid
    have hdt : (m.baseSch[i]'hi).ty = d.ty := hcons _ (mem_of_get _ _ _ hc) d (mem_of_get _ _ _ hd) hid.symm
    refine ⟨?_, ?_⟩
    · apply convertField_total m.baseSch bb hbb i d.ty
      intro e he
      rw [hc] at he; cases he; exact hdt
    · rw [← hdt]; exact hasTy_cellAt_of_get m.baseSch bb hbb i _ hc
  cases l with
  | none =>
    cases r with
    | none => simp [processBaseColumnG, dropConflict]
    | some rr =>
      rcases getColumn_mapping m.baseSch m.rightSch rr i _ hc with ⟨fr, hg⟩ | ⟨j, d, fr, hd, hid, hg⟩
      · simp [processBaseColumnG, VM.baseToRight, hg, bind, Except.bind, pure, Except.pure, dropConflict, cellOf, fr]
      · obtain ⟨cv, tb⟩ := conv m.rightSch j d hbr hd hid
        have tr := hasTy_cellAt_of_get m.rightSch rr (hr rr rfl) j d hd
        have e : (rr[j]?).join = cellAt rr j := rfl
        simp [processBaseColumnG, VM.baseToRight, hg, colTy_of_get _ _ _ hd, cv, bind, Except.bind, pure,
          Except.pure, dropConflict, cellOf, fr, e, eqUnder_of_hasTy _ _ _ tb tr]
  | some ll =>
    cases r with
    | none =>
      rcases getColumn_mapping m.baseSch m.leftSch ll i _ hc with ⟨fl, hg⟩ | ⟨j, d, fl, hd, hid, hg⟩
      · simp [processBaseColumnG, VM.baseToLeft, hg, bind, Except.bind, pure, Except.pure, dropConflict, cellOf, fl]
      · obtain ⟨cv, tb⟩ := conv m.leftSch j d hbl hd hid
        have tl := hasTy_cellAt_of_get m.leftSch ll (hl ll rfl) j d hd
        have e : (ll[j]?).join = cellAt ll j := rfl
        simp [processBaseColumnG, VM.baseToLeft, hg, leftTypeSchemaInRightDeleteBranch, colTy_of_get _ _ _ hd, cv,
          bind, Except.bind, pure, Except.pure, dropConflict, cellOf, fl, e, eqUnder_of_hasTy _ _ _ tb tl]
    | some rr =>
      rcases getColumn_mapping m.baseSch m.rightSch rr i _ hc with ⟨fr, hg⟩ | ⟨j, d, fr, hd, hid, hg⟩ <;>
      rcases getColumn_mapping m.baseSch m.leftSch ll i _ hc with ⟨fl, hg'⟩ | ⟨j', d', fl, hd', hid', hg'⟩
      · simp [processBaseColumnG, VM.baseToLeft, VM.baseToRight, hg, hg', bind, Except.bind, pure, Except.pure,
          dropConflict, cellOf, fl, fr]
      · obtain ⟨cv, tb⟩ := conv m.leftSch j' d' hbl hd' hid'
        have tl := hasTy_cellAt_of_get m.leftSch ll (hl ll rfl) j' d' hd'
        have e : (ll[j']?).join = cellAt ll j' := rfl
        simp [processBaseColumnG, VM.baseToLeft, VM.baseToRight, hg, hg', colTy_of_get _ _ _ hd', cv, bind,
          Except.bind, pure, Except.pure, dropConflict, cellOf, fl, fr, e, eqUnder_of_hasTy _ _ _ tl tb]
      · obtain ⟨cv, tb⟩ := conv m.rightSch j d hbr hd hid
        have tr := hasTy_cellAt_of_get m.rightSch rr (hr rr rfl) j d hd
        have e : (rr[j]?).join = cellAt rr j := rfl
        simp [processBaseColumnG, VM.baseToLeft, VM.baseToRight, hg, hg', colTy_of_get _ _ _ hd, cv, bind,
          Except.bind, pure, Except.pure, dropConflict, cellOf, fl, fr, e, eqUnder_of_hasTy _ _ _ tr tb]
      · simp [processBaseColumnG, VM.baseToLeft, VM.baseToRight, hg, hg', bind, Except.bind, pure, Except.pure,
          dropConflict, cellOf, fl, fr]

/-- schemas of a value merger as the schema merge produces them -/
structure VMok2 (m : VM) : Prop where
  bl : Cons m.baseSch m.leftSch
  br : Cons m.baseSch m.rightSch
  rb : Cons m.resultSch m.baseSch
  rl : Cons m.resultSch m.leftSch
  rr : Cons m.resultSch m.rightSch
  cols : ∀ c, c ∈ m.resultSch → ColOk m c
  nk : m.keyless = false

/-- does some base column make the merge a conflict before any result cell is looked at -/
def dropSpec (m : VM) (l r b : Option Row) : Bool :=
  match b with
  | some bb => anySpec (fun i => match m.baseSch[i]? with
      | some c => dropConflict m c.id (cellAt bb i) l r
      | none => false) m.baseSch.length 0
  | none => false

/-- the merged row of two present rows, result column by result column; `none` = a cell conflicts -/
def rowSpecSchema (m : VM) (ll rr : Row) (b : Option Row) : Option Row :=
  colsSpec (fun i => match m.resultSch[i]? with
    | some c => cellSpec m c.id ll rr b
    | none => (none, false)) m.resultSch.length 0

/-- **TryMerge by column id.** -/
def tryMergeSpec (m : VM) (l r b : Option Row) : Option Row × Bool :=
  if dropSpec m l r b then (none, false) else
  match l, r with
  | some ll, some rr =>
    (match rowSpecSchema m ll rr b with
     | some row => (some row, true)
     | none => (none, false))
  | _, _ => (none, true)

theorem tryMerge_schema (m : VM) (h : VMok2 m) (l r b : Option Row)
    (hl : okOpt m.leftSch l) (hr : okOpt m.rightSch r) (hb : okOpt m.baseSch b)
    (hshape : (l.isSome ∧ r.isSome) ∨ (b.isSome ∧ (l.isSome ∨ r.isSome))) :
    tryMergeG leftTypeSchemaInRightDeleteBranch m l r b = .ok (tryMergeSpec m l r b) := by
  have hany : anyConflict (fun i => processBaseColumnG leftTypeSchemaInRightDeleteBranch m i l r b)
      m.baseSch.length 0 = .ok (dropSpec m l r b) := by
    cases b with
    | none =>
      rw [anyConflict_eq _ (fun _ => false) _ 0 (fun j _ _ => by simp [processBaseColumnG])]
      simp [dropSpec, anySpec_false]
    | some bb =>
      simp only [dropSpec]
      apply anyConflict_eq
      intro j _ hj
      have hj' : j < m.baseSch.length := by omega
      rw [processBaseColumn_schema m j hj' h.bl h.br l r bb (hb bb rfl) hl hr]
      simp [List.getElem?_eq_getElem hj']
  unfold tryMergeG tryMergeSpec
  simp only [h.nk, hany, bind, Except.bind, pure, Except.pure]
  cases hd : dropSpec m l r b with
  | true => simp
  | false =>
    cases l with
    | none =>
      cases r with
      | none => simp at hshape
      | some rr => cases b with
        | none => simp at hshape
        | some bb => simp
    | some ll =>
      cases r with
      | none => cases b with
        | none => simp at hshape
        | some bb => simp
      | some rr =>
        have hm := mergeCols_eq (fun i => processColumn m i ll rr b)
          (fun i => match m.resultSch[i]? with
            | some c => cellSpec m c.id ll rr b
            | none => (none, false)) m.resultSch.length 0
          (fun j _ hj => by
            have hj' : j < m.resultSch.length := by omega
            have hc := List.getElem?_eq_getElem hj'
            rw [processColumn_schema m j _ hc h.rb h.rl h.rr (h.cols _ (mem_of_get _ _ _ hc)) ll rr b
              (hl ll rfl) (hr rr rfl) hb]
            simp [hc])
        simp only [rowSpecSchema]
        cases b <;> simp [hm] <;>
          cases colsSpec (fun i => match m.resultSch[i]? with
            | some c => cellSpec m c.id ll rr _
            | none => (none, false)) m.resultSch.length 0 <;> simp

/-! ### one key under a schema change -/

/-- a stored row mapped into the result schema by column id (a column the side lacks reads NULL) -/
def projRow (result side : Schema) (row : Row) : Row :=
  result.map (fun c => ((cellOf side row c.id)).join)

theorem remapAux_eq (merged side : Schema) (row : Row) (hrow : rowOk side row = true) (cs : Schema)
    (hcons : Cons cs side) : remapAux merged row (mapping cs side) cs = .ok (projRow cs side row) := by
  induction cs with
  | nil => rfl
  | cons c cs ih =>
    have hcons' : Cons cs side := fun x hx d hd e => hcons x (List.mem_cons_of_mem _ hx) d hd e
    have hrest := ih hcons'
    simp only [mapping] at hrest
    cases hf : findCol side c.id with
    | none =>
      simp [mapping, hf, remapAux, hrest, bind, Except.bind, pure, Except.pure, projRow, cellOf]
    | some j =>
      obtain ⟨d, hd, hid⟩ := findCol_some side c.id j hf
      have hcv := convertField_total side row hrow j c.ty (fun e he => by
        rw [hd] at he; cases he
        exact (hcons c (List.mem_cons_self ..) _ (mem_of_get _ _ _ hd) hid.symm).symm)
      simp [mapping, hf, remapAux, hcv, hrest, bind, Except.bind, pure, Except.pure, projRow, cellOf]

theorem remap_eq (merged side : Schema) (row : Row) (hrow : rowOk side row = true)
    (hcons : Cons merged side) : remap merged side row = .ok (projRow merged side row) :=
  remapAux_eq merged side row hrow merged hcons

/-- the merge keeps a row of ours: unchanged bytes when ours needs no rewrite (then ours' schema IS
the result schema), else mapped into the result schema by column id -/
theorem keepLeft_eq (c : Cfg) (h : VMok2 c.vm)
    (hid : c.flags.leftNeedsRewrite = false → ∀ row, rowOk c.vm.leftSch row = true →
      projRow c.vm.resultSch c.vm.leftSch row = row)
    (l : Option Row) (hl : okOpt c.vm.leftSch l) :
    keepLeft c l = .ok (l.map (projRow c.vm.resultSch c.vm.leftSch)) := by
  cases l with
  | none => rfl
  | some row =>
    by_cases hf : c.flags.leftNeedsRewrite = true
    · simp [keepLeft, hf, h.nk, remap_eq _ _ row (hl row rfl) h.rl, bind, Except.bind, pure, Except.pure]
    · have hf' : c.flags.leftNeedsRewrite = false := by simpa using hf
      simp [keepLeft, hf', hid hf' row (hl row rfl)]

/-- **the by-column-id specification of one key** (pure cell-wise, no byte comparison): a key absent
on both sides is absent; a row only one side has (no base row) is taken, mapped into the result
schema; one side deleted the row: conflict iff the other side changed a base cell it kept; both
present: conflict iff a dropped column's cell was changed by the other side or some result cell was
changed differently by both, else the cell-wise combination.  A conflicted key keeps ours. -/
def specSchemaKey (c : Cfg) (b l r : Option Row) : Option Row × Bool :=
  let pl := l.map (projRow c.vm.resultSch c.vm.leftSch)
  let pr := r.map (projRow c.vm.resultSch c.vm.rightSch)
  match b, l, r with
  | _, none, none => (none, false)
  | none, some _, none => (pl, false)
  | none, none, some _ => (pr, false)
  | _, _, _ =>
    match tryMergeSpec c.vm l r b with
    | (mrg, true) => (mrg, false)
    | (_, false) => (pl, true)

theorem tryMergeSpec_deleted (m : VM) (l r b : Option Row) (h : l = none ∨ r = none) :
    (tryMergeSpec m l r b).1 = none := by
  unfold tryMergeSpec
  split
  · rfl
  · rcases h with rfl | rfl
    · rfl
    · cases l <;> rfl

/-- dsMatch with both sides' diffs present and no byte-equality shortcut: the model's outcome is the
by-column-id specification -/
theorem matchBoth_schema (c : Cfg) (h : VMok2 c.vm)
    (hid : c.flags.leftNeedsRewrite = false → ∀ row, rowOk c.vm.leftSch row = true →
      projRow c.vm.resultSch c.vm.leftSch row = row)
    (ld rd : DiffType) (b l r : Option Row)
    (hb : okOpt c.vm.baseSch b) (hl : okOpt c.vm.leftSch l) (hr : okOpt c.vm.rightSch r)
    (hshape : (l.isSome ∧ r.isSome) ∨ (b.isSome ∧ (l.isSome ∨ r.isSome)))
    (hnoshort : ∀ ll rr, l = some ll → r = some rr → ¬ (ld = rd ∧ rawEq ll rr = true)) :
    (matchBoth leftTypeSchemaInRightDeleteBranch c ld rd b l r).map KeyOut.obs =
      .ok (specSchemaKey c b l r) := by
  have htm := tryMerge_schema c.vm h l r b hl hr hb hshape
  have hkl := keepLeft_eq c h hid l hl
  unfold matchBoth specSchemaKey
  cases l with
  | none =>
    cases r with
    | none => simp at hshape
    | some rr =>
      cases b with
      | none => simp at hshape
      | some bb =>
        simp only [divergentDelete, htm, bind, Except.bind, pure, Except.pure]
        cases hs : tryMergeSpec c.vm none (some rr) (some bb) with
        | mk mrg ok =>
          have hm : mrg = none := by
            have := tryMergeSpec_deleted c.vm none (some rr) (some bb) (Or.inl rfl)
            rw [hs] at this; exact this
          subst hm
          cases ok <;> simp [hkl, Except.map, KeyOut.obs]
  | some ll =>
    cases r with
    | none =>
      cases b with
      | none => simp at hshape
      | some bb =>
        simp only [divergentDelete, htm, bind, Except.bind, pure, Except.pure]
        cases hs : tryMergeSpec c.vm (some ll) none (some bb) with
        | mk mrg ok =>
          have hm : mrg = none := by
            have := tryMergeSpec_deleted c.vm (some ll) none (some bb) (Or.inr rfl)
            rw [hs] at this; exact this
          subst hm
          cases ok <;> simp [hkl, Except.map, KeyOut.obs]
    | some rr =>
      have hns := hnoshort ll rr rfl rfl
      simp only [hns, if_false, htm, bind, Except.bind, pure, Except.pure]
      cases hs : tryMergeSpec c.vm (some ll) (some rr) b with
      | mk mrg ok =>
        cases b <;> cases ok <;> simp [hkl, Except.map, KeyOut.obs]

theorem takeRight_eq (c : Cfg) (h : VMok2 c.vm)
    (hid : c.flags.rightNeedsRewrite = false → ∀ row, rowOk c.vm.rightSch row = true →
      projRow c.vm.resultSch c.vm.rightSch row = row)
    (row : Row) (hr : rowOk c.vm.rightSch row = true) :
    takeRight c row = .ok (some (projRow c.vm.resultSch c.vm.rightSch row)) := by
  by_cases hf : c.flags.rightNeedsRewrite = true
  · simp [takeRight, hf, h.nk, remap_eq _ _ row hr h.rr, bind, Except.bind, pure, Except.pure]
  · have hf' : c.flags.rightNeedsRewrite = false := by simpa using hf
    simp [takeRight, hf', h.nk, hid hf' row hr]

/-- **NoRawByteAlias at one key**: wherever the differ decides by comparing stored tuple BYTES —
"theirs did not touch the row", "ours did not touch the row", "both made the same change" — the
by-column-id specification agrees (the row that is kept is the specified row).  This is exactly
what the shapes of known finding merge-reorder-rawbytes violate (byte-equal tuples under different
schemas that are different logical rows). -/
structure NoRawByteAliasKey (c : Cfg) (b l r : Option Row) : Prop where
  theirsUntouched : rowDiff c.flags.rightSchemaChange b r = .none →
    specSchemaKey c b l r = (l.map (projRow c.vm.resultSch c.vm.leftSch), false) ∧
    (rowDiff c.flags.leftSchemaChange b l = .none → l.map (projRow c.vm.resultSch c.vm.leftSch) = l)
  oursUntouched : rowDiff c.flags.rightSchemaChange b r ≠ .none →
    rowDiff c.flags.leftSchemaChange b l = .none →
    specSchemaKey c b l r = (r.map (projRow c.vm.resultSch c.vm.rightSch), false)
  convergent : ∀ ll rr, l = some ll → r = some rr →
    rowDiff c.flags.leftSchemaChange b l = rowDiff c.flags.rightSchemaChange b r → rawEq ll rr = true →
    specSchemaKey c b l r = (l, false)

/-- **rowmerge_schema_partial (one key, row path).**  For every value merger the schema merge can
produce (columns added at any position, dropped, reordered; `VMok2`), well-typed rows and a key that
is free of raw-byte aliases, the row path's outcome — merged row and conflict flag — is the
by-column-id cell-wise specification `specSchemaKey`. -/
theorem mergeKeySlow_schema_partial (c : Cfg) (h : VMok2 c.vm)
    (hidL : c.flags.leftNeedsRewrite = false → ∀ row, rowOk c.vm.leftSch row = true →
      projRow c.vm.resultSch c.vm.leftSch row = row)
    (hidR : c.flags.rightNeedsRewrite = false → ∀ row, rowOk c.vm.rightSch row = true →
      projRow c.vm.resultSch c.vm.rightSch row = row)
    (b l r : Option Row)
    (hb : okOpt c.vm.baseSch b) (hl : okOpt c.vm.leftSch l) (hr : okOpt c.vm.rightSch r)
    (na : NoRawByteAliasKey c b l r) :
    (mergeKeySlowG leftTypeSchemaInRightDeleteBranch c b l r).map KeyOut.obs =
      .ok (specSchemaKey c b l r) := by
  have hkl := keepLeft_eq c h hidL l hl
  unfold mergeKeySlowG
  by_cases hrd : rowDiff c.flags.rightSchemaChange b r = .none
  · obtain ⟨hs, hs2⟩ := na.theirsUntouched hrd
    simp only [hrd, if_true]
    cases hld : rowDiff c.flags.leftSchemaChange b l with
    | none => simp [Except.map, KeyOut.obs, hs, hs2 hld]
    | added => simp [hkl, bind, Except.bind, pure, Except.pure, Except.map, KeyOut.obs, hs]
    | modified => simp [hkl, bind, Except.bind, pure, Except.pure, Except.map, KeyOut.obs, hs]
    | removed =>
      have : l = none := by
        cases b <;> cases l <;> simp [rowDiff] at hld ⊢
        all_goals (split at hld <;> simp at hld)
      subst this
      simp [Except.map, KeyOut.obs, hs]
  · simp only [hrd, if_false]
    by_cases hld : rowDiff c.flags.leftSchemaChange b l = .none
    · have hs := na.oursUntouched hrd hld
      simp only [hld, if_true]
      cases r with
      | none => simp [Except.map, KeyOut.obs, hs]
      | some rr =>
        simp [takeRight_eq c h hidR rr (hr rr rfl), bind, Except.bind, pure, Except.pure, Except.map, KeyOut.obs, hs]
    · simp only [hld, if_false]
      by_cases hconv : ∃ ll rr, l = some ll ∧ r = some rr ∧
          rowDiff c.flags.leftSchemaChange b l = rowDiff c.flags.rightSchemaChange b r ∧ rawEq ll rr = true
      · obtain ⟨ll, rr, rfl, rfl, e1, e2⟩ := hconv
        have hs := na.convergent ll rr rfl rfl e1 e2
        simp [matchBoth, e1, e2, h.nk, Except.map, KeyOut.obs, hs]
      · by_cases hnn : l = none ∧ r = none
        · obtain ⟨rfl, rfl⟩ := hnn
          simp [matchBoth, specSchemaKey, h.nk, Except.map, KeyOut.obs]
        · have hshape : (l.isSome ∧ r.isSome) ∨ (b.isSome ∧ (l.isSome ∨ r.isSome)) := by
            cases l with
            | none =>
              cases r with
              | none => exact absurd ⟨rfl, rfl⟩ hnn
              | some rr => exact Or.inr ⟨rowDiff_removed_base _ b hld, by simp⟩
            | some ll =>
              cases r with
              | none => exact Or.inr ⟨rowDiff_removed_base _ b hrd, by simp⟩
              | some rr => exact Or.inl ⟨by simp, by simp⟩
          exact matchBoth_schema c h hidL _ _ b l r hb hl hr hshape
            (fun ll rr e1 e2 hc => hconv ⟨ll, rr, e1, e2, hc.1, hc.2⟩)

/-! ### the schema merge produces a `VMok2` merger -/

theorem mergeOneColumn_base_needs_theirs (a o t : Option Col) (x : Col) (fl : Flags)
    (h : mergeOneColumn a o t = .ok (some x, fl)) (ha : a ≠ none) : t ≠ none := by
  cases a <;> cases o <;> cases t <;> simp [mergeOneColumn] at h ha ⊢

theorem mergeColumnsAux_base_theirs (anc : Schema) (f : Col → Option Col × Option Col) (cols out : Schema)
    (fl : Flags) (h : mergeColumnsAux anc f cols = .ok (out, fl)) (x : Col) (hx : x ∈ out) :
    ∃ c, c ∈ cols ∧ ((f c).1 = some x ∨ (f c).2 = some x) ∧ (lookupCol anc c.id ≠ none → (f c).2 ≠ none) := by
  induction cols generalizing out fl with
  | nil => simp [mergeColumnsAux] at h; obtain ⟨rfl, _⟩ := h; simp at hx
  | cons c cs ih =>
    simp only [mergeColumnsAux, bind, Except.bind, pure, Except.pure] at h
    cases h1 : mergeOneColumn (lookupCol anc c.id) (f c).1 (f c).2 with
    | error e => simp [h1] at h
    | ok p =>
      obtain ⟨mc, f1⟩ := p
      cases h2 : mergeColumnsAux anc f cs with
      | error e => simp [h1, h2] at h
      | ok q =>
        obtain ⟨rest, f2⟩ := q
        simp [h1, h2] at h
        obtain ⟨hout, _⟩ := h
        cases mc with
        | none =>
          simp at hout; subst hout
          obtain ⟨c', hc', hp⟩ := ih rest f2 h2 hx
          exact ⟨c', List.mem_cons_of_mem _ hc', hp⟩
        | some y =>
          simp at hout; subst hout
          rcases List.mem_cons.1 hx with rfl | hx'
          · refine ⟨c, List.mem_cons_self .., ?_, fun ha => mergeOneColumn_base_needs_theirs _ _ _ _ _ h1 ha⟩
            rcases mergeOneColumn_some _ _ _ _ _ h1 with h | ⟨_, _, h''⟩
            · exact Or.inl h
            · exact Or.inr h''
          · obtain ⟨c', hc', hp⟩ := ih rest f2 h2 hx'
            exact ⟨c', List.mem_cons_of_mem _ hc', hp⟩

theorem lookupCol_ne_none_of_findCol (sch : Schema) (id : Nat) (h : findCol sch id ≠ none) :
    lookupCol sch id ≠ none := by
  intro hn
  exact h (findCol_none_of_forall sch id (lookupCol_none sch id hn))

theorem findCol_ne_none_of_lookupCol (sch : Schema) (id : Nat) (h : lookupCol sch id ≠ none) :
    findCol sch id ≠ none := by
  cases hl : lookupCol sch id with
  | none => exact absurd hl h
  | some d =>
    obtain ⟨hm, hid⟩ := lookupCol_some sch id d hl
    rw [← hid]; exact findCol_ne_none_of_mem sch d hm

/-- a base column that survives in the merged schema exists on theirs (and, by `schemaMerge_mem`, on ours) -/
theorem schemaMerge_base_col (anc ours theirs merged : Schema) (fl : Flags)
    (h : schemaMerge anc ours theirs = .ok (merged, fl)) (x : Col) (hx : x ∈ merged)
    (hb : findCol anc x.id ≠ none) : findCol ours x.id ≠ none ∧ findCol theirs x.id ≠ none := by
  have hbl := lookupCol_ne_none_of_findCol anc x.id hb
  have hmem := schemaMerge_mem anc ours theirs merged fl h x hx
  have hours : x ∈ ours := by
    rcases hmem with h1 | ⟨_, h2, _⟩
    · exact h1
    · exact absurd h2 hbl
  refine ⟨findCol_ne_none_of_mem ours x hours, ?_⟩
  unfold schemaMerge at h
  by_cases he : anc = ours ∧ anc = theirs
  · obtain ⟨e1, e2⟩ := he
    subst e1; subst e2
    exact hb
  · simp only [he, if_false, bind, Except.bind, pure, Except.pure] at h
    cases h1 : mergeColumns anc ours theirs with
    | error e => simp [h1] at h
    | ok p =>
      obtain ⟨m, f⟩ := p
      simp [h1] at h
      obtain ⟨rfl, _⟩ := h
      simp only [mergeColumns, bind, Except.bind, pure, Except.pure] at h1
      cases h2 : mergeColumnsAux anc (fun c => (some c, lookupCol theirs c.id)) ours with
      | error e => simp [h2] at h1
      | ok q =>
        obtain ⟨a, f1⟩ := q
        cases h3 : mergeColumnsAux anc (fun c => (none, some c))
            (theirs.filter (fun c => (lookupCol ours c.id).isNone)) with
        | error e => simp [h2, h3] at h1
        | ok q2 =>
          obtain ⟨b2, f2⟩ := q2
          simp [h2, h3] at h1
          obtain ⟨hm, _⟩ := h1
          subst hm
          rcases List.mem_append.1 hx with hxa | hxb
          · obtain ⟨c, hc, hp, hq⟩ := mergeColumnsAux_base_theirs _ _ _ _ _ h2 x hxa
            have hcx : c.id = x.id := by
              rcases hp with hp | hp
              · simp at hp; rw [hp]
              · simp at hp; exact (lookupCol_some theirs c.id x hp).2.symm
            have := hq (by rw [hcx]; exact hbl)
            simp at this
            rw [hcx] at this
            exact findCol_ne_none_of_lookupCol theirs x.id this
          · obtain ⟨c, hc, hp⟩ := mergeColumnsAux_mem _ _ _ _ _ h3 x hxb
            rcases hp with hp | ⟨_, hanc, hp⟩
            · simp at hp
            · simp at hp; subst hp
              exact absurd hanc hbl

/-- the schema merge of type-consistent schemas yields a `VMok2` value merger -/
theorem schemaMerge_vmok2 (anc ours theirs merged : Schema) (fl : Flags)
    (tc : TypeConsistent anc ours theirs)
    (h : schemaMerge anc ours theirs = .ok (merged, fl)) : VMok2 ⟨anc, ours, theirs, merged, false⟩ := by
  have v := schemaMerge_vmok anc ours theirs merged fl tc h
  exact ⟨v.bl, v.br, v.rb, v.rl, v.rr,
    fun c hc => ⟨v.s1 c hc, fun hb => schemaMerge_base_col anc ours theirs merged fl h c hc hb⟩, rfl⟩

end DoltVerif.RowMerge

namespace DoltVerif.RowMerge

/-! ### a side that needs no rewrite already has the result layout -/

theorem isIdentityAux_get (k : Nat) (m : List (Option Nat)) (h : isIdentityAux k m = true) (i : Nat)
    (hi : i < m.length) : m[i]? = some (some (k + i)) := by
  induction m generalizing k i with
  | nil => simp at hi
  | cons x xs ih =>
    simp only [isIdentityAux, Bool.and_eq_true, beq_iff_eq] at h
    cases i with
    | zero => simp [h.1]
    | succ j =>
      have := ih (k + 1) h.2 j (by simpa using hi)
      simp only [List.getElem?_cons_succ, this]
      congr 2; omega

/-- if the mapping result → side is the identity and both have the same number of columns, mapping a
well-typed row of the side into the result schema changes nothing -/
theorem projRow_of_identity (msch side : Schema) (hid : isIdentity (mapping msch side) = true)
    (hlen : side.length = msch.length) (row : Row) (hrow : rowOk side row = true) :
    projRow msch side row = row := by
  have hl := rowOk_length side row hrow
  apply List.ext_getElem?
  intro i
  by_cases hi : i < msch.length
  · have hm := isIdentityAux_get 0 (mapping msch side) hid i (by simpa [mapping] using hi)
    simp only [mapping_get, List.getElem?_eq_getElem hi, Option.map_some, Nat.zero_add] at hm
    have hf : findCol side (msch[i]).id = some i := by simpa using hm
    have hr : i < row.length := by omega
    simp [projRow, List.getElem?_eq_getElem hi, cellOf, hf, cellAt, List.getElem?_eq_getElem hr]
  · have h1 : (projRow msch side row).length ≤ i := by simp [projRow]; omega
    have h2 : row.length ≤ i := by omega
    simp [List.getElem?_eq_none h1, List.getElem?_eq_none h2]

theorem projRow_self (s : Schema) (hd : idsDistinct s = true) (row : Row) (hrow : rowOk s row = true) :
    projRow s s row = row := by
  have hl := rowOk_length s row hrow
  apply List.ext_getElem?
  intro i
  by_cases hi : i < s.length
  · have hf := findCol_self s hd i s[i] (List.getElem?_eq_getElem hi)
    have hr : i < row.length := by omega
    simp [projRow, List.getElem?_eq_getElem hi, cellOf, hf, cellAt, List.getElem?_eq_getElem hr]
  · have h1 : (projRow s s row).length ≤ i := by simp [projRow]; omega
    have h2 : row.length ≤ i := by omega
    simp [List.getElem?_eq_none h1, List.getElem?_eq_none h2]

/-- **hidL / hidR derived from the schema merge** -/
theorem schemaMerge_noRewrite (anc ours theirs msch : Schema) (fl : Flags)
    (ho : idsDistinct ours = true) (ht : idsDistinct theirs = true)
    (h : schemaMerge anc ours theirs = .ok (msch, fl)) :
    (fl.leftNeedsRewrite = false → ∀ row, rowOk ours row = true → projRow msch ours row = row) ∧
    (fl.rightNeedsRewrite = false → ∀ row, rowOk theirs row = true → projRow msch theirs row = row) := by
  unfold schemaMerge at h
  by_cases he : anc = ours ∧ anc = theirs
  · obtain ⟨e1, e2⟩ := he
    subst e1; subst e2
    simp [pure, Except.pure] at h
    obtain ⟨e3, _⟩ := h
    subst e3
    exact ⟨fun _ row hr => projRow_self _ ho row hr, fun _ row hr => projRow_self _ ht row hr⟩
  · simp only [he, if_false, bind, Except.bind, pure, Except.pure] at h
    cases h1 : mergeColumns anc ours theirs with
    | error e => simp [h1] at h
    | ok p =>
      obtain ⟨m, f⟩ := p
      simp [h1] at h
      obtain ⟨e1, e2⟩ := h
      subst e1; subst e2
      constructor
      · intro hf row hr
        simp only [Bool.or_eq_false_iff, Bool.not_eq_false', bne_eq_false_iff_eq] at hf
        exact projRow_of_identity m ours hf.2.1 (by simpa using congrArg List.length hf.2.2) row hr
      · intro hf row hr
        simp only [Bool.or_eq_false_iff, Bool.not_eq_false', bne_eq_false_iff_eq] at hf
        exact projRow_of_identity m theirs hf.2.1 (by simpa using congrArg List.length hf.2.2) row hr

end DoltVerif.RowMerge

namespace DoltVerif.RowMerge

/-! ### the merged schema's column set does not depend on the merge direction -/

theorem mergeColumnsAux_complete (anc : Schema) (f : Col → Option Col × Option Col) (cols out : Schema)
    (fl : Flags) (h : mergeColumnsAux anc f cols = .ok (out, fl)) (c : Col) (hc : c ∈ cols) (y : Col)
    (hy : (mergeOneColumn (lookupCol anc c.id) (f c).1 (f c).2).map Prod.fst = .ok (some y)) : y ∈ out := by
  induction cols generalizing out fl with
  | nil => simp at hc
  | cons d ds ih =>
    simp only [mergeColumnsAux, bind, Except.bind, pure, Except.pure] at h
    cases h1 : mergeOneColumn (lookupCol anc d.id) (f d).1 (f d).2 with
    | error e => simp [h1] at h
    | ok p =>
      obtain ⟨mc, f1⟩ := p
      cases h2 : mergeColumnsAux anc f ds with
      | error e => simp [h1, h2] at h
      | ok q =>
        obtain ⟨rest, f2⟩ := q
        simp [h1, h2] at h
        obtain ⟨hout, _⟩ := h
        rcases List.mem_cons.1 hc with rfl | hc'
        · rw [h1] at hy
          simp [Except.map] at hy
          subst hy
          simp at hout; subst hout; simp
        · have := ih rest f2 h2 hc'
          cases mc with
          | none => simp at hout; subst hout; exact this
          | some z => simp at hout; subst hout; exact List.mem_cons_of_mem _ this

theorem schemaMerge_complete (anc ours theirs merged : Schema) (fl : Flags)
    (tc : TypeConsistent anc ours theirs) (h : schemaMerge anc ours theirs = .ok (merged, fl)) (x : Col) :
    (x ∈ ours → (findCol anc x.id ≠ none → findCol theirs x.id ≠ none) → x ∈ merged) ∧
    (x ∈ theirs → findCol anc x.id = none → findCol ours x.id = none → x ∈ merged) := by
  unfold schemaMerge at h
  by_cases he : anc = ours ∧ anc = theirs
  · obtain ⟨e1, e2⟩ := he
    subst e1; subst e2
    simp [pure, Except.pure] at h
    obtain ⟨e3, _⟩ := h
    subst e3
    exact ⟨fun hx _ => hx, fun hx _ _ => hx⟩
  · simp only [he, if_false, bind, Except.bind, pure, Except.pure] at h
    cases h1 : mergeColumns anc ours theirs with
    | error e => simp [h1] at h
    | ok p =>
      obtain ⟨m, f⟩ := p
      simp [h1] at h
      obtain ⟨e1, _⟩ := h
      subst e1
      simp only [mergeColumns, bind, Except.bind, pure, Except.pure] at h1
      cases h2 : mergeColumnsAux anc (fun c => (some c, lookupCol theirs c.id)) ours with
      | error e => simp [h2] at h1
      | ok q =>
        obtain ⟨a, f1⟩ := q
        cases h3 : mergeColumnsAux anc (fun c => (none, some c))
            (theirs.filter (fun c => (lookupCol ours c.id).isNone)) with
        | error e => simp [h2, h3] at h1
        | ok q2 =>
          obtain ⟨b2, f2⟩ := q2
          simp [h2, h3] at h1
          obtain ⟨hm, _⟩ := h1
          subst hm
          constructor
          · intro hx hbt
            apply List.mem_append_left
            -- what mergeOneColumn returns for x
            cases ha : lookupCol anc x.id with
            | none =>
              cases ht : lookupCol theirs x.id with
              | none => exact mergeColumnsAux_complete _ _ _ _ _ h2 x hx x (by simp [ha, ht, mergeOneColumn, Except.map])
              | some t =>
                obtain ⟨htm, hti⟩ := lookupCol_some theirs x.id t ht
                have : x = t := col_ext x t hti.symm (tc.ot x hx t htm hti.symm)
                exact mergeColumnsAux_complete _ _ _ _ _ h2 x hx x (by simp [ha, ht, mergeOneColumn, Except.map, ← this])
            | some a0 =>
              obtain ⟨ham, hai⟩ := lookupCol_some anc x.id a0 ha
              have hax : a0 = x := col_ext a0 x hai (tc.bo a0 ham x hx hai)
              have hfa : findCol anc x.id ≠ none := findCol_ne_none_of_lookupCol anc x.id (by rw [ha]; simp)
              have hlt := lookupCol_ne_none_of_findCol theirs x.id (hbt hfa)
              cases ht : lookupCol theirs x.id with
              | none => exact absurd ht hlt
              | some t =>
                obtain ⟨htm, hti⟩ := lookupCol_some theirs x.id t ht
                have hxt : x = t := col_ext x t hti.symm (tc.ot x hx t htm hti.symm)
                exact mergeColumnsAux_complete _ _ _ _ _ h2 x hx x (by simp [ha, ht, mergeOneColumn, Except.map, hax, ← hxt])
          · intro hx hb ho
            apply List.mem_append_right
            have hla : lookupCol anc x.id = none := by
              cases hl : lookupCol anc x.id with
              | none => rfl
              | some d => exact absurd hb (findCol_ne_none_of_lookupCol anc x.id (by rw [hl]; simp))
            have hlo : lookupCol ours x.id = none := by
              cases hl : lookupCol ours x.id with
              | none => rfl
              | some d => exact absurd ho (findCol_ne_none_of_lookupCol ours x.id (by rw [hl]; simp))
            have hxf : x ∈ theirs.filter (fun c => (lookupCol ours c.id).isNone) := by
              simp [List.mem_filter, hx, hlo]
            exact mergeColumnsAux_complete _ _ _ _ _ h3 x hxf x (by simp [hla, mergeOneColumn, Except.map])

end DoltVerif.RowMerge

namespace DoltVerif.RowMerge

theorem TypeConsistent.swap {b o t : Schema} (tc : TypeConsistent b o t) : TypeConsistent b t o :=
  ⟨tc.bb, tc.bt, tc.bo, tc.tt, tc.ot.symm, tc.oo⟩

/-- a column id of the merged schema of one direction is a column id of the other direction's -/
theorem schemaMerge_ids_symm (anc ours theirs m1 m2 : Schema) (fl1 fl2 : Flags)
    (tc : TypeConsistent anc ours theirs)
    (h1 : schemaMerge anc ours theirs = .ok (m1, fl1)) (h2 : schemaMerge anc theirs ours = .ok (m2, fl2))
    (id : Nat) (hid : findCol m1 id ≠ none) : findCol m2 id ≠ none := by
  cases hf : findCol m1 id with
  | none => exact absurd hf hid
  | some j =>
    obtain ⟨x, hxj, hxid⟩ := findCol_some m1 id j hf
    have hxm : x ∈ m1 := mem_of_get _ _ _ hxj
    subst hxid
    have c2 := schemaMerge_complete anc theirs ours m2 fl2 tc.swap h2
    rcases schemaMerge_mem anc ours theirs m1 fl1 h1 x hxm with hxo | ⟨hxt, hanc, hours⟩
    · cases hft : findCol theirs x.id with
      | some jt =>
        obtain ⟨t, htj, htid⟩ := findCol_some theirs x.id jt hft
        have htm : t ∈ theirs := mem_of_get _ _ _ htj
        have := (c2 t).1 htm (fun _ => by rw [htid]; exact findCol_ne_none_of_mem ours x hxo)
        rw [← htid]; exact findCol_ne_none_of_mem m2 t this
      | none =>
        have hb : findCol anc x.id = none := by
          apply Classical.byContradiction; intro hb
          exact (schemaMerge_base_col anc ours theirs m1 fl1 h1 x hxm hb).2 hft
        exact findCol_ne_none_of_mem m2 x ((c2 x).2 hxo hb hft)
    · have := (c2 x).1 hxt (fun hb => absurd (findCol_none_of_forall anc x.id (lookupCol_none anc x.id hanc)) hb)
      exact findCol_ne_none_of_mem m2 x this

/-! ### the by-column-id specification is symmetric in the two sides -/

theorem cellMerge_comm (b l r : Val) : cellMerge b r l = cellMerge b l r := by
  unfold cellMerge
  by_cases h1 : l = r
  · subst h1; rfl
  · have h1' : ¬ r = l := fun e => h1 e.symm
    by_cases h2 : l = b <;> by_cases h3 : r = b <;> simp_all

theorem cellMergeNoBase_comm (l r : Val) : cellMergeNoBase r l = cellMergeNoBase l r := by
  unfold cellMergeNoBase
  by_cases h1 : l = r
  · subst h1; rfl
  · have h1' : ¬ r = l := fun e => h1 e.symm
    simp [h1, h1']

theorem cellSpec_swap (B L R M1 M2 : Schema) (k1 k2 : Bool) (id : Nat) (l r : Row) (b : Option Row) :
    cellSpec ⟨B, R, L, M2, k2⟩ id r l b = cellSpec ⟨B, L, R, M1, k1⟩ id l r b := by
  simp only [cellSpec]
  cases (b.bind fun bb => cellOf B bb id) <;> cases cellOf L l id <;> cases cellOf R r id <;>
    simp [cellMerge_comm, cellMergeNoBase_comm]

theorem dropConflict_swap (B L R M1 M2 : Schema) (k1 k2 : Bool) (id : Nat) (bv : Val) (l r : Option Row) :
    dropConflict ⟨B, R, L, M2, k2⟩ id bv r l = dropConflict ⟨B, L, R, M1, k1⟩ id bv l r := by
  cases l <;> cases r <;> simp only [dropConflict]
  rename_i ll rr
  cases cellOf L ll id <;> cases cellOf R rr id <;> rfl

theorem dropSpec_swap (B L R M1 M2 : Schema) (k1 k2 : Bool) (l r b : Option Row) :
    dropSpec ⟨B, R, L, M2, k2⟩ r l b = dropSpec ⟨B, L, R, M1, k1⟩ l r b := by
  cases b with
  | none => rfl
  | some bb =>
    simp only [dropSpec]
    congr 1
    funext i
    cases B[i]? <;> simp [dropConflict_swap B L R M1 M2 k1 k2]

end DoltVerif.RowMerge

namespace DoltVerif.RowMerge

/-- two stored rows under two result schemas are the same row as maps column id → cell -/
def RowsEqById (M1 M2 : Schema) (r1 r2 : Option Row) : Prop :=
  match r1, r2 with
  | none, none => True
  | some a, some b => ∀ id, cellOf M1 a id = cellOf M2 b id
  | _, _ => False

theorem rowSpecSchema_none_iff (m : VM) (ll rr : Row) (b : Option Row) :
    rowSpecSchema m ll rr b = none ↔ ∃ c, c ∈ m.resultSch ∧ (cellSpec m c.id ll rr b).2 = true := by
  unfold rowSpecSchema
  rw [colsSpec_none_iff]
  constructor
  · rintro ⟨j, _, hj, hc⟩
    have hj' : j < m.resultSch.length := by omega
    simp only [List.getElem?_eq_getElem hj'] at hc
    exact ⟨_, List.getElem_mem hj', hc⟩
  · rintro ⟨c, hc, hcc⟩
    obtain ⟨j, hj, rfl⟩ := List.getElem_of_mem hc
    exact ⟨j, Nat.zero_le _, by omega, by simpa [List.getElem?_eq_getElem hj] using hcc⟩

theorem rowSpecSchema_cell (m : VM) (ll rr : Row) (b : Option Row) (row : Row)
    (h : rowSpecSchema m ll rr b = some row) (id : Nat) :
    cellOf m.resultSch row id = (findCol m.resultSch id).map (fun _ => (cellSpec m id ll rr b).1) := by
  unfold rowSpecSchema at h
  obtain ⟨hl, hget⟩ := colsSpec_some_get _ _ _ _ h
  cases hf : findCol m.resultSch id with
  | none => simp [cellOf, hf]
  | some j =>
    obtain ⟨c, hc, hid⟩ := findCol_some m.resultSch id j hf
    have hj : j < m.resultSch.length := by
      apply Classical.byContradiction; intro hn
      have := List.getElem?_eq_none (Nat.le_of_not_lt hn); rw [hc] at this; cases this
    have := hget j hj
    simp only [Nat.zero_add, hc] at this
    simp [cellOf, hf, cellAt, this, hid]

theorem projRow_cell (M S : Schema) (row : Row) (id : Nat) :
    cellOf M (projRow M S row) id = (findCol M id).map (fun _ => (cellOf S row id).join) := by
  cases hf : findCol M id with
  | none => simp [cellOf, hf]
  | some j =>
    obtain ⟨c, hc, hid⟩ := findCol_some M id j hf
    simp [cellOf, hf, cellAt, projRow, hc, hid]

/-- swapping the sides: the same conflict decision, and (when merged) the same row by column id -/
theorem tryMergeSpec_swap (B L R M1 M2 : Schema)
    (hids : ∀ id, findCol M1 id ≠ none ↔ findCol M2 id ≠ none) (l r b : Option Row) :
    (tryMergeSpec ⟨B, R, L, M2, false⟩ r l b).2 = (tryMergeSpec ⟨B, L, R, M1, false⟩ l r b).2 ∧
    RowsEqById M1 M2 (tryMergeSpec ⟨B, L, R, M1, false⟩ l r b).1 (tryMergeSpec ⟨B, R, L, M2, false⟩ r l b).1 := by
  unfold tryMergeSpec
  rw [dropSpec_swap B L R M1 M2 false false l r b]
  cases dropSpec ⟨B, L, R, M1, false⟩ l r b with
  | true => simp [RowsEqById]
  | false =>
    cases l with
    | none => cases r <;> simp [RowsEqById]
    | some ll =>
      cases r with
      | none => simp [RowsEqById]
      | some rr =>
        simp only [Bool.false_eq_true, if_false]
        have hnone : rowSpecSchema ⟨B, R, L, M2, false⟩ rr ll b = none ↔
            rowSpecSchema ⟨B, L, R, M1, false⟩ ll rr b = none := by
          rw [rowSpecSchema_none_iff, rowSpecSchema_none_iff]
          constructor
          · rintro ⟨c, hc, hcc⟩
            have h2 : findCol M1 c.id ≠ none := (hids c.id).2 (findCol_ne_none_of_mem M2 c hc)
            cases hf : findCol M1 c.id with
            | none => exact absurd hf h2
            | some j =>
              obtain ⟨d, hd, hdi⟩ := findCol_some M1 c.id j hf
              refine ⟨d, mem_of_get _ _ _ hd, ?_⟩
              rw [hdi, ← cellSpec_swap B L R M1 M2 false false]; exact hcc
          · rintro ⟨c, hc, hcc⟩
            have h2 : findCol M2 c.id ≠ none := (hids c.id).1 (findCol_ne_none_of_mem M1 c hc)
            cases hf : findCol M2 c.id with
            | none => exact absurd hf h2
            | some j =>
              obtain ⟨d, hd, hdi⟩ := findCol_some M2 c.id j hf
              refine ⟨d, mem_of_get _ _ _ hd, ?_⟩
              rw [hdi, cellSpec_swap B L R M1 M2 false false]; exact hcc
        cases h1 : rowSpecSchema ⟨B, L, R, M1, false⟩ ll rr b with
        | none => simp [hnone.2 h1, RowsEqById]
        | some row1 =>
          cases h2 : rowSpecSchema ⟨B, R, L, M2, false⟩ rr ll b with
          | none => rw [hnone.1 h2] at h1; cases h1
          | some row2 =>
            refine ⟨rfl, fun id => ?_⟩
            rw [rowSpecSchema_cell _ _ _ _ _ h1 id, rowSpecSchema_cell _ _ _ _ _ h2 id,
              cellSpec_swap B L R M1 M2 false false]
            simp only []
            cases hf1 : findCol M1 id with
            | none =>
              have : findCol M2 id = none := by
                apply Classical.byContradiction; intro hn; exact ((hids id).2 hn) hf1
              simp [this]
            | some j1 =>
              cases hf2 : findCol M2 id with
              | none => exact absurd hf2 ((hids id).1 (by rw [hf1]; simp))
              | some j2 => simp

end DoltVerif.RowMerge

namespace DoltVerif.RowMerge

theorem projRow_eqById (M1 M2 S : Schema) (hids : ∀ id, findCol M1 id ≠ none ↔ findCol M2 id ≠ none) (row : Row) :
    RowsEqById M1 M2 (some (projRow M1 S row)) (some (projRow M2 S row)) := by
  intro id
  rw [projRow_cell, projRow_cell]
  cases hf1 : findCol M1 id with
  | none =>
    have : findCol M2 id = none := by
      apply Classical.byContradiction; intro hn; exact ((hids id).2 hn) hf1
    simp [this]
  | some j1 =>
    cases hf2 : findCol M2 id with
    | none => exact absurd hf2 ((hids id).1 (by rw [hf1]; simp))
    | some j2 => simp

/-- **the per-key specification under a schema change is symmetric** up to the column permutation
between the two directions' result schemas: the same keys conflict, and an unconflicted key holds the
same row as a map column id → cell -/
theorem specSchemaKey_swap (B L R M1 M2 : Schema) (fl1 fl2 : Flags)
    (hids : ∀ id, findCol M1 id ≠ none ↔ findCol M2 id ≠ none) (b l r : Option Row) :
    (specSchemaKey ⟨⟨B, R, L, M2, false⟩, fl2⟩ b r l).2 = (specSchemaKey ⟨⟨B, L, R, M1, false⟩, fl1⟩ b l r).2 ∧
    ((specSchemaKey ⟨⟨B, L, R, M1, false⟩, fl1⟩ b l r).2 = false →
      RowsEqById M1 M2 (specSchemaKey ⟨⟨B, L, R, M1, false⟩, fl1⟩ b l r).1
        (specSchemaKey ⟨⟨B, R, L, M2, false⟩, fl2⟩ b r l).1) := by
  obtain ⟨hflag, hrow⟩ := tryMergeSpec_swap B L R M1 M2 hids l r b
  cases b <;> cases l <;> cases r <;> simp only [specSchemaKey, Option.map] <;>
    first
      | (simp [RowsEqById]; done)
      | (exact ⟨rfl, fun _ => projRow_eqById M1 M2 _ hids _⟩)
      | (revert hflag hrow
         cases tryMergeSpec ⟨B, L, R, M1, false⟩ _ _ _ with
         | mk a1 k1 =>
           cases tryMergeSpec ⟨B, R, L, M2, false⟩ _ _ _ with
           | mk a2 k2 =>
             intro hflag hrow
             simp only at hflag hrow
             subst hflag
             cases k2 <;> simp_all <;> try exact projRow_eqById M1 M2 _ hids _)

end DoltVerif.RowMerge
