import DoltVerif.Model.ManFs
/-! Invariant of the ManFs protocol model (C05) and its preservation by every step of every actor. -/
namespace DoltVerif.ManFs

/-- the C05 predicate on one directory state: the manifest is absent or complete-and-synced, and every
table file it names is there -/
def GoodDir (d : Dir) : Prop :=
  (d.manifest = none ∨ ∃ m, d.manifest = some (.complete m true)) ∧ ∀ t ∈ d.specs, t ∈ d.tables

/-- the directory as it would be if exactly the first `k` pending operations had reached the disk -/
def Fs.pre (fs : Fs) (k : Nat) : Dir := fs.dur.replay (fs.pend.take k)

structure FsInv (fs : Fs) : Prop where
  coh : fs.vis = fs.dur.replay fs.pend
  good : ∀ k, GoodDir (fs.pre k)
  oldnew : ∀ k, (fs.pre k).manifest = fs.dur.manifest ∨ (fs.pre k).manifest = fs.vis.manifest

/-- no manifest rename is pending -/
def NoRen (fs : Fs) : Prop := ∀ k, (fs.pre k).manifest = fs.dur.manifest

theorem replay_append (d : Dir) (a b : List DirOp) : d.replay (a ++ b) = (d.replay a).replay b := by
  simp [Dir.replay, List.foldl_append]

theorem replay_snoc (d : Dir) (a : List DirOp) (o : DirOp) : d.replay (a ++ [o]) = (d.replay a).apply o := by
  simp [Dir.replay, List.foldl_append]

theorem FsInv.vis_good {fs : Fs} (h : FsInv fs) : GoodDir fs.vis := by
  have := h.good fs.pend.length
  simp only [Fs.pre, List.take_length] at this
  rw [h.coh]; exact this

theorem pre_op_le (fs : Fs) (o : DirOp) (k : Nat) (hk : k ≤ fs.pend.length) : (fs.op o).pre k = fs.pre k := by
  simp only [Fs.pre, Fs.op]
  rw [List.take_append_of_le_length hk]

theorem pre_op_gt (fs : Fs) (o : DirOp) (k : Nat) (hk : fs.pend.length < k) (hc : fs.vis = fs.dur.replay fs.pend) :
    (fs.op o).pre k = fs.vis.apply o := by
  simp only [Fs.pre, Fs.op]
  rw [List.take_of_length_le (by simp; omega), replay_snoc, ← hc]

theorem GoodDir.tear {d : Dir} (h : GoodDir d) : d.tear = d := by
  unfold Dir.tear
  rcases h.1 with e | ⟨m, e⟩ <;> simp [e]

theorem apply_manifest_of_not_rename (d : Dir) (o : DirOp) (h : ∀ f, o ≠ .renameMan f) : (d.apply o).manifest = d.manifest := by
  cases o with
  | renameMan f => exact absurd rfl (h f)
  | addTable n => rfl
  | unlinkTable n => rfl

/-- appending a non-rename operation whose result is good -/
theorem FsInv.op_other {fs : Fs} (h : FsInv fs) (o : DirOp) (hn : ∀ f, o ≠ .renameMan f) (hg : GoodDir (fs.vis.apply o)) :
    FsInv (fs.op o) := by
  have hm : (fs.op o).vis.manifest = fs.vis.manifest := apply_manifest_of_not_rename _ _ hn
  refine ⟨?_, ?_, ?_⟩
  · simp only [Fs.op]; rw [replay_snoc, ← h.coh]
  · intro k
    by_cases hk : k ≤ fs.pend.length
    · rw [pre_op_le fs o k hk]; exact h.good k
    · rw [pre_op_gt fs o k (by omega) h.coh]; exact hg
  · intro k
    by_cases hk : k ≤ fs.pend.length
    · rw [pre_op_le fs o k hk, hm]; exact h.oldnew k
    · rw [pre_op_gt fs o k (by omega) h.coh]; exact Or.inr rfl

theorem NoRen.op_other {fs : Fs} (hc : fs.vis = fs.dur.replay fs.pend) (h : NoRen fs) (o : DirOp) (hn : ∀ f, o ≠ .renameMan f) :
    NoRen (fs.op o) := by
  intro k
  by_cases hk : k ≤ fs.pend.length
  · rw [pre_op_le fs o k hk]; exact h k
  · rw [pre_op_gt fs o k (by omega) hc, apply_manifest_of_not_rename _ _ hn]
    have := h fs.pend.length
    simp only [Fs.pre, List.take_length, ← hc] at this
    exact this

/-- the rename of a complete, synced manifest all of whose tables are present, when no rename is pending -/
theorem FsInv.op_rename {fs : Fs} (h : FsInv fs) (hr : NoRen fs) (m : Man) (hp : ∀ t ∈ m.specs, t ∈ fs.vis.tables) :
    FsInv (fs.op (.renameMan (.complete m true))) := by
  refine ⟨?_, ?_, ?_⟩
  · simp only [Fs.op]; rw [replay_snoc, ← h.coh]
  · intro k
    by_cases hk : k ≤ fs.pend.length
    · rw [pre_op_le _ _ k hk]; exact h.good k
    · rw [pre_op_gt _ _ k (by omega) h.coh]
      exact ⟨Or.inr ⟨m, rfl⟩, by simpa [Dir.apply, Dir.specs] using hp⟩
  · intro k
    by_cases hk : k ≤ fs.pend.length
    · rw [pre_op_le _ _ k hk]; exact Or.inl (hr k)
    · rw [pre_op_gt _ _ k (by omega) h.coh]; exact Or.inr rfl

theorem FsInv.syncDir {fs : Fs} (h : FsInv fs) : FsInv fs.syncDir ∧ NoRen fs.syncDir := by
  have hg := h.vis_good
  refine ⟨⟨?_, ?_, ?_⟩, ?_⟩ <;> simp [Fs.syncDir, Fs.pre, Dir.replay, NoRen] <;> exact hg

theorem FsInv.crash {fs : Fs} (h : FsInv fs) (k : Nat) :
    FsInv { vis := fs.crashPrefix k, dur := fs.crashPrefix k, pend := [] } ∧
    NoRen { vis := fs.crashPrefix k, dur := fs.crashPrefix k, pend := [] } := by
  have hg : GoodDir (fs.crashPrefix k) := by
    have := h.good k
    simp only [Fs.pre] at this
    simp only [Fs.crashPrefix]; rw [GoodDir.tear this]; exact this
  refine ⟨⟨?_, ?_, ?_⟩, ?_⟩ <;> simp [Fs.pre, Dir.replay, NoRen] <;> exact hg

/-! ### actors -/

def Actor.holds : Actor → Bool
  | .writer w => w.pc != .idle
  | .pruner p => p.pc == .locked || p.pc == .keeping
  | _ => false

def SeenOK (d : Dir) (seen : Option Man) : Prop :=
  match seen with
  | none => d.manifest = none
  | some m => d.manifest = some (.complete m true)

structure WInv (d : Dir) (w : Writer) : Prop where
  tmp : (w.pc = .synced ∨ w.pc = .read ∨ w.pc = .compared ∨ w.pc = .validated) → w.tmp = some (.complete w.new true)
  seen : (w.pc = .read ∨ w.pc = .compared ∨ w.pc = .validated) → SeenOK d w.seen
  present : w.pc = .validated → ∀ t ∈ w.new.specs, t ∈ d.tables

/-- a pruner that has built its keep set: it covers the visible (= locked) manifest and the handle's own view -/
def PKeep (d : Dir) (p : Pruner) : Prop := (∀ t ∈ d.specs, t ∈ p.keep) ∧ ∀ t ∈ p.upstream, t ∈ p.keep

structure Inv (s : Sys) : Prop where
  fs : FsInv s.fs
  excl : ∀ a, (s.actors a).holds = true → s.lock = some a
  wr : ∀ a w, s.actors a = .writer w → WInv s.fs.vis w
  pr : ∀ a p, s.actors a = .pruner p → p.pc = .keeping → PKeep s.fs.vis p
  ren : NoRen s.fs ∨ ∃ a w, s.actors a = .writer w ∧ w.pc = .renamed

theorem inv_init : Inv Sys.init := by
  refine ⟨⟨rfl, ?_, ?_⟩, ?_, ?_, ?_, Or.inl ?_⟩
  · intro k; simp [Fs.pre, Sys.init, Fs.empty, Dir.replay, GoodDir, Dir.empty, Dir.specs]
  · intro k; simp [Fs.pre, Sys.init, Fs.empty, Dir.replay]
  · intro a h; simp [Sys.init, Actor.holds] at h
  · intro a w h; simp [Sys.init] at h
  · intro a p h; simp [Sys.init] at h
  · intro k; simp [Fs.pre, Sys.init, Fs.empty, Dir.replay]

/-- an unlink that does not take the LOCK is safe at this state: the name is not in the visible manifest and
no writer that has already passed `checkNewSpecsPresent` is about to publish it -/
def CSafe (s : Sys) (n : Name) : Prop :=
  n ∉ s.fs.vis.specs ∧ ∀ b w, s.actors b = .writer w → w.pc = .validated → n ∉ w.new.specs

/-- what a schedule must satisfy for the invariant: unlocked unlinks are safe when they happen -/
def StepSafe (s : Sys) : Step → Prop
  | .cUnlink a n => ∀ names, s.actors a = .cleaner names → names.contains n = true → CSafe s n
  -- the journal manifest's checker has no checkNewSpecsPresent: when a journal update validates, the table files it
  -- names must be there (the owning process only names files it has landed or opened itself)
  | .jw a => ∀ w, s.actors a = .writer w → w.journal = true → w.pc = .compared → ∀ t ∈ w.new.specs, t ∈ s.fs.vis.tables
  | _ => True

theorem holders_eq {s : Sys} (hi : Inv s) {a b : Nat} (ha : (s.actors a).holds = true) (hb : (s.actors b).holds = true) : a = b := by
  have := hi.excl a ha
  rw [hi.excl b hb] at this
  simpa using this.symm

/-- WInv survives a change of the directory that keeps the manifest and does not remove any table -/
theorem WInv.mono {d d' : Dir} {w : Writer} (h : WInv d w) (hm : d'.manifest = d.manifest) (ht : ∀ t ∈ d.tables, t ∈ d'.tables) :
    WInv d' w :=
  ⟨h.tmp, fun hp => by have := h.seen hp; unfold SeenOK at this ⊢; rw [hm]; exact this, fun hp t ht' => ht t (h.present hp t ht')⟩

theorem mem_apply_add (d : Dir) (n t : Name) (h : t ∈ d.tables) : t ∈ (d.apply (.addTable n)).tables := by
  simp only [Dir.apply]; split
  · exact h
  · exact List.mem_append_left _ h

theorem mem_apply_unlink (d : Dir) (n t : Name) (h : t ∈ d.tables) (hne : t ≠ n) : t ∈ (d.apply (.unlinkTable n)).tables := by
  simp only [Dir.apply, List.mem_filter]; exact ⟨h, by simpa using hne⟩

theorem specs_apply_other (d : Dir) (o : DirOp) (hn : ∀ f, o ≠ .renameMan f) : (d.apply o).specs = d.specs := by
  simp [Dir.specs, apply_manifest_of_not_rename d o hn]

theorem good_add {d : Dir} (h : GoodDir d) (n : Name) : GoodDir (d.apply (.addTable n)) :=
  ⟨by simpa [Dir.apply] using h.1, by
    intro t ht; rw [specs_apply_other _ _ (by intro f e; cases e)] at ht; exact mem_apply_add d n t (h.2 t ht)⟩

theorem good_unlink {d : Dir} (h : GoodDir d) (n : Name) (hn : n ∉ d.specs) : GoodDir (d.apply (.unlinkTable n)) :=
  ⟨by simpa [Dir.apply] using h.1, by
    intro t ht; rw [specs_apply_other _ _ (by intro f e; cases e)] at ht
    exact mem_apply_unlink d n t (h.2 t ht) (by intro e; subst e; exact hn ht)⟩

end DoltVerif.ManFs
