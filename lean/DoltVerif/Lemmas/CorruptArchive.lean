import DoltVerif.Model.CorruptArchive
import DoltVerif.Lemmas.CorruptBasic
/-! C10 helper lemmas for the archive index path: `prollyBinSearch` is panic-free on any slice,
decoded section tables, bounds of the in-memory accessors. -/
namespace DoltVerif.Corrupt.Archive
open DoltVerif.Corrupt
set_option linter.unusedSimpArgs false

theorem natAt_ok {s : List Nat} {i : Nat} (h : i < s.length) : ∃ v, natAt s i = .ok v ∧ v ∈ s := by
  unfold natAt
  have : s[i]? = some s[i] := List.getElem?_eq_getElem h
  rw [this]
  exact ⟨s[i], rfl, List.getElem_mem h⟩

theorem sub64_of_le {a b : Nat} (hba : b ≤ a) (ha : a < two64) : sub64 a b = a - b := by
  unfold sub64
  have hb : b % two64 = b := Nat.mod_eq_of_lt (by omega)
  rw [hb]
  have : a + two64 - b = (a - b) + two64 := by omega
  rw [this, Nat.add_mod_right]
  exact Nat.mod_eq_of_lt (by omega)

/-- the interpolation step: quotient exists (no `Div64` panic) and stays inside the index range -/
theorem div64_step {sh i y : Nat} (hy : 0 < y) (hsh : sh ≤ y) (hi : i < two64) :
    ∃ q, div64 (sh * i / two64) (sh * i % two64) y = .ok q ∧ q ≤ i := by
  unfold div64
  have hprod : sh * i ≤ y * i := Nat.mul_le_mul_right i hsh
  have hlt : sh * i < two64 * y := by
    calc sh * i ≤ y * i := hprod
      _ < y * two64 := Nat.mul_lt_mul_of_pos_left hi hy
      _ = two64 * y := Nat.mul_comm _ _
  have h1 : sh * i / two64 < y := Nat.div_lt_of_lt_mul hlt
  have hc : ¬ ((y == 0) = true ∨ y ≤ sh * i / two64) := by
    intro h
    rcases h with h | h
    · simp at h; omega
    · omega
  rw [if_neg hc]
  refine ⟨_, rfl, ?_⟩
  have : sh * i / two64 * two64 + sh * i % two64 = sh * i := Nat.div_add_mod' _ _
  rw [this]
  exact Nat.div_le_of_le_mul hprod

/-- the loop of `prollyBinSearch` never panics — on ANY slice, sorted or not: the code re-establishes
`lo < target ≤ hi` by explicit comparisons at every step, which bounds the interpolated index. -/
theorem pbsLoop_no_panic (s : List Nat) (target : Nat) (hs : ∀ v ∈ s, v < two64) (hlen : s.length < 2 ^ 63) :
    ∀ (fuel lft rht lo hi : Nat), rht ≤ s.length → lo < target → target ≤ hi → hi < two64 →
      pbsLoop s target fuel lft rht lo hi ≠ .error .panicWouldOccur
  | 0, lft, rht, lo, hi, _, _, _, _ => by unfold pbsLoop; intro h; cases h
  | fuel + 1, lft, rht, lo, hi, hr, hlo, hhi, hh64 => by
    unfold pbsLoop
    by_cases hlr : lft < rht
    · simp only [hlr, if_true]
      have e1 : sub64 hi lo = hi - lo := sub64_of_le (by omega) hh64
      have e2 : sub64 target lo = target - lo := sub64_of_le (by omega) (by omega)
      rw [e1, e2]
      have h263 : (2 : Nat) ^ 63 < two64 := by decide
      obtain ⟨q, hq, hqi⟩ := @div64_step (target - lo) (rht - lft - 1) (hi - lo) (by omega) (by omega) (by omega)
      simp only [bind, Except.bind, hq]
      have hq63 : ¬ q ≥ 2 ^ 63 := by omega
      simp only [hq63, if_false]
      have hidx : q + lft < s.length := by omega
      obtain ⟨v, hv, hvm⟩ := natAt_ok hidx
      simp only [hv]
      by_cases hvt : v < target
      · simp only [hvt, if_true]
        by_cases hl' : q + lft + 1 < s.length
        · simp only [hl', if_true]
          obtain ⟨lo', hlo', hlom⟩ := natAt_ok hl'
          simp only [hlo']
          by_cases hge : lo' ≥ target
          · simp only [hge, if_true, pure, Except.pure]; intro h; cases h
          · simp only [hge, if_false]
            exact pbsLoop_no_panic s target hs hlen fuel _ _ _ _ hr (by omega) hhi hh64
        · simp only [hl', if_false]
          exact pbsLoop_no_panic s target hs hlen fuel _ _ _ _ hr hlo hhi hh64
      · simp only [hvt, if_false, hv]
        exact pbsLoop_no_panic s target hs hlen fuel _ _ _ _ (by omega) hlo (by omega) (hs v hvm)
    · simp only [hlr, if_false]; intro h; cases h

theorem prollyBinSearch_no_panic (s : List Nat) (target : Nat) (hs : ∀ v ∈ s, v < two64) (hlen : s.length < 2 ^ 63) :
    prollyBinSearch s target ≠ .error .panicWouldOccur := by
  unfold prollyBinSearch
  by_cases h0 : (s.length == 0) = true
  · simp only [h0, if_true, pure, Except.pure, bind, Except.bind]; intro h; cases h
  · have hpos : 0 < s.length := by
      have : s.length ≠ 0 := by intro he; apply h0; simp [he]
      omega
    obtain ⟨lo, hlo, hlom⟩ := natAt_ok hpos
    obtain ⟨hi, hhi, hhim⟩ := natAt_ok (show s.length - 1 < s.length by omega)
    simp only [h0, if_false, bind, Except.bind, hlo, hhi, pure, Except.pure]
    by_cases ht : target > hi
    · simp only [ht, if_true]; intro h; cases h
    · simp only [ht, if_false]
      by_cases hl : lo ≥ target
      · simp only [hl, if_true]; intro h; cases h
      · simp only [hl, if_false]
        exact pbsLoop_no_panic s target hs hlen _ _ _ _ _ (Nat.le_refl _) (by omega) (by omega) (hs hi hhim)


theorem beNat_lt : ∀ l : Bytes, beNat l < 256 ^ l.length
  | [] => by simp [beNat]
  | b :: rest => by
    have ih := beNat_lt rest
    have hb : b.toNat < 256 := UInt8.toNat_lt b
    simp only [beNat, List.length_cons, Nat.pow_succ]
    have : b.toNat * 256 ^ rest.length ≤ 255 * 256 ^ rest.length := Nat.mul_le_mul_right _ (by omega)
    omega

theorem u64s_mem_lt : ∀ (n : Nat) (b : Bytes), b.length ≤ n → ∀ v ∈ u64s b, v < two64
  | 0, b, h => by
    have : b = [] := List.eq_nil_of_length_eq_zero (by omega)
    subst this; intro v hv; simp [u64s] at hv
  | n + 1, b, h => by
    match b with
    | a :: b1 :: c :: d :: e :: f :: g :: hh :: rest =>
      intro v hv
      simp only [u64s, List.mem_cons] at hv
      rcases hv with hv | hv
      · subst hv
        have := beNat_lt [a, b1, c, d, e, f, g, hh]
        simpa [two64] using this
      · exact u64s_mem_lt n rest (by simp at h; omega) v hv
    | [] => intro v hv; simp [u64s] at hv
    | [_] => intro v hv; simp [u64s] at hv
    | [_, _] => intro v hv; simp [u64s] at hv
    | [_, _, _] => intro v hv; simp [u64s] at hv
    | [_, _, _, _] => intro v hv; simp [u64s] at hv
    | [_, _, _, _, _] => intro v hv; simp [u64s] at hv
    | [_, _, _, _, _, _] => intro v hv; simp [u64s] at hv
    | [_, _, _, _, _, _, _] => intro v hv; simp [u64s] at hv

theorem u64s_length : ∀ (n : Nat) (b : Bytes), b.length = 8 * n → (u64s b).length = n
  | 0, b, h => by
    have : b = [] := List.eq_nil_of_length_eq_zero (by omega)
    subst this; simp [u64s]
  | n + 1, b, h => by
    match b, h with
    | a :: b1 :: c :: d :: e :: f :: g :: hh :: rest, h =>
      simp only [u64s, List.length_cons]
      have := u64s_length n rest (by simp at h; omega)
      omega

/-- shape of a loaded in-memory archive index -/
structure IdxWF (x : Index) : Prop where
  plen : x.prefixes.length = x.footer.chunkCount
  slen : x.suffixes.length = 12 * x.footer.chunkCount
  small : x.footer.chunkCount < two32
  pval : ∀ v ∈ x.prefixes, v < two64

theorem getSuffix_no_panic {x : Index} (w : IdxWF x) (idx : Nat) : ∃ s, x.getSuffix idx = .ok s := by
  unfold Index.getSuffix
  have hm : x.prefixes.length % two32 = x.footer.chunkCount := by rw [w.plen]; exact Nat.mod_eq_of_lt w.small
  rw [hm]
  by_cases h : idx ≥ x.footer.chunkCount
  · simp only [h, if_true]; exact ⟨_, rfl⟩
  · simp only [h, if_false]
    exact ⟨_, goSlice_ok ⟨by omega, by have := w.slen; omega⟩⟩

theorem findLoop_no_panic {x : Index} (w : IdxWF x) (pfx : Nat) (sfx : Bytes) :
    ∀ (fuel idx : Nat), ∃ r, x.findLoop pfx sfx fuel idx = .ok r
  | 0, _ => ⟨none, rfl⟩
  | fuel + 1, idx => by
    unfold Index.findLoop
    split
    · obtain ⟨s, hs⟩ := getSuffix_no_panic w idx
      simp only [bind, Except.bind, hs, pure, Except.pure]
      split
      · exact ⟨_, rfl⟩
      · exact findLoop_no_panic w pfx sfx fuel (idx + 1)
    · exact ⟨none, rfl⟩

/-- `archiveReader.has` never panics on a loaded in-memory index — including UNSORTED prefixes:
`prollyBinSearch` is safe on any slice and every accessor is bounds-checked. -/
theorem findIndex_no_panic {x : Index} (w : IdxWF x) (h : Bytes) : x.findIndex h ≠ .error .panicWouldOccur := by
  have hl : x.prefixes.length < 2 ^ 63 := by
    rw [w.plen]; exact Nat.lt_trans w.small (by decide)
  have hp := prollyBinSearch_no_panic x.prefixes (beNat (h.take 8)) w.pval hl
  unfold Index.findIndex
  cases hs : prollyBinSearch x.prefixes (beNat (h.take 8)) with
  | error e =>
    simp only [bind, Except.bind, hs]
    intro hc
    have : e = .panicWouldOccur := by injection hc
    subst this; exact hp hs
  | ok pm =>
    simp only [bind, Except.bind, pure, Except.pure, hs]
    split
    · intro hc; cases hc
    · obtain ⟨r, hr⟩ := findLoop_no_panic w (beNat (h.take 8)) (h.drop 8) (x.footer.chunkCount + 1) (pm % two32)
      rw [hr]
      intro hc; cases hc

theorem has_no_panic {x : Index} (w : IdxWF x) (h : Bytes) : x.has h ≠ .error .panicWouldOccur := by
  unfold Index.has
  have hf := findIndex_no_panic w h
  cases hr : x.findIndex h with
  | error e =>
    simp only [bind, Except.bind, hr]
    intro hc
    have : e = .panicWouldOccur := by injection hc
    subst this; exact hf hr
  | ok r =>
    simp only [bind, Except.bind, pure, Except.pure, hr]
    intro hc; cases hc

theorem be32_lt {s : Bytes} {v : Nat} (h : be32 s = .ok v) : v < two32 := by
  unfold be32 at h
  split at h
  · injection h with h; subst h
    have := beNat_lt (s.take 4)
    have hl : (s.take 4).length ≤ 4 := by simp [List.length_take]; omega
    calc beNat (s.take 4) < 256 ^ (s.take 4).length := this
      _ ≤ 256 ^ 4 := Nat.pow_le_pow_right (by decide) hl
      _ = two32 := by decide
  · cases h

theorem buildFooter_chunkCount_lt {buf : Bytes} {f : Footer} (h : buildFooter buf = .ok f) : f.chunkCount < two32 := by
  unfold buildFooter at h
  simp only [bind, Except.bind, pure, Except.pure] at h
  repeat' split at h
  all_goals (try cases h)
  all_goals (dsimp only; apply be32_lt; assumption)

theorem readSection_length {file : Bytes} {off n : Nat} {b : Bytes} (h : readSection file off n = .ok b) : b.length = n := by
  unfold readSection at h
  split at h
  · rename_i h0; injection h with h; subst h; simp at h0; simp [h0]
  · split at h
    · cases h
    · split at h
      · injection h with h; subst h; simp [List.length_take, List.length_drop]; omega
      · cases h

theorem loadIndexWith_wf {file : Bytes} {f : Footer} {x : Index} (hsmall : f.chunkCount < two32)
    (h : loadIndexWith file f = .ok x) : IdxWF x := by
  unfold loadIndexWith at h
  simp only [bind, Except.bind, pure, Except.pure] at h
  repeat' split at h
  all_goals (try cases h)
  all_goals
    rename_i x3 v3 h3 x2 v2 h2 x1 v1 h1 x0 v0 h0
    have l2 := readSection_length h2
    have l4 := readSection_length h0
    refine ⟨?_, ?_, hsmall, ?_⟩
    · show (u64s v2).length = f.chunkCount
      exact u64s_length _ _ (by rw [l2]; omega)
    · show v0.length = 12 * f.chunkCount
      omega
    · show ∀ v ∈ u64s v2, v < two64
      exact u64s_mem_lt _ _ (Nat.le_refl _)

theorem loadIndex_wf {file : Bytes} {x : Index} (h : loadIndex file = .ok x) : IdxWF x := by
  unfold loadIndex at h
  cases hf : loadFooter file with
  | error e => simp only [bind, Except.bind, hf] at h; cases h
  | ok f =>
    simp only [bind, Except.bind, hf] at h
    have hs : f.chunkCount < two32 := by
      unfold loadFooter at hf
      split at hf
      · cases hf
      · exact buildFooter_chunkCount_lt hf
    exact loadIndexWith_wf hs h


end DoltVerif.Corrupt.Archive
