/-
Tree level of C12: `ApplyMutations` on a canonical tree returns the canonical tree of the edited
content (under the NoOverflowBoundary hypothesis), incl. growing and shrinking height.
-/
import DoltVerif.Lemmas.TreeLevels
namespace DoltVerif.Prolly
open DoltVerif.SortedDict

variable {σ κ ν : Type} [Inhabited κ]

/-- a single item at an internal level is one node (true when the level is not a leaf level and
the item fits the capacity, see `singleOk_of`) -/
def SingleOk (C : Cfg σ κ ν) : Prop := ∀ (n : Nat) (x : ItemH κ ν (n+1)), (C (n+1)).chunk [x] = [[x]]

theorem singleOk_of (C : Cfg σ κ ν) (hleaf : ∀ n, (C (n+1)).leaf = false)
    (hfit : ∀ n (x : ItemH κ ν (n+1)), (C (n+1)).weight x ≤ (C (n+1)).cap) : SingleOk C := by
  intro n x
  have hov : (C (n+1)).overflow [] x = false := by
    simp [LevelCfg.overflow, LevelCfg.size]; exact hfit n x
  simp [LevelCfg.chunk, LevelCfg.feed, LevelCfg.stepItem, LevelCfg.fresh, hov, LevelCfg.degenerate, hleaf n,
    St.flush]

theorem lvl_flatten (C : Cfg σ κ ν) (n : Nat) (X : List (κ × ν)) :
    (lvl C n X).flatten = levelItems C n X := by
  rw [lvl_eq_chunk]; exact (C n).chunk_flatten _

/-- what `rootOf` returns on the levels of a content: the single node of the first level that has
one node, unstripped -/
theorem rootOf_top (C : Cfg σ κ ν) (X : List (κ × ν)) : ∀ (f n : Nat) (t : Tree κ ν),
    (n = 0 ∨ 2 ≤ (levelItems C n X).length) → lvl C n X ≠ [] →
    rootOf C f n (lvl C n X) = .ok t → lvl C t.height X = [t.root]
  | f, n, t, hn, hne, h => by
    cases hl : lvl C n X with
    | nil => exact absurd hl hne
    | cons c rest =>
      cases rest with
      | nil =>
        rw [hl] at h
        have ht : t = canonical n c := by
          cases f <;> simp [rootOf] at h <;> exact h.symm
        have hc : c = levelItems C n X := by
          have := lvl_flatten C n X; rw [hl] at this; simpa using this
        cases n with
        | zero => subst ht; exact hl
        | succ k =>
          have hlen : 2 ≤ c.length := by
            rcases hn with hn | hn
            · cases hn
            · rw [hc]; exact hn
          have hcan : canonical (k+1) c = ⟨k+1, c⟩ := by
            match c, hlen with
            | a :: b :: r, _ => rfl
          rw [hcan] at ht; subst ht; exact hl
      | cons c₂ cs =>
        rw [hl] at h
        cases f with
        | zero => simp [rootOf] at h
        | succ f =>
          simp only [rootOf] at h
          split at h
          · cases h
          · have hitems : (c :: c₂ :: cs).map (summary n) = levelItems C (n+1) X := by
              show _ = (lvl C n X).map (summary n); rw [hl]
            rw [hitems] at h
            have hlv : (C (n+1)).chunk (levelItems C (n+1) X) = lvl C (n+1) X := (lvl_eq_chunk C (n+1) X).symm
            rw [hlv] at h
            have hlen2 : 2 ≤ (levelItems C (n+1) X).length := by
              rw [← hitems]; simp
            have hne' : lvl C (n+1) X ≠ [] := by
              intro h0
              have := lvl_flatten C (n+1) X
              rw [h0] at this
              rw [← this] at hlen2; simp at hlen2
            exact rootOf_top C X f (n+1) t (Or.inr hlen2) hne' h

/-- going one level down does not change what `rootOf` finds -/
theorem rootOf_down (C : Cfg σ κ ν) (hs : SingleOk C) (X : List (κ × ν)) (f n : Nat) (b : Tree κ ν)
    (hok : (C (n+1)).chunkOk (levelItems C (n+1) X) = true)
    (h : rootOf C f (n+1) (lvl C (n+1) X) = .ok b) : ∃ f', rootOf C f' n (lvl C n X) = .ok b := by
  have hup : lvl C (n+1) X = (C (n+1)).chunk ((lvl C n X).map (summary n)) := rfl
  cases hl : lvl C n X with
  | nil =>
    rw [hup, hl] at h
    have hb : b = ⟨0, []⟩ := by
      have : (C (n+1)).chunk ([] : List (ItemH κ ν (n+1))) = [] := by
        simp [LevelCfg.chunk, LevelCfg.feed, St.flush, LevelCfg.fresh]
      simp only [List.map_nil, this] at h
      cases f <;> simp [rootOf] at h <;> exact h.symm
    exact ⟨0, by rw [hb]; simp [rootOf]⟩
  | cons c rest =>
    cases rest with
    | nil =>
      rw [hup, hl] at h
      simp only [List.map_cons, List.map_nil, hs n (summary n c)] at h
      have hb : b = canonical n c := by
        cases f <;> simp [rootOf, canonical, childOf_summary] at h <;> exact h.symm
      exact ⟨0, by rw [hb]; simp [rootOf]⟩
    | cons c₂ cs =>
      refine ⟨f + 1, ?_⟩
      have hitems : (c :: c₂ :: cs).map (summary n) = levelItems C (n+1) X := by
        show _ = (lvl C n X).map (summary n); rw [hl]
      simp only [rootOf, hitems, hok, Bool.not_true, Bool.false_eq_true, if_false]
      have hlv : (C (n+1)).chunk (levelItems C (n+1) X) = lvl C (n+1) X := (lvl_eq_chunk C (n+1) X).symm
      rw [hlv]; exact h

theorem rootOf_to_zero (C : Cfg σ κ ν) (hs : SingleOk C) (X : List (κ × ν))
    (hok : ∀ n, (C n).chunkOk (levelItems C n X) = true) : ∀ (n f : Nat) (b : Tree κ ν),
    rootOf C f n (lvl C n X) = .ok b → ∃ f', rootOf C f' 0 (lvl C 0 X) = .ok b
  | 0, f, b, h => ⟨f, h⟩
  | n+1, f, b, h => by
    obtain ⟨f', h'⟩ := rootOf_down C hs X f n b (hok (n+1)) h
    exact rootOf_to_zero C hs X hok n f' b h'

theorem build_eq_rootOf (C : Cfg σ κ ν) (X : List (κ × ν)) (t : Tree κ ν) (h : build C X = .ok t) :
    rootOf C (X.length + 2) 0 (lvl C 0 X) = .ok t := by
  unfold build at h
  split at h
  · cases h
  · exact h

theorem incr_single_dirty {α : Type} (L : LevelCfg σ α) (r : Region α) (hd : r.dirty = true) :
    (L.incr L.fresh [r]).flatMap Out.chunks = L.chunk r.new := by
  rw [L.incr_fresh_last _ _ (by simp [hd])]
  simp [Out.chunks, LevelCfg.chunk_eq]

variable [BEq κ] [BEq ν] [LawfulBEq κ] [LawfulBEq ν]

/-- on success, `applyMutations` is `rootOf` over the nodes its top-level chunker left -/
theorem applyMutations_ok (C : Cfg σ κ ν) (cmp : κ → κ → Ordering) (h : Nat) (root : NodeH κ ν h)
    (es : Edits κ ν) (hes : es ≠ []) (t1 : Tree κ ν)
    (h1 : applyMutations C cmp ⟨h, root⟩ es = .ok t1) :
    ∃ f, rootOf C f h (((C h).incr (C h).fresh (regionsAt C cmp h [root] es)).flatMap Out.chunks) = .ok t1 := by
  unfold applyMutations at h1
  have hemp : es.isEmpty = false := by cases es <;> simp_all
  simp only [hemp, Bool.false_eq_true, if_false] at h1
  split at h1
  · cases h1
  · exact ⟨_, h1⟩

/-- **`ApplyMutations` on a canonical tree is canonical** (partial: under `MutHyp` incl.
NoOverflowBoundary, no panic on the edited content, and on the success path of both sides). -/
theorem mutate_canonical_core {C : Cfg σ κ ν} {cmp : κ → κ → Ordering} {X : List (κ × ν)} {es : Edits κ ν}
    (H : MutHyp C cmp X es) (hs : SingleOk C)
    (hok' : ∀ n, (C n).chunkOk (levelItems C n (applyEdits cmp X es)) = true)
    (t t1 t2 : Tree κ ν) (hb : build C X = .ok t)
    (h1 : applyMutations C cmp t es = .ok t1) (h2 : build C (applyEdits cmp X es) = .ok t2) : t1 = t2 := by
  by_cases hes : es = []
  · subst hes
    have : applyMutations C cmp t [] = .ok t := by simp [applyMutations]
    rw [this] at h1
    have hX : applyEdits cmp X [] = X := rfl
    rw [hX, hb] at h2
    cases h1; cases h2; rfl
  · -- the old root is the single node of its level
    have hne0 : lvl C 0 X ≠ [] := by
      intro h0
      have := lvl_flatten C 0 X
      rw [h0] at this
      exact H.nonempty this.symm
    have htop := rootOf_top C X _ 0 t (Or.inl rfl) hne0 (build_eq_rootOf C X t hb)
    obtain ⟨h, root⟩ := t
    simp only at htop
    obtain ⟨f, hf⟩ := applyMutations_ok C cmp h root es hes t1 h1
    rw [← htop, levels_canonical H h] at hf
    obtain ⟨f0, hf0⟩ := rootOf_to_zero C hs _ hok' h f t1 hf
    exact rootOf_fuel C _ _ 0 _ t1 t2 hf0 (build_eq_rootOf C _ t2 h2)

/-- the same from the empty tree (the first batch of a from-empty history) -/
theorem mutate_canonical_empty {C : Cfg σ κ ν} {cmp : κ → κ → Ordering} {es : Edits κ ν} (hs : SingleOk C)
    (hok' : ∀ n, (C n).chunkOk (levelItems C n (applyEdits cmp [] es)) = true)
    (t1 t2 : Tree κ ν)
    (h1 : applyMutations C cmp ⟨0, []⟩ es = .ok t1) (h2 : build C (applyEdits cmp [] es) = .ok t2) : t1 = t2 := by
  by_cases hes : es = []
  · subst hes
    have : applyMutations C cmp (⟨0, []⟩ : Tree κ ν) [] = .ok ⟨0, []⟩ := by simp [applyMutations]
    rw [this] at h1
    have h2' : build C ([] : List (κ × ν)) = .ok t2 := h2
    have hb : build C ([] : List (κ × ν)) = .ok ⟨0, []⟩ := by
      simp [build, LevelCfg.chunkOk, LevelCfg.feedOk, LevelCfg.chunk, LevelCfg.feed, St.flush, LevelCfg.fresh, rootOf]
    rw [hb] at h2'
    cases h1; cases h2'; rfl
  · obtain ⟨f, hf⟩ := applyMutations_ok C cmp 0 [] es hes t1 h1
    have hemp : es.isEmpty = false := by cases es <;> simp_all
    have hr : ∃ r : Region (ItemH κ ν 0), regionsAt C cmp 0 [([] : NodeH κ ν 0)] es = [r] ∧ r.dirty = true ∧
        r.new = applyEdits cmp [] es :=
      ⟨_, rfl, by show (((!false && !es.isEmpty) || _) || !true) = true; simp [hemp], rfl⟩
    obtain ⟨r, hr1, hr2, hr3⟩ := hr
    have hchunks : ((C 0).incr (C 0).fresh (regionsAt C cmp 0 [([] : NodeH κ ν 0)] es)).flatMap Out.chunks
        = lvl C 0 (applyEdits cmp [] es) := by
      rw [hr1, incr_single_dirty (C 0) r hr2, hr3]; rfl
    rw [hchunks] at hf
    exact rootOf_fuel C _ _ 0 _ t1 t2 hf (build_eq_rootOf C _ t2 h2)

end DoltVerif.Prolly
