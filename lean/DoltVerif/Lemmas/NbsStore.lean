import DoltVerif.Model.NbsStore
namespace DoltVerif.NbsStore
open DoltVerif.NbsFiles (Addr)

theorem lookup_isSome_iff (l : List (Addr × Bytes)) (a : Addr) : (l.lookup a).isSome ↔ a ∈ l.map (·.1) := by
  induction l with
  | nil => simp
  | cons x xs ih =>
    obtain ⟨k, v⟩ := x
    by_cases h : a = k
    · subst h; simp [List.lookup]
    · have : (a == k) = false := by simp [h]
      simp [List.lookup, this, ih, h]

theorem lookup_mem (l : List (Addr × Bytes)) (a : Addr) (d : Bytes) (h : l.lookup a = some d) : (a, d) ∈ l := by
  induction l with
  | nil => simp at h
  | cons x xs ih =>
    obtain ⟨k, v⟩ := x
    by_cases hk : a = k
    · subst hk; simp [List.lookup] at h; simp [h]
    · have : (a == k) = false := by simp [hk]
      simp [List.lookup, this] at h
      exact List.mem_cons_of_mem _ (ih h)

theorem chainGet_eq (ss : List Source) (a : Addr) : chainGet ss a = ss.flatten.lookup a := by
  induction ss with
  | nil => rfl
  | cons s ss ih =>
    simp only [chainGet, List.flatten_cons, List.lookup_append, Source.get, ih]
    cases s.lookup a <;> simp

theorem chainHas_eq (ss : List Source) (a : Addr) : chainHas ss a = (chainGet ss a).isSome := by
  induction ss with
  | nil => rfl
  | cons s ss ih =>
    simp only [chainHas, chainGet, Source.has, Source.get, ih]
    cases s.lookup a <;> simp

/-- `Get` is the abstract map -/
theorem get_eq_abs (s : Store) (a : Addr) : s.get a = s.abs a := chainGet_eq _ _

/-- `Has` agrees with `Get` -/
theorem has_eq_abs (s : Store) (a : Addr) : s.has a = (s.abs a).isSome := by
  unfold Store.has; rw [chainHas_eq]; exact congrArg _ (chainGet_eq _ _)

theorem srcGetMany_flags (src : Source) : ∀ reqs, (srcGetMany src reqs).1 = reqs.map (fun r => (r.1, r.2 || src.has r.1))
  | [] => rfl
  | (a, f) :: rest => by
    simp only [srcGetMany, List.map_cons]
    cases f with
    | true => simp [srcGetMany_flags src rest]
    | false =>
      cases h : src.get a with
      | none =>
        have hh : src.has a = false := by unfold Source.has; unfold Source.get at h; rw [h]; rfl
        simp [srcGetMany_flags src rest, hh, h]
      | some d =>
        have hh : src.has a = true := by unfold Source.has; unfold Source.get at h; rw [h]; rfl
        simp [srcGetMany_flags src rest, hh, h]

theorem srcGetMany_delivered (src : Source) : ∀ reqs,
    (srcGetMany src reqs).2 = reqs.filterMap (fun r => if r.2 then none else (src.get r.1).map (fun d => (r.1, d)))
  | [] => rfl
  | (a, f) :: rest => by
    simp only [srcGetMany, List.filterMap_cons]
    cases f with
    | true => simp [srcGetMany_delivered src rest]
    | false =>
      cases h : src.get a with
      | none => simp [srcGetMany_delivered src rest]
      | some d => simp [srcGetMany_delivered src rest]

theorem chainGetMany_mem : ∀ (ss : List Source) (reqs : List (Addr × Bool)) (p : Addr × Bytes),
    p ∈ chainGetMany ss reqs ↔ (p.1, false) ∈ reqs ∧ chainGet ss p.1 = some p.2
  | [], reqs, p => by simp [chainGetMany, chainGet]
  | s :: ss, reqs, p => by
    obtain ⟨a, d⟩ := p
    simp only [chainGetMany, List.mem_append, chainGetMany_mem ss _ (a, d), srcGetMany_flags, srcGetMany_delivered,
      List.mem_filterMap, List.mem_map, chainGet]
    constructor
    · rintro (⟨⟨a', f⟩, hr, hv⟩ | ⟨⟨⟨a', f⟩, hr, he⟩, hg⟩)
      · cases f with
        | true => simp at hv
        | false =>
          simp only [Bool.false_eq_true, if_false, Option.map_eq_some_iff] at hv
          obtain ⟨d', hd', he⟩ := hv
          simp only [Prod.mk.injEq] at he
          obtain ⟨rfl, rfl⟩ := he
          exact ⟨hr, by simp [hd']⟩
      · simp only [Prod.mk.injEq, Bool.or_eq_false_iff] at he
        obtain ⟨rfl, rfl, hh⟩ := he
        have : s.get a' = none := by
          simp only [Source.has, Source.get] at hh ⊢
          cases h : s.lookup a' <;> simp_all
        exact ⟨hr, by simp [this, hg]⟩
    · rintro ⟨hr, hg⟩
      cases h : s.get a with
      | some d' =>
        simp only [h, Option.some.injEq] at hg
        subst hg
        exact Or.inl ⟨(a, false), hr, by simp [h]⟩
      | none =>
        simp only [h] at hg
        have hh : s.has a = false := by unfold Source.has; unfold Source.get at h; rw [h]; rfl
        exact Or.inr ⟨⟨(a, false), hr, by simp [hh]⟩, hg⟩

/-- `GetMany` delivers exactly the requested addresses the abstract map holds, with its bytes -/
theorem getMany_spec (s : Store) (as : List Addr) (p : Addr × Bytes) :
    p ∈ s.getMany as ↔ p.1 ∈ as ∧ s.abs p.1 = some p.2 := by
  unfold Store.getMany
  rw [chainGetMany_mem, ← get_eq_abs]
  simp [Store.get]

theorem srcHasMany_eq (src : Source) : ∀ reqs, srcHasMany src reqs = reqs.map (fun r => (r.1, r.2 || src.has r.1))
  | [] => rfl
  | (a, f) :: rest => by simp [srcHasMany, srcHasMany_eq src rest]

theorem chainHasMany_eq : ∀ (ss : List Source) (reqs : List (Addr × Bool)),
    chainHasMany ss reqs = reqs.map (fun r => (r.1, r.2 || chainHas ss r.1))
  | [], reqs => by simp [chainHasMany, chainHas]
  | s :: ss, reqs => by
    simp [chainHasMany, chainHasMany_eq ss, srcHasMany_eq, chainHas, List.map_map, Function.comp_def, Bool.or_assoc]

/-- `HasMany` reports exactly the requested addresses the abstract map does not hold -/
theorem hasMany_spec (s : Store) (as : List Addr) : s.hasMany as = as.filter (fun a => (s.abs a).isNone) := by
  unfold Store.hasMany
  rw [chainHasMany_eq]
  simp only [List.map_map, List.filter_map, Function.comp_def, Bool.false_or]
  simp only [List.map_id']
  congr 1
  funext a
  have := has_eq_abs s a
  unfold Store.has at this
  simp only [this]
  cases s.abs a <;> rfl

/-! ### histories -/

def Store.keys (s : Store) : List Addr := s.entries.map (·.1)

theorem abs_isSome_iff (s : Store) (a : Addr) : (s.abs a).isSome ↔ a ∈ s.keys := lookup_isSome_iff _ _

theorem abs_mem (s : Store) (a : Addr) (d : Bytes) (h : s.abs a = some d) : (a, d) ∈ s.entries := lookup_mem _ _ _ h

theorem put_entries (s : Store) (a : Addr) (d : Bytes) :
    (∀ e, e ∈ (s.put a d).entries → e ∈ s.entries ∨ e = (a, d)) ∧
    (∀ k, k ∈ (s.put a d).keys ↔ k ∈ s.keys ∨ k = a) := by
  unfold Store.put
  by_cases h : s.mem.has a = true
  · simp only [h, if_true]
    refine ⟨fun e he => Or.inl he, fun k => ⟨Or.inl, ?_⟩⟩
    rintro (hk | rfl)
    · exact hk
    · have : k ∈ s.mem.map (·.1) := (lookup_isSome_iff s.mem k).mp (by simpa [Source.has] using h)
      simp only [Store.keys, Store.entries, Store.chain, List.flatten_cons, List.map_append, List.mem_append]
      exact Or.inl this
  · simp only [h, Bool.false_eq_true, if_false]
    constructor
    · intro e he
      simp only [Store.entries, Store.chain, List.flatten_cons, List.mem_append, List.mem_singleton] at he ⊢
      rcases he with (h1 | h1) | h1
      · exact Or.inl (Or.inl h1)
      · exact Or.inr h1
      · exact Or.inl (Or.inr h1)
    · intro k
      simp only [Store.keys, Store.entries, Store.chain, List.flatten_cons, List.map_append, List.mem_append,
        List.map_cons, List.map_nil, List.mem_singleton]
      constructor
      · rintro ((h1 | h1) | h1)
        · exact Or.inl (Or.inl h1)
        · exact Or.inr h1
        · exact Or.inl (Or.inr h1)
      · rintro ((h1 | h1) | h1)
        · exact Or.inl (Or.inl h1)
        · exact Or.inr h1
        · exact Or.inl (Or.inr h1)

theorem flush_entries (s : Store) :
    (∀ e, e ∈ s.flush.entries → e ∈ s.entries) ∧ (∀ k, k ∈ s.flush.keys ↔ k ∈ s.keys) := by
  have hE : s.flush.entries = s.mem.filter (fun e => !chainHas (s.novel ++ s.upstream) e.1) ++ (s.novel ++ s.upstream).flatten := by
    simp [Store.flush, Store.entries, Store.chain]
  have hS : s.entries = s.mem ++ (s.novel ++ s.upstream).flatten := by
    simp [Store.entries, Store.chain]
  constructor
  · intro e he
    rw [hE] at he; rw [hS]
    rcases List.mem_append.mp he with h | h
    · exact List.mem_append_left _ (List.mem_filter.mp h).1
    · exact List.mem_append_right _ h
  · intro k
    simp only [Store.keys, hE, hS, List.map_append, List.mem_append]
    constructor
    · rintro (h | h)
      · obtain ⟨e, he, rfl⟩ := List.mem_map.mp h
        exact Or.inl (List.mem_map.mpr ⟨e, (List.mem_filter.mp he).1, rfl⟩)
      · exact Or.inr h
    · rintro (h | h)
      · obtain ⟨e, he, rfl⟩ := List.mem_map.mp h
        by_cases hc : chainHas (s.novel ++ s.upstream) e.1 = true
        · right
          rw [chainHas_eq, chainGet_eq] at hc
          exact (lookup_isSome_iff _ _).mp hc
        · left
          exact List.mem_map.mpr ⟨e, List.mem_filter.mpr ⟨he, by simp [hc]⟩, rfl⟩
      · exact Or.inr h

theorem reopen_entries (s : Store) : s.reopen.entries = s.flush.entries := by
  simp [Store.reopen, Store.flush, Store.entries, Store.chain]

theorem foldl_inv : ∀ (ops : List Op) (s0 : Store),
    (∀ e, e ∈ (ops.foldl Store.apply s0).entries → e ∈ s0.entries ∨ e ∈ written ops) ∧
    (∀ k, k ∈ (ops.foldl Store.apply s0).keys ↔ k ∈ s0.keys ∨ k ∈ (written ops).map (·.1))
  | [], s0 => by simp [written]
  | op :: rest, s0 => by
    obtain ⟨ih1, ih2⟩ := foldl_inv rest (s0.apply op)
    simp only [List.foldl_cons]
    cases op with
    | put a d =>
      obtain ⟨p1, p2⟩ := put_entries s0 a d
      constructor
      · intro e he
        rcases ih1 e he with h | h
        · rcases p1 e h with h | h
          · exact Or.inl h
          · exact Or.inr (by rw [h]; exact List.mem_cons_self ..)
        · exact Or.inr (List.mem_cons_of_mem _ h)
      · intro k
        rw [ih2 k]
        simp only [Store.apply, p2 k, written, List.map_cons, List.mem_cons]
        constructor
        · rintro ((h | h) | h)
          · exact Or.inl h
          · exact Or.inr (Or.inl h)
          · exact Or.inr (Or.inr h)
        · rintro (h | h | h)
          · exact Or.inl (Or.inl h)
          · exact Or.inl (Or.inr h)
          · exact Or.inr h
    | commit =>
      obtain ⟨f1, f2⟩ := flush_entries s0
      constructor
      · intro e he
        rcases ih1 e he with h | h
        · exact Or.inl (f1 e h)
        · exact Or.inr h
      · intro k
        rw [ih2 k]
        simp only [Store.apply, f2 k, written]
    | reopen =>
      obtain ⟨f1, f2⟩ := flush_entries s0
      have hk : ∀ k, k ∈ s0.reopen.keys ↔ k ∈ s0.keys := by
        intro k; unfold Store.keys; rw [reopen_entries]; exact f2 k
      constructor
      · intro e he
        rcases ih1 e he with h | h
        · exact Or.inl (f1 e (by simpa [Store.apply, reopen_entries] using h))
        · exact Or.inr h
      · intro k
        rw [ih2 k]
        simp only [Store.apply, hk k, written]

/-- present iff written (no garbage collection in this model) -/
theorem store_present_iff_written (ops : List Op) (a : Addr) :
    ((run ops).abs a).isSome ↔ a ∈ (written ops).map (·.1) := by
  rw [abs_isSome_iff]
  have := (foldl_inv ops ⟨[], [], []⟩).2 a
  simpa [run, Store.keys, Store.entries, Store.chain] using this

/-- whatever a read returns was written under that very address … -/
theorem store_returns_written (ops : List Op) (a : Addr) (d : Bytes) (h : (run ops).abs a = some d) :
    (a, d) ∈ written ops := by
  rcases (foldl_inv ops ⟨[], [], []⟩).1 (a, d) (abs_mem _ _ _ h) with h | h
  · simp [Store.entries, Store.chain] at h
  · exact h

/-- … hence content-addressed, if the writes were -/
theorem store_content_addressed (H : Bytes → Addr) (ops : List Op) (hw : ∀ e ∈ written ops, H e.2 = e.1)
    (a : Addr) (d : Bytes) (h : (run ops).get a = some d) : H d = a := by
  rw [get_eq_abs] at h
  exact hw (a, d) (store_returns_written ops a d h)

/-! ### generational -/

theorem gen_get_eq_abs (g : Gen) (a : Addr) : g.get a = g.abs a := by
  simp [Gen.get, Gen.abs, get_eq_abs]

theorem gen_has_eq_abs (g : Gen) (a : Addr) : g.has a = (g.abs a).isSome := by
  simp only [Gen.has, Gen.abs, has_eq_abs]
  cases g.old.abs a <;> simp

theorem gen_hasMany_spec (g : Gen) (as : List Addr) : g.hasMany as = as.filter (fun a => (g.abs a).isNone) := by
  simp only [Gen.hasMany, hasMany_spec, List.filter_filter, Gen.abs]
  congr 1
  funext a
  cases g.old.abs a <;> cases g.new.abs a <;> rfl

end DoltVerif.NbsStore
