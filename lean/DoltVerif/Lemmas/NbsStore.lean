import DoltVerif.Model.NbsStore
namespace DoltVerif.NbsStore
open DoltVerif.NbsFiles (Addr)

theorem lookup_isSome_iff (l : List (Addr × Bytes)) (a : Addr) : (l.lookup a).isSome ↔ a ∈ l.map (·.1) := by
  induction l with
  | nil => simp
  | cons x xs ih =>
    obtain ⟨k, v⟩ := x
    by_cases h : a = k
    · subst h; simp [List.lookup]
    · have : (a == k) = false := by simp [h]
      simp [List.lookup, this, ih, h]

theorem lookup_mem (l : List (Addr × Bytes)) (a : Addr) (d : Bytes) (h : l.lookup a = some d) : (a, d) ∈ l := by
  induction l with
  | nil => simp at h
  | cons x xs ih =>
    obtain ⟨k, v⟩ := x
    by_cases hk : a = k
    · subst hk; simp [List.lookup] at h; simp [h]
    · have : (a == k) = false := by simp [hk]
      simp [List.lookup, this] at h
      exact List.mem_cons_of_mem _ (ih h)

theorem chainGet_eq (ss : List Source) (a : Addr) : chainGet ss a = ss.flatten.lookup a := by
  induction ss with
  | nil => rfl
  | cons s ss ih =>
    simp only [chainGet, List.flatten_cons, List.lookup_append, Source.get, ih]
    cases s.lookup a <;> simp

theorem chainHas_eq (ss : List Source) (a : Addr) : chainHas ss a = (chainGet ss a).isSome := by
  induction ss with
  | nil => rfl
  | cons s ss ih =>
    simp only [chainHas, chainGet, Source.has, Source.get, ih]
    cases s.lookup a <;> simp

/-- `Get` is the abstract map -/
theorem get_eq_abs (s : Store) (a : Addr) : s.get a = s.abs a := chainGet_eq _ _

/-- `Has` agrees with `Get` -/
theorem has_eq_abs (s : Store) (a : Addr) : s.has a = (s.abs a).isSome := by
  unfold Store.has; rw [chainHas_eq]; exact congrArg _ (chainGet_eq _ _)

theorem srcGetMany_flags (src : Source) : ∀ reqs, (srcGetMany src reqs).1 = reqs.map (fun r => (r.1, r.2 || src.has r.1))
  | [] => rfl
  | (a, f) :: rest => by
    simp only [srcGetMany, List.map_cons]
    cases f with
    | true => simp [srcGetMany_flags src rest]
    | false =>
      cases h : src.get a with
      | none =>
        have hh : src.has a = false := by unfold Source.has; unfold Source.get at h; rw [h]; rfl
        simp [srcGetMany_flags src rest, hh, h]
      | some d =>
        have hh : src.has a = true := by unfold Source.has; unfold Source.get at h; rw [h]; rfl
        simp [srcGetMany_flags src rest, hh, h]

theorem srcGetMany_delivered (src : Source) : ∀ reqs,
    (srcGetMany src reqs).2 = reqs.filterMap (fun r => if r.2 then none else (src.get r.1).map (fun d => (r.1, d)))
  | [] => rfl
  | (a, f) :: rest => by
    simp only [srcGetMany, List.filterMap_cons]
    cases f with
    | true => simp [srcGetMany_delivered src rest]
    | false =>
      cases h : src.get a with
      | none => simp [srcGetMany_delivered src rest]
      | some d => simp [srcGetMany_delivered src rest]

theorem chainGetMany_mem : ∀ (ss : List Source) (reqs : List (Addr × Bool)) (p : Addr × Bytes),
    p ∈ chainGetMany ss reqs ↔ (p.1, false) ∈ reqs ∧ chainGet ss p.1 = some p.2
  | [], reqs, p => by simp [chainGetMany, chainGet]
  | s :: ss, reqs, p => by
    obtain ⟨a, d⟩ := p
    simp only [chainGetMany, List.mem_append, chainGetMany_mem ss _ (a, d), srcGetMany_flags, srcGetMany_delivered,
      List.mem_filterMap, List.mem_map, chainGet]
    constructor
    · rintro (⟨⟨a', f⟩, hr, hv⟩ | ⟨⟨⟨a', f⟩, hr, he⟩, hg⟩)
      · cases f with
        | true => simp at hv
        | false =>
          simp only [Bool.false_eq_true, if_false, Option.map_eq_some_iff] at hv
          obtain ⟨d', hd', he⟩ := hv
          simp only [Prod.mk.injEq] at he
          obtain ⟨rfl, rfl⟩ := he
          exact ⟨hr, by simp [hd']⟩
      · simp only [Prod.mk.injEq, Bool.or_eq_false_iff] at he
        obtain ⟨rfl, rfl, hh⟩ := he
        have : s.get a' = none := by
          simp only [Source.has, Source.get] at hh ⊢
          cases h : s.lookup a' <;> simp_all
        exact ⟨hr, by simp [this, hg]⟩
    · rintro ⟨hr, hg⟩
      cases h : s.get a with
      | some d' =>
        simp only [h, Option.some.injEq] at hg
        subst hg
        exact Or.inl ⟨(a, false), hr, by simp [h]⟩
      | none =>
        simp only [h] at hg
        have hh : s.has a = false := by unfold Source.has; unfold Source.get at h; rw [h]; rfl
        exact Or.inr ⟨⟨(a, false), hr, by simp [hh]⟩, hg⟩

/-- `GetMany` delivers exactly the requested addresses the abstract map holds, with its bytes -/
theorem getMany_spec (s : Store) (as : List Addr) (p : Addr × Bytes) :
    p ∈ s.getMany as ↔ p.1 ∈ as ∧ s.abs p.1 = some p.2 := by
  unfold Store.getMany
  rw [chainGetMany_mem, ← get_eq_abs]
  simp [Store.get]

theorem srcHasMany_eq (src : Source) : ∀ reqs, srcHasMany src reqs = reqs.map (fun r => (r.1, r.2 || src.has r.1))
  | [] => rfl
  | (a, f) :: rest => by simp [srcHasMany, srcHasMany_eq src rest]

theorem chainHasMany_eq : ∀ (ss : List Source) (reqs : List (Addr × Bool)),
    chainHasMany ss reqs = reqs.map (fun r => (r.1, r.2 || chainHas ss r.1))
  | [], reqs => by simp [chainHasMany, chainHas]
  | s :: ss, reqs => by
    simp [chainHasMany, chainHasMany_eq ss, srcHasMany_eq, chainHas, List.map_map, Function.comp_def, Bool.or_assoc]

/-- `HasMany` reports exactly the requested addresses the abstract map does not hold -/
theorem hasMany_spec (s : Store) (as : List Addr) : s.hasMany as = as.filter (fun a => (s.abs a).isNone) := by
  unfold Store.hasMany
  rw [chainHasMany_eq]
  simp only [List.map_map, List.filter_map, Function.comp_def, Bool.false_or]
  simp only [List.map_id']
  congr 1
  funext a
  have := has_eq_abs s a
  unfold Store.has at this
  simp only [this]
  cases s.abs a <;> rfl

/-! ### histories -/

def Store.keys (s : Store) : List Addr := s.entries.map (·.1)

theorem abs_isSome_iff (s : Store) (a : Addr) : (s.abs a).isSome ↔ a ∈ s.keys := lookup_isSome_iff _ _

theorem abs_mem (s : Store) (a : Addr) (d : Bytes) (h : s.abs a = some d) : (a, d) ∈ s.entries := lookup_mem _ _ _ h

theorem put_entries (s : Store) (a : Addr) (d : Bytes) :
    (∀ e, e ∈ (s.put a d).entries → e ∈ s.entries ∨ e = (a, d)) ∧
    (∀ k, k ∈ (s.put a d).keys ↔ k ∈ s.keys ∨ k = a) := by
  unfold Store.put
  by_cases h : s.mem.has a = true
  · simp only [h, if_true]
    refine ⟨fun e he => Or.inl he, fun k => ⟨Or.inl, ?_⟩⟩
    rintro (hk | rfl)
    · exact hk
    · have : k ∈ s.mem.map (·.1) := (lookup_isSome_iff s.mem k).mp (by simpa [Source.has] using h)
      simp only [Store.keys, Store.entries, Store.chain, List.flatten_cons, List.map_append, List.mem_append]
      exact Or.inl this
  · simp only [h, Bool.false_eq_true, if_false]
    constructor
    · intro e he
      simp only [Store.entries, Store.chain, List.flatten_cons, List.mem_append, List.mem_singleton] at he ⊢
      rcases he with (h1 | h1) | h1
      · exact Or.inl (Or.inl h1)
      · exact Or.inr h1
      · exact Or.inl (Or.inr h1)
    · intro k
      simp only [Store.keys, Store.entries, Store.chain, List.flatten_cons, List.map_append, List.mem_append,
        List.map_cons, List.map_nil, List.mem_singleton]
      constructor
      · rintro ((h1 | h1) | h1)
        · exact Or.inl (Or.inl h1)
        · exact Or.inr h1
        · exact Or.inl (Or.inr h1)
      · rintro ((h1 | h1) | h1)
        · exact Or.inl (Or.inl h1)
        · exact Or.inr h1
        · exact Or.inl (Or.inr h1)

theorem flush_entries (s : Store) :
    (∀ e, e ∈ s.flush.entries → e ∈ s.entries) ∧ (∀ k, k ∈ s.flush.keys ↔ k ∈ s.keys) := by
  have hE : s.flush.entries = s.mem.filter (fun e => !chainHas (s.novel ++ s.upstream) e.1) ++ (s.novel ++ s.upstream).flatten := by
    simp [Store.flush, Store.entries, Store.chain]
  have hS : s.entries = s.mem ++ (s.novel ++ s.upstream).flatten := by
    simp [Store.entries, Store.chain]
  constructor
  · intro e he
    rw [hE] at he; rw [hS]
    rcases List.mem_append.mp he with h | h
    · exact List.mem_append_left _ (List.mem_filter.mp h).1
    · exact List.mem_append_right _ h
  · intro k
    simp only [Store.keys, hE, hS, List.map_append, List.mem_append]
    constructor
    · rintro (h | h)
      · obtain ⟨e, he, rfl⟩ := List.mem_map.mp h
        exact Or.inl (List.mem_map.mpr ⟨e, (List.mem_filter.mp he).1, rfl⟩)
      · exact Or.inr h
    · rintro (h | h)
      · obtain ⟨e, he, rfl⟩ := List.mem_map.mp h
        by_cases hc : chainHas (s.novel ++ s.upstream) e.1 = true
        · right
          rw [chainHas_eq, chainGet_eq] at hc
          exact (lookup_isSome_iff _ _).mp hc
        · left
          exact List.mem_map.mpr ⟨e, List.mem_filter.mpr ⟨he, by simp [hc]⟩, rfl⟩
      · exact Or.inr h

theorem reopen_entries (s : Store) : s.reopen.entries = s.flush.entries := by
  simp [Store.reopen, Store.flush, Store.entries, Store.chain]

theorem conjoin_entries (s : Store) (sel : Source → Bool) :
    (∀ e, e ∈ (s.conjoin sel).entries ↔ e ∈ s.entries) := by
  intro e
  have hm : e ∈ ((s.upstream.filter sel).flatten :: s.upstream.filter (fun t => !sel t)).flatten ↔ e ∈ s.upstream.flatten := by
    simp only [List.flatten_cons, List.mem_append, List.mem_flatten, List.mem_filter]
    constructor
    · rintro (⟨l, ⟨hl, _⟩, he⟩ | ⟨l, ⟨hl, _⟩, he⟩) <;> exact ⟨l, hl, he⟩
    · rintro ⟨l, hl, he⟩
      by_cases h : sel l = true
      · exact Or.inl ⟨l, ⟨hl, h⟩, he⟩
      · exact Or.inr ⟨l, ⟨hl, by simp [h]⟩, he⟩
  simp only [Store.conjoin, Store.entries, List.flatten_cons, List.flatten_append, List.mem_append] at hm ⊢
  rw [hm]

theorem gc_entries (s : Store) (keep : Addr → Bool) :
    (s.gc keep).entries = s.entries.filter (fun e => keep e.1) := by
  simp [Store.gc, Store.entries]

/-- garbage collection computes exactly the restriction of the abstract map to the keep-set -/
theorem gc_abs (s : Store) (keep : Addr → Bool) (a : Addr) :
    (s.gc keep).abs a = if keep a then s.abs a else none := by
  unfold Store.abs
  rw [gc_entries]
  generalize s.entries = l
  induction l with
  | nil => simp
  | cons x xs ih =>
    obtain ⟨k, v⟩ := x
    by_cases hk : keep k = true
    · simp only [List.filter_cons, hk, if_true]
      by_cases hak : a = k
      · subst hak; simp [List.lookup, hk]
      · have : (a == k) = false := by simp [hak]
        simp only [List.lookup, this]; exact ih
    · simp only [List.filter_cons, hk, Bool.false_eq_true, if_false]
      by_cases hak : a = k
      · subst hak
        rw [ih]; simp [hk]
      · have : (a == k) = false := by simp [hak]
        simp only [List.lookup, this]; exact ih

/-- store `s` holds exactly the specification list `l`: nothing but pairs of `l`, and every address of `l` -/
def Holds (s : Store) (l : List (Addr × Bytes)) : Prop :=
  (∀ e, e ∈ s.entries → e ∈ l) ∧ (∀ k, k ∈ s.keys ↔ k ∈ l.map (·.1))

theorem holds_step (s : Store) (l : List (Addr × Bytes)) (h : Holds s l) (op : Op) :
    Holds (s.apply op) (liveStep l op) := by
  obtain ⟨h1, h2⟩ := h
  cases op with
  | put a d =>
    obtain ⟨p1, p2⟩ := put_entries s a d
    refine ⟨?_, ?_⟩
    · intro e he
      rcases p1 e he with h | h
      · exact List.mem_cons_of_mem _ (h1 e h)
      · rw [h]; exact List.mem_cons_self ..
    · intro k
      simp only [Store.apply, p2 k, liveStep, List.map_cons, List.mem_cons, h2 k]
      constructor
      · rintro (h | h)
        · exact Or.inr h
        · exact Or.inl h
      · rintro (h | h)
        · exact Or.inr h
        · exact Or.inl h
  | commit =>
    obtain ⟨f1, f2⟩ := flush_entries s
    exact ⟨fun e he => h1 e (f1 e he), fun k => by simp only [Store.apply, liveStep, f2 k, h2 k]⟩
  | reopen =>
    obtain ⟨f1, f2⟩ := flush_entries s
    refine ⟨fun e he => h1 e (f1 e (by simpa [Store.apply, reopen_entries] using he)), fun k => ?_⟩
    have : k ∈ s.reopen.keys ↔ k ∈ s.keys := by unfold Store.keys; rw [reopen_entries]; exact f2 k
    simp only [Store.apply, liveStep, this, h2 k]
  | conjoin sel =>
    have hc := conjoin_entries s sel
    refine ⟨fun e he => h1 e ((hc e).mp he), fun k => ?_⟩
    simp only [Store.apply, liveStep, ← h2 k, Store.keys, List.mem_map]
    constructor
    · rintro ⟨e, he, rfl⟩; exact ⟨e, (hc e).mp he, rfl⟩
    · rintro ⟨e, he, rfl⟩; exact ⟨e, (hc e).mpr he, rfl⟩
  | gc keep =>
    refine ⟨?_, ?_⟩
    · intro e he
      simp only [Store.apply, gc_entries, List.mem_filter] at he
      exact List.mem_filter.mpr ⟨h1 e he.1, he.2⟩
    · intro k
      simp only [Store.apply, liveStep, Store.keys, gc_entries, List.mem_map, List.mem_filter]
      constructor
      · rintro ⟨e, ⟨he, hk⟩, rfl⟩
        obtain ⟨e', he', hek⟩ := List.mem_map.mp ((h2 e.1).mp (List.mem_map.mpr ⟨e, he, rfl⟩))
        exact ⟨e', ⟨he', by rw [hek]; exact hk⟩, hek⟩
      · rintro ⟨e, ⟨he, hk⟩, rfl⟩
        obtain ⟨e', he', hek⟩ := List.mem_map.mp ((h2 e.1).mpr (List.mem_map.mpr ⟨e, he, rfl⟩))
        exact ⟨e', ⟨he', by rw [hek]; exact hk⟩, hek⟩

theorem holds_foldl : ∀ (ops : List Op) (s : Store) (l : List (Addr × Bytes)), Holds s l →
    Holds (ops.foldl Store.apply s) (ops.foldl liveStep l)
  | [], _, _, h => h
  | op :: rest, s, l, h => holds_foldl rest _ _ (holds_step s l h op)

theorem holds_run (ops : List Op) : Holds (run ops) (live ops) :=
  holds_foldl ops ⟨[], [], []⟩ [] ⟨by simp [Store.entries], by simp [Store.keys, Store.entries]⟩

theorem live_sub_written : ∀ (ops : List Op) (l : List (Addr × Bytes)) (e : Addr × Bytes),
    e ∈ ops.foldl liveStep l → e ∈ l ∨ e ∈ written ops
  | [], _, _, h => Or.inl h
  | op :: rest, l, e, h0 => by
    rcases live_sub_written rest (liveStep l op) e h0 with h | h
    · clear h0
      cases op with
      | put a d =>
        rcases List.mem_cons.mp h with h | h
        · exact Or.inr (by rw [h]; exact List.mem_cons_self ..)
        · exact Or.inl h
      | gc keep => exact Or.inl (List.mem_filter.mp h).1
      | commit => exact Or.inl h
      | reopen => exact Or.inl h
      | conjoin sel => exact Or.inl h
    · clear h0
      cases op with
      | put a d => exact Or.inr (List.mem_cons_of_mem _ h)
      | gc keep => exact Or.inr h
      | commit => exact Or.inr h
      | reopen => exact Or.inr h
      | conjoin sel => exact Or.inr h

/-- present iff written and not collected since — across put, commit (flush with de-duplication),
reopen, conjoin and garbage collection -/
theorem store_present_iff_written (ops : List Op) (a : Addr) :
    ((run ops).abs a).isSome ↔ a ∈ (live ops).map (·.1) := by
  rw [abs_isSome_iff]; exact (holds_run ops).2 a

/-- whatever a read returns was written under that very address and not collected since … -/
theorem store_returns_live (ops : List Op) (a : Addr) (d : Bytes) (h : (run ops).abs a = some d) :
    (a, d) ∈ live ops := (holds_run ops).1 (a, d) (abs_mem _ _ _ h)

theorem store_returns_written (ops : List Op) (a : Addr) (d : Bytes) (h : (run ops).abs a = some d) :
    (a, d) ∈ written ops := by
  rcases live_sub_written ops [] (a, d) (store_returns_live ops a d h) with h | h
  · simp at h
  · exact h

/-- … hence content-addressed, if the writes were -/
theorem store_content_addressed (H : Bytes → Addr) (ops : List Op) (hw : ∀ e ∈ written ops, H e.2 = e.1)
    (a : Addr) (d : Bytes) (h : (run ops).get a = some d) : H d = a := by
  rw [get_eq_abs] at h
  exact hw (a, d) (store_returns_written ops a d h)

/-! ### generational -/

theorem gen_get_eq_abs (g : Gen) (a : Addr) : g.get a = g.abs a := by
  simp [Gen.get, Gen.abs, get_eq_abs]

theorem gen_has_eq_abs (g : Gen) (a : Addr) : g.has a = (g.abs a).isSome := by
  simp only [Gen.has, Gen.abs, has_eq_abs]
  cases g.old.abs a <;> simp

theorem gen_hasMany_spec (g : Gen) (as : List Addr) : g.hasMany as = as.filter (fun a => (g.abs a).isNone) := by
  simp only [Gen.hasMany, hasMany_spec, List.filter_filter, Gen.abs]
  congr 1
  funext a
  cases g.old.abs a <;> cases g.new.abs a <;> rfl

end DoltVerif.NbsStore
