import DoltVerif.Lemmas.RowMerge
/-! Lemmas towards the cell-wise specification of the row merger (C29): identity mapping of a
schema onto itself, conversions/comparisons on well-typed cells, stored-tuple equality on rows of
equal length, index-driven loops. Core Lean only. -/
namespace DoltVerif.RowMerge

/-- column ids of a schema are pairwise distinct -/
def idsDistinct : Schema → Bool
  | [] => true
  | c :: cs => cs.all (fun d => d.id != c.id) && idsDistinct cs

/-- field `i` of a stored row as SQL sees it -/
def cellAt (row : Row) (i : Nat) : Val := (row[i]?).join

/-! ### identity mapping -/

theorem findCol_self (s : Schema) (h : idsDistinct s = true) (i : Nat) (c : Col)
    (hc : s[i]? = some c) : findCol s c.id = some i := by
  induction s generalizing i with
  | nil => simp at hc
  | cons d ds ih =>
    simp only [idsDistinct, Bool.and_eq_true, List.all_eq_true] at h
    cases i with
    | zero =>
      simp at hc; subst hc
      simp [findCol]
    | succ j =>
      simp at hc
      have hmem : c ∈ ds := List.mem_of_getElem? hc
      have hne := h.1 c hmem
      have hne' : (d.id == c.id) = false := by
        simp only [bne_iff_ne, ne_eq] at hne
        simp only [beq_eq_false_iff_ne, ne_eq]
        exact fun e => hne e.symm
      simp [findCol, hne', ih h.2 j hc]

theorem mapping_self_get (s : Schema) (h : idsDistinct s = true) (i : Nat) (hi : i < s.length) :
    (mapping s s)[i]? = some (some i) := by
  have hc : s[i]? = some s[i] := List.getElem?_eq_getElem hi
  simp [mapping, hc, findCol_self s h i s[i] hc]

/-! ### well-typed cells -/

theorem convert_of_hasTy (t : Ty) (v : Val) (h : Val.hasTy v t = true) : convert t v = .ok v := by
  cases v with
  | none => rfl
  | some c => cases c <;> cases t <;> simp_all [Val.hasTy, Cell.hasTy, convert]

theorem eqUnder_of_hasTy (t : Ty) (a b : Val) (ha : Val.hasTy a t = true) (hb : Val.hasTy b t = true) :
    eqUnder t a b = decide (a = b) := by
  cases a with
  | none => cases b <;> simp [eqUnder]
  | some x =>
    cases b with
    | none => simp [eqUnder]
    | some y =>
      cases x <;> cases y <;> cases t <;> simp_all [Val.hasTy, Cell.hasTy, eqUnder, toI, toS] <;>
        (rename_i a b; by_cases h : a = b <;> simp [h])

theorem rowOk_length (s : Schema) (row : Row) (h : rowOk s row = true) : row.length = s.length := by
  induction s generalizing row with
  | nil => cases row <;> simp_all [rowOk]
  | cons c cs ih =>
    cases row with
    | nil => simp [rowOk] at h
    | cons v vs => simp [rowOk] at h; simp [ih vs h.2]

theorem rowOk_get (s : Schema) (row : Row) (h : rowOk s row = true) (i : Nat) (hi : i < s.length) :
    ∃ v, row[i]? = some v ∧ Val.hasTy v (s[i]'hi).ty = true := by
  induction s generalizing row i with
  | nil => simp at hi
  | cons c cs ih =>
    cases row with
    | nil => simp [rowOk] at h
    | cons v vs =>
      simp [rowOk] at h
      cases i with
      | zero => exact ⟨v, by simp, by simpa using h.1⟩
      | succ j =>
        have hj : j < cs.length := by simpa using hi
        obtain ⟨w, hw, ht⟩ := ih vs h.2 j hj
        exact ⟨w, by simpa using hw, by simpa using ht⟩

/-! ### stored-tuple equality -/

theorem trimNulls_append (a : Row) : ∃ k, a = trimNulls a ++ List.replicate k none := by
  induction a with
  | nil => exact ⟨0, by simp [trimNulls]⟩
  | cons v vs ih =>
    obtain ⟨k, hk⟩ := ih
    cases v with
    | some c =>
      refine ⟨k, ?_⟩
      simp only [trimNulls]
      rw [List.cons_append, ← hk]
    | none =>
      cases ht : trimNulls vs with
      | nil =>
        refine ⟨k + 1, ?_⟩
        simp only [trimNulls, ht]
        rw [ht] at hk
        simp at hk
        simp [hk, List.replicate_succ]
      | cons w ws =>
        refine ⟨k, ?_⟩
        simp only [trimNulls, ht]
        rw [ht] at hk
        rw [List.cons_append, ← hk]

theorem rawEq_iff_eq (a b : Row) (hl : a.length = b.length) : rawEq a b = true ↔ a = b := by
  constructor
  · intro h
    simp only [rawEq, beq_iff_eq] at h
    obtain ⟨k1, h1⟩ := trimNulls_append a
    obtain ⟨k2, h2⟩ := trimNulls_append b
    have : k1 = k2 := by
      have l1 := congrArg List.length h1
      have l2 := congrArg List.length h2
      simp at l1 l2
      rw [h] at l1
      omega
    rw [h1, h2, h, this]
  · intro h; subst h; simp [rawEq]

/-! ### index-driven loops -/

def anySpec (g : Nat → Bool) : Nat → Nat → Bool
  | 0, _ => false
  | n + 1, i => g i || anySpec g n (i + 1)

theorem anyConflict_eq (f : Nat → Except Err Bool) (g : Nat → Bool) (n i : Nat)
    (h : ∀ j, i ≤ j → j < i + n → f j = .ok (g j)) : anyConflict f n i = .ok (anySpec g n i) := by
  induction n generalizing i with
  | zero => rfl
  | succ n ih =>
    have h0 := h i (Nat.le_refl _) (by omega)
    have hr := ih (i + 1) (fun j h1 h2 => h j (by omega) (by omega))
    simp only [anyConflict, anySpec, h0, bind, Except.bind, pure, Except.pure, hr]
    cases g i <;> simp

theorem anySpec_true_iff (g : Nat → Bool) (n i : Nat) :
    anySpec g n i = true ↔ ∃ j, i ≤ j ∧ j < i + n ∧ g j = true := by
  induction n generalizing i with
  | zero => simp [anySpec]; intro x h1 h2; omega
  | succ n ih =>
    simp only [anySpec, Bool.or_eq_true, ih]
    constructor
    · rintro (h | ⟨j, h1, h2, h3⟩)
      · exact ⟨i, Nat.le_refl _, by omega, h⟩
      · exact ⟨j, by omega, by omega, h3⟩
    · rintro ⟨j, h1, h2, h3⟩
      by_cases hj : j = i
      · subst hj; exact Or.inl h3
      · exact Or.inr ⟨j, by omega, by omega, h3⟩

/-- the row built column by column from per-column (value, conflict) results -/
def colsSpec (g : Nat → Val × Bool) : Nat → Nat → Option Row
  | 0, _ => some []
  | n + 1, i =>
    if (g i).2 then none else
    match colsSpec g n (i + 1) with
    | none => none
    | some vs => some ((g i).1 :: vs)

theorem mergeCols_eq (f : Nat → Except Err (Val × Bool)) (g : Nat → Val × Bool) (n i : Nat)
    (h : ∀ j, i ≤ j → j < i + n → f j = .ok (g j)) : mergeCols f n i = .ok (colsSpec g n i) := by
  induction n generalizing i with
  | zero => rfl
  | succ n ih =>
    have h0 := h i (Nat.le_refl _) (by omega)
    have hr := ih (i + 1) (fun j h1 h2 => h j (by omega) (by omega))
    simp only [mergeCols, colsSpec, h0, bind, Except.bind, pure, Except.pure, hr]
    cases hg : (g i).2 <;> simp
    cases colsSpec g n (i + 1) <;> simp

theorem colsSpec_none_iff (g : Nat → Val × Bool) (n i : Nat) :
    colsSpec g n i = none ↔ ∃ j, i ≤ j ∧ j < i + n ∧ (g j).2 = true := by
  induction n generalizing i with
  | zero => simp [colsSpec]; intro x h1 h2; omega
  | succ n ih =>
    simp only [colsSpec]
    by_cases hg : (g i).2 = true
    · simp only [hg, if_true, true_iff]; exact ⟨i, Nat.le_refl _, by omega, hg⟩
    · simp only [hg, if_false]
      constructor
      · intro h
        cases hc : colsSpec g n (i + 1) with
        | none => obtain ⟨j, h1, h2, h3⟩ := (ih (i + 1)).1 hc; exact ⟨j, by omega, by omega, h3⟩
        | some vs => simp [hc] at h
      · rintro ⟨j, h1, h2, h3⟩
        have hj : j ≠ i := fun e => hg (e ▸ h3)
        have := (ih (i + 1)).2 ⟨j, by omega, by omega, h3⟩
        simp [this]

theorem colsSpec_some_get (g : Nat → Val × Bool) (n i : Nat) (row : Row)
    (h : colsSpec g n i = some row) :
    row.length = n ∧ ∀ j, j < n → row[j]? = some (g (i + j)).1 := by
  induction n generalizing i row with
  | zero => simp [colsSpec] at h; subst h; simp
  | succ n ih =>
    simp only [colsSpec] at h
    by_cases hg : (g i).2 = true
    · simp [hg] at h
    · simp only [hg, if_false] at h
      cases hc : colsSpec g n (i + 1) with
      | none => simp [hc] at h
      | some vs =>
        simp [hc] at h; subst h
        obtain ⟨hl, hget⟩ := ih (i + 1) vs hc
        refine ⟨by simp [hl], fun j hj => ?_⟩
        cases j with
        | zero => simp
        | succ k =>
          have hk : k < n := by omega
          have := hget k hk
          simp only [List.getElem?_cons_succ, this]
          have e : i + 1 + k = i + (k + 1) := by omega
          rw [e]

/-! ### the cell-wise merger on one schema -/

/-- the property's rule for one cell with a base value -/
def cellMerge (b l r : Val) : Val × Bool :=
  if l = r then (l, false)                    -- both sides equal → that value
  else if l ≠ b ∧ r ≠ b then (none, true)     -- both changed it differently → conflict
  else if l ≠ b then (l, false)               -- ours-only change → ours
  else (r, false)                             -- theirs-only change → theirs

/-- … and for a row both sides inserted (no base row) -/
def cellMergeNoBase (l r : Val) : Val × Bool := if l = r then (l, false) else (none, true)

def sameVM (s : Schema) : VM := ⟨s, s, s, s, false⟩

theorem colTy_self (s : Schema) (i : Nat) (hi : i < s.length) : colTy s i = .ok (s[i]'hi).ty := by
  simp [colTy, List.getElem?_eq_getElem hi]

theorem getColumn_self (s : Schema) (hd : idsDistinct s = true) (row : Row) (hr : rowOk s row = true)
    (i : Nat) (hi : i < s.length) : getColumn row (mapping s s) i = .ok (cellAt row i, some i) := by
  obtain ⟨v, hv, _⟩ := rowOk_get s row hr i hi
  simp [getColumn, mapping_self_get s hd i hi, hv, cellAt]

theorem convertField_self (s : Schema) (row : Row) (hr : rowOk s row = true)
    (i : Nat) (hi : i < s.length) : convertField (s[i]'hi).ty row i = .ok (cellAt row i) := by
  obtain ⟨v, hv, ht⟩ := rowOk_get s row hr i hi
  simp [convertField, hv, cellAt, convert_of_hasTy _ _ ht]

theorem hasTy_cellAt (s : Schema) (row : Row) (hr : rowOk s row = true)
    (i : Nat) (hi : i < s.length) : Val.hasTy (cellAt row i) (s[i]'hi).ty = true := by
  obtain ⟨v, hv, ht⟩ := rowOk_get s row hr i hi
  simpa [cellAt, hv] using ht

theorem processColumn_same (s : Schema) (hd : idsDistinct s = true) (b l r : Row)
    (hb : rowOk s b = true) (hl : rowOk s l = true) (hr : rowOk s r = true)
    (i : Nat) (hi : i < s.length) :
    processColumn (sameVM s) i l r (some b) =
      .ok (cellMerge (cellAt b i) (cellAt l i) (cellAt r i)) := by
  have tb := hasTy_cellAt s b hb i hi
  have tl := hasTy_cellAt s l hl i hi
  have tr := hasTy_cellAt s r hr i hi
  simp only [processColumn, sameVM, VM.baseMapping, VM.leftMapping, VM.rightMapping,
    colTy_self s i hi, getColumn_self s hd b hb i hi, getColumn_self s hd l hl i hi,
    getColumn_self s hd r hr i hi, bind, Except.bind, pure, Except.pure,
    convertField_self s b hb i hi, convertField_self s l hl i hi, convertField_self s r hr i hi,
    eqUnder_of_hasTy _ _ _ tl tr, eqUnder_of_hasTy _ _ _ tr tb, eqUnder_of_hasTy _ _ _ tl tb]
  generalize cellAt b i = vb at *
  generalize cellAt l i = vl at *
  generalize cellAt r i = vr at *
  have hn : Val.hasTy none (s[i]'hi).ty = true := rfl
  cases vb with
  | none =>
    simp only [eqUnder_of_hasTy _ _ _ tl hn, eqUnder_of_hasTy _ _ _ tr hn, cellMerge]
    by_cases h1 : vl = vr
    · subst h1; simp
    · by_cases h2 : vl = none <;> by_cases h3 : vr = none <;> simp_all
  | some x =>
    simp only [cellMerge]
    by_cases h1 : vl = vr
    · subst h1; simp
    · by_cases h2 : vl = some x <;> by_cases h3 : vr = some x <;> simp_all

theorem processColumn_same_nobase (s : Schema) (hd : idsDistinct s = true) (l r : Row)
    (hl : rowOk s l = true) (hr : rowOk s r = true) (i : Nat) (hi : i < s.length) :
    processColumn (sameVM s) i l r none = .ok (cellMergeNoBase (cellAt l i) (cellAt r i)) := by
  have tl := hasTy_cellAt s l hl i hi
  have tr := hasTy_cellAt s r hr i hi
  simp only [processColumn, sameVM, VM.leftMapping, VM.rightMapping,
    colTy_self s i hi, getColumn_self s hd l hl i hi,
    getColumn_self s hd r hr i hi, bind, Except.bind, pure, Except.pure,
    convertField_self s l hl i hi, convertField_self s r hr i hi,
    eqUnder_of_hasTy _ _ _ tl tr, cellMergeNoBase]
  by_cases h1 : cellAt l i = cellAt r i
  · simp [h1]
  · simp [h1]

theorem rows_eq_iff_cells (s : Schema) (a b : Row) (ha : rowOk s a = true) (hb : rowOk s b = true) :
    a = b ↔ ∀ i, i < s.length → cellAt a i = cellAt b i := by
  constructor
  · intro h; subst h; intros; rfl
  · intro h
    have la := rowOk_length s a ha
    have lb := rowOk_length s b hb
    apply List.ext_getElem? 
    intro i
    by_cases hi : i < s.length
    · obtain ⟨va, hva, _⟩ := rowOk_get s a ha i hi
      obtain ⟨vb, hvb, _⟩ := rowOk_get s b hb i hi
      have := h i hi
      simp [cellAt, hva, hvb] at this
      simp [hva, hvb, this]
    · have h1 : a.length ≤ i := by omega
      have h2 : b.length ≤ i := by omega
      simp [List.getElem?_eq_none h1, List.getElem?_eq_none h2]

theorem processBaseColumn_same_both (s : Schema) (hd : idsDistinct s = true) (pick : VM → Schema)
    (b l r : Row) (hl : rowOk s l = true) (hr : rowOk s r = true) (i : Nat) (hi : i < s.length) :
    processBaseColumnG pick (sameVM s) i (some l) (some r) (some b) = .ok false := by
  simp [processBaseColumnG, sameVM, VM.baseToLeft, VM.baseToRight, getColumn_self s hd l hl i hi,
    getColumn_self s hd r hr i hi, bind, Except.bind, pure, Except.pure]

theorem processBaseColumn_same_leftDeleted (s : Schema) (hd : idsDistinct s = true) (pick : VM → Schema)
    (b r : Row) (hb : rowOk s b = true) (hr : rowOk s r = true) (i : Nat) (hi : i < s.length) :
    processBaseColumnG pick (sameVM s) i none (some r) (some b) =
      .ok (!decide (cellAt b i = cellAt r i)) := by
  have tb := hasTy_cellAt s b hb i hi
  have tr := hasTy_cellAt s r hr i hi
  obtain ⟨v, hv, hvt⟩ := rowOk_get s r hr i hi
  simp [processBaseColumnG, sameVM, VM.baseToRight, getColumn_self s hd r hr i hi, colTy_self s i hi,
    convertField_self s b hb i hi, bind, Except.bind, pure, Except.pure, cellAt, hv]
  exact eqUnder_of_hasTy _ _ _ (by simpa [cellAt] using tb) hvt

theorem processBaseColumn_same_rightDeleted (s : Schema) (hd : idsDistinct s = true) (pick : VM → Schema)
    (hp : pick (sameVM s) = s)
    (b l : Row) (hb : rowOk s b = true) (hl : rowOk s l = true) (i : Nat) (hi : i < s.length) :
    processBaseColumnG pick (sameVM s) i (some l) none (some b) =
      .ok (!decide (cellAt b i = cellAt l i)) := by
  have tb := hasTy_cellAt s b hb i hi
  have tl := hasTy_cellAt s l hl i hi
  obtain ⟨v, hv, hvt⟩ := rowOk_get s l hl i hi
  have hg := getColumn_self s hd l hl i hi
  simp only [sameVM] at hp hg
  simp [processBaseColumnG, sameVM, VM.baseToLeft, hg, hp, colTy_self s i hi,
    convertField_self s b hb i hi, bind, Except.bind, pure, Except.pure, cellAt, hv]
  exact eqUnder_of_hasTy _ _ _ (by simpa [cellAt] using tb) hvt

/-! ### TryMerge on one schema -/

/-- cell-wise merge of two present rows; `none` = some cell conflicts -/
def rowMergeSpec (s : Schema) (b : Option Row) (l r : Row) : Option Row :=
  match b with
  | some bb => colsSpec (fun i => cellMerge (cellAt bb i) (cellAt l i) (cellAt r i)) s.length 0
  | none => colsSpec (fun i => cellMergeNoBase (cellAt l i) (cellAt r i)) s.length 0

theorem anySpec_false (n i : Nat) : anySpec (fun _ => false) n i = false := by
  induction n generalizing i with
  | zero => rfl
  | succ n ih => simp [anySpec, ih]

theorem tryMerge_same_both (s : Schema) (hd : idsDistinct s = true) (pick : VM → Schema)
    (b : Option Row) (l r : Row) (hb : ∀ bb, b = some bb → rowOk s bb = true)
    (hl : rowOk s l = true) (hr : rowOk s r = true) :
    tryMergeG pick (sameVM s) (some l) (some r) b =
      .ok (match rowMergeSpec s b l r with | none => (none, false) | some row => (some row, true)) := by
  have hany : anyConflict (fun i => processBaseColumnG pick (sameVM s) i (some l) (some r) b) s.length 0
      = .ok false := by
    rw [anyConflict_eq _ (fun _ => false) s.length 0, anySpec_false]
    intro j _ hj
    cases b with
    | none => simp [processBaseColumnG]
    | some bb => exact processBaseColumn_same_both s hd pick bb l r hl hr j (by omega)
  cases b with
  | none =>
    have hm := mergeCols_eq (fun i => processColumn (sameVM s) i l r none)
      (fun i => cellMergeNoBase (cellAt l i) (cellAt r i)) s.length 0
      (fun j _ hj => processColumn_same_nobase s hd l r hl hr j (by omega))
    have hany' := hany
    simp only [sameVM] at hany' hm
    simp only [tryMergeG, sameVM, hany', hm, rowMergeSpec, bind, Except.bind, pure, Except.pure]
    simp
    cases colsSpec (fun i => cellMergeNoBase (cellAt l i) (cellAt r i)) s.length 0 <;> rfl
  | some bb =>
    have hm := mergeCols_eq (fun i => processColumn (sameVM s) i l r (some bb))
      (fun i => cellMerge (cellAt bb i) (cellAt l i) (cellAt r i)) s.length 0
      (fun j _ hj => processColumn_same s hd bb l r (hb bb rfl) hl hr j (by omega))
    have hany' := hany
    simp only [sameVM] at hany' hm
    simp only [tryMergeG, sameVM, hany', hm, rowMergeSpec, bind, Except.bind, pure, Except.pure]
    simp
    cases colsSpec (fun i => cellMerge (cellAt bb i) (cellAt l i) (cellAt r i)) s.length 0 <;> rfl

theorem anySpec_diff (s : Schema) (b x : Row) (hb : rowOk s b = true) (hx : rowOk s x = true) :
    anySpec (fun i => !decide (cellAt b i = cellAt x i)) s.length 0 = !decide (x = b) := by
  rw [Bool.eq_iff_iff, anySpec_true_iff]
  simp only [Bool.not_eq_true', decide_eq_false_iff_not, Nat.zero_add, Nat.zero_le, true_and]
  rw [rows_eq_iff_cells s x b hx hb]
  constructor
  · rintro ⟨j, hj, hne⟩ h
    exact hne (h j hj).symm
  · intro h
    apply Classical.byContradiction
    intro hc
    apply h
    intro i hi
    apply Classical.byContradiction
    intro hne
    exact hc ⟨i, hi, fun e => hne e.symm⟩

theorem tryMerge_same_leftDeleted (s : Schema) (hd : idsDistinct s = true) (pick : VM → Schema)
    (b r : Row) (hb : rowOk s b = true) (hr : rowOk s r = true) :
    tryMergeG pick (sameVM s) none (some r) (some b) = .ok (none, decide (r = b)) := by
  have hany := anyConflict_eq (fun i => processBaseColumnG pick (sameVM s) i none (some r) (some b))
    (fun i => !decide (cellAt b i = cellAt r i)) s.length 0
    (fun j _ hj => processBaseColumn_same_leftDeleted s hd pick b r hb hr j (by omega))
  rw [anySpec_diff s b r hb hr] at hany
  simp only [sameVM] at hany
  simp only [tryMergeG, sameVM, hany, bind, Except.bind, pure, Except.pure]
  by_cases h : r = b <;> simp [h]

theorem tryMerge_same_rightDeleted (s : Schema) (hd : idsDistinct s = true) (pick : VM → Schema)
    (hp : pick (sameVM s) = s) (b l : Row) (hb : rowOk s b = true) (hl : rowOk s l = true) :
    tryMergeG pick (sameVM s) (some l) none (some b) = .ok (none, decide (l = b)) := by
  have hany := anyConflict_eq (fun i => processBaseColumnG pick (sameVM s) i (some l) none (some b))
    (fun i => !decide (cellAt b i = cellAt l i)) s.length 0
    (fun j _ hj => processBaseColumn_same_rightDeleted s hd pick hp b l hb hl j (by omega))
  rw [anySpec_diff s b l hb hl] at hany
  simp only [sameVM] at hany
  simp only [tryMergeG, sameVM, hany, bind, Except.bind, pure, Except.pure]
  by_cases h : l = b <;> simp [h]

/-! ### one key, one schema -/

/-- every present version of the row is well typed for `s` -/
def okOpt (s : Schema) (x : Option Row) : Prop := ∀ row, x = some row → rowOk s row = true

/-- **the property for one key** (tables sharing one schema):
theirs untouched → ours; ours untouched → theirs (so delete vs untouched → delete); the same change
on both sides → that; otherwise cell by cell (`rowMergeSpec`: ours-only cell → ours, theirs-only →
theirs, equal → that, both different → conflict), and delete vs modify → conflict.  A conflicted key
keeps ours' row. -/
def specKey (s : Schema) (b l r : Option Row) : Option Row × Bool :=
  if r = b then (l, false)
  else if l = b then (r, false)
  else if l = r then (l, false)
  else match l, r with
    | some ll, some rr =>
      (match rowMergeSpec s b ll rr with
       | some row => (some row, false)
       | none => (some ll, true))
    | _, _ => (l, true)

theorem rawEqOpt_iff (s : Schema) (x y : Option Row) (hx : okOpt s x) (hy : okOpt s y) :
    rawEqOpt x y = true ↔ x = y := by
  cases x with
  | none => cases y <;> simp [rawEqOpt]
  | some a =>
    cases y with
    | none => simp [rawEqOpt]
    | some b =>
      have la := rowOk_length s a (hx a rfl)
      have lb := rowOk_length s b (hy b rfl)
      simp [rawEqOpt, rawEq_iff_eq a b (by omega)]

theorem rowDiff_none_iff (s : Schema) (b x : Option Row) (hb : okOpt s b) (hx : okOpt s x) :
    rowDiff false b x = .none ↔ x = b := by
  cases b with
  | none => cases x <;> simp [rowDiff]
  | some bb =>
    cases x with
    | none => simp [rowDiff]
    | some xx =>
      have la := rowOk_length s bb (hb bb rfl)
      have lb := rowOk_length s xx (hx xx rfl)
      have := rawEq_iff_eq bb xx (by omega)
      simp only [rowDiff, Bool.false_or]
      by_cases h : rawEq bb xx = true
      · have e := this.1 h
        subst e
        simp [h]
      · have hne : ¬ bb = xx := fun e => h (this.2 e)
        have hne' : ¬ xx = bb := fun e => hne e.symm
        simp [h, hne']

theorem mergeKeyFast_spec (s : Schema) (hd : idsDistinct s = true) (pick : VM → Schema)
    (hp : pick (sameVM s) = s) (fl : Flags) (b l r : Option Row)
    (hb : okOpt s b) (hl : okOpt s l) (hr : okOpt s r) :
    (mergeKeyFastG pick ⟨sameVM s, fl⟩ b l r).map KeyOut.obs = .ok (specKey s b l r) := by
  unfold mergeKeyFastG specKey
  by_cases h1 : r = b
  · have e1 := (rowDiff_none_iff s b r hb hr).2 h1
    simp only [e1, if_true]
    simp [h1, Except.map, KeyOut.obs]
  · have n1 : ¬ rowDiff false b r = .none := fun e => h1 ((rowDiff_none_iff s b r hb hr).1 e)
    by_cases h2 : l = b
    · have e2 := (rowDiff_none_iff s b l hb hl).2 h2
      simp only [n1, e2, if_true, if_false]
      simp [h1, h2, Except.map, KeyOut.obs]
    · have n2 : ¬ rowDiff false b l = .none := fun e => h2 ((rowDiff_none_iff s b l hb hl).1 e)
      by_cases h3 : l = r
      · have e3 := (rawEqOpt_iff s l r hl hr).2 h3
        simp only [n1, n2, e3, if_true, if_false]
        simp [h1, h2, h3, Except.map, KeyOut.obs]
      · have n3 : ¬ rawEqOpt l r = true := fun e => h3 ((rawEqOpt_iff s l r hl hr).1 e)
        simp only [n1, n2, n3, h1, h2, h3, if_false]
        cases l with
        | none =>
          cases r with
          | none => exact absurd rfl h3
          | some rr =>
            cases b with
            | none => exact absurd rfl h2
            | some bb =>
              have hne : ¬ rr = bb := fun e => h1 (by rw [e])
              simp [tryMerge_same_leftDeleted s hd pick bb rr (hb bb rfl) (hr rr rfl), hne,
                bind, Except.bind, pure, Except.pure, Except.map, KeyOut.obs]
        | some ll =>
          cases r with
          | none =>
            cases b with
            | none => exact absurd rfl h1
            | some bb =>
              have hne : ¬ ll = bb := fun e => h2 (by rw [e])
              simp [tryMerge_same_rightDeleted s hd pick hp bb ll (hb bb rfl) (hl ll rfl), hne,
                bind, Except.bind, pure, Except.pure, Except.map, KeyOut.obs]
          | some rr =>
            rw [tryMerge_same_both s hd pick b ll rr hb (hl ll rfl) (hr rr rfl)]
            cases hm : rowMergeSpec s b ll rr <;>
              simp [hm, bind, Except.bind, pure, Except.pure, Except.map, KeyOut.obs]

/-! ### tables -/

/-- every stored row is well typed for the table's schema -/
def tableOk (t : Table) : Bool := t.rows.all (fun p => rowOk t.sch p.2)

theorem get_mem (rows : Rows) (k : Key) (r : Row) (h : get rows k = some r) : (k, r) ∈ rows := by
  induction rows with
  | nil => simp [get] at h
  | cons p rest ih =>
    obtain ⟨k', r'⟩ := p
    simp only [get] at h
    by_cases hk : k' = k
    · simp [hk] at h; subst h; subst hk; simp
    · simp [hk] at h; exact List.mem_cons_of_mem _ (ih h)

theorem okOpt_get (s : Schema) (rows : Rows) (h : tableOk ⟨s, rows⟩ = true) (k : Key) :
    okOpt s (get rows k) := by
  intro row hr
  have hm := get_mem rows k row hr
  simp only [tableOk, List.all_eq_true] at h
  exact h (k, row) hm

theorem mem_insertKey (k x : Key) (xs : List Key) : x ∈ insertKey k xs ↔ x = k ∨ x ∈ xs := by
  induction xs with
  | nil => simp [insertKey]
  | cons y ys ih =>
    simp only [insertKey]
    split
    · simp
    · split
      · next h => subst h; simp
      · simp only [List.mem_cons, ih]
        constructor
        · rintro (h | h | h)
          · exact Or.inr (Or.inl h)
          · exact Or.inl h
          · exact Or.inr (Or.inr h)
        · rintro (h | h | h)
          · exact Or.inr (Or.inl h)
          · exact Or.inl h
          · exact Or.inr (Or.inr h)

theorem mem_foldr_insertKey (ps : Rows) (x : Key) :
    x ∈ ps.foldr (fun p acc => insertKey p.1 acc) [] ↔ ∃ r, (x, r) ∈ ps := by
  induction ps with
  | nil => simp
  | cons p rest ih =>
    obtain ⟨k, r⟩ := p
    simp only [List.foldr_cons, mem_insertKey, ih, List.mem_cons, Prod.mk.injEq]
    constructor
    · rintro (h | ⟨r', h⟩)
      · exact ⟨r, Or.inl ⟨h, rfl⟩⟩
      · exact ⟨r', Or.inr h⟩
    · rintro ⟨r', (⟨h, _⟩ | h)⟩
      · exact Or.inl h
      · exact Or.inr ⟨r', h⟩

theorem get_none_of_not_allKeys (a b c : Rows) (k : Key) (h : k ∉ allKeys a b c) :
    get a k = none ∧ get b k = none ∧ get c k = none := by
  have hn : ∀ rows : Rows, (∀ r, (k, r) ∉ rows) → get rows k = none := by
    intro rows hr
    cases hg : get rows k with
    | none => rfl
    | some r => exact absurd (get_mem rows k r hg) (hr r)
  simp only [allKeys, mem_foldr_insertKey, List.mem_append, not_exists, not_or] at h
  exact ⟨hn a (fun r => (h r).1.1), hn b (fun r => (h r).1.2), hn c (fun r => (h r).2)⟩

/-- folding a per-key step that meets a per-key specification `g` yields a table and a conflict
list that meet it key by key -/
theorem mergeKeys_spec
    (f : Option Row → Option Row → Option Row → Except Err KeyOut)
    (g : Option Row → Option Row → Option Row → Option Row × Bool) (slow : Bool)
    (base left right : Rows) (keys : List Key)
    (h : ∀ k, (f (get base k) (get left k) (get right k)).map KeyOut.obs =
        .ok (g (get base k) (get left k) (get right k))) :
    ∃ rows confs st, mergeKeys f slow base left right keys = .ok (rows, confs, st) ∧
      (∀ k, get rows k = if k ∈ keys then (g (get base k) (get left k) (get right k)).1 else none) ∧
      (∀ k, k ∈ confs ↔ k ∈ keys ∧ (g (get base k) (get left k) (get right k)).2 = true) := by
  induction keys with
  | nil => exact ⟨[], [], {}, rfl, by simp [get], by simp⟩
  | cons k0 ks ih =>
    obtain ⟨rows, confs, st, hm, hrows, hconfs⟩ := ih
    have hk := h k0
    cases hf : f (get base k0) (get left k0) (get right k0) with
    | error e => simp [hf, Except.map] at hk
    | ok o =>
      simp [hf, Except.map, KeyOut.obs] at hk
      refine ⟨_, _, _, by simp only [mergeKeys, hf, hm, bind, Except.bind, pure, Except.pure]; rfl, ?_, ?_⟩
      · intro k
        by_cases hkk : k = k0
        · subst hkk
          cases hor : o.row with
          | some r => simp [hor, get, ← hk, hor]
          | none =>
            simp only [hor, hrows, List.mem_cons, true_or, if_true, ← hk]
            split <;> simp [hor]
        · have hkk' : ¬ k0 = k := fun e => hkk e.symm
          cases hor : o.row with
          | some r => simp [hor, get, hkk', hrows, hkk]
          | none => simp [hor, hrows, hkk]
      · intro k
        by_cases hkk : k = k0
        · subst hkk
          by_cases hc : o.conflict = true
          · simp [hc, ← hk]
          · simp [hc, hconfs, ← hk]
        · by_cases hc : o.conflict = true
          · simp [hc, hconfs, hkk]
          · simp [hc, hconfs, hkk]

end DoltVerif.RowMerge
