import DoltVerif.Lemmas.ProllyDiffRange
/-!
C13/C14 helper lemmas: what the merge walk `specDiff` of two strictly ascending association lists
is in terms of membership — every key whose presence or value differs, exactly once, ascending,
with the right From/To/type, and nothing else.
-/
namespace DoltVerif.ProllyDiff

/-- the laws of a total preorder presented as a three-way comparison -/
structure OrdLaws (cmp : Bytes → Bytes → Ordering) : Prop where
  refl : ∀ k, cmp k k = .eq
  gt_iff : ∀ a b, cmp a b = .gt ↔ cmp b a = .lt
  lt_trans : ∀ a b c, cmp a b = .lt → cmp b c = .lt → cmp a c = .lt
  eq_lt : ∀ a b c, cmp a b = .eq → cmp b c = .lt → cmp a c = .lt
  lt_eq : ∀ a b c, cmp a b = .lt → cmp b c = .eq → cmp a c = .lt

theorem OrdLaws.eq_symm {cmp} (h : OrdLaws cmp) {a b} (he : cmp a b = .eq) : cmp b a = .eq := by
  cases hc : cmp b a with
  | eq => rfl
  | lt => have := (h.gt_iff a b).mpr hc; rw [he] at this; simp at this
  | gt => have := (h.gt_iff b a).mp hc; rw [he] at this; simp at this

theorem OrdLaws.lt_irrefl {cmp} (h : OrdLaws cmp) {a} : cmp a a ≠ .lt := by rw [h.refl]; simp

theorem OrdLaws.eq_trans {cmp} (h : OrdLaws cmp) {a b c} (h1 : cmp a b = .eq) (h2 : cmp b c = .eq) : cmp a c = .eq := by
  cases hc : cmp a c with
  | eq => rfl
  | lt =>
    -- b ~ a < c ⇒ b < c, contradiction
    have := h.eq_lt b a c (h.eq_symm h1) hc; rw [h2] at this; simp at this
  | gt =>
    have h3 := (h.gt_iff a c).mp hc
    have := h.lt_eq c a b h3 h1
    have h4 := h.eq_symm h2
    rw [h4] at this; simp at this

def Event.isKey (cmp : Bytes → Bytes → Ordering) (e : Event) (k : Bytes) : Prop := cmp e.key k = .eq

/-- what the events of a diff must be, stated per key-value pair -/
def DiffSpec (cmp : Bytes → Bytes → Ordering) (cam : Bool) (a b : List KV) (e : Event) : Prop :=
  (∃ x ∈ a, e = Event.removed x ∧ ∀ y ∈ b, cmp x.1 y.1 ≠ .eq) ∨
  (∃ y ∈ b, e = Event.added y ∧ ∀ x ∈ a, cmp x.1 y.1 ≠ .eq) ∨
  (∃ x ∈ a, ∃ y ∈ b, e = Event.modified x y ∧ cmp x.1 y.1 = .eq ∧ (cam = true ∨ x.2 ≠ y.2))

theorem sorted_head_lt {cmp} {x : KV} {l : List KV} (h : Sorted cmp (x :: l)) : ∀ y ∈ l, cmp x.1 y.1 = .lt :=
  (List.pairwise_cons.mp h).1

theorem sorted_tail {cmp} {x : KV} {l : List KV} (h : Sorted cmp (x :: l)) : Sorted cmp l :=
  (List.pairwise_cons.mp h).2

/-- **specDiff_mem**: the merge walk reports exactly the differing keys with the right payload -/
theorem specDiff_mem {cmp} (ol : OrdLaws cmp) (cam : Bool) : ∀ (a b : List KV), Sorted cmp a → Sorted cmp b →
    ∀ e, e ∈ specDiff cmp cam a b ↔ DiffSpec cmp cam a b e
  | [], b, _, _, e => by
    simp [specDiff, DiffSpec]
    constructor
    · rintro ⟨k, v, h, rfl⟩; exact ⟨k, v, h, rfl⟩
    · rintro ⟨k, v, h, rfl⟩; exact ⟨k, v, h, rfl⟩
  | x :: as, [], _, _, e => by
    simp only [specDiff, DiffSpec, List.mem_map]
    constructor
    · rintro ⟨kv, h, rfl⟩; exact Or.inl ⟨kv, h, rfl, by simp⟩
    · rintro (⟨kv, h, rfl, _⟩ | ⟨y, hy, _⟩ | ⟨_, _, y, hy, _⟩)
      · exact ⟨kv, h, rfl⟩
      · simp at hy
      · simp at hy
  | x :: as, y :: bs, sa, sb, e => by
    have hxa := sorted_head_lt sa
    have hyb := sorted_head_lt sb
    rw [specDiff]
    cases hc : cmp x.1 y.1 with
    | lt =>
      simp only []
      have ih := specDiff_mem ol cam as (y :: bs) (sorted_tail sa) sb e
      have hxb : ∀ y' ∈ y :: bs, cmp x.1 y'.1 = .lt := by
        intro y' hy'
        simp at hy'
        rcases hy' with rfl | hy'
        · exact hc
        · exact ol.lt_trans _ _ _ hc (hyb y' hy')
      rw [List.mem_cons, ih]
      constructor
      · rintro (rfl | h)
        · exact Or.inl ⟨x, by simp, rfl, fun y' hy' => by rw [hxb y' hy']; simp⟩
        · rcases h with ⟨x', hx', rfl, hno⟩ | ⟨y', hy', rfl, hno⟩ | ⟨x', hx', y', hy', rfl, he, hv⟩
          · exact Or.inl ⟨x', by simp [hx'], rfl, hno⟩
          · refine Or.inr (Or.inl ⟨y', hy', rfl, ?_⟩)
            intro x'' hx''
            simp at hx''
            rcases hx'' with rfl | hx''
            · rw [hxb y' hy']; simp
            · exact hno x'' hx''
          · exact Or.inr (Or.inr ⟨x', by simp [hx'], y', hy', rfl, he, hv⟩)
      · rintro (⟨x', hx', rfl, hno⟩ | ⟨y', hy', rfl, hno⟩ | ⟨x', hx', y', hy', rfl, he, hv⟩)
        · simp at hx'
          rcases hx' with rfl | hx'
          · exact Or.inl rfl
          · exact Or.inr (Or.inl ⟨x', hx', rfl, hno⟩)
        · exact Or.inr (Or.inr (Or.inl ⟨y', hy', rfl, fun x'' hx'' => hno x'' (by simp [hx''])⟩))
        · simp at hx'
          rcases hx' with rfl | hx'
          · rw [hxb y' hy'] at he; simp at he
          · exact Or.inr (Or.inr (Or.inr ⟨x', hx', y', hy', rfl, he, hv⟩))
    | gt =>
      simp only []
      have hlt : cmp y.1 x.1 = .lt := (ol.gt_iff _ _).mp hc
      have ih := specDiff_mem ol cam (x :: as) bs sa (sorted_tail sb) e
      have hya : ∀ x' ∈ x :: as, cmp y.1 x'.1 = .lt := by
        intro x' hx'
        simp at hx'
        rcases hx' with rfl | hx'
        · exact hlt
        · exact ol.lt_trans _ _ _ hlt (hxa x' hx')
      have hne : ∀ x' ∈ x :: as, cmp x'.1 y.1 ≠ .eq := by
        intro x' hx' he
        have := ol.eq_symm he; rw [hya x' hx'] at this; simp at this
      rw [List.mem_cons, ih]
      constructor
      · rintro (rfl | h)
        · exact Or.inr (Or.inl ⟨y, by simp, rfl, hne⟩)
        · rcases h with ⟨x', hx', rfl, hno⟩ | ⟨y', hy', rfl, hno⟩ | ⟨x', hx', y', hy', rfl, he, hv⟩
          · refine Or.inl ⟨x', hx', rfl, ?_⟩
            intro y'' hy''
            simp at hy''
            rcases hy'' with rfl | hy''
            · exact hne x' hx'
            · exact hno y'' hy''
          · exact Or.inr (Or.inl ⟨y', by simp [hy'], rfl, hno⟩)
          · exact Or.inr (Or.inr ⟨x', hx', y', by simp [hy'], rfl, he, hv⟩)
      · rintro (⟨x', hx', rfl, hno⟩ | ⟨y', hy', rfl, hno⟩ | ⟨x', hx', y', hy', rfl, he, hv⟩)
        · exact Or.inr (Or.inl ⟨x', hx', rfl, fun y'' hy'' => hno y'' (by simp [hy''])⟩)
        · simp at hy'
          rcases hy' with rfl | hy'
          · exact Or.inl rfl
          · exact Or.inr (Or.inr (Or.inl ⟨y', hy', rfl, hno⟩))
        · simp at hy'
          rcases hy' with rfl | hy'
          · exact absurd he (hne x' hx')
          · exact Or.inr (Or.inr (Or.inr ⟨x', hx', y', hy', rfl, he, hv⟩))
    | eq =>
      simp only []
      have ih := specDiff_mem ol cam as bs (sorted_tail sa) (sorted_tail sb) e
      have hxb : ∀ y' ∈ bs, cmp x.1 y'.1 = .lt := fun y' hy' => ol.eq_lt _ _ _ hc (hyb y' hy')
      have hya : ∀ x' ∈ as, cmp y.1 x'.1 = .lt := fun x' hx' => ol.eq_lt _ _ _ (ol.eq_symm hc) (hxa x' hx')
      have hya' : ∀ x' ∈ as, cmp x'.1 y.1 ≠ .eq := by
        intro x' hx' he
        have := ol.eq_symm he; rw [hya x' hx'] at this; simp at this
      have key : DiffSpec cmp cam (x :: as) (y :: bs) e ↔
          (e = Event.modified x y ∧ (cam = true ∨ x.2 ≠ y.2)) ∨ DiffSpec cmp cam as bs e := by
        constructor
        · rintro (⟨x', hx', rfl, hno⟩ | ⟨y', hy', rfl, hno⟩ | ⟨x', hx', y', hy', rfl, he, hv⟩)
          · simp at hx'
            rcases hx' with rfl | hx'
            · exact absurd hc (hno y (by simp))
            · exact Or.inr (Or.inl ⟨x', hx', rfl, fun y'' hy'' => hno y'' (by simp [hy''])⟩)
          · simp at hy'
            rcases hy' with rfl | hy'
            · exact absurd hc (hno x (by simp))
            · exact Or.inr (Or.inr (Or.inl ⟨y', hy', rfl, fun x'' hx'' => hno x'' (by simp [hx''])⟩))
          · simp at hx' hy'
            rcases hx' with rfl | hx'
            · rcases hy' with rfl | hy'
              · exact Or.inl ⟨rfl, hv⟩
              · rw [hxb y' hy'] at he; simp at he
            · rcases hy' with rfl | hy'
              · exact absurd he (hya' x' hx')
              · exact Or.inr (Or.inr (Or.inr ⟨x', hx', y', hy', rfl, he, hv⟩))
        · rintro (⟨rfl, hv⟩ | h)
          · exact Or.inr (Or.inr ⟨x, by simp, y, by simp, rfl, hc, hv⟩)
          · rcases h with ⟨x', hx', rfl, hno⟩ | ⟨y', hy', rfl, hno⟩ | ⟨x', hx', y', hy', rfl, he, hv⟩
            · refine Or.inl ⟨x', by simp [hx'], rfl, ?_⟩
              intro y'' hy''
              simp at hy''
              rcases hy'' with rfl | hy''
              · exact hya' x' hx'
              · exact hno y'' hy''
            · refine Or.inr (Or.inl ⟨y', by simp [hy'], rfl, ?_⟩)
              intro x'' hx''
              simp at hx''
              rcases hx'' with rfl | hx''
              · rw [hxb y' hy']; simp
              · exact hno x'' hx''
            · exact Or.inr (Or.inr ⟨x', by simp [hx'], y', by simp [hy'], rfl, he, hv⟩)
      rw [key]
      by_cases hm : (cam || x.2 != y.2) = true
      · simp only [hm, if_true, List.mem_cons, ih]
        have : (cam = true ∨ x.2 ≠ y.2) := by simpa using hm
        simp [this]
      · have : ¬ (cam = true ∨ x.2 ≠ y.2) := by simpa using hm
        simp only [hm]
        simp [this, ih]
termination_by a b => a.length + b.length

/-- keys of the events of a diff come from the two lists -/
theorem DiffSpec.key_mem {cmp cam a b e} (h : DiffSpec cmp cam a b e) :
    (∃ x ∈ a, e.key = x.1) ∨ (∃ y ∈ b, e.key = y.1) := by
  rcases h with ⟨x, hx, rfl, _⟩ | ⟨y, hy, rfl, _⟩ | ⟨x, hx, y, _, rfl, _, _⟩
  · exact Or.inl ⟨x, hx, rfl⟩
  · exact Or.inr ⟨y, hy, rfl⟩
  · exact Or.inl ⟨x, hx, rfl⟩

/-- **specDiff_ascending**: event keys strictly ascend (so no key is reported twice) -/
theorem specDiff_ascending {cmp} (ol : OrdLaws cmp) (cam : Bool) : ∀ (a b : List KV), Sorted cmp a → Sorted cmp b →
    (specDiff cmp cam a b).Pairwise (fun e1 e2 => cmp e1.key e2.key = .lt)
  | [], b, _, sb => by
    simp only [specDiff]
    exact List.Pairwise.map _ (fun _ _ h => h) sb
  | x :: as, [], sa, _ => by
    simp only [specDiff]
    exact List.Pairwise.map _ (fun _ _ h => h) sa
  | x :: as, y :: bs, sa, sb => by
    have hxa := sorted_head_lt sa
    have hyb := sorted_head_lt sb
    rw [specDiff]
    cases hc : cmp x.1 y.1 with
    | lt =>
      simp only []
      refine List.pairwise_cons.mpr ⟨?_, specDiff_ascending ol cam as (y :: bs) (sorted_tail sa) sb⟩
      intro e he
      rcases ((specDiff_mem ol cam _ _ (sorted_tail sa) sb e).mp he).key_mem with ⟨x', hx', hk⟩ | ⟨y', hy', hk⟩
      · rw [hk]; exact hxa x' hx'
      · rw [hk]
        simp at hy'
        rcases hy' with rfl | hy'
        · exact hc
        · exact ol.lt_trans _ _ _ hc (hyb y' hy')
    | gt =>
      simp only []
      have hlt : cmp y.1 x.1 = .lt := (ol.gt_iff _ _).mp hc
      refine List.pairwise_cons.mpr ⟨?_, specDiff_ascending ol cam (x :: as) bs sa (sorted_tail sb)⟩
      intro e he
      rcases ((specDiff_mem ol cam _ _ sa (sorted_tail sb) e).mp he).key_mem with ⟨x', hx', hk⟩ | ⟨y', hy', hk⟩
      · rw [hk]
        simp at hx'
        rcases hx' with rfl | hx'
        · exact hlt
        · exact ol.lt_trans _ _ _ hlt (hxa x' hx')
      · rw [hk]; exact hyb y' hy'
    | eq =>
      simp only []
      have ih := specDiff_ascending ol cam as bs (sorted_tail sa) (sorted_tail sb)
      split
      · refine List.pairwise_cons.mpr ⟨?_, ih⟩
        intro e he
        rcases ((specDiff_mem ol cam _ _ (sorted_tail sa) (sorted_tail sb) e).mp he).key_mem with ⟨x', hx', hk⟩ | ⟨y', hy', hk⟩
        · rw [hk]; exact hxa x' hx'
        · rw [hk]; exact ol.eq_lt _ _ _ hc (hyb y' hy')
      · exact ih
termination_by a b => a.length + b.length

end DoltVerif.ProllyDiff
