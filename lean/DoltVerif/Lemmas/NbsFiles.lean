import DoltVerif.Model.NbsFiles
/-! Helper lemmas for C01/C06: the carried binary search, the equal-prefix scan, well-formed indexes. -/
namespace DoltVerif.NbsFiles

/-- ascending (ties allowed, in any order) -/
def SortedArr (p : Array Nat) : Prop :=
  ∀ i j (hi : i < p.size) (hj : j < p.size), i ≤ j → p[i] ≤ p[j]

/-- `r` is the lower bound of `t` in `p`: everything before is `< t`, everything from `r` on is `≥ t`. -/
def IsLowerBound (p : Array Nat) (t r : Nat) : Prop :=
  r ≤ p.size ∧ (∀ k (hk : k < p.size), k < r → p[k] < t) ∧ (∀ k (hk : k < p.size), r ≤ k → t ≤ p[k])

theorem findFrom_spec (p : Array Nat) (t : Nat) (hs : SortedArr p) :
    ∀ (d i j : Nat) (hj : j ≤ p.size), j - i = d → i ≤ j →
      (∀ k (hk : k < p.size), k < i → p[k] < t) →
      (∀ k (hk : k < p.size), j ≤ k → t ≤ p[k]) →
      i ≤ findFrom p t i j hj ∧ IsLowerBound p t (findFrom p t i j hj) := by
  intro d
  induction d using Nat.strongRecOn with
  | _ d ih =>
    intro i j hj hd hij hlo hhi
    rw [findFrom]
    by_cases h : i < j
    · simp only [h, dite_true]
      have hm : i + (j - i) / 2 < j := by omega
      have hmp : i + (j - i) / 2 < p.size := by omega
      by_cases hc : p[i + (j - i) / 2] < t
      · simp only [hc, if_true]
        have := ih (j - (i + (j - i) / 2 + 1)) (by omega) (i + (j - i) / 2 + 1) j hj rfl (by omega)
          (by
            intro k hk hkm
            have := hs k (i + (j - i) / 2) hk hmp (by omega)
            omega)
          hhi
        exact ⟨by omega, this.2⟩
      · simp only [hc, if_false]
        have := ih ((i + (j - i) / 2) - i) (by omega) i (i + (j - i) / 2) (by omega) rfl (by omega) hlo
          (by
            intro k hk hkm
            have := hs (i + (j - i) / 2) k hmp hk hkm
            omega)
        exact this
    · simp only [h, dite_false]
      have : i = j := by omega
      subst this
      exact ⟨Nat.le_refl _, hj, hlo, hhi⟩

/-- the index invariants `parseIndex` of a written file establishes -/
structure WF (ix : Idx) : Prop where
  ord_size : ix.ord.size = ix.pfx.size
  suf_size : ix.suf.size = ix.pfx.size
  len_size : ix.len.size = ix.pfx.size
  ord_lt : ∀ i (h : i < ix.ord.size), ix.ord[i] < ix.pfx.size

/-- tuple row `k` is the address `a` -/
def RowIs (ix : Idx) (k : Nat) (a : Addr) : Prop :=
  ∃ hk : k < ix.pfx.size, ix.pfx[k] = a.pre ∧ rowSuf ix k = some a.suf

/-- `a` is one of the addresses the index lists -/
def Mem (ix : Idx) (a : Addr) : Prop := ∃ k, RowIs ix k a

theorem rowSuf_some (ix : Idx) (hwf : WF ix) (k : Nat) (hk : k < ix.pfx.size) :
    ∃ s, rowSuf ix k = some s := by
  have h1 : k < ix.ord.size := by rw [hwf.ord_size]; exact hk
  have h2 : ix.ord[k] < ix.suf.size := by rw [hwf.suf_size]; exact hwf.ord_lt k h1
  refine ⟨ix.suf[ix.ord[k]], ?_⟩
  simp [rowSuf, Array.getElem?_eq_getElem h1, Array.getElem?_eq_getElem h2]

theorem scanRun_spec (ix : Idx) (a : Addr) (hwf : WF ix) (hs : SortedArr ix.pfx) :
    ∀ (d j : Nat), ix.pfx.size - j = d →
      (∀ k (hk : k < ix.pfx.size), j ≤ k → a.pre ≤ ix.pfx[k]) →
      (∃ k, scanRun ix a j = some (some k) ∧ j ≤ k ∧ RowIs ix k a) ∨
      (scanRun ix a j = some none ∧ ∀ k, j ≤ k → ¬ RowIs ix k a) := by
  intro d
  induction d using Nat.strongRecOn with
  | _ d ih =>
    intro j hd hge
    rw [scanRun]
    by_cases h : j < ix.pfx.size
    · simp only [h, dite_true]
      by_cases hp : ix.pfx[j] = a.pre
      · simp only [hp, if_true]
        obtain ⟨s, hsj⟩ := rowSuf_some ix hwf j h
        rw [hsj]
        by_cases hsa : s = a.suf
        · simp only [hsa, if_true]
          exact Or.inl ⟨j, rfl, Nat.le_refl _, h, hp, by rw [hsj, hsa]⟩
        · simp only [hsa, if_false]
          rcases ih (ix.pfx.size - (j + 1)) (by omega) (j + 1) rfl
              (fun k hk hjk => hge k hk (by omega)) with ⟨k, hk1, hk2, hk3⟩ | ⟨h1, h2⟩
          · exact Or.inl ⟨k, hk1, by omega, hk3⟩
          · refine Or.inr ⟨h1, ?_⟩
            intro k hjk hrow
            by_cases hkj : k = j
            · subst hkj
              obtain ⟨_, _, hr⟩ := hrow
              rw [hsj] at hr
              exact hsa (Option.some.inj hr)
            · exact h2 k (by omega) hrow
      · simp only [hp, if_false]
        refine Or.inr ⟨trivial, ?_⟩
        intro k hjk ⟨hk, hpk, _⟩
        have h1 := hs j k h hk hjk
        have h2 := hge j h (Nat.le_refl _)
        omega
    · simp only [h, dite_false]
      refine Or.inr ⟨trivial, ?_⟩
      intro k hjk ⟨hk, _⟩
      omega


theorem findPrefix_isLowerBound (ix : Idx) (t : Nat) (hs : SortedArr ix.pfx) :
    IsLowerBound ix.pfx t (findPrefix ix t) :=
  (findFrom_spec ix.pfx t hs _ 0 ix.pfx.size (Nat.le_refl _) rfl (Nat.zero_le _)
    (fun k _ h => absurd h (Nat.not_lt_zero k)) (fun k hk h => absurd hk (by omega))).2

/-- rows before the lower bound of `a.pre` cannot be `a` -/
theorem not_rowIs_before (ix : Idx) (a : Addr) (r : Nat) (hlb : IsLowerBound ix.pfx a.pre r)
    (k : Nat) (hk : k < r) : ¬ RowIs ix k a := by
  intro ⟨hks, hp, _⟩
  have := hlb.2.1 k hks hk
  omega

theorem lookupOrdinal_spec (ix : Idx) (a : Addr) (hwf : WF ix) (hs : SortedArr ix.pfx) :
    (∃ k, RowIs ix k a ∧ ∃ hk : k < ix.ord.size, lookupOrdinal ix a = some ix.ord[k]) ∨
    (lookupOrdinal ix a = some ix.count ∧ ¬ Mem ix a) := by
  have hlb := findPrefix_isLowerBound ix a.pre hs
  rcases scanRun_spec ix a hwf hs _ (findPrefix ix a.pre) rfl hlb.2.2 with ⟨k, h1, _, h3⟩ | ⟨h1, h2⟩
  · left
    obtain ⟨hk, hp0, hs0⟩ := h3
    have hk' : k < ix.ord.size := by rw [hwf.ord_size]; exact hk
    refine ⟨k, ⟨hk, hp0, hs0⟩, hk', ?_⟩
    simp [lookupOrdinal, h1, Array.getElem?_eq_getElem hk']
  · right
    refine ⟨by simp [lookupOrdinal, h1], ?_⟩
    intro ⟨k, hrow⟩
    by_cases hk : k < findPrefix ix a.pre
    · exact not_rowIs_before ix a _ hlb k hk hrow
    · exact h2 k (by omega) hrow

/-- `has` answers exactly membership, and never panics, on a well-formed sorted index -/
theorem has_spec (ix : Idx) (a : Addr) (hwf : WF ix) (hs : SortedArr ix.pfx) :
    (has ix a = some true ∧ Mem ix a) ∨ (has ix a = some false ∧ ¬ Mem ix a) := by
  rcases lookupOrdinal_spec ix a hwf hs with ⟨k, hrow, hk, h⟩ | ⟨h, hn⟩
  · left
    refine ⟨?_, k, hrow⟩
    have h1 : ix.ord[k] < ix.pfx.size := hwf.ord_lt k hk
    have h2 : ix.ord[k] < ix.len.size := by rw [hwf.len_size]; exact h1
    have h3 : ix.ord[k] ≠ ix.count := by unfold Idx.count; omega
    simp [has, lookup, h, h3, indexEntry, Array.getElem?_eq_getElem h2]
  · right
    exact ⟨by simp [has, lookup, h], hn⟩

/-- pointwise relation between two lists of equal length (core has no `Forall₂`) -/
inductive All2 {α β : Type} (P : α → β → Prop) : List α → List β → Prop
  | nil : All2 P [] []
  | cons {a b as bs} : P a b → All2 P as bs → All2 P (a :: as) (b :: bs)

theorem forall2_self {α : Type} (P : α → α → Prop) : ∀ (l : List α), (∀ x ∈ l, P x x) → All2 P l l
  | [], _ => All2.nil
  | x :: xs, h => All2.cons (h x (List.mem_cons_self ..)) (forall2_self P xs (fun y hy => h y (List.mem_cons_of_mem _ hy)))

/-- what one output record must satisfy -/
def HasOut (ix : Idx) (r o : HasRec) : Prop := o.a = r.a ∧ (o.has = true ↔ (r.has = true ∨ Mem ix r.a))

theorem hasManyGo_spec (ix : Idx) (hwf : WF ix) (hs : SortedArr ix.pfx) :
    ∀ (rs : List HasRec) (fi : Nat) (rem : Bool), fi ≤ ix.pfx.size →
      rs.Pairwise (fun x y => x.a.pre ≤ y.a.pre) →
      (∀ r ∈ rs, ∀ k (hk : k < ix.pfx.size), k < fi → ix.pfx[k] < r.a.pre) →
      ∃ out rem', hasManyGo ix rs fi rem = some (out, rem') ∧
        All2 (HasOut ix) rs out ∧ (rem = true → rem' = true) ∧
        (rem' = false → ∀ o ∈ out, o.has = true) := by
  intro rs
  induction rs with
  | nil =>
    intro fi rem _ _ _
    exact ⟨[], rem, rfl, All2.nil, id, fun _ o ho => absurd ho (List.not_mem_nil)⟩
  | cons r rs ih =>
    intro fi rem hfi hpw hinv
    have hpw' := (List.pairwise_cons.mp hpw)
    have hinv' : ∀ r' ∈ rs, ∀ k (hk : k < ix.pfx.size), k < fi → ix.pfx[k] < r'.a.pre :=
      fun r' hr' => hinv r' (List.mem_cons_of_mem _ hr')
    rw [hasManyGo]
    by_cases hh : r.has = true
    · simp only [hh, if_true]
      obtain ⟨out, rem', h1, h2, h3, h4⟩ := ih fi rem hfi hpw'.2 hinv'
      refine ⟨r :: out, rem', by simp [h1], All2.cons ⟨rfl, by simp [hh]⟩ h2, h3, ?_⟩
      intro hr o ho
      rcases List.mem_cons.mp ho with rfl | ho
      · exact hh
      · exact h4 hr o ho
    · simp only [hh, Bool.false_eq_true, if_false, hfi, dite_true]
      obtain ⟨hge, hlb⟩ := findFrom_spec ix.pfx r.a.pre hs _ fi ix.pfx.size (Nat.le_refl _) rfl hfi
        (hinv r (List.mem_cons_self ..)) (fun k hk h => absurd hk (by omega))
      -- the tail invariant at the new filterIdx
      have hinvT : ∀ r' ∈ rs, ∀ k (hk : k < ix.pfx.size),
          k < findFrom ix.pfx r.a.pre fi ix.pfx.size (Nat.le_refl _) → ix.pfx[k] < r'.a.pre := by
        intro r' hr' k hk hlt
        have := hlb.2.1 k hk hlt
        have := hpw'.1 r' hr'
        omega
      by_cases hlt : findFrom ix.pfx r.a.pre fi ix.pfx.size (Nat.le_refl _) < ix.pfx.size
      · simp only [hlt, dite_true]
        by_cases hne : ix.pfx[findFrom ix.pfx r.a.pre fi ix.pfx.size (Nat.le_refl _)] = r.a.pre
        · simp only [hne, ne_eq, not_true_eq_false, if_false]
          rcases scanRun_spec ix r.a hwf hs _ _ rfl hlb.2.2 with ⟨k, hk1, _, hk3⟩ | ⟨hn1, hn2⟩
          · rw [hk1]
            obtain ⟨out, rem', h1, h2, h3, h4⟩ := ih _ rem hlb.1 hpw'.2 hinvT
            refine ⟨{ r with has := true } :: out, rem', by simp [h1],
              All2.cons ⟨rfl, by simp; exact Or.inr ⟨k, hk3⟩⟩ h2, h3, ?_⟩
            intro hr o ho
            rcases List.mem_cons.mp ho with rfl | ho
            · rfl
            · exact h4 hr o ho
          · rw [hn1]
            have hnm : ¬ Mem ix r.a := by
              intro ⟨k, hrow⟩
              by_cases hk : k < findFrom ix.pfx r.a.pre fi ix.pfx.size (Nat.le_refl _)
              · exact not_rowIs_before ix r.a _ hlb k hk hrow
              · exact hn2 k (by omega) hrow
            obtain ⟨out, rem', h1, h2, h3, h4⟩ := ih _ true hlb.1 hpw'.2 hinvT
            refine ⟨r :: out, rem', by simp [h1], All2.cons ⟨rfl, by simp [hh, hnm]⟩ h2,
              fun _ => h3 rfl, ?_⟩
            intro hr
            rw [h3 rfl] at hr
            exact absurd hr (by simp)
        · simp only [hne, ne_eq, not_false_eq_true, if_true]
          have hnm : ¬ Mem ix r.a := by
            intro ⟨k, hrow⟩
            by_cases hk : k < findFrom ix.pfx r.a.pre fi ix.pfx.size (Nat.le_refl _)
            · exact not_rowIs_before ix r.a _ hlb k hk hrow
            · obtain ⟨hks, hp, _⟩ := hrow
              have h1 := hs _ k hlt hks (by omega)
              have h2 := hlb.2.2 _ hlt (Nat.le_refl _)
              omega
          obtain ⟨out, rem', h1, h2, h3, h4⟩ := ih _ true hlb.1 hpw'.2 hinvT
          refine ⟨r :: out, rem', by simp [h1], All2.cons ⟨rfl, by simp [hh, hnm]⟩ h2,
            fun _ => h3 rfl, ?_⟩
          intro hr
          rw [h3 rfl] at hr
          exact absurd hr (by simp)
      · -- early exit: every remaining request lies beyond the last prefix of the index
        simp only [hlt, dite_false]
        have hall : ∀ r' ∈ r :: rs, ¬ Mem ix r'.a := by
          intro r' hr' ⟨k, hks, hp, _⟩
          have h1 := hlb.2.1 k hks (by omega)
          have h2 : r.a.pre ≤ r'.a.pre := by
            rcases List.mem_cons.mp hr' with rfl | hr'
            · exact Nat.le_refl _
            · exact hpw'.1 r' hr'
          omega
        refine ⟨r :: rs, true, rfl, forall2_self (HasOut ix) _ (fun x hx => (⟨rfl, by simp [hall x hx]⟩ : HasOut ix x x)), fun _ => rfl, ?_⟩
        intro hr
        exact absurd hr (by simp)

end DoltVerif.NbsFiles
