import DoltVerif.Model.BigValues
/-! Blob trees: leaves concatenate to the data; full reads; capacity of the top level (C16). -/
namespace DoltVerif.BigValues
open DoltVerif.ValCodec (Bytes)

/-- every `Read` returns at least one byte while data remains -/
def PositiveReads (seg : List Nat) : Prop := ∀ s ∈ seg, 0 < s

/-- every `Read` fills the buffer (what `bytes.Reader` does) -/
def FullReads (bufLen : Nat) (seg : List Nat) : Prop := ∀ s ∈ seg, bufLen ≤ s

theorem leafChunks_step (bufLen fuel : Nat) (data : Bytes) (seg : List Nat) (want : Nat)
    (hw : want = match seg with | [] => bufLen | s :: _ => min bufLen s) :
    leafChunks bufLen (fuel + 1) data seg =
      if min want data.length = 0 then []
      else data.take (min want data.length) :: leafChunks bufLen fuel (data.drop (min want data.length)) seg.tail := by
  subst hw; rfl

theorem leafChunks_flatten (bufLen : Nat) (hb : 0 < bufLen) :
    ∀ (fuel : Nat) (data : Bytes) (seg : List Nat), data.length < fuel → PositiveReads seg →
      (leafChunks bufLen fuel data seg).flatten = data := by
  intro fuel
  induction fuel with
  | zero => intro data seg h; omega
  | succ fuel ih =>
    intro data seg hf hp
    obtain ⟨want, hw, hpos⟩ : ∃ w, (w = match seg with | [] => bufLen | s :: _ => min bufLen s) ∧ 0 < w := by
      cases seg with
      | nil => exact ⟨bufLen, rfl, hb⟩
      | cons s ss => exact ⟨min bufLen s, rfl, by have := hp s (by simp); omega⟩
    rw [leafChunks_step bufLen fuel data seg want hw]
    by_cases hn : min want data.length = 0
    · rw [if_pos hn]
      have : data.length = 0 := by omega
      simp [List.length_eq_zero_iff.1 this]
    · rw [if_neg hn]
      simp only [List.flatten_cons]
      have hp' : PositiveReads seg.tail := fun s hs => hp s (List.mem_of_mem_tail hs)
      rw [ih _ _ (by simp; omega) hp', List.take_append_drop]

theorem leafChunks_full (bufLen : Nat) :
    ∀ (fuel : Nat) (data : Bytes) (seg : List Nat), FullReads bufLen seg →
      leafChunks bufLen fuel data seg = leafChunks bufLen fuel data [] := by
  intro fuel
  induction fuel with
  | zero => intro data seg _; rfl
  | succ fuel ih =>
    intro data seg hfull
    cases seg with
    | nil => rfl
    | cons s ss =>
      have hs : bufLen ≤ s := hfull s (by simp)
      have hss : FullReads bufLen ss := fun x hx => hfull x (by simp [hx])
      unfold leafChunks
      simp only [List.tail_cons, Nat.min_eq_left hs]
      have e1 := ih (data.drop (min bufLen data.length)) ss hss
      have e2 := ih (data.drop (min bufLen data.length)) [] (fun x hx => by simp at hx)
      simp only [List.tail_nil]
      rw [e1]

/-- number of leaves of full reads: `(L - 1) * cs < D` -/
theorem leafChunks_count (cs : Nat) (hc : 0 < cs) :
    ∀ (fuel : Nat) (data : Bytes), (leafChunks cs fuel data []).length * cs < data.length + cs := by
  intro fuel
  induction fuel with
  | zero => intro data; simp [leafChunks]; omega
  | succ fuel ih =>
    intro data
    unfold leafChunks
    simp only [List.tail_nil]
    by_cases hn : min cs data.length = 0
    · rw [if_pos hn]; simp; omega
    · rw [if_neg hn]
      have := ih (data.drop (min cs data.length))
      simp only [List.length_cons, List.length_drop] at this ⊢
      by_cases hle : data.length ≤ cs
      · rw [Nat.min_eq_right hle] at this ⊢
        simp only [Nat.sub_self] at this
        have h0 : (leafChunks cs fuel (List.drop data.length data) []).length = 0 := by
          have : (leafChunks cs fuel (List.drop data.length data) []).length * cs < cs := by omega
          rcases Nat.eq_zero_or_pos (leafChunks cs fuel (List.drop data.length data) []).length with h | h
          · exact h
          · exfalso
            have : cs ≤ (leafChunks cs fuel (List.drop data.length data) []).length * cs :=
              Nat.le_mul_of_pos_left cs h
            omega
        rw [h0]; omega
      · rw [Nat.min_eq_left (by omega)] at this ⊢
        rw [Nat.add_mul]; omega

theorem topLevelLoop_bound (sz : Nat) (hs : 2 ≤ sz) :
    ∀ (fuel ds : Nat), ds < fuel → ds < sz ^ topLevelLoop sz fuel ds := by
  intro fuel
  induction fuel with
  | zero => intro ds h; omega
  | succ fuel ih =>
    intro ds h
    unfold topLevelLoop
    by_cases h0 : ds > 0
    · rw [if_pos h0]
      have hlt : ds / sz < ds := Nat.div_lt_self h0 (by omega)
      have := ih (ds / sz) (by omega)
      rw [Nat.add_comm, Nat.pow_succ]
      exact (Nat.div_lt_iff_lt_mul (by omega)).1 this
    · rw [if_neg h0]; simp; omega

/-- with full reads every leaf fits under the single node of the top level -/
theorem leaves_fit (cs : Nat) (hs : 2 ≤ cs / addrLen) (data : Bytes) (fuel : Nat) :
    (leafChunks cs fuel data []).length ≤ (cs / addrLen) ^ topLevelOf cs data.length := by
  have hc : 0 < cs := by
    rcases Nat.eq_zero_or_pos cs with h | h
    · subst h; simp at hs
    · exact h
  have h1 := leafChunks_count cs hc fuel data
  have h2 := topLevelLoop_bound (cs / addrLen) hs (data.length + 1) (data.length / cs)
    (by have := Nat.div_le_self data.length cs; omega)
  unfold topLevelOf
  -- L * cs < D + cs  →  L ≤ D / cs + 1... we need L - 1 ≤ D / cs
  have h3 : (leafChunks cs fuel data []).length ≤ data.length / cs + 1 := by
    rcases Nat.eq_zero_or_pos (leafChunks cs fuel data []).length with h | h
    · rw [h]; exact Nat.zero_le _
    · have : ((leafChunks cs fuel data []).length - 1) * cs < data.length := by
        have e : (leafChunks cs fuel data []).length = ((leafChunks cs fuel data []).length - 1) + 1 := by omega
        rw [e, Nat.add_mul] at h1; omega
      have := (Nat.le_div_iff_mul_le hc).2 (Nat.le_of_lt this)
      omega
  omega

end DoltVerif.BigValues
