/-
Gluing the levels of `ApplyMutations`: how the outputs of level `n` become the regions of level
`n+1` (`regionsUp`), and that soundness of the dirty marking is inherited from the canonical
structure of the old tree.
-/
import DoltVerif.Lemmas.Levels
import DoltVerif.Lemmas.LeafRegions
namespace DoltVerif.Prolly

variable {σ α κ ν : Type}

theorem sound_of_canon (L : LevelCfg σ α) : ∀ (rs : List (Region α)),
    L.Canon (rs.map (·.old)) → CleanUnchanged rs → L.Sound rs
  | [], _, _ => trivial
  | [r], hc, hu => fun hd => ⟨hu r (by simp) hd, hc⟩
  | r :: r' :: rs, hc, hu => by
    have hc' : L.Closed r.old ∧ L.Canon ((r' :: rs).map (·.old)) := hc
    exact ⟨fun hd => ⟨hu r (by simp) hd, hc'.1⟩,
      sound_of_canon L (r' :: rs) hc'.2 (fun x hx => hu x (by simp [hx]))⟩

theorem LevelCfg.incr_length (L : LevelCfg σ α) : ∀ (rs : List (Region α)) (st : St σ α),
    (L.incr st rs).length = rs.length
  | [], _ => rfl
  | [r], st => by
    by_cases hc : (st.cur.isEmpty && !r.dirty) = true
    · simp only [Bool.and_eq_true, Bool.not_eq_true', List.isEmpty_iff] at hc
      rw [L.incr_reused st r [] hc.1 hc.2]; simp [LevelCfg.incr]
    · rw [L.incr_fresh_last st r hc]; rfl
  | r :: r' :: rs, st => by
    by_cases hc : (st.cur.isEmpty && !r.dirty) = true
    · simp only [Bool.and_eq_true, Bool.not_eq_true', List.isEmpty_iff] at hc
      rw [L.incr_reused st r _ hc.1 hc.2, List.length_cons, L.incr_length (r' :: rs) st]; rfl
    · rw [L.incr_fresh_cons st r r' rs hc, List.length_cons, L.incr_length (r' :: rs)]; rfl

variable [Inhabited κ]

/-- per child slot, the parent level sees the summaries of what the child level left there -/
theorem incr_zip_summary (n : Nat) (L : LevelCfg σ (ItemH κ ν n)) :
    ∀ (rs : List (Region (ItemH κ ν n))) (st : St σ (ItemH κ ν n)),
      ((rs.map (fun r => summary n r.old)).zip (L.incr st rs)).flatMap (slotItems n)
        = ((L.incr st rs).flatMap Out.chunks).map (summary n)
  | [], _ => rfl
  | [r], st => by
    by_cases hc : (st.cur.isEmpty && !r.dirty) = true
    · simp only [Bool.and_eq_true, Bool.not_eq_true', List.isEmpty_iff] at hc
      rw [L.incr_reused st r [] hc.1 hc.2]
      simp [LevelCfg.incr, slotItems, Out.chunks]
    · rw [L.incr_fresh_last st r hc]
      simp [slotItems, Out.chunks]
  | r :: r' :: rs, st => by
    by_cases hc : (st.cur.isEmpty && !r.dirty) = true
    · simp only [Bool.and_eq_true, Bool.not_eq_true', List.isEmpty_iff] at hc
      have ih := incr_zip_summary n L (r' :: rs) st
      rw [L.incr_reused st r _ hc.1 hc.2, List.map_cons, List.zip_cons_cons, List.flatMap_cons, ih,
        List.flatMap_cons, List.map_append]
      simp [slotItems, Out.chunks]
    · have ih := incr_zip_summary n L (r' :: rs) (L.feed st r.new).2
      rw [L.incr_fresh_cons st r r' rs hc, List.map_cons, List.zip_cons_cons, List.flatMap_cons, ih,
        List.flatMap_cons, List.map_append]
      simp [slotItems, Out.chunks]

theorem regionsUp_old (n : Nat) : ∀ (nds : List (NodeH κ ν (n+1))) (outs : List (Out (ItemH κ ν n))) (pk : Bool),
    (regionsUp n nds outs pk).map (·.old) = nds
  | [], _, _ => rfl
  | nd :: rest, outs, pk => by
    simp only [regionsUp, List.map_cons, regionsUp_old n rest]

theorem zip_slot_clean (n : Nat) : ∀ (nd : List (ItemH κ ν (n+1))) (mine : List (Out (ItemH κ ν n))),
    mine.length = nd.length → mine.any Out.isFresh = false →
    (nd.zip mine).flatMap (slotItems n) = nd
  | [], _, _, _ => by simp
  | it :: nd, [], h, _ => by simp at h
  | it :: nd, o :: mine, h, hf => by
    simp only [List.any_cons, Bool.or_eq_false_iff] at hf
    simp only [List.zip_cons_cons, List.flatMap_cons]
    rw [zip_slot_clean n nd mine (by simpa using h) hf.2]
    cases o with
    | reused c => simp [slotItems]
    | fresh cs => simp [Out.isFresh] at hf

theorem regionsUp_clean (n : Nat) : ∀ (nds : List (NodeH κ ν (n+1))) (outs : List (Out (ItemH κ ν n))) (pk : Bool),
    nds.flatten.length ≤ outs.length → CleanUnchanged (regionsUp n nds outs pk)
  | [], _, _, _ => by intro r hr; simp [regionsUp] at hr
  | nd :: rest, outs, pk, hlen => by
    have hl : nd.length ≤ outs.length := by
      rw [List.flatten_cons, List.length_append] at hlen; omega
    intro r hr hd
    simp only [regionsUp, List.mem_cons] at hr
    rcases hr with rfl | hr
    · simp only [Bool.or_eq_false_iff] at hd
      exact zip_slot_clean n nd (outs.take nd.length) (by simp [List.length_take]; omega) hd.1
    · exact regionsUp_clean n rest (outs.drop nd.length) _
        (by rw [List.flatten_cons, List.length_append] at hlen; rw [List.length_drop]; omega) r hr hd

theorem regionsUp_new (n : Nat) : ∀ (nds : List (NodeH κ ν (n+1))) (outs : List (Out (ItemH κ ν n))) (pk : Bool),
    nds.flatten.length ≤ outs.length →
    (regionsUp n nds outs pk).flatMap (·.new) = (nds.flatten.zip outs).flatMap (slotItems n)
  | [], _, _, _ => rfl
  | nd :: rest, outs, pk, hlen => by
    have hl : nd.length ≤ outs.length := by
      rw [List.flatten_cons, List.length_append] at hlen; omega
    have hsplit : outs = outs.take nd.length ++ outs.drop nd.length := (List.take_append_drop _ _).symm
    simp only [regionsUp, List.flatMap_cons, List.flatten_cons]
    rw [regionsUp_new n rest (outs.drop nd.length) _
      (by rw [List.flatten_cons, List.length_append] at hlen; rw [List.length_drop]; omega)]
    conv => rhs; rw [hsplit]
    rw [List.zip_append (by simp [List.length_take]; omega), List.flatMap_append]

end DoltVerif.Prolly
