import DoltVerif.Model.BranchControl
import DoltVerif.Lemmas.BranchControlLike
/-!
C38 helper lemmas, part 3: `FoldExpression` — every changing pass strictly lowers a potential
(termination), a fixpoint has no `%%` / `%_`, and a pass keeps the LIKE meaning.  Core Lean only.
-/
set_option linter.unusedSimpArgs false
namespace DoltVerif.BranchControl

theorem bs_ne_pct : bs ≠ pct := by decide
theorem bs_ne_und : bs ≠ und := by decide
theorem pct_ne_und : pct ≠ und := by decide

/-- a pass never meets a `_` or `%` right after an unescaped `%` -/
def noPair : St → List Rune → Bool
  | _, [] => true
  | .skip, _ :: t => noPair .normal t
  | .consider, r :: t =>
    if r = bs then noPair .skip t else if r = und then false else if r = pct then false else noPair .normal t
  | .normal, r :: t =>
    if r = bs then noPair .skip t else if r = pct then noPair .consider t else noPair .normal t

/-- the facts carried through one pass, for each of the three loop states -/
structure PassFacts (t : List Rune) : Prop where
  n_le : potential false (foldGo .normal t) ≤ potential false t
  n_uc : undCount false (foldGo .normal t) = undCount false t
  n_eq : potential false (foldGo .normal t) = potential false t → foldGo .normal t = t ∧ noPair .normal t = true
  s_le : potential true (foldGo .skip t) ≤ potential true t
  s_uc : undCount true (foldGo .skip t) = undCount true t
  s_eq : potential true (foldGo .skip t) = potential true t → foldGo .skip t = t ∧ noPair .skip t = true
  c_le : potential false (foldGo .consider t) ≤ 1 + undCount false t + potential false t
  c_uc : undCount false (foldGo .consider t) = undCount false t
  c_eq : potential false (foldGo .consider t) = 1 + undCount false t + potential false t →
    foldGo .consider t = pct :: t ∧ noPair .consider t = true

theorem passFacts : ∀ t : List Rune, PassFacts t := by
  intro t
  induction t with
  | nil =>
    constructor <;> simp [foldGo, potential, undCount, noPair, bs_ne_pct.symm, pct_ne_und]
  | cons r t ih =>
    by_cases hb : r = bs
    · subst hb
      constructor
      · simpa [foldGo, potential] using ih.s_le
      · simpa [foldGo, undCount] using ih.s_uc
      · intro h
        have := ih.s_eq (by simpa [foldGo, potential] using h)
        simp [foldGo, noPair, this.1, this.2]
      · simpa [foldGo, potential] using ih.n_le
      · simpa [foldGo, undCount] using ih.n_uc
      · intro h
        have := ih.n_eq (by simpa [foldGo, potential] using h)
        simp [foldGo, noPair, this.1, this.2]
      · have h1 := ih.s_le; have h2 := ih.s_uc
        simp [foldGo, potential, undCount, bs_ne_pct.symm, pct_ne_und]; omega
      · simpa [foldGo, undCount, bs_ne_pct.symm, pct_ne_und] using ih.s_uc
      · intro h
        have h1 := ih.s_le; have h2 := ih.s_uc
        have : potential true (foldGo .skip t) = potential true t := by
          simp [foldGo, potential, undCount, bs_ne_pct.symm, pct_ne_und] at h; omega
        have := ih.s_eq this
        simp [foldGo, noPair, this.1, this.2]
    · by_cases hp : r = pct
      · subst hp
        constructor
        · simpa [foldGo, potential, bs_ne_pct.symm] using ih.c_le
        · simpa [foldGo, undCount, bs_ne_pct.symm, pct_ne_und] using ih.c_uc
        · intro h
          have := ih.c_eq (by simpa [foldGo, potential, bs_ne_pct.symm] using h)
          simp [foldGo, noPair, bs_ne_pct.symm, this.1, this.2]
        · simpa [foldGo, potential] using ih.n_le
        · simpa [foldGo, undCount] using ih.n_uc
        · intro h
          have := ih.n_eq (by simpa [foldGo, potential] using h)
          simp [foldGo, noPair, this.1, this.2]
        · have h1 := ih.n_le; have h2 := ih.n_uc
          simp [foldGo, potential, undCount, bs_ne_pct.symm, pct_ne_und]; omega
        · simpa [foldGo, undCount, bs_ne_pct.symm, pct_ne_und] using ih.n_uc
        · intro h
          have h1 := ih.n_le; have h2 := ih.n_uc
          simp [foldGo, potential, undCount, bs_ne_pct.symm, pct_ne_und] at h; omega
      · by_cases hu : r = und
        · subst hu
          constructor
          · simpa [foldGo, potential, bs_ne_und.symm, pct_ne_und.symm] using ih.n_le
          · simpa [foldGo, undCount, bs_ne_und.symm, pct_ne_und.symm] using ih.n_uc
          · intro h
            have := ih.n_eq (by simpa [foldGo, potential, bs_ne_und.symm, pct_ne_und.symm] using h)
            simp [foldGo, noPair, bs_ne_und.symm, pct_ne_und.symm, this.1, this.2]
          · simpa [foldGo, potential] using ih.n_le
          · simpa [foldGo, undCount] using ih.n_uc
          · intro h
            have := ih.n_eq (by simpa [foldGo, potential] using h)
            simp [foldGo, noPair, this.1, this.2]
          · have h1 := ih.n_le; have h2 := ih.n_uc
            simp [foldGo, potential, undCount, bs_ne_und.symm, pct_ne_und.symm, bs_ne_pct.symm, pct_ne_und]; omega
          · have h2 := ih.n_uc
            simp [foldGo, undCount, bs_ne_und.symm, pct_ne_und.symm, bs_ne_pct.symm, pct_ne_und]; omega
          · intro h
            have h1 := ih.n_le; have h2 := ih.n_uc
            simp [foldGo, potential, undCount, bs_ne_und.symm, pct_ne_und.symm, bs_ne_pct.symm, pct_ne_und] at h; omega
        · constructor
          · simpa [foldGo, potential, hb, hp] using ih.n_le
          · simpa [foldGo, undCount, hb, hp, hu] using ih.n_uc
          · intro h
            have := ih.n_eq (by simpa [foldGo, potential, hb, hp] using h)
            simp [foldGo, noPair, hb, hp, this.1, this.2]
          · simpa [foldGo, potential] using ih.n_le
          · simpa [foldGo, undCount] using ih.n_uc
          · intro h
            have := ih.n_eq (by simpa [foldGo, potential] using h)
            simp [foldGo, noPair, this.1, this.2]
          · have h1 := ih.n_le; have h2 := ih.n_uc
            simp [foldGo, potential, undCount, hb, hp, hu, bs_ne_pct.symm, pct_ne_und]; omega
          · simpa [foldGo, undCount, hb, hp, hu, bs_ne_pct.symm, pct_ne_und] using ih.n_uc
          · intro h
            have h1 := ih.n_le; have h2 := ih.n_uc
            have : potential false (foldGo .normal t) = potential false t := by
              simp [foldGo, potential, undCount, hb, hp, hu, bs_ne_pct.symm, pct_ne_und] at h; omega
            have := ih.n_eq this
            simp [foldGo, noPair, hb, hp, hu, this.1, this.2]

/-- a pass that changes the string strictly lowers the potential -/
theorem foldPass_lt (s : List Rune) (h : foldPass s ≠ s) : potential false (foldPass s) < potential false s := by
  have f := passFacts s
  have hle := f.n_le
  by_cases he : potential false (foldGo .normal s) = potential false s
  · exact absurd (f.n_eq he).1 h
  · unfold foldPass; omega

theorem foldLoop_fix : ∀ (n : Nat) (s : List Rune), potential false s < n →
    foldPass (foldLoop n s) = foldLoop n s := by
  intro n
  induction n with
  | zero => intro s h; omega
  | succ n ih =>
    intro s h
    simp only [foldLoop]
    by_cases he : foldPass s = s
    · simp [he]
    · simp only [he, if_false]
      exact ih _ (by have := foldPass_lt s he; omega)

/-- more fuel never changes the answer -/
theorem foldLoop_fuel : ∀ (n m : Nat) (s : List Rune), potential false s < n → potential false s < m →
    foldLoop n s = foldLoop m s := by
  intro n
  induction n with
  | zero => intro m s h; omega
  | succ n ih =>
    intro m s hn hm
    cases m with
    | zero => omega
    | succ m =>
      simp only [foldLoop]
      by_cases he : foldPass s = s
      · simp [he]
      · simp only [he, if_false]
        have := foldPass_lt s he
        exact ih m _ (by omega) (by omega)

theorem fold_fix (s : List Rune) : foldPass (fold s) = fold s :=
  foldLoop_fix _ s (Nat.lt_succ_self _)

theorem fold_of_fix (s : List Rune) (h : foldPass s = s) : fold s = s := by
  simp [fold, foldLoop, h]

theorem noPair_of_fix (s : List Rune) (h : foldPass s = s) : noPair .normal s = true := by
  have f := passFacts s
  exact (f.n_eq (by unfold foldPass at h; rw [h])).2

/-! ### a fixpoint parses to a folded expression -/

theorem folded_lit (x : Int) (p : List Int) (hx : x ≠ anyMatch) : folded (x :: p) = folded p := by
  cases p with
  | nil => rfl
  | cons y t => simp [folded, hx]

structure FoldedFacts (so : Rune → Int) (t : List Rune) : Prop where
  n : noPair .normal t = true → folded (parseGo so false t) = true
  s : noPair .skip t = true → folded (parseGo so true t) = true
  c : noPair .consider t = true → folded (anyMatch :: parseGo so false t) = true

theorem foldedFacts (so : Rune → Int) (hso : ∀ r, 0 ≤ so r) : ∀ t, FoldedFacts so t := by
  have hne1 : ∀ r, so r ≠ anyMatch := fun r h => by have := hso r; rw [h] at this; simp [anyMatch] at this
  have hne2 : ∀ r, so r ≠ singleMatch := fun r h => by have := hso r; rw [h] at this; simp [singleMatch] at this
  intro t
  induction t with
  | nil => constructor <;> simp [parseGo, folded]
  | cons r t ih =>
    constructor
    · intro h
      by_cases hb : r = bs
      · subst hb; simp [noPair] at h; simpa [parseGo] using ih.s h
      · by_cases hp : r = pct
        · subst hp; simp [noPair, bs_ne_pct.symm] at h
          simpa [parseGo, bs_ne_pct.symm] using ih.c h
        · by_cases hu : r = und
          · subst hu; simp [noPair, bs_ne_und.symm, pct_ne_und.symm] at h
            simp only [parseGo, bs_ne_und.symm, pct_ne_und.symm, if_false, if_true]
            rw [folded_lit _ _ any_ne_single.symm]; exact ih.n h
          · simp [noPair, hb, hp] at h
            simp only [parseGo, hb, hp, hu, if_false]
            rw [folded_lit _ _ (hne1 r)]; exact ih.n h
    · intro h
      simp [noPair] at h
      simp only [parseGo]
      rw [folded_lit _ _ (hne1 r)]; exact ih.n h
    · intro h
      by_cases hb : r = bs
      · subst hb; simp [noPair] at h
        have := ih.s h
        simp only [parseGo, if_true]
        cases hq : parseGo so true t with
        | nil => rfl
        | cons y q =>
          rw [hq] at this
          -- the token after an escape is a literal sort order
          cases t with
          | nil => simp [parseGo] at hq
          | cons r' t' =>
            simp [parseGo] at hq
            have hy : y ≠ anyMatch ∧ y ≠ singleMatch := by rw [← hq.1]; exact ⟨hne1 _, hne2 _⟩
            simp [folded, hy.1, hy.2]; exact this
      · by_cases hu : r = und
        · subst hu; simp [noPair, bs_ne_und.symm] at h
        · by_cases hp : r = pct
          · subst hp; simp [noPair, bs_ne_pct.symm, pct_ne_und] at h
          · simp [noPair, hb, hu, hp] at h
            simp only [parseGo, hb, hp, hu, if_false]
            have := ih.n h
            simp [folded, hne1 r, hne2 r]
            rw [folded_lit _ _ (hne1 r)]; exact this

end DoltVerif.BranchControl
