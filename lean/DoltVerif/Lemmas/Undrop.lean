import DoltVerif.Model.Undrop
/-! Helper lemmas for the dropped-database model (family Undrop, C47).  Core Lean only. -/
namespace DoltVerif.Undrop

/-- the contents of all stored files, in stored order: what "no data destroyed" is measured by -/
def contents (fs : FS) : List Nat :=
  fs.filterMap (fun e => match e.2 with | .file c => some c | .dir => none)

theorem contents_append_dir (fs : FS) (p : Path) : contents (fs ++ [(p, .dir)]) = contents fs := by
  simp [contents, List.filterMap_append]

theorem contents_mkDirs (fs : FS) (p : Path) : contents (mkDirs fs p) = contents fs := by
  unfold mkDirs
  generalize List.range p.length = l
  induction l generalizing fs with
  | nil => rfl
  | cons i is ih =>
    simp only [List.foldl_cons]
    split
    · exact ih fs
    · rw [ih, contents_append_dir]

theorem contents_moveDir {fs fs' : FS} {src dst : Path} (h : moveDir fs src dst = .ok fs') :
    contents fs' = contents fs := by
  unfold moveDir at h
  split at h
  · cases h
  · split at h
    · cases h
    · split at h
      · cases h
      · cases h
        simp only [contents, List.filterMap_map]
        congr 1
        funext e
        simp only [Function.comp]
        by_cases hp : src.isPrefixOf e.1 = true <;> simp [hp]

theorem contents_initHolding {fs fs' : FS} (h : initHolding fs = .ok fs') : contents fs' = contents fs := by
  unfold initHolding at h
  split at h
  · cases h
  · split at h
    · cases h; rfl
    · cases h; exact contents_mkDirs _ _

theorem contents_prepareToMove {fs fs' : FS} {t : Path} {ms : Nat} (h : prepareToMove fs t ms = .ok fs') :
    contents fs' = contents fs := by
  unfold prepareToMove at h
  split at h
  · cases h; rfl
  · split at h
    · cases h
    · simp only at h
      split at h
      · cases h
      · split at h
        · rename_i hm
          cases h
          exact contents_moveDir hm
        · cases h

theorem contents_managerDrop {fs fs' : FS} {name : Name} {loc : Path} {ms : Nat}
    (h : managerDrop fs name loc ms = .ok fs') : contents fs' = contents fs := by
  unfold managerDrop at h
  simp only at h
  split at h
  · cases h
  · split at h
    · cases h
    · rename_i fs1 h1
      split at h
      · cases h
      · split at h
        · cases h
        · rename_i fs3 h3
          rw [contents_moveDir h, contents_prepareToMove h3]
          split
          · rw [contents_mkDirs, contents_initHolding h1]
          · exact contents_initHolding h1

/-! ### subtrees under a renamed prefix -/

theorem not_exists_no_prefix {fs : FS} {p : Path} (h : pathExists fs p = false) :
    ∀ e ∈ fs, p.isPrefixOf e.1 = false := by
  unfold pathExists at h
  simp only [Bool.or_eq_false_iff, List.any_eq_false] at h
  intro e he
  have := h.2 e he
  cases hp : p.isPrefixOf e.1 with
  | false => rfl
  | true => rw [hp] at this; exact absurd rfl this

theorem isPrefixOf_append_self (a r : Path) : a.isPrefixOf (a ++ r) = true := by
  induction a with
  | nil => simp
  | cons x xs ih => simp [ih]

theorem drop_append_self (a r : Path) : (a ++ r).drop a.length = r := by
  simp

theorem prefix_split {a q : Path} (h : a.isPrefixOf q = true) : q = a ++ q.drop a.length := by
  induction a generalizing q with
  | nil => simp
  | cons x xs ih =>
    cases q with
    | nil => simp [List.isPrefixOf] at h
    | cons y ys =>
      simp only [List.isPrefixOf, Bool.and_eq_true, beq_iff_eq] at h
      obtain ⟨hxy, hrest⟩ := h
      subst hxy
      simp only [List.length_cons, List.drop_succ_cons, List.cons_append]
      rw [← ih hrest]

/-- what `MoveDir` does to one stored path -/
def rename (src dst : Path) (e : Path × Entry) : Path × Entry :=
  if src.isPrefixOf e.1 then (dst ++ e.1.drop src.length, e.2) else e

theorem moveDir_ok {fs fs' : FS} {src dst : Path} (h : moveDir fs src dst = .ok fs') :
    fs' = fs.map (rename src dst) ∧ pathExists fs dst = false := by
  unfold moveDir at h
  split at h
  · cases h
  · split at h
    · cases h
    · rename_i hdst
      split at h
      · cases h
      · cases h
        exact ⟨rfl, by simpa using hdst⟩

theorem subtree_map_rename {src dst : Path} : ∀ (fs : FS), (∀ e ∈ fs, dst.isPrefixOf e.1 = false) →
    subtree (fs.map (rename src dst)) dst = subtree fs src
  | [], _ => rfl
  | e :: rest, hno => by
    have hrest : ∀ x ∈ rest, dst.isPrefixOf x.1 = false := fun x hx => hno x (List.mem_cons_of_mem _ hx)
    have he := hno e List.mem_cons_self
    have ih := subtree_map_rename (src := src) (dst := dst) rest hrest
    unfold subtree at ih ⊢
    simp only [List.map_cons, List.filter_cons]
    cases hs : src.isPrefixOf e.1 with
    | true =>
      have hr : rename src dst e = (dst ++ e.1.drop src.length, e.2) := by simp [rename, hs]
      rw [hr]
      have e1 : dst.isPrefixOf (dst ++ e.1.drop src.length) = true := isPrefixOf_append_self _ _
      have hsplit := prefix_split hs
      by_cases heq : e.1 = src
      · have h1 : ((dst ++ e.1.drop src.length) != dst) = false := by rw [heq]; simp
        have h2 : (e.1 != src) = false := by simp [heq]
        simp only [e1, h1, h2, Bool.and_false, Bool.false_eq_true, if_false]
        exact ih
      · have h1 : ((dst ++ e.1.drop src.length) != dst) = true := by
          simp only [bne_iff_ne, ne_eq]
          intro hc
          have hnil : e.1.drop src.length = [] := by
            have := congrArg (List.drop dst.length) hc
            simpa using this
          rw [hnil] at hsplit
          simp at hsplit
          exact heq hsplit
        have h2 : (e.1 != src) = true := by simpa using heq
        simp only [e1, h1, h2, Bool.and_self, if_true, List.map_cons, drop_append_self]
        rw [ih]
    | false =>
      have hr : rename src dst e = e := by simp [rename, hs]
      rw [hr]
      simp only [he, Bool.false_and, Bool.false_eq_true, if_false]
      exact ih

/-- after a successful `MoveDir src dst`, what lies under `dst` is exactly what lay under `src` -/
theorem subtree_moveDir {fs fs' : FS} {src dst : Path} (h : moveDir fs src dst = .ok fs') :
    subtree fs' dst = subtree fs src := by
  obtain ⟨e1, e2⟩ := moveDir_ok h
  rw [e1]
  exact subtree_map_rename fs (not_exists_no_prefix e2)

theorem subtree_map_rename_other {src dst p : Path}
    (hs : ∀ q : Path, p.isPrefixOf q = true → src.isPrefixOf q = false)
    (hd : ∀ r : Path, p.isPrefixOf (dst ++ r) = false) : ∀ (fs : FS),
    subtree (fs.map (rename src dst)) p = subtree fs p
  | [] => rfl
  | e :: rest => by
    have ih := subtree_map_rename_other hs hd rest
    unfold subtree at ih ⊢
    simp only [List.map_cons, List.filter_cons]
    cases hsrc : src.isPrefixOf e.1 with
    | true =>
      have hr : rename src dst e = (dst ++ e.1.drop src.length, e.2) := by simp [rename, hsrc]
      have hnd : p.isPrefixOf e.1 = false := by
        cases hdd : p.isPrefixOf e.1 with
        | false => rfl
        | true => rw [hs e.1 hdd] at hsrc; cases hsrc
      rw [hr]
      simp only [hd, hnd, Bool.false_and, Bool.false_eq_true, if_false]
      exact ih
    | false =>
      have hr : rename src dst e = e := by simp [rename, hsrc]
      rw [hr]
      split
      · simp only [List.map_cons]; rw [ih]
      · exact ih

/-- a rename does not touch what lies under `p` when nothing under `p` is under the source and the
destination is not under `p` -/
theorem subtree_moveDir_other {fs fs' : FS} {src dst p : Path} (h : moveDir fs src dst = .ok fs')
    (hs : ∀ q : Path, p.isPrefixOf q = true → src.isPrefixOf q = false)
    (hd : ∀ r : Path, p.isPrefixOf (dst ++ r) = false) :
    subtree fs' p = subtree fs p := by
  rw [(moveDir_ok h).1]
  exact subtree_map_rename_other hs hd fs

theorem subtree_append_other {fs : FS} {extra : FS} {p : Path}
    (h : ∀ e ∈ extra, p.isPrefixOf e.1 = false) : subtree (fs ++ extra) p = subtree fs p := by
  unfold subtree
  rw [List.filter_append, List.map_append]
  have : extra.filter (fun e => p.isPrefixOf e.1 && e.1 != p) = [] := by
    rw [List.filter_eq_nil_iff]
    intro e he
    simp [h e he]
  rw [this]; simp

end DoltVerif.Undrop
