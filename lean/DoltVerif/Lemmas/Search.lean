/-
Lemmas about the binary search loop (`sort.Search`, `searchForKey`) and lawful comparators.
-/
import DoltVerif.Model.Cursor
import DoltVerif.Spec.SortedDict
namespace DoltVerif.Prolly

/-- a comparator that is a total preorder (what a tuple descriptor's `Compare` must be; C15) -/
structure TotalPreorder {κ : Type} (cmp : κ → κ → Ordering) : Prop where
  /-- `cmp a b = .lt ↔ cmp b a = .gt` -/
  swap_lt : ∀ a b, cmp a b = .lt ↔ cmp b a = .gt
  /-- `≤` is transitive (`a ≤ b` := `cmp a b ≠ .gt`) -/
  le_trans : ∀ a b c, cmp a b ≠ .gt → cmp b c ≠ .gt → cmp a c ≠ .gt

namespace TotalPreorder
variable {κ : Type} {cmp : κ → κ → Ordering} (h : TotalPreorder cmp)
include h

theorem swap_eq (a b : κ) : cmp a b = .eq → cmp b a = .eq := by
  intro hab
  cases hba : cmp b a with
  | eq => rfl
  | lt => have := (h.swap_lt b a).mp hba; rw [hab] at this; cases this
  | gt => have := (h.swap_lt a b).mpr hba; rw [hab] at this; cases this

/-- `a < b ≤ c → a < c` -/
theorem lt_of_lt_of_le (a b c : κ) (hab : cmp a b = .lt) (hbc : cmp b c ≠ .gt) : cmp a c = .lt := by
  cases hac : cmp a c with
  | lt => rfl
  | eq =>
    -- c ≤ a, b ≤ c ⇒ b ≤ a, contradiction with a < b
    have hca : cmp c a ≠ .gt := by rw [h.swap_eq a c hac]; simp
    have hba := h.le_trans b c a hbc hca
    exact absurd ((h.swap_lt a b).mp hab) hba
  | gt =>
    have hca : cmp c a ≠ .gt := by
      have := (h.swap_lt c a).mpr hac; rw [this]; simp
    have hba := h.le_trans b c a hbc hca
    exact absurd ((h.swap_lt a b).mp hab) hba

/-- `a ≤ b < c → a < c` -/
theorem lt_of_le_of_lt (a b c : κ) (hab : cmp a b ≠ .gt) (hbc : cmp b c = .lt) : cmp a c = .lt := by
  cases hac : cmp a c with
  | lt => rfl
  | eq =>
    have hca : cmp c a ≠ .gt := by rw [h.swap_eq a c hac]; simp
    have hcb := h.le_trans c a b hca hab
    exact absurd ((h.swap_lt b c).mp hbc) hcb
  | gt =>
    have hca : cmp c a ≠ .gt := by
      have := (h.swap_lt c a).mpr hac; rw [this]; simp
    have hcb := h.le_trans c a b hca hab
    exact absurd ((h.swap_lt b c).mp hbc) hcb

theorem lt_trans (a b c : κ) (hab : cmp a b = .lt) (hbc : cmp b c = .lt) : cmp a c = .lt :=
  h.lt_of_lt_of_le a b c hab (by rw [hbc]; simp)

theorem gt_of_lt (a b : κ) (hab : cmp a b = .lt) : cmp b a = .gt := (h.swap_lt a b).mp hab

end TotalPreorder

/-- `bsearch` returns the boundary of a monotone predicate: everything before it is false,
everything from it on (inside the window) is true. -/
theorem bsearch_spec (f : Nat → Bool) (mono : ∀ a b, a ≤ b → f a = true → f b = true) :
    ∀ (d i j : Nat), j - i ≤ d → i ≤ j →
      i ≤ bsearch f i j ∧ bsearch f i j ≤ j ∧
      (∀ x, i ≤ x → x < bsearch f i j → f x = false) ∧
      (∀ x, bsearch f i j ≤ x → x < j → f x = true)
  | 0, i, j, hd, hij => by
    have : i = j := by omega
    subst this
    unfold bsearch
    simp
    exact ⟨fun x h1 h2 => by omega, fun x h1 h2 => by omega⟩
  | d+1, i, j, hd, hij => by
    unfold bsearch
    by_cases hlt : i < j
    · simp only [hlt, if_true]
      have hh1 : i ≤ (i + j) / 2 := by omega
      have hh2 : (i + j) / 2 < j := by omega
      by_cases hf : f ((i + j) / 2) = true
      · simp only [hf, if_true]
        obtain ⟨a1, a2, a3, a4⟩ := bsearch_spec f mono d i ((i + j) / 2) (by omega) hh1
        refine ⟨a1, by omega, a3, ?_⟩
        intro x hx1 hx2
        by_cases hxh : x < (i + j) / 2
        · exact a4 x hx1 hxh
        · exact mono _ x (by omega) hf
      · simp only [hf, Bool.false_eq_true, if_false]
        obtain ⟨a1, a2, a3, a4⟩ := bsearch_spec f mono d ((i + j) / 2 + 1) j (by omega) (by omega)
        refine ⟨by omega, a2, ?_, a4⟩
        intro x hx1 hx2
        by_cases hxh : x ≤ (i + j) / 2
        · cases hfx : f x with
          | false => rfl
          | true => exact absurd (mono x _ hxh hfx) hf
        · exact a3 x (by omega) hx2
    · have : i = j := by omega
      subst this
      simp
      exact ⟨fun x h1 h2 => by omega, fun x h1 h2 => by omega⟩

theorem sortSearch_spec (n : Nat) (f : Nat → Bool) (mono : ∀ a b, a ≤ b → f a = true → f b = true) :
    sortSearch n f ≤ n ∧ (∀ x, x < sortSearch n f → f x = false) ∧
    (∀ x, sortSearch n f ≤ x → x < n → f x = true) := by
  obtain ⟨_, a2, a3, a4⟩ := bsearch_spec f mono n 0 n (by omega) (by omega)
  exact ⟨a2, fun x hx => a3 x (by omega) hx, a4⟩

end DoltVerif.Prolly

namespace DoltVerif.Prolly
variable {κ : Type}

theorem takeWhile_getElem?_true (p : κ → Bool) : ∀ (l : List κ) (x : Nat) (a : κ),
    x < (l.takeWhile p).length → l[x]? = some a → p a = true
  | [], x, a, h, _ => by simp at h
  | b :: l, x, a, h, ha => by
    by_cases hb : p b = true
    · simp only [List.takeWhile_cons, hb, if_true, List.length_cons] at h
      cases x with
      | zero => simp at ha; rw [← ha]; exact hb
      | succ x =>
        simp only [List.getElem?_cons_succ] at ha
        exact takeWhile_getElem?_true p l x a (by omega) ha
    · simp [hb] at h

theorem takeWhile_getElem?_false (p : κ → Bool) : ∀ (l : List κ) (a : κ),
    l[(l.takeWhile p).length]? = some a → p a = false
  | [], a, h => by simp at h
  | b :: l, a, h => by
    by_cases hb : p b = true
    · simp only [List.takeWhile_cons, hb, if_true, List.length_cons, List.getElem?_cons_succ] at h
      exact takeWhile_getElem?_false p l a h
    · simp only [List.takeWhile_cons, hb, Bool.false_eq_true, if_false, List.length_nil,
        List.getElem?_cons_zero, Option.some.injEq] at h
      rw [← h]; simpa using hb

theorem pairwise_getElem? {r : κ → κ → Prop} : ∀ (l : List κ), l.Pairwise r →
    ∀ (i j : Nat) (a b : κ), i < j → l[i]? = some a → l[j]? = some b → r a b
  | [], _, i, j, a, b, _, ha, _ => by simp at ha
  | x :: l, hp, i, j, a, b, hij, ha, hb => by
    rw [List.pairwise_cons] at hp
    cases j with
    | zero => omega
    | succ j =>
      simp only [List.getElem?_cons_succ] at hb
      cases i with
      | zero =>
        simp only [List.getElem?_cons_zero, Option.some.injEq] at ha
        rw [← ha]
        exact hp.1 b (List.mem_of_getElem? hb)
      | succ i =>
        simp only [List.getElem?_cons_succ] at ha
        exact pairwise_getElem? l hp.2 i j a b (by omega) ha hb

/-- **The per-level binary search is correct**: on strictly increasing keys, `searchForKey`
returns the number of keys strictly below the probe — the position a linear scan finds. -/
theorem searchForKey_eq_takeWhile {cmp : κ → κ → Ordering} (hc : TotalPreorder cmp) (k : κ)
    (keys : List κ) (hs : keys.Pairwise (fun a b => cmp a b = .lt)) :
    searchForKey cmp k keys = (keys.takeWhile (fun x => cmp k x == .gt)).length := by
  let f : Nat → Bool := fun i => match keys[i]? with
    | some x => cmp k x != Ordering.gt
    | none => true
  have hf : ∀ i, f i = (match keys[i]? with
    | some x => cmp k x != Ordering.gt
    | none => true) := fun _ => rfl
  show sortSearch keys.length f = _
  have mono : ∀ a b, a ≤ b → f a = true → f b = true := by
    intro a b hab hfa
    rw [hf] at hfa ⊢
    cases hkb : keys[b]? with
    | none => rfl
    | some kb =>
      simp only
      cases hka : keys[a]? with
      | none =>
        have h1 : keys.length ≤ a := List.getElem?_eq_none_iff.mp hka
        have h2 : b < keys.length := by
          have := List.getElem?_eq_some_iff.mp hkb; exact this.1
        omega
      | some ka =>
        rw [hka] at hfa
        simp only [bne_iff_ne, ne_eq] at hfa ⊢
        by_cases hab' : a = b
        · subst hab'; rw [hka] at hkb; cases hkb; exact hfa
        · have hlt := pairwise_getElem? keys hs a b ka kb (by omega) hka hkb
          exact hc.le_trans k ka kb hfa (by rw [hlt]; simp)
  obtain ⟨h1, h2, h3⟩ := sortSearch_spec keys.length f mono
  generalize hr : sortSearch keys.length f = r at h1 h2 h3
  generalize ht : (keys.takeWhile (fun x => cmp k x == .gt)).length = t
  have htn : t ≤ keys.length := by
    rw [← ht]; exact (List.takeWhile_sublist _).length_le
  rcases Nat.lt_trichotomy r t with hlt | heq | hgt
  · -- r < t: position r is inside the `gt` prefix, yet f r is true
    have hrn : r < keys.length := by omega
    obtain ⟨a, ha⟩ : ∃ a, keys[r]? = some a := ⟨keys[r], List.getElem?_eq_getElem hrn⟩
    have hp := takeWhile_getElem?_true (fun x => cmp k x == .gt) keys r a (by omega) ha
    have hfr := h3 r (Nat.le_refl _) hrn
    rw [hf] at hfr
    simp only [ha, bne_iff_ne, ne_eq] at hfr
    simp only [beq_iff_eq] at hp
    exact absurd hp hfr
  · exact heq
  · -- t < r: f t is false, so keys[t] is `gt`, yet the scan stopped at t
    have hft := h2 t hgt
    rw [hf] at hft
    have htn' : t < keys.length := by omega
    obtain ⟨a, ha⟩ : ∃ a, keys[t]? = some a := ⟨keys[t], List.getElem?_eq_getElem htn'⟩
    simp only [ha, bne_eq_false_iff_eq] at hft
    have hp := takeWhile_getElem?_false (fun x => cmp k x == .gt) keys a (by rw [ht]; exact ha)
    simp only [hft, BEq.rfl] at hp
    cases hp

end DoltVerif.Prolly
