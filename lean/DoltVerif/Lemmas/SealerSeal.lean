import DoltVerif.Model.Sealer
/-!
Lemmas for the sealer model (C39): decimal round trip, query access on sealed URLs, inversion of
a successful `unsealUrl`.
-/
namespace DoltVerif.Sealer

-- ------------------------------------------------------------------ decimal round trip

theorem digitsVal_append (ds : Bytes) (d : UInt8) (acc : Nat) :
    digitsVal (ds ++ [d]) acc =
      (digitsVal ds acc).bind (fun v => if isDigit d then some (v * 10 + (d.toNat - 0x30)) else none) := by
  induction ds generalizing acc with
  | nil => simp [digitsVal]
  | cons c r ih =>
    simp only [List.cons_append, digitsVal]
    split
    · exact ih _
    · simp

theorem digit_small (n : Nat) (h : n < 10) : isDigit (digitChar n) = true ∧
    (digitChar n).toNat - 0x30 = n ∧
    (digitChar n == 0x2b) = false ∧ (digitChar n == 0x2d) = false := by
  have := (by decide : ∀ m : Fin 10, isDigit (digitChar m.val) = true ∧
    (digitChar m.val).toNat - 0x30 = m.val ∧
    (digitChar m.val == 0x2b) = false ∧ (digitChar m.val == 0x2d) = false) ⟨n, h⟩
  exact this

theorem digitsVal_natDigits (n : Nat) : digitsVal (natDigits n) 0 = some n := by
  induction n using Nat.strongRecOn with
  | _ n ih =>
    unfold natDigits
    split
    · rename_i h
      have := digit_small n h
      simp only [digitsVal, this.1, if_true, this.2.1]
      simp
    · rename_i h
      have hlt : n / 10 < n := by omega
      rw [digitsVal_append, ih _ hlt]
      have := digit_small (n % 10) (by omega)
      simp only [Option.bind_some, this.1, if_true, this.2.1]
      congr 1; omega

theorem natDigits_ne_nil (n : Nat) : natDigits n ≠ [] := by
  unfold natDigits; split <;> simp

theorem natDigits_head (n : Nat) : ∃ c r, natDigits n = c :: r ∧ (c == 0x2b) = false ∧ (c == 0x2d) = false := by
  induction n using Nat.strongRecOn with
  | _ n ih =>
    unfold natDigits
    split
    · rename_i h
      have := digit_small n h
      exact ⟨_, [], rfl, this.2.2.1, this.2.2.2⟩
    · rename_i h
      obtain ⟨c, r, hc, h1, h2⟩ := ih (n / 10) (by omega)
      exact ⟨c, r ++ [_], by rw [hc]; rfl, h1, h2⟩

theorem parseInt64_formatInt (i : Int) (hlo : -(2^63 : Int) ≤ i) (hhi : i < 2^63) :
    parseInt64 (formatInt i) = some i := by
  unfold formatInt
  by_cases hneg : i < 0
  · simp only [hneg, if_true]
    unfold parseInt64
    have hne := natDigits_ne_nil i.natAbs
    have hv := digitsVal_natDigits i.natAbs
    simp only [show ((0x2d : UInt8) == 0x2d) = true from rfl, Bool.or_true, if_true]
    cases hd : natDigits i.natAbs with
    | nil => exact absurd hd hne
    | cons c r =>
      rw [hd] at hv
      simp only [List.isEmpty_cons, Bool.false_eq_true, if_false, hv]
      have : ¬ i.natAbs > 2^63 := by omega
      simp only [this, if_false]
      congr 1; omega
  · simp only [hneg, if_false]
    obtain ⟨c, r, hc, h1, h2⟩ := natDigits_head i.toNat
    have hv := digitsVal_natDigits i.toNat
    unfold parseInt64
    rw [hc] at hv ⊢
    simp only [h1, h2, Bool.or_self, Bool.false_eq_true, if_false, List.isEmpty_cons, hv]
    have : ¬ i.toNat ≥ 2^63 := by omega
    simp only [this, if_false]
    congr 1; omega

/-- a string accepted by `ParseInt` contains no ':' -/
theorem digitsVal_no_colon (ds : Bytes) (acc : Nat) (v : Nat) (h : digitsVal ds acc = some v) :
    (0x3a : UInt8) ∉ ds := by
  induction ds generalizing acc with
  | nil => simp
  | cons c r ih =>
    simp only [digitsVal] at h
    split at h
    · rename_i hd
      intro hm
      simp only [List.mem_cons] at hm
      rcases hm with rfl | hm
      · simp [isDigit] at hd
      · exact ih _ h hm
    · cases h

theorem parseInt64_no_colon (s : Bytes) (v : Int) (h : parseInt64 s = some v) : (0x3a : UInt8) ∉ s := by
  unfold parseInt64 at h
  cases s with
  | nil => cases h
  | cons c r =>
    simp only at h
    by_cases hs : (c == 0x2b || c == 0x2d) = true
    · simp only [hs, if_true] at h
      by_cases he : r.isEmpty = true
      · simp [he] at h
      · simp only [he, Bool.false_eq_true, if_false] at h
        cases hd : digitsVal r 0 with
        | none => simp [hd] at h
        | some n =>
          intro hm
          simp only [List.mem_cons] at hm
          rcases hm with rfl | hm
          · simp at hs
          · exact digitsVal_no_colon _ _ _ hd hm
    · simp only [hs, Bool.false_eq_true, if_false, List.isEmpty_cons] at h
      cases hd : digitsVal (c :: r) 0 with
      | none => simp [hd] at h
      | some n => exact digitsVal_no_colon _ _ _ hd

/-- the AAD layout `nbf ":" exp` is injective on colon-free first halves -/
theorem aadOf_inj (a b a' b' : Bytes) (ha : (0x3a : UInt8) ∉ a) (ha' : (0x3a : UInt8) ∉ a')
    (h : aadOf a b = aadOf a' b') : a = a' ∧ b = b' := by
  unfold aadOf at h
  induction a generalizing a' with
  | nil =>
    cases a' with
    | nil => simpa using h
    | cons x r => simp at h; exact absurd (by simp [h.1]) ha'
  | cons x r ih =>
    cases a' with
    | nil => simp at h; exact absurd (by simp [h.1]) ha
    | cons y r' =>
      simp only [List.cons_append, List.cons.injEq] at h
      have := ih r' (fun hm => ha (by simp [hm])) (fun hm => ha' (by simp [hm])) h.2
      exact ⟨by rw [h.1, this.1], this.2⟩

-- ------------------------------------------------------------------ query access on a sealed URL

theorem keys_distinct :
    (str "exp" == str "nbf") = false ∧ (str "exp" == str "nonce") = false ∧ (str "exp" == str "req") = false ∧
    (str "nbf" == str "nonce") = false ∧ (str "nbf" == str "req") = false ∧ (str "nonce" == str "req") = false ∧
    (str "nbf" == str "exp") = false ∧ (str "nonce" == str "exp") = false ∧ (str "req" == str "exp") = false := by
  decide

section sealedQ
variable (e n no r : Bytes)
def sealedQ : Query := [(str "exp", e), (str "nbf", n), (str "nonce", no), (str "req", r)]

theorem sealedQ_has : qHas (sealedQ e n no r) (str "nbf") = true ∧ qHas (sealedQ e n no r) (str "exp") = true ∧
    qHas (sealedQ e n no r) (str "nonce") = true ∧ qHas (sealedQ e n no r) (str "req") = true := by
  simp [qHas, sealedQ]

theorem sealedQ_get : qGet (sealedQ e n no r) (str "nbf") = n ∧ qGet (sealedQ e n no r) (str "exp") = e ∧
    qGet (sealedQ e n no r) (str "nonce") = no ∧ qGet (sealedQ e n no r) (str "req") = r := by
  obtain ⟨h1, h2, h3, h4, h5, h6, _, _, _⟩ := keys_distinct
  simp [qGet, sealedQ, List.find?, h1, h2, h3, h4, h5, h6]
end sealedQ

end DoltVerif.Sealer
