import DoltVerif.Model.Txn
/-! Helper lemmas for the transaction machine (C22, C23): finite-map laws of `Root`, the
three-way merge of one key, frame lemmas of `step`. Core Lean only. -/
namespace DoltVerif.Txn

/-! ### finite maps -/

theorem get_nil (k : Key) : get [] k = none := rfl

theorem get_put (k : Key) (r : Row) (t : Root) (k' : Key) :
    get (put k r t) k' = if k' = k then some r else get t k' := by
  unfold get put
  by_cases h : k' = k
  · subst h; simp [List.lookup]
  · have : (k' == k) = false := by simpa using h
    simp [List.lookup, this, h]

theorem get_del (k : Key) (t : Root) (k' : Key) :
    get (del k t) k' = if k' = k then none else get t k' := by
  unfold get del
  induction t with
  | nil => simp [List.lookup]
  | cons p t ih =>
    obtain ⟨a, r⟩ := p
    by_cases ha : a = k
    · subst ha
      by_cases h : k' = a
      · subst h; simpa [List.filter] using ih
      · have h1 : (k' == a) = false := by simpa using h
        simp only [List.filter, beq_self_eq_true, Bool.not_true, List.lookup, h1]
        simpa [h] using ih
    · have h2 : (a == k) = false := by simpa using ha
      simp only [List.filter, h2, Bool.not_false, List.lookup]
      by_cases h : k' = a
      · subst h; simp [ha]
      · have h1 : (k' == a) = false := by simpa using h
        simp only [h1]; exact ih

theorem get_eq_none_of_not_mem (t : Root) (k : Key) (h : k ∉ keys t) : get t k = none := by
  unfold get keys at *
  induction t with
  | nil => rfl
  | cons p t ih =>
    obtain ⟨a, r⟩ := p
    simp only [List.map_cons, List.mem_cons, not_or] at h
    have h1 : (k == a) = false := by simpa using h.1
    simp only [List.lookup, h1]
    exact ih h.2

theorem get_ofFn (ks : List Key) (g : Key → Option Row) (k : Key) :
    get (ofFn ks g) k = if k ∈ ks then g k else none := by
  unfold get ofFn
  induction ks with
  | nil => simp [List.lookup]
  | cons a ks ih =>
    simp only [List.filterMap_cons]
    by_cases h : k = a
    · subst h
      cases hg : g k with
      | none =>
        simp only [Option.map_none, List.mem_cons, true_or, if_true]
        rw [ih]; split <;> simp_all
      | some r => simp [List.lookup]
    · have h1 : (k == a) = false := by simpa using h
      cases hg : g a with
      | none => simp only [Option.map_none, List.mem_cons, h, false_or]; exact ih
      | some r =>
        simp only [Option.map_some, List.lookup, h1, List.mem_cons, h, false_or]; exact ih

theorem rootEq_iff (a b : Root) : rootEq a b = true ↔ ∀ k, get a k = get b k := by
  unfold rootEq
  rw [List.all_eq_true]
  constructor
  · intro h k
    by_cases hk : k ∈ keys a ++ keys b
    · simpa using h k hk
    · rw [List.mem_append, not_or] at hk
      rw [get_eq_none_of_not_mem a k hk.1, get_eq_none_of_not_mem b k hk.2]
  · intro h k _; simp [h k]

theorem rootEq_refl (a : Root) : rootEq a a = true := (rootEq_iff a a).2 (fun _ => rfl)

/-! ### the three-way merge of one key -/

/-- what the property calls "applying the transaction's cell changes": cells the transaction
changed (`w ≠ s`) take its value, all others keep the existing value -/
def deltaCells : Row → Row → Row → Row
  | e :: es, w :: ws, s :: ss => (if w ≠ s then w else e) :: deltaCells es ws ss
  | _, _, _ => []

/-- the same at row level: rows the transaction did not touch keep the existing value; rows only the
transaction touched take its value; rows both touched are combined cell by cell -/
def applyDeltaKey (e w s : Option Row) : Option Row :=
  if w = s then e
  else if e = s then w
  else if e = w then w
  else match e, w, s with
    | some er, some wr, some sr => some (deltaCells er wr sr)
    | _, _, _ => w

/-- two cells conflict: both sides changed the cell, to different values -/
def cellConflict (e w s : Cell) : Prop := e ≠ s ∧ w ≠ s ∧ e ≠ w

def rowsConflict : Row → Row → Row → Prop
  | e :: es, w :: ws, s :: ss => cellConflict e w s ∨ rowsConflict es ws ss
  | _, _, _ => False

/-- the property's conflict: both sides changed the row, differently, and it is a delete against a
modification, two different inserts, or some cell changed by both to different values -/
def KeyConflict (e w s : Option Row) : Prop :=
  w ≠ s ∧ e ≠ s ∧ e ≠ w ∧
    match e, w, s with
    | some er, some wr, some sr => rowsConflict er wr sr
    | _, _, _ => True

theorem mergeCell_some {e w s c : Cell} (h : mergeCell e w s = some c) :
    c = (if w ≠ s then w else e) := by
  unfold mergeCell at h
  split at h
  · injection h with h; subst h; split <;> simp_all
  · split at h
    · simp at h
    · split at h <;> (injection h with h; subst h; simp_all)

theorem mergeCell_none_iff (e w s : Cell) : mergeCell e w s = none ↔ cellConflict e w s := by
  unfold mergeCell cellConflict
  constructor
  · intro h
    split at h
    · simp at h
    · split at h
      · rename_i h1 h2; exact ⟨h2.1, h2.2, h1⟩
      · split at h <;> simp at h
  · intro ⟨h1, h2, h3⟩
    simp [h3, h1, h2]

theorem mergeCells_some : ∀ {e w s m : Row}, mergeCells e w s = some m → m = deltaCells e w s
  | [], _, _, m, h => by simp [mergeCells] at h; simp [deltaCells, h]
  | _ :: _, [], _, m, h => by simp [mergeCells] at h; simp [deltaCells, h]
  | _ :: _, _ :: _, [], m, h => by simp [mergeCells] at h; simp [deltaCells, h]
  | e :: es, w :: ws, s :: ss, m, h => by
    simp only [mergeCells] at h
    cases hc : mergeCell e w s with
    | none => simp [hc] at h
    | some c =>
      cases hr : mergeCells es ws ss with
      | none => simp [hc, hr] at h
      | some r =>
        simp only [hc, hr, Option.some.injEq] at h
        subst h
        simp only [deltaCells]
        rw [mergeCell_some hc, mergeCells_some hr]

theorem mergeCells_none_iff : ∀ (e w s : Row), mergeCells e w s = none ↔ rowsConflict e w s
  | [], _, _ => by simp [mergeCells, rowsConflict]
  | _ :: _, [], _ => by simp [mergeCells, rowsConflict]
  | _ :: _, _ :: _, [] => by simp [mergeCells, rowsConflict]
  | e :: es, w :: ws, s :: ss => by
    simp only [mergeCells, rowsConflict]
    rw [← mergeCell_none_iff, ← mergeCells_none_iff es ws ss]
    cases mergeCell e w s <;> cases mergeCells es ws ss <;> simp

/-- a successful merge of one key is exactly "existing value with the transaction's changes applied" -/
theorem mergeKey_some {e w s m : Option Row} (h : mergeKey e w s = some m) :
    m = applyDeltaKey e w s := by
  unfold mergeKey at h
  unfold applyDeltaKey
  by_cases h1 : w = s
  · simp only [h1, if_true] at h ⊢; injection h with h; exact h.symm
  · by_cases h2 : e = s
    · simp only [h1, h2, if_false, if_true] at h ⊢; injection h with h; exact h.symm
    · simp only [h1, h2, if_false] at h ⊢
      match e, w, s with
      | none, none, _ => simp at h ⊢; exact h.symm
      | none, some _, _ => simp at h
      | some _, none, _ => simp at h
      | some er, some wr, none =>
        simp only at h
        split at h
        · rename_i heq; injection h with h; subst h; simp [heq]
        · simp at h
      | some er, some wr, some sr =>
        simp only at h ⊢
        by_cases heq : er = wr
        · simp only [heq, if_true] at h ⊢; injection h with h; exact h.symm
        · have hne : ¬ (some er = some wr) := by simpa using heq
          simp only [heq, hne, if_false] at h ⊢
          cases hm : mergeCells er wr sr with
          | none => simp [hm] at h
          | some r =>
            simp only [hm, Option.map_some, Option.some.injEq] at h
            subst h
            rw [mergeCells_some hm]

/-- a merge of one key fails exactly on the property's conflicts -/
theorem mergeKey_none_iff (e w s : Option Row) : mergeKey e w s = none ↔ KeyConflict e w s := by
  unfold mergeKey KeyConflict
  by_cases h1 : w = s
  · simp [h1]
  · by_cases h2 : e = s
    · simp [h1, h2]
    · simp only [h1, h2, if_false, not_false_eq_true, true_and, ne_eq]
      match e, w, s with
      | none, none, _ => simp
      | none, some _, _ => simp
      | some _, none, _ => simp
      | some er, some wr, none =>
        by_cases heq : er = wr <;> simp [heq]
      | some er, some wr, some sr =>
        by_cases heq : er = wr
        · simp [heq]
        · simp only [heq, if_false, Option.some.injEq, not_false_eq_true, true_and]
          rw [← mergeCells_none_iff]
          cases mergeCells er wr sr <;> simp

/-! ### merged roots -/

theorem get_mergeRoots (e w s : Root) (k : Key) :
    get (mergeRoots e w s).1 k = mergedAt e w s k := by
  unfold mergeRoots
  simp only
  rw [get_ofFn]
  split
  · rfl
  · rename_i hk
    unfold mergeKeysOf at hk
    rw [List.mem_eraseDups] at hk
    simp only [List.mem_append, not_or] at hk
    unfold mergedAt
    rw [get_eq_none_of_not_mem e k hk.1.1, get_eq_none_of_not_mem w k hk.1.2,
      get_eq_none_of_not_mem s k hk.2]
    simp [mergeKey]

theorem mergeRoots_no_conflict_iff (e w s : Root) :
    (mergeRoots e w s).2 = [] ↔ ∀ k, conflictAt e w s k = false := by
  unfold mergeRoots
  simp only [List.filter_eq_nil_iff]
  constructor
  · intro h k
    by_cases hk : k ∈ mergeKeysOf e w s
    · simpa using h k hk
    · unfold mergeKeysOf at hk
      rw [List.mem_eraseDups] at hk
      simp only [List.mem_append, not_or] at hk
      unfold conflictAt
      rw [get_eq_none_of_not_mem e k hk.1.1, get_eq_none_of_not_mem w k hk.1.2,
        get_eq_none_of_not_mem s k hk.2]
      simp [mergeKey]
  · intro h k _; simp [h k]

end DoltVerif.Txn
