import DoltVerif.Lemmas.CorruptBasic
/-! Helper lemmas for C10: the stages of `tableReader.get`, the manifest field loops, the journal
index record decoders.  (The stage lemmas never let a tactic reduce through `newCompressedChunk`:
`whnf` on its `uint64` wrap-around arithmetic — `Nat.mod` by well-founded recursion — does not
terminate in reasonable time, which is what made the monolithic case analysis hang.) -/
namespace DoltVerif.Corrupt
open DoltVerif.Corrupt.Table
set_option linter.unusedSimpArgs false

theorem finishGet_ok {cd p : Bytes} (h : finishGet cd = .ok (some p)) : cd = p ∧ p ≠ [] := by
  unfold finishGet at h
  by_cases hz : (cd.length == 0) = true
  · rw [if_pos hz] at h; cases h
  · rw [if_neg hz] at h
    injection h with h; injection h with h
    subst h
    refine ⟨rfl, ?_⟩
    intro he; apply hz; subst he; rfl

theorem finishGet_of {p : Bytes} (hp : p ≠ []) : finishGet p = .ok (some p) := by
  unfold finishGet
  have : ¬ ((p.length == 0) = true) := by
    intro h
    apply hp
    cases p with
    | nil => rfl
    | cons a t => simp at h
  rw [if_neg this]

theorem afterChunk_ok {r : R Bytes} {p : Bytes} (h : afterChunk r = .ok (some p)) : r = .ok p ∧ p ≠ [] := by
  cases r with
  | error e => cases h
  | ok cd =>
    have h' : finishGet cd = .ok (some p) := h
    have := finishGet_ok h'
    exact ⟨by rw [this.1], this.2⟩

theorem getChunk_ok {r : R Bytes} {p : Bytes} (h : getChunk r = .ok (some p)) :
    ∃ buff, r = .ok buff ∧ newCompressedChunk buff = .ok p ∧ p ≠ [] := by
  cases r with
  | error e => cases h
  | ok buff =>
    have h' : afterChunk (newCompressedChunk buff) = .ok (some p) := h
    have := afterChunk_ok h'
    exact ⟨buff, rfl, this.1, this.2⟩

theorem getChunk_of {buff p : Bytes} (hc : newCompressedChunk buff = .ok p) (hp : p ≠ []) :
    getChunk (.ok buff) = .ok (some p) := by
  show afterChunk (newCompressedChunk buff) = .ok (some p)
  rw [hc]
  exact finishGet_of hp

theorem getEntry_ok {k : ReaderKind} {data : Bytes} {e : Option (Nat × Nat)} {p : Bytes}
    (h : getEntry k data e = .ok (some p)) :
    ∃ off len, e = some (off, len) ∧ getChunk (readAt k data off len) = .ok (some p) := by
  cases e with
  | none => cases h
  | some x =>
    obtain ⟨off, len⟩ := x
    exact ⟨off, len, rfl, h⟩

theorem get_ok {o : Open} {h p : Bytes} (hg : o.get h = .ok (some p)) :
    ∃ e, o.idx.lookup h = .ok e ∧ getEntry o.kind o.data e = .ok (some p) := by
  unfold Open.get at hg
  cases hl : o.idx.lookup h with
  | error e => rw [hl] at hg; cases hg
  | ok e => rw [hl] at hg; exact ⟨e, rfl, hg⟩

theorem get_of {o : Open} {h p buff : Bytes} {off len : Nat}
    (hl : o.idx.lookup h = .ok (some (off, len))) (hr : readAt o.kind o.data off len = .ok buff)
    (hc : newCompressedChunk buff = .ok p) (hp : p ≠ []) : o.get h = .ok (some p) := by
  unfold Open.get
  rw [hl]
  show getChunk (readAt o.kind o.data off len) = .ok (some p)
  rw [hr]
  exact getChunk_of hc hp


namespace Manifest

theorem parseSpecs_no_panic : ∀ xs : List Bytes, parseSpecs xs ≠ .error .panicWouldOccur
  | [] => by unfold parseSpecs; simp [pure, Except.pure]
  | [_] => by unfold parseSpecs; simp [pure, Except.pure]
  | name :: cnt :: rest => by
    have ih := parseSpecs_no_panic rest
    unfold parseSpecs
    cases h1 : maybeParseHash name with
    | none => simp [throw, throwThe, MonadExceptOf.throw, bind, Except.bind]
    | some hh =>
      cases h2 : parseUint32 cnt with
      | none => simp [throw, throwThe, MonadExceptOf.throw, bind, Except.bind]
      | some c =>
        simp only [bind, Except.bind, pure, Except.pure]
        cases h3 : parseSpecs rest with
        | error e => intro hc; injection hc with hc; subst hc; exact ih h3
        | ok tl => simp

theorem versionLoop_no_panic : ∀ (fuel : Nat) (b acc : Bytes), versionLoop fuel b acc ≠ .error .panicWouldOccur
  | 0, _, _ => by unfold versionLoop; simp
  | _ + 1, [], _ => by unfold versionLoop; simp
  | fuel + 1, c :: rest, acc => by
    unfold versionLoop
    split
    · simp
    · exact versionLoop_no_panic fuel rest (c :: acc)

theorem parseV5_no_panic (m : Bytes) : parseV5 m ≠ .error .panicWouldOccur := by
  unfold parseV5
  generalize splitColon m = sl
  rcases sl with _ | ⟨a, _ | ⟨b, _ | ⟨c, _ | ⟨d, rest⟩⟩⟩⟩
  · simp [prefixLen, throw, throwThe, MonadExceptOf.throw, bind, Except.bind]
  · simp [prefixLen, throw, throwThe, MonadExceptOf.throw, bind, Except.bind]
  · simp [prefixLen, throw, throwThe, MonadExceptOf.throw, bind, Except.bind]
  · simp [prefixLen, throw, throwThe, MonadExceptOf.throw, bind, Except.bind]
  · have hs := parseSpecs_no_panic rest
    simp only [strsFrom, strAt, prefixLen, bind, Except.bind, pure, Except.pure, List.length_cons,
      List.drop_succ_cons, List.drop_zero, List.getElem?_cons_succ, List.getElem?_cons_zero]
    split
    · simp [throw, throwThe, MonadExceptOf.throw]
    · have h4 : 5 - 1 ≤ rest.length + 1 + 1 + 1 + 1 := by omega
      simp only [h4, if_true]
      cases h3 : parseSpecs rest with
      | error e =>
        intro hc
        have : e = .panicWouldOccur := by simpa using hc
        subst this; exact hs h3
      | ok specs =>
        cases maybeParseHash b <;> cases maybeParseHash d <;> cases maybeParseHash c <;>
          simp [throw, throwThe, MonadExceptOf.throw, bind, Except.bind, pure, Except.pure]

theorem parseV4_no_panic (m : Bytes) : parseV4 m ≠ .error .panicWouldOccur := by
  unfold parseV4
  generalize splitColon m = sl
  rcases sl with _ | ⟨a, _ | ⟨b, _ | ⟨c, rest⟩⟩⟩
  · simp [throw, throwThe, MonadExceptOf.throw, bind, Except.bind]
  · simp [throw, throwThe, MonadExceptOf.throw, bind, Except.bind]
  · simp [throw, throwThe, MonadExceptOf.throw, bind, Except.bind]
  · have hs := parseSpecs_no_panic rest
    simp only [strsFrom, strAt, bind, Except.bind, pure, Except.pure, List.length_cons,
      List.drop_succ_cons, List.drop_zero, List.getElem?_cons_succ, List.getElem?_cons_zero]
    split
    · simp [throw, throwThe, MonadExceptOf.throw]
    · have h3' : 3 ≤ rest.length + 1 + 1 + 1 := by omega
      simp only [h3', if_true]
      cases h3 : parseSpecs rest with
      | error e =>
        intro hc
        have : e = .panicWouldOccur := by simpa using hc
        subst this; exact hs h3
      | ok specs =>
        cases maybeParseHash b <;> cases maybeParseHash c <;>
          simp [throw, throwThe, MonadExceptOf.throw, bind, Except.bind, pure, Except.pure]


end Manifest

namespace JIndex

theorem readLookup_ok (r1 : Bytes) (h : lookupSz ≤ r1.length) : ∃ l, readLookup r1 = .ok l := by
  have h28 : 28 ≤ r1.length := by simpa [lookupSz] using h
  unfold readLookup
  have e1 := @goSlice_ok r1 0 0 16 (by omega)
  have e2 := @goSlice_ok r1 0 16 24 (by omega)
  have e3 := @goSlice_ok r1 0 24 28 (by omega)
  have l2 : 8 ≤ ((r1.drop (0 + 16)).take (24 - 16)).length := by simp [List.length_take, List.length_drop]; omega
  have l3 : 4 ≤ ((r1.drop (0 + 24)).take (28 - 24)).length := by simp [List.length_take, List.length_drop]; omega
  simp only [bind, Except.bind, e1, e2, e3, be64_ok l2, be32_ok l3, pure, Except.pure]
  exact ⟨_, rfl⟩

theorem readMeta_ok (r1 : Bytes) (crc : UInt32) (batch : List Lookup) (h : lookupMetaSz ≤ r1.length) :
    ∃ b, readMeta r1 crc batch = .ok b := by
  have h40 : 40 ≤ r1.length := by simpa [lookupMetaSz] using h
  unfold readMeta
  have e1 := @goSlice_ok r1 0 0 8 (by omega)
  have e2 := @goSlice_ok r1 0 8 16 (by omega)
  have e3 := @goSlice_ok r1 0 16 20 (by omega)
  have e4 := @goSlice_ok r1 0 20 40 (by omega)
  have l1 : 8 ≤ ((r1.drop (0 + 0)).take (8 - 0)).length := by simp [List.length_take, List.length_drop]; omega
  have l2 : 8 ≤ ((r1.drop (0 + 8)).take (16 - 8)).length := by simp [List.length_take, List.length_drop]; omega
  have l3 : 4 ≤ ((r1.drop (0 + 16)).take (20 - 16)).length := by simp [List.length_take, List.length_drop]; omega
  simp only [bind, Except.bind, e1, e2, e3, e4, be64_ok l1, be64_ok l2, be32_ok l3, pure, Except.pure]
  exact ⟨_, rfl⟩

/-- `processIndexRecords` never fails at all in the model (its only error value would be a panic):
every decode follows an `io.ReadFull` length guard. -/
theorem loop_ok : ∀ (fuel : Nat) (rest : Bytes) (sz off batchOff : Nat) (crc : UInt32) (batch : List Lookup)
    (acc : List Batch), ∃ r, loop fuel rest sz off batchOff crc batch acc = .ok r
  | 0, _, _, _, _, _, _, _ => ⟨_, rfl⟩
  | fuel + 1, rest, sz, off, batchOff, crc, batch, acc => by
    unfold loop
    split
    · cases rest with
      | nil => exact ⟨_, rfl⟩
      | cons tag r1 =>
        simp only []
        split
        · split
          · exact ⟨_, rfl⟩
          · rename_i hlen
            obtain ⟨l, hl⟩ := readLookup_ok r1 (by omega)
            rw [hl]
            exact loop_ok fuel _ _ _ _ _ _ _
        · split
          · split
            · exact ⟨_, rfl⟩
            · rename_i hlen
              obtain ⟨b, hb⟩ := readMeta_ok r1 crc batch (by omega)
              rw [hb]
              exact loop_ok fuel _ _ _ _ _ _ _
          · exact ⟨_, rfl⟩
    · exact ⟨_, rfl⟩


end JIndex

end DoltVerif.Corrupt
