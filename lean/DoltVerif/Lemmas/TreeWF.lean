/-
Well-formed prolly trees and the refinement of the descent (`newLeafCursorAtKey`) to dictionary
lookup, for every height.
-/
import DoltVerif.Lemmas.Search
namespace DoltVerif.Prolly
open DoltVerif.SortedDict

variable {κ ν : Type}

/-- stored parent items describe their children: non-empty child, stored key = child's last key,
stored count = child's tree count (what `writeNewNode` writes) -/
def WFNode [Inhabited κ] : (n : Nat) → NodeH κ ν n → Prop
  | 0, _ => True
  | n+1, nd => ∀ it ∈ nd, childOf it ≠ [] ∧ keyOf (n+1) it = lastKey n (childOf it) ∧
      countOf (n+1) it = treeCount n (childOf it) ∧ WFNode n (childOf it)

/-- `Tree.get` as a recursion on the height -/
def leafGet' (cmp : κ → κ → Ordering) (k : κ) (l : List (κ × ν)) : Option (κ × ν) :=
  match l[searchForKey cmp k (l.map (·.1))]? with
  | some kv => if cmp k kv.1 == .eq then some kv else none
  | none => none

def getAt (cmp : κ → κ → Ordering) (k : κ) : (n : Nat) → NodeH κ ν n → Option (κ × ν)
  | 0, nd => leafGet' cmp k nd
  | n+1, nd =>
    match nd[min (searchForKey cmp k (nodeKeys (n+1) nd)) (nd.length - 1)]? with
    | none => none
    | some it => getAt cmp k n (childOf it)

def getVia (cmp : κ → κ → Ordering) (k : κ) (n : Nat) (nd : NodeH κ ν n) : Option (κ × ν) :=
  match seekPath (searchForKey cmp k) n nd with
  | none => none
  | some p =>
    match pathItem n nd p with
    | some kv => if cmp k kv.1 == .eq then some kv else none
    | none => none

theorem getVia_eq_getAt (cmp : κ → κ → Ordering) (k : κ) : ∀ (n : Nat) (nd : NodeH κ ν n),
    getVia cmp k n nd = getAt cmp k n nd
  | 0, _ => rfl
  | n+1, nd => by
    unfold getVia getAt
    simp only [seekPath]
    cases hit : nd[min (searchForKey cmp k (nodeKeys (n+1) nd)) (nd.length - 1)]? with
    | none => rfl
    | some it =>
      simp only
      have ih := getVia_eq_getAt cmp k n (childOf it)
      unfold getVia at ih
      cases hp : seekPath (searchForKey cmp k) n (childOf it) with
      | none => rw [hp] at ih; simpa using ih
      | some p =>
        rw [hp] at ih
        simp only [Option.map_some, pathItem, hit]
        exact ih

theorem Tree.get_eq_getAt (t : Tree κ ν) (cmp : κ → κ → Ordering) (k : κ) :
    t.get cmp k = getAt cmp k t.height t.root := getVia_eq_getAt cmp k t.height t.root

/-! ### order facts -/

theorem TotalPreorder.refl {cmp : κ → κ → Ordering} (h : TotalPreorder cmp) (a : κ) : cmp a a = .eq := by
  cases hc : cmp a a with
  | eq => rfl
  | lt => have := (h.swap_lt a a).mp hc; rw [hc] at this; cases this
  | gt => have := (h.swap_lt a a).mpr hc; rw [hc] at this; cases this

theorem flatten_cons (n : Nat) (it : ItemH κ ν (n+1)) (rest : NodeH κ ν (n+1)) :
    flatten (n+1) (it :: rest) = flatten n (childOf it) ++ flatten (n+1) rest := by
  simp [flatten, List.flatMap_cons]

theorem flatten_append (n : Nat) (a b : NodeH κ ν (n+1)) :
    flatten (n+1) (a ++ b) = flatten (n+1) a ++ flatten (n+1) b := by
  simp [flatten, List.flatMap_append]

theorem mem_flatten_succ (n : Nat) (nd : NodeH κ ν (n+1)) (x : κ × ν) :
    x ∈ flatten (n+1) nd ↔ ∃ it ∈ nd, x ∈ flatten n (childOf it) := by
  simp [flatten, List.mem_flatMap]

/-- the last pair below a well-formed non-empty node carries the node's last key -/
theorem flatten_last [Inhabited κ] : ∀ (n : Nat) (c : NodeH κ ν n), WFNode n c → c ≠ [] →
    ∃ pre kv, flatten n c = pre ++ [kv] ∧ kv.1 = lastKey n c
  | 0, c, _, hne => by
    refine ⟨c.dropLast, c.getLast hne, (List.dropLast_concat_getLast hne).symm, ?_⟩
    unfold lastKey
    rw [List.getLast?_eq_some_getLast hne]
    rfl
  | n+1, c, hwf, hne => by
    have hc : c = c.dropLast ++ [c.getLast hne] := (List.dropLast_concat_getLast hne).symm
    have hmem : c.getLast hne ∈ c := List.getLast_mem hne
    obtain ⟨hch, hkey, _, hwfc⟩ := hwf (c.getLast hne) hmem
    obtain ⟨pre, kv, hfl, hkv⟩ := flatten_last n (childOf (c.getLast hne)) hwfc hch
    refine ⟨flatten (n+1) c.dropLast ++ pre, kv, ?_, ?_⟩
    · conv => lhs; rw [hc]
      rw [flatten_append]
      have : flatten (n+1) [c.getLast hne] = flatten n (childOf (c.getLast hne)) := by
        simp [flatten]
      rw [this, hfl, List.append_assoc]
    · rw [hkv, ← hkey]
      unfold lastKey
      rw [List.getLast?_eq_some_getLast hne]

/-- every pair below a well-formed node with sorted content is ≤ the node's last key -/
theorem le_lastKey [Inhabited κ] {cmp : κ → κ → Ordering} (hc : TotalPreorder cmp) (n : Nat) (c : NodeH κ ν n)
    (hwf : WFNode n c) (hne : c ≠ []) (hs : Sorted cmp (flatten n c)) :
    (∃ kv ∈ flatten n c, kv.1 = lastKey n c) ∧ ∀ x ∈ flatten n c, cmp x.1 (lastKey n c) ≠ .gt := by
  obtain ⟨pre, kv, hfl, hkv⟩ := flatten_last n c hwf hne
  refine ⟨⟨kv, by rw [hfl]; simp, hkv⟩, ?_⟩
  intro x hx
  rw [hfl] at hx hs
  unfold Sorted at hs
  rw [List.pairwise_append] at hs
  rw [← hkv]
  rcases List.mem_append.mp hx with hx | hx
  · have := hs.2.2 x hx kv (by simp)
    rw [this]; simp
  · simp only [List.mem_singleton] at hx
    rw [hx, hc.refl]; simp

theorem sorted_append_left {cmp : κ → κ → Ordering} {a b : List (κ × ν)} (h : Sorted cmp (a ++ b)) : Sorted cmp a := by
  unfold Sorted at *; exact (List.pairwise_append.mp h).1
theorem sorted_append_right {cmp : κ → κ → Ordering} {a b : List (κ × ν)} (h : Sorted cmp (a ++ b)) : Sorted cmp b := by
  unfold Sorted at *; exact (List.pairwise_append.mp h).2.1
theorem sorted_append_lt {cmp : κ → κ → Ordering} {a b : List (κ × ν)} (h : Sorted cmp (a ++ b)) :
    ∀ x ∈ a, ∀ y ∈ b, cmp x.1 y.1 = .lt := by
  unfold Sorted at *; exact (List.pairwise_append.mp h).2.2

theorem wf_tail [Inhabited κ] {n : Nat} {it : ItemH κ ν (n+1)} {rest : NodeH κ ν (n+1)}
    (h : WFNode (n+1) (it :: rest)) : WFNode (n+1) rest := fun x hx => h x (by simp [hx])

/-- the stored keys of a well-formed internal node with sorted content are strictly increasing -/
theorem keys_sorted [Inhabited κ] {cmp : κ → κ → Ordering} (hc : TotalPreorder cmp) (n : Nat) :
    ∀ (nd : NodeH κ ν (n+1)), WFNode (n+1) nd → Sorted cmp (flatten (n+1) nd) →
      (nodeKeys (n+1) nd).Pairwise (fun a b => cmp a b = .lt)
  | [], _, _ => by simp [nodeKeys]
  | it :: rest, hwf, hs => by
    rw [flatten_cons] at hs
    have ih := keys_sorted hc n rest (wf_tail hwf) (sorted_append_right hs)
    unfold nodeKeys at ih ⊢
    rw [List.map_cons, List.pairwise_cons]
    refine ⟨?_, ih⟩
    intro k' hk'
    obtain ⟨it', hit', rfl⟩ := List.mem_map.mp hk'
    obtain ⟨hch, hkey, _, hwfc⟩ := hwf it (by simp)
    obtain ⟨hch', hkey', _, hwfc'⟩ := hwf it' (by simp [hit'])
    obtain ⟨pre, kv, hfl, hkv⟩ := flatten_last n (childOf it) hwfc hch
    obtain ⟨pre', kv', hfl', hkv'⟩ := flatten_last n (childOf it') hwfc' hch'
    have h1 : kv ∈ flatten n (childOf it) := by rw [hfl]; simp
    have h2 : kv' ∈ flatten (n+1) rest := (mem_flatten_succ n rest kv').mpr ⟨it', hit', by rw [hfl']; simp⟩
    have := sorted_append_lt hs kv h1 kv' h2
    rw [hkey, hkey', ← hkv, ← hkv']; exact this

theorem mem_takeWhile_true {α : Type} (p : α → Bool) : ∀ (l : List α) (x : α), x ∈ l.takeWhile p → p x = true
  | [], _, h => by simp at h
  | y :: l, x, h => by
    by_cases hp : p y = true
    · simp only [List.takeWhile_cons, hp, if_true, List.mem_cons] at h
      rcases h with rfl | h
      · exact hp
      · exact mem_takeWhile_true p l x h
    · simp [hp] at h

theorem dropWhile_head {α : Type} (p : α → Bool) : ∀ (l : List α) (x : α) (rest : List α),
    l.dropWhile p = x :: rest → p x = false
  | [], _, _, h => by simp at h
  | y :: l, x, rest, h => by
    by_cases hp : p y = true
    · simp only [List.dropWhile_cons, hp, if_true] at h; exact dropWhile_head p l x rest h
    · simp only [List.dropWhile_cons, hp, Bool.false_eq_true, if_false, List.cons.injEq] at h
      rw [← h.1]; simpa using hp

theorem lookup_none_of_gt {cmp : κ → κ → Ordering} (k : κ) (l : List (κ × ν))
    (h : ∀ x ∈ l, cmp k x.1 = .gt) : lookup cmp l k = none := by
  unfold lookup
  rw [List.find?_eq_none]
  intro x hx; simp [h x hx]

theorem lookup_none_of_lt {cmp : κ → κ → Ordering} (k : κ) (l : List (κ × ν))
    (h : ∀ x ∈ l, cmp k x.1 = .lt) : lookup cmp l k = none := by
  unfold lookup
  rw [List.find?_eq_none]
  intro x hx; simp [h x hx]

theorem lookup_append {cmp : κ → κ → Ordering} (k : κ) (a b : List (κ × ν)) :
    lookup cmp (a ++ b) k = (lookup cmp a k).or (lookup cmp b k) := by
  unfold lookup; exact List.find?_append

theorem leafGet'_refines {cmp : κ → κ → Ordering} (hc : TotalPreorder cmp) (leaf : List (κ × ν))
    (hs : Sorted cmp leaf) (k : κ) : leafGet' cmp k leaf = lookup cmp leaf k := by
  have hkeys : (leaf.map (·.1)).Pairwise (fun a b => cmp a b = .lt) := List.pairwise_map.mpr hs
  unfold leafGet'
  rw [searchForKey_eq_takeWhile hc k _ hkeys]
  have hlen : (List.takeWhile (fun x => cmp k x == .gt) (leaf.map (·.1))).length
      = (leaf.takeWhile (fun kv => cmp k kv.1 == .gt)).length := by
    rw [List.takeWhile_map]; simp [Function.comp_def]
  rw [hlen]
  -- split the leaf at the end of the `gt` prefix
  have hsplit := List.takeWhile_append_dropWhile (p := fun kv : κ × ν => cmp k kv.1 == .gt) (l := leaf)
  have hA : ∀ x ∈ leaf.takeWhile (fun kv => cmp k kv.1 == .gt), cmp k x.1 = .gt := by
    intro x hx; have := mem_takeWhile_true _ _ x hx; simpa using this
  generalize leaf.takeWhile (fun kv => cmp k kv.1 == .gt) = A at hsplit hA
  cases hB : leaf.dropWhile (fun kv => cmp k kv.1 == .gt) with
  | nil =>
    rw [hB, List.append_nil] at hsplit
    subst hsplit
    simp only [List.getElem?_eq_none (Nat.le_refl _)]
    exact (lookup_none_of_gt k A hA).symm
  | cons kv B =>
    rw [hB] at hsplit
    have hnot : (cmp k kv.1 == .gt) = false :=
      dropWhile_head (fun kv : κ × ν => cmp k kv.1 == .gt) leaf kv B hB
    rw [← hsplit] at hs ⊢
    have hget : (A ++ kv :: B)[A.length]? = some kv := by simp
    rw [hget, lookup_append, lookup_none_of_gt k A hA, Option.none_or]
    simp only
    by_cases heq : (cmp k kv.1 == .eq) = true
    · simp [heq, lookup]
    · have hlt : cmp k kv.1 = .lt := by
        cases hc' : cmp k kv.1 <;> simp_all
      simp only [heq, Bool.false_eq_true, if_false]
      symm
      apply lookup_none_of_lt
      intro x hx
      rcases List.mem_cons.mp hx with rfl | hx
      · exact hlt
      · have hs' := sorted_append_right hs
        unfold Sorted at hs'
        rw [List.pairwise_cons] at hs'
        exact hc.lt_trans k kv.1 x.1 hlt (hs'.1 x hx)

/-- **`Get` refines dictionary lookup at every height**: the per-level binary search over the
stored last keys descends into the one child that can hold the probe. -/
theorem getAt_refines [Inhabited κ] {cmp : κ → κ → Ordering} (hc : TotalPreorder cmp) (k : κ) :
    ∀ (n : Nat) (nd : NodeH κ ν n), WFNode n nd → Sorted cmp (flatten n nd) →
      getAt cmp k n nd = lookup cmp (flatten n nd) k
  | 0, nd, _, hs => leafGet'_refines hc nd hs k
  | n+1, nd, hwf, hs => by
    have hkeys := keys_sorted hc n nd hwf hs
    unfold getAt
    rw [searchForKey_eq_takeWhile hc k _ hkeys]
    have hlen : (List.takeWhile (fun x => cmp k x == .gt) (nodeKeys (n+1) nd)).length
        = (nd.takeWhile (fun it => cmp k (keyOf (n+1) it) == .gt)).length := by
      unfold nodeKeys; rw [List.takeWhile_map]; simp [Function.comp_def]
    rw [hlen]
    have hsplit := List.takeWhile_append_dropWhile (p := fun it : ItemH κ ν (n+1) => cmp k (keyOf (n+1) it) == .gt) (l := nd)
    have hA : ∀ it ∈ nd.takeWhile (fun it => cmp k (keyOf (n+1) it) == .gt), cmp k (keyOf (n+1) it) = .gt := by
      intro x hx; have := mem_takeWhile_true _ _ x hx; simpa using this
    generalize nd.takeWhile (fun it => cmp k (keyOf (n+1) it) == .gt) = A at hsplit hA
    -- every pair below the `gt` prefix is smaller than the probe
    have hAgt : ∀ (B : NodeH κ ν (n+1)), nd = A ++ B → ∀ x ∈ flatten (n+1) A, cmp k x.1 = .gt := by
      intro B hnd x hx
      obtain ⟨it, hit, hxit⟩ := (mem_flatten_succ n A x).mp hx
      have hitnd : it ∈ nd := by rw [hnd]; simp [hit]
      obtain ⟨hch, hkey, _, hwfc⟩ := hwf it hitnd
      -- the child's content is a sorted piece of the whole
      have hsc : Sorted cmp (flatten n (childOf it)) := by
        obtain ⟨l1, l2, hl⟩ := List.append_of_mem hitnd
        rw [hl, flatten_append, flatten_cons] at hs
        exact sorted_append_left (sorted_append_right hs)
      have hle := (le_lastKey hc n (childOf it) hwfc hch hsc).2 x hxit
      rw [← hkey] at hle
      -- x ≤ key < k
      have hkk : cmp (keyOf (n+1) it) k = .lt := (hc.swap_lt _ _).mpr (hA it hit)
      exact hc.gt_of_lt _ _ (hc.lt_of_le_of_lt x.1 _ k hle hkk)
    cases hB : nd.dropWhile (fun it => cmp k (keyOf (n+1) it) == .gt) with
    | nil =>
      rw [hB, List.append_nil] at hsplit
      have hall := hAgt [] (by simp [hsplit])
      rw [hsplit] at hall
      rw [lookup_none_of_gt k _ hall]
      subst hsplit
      cases hlast : A[min A.length (A.length - 1)]? with
      | none => rfl
      | some it =>
        simp only
        have hit : it ∈ A := List.mem_of_getElem? hlast
        obtain ⟨hch, _, _, hwfc⟩ := hwf it hit
        have hsc : Sorted cmp (flatten n (childOf it)) := by
          obtain ⟨l1, l2, hl⟩ := List.append_of_mem hit
          rw [hl, flatten_append, flatten_cons] at hs
          exact sorted_append_left (sorted_append_right hs)
        rw [getAt_refines hc k n (childOf it) hwfc hsc]
        exact lookup_none_of_gt k _ (fun x hx => hall x ((mem_flatten_succ n A x).mpr ⟨it, hit, hx⟩))
    | cons it B =>
      rw [hB] at hsplit
      have hnot : (cmp k (keyOf (n+1) it) == .gt) = false :=
        dropWhile_head (fun it : ItemH κ ν (n+1) => cmp k (keyOf (n+1) it) == .gt) nd it B hB
      have hagt := hAgt (it :: B) hsplit.symm
      have hidx : min A.length (nd.length - 1) = A.length := by
        rw [← hsplit]; simp
      have hget : nd[min A.length (nd.length - 1)]? = some it := by
        rw [hidx, ← hsplit]; simp
      rw [hget]
      simp only
      have hitnd : it ∈ nd := by rw [← hsplit]; simp
      obtain ⟨hch, hkey, _, hwfc⟩ := hwf it hitnd
      rw [← hsplit, flatten_append, flatten_cons] at hs
      have hsc : Sorted cmp (flatten n (childOf it)) := sorted_append_left (sorted_append_right hs)
      rw [getAt_refines hc k n (childOf it) hwfc hsc]
      conv => rhs; rw [← hsplit, flatten_append, flatten_cons]
      rw [lookup_append, lookup_none_of_gt k _ hagt, Option.none_or, lookup_append]
      -- nothing after the chosen child can match: k ≤ key(it) < everything there
      have hafter : lookup cmp (flatten (n+1) B) k = none := by
        apply lookup_none_of_lt
        intro z hz
        obtain ⟨⟨kv, hkvmem, hkv⟩, _⟩ := le_lastKey hc n (childOf it) hwfc hch hsc
        have hlt := sorted_append_lt (sorted_append_right hs) kv hkvmem z hz
        rw [hkv, ← hkey] at hlt
        have hle : cmp k (keyOf (n+1) it) ≠ .gt := by simpa using hnot
        exact hc.lt_of_le_of_lt k _ z.1 hle hlt
      rw [hafter, Option.or_none]

/-- `Tree.get` refines `SortedDict.lookup` -/
theorem Tree.get_refines [Inhabited κ] {cmp : κ → κ → Ordering} (hc : TotalPreorder cmp) (t : Tree κ ν)
    (hwf : WFNode t.height t.root) (hs : Sorted cmp t.flatten) (k : κ) :
    t.get cmp k = lookup cmp t.flatten k := by
  rw [Tree.get_eq_getAt]; exact getAt_refines hc k t.height t.root hwf hs

/-! ### ordinals -/

def ordAt (cmp : κ → κ → Ordering) (k : κ) : (n : Nat) → NodeH κ ν n → Option Nat
  | 0, nd => some (searchForKey cmp k (nodeKeys 0 nd))
  | n+1, nd =>
    match nd[min (searchForKey cmp k (nodeKeys (n+1) nd)) (nd.length - 1)]? with
    | none => none
    | some it => (ordAt cmp k n (childOf it)).map
        (· + ((nd.take (min (searchForKey cmp k (nodeKeys (n+1) nd)) (nd.length - 1))).map (countOf (n+1))).sum)

def ordVia (cmp : κ → κ → Ordering) (k : κ) (n : Nat) (nd : NodeH κ ν n) : Option Nat :=
  match seekPath (searchForKey cmp k) n nd with
  | none => none
  | some p => pathOrdinal n nd p

theorem ordVia_eq_ordAt (cmp : κ → κ → Ordering) (k : κ) : ∀ (n : Nat) (nd : NodeH κ ν n),
    ordVia cmp k n nd = ordAt cmp k n nd
  | 0, _ => rfl
  | n+1, nd => by
    unfold ordVia ordAt
    simp only [seekPath]
    cases hit : nd[min (searchForKey cmp k (nodeKeys (n+1) nd)) (nd.length - 1)]? with
    | none => rfl
    | some it =>
      simp only
      have ih := ordVia_eq_ordAt cmp k n (childOf it)
      unfold ordVia at ih
      cases hp : seekPath (searchForKey cmp k) n (childOf it) with
      | none => rw [hp] at ih; rw [← ih]; rfl
      | some p =>
        rw [hp] at ih
        simp only [Option.map_some, pathOrdinal, Nat.min_assoc, Nat.min_self, hit]
        simp only at ih
        rw [ih]

theorem Tree.ordinalForKey_eq_ordAt (t : Tree κ ν) (cmp : κ → κ → Ordering) (k : κ) :
    t.ordinalForKey cmp k = ordAt cmp k t.height t.root := ordVia_eq_ordAt cmp k t.height t.root

theorem sum_countOf_zero (l : List (ItemH κ ν 0)) : (l.map (countOf 0)).sum = l.length := by
  induction l with
  | nil => rfl
  | cons x xs ih =>
    rw [List.map_cons, List.sum_cons, ih, List.length_cons]
    show 1 + xs.length = xs.length + 1
    omega

/-- the stored counts are the sizes of the subtrees -/
theorem treeCount_eq_length [Inhabited κ] : ∀ (n : Nat) (nd : NodeH κ ν n), WFNode n nd →
    treeCount n nd = (flatten n nd).length
  | 0, nd, _ => sum_countOf_zero nd
  | n+1, nd, hwf => by
    induction nd with
    | nil => simp [treeCount, flatten]
    | cons it rest ih =>
      have hr := ih (wf_tail hwf)
      obtain ⟨_, _, hcnt, hwfc⟩ := hwf it (by simp)
      unfold treeCount at hr ⊢
      rw [List.map_cons, List.sum_cons, hr, flatten_cons, List.length_append, hcnt,
        treeCount_eq_length n (childOf it) hwfc]

theorem takeWhile_length_append_pos {α : Type} (p : α → Bool) : ∀ (x y : List α), (∀ a ∈ x, p a = true) →
    ((x ++ y).takeWhile p).length = x.length + (y.takeWhile p).length
  | [], y, _ => by simp
  | a :: x, y, h => by
    have ha := h a (by simp)
    simp only [List.cons_append, List.takeWhile_cons, ha, if_true, List.length_cons]
    rw [takeWhile_length_append_pos p x y (fun b hb => h b (by simp [hb]))]; omega

theorem takeWhile_length_append_neg {α : Type} (p : α → Bool) : ∀ (y z : List α), (∀ a ∈ z, p a = false) →
    ((y ++ z).takeWhile p).length = (y.takeWhile p).length
  | [], z, h => by
    cases z with
    | nil => rfl
    | cons a z => simp [List.takeWhile_cons, h a (by simp)]
  | a :: y, z, h => by
    by_cases ha : p a = true
    · simp only [List.cons_append, List.takeWhile_cons, ha, if_true, List.length_cons]
      rw [takeWhile_length_append_neg p y z h]
    · simp [List.takeWhile_cons, ha]

theorem sum_counts_eq_length [Inhabited κ] (n : Nat) : ∀ (l : NodeH κ ν (n+1)), WFNode (n+1) l →
    (l.map (countOf (n+1))).sum = (flatten (n+1) l).length := fun l h => treeCount_eq_length (n+1) l h

/-- **`GetOrdinalForKey` counts the keys below the probe, at every height** -/
theorem ordAt_refines [Inhabited κ] {cmp : κ → κ → Ordering} (hc : TotalPreorder cmp) (k : κ) :
    ∀ (n : Nat) (nd : NodeH κ ν n), WFNode n nd → Sorted cmp (flatten n nd) → (n = 0 ∨ nd ≠ []) →
      ordAt cmp k n nd = some ((flatten n nd).takeWhile (fun kv => cmp k kv.1 == .gt)).length
  | 0, nd, _, hs, _ => by
    have hkeys : (nd.map (·.1)).Pairwise (fun a b => cmp a b = .lt) := List.pairwise_map.mpr hs
    have h : ordAt cmp k 0 nd = some (searchForKey cmp k (nd.map (·.1))) := rfl
    rw [h, searchForKey_eq_takeWhile hc k _ hkeys, List.takeWhile_map, List.length_map]
    rfl
  | n+1, nd, hwf, hs, hne => by
    have hne : nd ≠ [] := by rcases hne with h | h; exact absurd h (by simp); exact h
    have hkeys := keys_sorted hc n nd hwf hs
    unfold ordAt
    rw [searchForKey_eq_takeWhile hc k _ hkeys]
    have hlen : (List.takeWhile (fun x => cmp k x == .gt) (nodeKeys (n+1) nd)).length
        = (nd.takeWhile (fun it => cmp k (keyOf (n+1) it) == .gt)).length := by
      unfold nodeKeys; rw [List.takeWhile_map]; simp [Function.comp_def]
    rw [hlen]
    have hsplit := List.takeWhile_append_dropWhile (p := fun it : ItemH κ ν (n+1) => cmp k (keyOf (n+1) it) == .gt) (l := nd)
    have hA : ∀ it ∈ nd.takeWhile (fun it => cmp k (keyOf (n+1) it) == .gt), cmp k (keyOf (n+1) it) = .gt := by
      intro x hx; have := mem_takeWhile_true _ _ x hx; simpa using this
    generalize nd.takeWhile (fun it => cmp k (keyOf (n+1) it) == .gt) = A at hsplit hA
    have hAgt : ∀ (B : NodeH κ ν (n+1)), nd = A ++ B → ∀ x ∈ flatten (n+1) A, cmp k x.1 = .gt := by
      intro B hnd x hx
      obtain ⟨it, hit, hxit⟩ := (mem_flatten_succ n A x).mp hx
      have hitnd : it ∈ nd := by rw [hnd]; simp [hit]
      obtain ⟨hch, hkey, _, hwfc⟩ := hwf it hitnd
      have hsc : Sorted cmp (flatten n (childOf it)) := by
        obtain ⟨l1, l2, hl⟩ := List.append_of_mem hitnd
        rw [hl, flatten_append, flatten_cons] at hs
        exact sorted_append_left (sorted_append_right hs)
      have hle := (le_lastKey hc n (childOf it) hwfc hch hsc).2 x hxit
      rw [← hkey] at hle
      have hkk : cmp (keyOf (n+1) it) k = .lt := (hc.swap_lt _ _).mpr (hA it hit)
      exact hc.gt_of_lt _ _ (hc.lt_of_le_of_lt x.1 _ k hle hkk)
    cases hB : nd.dropWhile (fun it => cmp k (keyOf (n+1) it) == .gt) with
    | nil =>
      -- the probe is above every key: clamp to the last child, whose keys are all below it
      rw [hB, List.append_nil] at hsplit
      have hall := hAgt [] (by simp [hsplit])
      subst hsplit
      have hc1 : A = A.dropLast ++ [A.getLast hne] := (List.dropLast_concat_getLast hne).symm
      have hidx : min A.length (A.length - 1) = A.dropLast.length := by
        rw [List.length_dropLast]; omega
      have hget : A[min A.length (A.length - 1)]? = some (A.getLast hne) := by
        rw [hidx]; conv => lhs; rw [hc1]
        simp
      have htake : A.take (min A.length (A.length - 1)) = A.dropLast := by
        rw [hidx]; conv => lhs; rw [hc1]
        simp
      rw [hget, htake]
      simp only
      have hmem : A.getLast hne ∈ A := List.getLast_mem hne
      obtain ⟨hch, _, _, hwfc⟩ := hwf _ hmem
      have hs' := hs
      rw [hc1, flatten_append] at hs'
      have hfl1 : flatten (n+1) [A.getLast hne] = flatten n (childOf (A.getLast hne)) := by simp [flatten]
      rw [hfl1] at hs'
      rw [ordAt_refines hc k n _ hwfc (sorted_append_right hs') (Or.inr hch)]
      have hwfd : WFNode (n+1) A.dropLast := fun x hx => hwf x ((List.dropLast_sublist A).subset hx)
      rw [Option.map_some, sum_counts_eq_length n _ hwfd]
      congr 1
      -- everything is `gt`: both takeWhiles are the whole lists
      have hfull : ∀ (l : List (κ × ν)), (∀ x ∈ l, cmp k x.1 = .gt) →
          (l.takeWhile (fun kv => cmp k kv.1 == .gt)).length = l.length := by
        intro l hl
        have := takeWhile_length_append_pos (fun kv : κ × ν => cmp k kv.1 == .gt) l [] (by intro a ha; simp [hl a ha])
        simpa using this
      rw [hfull _ hall]
      rw [hfull _ (fun x hx => hall x ((mem_flatten_succ n A x).mpr ⟨_, hmem, hx⟩))]
      conv => rhs; rw [hc1, flatten_append, hfl1, List.length_append]
      omega
    | cons it B =>
      rw [hB] at hsplit
      have hnot : (cmp k (keyOf (n+1) it) == .gt) = false :=
        dropWhile_head (fun it : ItemH κ ν (n+1) => cmp k (keyOf (n+1) it) == .gt) nd it B hB
      have hagt := hAgt (it :: B) hsplit.symm
      have hidx : min A.length (nd.length - 1) = A.length := by
        rw [← hsplit]; simp
      have hget : nd[min A.length (nd.length - 1)]? = some it := by
        rw [hidx, ← hsplit]; simp
      have htake : nd.take (min A.length (nd.length - 1)) = A := by
        rw [hidx, ← hsplit]; simp
      rw [hget, htake]
      simp only
      have hitnd : it ∈ nd := by rw [← hsplit]; simp
      obtain ⟨hch, hkey, _, hwfc⟩ := hwf it hitnd
      have hwfA : WFNode (n+1) A := fun x hx => hwf x (by rw [← hsplit]; simp [hx])
      rw [← hsplit, flatten_append, flatten_cons] at hs
      have hsc : Sorted cmp (flatten n (childOf it)) := sorted_append_left (sorted_append_right hs)
      rw [ordAt_refines hc k n (childOf it) hwfc hsc (Or.inr hch), Option.map_some, sum_counts_eq_length n A hwfA]
      congr 1
      conv => rhs; rw [← hsplit, flatten_append, flatten_cons]
      rw [takeWhile_length_append_pos _ _ _ (by intro a ha; simp [hagt a ha])]
      rw [takeWhile_length_append_neg]
      · omega
      · intro z hz
        obtain ⟨⟨kv, hkvmem, hkv⟩, _⟩ := le_lastKey hc n (childOf it) hwfc hch hsc
        have hlt := sorted_append_lt (sorted_append_right hs) kv hkvmem z hz
        rw [hkv, ← hkey] at hlt
        have hle : cmp k (keyOf (n+1) it) ≠ .gt := by simpa using hnot
        have := hc.lt_of_le_of_lt k _ z.1 hle hlt
        simp [this]

end DoltVerif.Prolly
