import DoltVerif.Lemmas.ProllyMergeGen
import DoltVerif.Lemmas.ProllyDiffSearch
/-!
C14: a concrete height-1 input on which the transliterated `PatchGenerator` emits a wrong patch —
base `[1,2,3,4 | 5,6,7,8]`, x `[1,2,3,4' | 5,6]`: `Next` ×3 gives `(_,4]`, `(4,6]`, `(6,8] removed`, and
`split` of the removed range yields `removed 5` although key 5 is unchanged.  Hence no `GenSound`
invariant exists for this pair (the real implementation behaves the same; design/C14.md, second defect).
-/
namespace DoltVerif.ProllyMerge.Refute
open DoltVerif.ProllyDiff DoltVerif.ProllyMerge

/-- order of single-byte keys -/
def cmpB (a b : Bytes) : Ordering := compare (a.headD 0).toNat (b.headD 0).toNat

def b1 : Tree := .leaf [([1], [1]), ([2], [2]), ([3], [3]), ([4], [4])]
def b2 : Tree := .leaf [([5], [5]), ([6], [6]), ([7], [7]), ([8], [8])]
def x1 : Tree := .leaf [([1], [1]), ([2], [2]), ([3], [3]), ([4], [99])]
def x2 : Tree := .leaf [([5], [5]), ([6], [6])]
def base : Tree := .node [([4], 1, b1), ([8], 2, b2)]
def xx : Tree := .node [([4], 3, x1), ([6], 4, x2)]
def store : Addr → Option Tree
  | 1 => some b1
  | 2 => some b2
  | 3 => some x1
  | 4 => some x2
  | _ => none
def d0 : PG := ⟨[⟨base, 0⟩], [⟨xx, 0⟩], none, 0, none⟩

theorem run : ∃ d1 p1 t1 d2 p2 t2 d3 p3 t3 d4 p4 t4,
    pgNext cmpB 6 d0 = .ok (d1, some (p1, t1)) ∧ pgNext cmpB 6 d1 = .ok (d2, some (p2, t2)) ∧
    pgNext cmpB 6 d2 = .ok (d3, some (p3, t3)) ∧ p3.level ≠ 0 ∧
    pgSplit cmpB 6 d3 = .ok (d4, some (p4, t4)) ∧ p4.level = 0 ∧ p4.endKey = [5] :=
  ⟨_, _, _, _, _, _, _, _, _, _, _, _, rfl, rfl, rfl, by decide, rfl, rfl, rfl⟩

theorem flat_base : base.flatten = [([1], [1]), ([2], [2]), ([3], [3]), ([4], [4]), ([5], [5]), ([6], [6]), ([7], [7]), ([8], [8])] := by
  simp [base, b1, b2, Tree.flatten, flattenCs]

theorem flat_xx : xx.flatten = [([1], [1]), ([2], [2]), ([3], [3]), ([4], [99]), ([5], [5]), ([6], [6])] := by
  simp [xx, x1, x2, Tree.flatten, flattenCs]

/-- key 5 is unchanged between base and x -/
theorem key5_unchanged : changeOf (lookupKV cmpB [5] base.flatten) (lookupKV cmpB [5] xx.flatten) = none := by
  rw [flat_base, flat_xx]; decide

/-- **no_genSound**: for this pair of well-formed height-1 trees no invariant satisfies `GenSound` — the
generator's `split` of the removed range `(6, 8]` reports key 5 as removed -/
theorem no_genSound : ¬ ∃ Inv, GenSound cmpB store 6 base.flatten xx.flatten Inv ∧ Inv d0 .start := by
  rintro ⟨Inv, gs, h0⟩
  obtain ⟨d1, p1, t1, d2, p2, t2, d3, p3, t3, d4, p4, t4, e1, e2, e3, hl3, e4, hl4, hk4⟩ := run
  have i1 : Inv d1 (.at p1 t1) := (gs.next d0 .start d1 _ h0 (by intro h; cases h) e1).1
  have i2 : Inv d2 (.at p2 t2) := (gs.next d1 (.at p1 t1) d2 _ i1 (by intro h; cases h) e2).1
  have i3 : Inv d3 (.at p3 t3) := (gs.next d2 (.at p2 t2) d3 _ i2 (by intro h; cases h) e3).1
  have i4 : Inv d4 (.at p4 t4) := (gs.split d3 p3 t3 d4 _ i3 hl3 e4).1
  have c4 := (gs.cur d4 p4 t4 i4).2.2.2 hl4
  rw [hk4, key5_unchanged] at c4
  cases c4

/-! the two trees are well-formed, key-consistent, strictly ascending, of height 1 -/

theorem wf_base : base.WF store := by
  simp [base, b1, b2, Tree.WF, WFCs, firstHeight, store, Tree.count, Tree.height]
theorem wf_xx : xx.WF store := by
  simp [xx, x1, x2, Tree.WF, WFCs, firstHeight, store, Tree.count, Tree.height]
theorem keys_base : base.KeysOK := by
  simp [base, b1, b2, Tree.KeysOK, KeysOKCs, Tree.flatten]
theorem keys_xx : xx.KeysOK := by
  simp [xx, x1, x2, Tree.KeysOK, KeysOKCs, Tree.flatten]
theorem sorted_base : Sorted cmpB base.flatten := by
  rw [flat_base]; unfold Sorted; decide
theorem sorted_xx : Sorted cmpB xx.flatten := by
  rw [flat_xx]; unfold Sorted; decide
theorem height_base : base.height ≤ 1 := by simp [base, b1, Tree.height, firstHeight]
theorem height_xx : xx.height ≤ 1 := by simp [xx, x1, Tree.height, firstHeight]
theorem roots : pgFromRoots base xx = .ok d0 := rfl

end DoltVerif.ProllyMerge.Refute
