/-
`mutableMapIter` (merge of the pending edits with the tree items, edits win, deletes drop) is
`applyEdits`; filtering by a key predicate commutes with `applyEdits`.
-/
import DoltVerif.Model.MutableMap
import DoltVerif.Lemmas.Overlay
import DoltVerif.Lemmas.Window
namespace DoltVerif.Prolly
open DoltVerif.SortedDict

variable {κ ν : Type}

/-- **the merging iterator computes `applyEdits`** (needs only the comparator's symmetry) -/
theorem mergeIter_eq_applyEdits {cmp : κ → κ → Ordering} (hc : TotalPreorder cmp) :
    ∀ (n : Nat) (ms : List (κ × Option ν)) (ps : List (κ × ν)), ms.length + ps.length ≤ n →
      MutMap.mergeIter cmp ms ps = applyEdits cmp ps ms
  | _, [], ps, _ => by simp [MutMap.mergeIter, applyEdits]
  | 0, _ :: _, _, h => by simp at h
  | n+1, (ek, ev) :: ms, [], h => by
    have ih := mergeIter_eq_applyEdits hc n ms [] (by simp at h ⊢; omega)
    cases ev with
    | some v => simp [MutMap.mergeIter, applyEdits, cutAt, emit, ih]
    | none => simp [MutMap.mergeIter, applyEdits, cutAt, emit, ih]
  | n+1, (ek, ev) :: ms, (pk, pv) :: ps, h => by
    simp only [List.length_cons] at h
    have ih1 := mergeIter_eq_applyEdits hc n ((ek, ev) :: ms) ps (by simp; omega)
    have ih2 := mergeIter_eq_applyEdits hc n ms ((pk, pv) :: ps) (by simp; omega)
    have ih3 := mergeIter_eq_applyEdits hc n ms ps (by omega)
    cases hpe : cmp pk ek with
    | lt =>
      have hep : cmp ek pk = .gt := hc.gt_of_lt pk ek hpe
      cases ev with
      | some v => simp only [MutMap.mergeIter, hpe] at ih1 ⊢; rw [ih1]; simp [applyEdits, cutAt, hep]
      | none => simp only [MutMap.mergeIter, hpe] at ih1 ⊢; rw [ih1]; simp [applyEdits, cutAt, hep]
    | gt =>
      have hep : cmp ek pk = .lt := (hc.swap_lt ek pk).mpr hpe
      cases ev with
      | some v => simp only [MutMap.mergeIter, hpe]; rw [ih2]; simp [applyEdits, cutAt, hep, emit]
      | none => simp only [MutMap.mergeIter, hpe]; rw [ih2]; simp [applyEdits, cutAt, hep, emit]
    | eq =>
      have hep : cmp ek pk = .eq := hc.swap_eq pk ek hpe
      cases ev with
      | some v => simp only [MutMap.mergeIter, hpe]; rw [ih3]; simp [applyEdits, cutAt, hep, emit]
      | none => simp only [MutMap.mergeIter, hpe]; rw [ih3]; simp [applyEdits, cutAt, hep, emit]

/-- cutting commutes with filtering by a key predicate (sorted list) -/
theorem cutAt_filter {cmp : κ → κ → Ordering} (hc : TotalPreorder cmp) (mk : κ → Bool) (k : κ) :
    ∀ (l : List (κ × ν)), Sorted cmp l →
      cutAt cmp k (l.filter (fun kv => mk kv.1))
        = ((cutAt cmp k l).1.filter (fun kv => mk kv.1), (cutAt cmp k l).2.filter (fun kv => mk kv.1))
  | [], _ => rfl
  | x :: l, hs => by
    unfold Sorted at hs
    rw [List.pairwise_cons] at hs
    have ih := cutAt_filter hc mk k l hs.2
    cases hkx : cmp k x.1 with
    | gt =>
      by_cases hm : mk x.1 = true
      · simp [List.filter_cons, hm, cutAt, hkx, ih]
      · simp [List.filter_cons, hm, cutAt, hkx, ih]
    | lt =>
      have hall : ∀ y ∈ (x :: l).filter (fun kv => mk kv.1), cmp k y.1 = .lt := by
        intro y hy
        have hy' : y ∈ x :: l := (List.mem_filter.mp hy).1
        rcases List.mem_cons.mp hy' with rfl | hyl
        · exact hkx
        · exact hc.lt_trans k x.1 y.1 hkx (hs.1 y hyl)
      rw [cutAt_all_lt cmp k _ hall]
      simp [cutAt, hkx]
    | eq =>
      have hall : ∀ y ∈ l.filter (fun kv => mk kv.1), cmp k y.1 = .lt := by
        intro y hy
        have hyl : y ∈ l := (List.mem_filter.mp hy).1
        exact hc.lt_of_le_of_lt k x.1 y.1 (by rw [hkx]; simp) (hs.1 y hyl)
      by_cases hm : mk x.1 = true
      · simp [List.filter_cons, hm, cutAt, hkx]
      · simp only [List.filter_cons, hm, Bool.false_eq_true, if_false, cutAt, hkx]
        rw [cutAt_all_lt cmp k _ hall]
        rfl

/-- applying a batch below which everything already is: the prefix passes through -/
theorem applyEdits_prefix {cmp : κ → κ → Ordering} (hc : TotalPreorder cmp) (a b : List (κ × ν)) :
    ∀ (fs : Edits κ ν), (∀ x ∈ a, ∀ f ∈ fs, cmp f.1 x.1 = .gt) →
      applyEdits cmp (a ++ b) fs = a ++ applyEdits cmp b fs
  | [], _ => rfl
  | f :: fs, h => by
    have hf : ∀ x ∈ a, cmp f.1 x.1 = .gt := fun x hx => h x hx f (by simp)
    show (cutAt cmp f.1 (a ++ b)).1 ++ emit f.1 f.2 ++ applyEdits cmp (cutAt cmp f.1 (a ++ b)).2 fs = _
    rw [cutAt_append_right cmp f.1 b a hf]
    show a ++ (cutAt cmp f.1 b).1 ++ emit f.1 f.2 ++ applyEdits cmp (cutAt cmp f.1 b).2 fs
      = a ++ ((cutAt cmp f.1 b).1 ++ emit f.1 f.2 ++ applyEdits cmp (cutAt cmp f.1 b).2 fs)
    simp [List.append_assoc]

/-- **filtering by a key predicate commutes with applying a sorted batch** (the predicate must not
separate keys that compare equal) -/
theorem filter_applyEdits {cmp : κ → κ → Ordering} (hc : TotalPreorder cmp) (mk : κ → Bool)
    (hcongr : ∀ a b, cmp a b = .eq → mk a = mk b) :
    ∀ (es : Edits κ ν) (l : List (κ × ν)), Sorted cmp l → es.Pairwise (fun a b => cmp a.1 b.1 = .lt) →
      (applyEdits cmp l es).filter (fun kv => mk kv.1)
        = applyEdits cmp (l.filter (fun kv => mk kv.1)) (es.filter (fun e => mk e.1))
  | [], l, _, _ => rfl
  | e :: es, l, hs, hes => by
    rw [List.pairwise_cons] at hes
    have hpost : Sorted cmp (cutAt cmp e.1 l).2 := by
      unfold Sorted at hs ⊢; exact List.Pairwise.sublist (cutAt_snd_sublist cmp e.1 l) hs
    have ih := filter_applyEdits hc mk hcongr es (cutAt cmp e.1 l).2 hpost hes.2
    have hcf := cutAt_filter hc mk e.1 l hs
    show ((cutAt cmp e.1 l).1 ++ emit e.1 e.2 ++ applyEdits cmp (cutAt cmp e.1 l).2 es).filter _ = _
    rw [List.filter_append, List.filter_append, ih]
    by_cases hm : mk e.1 = true
    · have hemit : (emit e.1 e.2).filter (fun kv => mk kv.1) = emit e.1 e.2 := by
        cases e.2 <;> simp [emit, hm]
      simp only [List.filter_cons, hm, if_true, hemit]
      show _ = (cutAt cmp e.1 (l.filter _)).1 ++ emit e.1 e.2 ++ applyEdits cmp (cutAt cmp e.1 (l.filter _)).2 _
      rw [hcf]
    · have hemit : (emit e.1 e.2).filter (fun kv => mk kv.1) = [] := by
        cases e.2 <;> simp [emit, hm]
      simp only [List.filter_cons, hm, Bool.false_eq_true, if_false, hemit, List.append_nil]
      -- the dropped equal-key entry (if any) fails the predicate too
      obtain ⟨mid, hdec, hmid⟩ := cutAt_decomp cmp e.1 l
      have hmidf : mid.filter (fun kv => mk kv.1) = [] := by
        rw [List.filter_eq_nil_iff]
        intro x hx
        rw [← hcongr e.1 x.1 (hmid x hx)]; simpa using hm
      have hl : l.filter (fun kv => mk kv.1)
          = (cutAt cmp e.1 l).1.filter (fun kv => mk kv.1) ++ (cutAt cmp e.1 l).2.filter (fun kv => mk kv.1) := by
        conv => lhs; rw [hdec]
        rw [List.filter_append, List.filter_append, hmidf, List.append_nil]
      rw [hl]
      symm
      apply applyEdits_prefix hc
      intro x hx f hf
      have hx' : x ∈ (cutAt cmp e.1 l).1 := (List.mem_filter.mp hx).1
      have hf' : f ∈ es := (List.mem_filter.mp hf).1
      have h1 : cmp x.1 e.1 = .lt := (hc.swap_lt _ _).mpr (cutAt_fst_gt cmp e.1 l x hx')
      exact hc.gt_of_lt _ _ (hc.lt_trans x.1 e.1 f.1 h1 (hes.1 f hf'))

/-- the `[start, stop)` window of the pending edits (`memIterFromRange`) holds every matching edit -/
theorem mem_window_filter {cmp : κ → κ → Ordering} {pLo pHi : κ → Bool} (hHi : Mono cmp pHi)
    (es : Edits κ ν) (hs : es.Pairwise (fun a b => cmp a.1 b.1 = .lt)) (mk : κ → Bool)
    (hm : ∀ x, mk x = true → pLo x = true ∧ pHi x = false) :
    ((es.dropWhile (fun e => !pLo e.1)).takeWhile (fun e => !pHi e.1)).filter (fun e => mk e.1)
      = es.filter (fun e => mk e.1) := by
  have hsplit := List.takeWhile_append_dropWhile (p := fun e : κ × Option ν => !pLo e.1) (l := es)
  have hA : (es.takeWhile (fun e => !pLo e.1)).filter (fun e => mk e.1) = [] := by
    rw [List.filter_eq_nil_iff]
    intro x hx hmx
    have := mem_takeWhile_true _ _ x hx
    rw [(hm x.1 hmx).1] at this; simp at this
  generalize hD : es.dropWhile (fun e => !pLo e.1) = D at hsplit
  have hDs : Sorted cmp D := by
    have hsub : D.Sublist es := by rw [← hD]; exact List.dropWhile_sublist _
    exact List.Pairwise.sublist hsub hs
  have hsplit2 := List.takeWhile_append_dropWhile (p := fun e : κ × Option ν => !pHi e.1) (l := D)
  have hR : (D.dropWhile (fun e => !pHi e.1)).filter (fun e => mk e.1) = [] := by
    rw [List.filter_eq_nil_iff]
    intro x hx hmx
    have := dropWhile_all (ν := Option ν) hHi D hDs x hx
    rw [(hm x.1 hmx).2] at this; cases this
  conv => rhs; rw [← hsplit, List.filter_append, hA, List.nil_append, ← hsplit2, List.filter_append, hR,
    List.append_nil]

end DoltVerif.Prolly
