import DoltVerif.Lemmas.ManStore
/-! The invariant behind C02 (every lock in the system determines its root) and the per-step facts. -/
namespace DoltVerif.ManStore

/-- Every manifest contents anywhere in the system (on disk, cached by a handle, prepared by a parked
commit) carries the lock hash of its own root; a parked commit still sees the `last` it checked. -/
structure Inv (s : Sys) : Prop where
  disk : ∀ m, s.disk.manifest = some m → m.WF ∧ m.lock ≠ none
  up : ∀ i, (s.hs i).upstream.WF
  pc : ∀ i p, (s.hs i).pc = some p →
    p.new.WF ∧ p.new.lock ≠ none ∧ p.new.root = p.cur ∧ (s.hs i).upstream.root = p.last

theorem inv_init : Inv Sys.init := by
  refine ⟨?_, ?_, ?_⟩
  · intro m h; simp [Sys.init, Disk.empty] at h
  · intro i; exact initial_wf
  · intro i p h; simp [Sys.init, Handle.closed] at h

/-- a handle whose cached lock equals the lock on disk also has the root that is on disk -/
theorem Inv.root_of_lock {s : Sys} (hi : Inv s) (i : Nat) (h : s.disk.lock = (s.hs i).upstream.lock) :
    s.disk.root = (s.hs i).upstream.root := by
  have hu := hi.up i
  cases hm : s.disk.manifest with
  | none =>
    simp [Disk.lock, hm] at h
    simp only [Disk.root, hm]
    unfold Contents.WF at hu; rw [← h] at hu; exact hu.symm
  | some m =>
    simp only [Disk.lock, hm] at h
    simp only [Disk.root, hm]
    exact Contents.WF.root_eq (hi.disk m hm).1 hu h

/-- the acknowledgement a step carries: `cresume i` answering `true` acknowledges the parked commit -/
def ackOf (s : Sys) (op : Op) (r : Resp) : Option (Addr × Addr) :=
  match op, r with
  | .cresume i, .commit (.ok true) => (s.hs i).pc.map fun p => (p.last, p.cur)
  | _, _ => none

/-- steps that rewrite the table-spec list of the manifest without being a commit -/
def Op.isAddTables : Op → Bool
  | .addTables _ _ => true
  | .conjoin _ => true
  | _ => false

structure StepFacts (s s' : Sys) (op : Op) (r : Resp) : Prop where
  inv : Inv s'
  ack : ∀ l c, ackOf s op r = some (l, c) →
    s'.disk.root = c ∧ (s.disk.root = l ∨ (s.disk.root = c ∧ s'.disk.manifest = s.disk.manifest))
  strict : ∀ l c i p, ackOf s op r = some (l, c) → op = .cresume i → (s.hs i).pc = some p →
    s.disk.lock ≠ p.new.lock → s.disk.root = l
  noack : ackOf s op r = none → s'.disk.root = s.disk.root
  manifest : ackOf s op r = none → op.isAddTables = false → s'.disk.manifest = s.disk.manifest

/-- replacing one handle by one that keeps `upstream` well formed and has no parked commit (or the same one
with the same upstream root) -/
theorem Inv.set {s : Sys} (hi : Inv s) (i : Nat) (h' : Handle) (hu : h'.upstream.WF)
    (hp : ∀ p, h'.pc = some p → p.new.WF ∧ p.new.lock ≠ none ∧ p.new.root = p.cur ∧ h'.upstream.root = p.last) :
    Inv (s.set i h') := by
  refine ⟨hi.disk, ?_, ?_⟩
  · intro j; simp only [Sys.set]; split
    · exact hu
    · exact hi.up j
  · intro j p; simp only [Sys.set]; split
    · exact hp p
    · exact hi.pc j p

theorem facts_same_disk {s : Sys} (hi : Inv s) (i : Nat) (h' : Handle) (op : Op) (r : Resp) (hu : h'.upstream.WF)
    (hp : ∀ p, h'.pc = some p → p.new.WF ∧ p.new.lock ≠ none ∧ p.new.root = p.cur ∧ h'.upstream.root = p.last)
    (ha : ackOf s op r = none) : StepFacts s (s.set i h') op r :=
  ⟨hi.set i h' hu hp, by intro l c h; rw [ha] at h; simp at h, by intro l c i p h; rw [ha] at h; simp at h, fun _ => rfl, fun _ _ => rfl⟩

theorem facts_refl {s : Sys} (hi : Inv s) (op : Op) (r : Resp) (ha : ackOf s op r = none) : StepFacts s s op r :=
  ⟨hi, by intro l c h; rw [ha] at h; simp at h, by intro l c i p h; rw [ha] at h; simp at h, fun _ => rfl, fun _ _ => rfl⟩

theorem rebase_wf {s : Sys} (hi : Inv s) (h : Handle) (hu : h.upstream.WF) : (h.rebase s.disk).1.upstream.WF := by
  rcases rebase_cases s.disk h with e | ⟨m, hm, e, _⟩
  · rw [e]; exact hu
  · rw [e]; exact (hi.disk m hm).1

theorem rebase_pc (d : Disk) (h : Handle) : (h.rebase d).1.pc = h.pc := by
  rcases rebase_cases d h with e | ⟨m, _, e, _⟩ <;> rw [e]; rfl

theorem prepare_wf (env : Env) (h : Handle) (cur last : Addr) (hu : h.upstream.WF) (hpc : h.pc = none) :
    (h.prepare env cur last).1.upstream.WF ∧
    ∀ p, (h.prepare env cur last).1.pc = some p →
      p.new.WF ∧ p.new.lock ≠ none ∧ p.new.root = p.cur ∧ (h.prepare env cur last).1.upstream.root = p.last := by
  obtain ⟨h1, h2⟩ := prepare_cases env h cur last
  refine ⟨by rw [h1]; exact hu, ?_⟩
  intro p hp
  rcases h2 with ⟨_, _, e⟩ | ⟨_, hl, specs, e⟩
  · rw [e, hpc] at hp; simp at hp
  · rw [e] at hp; simp at hp; subst hp
    exact ⟨mk_wf _ _, mkLock_ne_none _ _, rfl, by rw [h1]; exact hl⟩

theorem prepare_parked_pc (env : Env) (h : Handle) (cur last : Addr) (hpc : h.pc = none)
    (hr : (h.prepare env cur last).2 ≠ .parked) : (h.prepare env cur last).1.pc = none := by
  obtain ⟨_, h2⟩ := prepare_cases env h cur last
  rcases h2 with ⟨_, _, e⟩ | ⟨e, _⟩
  · rw [e, hpc]
  · exact absurd e hr

end DoltVerif.ManStore
