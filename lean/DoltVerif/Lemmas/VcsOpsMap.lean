import DoltVerif.Model.VcsOps
/-!
Helper lemmas about the ascending association lists of `Model/VcsOps.lean`: `get` / `put` / `del`,
`insKey` / `unionKeys`, extensionality of sorted lists, and the reconstruction lemma
`filterMap_get_eq` the merge laws rest on.
-/
namespace DoltVerif.VcsOps

/-- a strict total order given as a Boolean `lt` -/
structure StrictTotal {κ : Type} (lt : κ → κ → Bool) : Prop where
  irrefl : ∀ a, lt a a = false
  trans : ∀ a b c, lt a b = true → lt b c = true → lt a c = true
  total : ∀ a b, lt a b = false → lt b a = false → a = b

theorem strictTotal_ltInt : StrictTotal ltInt where
  irrefl := by intro a; simp [ltInt]
  trans := by intro a b c; simp only [ltInt, decide_eq_true_eq]; omega
  total := by intro a b; simp only [ltInt, decide_eq_false_iff_not]; omega

theorem strictTotal_ltStr : StrictTotal ltStr where
  irrefl := by intro a; simp [ltStr, String.lt_irrefl]
  trans := by
    intro a b c; simp only [ltStr, decide_eq_true_eq]; exact fun h1 h2 => String.lt_trans h1 h2
  total := by
    intro a b; simp only [ltStr, decide_eq_false_iff_not]
    intro h1 h2
    exact String.le_antisymm (String.not_lt.mp h2) (String.not_lt.mp h1)

/-- ascending, duplicate free -/
def Sorted {κ : Type} (lt : κ → κ → Bool) (ks : List κ) : Prop := ks.Pairwise (fun a b => lt a b = true)

variable {κ α : Type} [DecidableEq κ] {lt : κ → κ → Bool}

theorem get_none_of_not_mem (m : List (κ × α)) (k : κ) (h : k ∉ keys m) : get m k = none := by
  induction m with
  | nil => rfl
  | cons kv rest ih =>
    obtain ⟨k', v⟩ := kv
    simp only [keys, List.map_cons, List.mem_cons, not_or] at h
    have hne : ¬ k' = k := fun e => h.1 e.symm
    simp only [get, hne, if_false]
    exact ih (by simpa [keys] using h.2)

theorem mem_keys_of_get (m : List (κ × α)) (k : κ) (v : α) (h : get m k = some v) : k ∈ keys m := by
  apply Classical.byContradiction
  intro hn
  rw [get_none_of_not_mem m k hn] at h
  cases h

/-- a key smaller than every key of the list is not in it -/
theorem get_none_of_lt (st : StrictTotal lt) (m : List (κ × α)) (k : κ)
    (h : ∀ k' ∈ keys m, lt k k' = true) : get m k = none := by
  apply get_none_of_not_mem
  intro hk
  have := h k hk
  rw [st.irrefl] at this
  cases this

/-! ### reconstruction: filtering a sorted superset of the keys through `get` gives the list back -/

theorem filterMap_get_none (ks : List κ) (f : κ → Option α) (h : ∀ k ∈ ks, f k = none) :
    ks.filterMap (fun k => (f k).map (fun v => (k, v))) = [] := by
  induction ks with
  | nil => rfl
  | cons k rest ih =>
    rw [List.filterMap_cons]
    rw [h k (List.mem_cons_self)]
    simpa using ih (fun k' hk' => h k' (List.mem_cons_of_mem _ hk'))

theorem filterMap_congr' {β γ : Type} (l : List β) (f g : β → Option γ) (h : ∀ a ∈ l, f a = g a) :
    l.filterMap f = l.filterMap g := by
  induction l with
  | nil => rfl
  | cons a rest ih =>
    rw [List.filterMap_cons, List.filterMap_cons, h a List.mem_cons_self,
      ih (fun b hb => h b (List.mem_cons_of_mem _ hb))]

theorem filterMap_get_eq (st : StrictTotal lt) (ks : List κ) (hks : Sorted lt ks) (x : List (κ × α))
    (hx : Sorted lt (keys x)) (hsub : ∀ k ∈ keys x, k ∈ ks) :
    ks.filterMap (fun k => (get x k).map (fun v => (k, v))) = x := by
  induction ks generalizing x with
  | nil =>
    cases x with
    | nil => rfl
    | cons kv rest => exact absurd (hsub kv.1 (by simp [keys])) (by simp)
  | cons k rest ih =>
    have hks' : Sorted lt rest := (List.pairwise_cons.mp hks).2
    have hklt : ∀ k' ∈ rest, lt k k' = true := (List.pairwise_cons.mp hks).1
    cases x with
    | nil =>
      exact filterMap_get_none (k :: rest) (get ([] : List (κ × α))) (fun _ _ => rfl)
    | cons kv xs =>
      obtain ⟨k', v⟩ := kv
      have hxs : Sorted lt (keys xs) := by
        have := List.pairwise_cons.mp (show List.Pairwise (fun a b => lt a b = true) (k' :: keys xs) from hx)
        exact this.2
      have hk'lt : ∀ k'' ∈ keys xs, lt k' k'' = true := by
        have := List.pairwise_cons.mp (show List.Pairwise (fun a b => lt a b = true) (k' :: keys xs) from hx)
        exact this.1
      have hk'mem : k' ∈ k :: rest := hsub k' (by simp [keys])
      by_cases hkk : k' = k
      · -- the head key is the head of ks
        subst hkk
        rw [List.filterMap_cons]
        have hg : get ((k', v) :: xs) k' = some v := by simp [get]
        rw [hg]
        simp only [Option.map_some]
        congr 1
        -- on the rest, lookups skip the head
        have hrest : rest.filterMap (fun k => (get ((k', v) :: xs) k).map (fun v => (k, v)))
            = rest.filterMap (fun k => (get xs k).map (fun v => (k, v))) := by
          apply filterMap_congr'
          intro a ha
          have hne : ¬ k' = a := by
            intro e
            have := hklt a ha
            rw [← e, st.irrefl] at this
            cases this
          simp [get, hne]
        rw [hrest]
        apply ih hks' xs hxs
        intro a ha
        have := hsub a (by simp [keys]; right; simpa [keys] using ha)
        rcases List.mem_cons.mp this with e | h
        · have := hk'lt a ha
          rw [e, st.irrefl] at this
          cases this
        · exact h
      · -- k is not a key of x at all
        have hk'rest : k' ∈ rest := by
          rcases List.mem_cons.mp hk'mem with e | h
          · exact absurd e hkk
          · exact h
        have hkk' : lt k k' = true := hklt k' hk'rest
        have hnone : get ((k', v) :: xs) k = none := by
          apply get_none_of_lt st
          intro a ha
          have ha' : a = k' ∨ a ∈ keys xs := by simpa [keys] using ha
          rcases ha' with e | h
          · rw [e]; exact hkk'
          · exact st.trans _ _ _ hkk' (hk'lt a h)
        rw [List.filterMap_cons, hnone]
        simp only [Option.map_none]
        apply ih hks' ((k', v) :: xs) hx
        intro a ha
        rcases List.mem_cons.mp (hsub a ha) with e | h
        · -- a = k is impossible: k is smaller than every key of x
          have ha' : a = k' ∨ a ∈ keys xs := by simpa [keys] using ha
          rcases ha' with e' | h'
          · rw [e'] at e; exact absurd e hkk
          · have h1 := hk'lt a h'
            have h2 := st.trans _ _ _ hkk' h1
            rw [e, st.irrefl] at h2
            cases h2
        · exact h

/-! ### `insKey` / `unionKeys` -/

theorem mem_insKey (l : List κ) (k a : κ) : a ∈ insKey lt l k ↔ a = k ∨ a ∈ l := by
  induction l with
  | nil => simp [insKey]
  | cons k' rest ih =>
    simp only [insKey]
    split
    · next h => subst h; simp
    · split
      · simp
      · simp only [List.mem_cons, ih]
        constructor
        · rintro (h | h | h)
          · exact Or.inr (Or.inl h)
          · exact Or.inl h
          · exact Or.inr (Or.inr h)
        · rintro (h | h | h)
          · exact Or.inr (Or.inl h)
          · exact Or.inl h
          · exact Or.inr (Or.inr h)

theorem sorted_insKey (st : StrictTotal lt) (l : List κ) (k : κ) (h : Sorted lt l) : Sorted lt (insKey lt l k) := by
  induction l with
  | nil => simp [insKey, Sorted]
  | cons k' rest ih =>
    have h1 := List.pairwise_cons.mp h
    simp only [insKey]
    split
    · exact h
    · next hne =>
      split
      · next hlt =>
        apply List.pairwise_cons.mpr
        refine ⟨?_, h⟩
        intro a ha
        rcases List.mem_cons.mp ha with e | hr
        · rw [e]; exact hlt
        · exact st.trans _ _ _ hlt (h1.1 a hr)
      · next hnlt =>
        apply List.pairwise_cons.mpr
        refine ⟨?_, ih h1.2⟩
        intro a ha
        rcases (mem_insKey rest k a).mp ha with e | hr
        · rw [e]
          -- ¬ k < k', k ≠ k' so k' < k
          cases hlt' : lt k' k with
          | true => rfl
          | false =>
            have := st.total k k' (by simpa using hnlt) hlt'
            exact absurd this.symm hne
        · exact h1.1 a hr

theorem sorted_foldl_insKey (st : StrictTotal lt) (ks acc : List κ) (h : Sorted lt acc) :
    Sorted lt (ks.foldl (insKey lt) acc) := by
  induction ks generalizing acc with
  | nil => exact h
  | cons k rest ih => exact ih _ (sorted_insKey st acc k h)

theorem mem_foldl_insKey (ks acc : List κ) (a : κ) :
    a ∈ ks.foldl (insKey lt) acc ↔ a ∈ ks ∨ a ∈ acc := by
  induction ks generalizing acc with
  | nil => simp
  | cons k rest ih =>
    simp only [List.foldl_cons, ih, mem_insKey, List.mem_cons]
    constructor
    · rintro (h | h | h)
      · exact Or.inl (Or.inr h)
      · exact Or.inl (Or.inl h)
      · exact Or.inr h
    · rintro ((h | h) | h)
      · exact Or.inr (Or.inl h)
      · exact Or.inl h
      · exact Or.inr (Or.inr h)

theorem sorted_unionKeys (st : StrictTotal lt) (a b : List κ) : Sorted lt (unionKeys lt a b) :=
  sorted_foldl_insKey st b _ (sorted_foldl_insKey st a [] List.Pairwise.nil)

theorem mem_unionKeys (a b : List κ) (k : κ) : k ∈ unionKeys lt a b ↔ k ∈ a ∨ k ∈ b := by
  simp only [unionKeys, mem_foldl_insKey]
  constructor
  · rintro (h | h | h)
    · exact Or.inr h
    · exact Or.inl h
    · cases h
  · rintro (h | h)
    · exact Or.inr (Or.inl h)
    · exact Or.inl h

/-! ### `put` / `del` -/

theorem get_put (m : List (κ × α)) (k a : κ) (v : α) :
    get (put lt m k v) a = if k = a then some v else get m a := by
  induction m with
  | nil => simp [put, get]
  | cons kv rest ih =>
    obtain ⟨k', v'⟩ := kv
    simp only [put]
    split
    · next h => subst h; simp only [get]; split <;> rfl
    · next hne =>
      split
      · simp only [get]
      · simp only [get, ih]
        by_cases h1 : k' = a
        · subst h1
          simp [Ne.symm hne]
        · simp [h1]

theorem keys_put_mem (m : List (κ × α)) (k a : κ) (v : α) : a ∈ keys (put lt m k v) ↔ a = k ∨ a ∈ keys m := by
  induction m with
  | nil => simp [put, keys]
  | cons kv rest ih =>
    obtain ⟨k', v'⟩ := kv
    simp only [put]
    split
    · next h => subst h; simp [keys]
    · split
      · simp [keys]
      · have : a ∈ keys ((k', v') :: put lt rest k v) ↔ a = k' ∨ a ∈ keys (put lt rest k v) := by simp [keys]
        rw [this, ih]
        simp only [keys, List.map_cons, List.mem_cons]
        constructor
        · rintro (h | h | h)
          · exact Or.inr (Or.inl h)
          · exact Or.inl h
          · exact Or.inr (Or.inr h)
        · rintro (h | h | h)
          · exact Or.inr (Or.inl h)
          · exact Or.inl h
          · exact Or.inr (Or.inr h)

theorem sorted_put (st : StrictTotal lt) (m : List (κ × α)) (k : κ) (v : α) (h : Sorted lt (keys m)) :
    Sorted lt (keys (put lt m k v)) := by
  induction m with
  | nil => simp [put, keys, Sorted]
  | cons kv rest ih =>
    obtain ⟨k', v'⟩ := kv
    have h1 := List.pairwise_cons.mp (show List.Pairwise (fun a b => lt a b = true) (k' :: keys rest) from h)
    simp only [put]
    split
    · next he => subst he; simpa [keys] using h
    · next hne =>
      split
      · next hlt =>
        have : keys ((k, v) :: (k', v') :: rest) = k :: k' :: keys rest := by simp [keys]
        rw [this]
        apply List.pairwise_cons.mpr
        refine ⟨?_, (show List.Pairwise (fun a b => lt a b = true) (k' :: keys rest) from h)⟩
        intro a ha
        rcases List.mem_cons.mp ha with e | hr
        · rw [e]; exact hlt
        · exact st.trans _ _ _ hlt (h1.1 a hr)
      · next hnlt =>
        have : keys ((k', v') :: put lt rest k v) = k' :: keys (put lt rest k v) := by simp [keys]
        rw [this]
        apply List.pairwise_cons.mpr
        refine ⟨?_, ih h1.2⟩
        intro a ha
        rcases (keys_put_mem rest k a v).mp ha with e | hr
        · rw [e]
          cases hlt' : lt k' k with
          | true => rfl
          | false =>
            have := st.total k k' (by simpa using hnlt) hlt'
            exact absurd this.symm hne
        · exact h1.1 a hr

theorem get_del (st : StrictTotal lt) (m : List (κ × α)) (k a : κ) (h : Sorted lt (keys m)) :
    get (del m k) a = if k = a then none else get m a := by
  induction m with
  | nil => simp [del, get]
  | cons kv rest ih =>
    obtain ⟨k', v'⟩ := kv
    have h1 := List.pairwise_cons.mp (show List.Pairwise (fun a b => lt a b = true) (k' :: keys rest) from h)
    simp only [del]
    split
    · next he =>
      subst he
      by_cases h2 : k' = a
      · subst h2
        simp only [if_true]
        exact get_none_of_lt st rest k' h1.1
      · simp [get, h2]
    · next hne =>
      simp only [get, ih h1.2]
      by_cases h2 : k' = a
      · subst h2
        simp [Ne.symm hne]
      · simp [h2]

theorem keys_del_sub (m : List (κ × α)) (k a : κ) (h : a ∈ keys (del m k)) : a ∈ keys m := by
  induction m with
  | nil => simpa [del] using h
  | cons kv rest ih =>
    obtain ⟨k', v'⟩ := kv
    simp only [del] at h
    split at h
    · simp only [keys, List.map_cons, List.mem_cons]; right; simpa [keys] using h
    · have : a = k' ∨ a ∈ keys (del rest k) := by simpa [keys] using h
      rcases this with e | hr
      · simp [keys, e]
      · simp only [keys, List.map_cons, List.mem_cons]; right; simpa [keys] using ih hr

theorem sorted_del (m : List (κ × α)) (k : κ) (h : Sorted lt (keys m)) : Sorted lt (keys (del m k)) := by
  induction m with
  | nil => simpa [del] using h
  | cons kv rest ih =>
    obtain ⟨k', v'⟩ := kv
    have h1 := List.pairwise_cons.mp (show List.Pairwise (fun a b => lt a b = true) (k' :: keys rest) from h)
    simp only [del]
    split
    · exact h1.2
    · have : keys ((k', v') :: del rest k) = k' :: keys (del rest k) := by simp [keys]
      rw [this]
      apply List.pairwise_cons.mpr
      exact ⟨fun a ha => h1.1 a (keys_del_sub rest k a ha), ih h1.2⟩

/-! ### extensionality of sorted association lists -/

theorem sorted_ext (st : StrictTotal lt) (x y : List (κ × α)) (hx : Sorted lt (keys x)) (hy : Sorted lt (keys y))
    (h : ∀ k, get x k = get y k) : x = y := by
  have hsub : ∀ k ∈ keys x, k ∈ unionKeys lt (keys x) (keys y) := fun k hk => (mem_unionKeys _ _ k).mpr (Or.inl hk)
  have hsuby : ∀ k ∈ keys y, k ∈ unionKeys lt (keys x) (keys y) := fun k hk => (mem_unionKeys _ _ k).mpr (Or.inr hk)
  have e1 := filterMap_get_eq st _ (sorted_unionKeys st (keys x) (keys y)) x hx hsub
  have e2 := filterMap_get_eq st _ (sorted_unionKeys st (keys x) (keys y)) y hy hsuby
  refine e1.symm.trans (Eq.trans ?_ e2)
  apply filterMap_congr'
  intro a _
  rw [h a]

end DoltVerif.VcsOps
