/-
`newCursorAtOrdinal` / `newCursorPastEnd` and the ordinal they sit on; `IterOrdinalRange`.
-/
import DoltVerif.Lemmas.TreeWF
namespace DoltVerif.Prolly
open DoltVerif.SortedDict

variable {κ ν : Type}

/-- the loop of `newCursorAtOrdinal`: it stops in the child that holds the ordinal -/
theorem ordinalPath_go_spec (n : Nat) : ∀ (items : List (ItemH κ ν (n+1))) (i0 d : Nat),
    d < (items.map (countOf (n+1))).sum →
    ∃ j, j < items.length ∧ (ordinalPath.go n items i0 d).1 = i0 + j ∧
      ((items.take j).map (countOf (n+1))).sum ≤ d ∧
      (ordinalPath.go n items i0 d).2 = d - ((items.take j).map (countOf (n+1))).sum ∧
      ∃ it, items[j]? = some it ∧ (ordinalPath.go n items i0 d).2 < countOf (n+1) it
  | [], _, d, h => by simp at h
  | it :: rest, i0, d, h => by
    unfold ordinalPath.go
    by_cases hd : d < countOf (n+1) it
    · simp only [hd, if_true]
      exact ⟨0, by simp, rfl, by simp, by simp, it, by simp, hd⟩
    · simp only [hd, if_false]
      have hsum : d - countOf (n+1) it < (rest.map (countOf (n+1))).sum := by
        simp only [List.map_cons, List.sum_cons] at h; omega
      obtain ⟨j, hj, h1, h2, h3, it', h4, h5⟩ := ordinalPath_go_spec n rest (i0 + 1) (d - countOf (n+1) it) hsum
      refine ⟨j + 1, by simp; omega, by rw [h1]; omega, ?_, ?_, it', by simpa using h4, h5⟩
      · simp only [List.take_succ_cons, List.map_cons, List.sum_cons]; omega
      · rw [h3]; simp only [List.take_succ_cons, List.map_cons, List.sum_cons]; omega

theorem flatten_take_append [Inhabited κ] (n : Nat) (nd : NodeH κ ν (n+1)) (j : Nat) (it : ItemH κ ν (n+1))
    (hj : nd[j]? = some it) :
    flatten (n+1) nd = flatten (n+1) (nd.take j) ++ flatten n (childOf it) ++ flatten (n+1) (nd.drop (j+1)) := by
  have hsplit : nd = nd.take j ++ it :: nd.drop (j+1) := by
    have hlt : j < nd.length := (List.getElem?_eq_some_iff.mp hj).1
    have hget : nd[j] = it := (List.getElem?_eq_some_iff.mp hj).2
    rw [← hget]
    exact (List.take_append_drop j nd).symm.trans (by rw [List.drop_eq_getElem_cons hlt])
  conv => lhs; rw [hsplit]
  rw [flatten_append, flatten_cons, List.append_assoc]

/-- **`newCursorAtOrdinal(k)` for `k < Count` sits on the `k`-th entry** -/
theorem ordinalPath_spec [Inhabited κ] : ∀ (n : Nat) (nd : NodeH κ ν n) (k : Nat), WFNode n nd →
    k < (flatten n nd).length →
    ∃ p, ordinalPath n nd k = some p ∧ pathOrdinal n nd p = some k ∧ pathItem n nd p = (flatten n nd)[k]?
  | 0, nd, k, _, _ => ⟨[k], rfl, rfl, rfl⟩
  | n+1, nd, k, hwf, hk => by
    have hsum : (nd.map (countOf (n+1))).sum = (flatten (n+1) nd).length := sum_counts_eq_length n nd hwf
    obtain ⟨j, hj, h1, h2, h3, it, h4, h5⟩ := ordinalPath_go_spec n nd 0 k (by rw [hsum]; exact hk)
    have hidx : min (ordinalPath.go n nd 0 k).1 (nd.length - 1) = j := by rw [h1]; omega
    obtain ⟨hch, _, hcnt, hwfc⟩ := hwf it (List.mem_of_getElem? h4)
    have hwft : WFNode (n+1) (nd.take j) := fun x hx => hwf x ((List.take_sublist _ _).subset hx)
    have htake : ((nd.take j).map (countOf (n+1))).sum = (flatten (n+1) (nd.take j)).length :=
      sum_counts_eq_length n _ hwft
    have hk' : (ordinalPath.go n nd 0 k).2 < (flatten n (childOf it)).length := by
      rw [← treeCount_eq_length n _ hwfc, ← hcnt]; exact h5
    obtain ⟨p', hp1, hp2, hp3⟩ := ordinalPath_spec n (childOf it) _ hwfc hk'
    refine ⟨j :: p', ?_, ?_, ?_⟩
    · simp only [ordinalPath, hidx, h4, hp1, Option.map_some]
    · simp only [pathOrdinal]
      have : min j (nd.length - 1) = j := by omega
      rw [this, h4]
      simp only [hp2, Option.map_some, Option.some.injEq]
      rw [h3]; omega
    · simp only [pathItem, h4, hp3]
      rw [flatten_take_append n nd j it h4, List.append_assoc,
        List.getElem?_append_right (by rw [← htake]; exact h2)]
      rw [List.getElem?_append_left (by rw [← htake, ← h3]; exact hk')]
      rw [h3, htake]

/-- **`newCursorPastEnd` sits at ordinal `Count`** -/
theorem pastEndPath_ordinal [Inhabited κ] : ∀ (n : Nat) (nd : NodeH κ ν n), WFNode n nd → (n = 0 ∨ nd ≠ []) →
    pathOrdinal n nd (pastEndPath n nd) = some (flatten n nd).length
  | 0, nd, _, _ => rfl
  | n+1, nd, hwf, hne => by
    have hne : nd ≠ [] := by rcases hne with h | h; exact absurd h (by simp); exact h
    have hc1 : nd = nd.dropLast ++ [nd.getLast hne] := (List.dropLast_concat_getLast hne).symm
    have hlast : nd.getLast? = some (nd.getLast hne) := List.getLast?_eq_some_getLast hne
    have hmem : nd.getLast hne ∈ nd := List.getLast_mem hne
    obtain ⟨hch, _, _, hwfc⟩ := hwf _ hmem
    have ih := pastEndPath_ordinal n (childOf (nd.getLast hne)) hwfc (Or.inr hch)
    have hidx : min nd.length (nd.length - 1) = nd.dropLast.length := by rw [List.length_dropLast]; omega
    have hget : nd[nd.dropLast.length]? = some (nd.getLast hne) := by
      conv => lhs; rw [hc1]
      simp
    have htake : nd.take nd.dropLast.length = nd.dropLast := by
      conv => lhs; rw [hc1]
      simp
    have hwfd : WFNode (n+1) nd.dropLast := fun x hx => hwf x ((List.dropLast_sublist nd).subset hx)
    simp only [pastEndPath, hlast, pathOrdinal, hidx, hget, ih, Option.map_some, htake,
      sum_counts_eq_length n _ hwfd, Option.some.injEq]
    conv => rhs; rw [hc1, flatten_append]
    have : flatten (n+1) [nd.getLast hne] = flatten n (childOf (nd.getLast hne)) := by simp [flatten]
    rw [List.length_append, this]; omega

end DoltVerif.Prolly
