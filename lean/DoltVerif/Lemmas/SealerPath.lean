import DoltVerif.Model.PathClean
/-!
Lemmas about the transliterated `filepath.Clean` (C39): the shape of its result.

For a relative path the loop keeps the invariant
  `out = joinSlash (replicate k ".." ++ comps)`, `dotdot = |joinSlash (replicate k "..")|`,
with every `c ∈ comps` a *normal* component (non-empty, no '/', neither "." nor "..");
for a rooted path `out = '/' :: joinSlash comps`, `dotdot = 1`.
-/
namespace DoltVerif.PathClean

def NoSlash (c : Bytes) : Prop := ∀ b ∈ c, b ≠ slash

/-- a path component that is a real name -/
def Normal (c : Bytes) : Prop := c ≠ [] ∧ NoSlash c ∧ c ≠ [dot] ∧ c ≠ dotdot

theorem slash_ne_dot : slash ≠ dot := by decide

theorem noSlash_dotdot : NoSlash dotdot := by
  intro b hb; simp [dotdot] at hb; subst hb; decide

-- ------------------------------------------------------------------ joinSlash

theorem joinSlash_cons_cons (a b : Bytes) (l : List Bytes) :
    joinSlash (a :: b :: l) = a ++ slash :: joinSlash (b :: l) := rfl

theorem joinSlash_append_singleton (l : List Bytes) (e : Bytes) :
    joinSlash (l ++ [e]) = if l = [] then e else joinSlash l ++ slash :: e := by
  induction l with
  | nil => simp [joinSlash]
  | cons a t ih =>
    cases t with
    | nil => simp [joinSlash]
    | cons b t' =>
      simp only [List.cons_append, joinSlash_cons_cons] at ih ⊢
      simp only [reduceCtorEq, if_false] at ih ⊢
      rw [ih]; simp

theorem joinSlash_length_append (a b : List Bytes) :
    (joinSlash (a ++ b)).length =
      (joinSlash a).length + (if a ≠ [] ∧ b ≠ [] then 1 else 0) + (joinSlash b).length := by
  induction a with
  | nil => simp [joinSlash]
  | cons x t ih =>
    cases t with
    | nil =>
      cases b with
      | nil => simp [joinSlash]
      | cons y b' => simp [joinSlash_cons_cons, joinSlash]; omega
    | cons y t' =>
      simp only [List.cons_append, joinSlash_cons_cons, List.length_append, List.length_cons] at ih ⊢
      by_cases hb : b = []
      · subst hb; simp [joinSlash] at ih ⊢
      · simp [hb] at ih ⊢; omega

theorem joinSlash_pos {l : List Bytes} (hne : l ≠ []) (h : ∀ c ∈ l, c ≠ []) :
    0 < (joinSlash l).length := by
  cases l with
  | nil => exact absurd rfl hne
  | cons a t =>
    have ha : a ≠ [] := h a (by simp)
    have : 0 < a.length := List.length_pos_iff.mpr ha
    cases t with
    | nil => simpa [joinSlash]
    | cons b t' => simp [joinSlash_cons_cons]; omega

-- ------------------------------------------------------------------ backW

theorem backW_after_slash (pre e : Bytes) (dd : Nat) (he : NoSlash e) (hdd : dd ≤ pre.length) :
    ∀ j, j ≤ e.length → backW (pre ++ slash :: e) dd (pre.length + 1 + j) = pre.length := by
  intro j
  induction j with
  | zero =>
    intro _
    show backW _ _ (pre.length + 1) = _
    simp [backW, List.getD]
  | succ j ih =>
    intro hj
    have hj' : j < e.length := by omega
    show backW _ _ ((pre.length + 1 + j) + 1) = _
    unfold backW
    have hget : (pre ++ slash :: e).getD (pre.length + 1 + j) 0 = e[j] := by
      have h1 : pre.length ≤ pre.length + 1 + j := by omega
      rw [List.getD_eq_getElem?_getD, List.getElem?_append_right h1]
      have h2 : pre.length + 1 + j - pre.length = j + 1 := by omega
      rw [h2]; simp [hj']
    have hne : e[j] ≠ slash := he _ (List.getElem_mem hj')
    have hgt : pre.length + 1 + j > dd := by omega
    simp only [hget, hgt, decide_true, Bool.true_and, bne_iff_ne, ne_eq, hne, not_false_eq_true, if_true]
    exact ih (by omega)

theorem backW_no_slash (e : Bytes) (he : NoSlash e) : ∀ j, j ≤ e.length → backW e 0 j = 0 := by
  intro j
  induction j with
  | zero => intro _; rfl
  | succ j ih =>
    intro hj
    unfold backW
    by_cases h0 : j = 0
    · subst h0; simp
    · have hj' : j < e.length := by omega
      have hget : e.getD j 0 = e[j] := by simp [List.getD, hj']
      have hne : e[j] ≠ slash := he _ (List.getElem_mem hj')
      have : j > 0 := by omega
      simp only [hget, this, decide_true, Bool.true_and, bne_iff_ne, ne_eq, hne, not_false_eq_true, if_true]
      exact ih (by omega)

theorem back_after_slash (pre e : Bytes) (dd : Nat) (he : NoSlash e) (hdd : dd ≤ pre.length) :
    back (pre ++ slash :: e) dd = pre := by
  unfold back
  have := backW_after_slash pre e dd he hdd e.length (Nat.le_refl _)
  have hl : (pre ++ slash :: e).length = pre.length + 1 + e.length := by simp; omega
  rw [hl, this]; simp

theorem back_no_slash (e : Bytes) (he : NoSlash e) : back e 0 = [] := by
  unfold back
  rw [backW_no_slash e he e.length (Nat.le_refl _)]; simp

-- ------------------------------------------------------------------ copyElem

theorem copyElem_noSlash (t : Bytes) : NoSlash (copyElem t).1 := by
  induction t with
  | nil => intro b hb; simp [copyElem] at hb
  | cons c r ih =>
    unfold copyElem
    split
    · intro b hb; simp at hb
    · rename_i hc
      intro b hb
      simp only [List.mem_cons] at hb
      rcases hb with rfl | hb
      · intro h; exact hc (by simp [h])
      · exact ih b hb

theorem copyElem_fst_nil_iff (t : Bytes) :
    (copyElem t).1 = [] ↔ (t.isEmpty || t.head? == some slash) = true := by
  cases t with
  | nil => simp [copyElem]
  | cons c r =>
    unfold copyElem
    by_cases hc : (c == slash) = true
    · simp [hc]
    · simp [hc]

-- ------------------------------------------------------------------ splitSlash

theorem splitSlash_noSlash (c : Bytes) (hc : NoSlash c) : splitSlash c = [c] := by
  induction c with
  | nil => rfl
  | cons b r ih =>
    have hb : (b == slash) = false := by
      have := hc b (by simp); simpa using this
    have hr : NoSlash r := fun x hx => hc x (by simp [hx])
    simp [splitSlash, hb, ih hr]

theorem splitSlash_append_slash (c rest : Bytes) (hc : NoSlash c) :
    splitSlash (c ++ slash :: rest) = c :: splitSlash rest := by
  induction c with
  | nil => simp [splitSlash]
  | cons b r ih =>
    have hb : (b == slash) = false := by
      have := hc b (by simp); simpa using this
    have hr : NoSlash r := fun x hx => hc x (by simp [hx])
    simp [splitSlash, hb, ih hr]

theorem splitSlash_joinSlash (l : List Bytes) (hne : l ≠ []) (h : ∀ c ∈ l, NoSlash c) :
    splitSlash (joinSlash l) = l := by
  induction l with
  | nil => exact absurd rfl hne
  | cons a t ih =>
    cases t with
    | nil => simpa [joinSlash] using splitSlash_noSlash a (h a (by simp))
    | cons b t' =>
      rw [joinSlash_cons_cons, splitSlash_append_slash _ _ (h a (by simp))]
      rw [ih (by simp) (fun c hc => h c (by simp [hc]))]

end DoltVerif.PathClean

namespace DoltVerif.PathClean

-- ------------------------------------------------------------------ the loop invariant (relative paths)

/-- shape of the write buffer while cleaning a relative path -/
def RelShape (out : Bytes) (dd : Nat) : Prop :=
  ∃ (k : Nat) (comps : List Bytes), (∀ c ∈ comps, Normal c) ∧
    out = joinSlash (List.replicate k dotdot ++ comps) ∧
    dd = (joinSlash (List.replicate k dotdot)).length

theorem dotdot_ne_nil : dotdot ≠ [] := by simp [dotdot]

theorem parts_ne_nil {k : Nat} {comps : List Bytes} (h : ∀ c ∈ comps, Normal c) :
    ∀ x ∈ List.replicate k dotdot ++ comps, x ≠ [] := by
  intro x hx
  rcases List.mem_append.mp hx with hx | hx
  · rw [(List.mem_replicate.mp hx).2]; exact dotdot_ne_nil
  · exact (h x hx).1

theorem relShape_len {k : Nat} {comps : List Bytes} (h : ∀ c ∈ comps, Normal c) (hne : comps ≠ []) :
    (joinSlash (List.replicate k dotdot ++ comps)).length > (joinSlash (List.replicate k dotdot)).length := by
  rw [joinSlash_length_append]
  have := joinSlash_pos hne (fun c hc => (h c hc).1)
  omega

theorem relShape_back {out : Bytes} {dd : Nat} (h : RelShape out dd) (hlen : out.length > dd) :
    RelShape (back out dd) dd := by
  obtain ⟨k, comps, hn, hout, hdd⟩ := h
  have hne : comps ≠ [] := by
    intro h0; subst h0; simp at hout; subst hout; omega
  obtain ⟨comps', e, hce⟩ := List.eq_nil_or_concat comps |>.resolve_left hne
  rw [List.concat_eq_append] at hce; subst hce
  have he : Normal e := hn e (by simp)
  have hn' : ∀ c ∈ comps', Normal c := fun c hc => hn c (by simp [hc])
  refine ⟨k, comps', hn', ?_, hdd⟩
  have hassoc : List.replicate k dotdot ++ (comps' ++ [e]) = (List.replicate k dotdot ++ comps') ++ [e] := by simp
  rw [hassoc, joinSlash_append_singleton] at hout
  by_cases hA : List.replicate k dotdot ++ comps' = []
  · rw [if_pos hA] at hout
    have hk : k = 0 := by
      cases k with
      | zero => rfl
      | succ k => simp [List.replicate_succ] at hA
    subst hk
    simp at hA; subst hA
    simp [joinSlash] at hdd; subst hdd; subst hout
    simpa [joinSlash] using back_no_slash _ he.2.1
  · rw [if_neg hA] at hout
    subst hout
    rw [back_after_slash _ _ _ he.2.1]
    rw [hdd, joinSlash_length_append]; omega

theorem relShape_pushDotDot {out : Bytes} {dd : Nat} (h : RelShape out dd) (hlen : ¬ out.length > dd) :
    RelShape ((if out.length > 0 then out ++ [slash] else out) ++ [dot, dot])
      ((if out.length > 0 then out ++ [slash] else out) ++ [dot, dot]).length := by
  obtain ⟨k, comps, hn, hout, hdd⟩ := h
  have hnil : comps = [] := by
    by_cases hne : comps = []
    · exact hne
    · exfalso
      have := relShape_len (k := k) hn hne
      rw [← hout, ← hdd] at this; omega
  subst hnil
  simp only [List.append_nil] at hout
  have hshape : (if out.length > 0 then out ++ [slash] else out) ++ [dot, dot]
      = joinSlash (List.replicate (k+1) dotdot) := by
    rw [List.replicate_succ', joinSlash_append_singleton]
    cases k with
    | zero => simp [joinSlash] at hout; subst hout; simp [dotdot]
    | succ k =>
      have hpos : 0 < out.length := by
        rw [hout]; exact joinSlash_pos (by simp [List.replicate_succ]) (fun c hc => by
          rw [(List.mem_replicate.mp hc).2]; exact dotdot_ne_nil)
      have hne : List.replicate (k+1) dotdot ≠ [] := by simp [List.replicate_succ]
      rw [if_pos hpos, if_neg hne, ← hout]; simp [dotdot]
  refine ⟨k+1, [], by simp, ?_, ?_⟩
  · simpa using hshape
  · rw [hshape]

theorem normal_elem {c : UInt8} {t : Bytes}
    (h1 : ¬(c == slash) = true)
    (h2 : ¬(c == dot && (t.isEmpty || t.head? == some slash)) = true)
    (h3 : ¬(c == dot && t.head? == some dot && (t.tail.isEmpty || t.tail.head? == some slash)) = true) :
    Normal (c :: (copyElem t).1) := by
  refine ⟨by simp, ?_, ?_, ?_⟩
  · intro b hb
    simp only [List.mem_cons] at hb
    rcases hb with rfl | hb
    · intro h; exact h1 (by simp [h])
    · exact copyElem_noSlash t b hb
  · intro heq
    simp only [List.cons.injEq] at heq
    obtain ⟨hc, he⟩ := heq
    have := (copyElem_fst_nil_iff t).mp he
    exact h2 (by simp [hc, this])
  · intro heq
    simp only [dotdot, List.cons.injEq] at heq
    obtain ⟨hc, he⟩ := heq
    cases t with
    | nil => simp [copyElem] at he
    | cons d t' =>
      unfold copyElem at he
      by_cases hd : (d == slash) = true
      · simp [hd] at he
      · simp only [hd] at he
        simp at he
        obtain ⟨hd', he'⟩ := he
        have := (copyElem_fst_nil_iff t').mp he'
        exact h3 (by simp [hc, hd', this])

theorem relShape_pushElem {out : Bytes} {dd : Nat} (h : RelShape out dd) {e : Bytes} (he : Normal e) :
    RelShape ((if (false && out.length != 1 || !false && out.length != 0) = true then out ++ [slash] else out) ++ e) dd := by
  obtain ⟨k, comps, hn, hout, hdd⟩ := h
  refine ⟨k, comps ++ [e], ?_, ?_, hdd⟩
  · intro c hc
    rcases List.mem_append.mp hc with hc | hc
    · exact hn c hc
    · simp at hc; subst hc; exact he
  · have hassoc : List.replicate k dotdot ++ (comps ++ [e]) = (List.replicate k dotdot ++ comps) ++ [e] := by simp
    rw [hassoc, joinSlash_append_singleton]
    by_cases hA : List.replicate k dotdot ++ comps = []
    · rw [if_pos hA]
      rw [hA] at hout; simp [joinSlash] at hout; subst hout; simp
    · rw [if_neg hA]
      have hpos : 0 < out.length := by rw [hout]; exact joinSlash_pos hA (parts_ne_nil hn)
      have hne0 : out.length ≠ 0 := by omega
      have : (false && out.length != 1 || !false && out.length != 0) = true := by
        simp [hne0]
      rw [if_pos this, hout]; simp

theorem loop_rel (rest out : Bytes) (dd : Nat) (h : RelShape out dd) :
    ∃ dd', RelShape (loop false rest out dd) dd' := by
  fun_induction loop false rest out dd
  case case1 => exact ⟨_, h⟩
  case case2 ih => exact ih h
  case case3 ih => exact ih h
  case case4 hlen ih => exact ih (relShape_back h hlen)
  case case5 hlen _ out' ih => exact ih (relShape_pushDotDot h hlen)
  case case6 hf _ => simp at hf
  case case7 h1 h2 h3 out1 er ih =>
    apply ih
    have := relShape_pushElem h (normal_elem h1 h2 h3)
    exact this

end DoltVerif.PathClean
