/-
The leaf level of `ApplyMutations`: handing each leaf the edits up to its last key and applying
them leaf by leaf is applying the whole batch to the whole dictionary.
-/
import DoltVerif.Lemmas.Mutate
import DoltVerif.Lemmas.SortedDict
namespace DoltVerif.Prolly
open DoltVerif.SortedDict

variable {κ ν : Type}

theorem leafRegions_ne_nil [BEq κ] [BEq ν] [Inhabited κ] (cmp : κ → κ → Ordering) :
    ∀ (leaves : List (NodeH κ ν 0)) (es : Edits κ ν) (seen pk : Bool), leaves ≠ [] →
      leafRegions cmp leaves es seen pk ≠ []
  | [], _, _, _, h => absurd rfl h
  | [_], _, _, _, _ => by simp [leafRegions]
  | _ :: _ :: _, _, _, _, _ => by simp [leafRegions]

/-- **The leaf regions of `ApplyMutations` hold exactly the edited dictionary**: for a total-preorder
comparator, non-empty leaves whose concatenation is strictly sorted, and any edit batch. -/
theorem leafRegions_content [BEq κ] [BEq ν] [Inhabited κ] {cmp : κ → κ → Ordering} (hc : TotalPreorder cmp) :
    ∀ (leaves : List (NodeH κ ν 0)) (es : Edits κ ν) (seen pk : Bool), leaves ≠ [] →
      (∀ l ∈ leaves, l ≠ []) → Sorted cmp (leaves.flatten : List (κ × ν)) →
      ((leafRegions cmp leaves es seen pk).flatMap (·.new) : List (κ × ν)) = applyEdits cmp leaves.flatten es
  | [], _, _, _, h, _, _ => absurd rfl h
  | [l], es, seen, pk, _, _, _ => by
    simp [leafRegions]
  | l :: l' :: ls, es, seen, pk, _, hne, hs => by
    have hl : l ≠ [] := hne l (by simp)
    have hs' : List.Pairwise (fun a b : κ × ν => cmp a.1 b.1 = .lt) (l ++ (l' :: ls).flatten) := hs
    obtain ⟨hsl, hsr, hcross⟩ := List.pairwise_append.mp hs'
    have hrefl : ∀ a : κ, cmp a a = .eq := by
      intro a
      cases hca : cmp a a with
      | eq => rfl
      | lt => have := (hc.swap_lt a a).mp hca; rw [hca] at this; cases this
      | gt => have := (hc.swap_lt a a).mpr hca; rw [hca] at this; cases this
    -- facts about the last pair of `l`, on plain pairs
    have hlk : lastKey 0 l = ((l : List (κ × ν)).getLast hl).1 := lastKey_leaf l hl
    have hlast : (l : List (κ × ν)).getLast hl ∈ (l : List (κ × ν)) := List.getLast_mem hl
    have hrest : ∀ x ∈ ((l' :: ls).flatten : List (κ × ν)), cmp (lastKey 0 l) x.1 = .lt := by
      intro x hx; rw [hlk]; exact hcross _ hlast x hx
    have hle : ∀ x ∈ (l : List (κ × ν)), cmp x.1 (lastKey 0 l) ≠ .gt := by
      intro x hx
      rw [hlk]
      have hdl : (l : List (κ × ν)) = (l : List (κ × ν)).dropLast ++ [(l : List (κ × ν)).getLast hl] :=
        (List.dropLast_concat_getLast hl).symm
      have hsl' := hsl
      rw [hdl] at hsl' hx
      obtain ⟨_, _, hc2⟩ := List.pairwise_append.mp hsl'
      rcases List.mem_append.mp hx with hx | hx
      · have h1 := hc2 x hx _ (List.mem_singleton.mpr rfl)
        exact fun h => Ordering.noConfusion (h1.symm.trans h)
      · have hx' := List.mem_singleton.mp hx
        subst hx'
        exact fun h => Ordering.noConfusion ((hrefl _).symm.trans h)
    have key := applyEdits_append hc (lastKey 0 l) ((l' :: ls).flatten : List (κ × ν)) hrest es l hle
    have ih := leafRegions_content hc (l' :: ls) (es.dropWhile (fun e => cmp e.1 (lastKey 0 l) != .gt))
      (seen || !(es.takeWhile (fun e => cmp e.1 (lastKey 0 l) != .gt)).isEmpty)
      (lastKeptLeaf l (applyEdits cmp l (es.takeWhile (fun e => cmp e.1 (lastKey 0 l) != .gt)))) (by simp)
      (fun x hx => hne x (by simp [hx])) hsr
    rw [leafRegions, List.flatMap_cons]
    simp only
    rw [ih]
    exact key.symm

end DoltVerif.Prolly

namespace DoltVerif.Prolly
open DoltVerif.SortedDict
variable {κ ν : Type}

theorem leafRegions_old [BEq κ] [BEq ν] [Inhabited κ] (cmp : κ → κ → Ordering) :
    ∀ (leaves : List (NodeH κ ν 0)) (es : Edits κ ν) (seen pk : Bool),
      (leafRegions cmp leaves es seen pk).map (·.old) = leaves
  | [], _, _, _ => rfl
  | [_], _, _, _ => rfl
  | l :: l' :: ls, es, seen, pk => by
    rw [leafRegions]
    simp only [List.map_cons]
    rw [leafRegions_old cmp (l' :: ls)]
    try rfl

theorem noopOn_of_isNoop [BEq κ] [BEq ν] (cmp : κ → κ → Ordering) (l : List (κ × ν)) (e : κ × Option ν)
    (h : isNoop cmp l e = true) : NoopOn cmp l e := by
  unfold isNoop at h
  unfold NoopOn
  split <;> simp_all

/-- a leaf marked clean is unchanged: its edits are all no-ops -/
theorem leafRegions_clean [BEq κ] [BEq ν] [LawfulBEq κ] [LawfulBEq ν] [Inhabited κ] {cmp : κ → κ → Ordering}
    (hc : TotalPreorder cmp) :
    ∀ (leaves : List (NodeH κ ν 0)) (es : Edits κ ν) (seen pk : Bool),
      (∀ l ∈ leaves, Sorted cmp (l : List (κ × ν))) → es.Pairwise (fun a b => cmp a.1 b.1 = .lt) →
      CleanUnchanged (leafRegions cmp leaves es seen pk)
  | [], _, _, _, _, _ => by intro r hr; simp [leafRegions] at hr
  | [l], es, seen, pk, hs, hes => by
    intro r hr hd
    simp only [leafRegions, List.mem_singleton] at hr
    subst hr
    simp only [Bool.or_eq_false_iff, List.any_eq_false, Bool.not_eq_true', Bool.not_eq_false'] at hd
    exact noop_all hc es l (hs l (by simp)) hes (fun e he => noopOn_of_isNoop cmp l e (by simpa using hd.1.2 e he))
  | l :: l' :: ls, es, seen, pk, hs, hes => by
    intro r hr hd
    rw [leafRegions] at hr
    simp only [List.mem_cons] at hr
    rcases hr with rfl | hr
    · simp only [Bool.or_eq_false_iff, List.any_eq_false, Bool.not_eq_true', Bool.not_eq_false'] at hd
      have hsub : (es.takeWhile (fun e => cmp e.1 (lastKey 0 l) != .gt)).Sublist es := List.takeWhile_sublist _
      exact noop_all hc _ l (hs l (by simp)) (List.Pairwise.sublist hsub hes)
        (fun e he => noopOn_of_isNoop cmp l e (by simpa using hd.1.2 e he))
    · have hsub : (es.dropWhile (fun e => cmp e.1 (lastKey 0 l) != .gt)).Sublist es := List.dropWhile_sublist _
      exact leafRegions_clean hc (l' :: ls) _ _ _ (fun x hx => hs x (by simp [hx]))
        (List.Pairwise.sublist hsub hes) r hr hd

end DoltVerif.Prolly
