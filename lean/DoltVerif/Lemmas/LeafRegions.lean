/-
The leaf level of `ApplyMutations`: handing each leaf the edits up to its last key and applying
them leaf by leaf is applying the whole batch to the whole dictionary.
-/
import DoltVerif.Lemmas.Mutate
import DoltVerif.Lemmas.SortedDict
namespace DoltVerif.Prolly
open DoltVerif.SortedDict

variable {κ ν : Type}

theorem leafRegions_ne_nil [BEq κ] [BEq ν] [Inhabited κ] (cmp : κ → κ → Ordering) :
    ∀ (leaves : List (NodeH κ ν 0)) (es : Edits κ ν) (seen : Bool), leaves ≠ [] →
      leafRegions cmp leaves es seen ≠ []
  | [], _, _, h => absurd rfl h
  | [_], _, _, _ => by simp [leafRegions]
  | _ :: _ :: _, _, _, _ => by simp [leafRegions]

/-- **The leaf regions of `ApplyMutations` hold exactly the edited dictionary**: for a total-preorder
comparator, non-empty leaves whose concatenation is strictly sorted, and any edit batch. -/
theorem leafRegions_content [BEq κ] [BEq ν] [Inhabited κ] {cmp : κ → κ → Ordering} (hc : TotalPreorder cmp) :
    ∀ (leaves : List (NodeH κ ν 0)) (es : Edits κ ν) (seen : Bool), leaves ≠ [] →
      (∀ l ∈ leaves, l ≠ []) → Sorted cmp (leaves.flatten : List (κ × ν)) →
      ((leafRegions cmp leaves es seen).flatMap (·.new) : List (κ × ν)) = applyEdits cmp leaves.flatten es
  | [], _, _, h, _, _ => absurd rfl h
  | [l], es, seen, _, _, _ => by
    simp [leafRegions]
  | l :: l' :: ls, es, seen, _, hne, hs => by
    have hl : l ≠ [] := hne l (by simp)
    have hs' : List.Pairwise (fun a b : κ × ν => cmp a.1 b.1 = .lt) (l ++ (l' :: ls).flatten) := hs
    obtain ⟨hsl, hsr, hcross⟩ := List.pairwise_append.mp hs'
    have hrefl : ∀ a : κ, cmp a a = .eq := by
      intro a
      cases hca : cmp a a with
      | eq => rfl
      | lt => have := (hc.swap_lt a a).mp hca; rw [hca] at this; cases this
      | gt => have := (hc.swap_lt a a).mpr hca; rw [hca] at this; cases this
    -- facts about the last pair of `l`, on plain pairs
    have hlk : lastKey 0 l = ((l : List (κ × ν)).getLast hl).1 := lastKey_leaf l hl
    have hlast : (l : List (κ × ν)).getLast hl ∈ (l : List (κ × ν)) := List.getLast_mem hl
    have hrest : ∀ x ∈ ((l' :: ls).flatten : List (κ × ν)), cmp (lastKey 0 l) x.1 = .lt := by
      intro x hx; rw [hlk]; exact hcross _ hlast x hx
    have hle : ∀ x ∈ (l : List (κ × ν)), cmp x.1 (lastKey 0 l) ≠ .gt := by
      intro x hx
      rw [hlk]
      have hdl : (l : List (κ × ν)) = (l : List (κ × ν)).dropLast ++ [(l : List (κ × ν)).getLast hl] :=
        (List.dropLast_concat_getLast hl).symm
      have hsl' := hsl
      rw [hdl] at hsl' hx
      obtain ⟨_, _, hc2⟩ := List.pairwise_append.mp hsl'
      rcases List.mem_append.mp hx with hx | hx
      · have h1 := hc2 x hx _ (List.mem_singleton.mpr rfl)
        exact fun h => Ordering.noConfusion (h1.symm.trans h)
      · have hx' := List.mem_singleton.mp hx
        subst hx'
        exact fun h => Ordering.noConfusion ((hrefl _).symm.trans h)
    have key := applyEdits_append hc (lastKey 0 l) ((l' :: ls).flatten : List (κ × ν)) hrest es l hle
    have ih := leafRegions_content hc (l' :: ls) (es.dropWhile (fun e => cmp e.1 (lastKey 0 l) != .gt))
      (seen || !(es.takeWhile (fun e => cmp e.1 (lastKey 0 l) != .gt)).isEmpty) (by simp)
      (fun x hx => hne x (by simp [hx])) hsr
    rw [leafRegions, List.flatMap_cons]
    simp only
    rw [ih]
    exact key.symm

end DoltVerif.Prolly
