import DoltVerif.Lemmas.VcsOpsDb
/-!
Lemmas for C32: the diff of two row maps lists exactly the differing keys; Boolean well-formedness
checkers (so that concrete witnesses can be discharged by `decide`).
-/
namespace DoltVerif.VcsOps

/-- the change type a key must be reported with -/
def expectedType (f t : Option Row) : DiffType :=
  match f, t with
  | none, _ => .added
  | _, none => .removed
  | _, _ => .modified

/-! ### one key -/

theorem diffKey_some (k : Int) (f t : Option Row) (d : DiffRow) (h : diffKey k f t = some d) :
    d.pk = k ∧ d.from = f ∧ d.to = t ∧ f ≠ t ∧ d.ty = expectedType f t := by
  unfold diffKey at h
  split at h
  · cases h
  · cases h; simp [expectedType]
  · cases h; simp [expectedType]
  · split at h
    · cases h
    · next hne => cases h; simp [expectedType, hne]

theorem diffKey_of_ne (k : Int) (f t : Option Row) (h : f ≠ t) : ∃ d, diffKey k f t = some d := by
  unfold diffKey
  cases f with
  | none =>
    cases t with
    | none => exact absurd rfl h
    | some tr => exact ⟨_, rfl⟩
  | some fr =>
    cases t with
    | none => exact ⟨_, rfl⟩
    | some tr =>
      have : ¬ fr = tr := fun e => h (by rw [e])
      simp [this]

/-! ### generic: a key-indexed filterMap whose results carry their key -/

theorem pk_filterMap_sublist (ks : List Int) (g : Int → Option DiffRow)
    (hg : ∀ k d, g k = some d → d.pk = k) : ((ks.filterMap g).map (·.pk)).Sublist ks := by
  induction ks with
  | nil => exact List.Sublist.slnil
  | cons k rest ih =>
    rw [List.filterMap_cons]
    cases h : g k with
    | none => exact ih.cons k
    | some d =>
      simp only [List.map_cons]
      rw [hg k d h]
      exact ih.cons₂ k

theorem mem_filterMap_pk (ks : List Int) (g : Int → Option DiffRow)
    (hg : ∀ k d, g k = some d → d.pk = k) (k : Int) :
    (∃ d ∈ ks.filterMap g, d.pk = k) ↔ (k ∈ ks ∧ (g k).isSome) := by
  constructor
  · rintro ⟨d, hd, hk⟩
    obtain ⟨k', hk', hgk'⟩ := List.mem_filterMap.mp hd
    have := hg k' d hgk'
    rw [hk] at this
    subst this
    exact ⟨hk', by simp [hgk']⟩
  · rintro ⟨hk, hs⟩
    obtain ⟨d, hd⟩ := Option.isSome_iff_exists.mp hs
    exact ⟨d, List.mem_filterMap.mpr ⟨k, hk, hd⟩, hg k d hd⟩

/-! ### same column list -/

theorem diffRows_sorted (f t : List (Int × Row)) : Sorted ltInt ((diffRows f t).map (·.pk)) := by
  unfold diffRows
  exact List.Pairwise.sublist
    (pk_filterMap_sublist _ _ (fun k d h => (diffKey_some k _ _ d h).1))
    (sorted_unionKeys strictTotal_ltInt _ _)

theorem diffRows_mem (f t : List (Int × Row)) (k : Int) :
    (∃ d ∈ diffRows f t, d.pk = k) ↔ get f k ≠ get t k := by
  unfold diffRows
  rw [mem_filterMap_pk _ _ (fun k d h => (diffKey_some k _ _ d h).1)]
  constructor
  · rintro ⟨_, hs⟩
    obtain ⟨d, hd⟩ := Option.isSome_iff_exists.mp hs
    exact (diffKey_some k _ _ d hd).2.2.2.1
  · intro hne
    constructor
    · rw [mem_unionKeys]
      apply Classical.byContradiction
      intro hn
      have h1 : k ∉ keys f := fun h => hn (Or.inl h)
      have h2 : k ∉ keys t := fun h => hn (Or.inr h)
      exact hne (by rw [get_none_of_not_mem f k h1, get_none_of_not_mem t k h2])
    · obtain ⟨d, hd⟩ := diffKey_of_ne k _ _ hne
      simp [hd]

theorem diffRows_values (f t : List (Int × Row)) :
    ∀ d ∈ diffRows f t, d.from = get f d.pk ∧ d.to = get t d.pk ∧ d.ty = expectedType (get f d.pk) (get t d.pk) := by
  intro d hd
  unfold diffRows at hd
  obtain ⟨k, _, hk⟩ := List.mem_filterMap.mp hd
  obtain ⟨h1, h2, h3, _, h5⟩ := diffKey_some k _ _ d hk
  rw [h1]
  exact ⟨h2, h3, h5⟩

/-! ### changed column list -/

theorem diffKeyU_some (k : Int) (f t : Option Row) (d : DiffRow)
    (h : diffKeyU k f t = some d) :
    d.pk = k ∧ d.from = f ∧ d.to = t ∧ f.map trimNulls ≠ t.map trimNulls := by
  unfold diffKeyU at h
  split at h
  · cases h
  · cases h; simp
  · cases h; simp
  · split at h
    · cases h
    · next hne => cases h; simp [hne]

theorem diffKeyU_of_ne (k : Int) (f t : Option Row)
    (h : f.map trimNulls ≠ t.map trimNulls) : ∃ d, diffKeyU k f t = some d := by
  unfold diffKeyU
  cases f with
  | none =>
    cases t with
    | none => exact absurd rfl h
    | some tr => exact ⟨_, rfl⟩
  | some fr =>
    cases t with
    | none => exact ⟨_, rfl⟩
    | some tr =>
      have : ¬ trimNulls fr = trimNulls tr := fun e => h (by simp [e])
      simp [this]

theorem diffTables_eq (ft tt : Table) (hne : ft.cols ≠ tt.cols) :
    diffTables (some ft) (some tt) =
      (unionKeys ltInt (keys ft.rows) (keys tt.rows)).filterMap (fun k =>
        diffKeyU k (get ft.rows k) (get tt.rows k)) := by
  simp [diffTables, hne]

theorem diffTables_sorted (ft tt : Table) (hne : ft.cols ≠ tt.cols) :
    Sorted ltInt ((diffTables (some ft) (some tt)).map (·.pk)) := by
  rw [diffTables_eq ft tt hne]
  exact List.Pairwise.sublist
    (pk_filterMap_sublist _ _ (fun k d h => (diffKeyU_some k _ _ d h).1))
    (sorted_unionKeys strictTotal_ltInt _ _)

theorem diffTables_mem (ft tt : Table) (hne : ft.cols ≠ tt.cols) (k : Int) :
    (∃ d ∈ diffTables (some ft) (some tt), d.pk = k) ↔
      ((get ft.rows k).map trimNulls ≠ (get tt.rows k).map trimNulls) := by
  rw [diffTables_eq ft tt hne]
  rw [mem_filterMap_pk _ _ (fun k d h => (diffKeyU_some k _ _ d h).1)]
  constructor
  · rintro ⟨_, hs⟩
    obtain ⟨d, hd⟩ := Option.isSome_iff_exists.mp hs
    exact (diffKeyU_some k _ _ d hd).2.2.2
  · intro hne'
    constructor
    · rw [mem_unionKeys]
      apply Classical.byContradiction
      intro hn
      have h1 : k ∉ keys ft.rows := fun h => hn (Or.inl h)
      have h2 : k ∉ keys tt.rows := fun h => hn (Or.inr h)
      exact hne' (by rw [get_none_of_not_mem ft.rows k h1, get_none_of_not_mem tt.rows k h2])
    · obtain ⟨d, hd⟩ := diffKeyU_of_ne k _ _ hne'
      simp [hd]

theorem diffTables_values (ft tt : Table) (hne : ft.cols ≠ tt.cols) :
    ∀ d ∈ diffTables (some ft) (some tt), d.from = get ft.rows d.pk ∧ d.to = get tt.rows d.pk := by
  intro d hd
  rw [diffTables_eq ft tt hne] at hd
  obtain ⟨k, _, hk⟩ := List.mem_filterMap.mp hd
  obtain ⟨h1, h2, h3, _⟩ := diffKeyU_some k _ _ d hk
  rw [h1]
  exact ⟨h2, h3⟩

/-! ### Boolean well-formedness checkers -/

def sortedb {κ : Type} (lt : κ → κ → Bool) : List κ → Bool
  | [] => true
  | k :: rest => rest.all (fun k' => lt k k') && sortedb lt rest

theorem sorted_of_sortedb {κ : Type} (lt : κ → κ → Bool) (l : List κ) (h : sortedb lt l = true) : Sorted lt l := by
  induction l with
  | nil => exact List.Pairwise.nil
  | cons k rest ih =>
    simp only [sortedb, Bool.and_eq_true, List.all_eq_true] at h
    exact List.pairwise_cons.mpr ⟨h.1, ih h.2⟩

def Table.wfb (t : Table) : Bool :=
  sortedb ltInt (keys t.rows) && decide t.cols.Nodup && t.rows.all (fun kr => kr.2.length = t.cols.length)

theorem Table.wf_of_wfb (t : Table) (h : t.wfb = true) : t.WF := by
  simp only [Table.wfb, Bool.and_eq_true, decide_eq_true_eq, List.all_eq_true] at h
  exact ⟨sorted_of_sortedb _ _ h.1.1, h.1.2, fun kr hkr => by simpa using h.2 kr hkr⟩

def rootWFb (r : Root) : Bool := sortedb ltStr (keys r) && r.all (fun nt => nt.2.wfb)

theorem mem_of_get {κ α : Type} [DecidableEq κ] (m : List (κ × α)) (k : κ) (v : α) (h : get m k = some v) :
    (k, v) ∈ m := by
  induction m with
  | nil => cases h
  | cons kv rest ih =>
    obtain ⟨k', v'⟩ := kv
    simp only [get] at h
    split at h
    · next e => cases h; subst e; exact List.mem_cons_self
    · exact List.mem_cons_of_mem _ (ih h)

theorem rootWF_of_b (r : Root) (h : rootWFb r = true) : RootWF r := by
  simp only [rootWFb, Bool.and_eq_true, List.all_eq_true] at h
  refine ⟨sorted_of_sortedb _ _ h.1, ?_⟩
  intro n t hg
  exact Table.wf_of_wfb t (h.2 (n, t) (mem_of_get r n t hg))

end DoltVerif.VcsOps
