/-
The mutable map as a state machine over contents: every public operation, with any flush
threshold, keeps `content = sorted dictionary`, away from the two checkpoint shapes of the known
findings (C11 `mutable_refines_partial`).
-/
import DoltVerif.Model.MutableMap
import DoltVerif.Lemmas.EditAlgebra
namespace DoltVerif.Prolly
open DoltVerif.SortedDict

variable {σ κ ν : Type}

def viewL (cmp : κ → κ → Ordering) (log : List (κ × Option ν)) : Edits κ ν :=
  log.foldl (EditLog.insertSorted cmp) []

theorem view_eq_viewL (cmp : κ → κ → Ordering) (l : EditLog κ ν) : l.view cmp = viewL cmp l.log := rfl

theorem viewL_append (cmp : κ → κ → Ordering) (log : List (κ × Option ν)) (e : κ × Option ν) :
    viewL cmp (log ++ [e]) = EditLog.insertSorted cmp (viewL cmp log) e := by
  simp [viewL, List.foldl_append]

theorem insertSorted_eq (cmp : κ → κ → Ordering) (es : List (κ × Option ν)) (e : κ × Option ν) :
    EditLog.insertSorted cmp es e = match es with
      | [] => [e]
      | x :: xs => match cmp e.1 x.1 with
        | .lt => e :: x :: xs
        | .eq => e :: xs
        | .gt => x :: EditLog.insertSorted cmp xs e := by
  cases es <;> rfl

theorem mem_insertSorted (cmp : κ → κ → Ordering) (e : κ × Option ν) : ∀ (es : List (κ × Option ν)) (x : κ × Option ν),
    x ∈ EditLog.insertSorted cmp es e → x = e ∨ x ∈ es
  | [], x, h => by simp [EditLog.insertSorted] at h; exact Or.inl h
  | y :: ys, x, h => by
    simp only [EditLog.insertSorted] at h
    cases hc : cmp e.1 y.1 with
    | lt => rw [hc] at h; simp only [List.mem_cons] at h ⊢; rcases h with h | h | h <;> simp [h]
    | eq => rw [hc] at h; simp only [List.mem_cons] at h ⊢; rcases h with h | h <;> simp [h]
    | gt =>
      rw [hc] at h
      simp only [List.mem_cons] at h ⊢
      rcases h with h | h
      · simp [h]
      · rcases mem_insertSorted cmp e ys x h with h | h <;> simp [h]

theorem insertSorted_sorted {cmp : κ → κ → Ordering} (hc : TotalPreorder cmp) (e : κ × Option ν) :
    ∀ (es : List (κ × Option ν)), es.Pairwise (fun a b => cmp a.1 b.1 = .lt) →
      (EditLog.insertSorted cmp es e).Pairwise (fun a b => cmp a.1 b.1 = .lt)
  | [], _ => by simp [EditLog.insertSorted]
  | y :: ys, h => by
    rw [List.pairwise_cons] at h
    simp only [EditLog.insertSorted]
    cases hcy : cmp e.1 y.1 with
    | lt =>
      simp only
      rw [List.pairwise_cons, List.pairwise_cons]
      refine ⟨?_, h.1, h.2⟩
      intro x hx
      rcases List.mem_cons.mp hx with rfl | hx
      · exact hcy
      · exact hc.lt_trans e.1 y.1 x.1 hcy (h.1 x hx)
    | eq =>
      simp only
      rw [List.pairwise_cons]
      refine ⟨?_, h.2⟩
      intro x hx
      rw [cmp_congr hc e.1 y.1 x.1 hcy]; exact h.1 x hx
    | gt =>
      simp only
      rw [List.pairwise_cons]
      refine ⟨?_, insertSorted_sorted hc e ys h.2⟩
      intro x hx
      rcases mem_insertSorted cmp e ys x hx with rfl | hx
      · exact (hc.swap_lt _ _).mpr hcy
      · exact h.1 x hx

theorem viewL_sorted {cmp : κ → κ → Ordering} (hc : TotalPreorder cmp) (log : List (κ × Option ν)) :
    (viewL cmp log).Pairwise (fun a b => cmp a.1 b.1 = .lt) := by
  have : ∀ (log : List (κ × Option ν)) (acc : List (κ × Option ν)),
      acc.Pairwise (fun a b => cmp a.1 b.1 = .lt) →
      (log.foldl (EditLog.insertSorted cmp) acc).Pairwise (fun a b => cmp a.1 b.1 = .lt) := by
    intro log
    induction log with
    | nil => intro acc h; exact h
    | cons e log ih => intro acc h; exact ih _ (insertSorted_sorted hc e acc h)
  exact this log [] List.Pairwise.nil

/-- one more put/delete in the pending list = the same put/delete on the presented content -/
theorem content_step {cmp : κ → κ → Ordering} (hc : TotalPreorder cmp) (base : List (κ × ν)) (hs : Sorted cmp base)
    (log : List (κ × Option ν)) (e : κ × Option ν) :
    applyEdits cmp base (viewL cmp (log ++ [e])) = upd cmp (applyEdits cmp base (viewL cmp log)) e := by
  rw [viewL_append]
  exact applyEdits_insertSorted hc (EditLog.insertSorted cmp) (insertSorted_eq cmp) e _ base hs (viewL_sorted hc log)

variable [BEq κ] [BEq ν] [Inhabited κ]

/-- every flush of a tree satisfying the tree invariant `P` yields a tree that holds the edited
content and satisfies `P` again.  (`P` = "bulk-built, NoOverflowBoundary": discharged by
`C11.applyMutations_wf`; the statement for `P` = "well formed" is true of the model but not
proved here.) -/
def FlushRefines (C : Cfg σ κ ν) (cmp : κ → κ → Ordering) (P : Tree κ ν → Prop) : Prop :=
  ∀ (tr t' : Tree κ ν) (es : Edits κ ν), P tr → Sorted cmp tr.flatten →
    es.Pairwise (fun a b => cmp a.1 b.1 = .lt) →
    applyMutations C cmp tr es = .ok t' → t'.flatten = applyEdits cmp tr.flatten es ∧ P t'

/-- the run never takes a checkpoint of an empty pending list and never reverts without a
checkpoint or on a list shared with the stash — the two shapes of the known findings -/
def SafeRun (C : Cfg σ κ ν) (cmp : κ → κ → Ordering) : MutMap κ ν → Bool → List (MOp κ ν) → Prop
  | _, _, [] => True
  | m, _, .checkpoint :: os => m.edits.log ≠ [] ∧ SafeRun C cmp m.checkpoint true os
  | m, seen, .revert :: os => seen = true ∧ m.aliased = false ∧ SafeRun C cmp m.revert seen os
  | m, seen, .del k :: os => SafeRun C cmp (m.delete k) seen os
  | m, seen, .put k v :: os =>
    match m.put C cmp k v with
    | .ok m' => SafeRun C cmp m' seen os
    | .error _ => True

structure MInv (cmp : κ → κ → Ordering) (P : Tree κ ν → Prop) (m : MutMap κ ν) (d : Dict κ ν) (seen : Bool) : Prop where
  goodTree : P m.tree
  sortedTree : Sorted cmp m.tree.flatten
  cur : applyEdits cmp m.tree.flatten (viewL cmp m.edits.log) = d.cur
  cpLe : m.edits.cp ≤ m.edits.log.length
  aliasCp : m.aliased = true → 0 < m.edits.cp
  unseen : seen = false → m.edits.cp = 0 ∧ m.stash = none ∧ m.aliased = false
  stashOk : ∀ s, m.stash = some s → m.aliased = false →
    m.edits.cp = 0 ∧ P s.1 ∧ Sorted cmp s.1.flatten ∧ 0 < s.2.cp ∧ s.2.log.length = s.2.cp ∧
    (seen = true → applyEdits cmp s.1.flatten (viewL cmp s.2.log) = d.cp)
  liveOk : seen = true → (m.stash = none ∨ m.aliased = true) →
    0 < m.edits.cp ∧ applyEdits cmp m.tree.flatten (viewL cmp (m.edits.log.take m.edits.cp)) = d.cp

/-- appending to the pending list (put or delete, no flush) -/
theorem MInv.append {cmp : κ → κ → Ordering} {P : Tree κ ν → Prop} (hc : TotalPreorder cmp) {m : MutMap κ ν} {d : Dict κ ν} {seen : Bool}
    (h : MInv cmp P m d seen) (e : κ × Option ν) (stash' : Option (Tree κ ν × EditLog κ ν))
    (hst : m.aliased = false → stash' = m.stash) (hst' : stash' = none → m.stash = none) :
    MInv cmp P { m with edits := m.edits.put e.1 e.2, stash := stash' } { d with cur := upd cmp d.cur e } seen where
  goodTree := h.goodTree
  sortedTree := h.sortedTree
  cur := by
    show applyEdits cmp m.tree.flatten (viewL cmp (m.edits.log ++ [(e.1, e.2)])) = _
    rw [content_step hc _ h.sortedTree, h.cur]
  cpLe := by
    show m.edits.cp ≤ (m.edits.log ++ [(e.1, e.2)]).length
    have := h.cpLe; simp; omega
  aliasCp := h.aliasCp
  unseen := fun hs => by
    obtain ⟨h1, h2, h3⟩ := h.unseen hs
    exact ⟨h1, by show stash' = none; rw [hst h3]; exact h2, h3⟩
  stashOk := fun s hs ha => by
    have : m.stash = some s := by rw [← hst ha]; exact hs
    exact h.stashOk s this ha
  liveOk := fun hseen hor => by
    have hor' : m.stash = none ∨ m.aliased = true := by
      rcases hor with h1 | h1
      · exact Or.inl (hst' h1)
      · exact Or.inr h1
    obtain ⟨h1, h2⟩ := h.liveOk hseen hor'
    refine ⟨h1, ?_⟩
    show applyEdits cmp m.tree.flatten (viewL cmp ((m.edits.log ++ [(e.1, e.2)]).take m.edits.cp)) = d.cp
    rw [List.take_append_of_le_length h.cpLe]; exact h2

/-- `flushPending`: the presented content does not change, the checkpoint moves into the stash -/
theorem MInv.flush {C : Cfg σ κ ν} {cmp : κ → κ → Ordering} {P : Tree κ ν → Prop} (hc : TotalPreorder cmp) (hf : FlushRefines C cmp P)
    {m m' : MutMap κ ν} {d : Dict κ ν} {seen : Bool} (h : MInv cmp P m d seen)
    (hfl : m.flush C cmp = .ok m') : MInv cmp P m' d seen := by
  unfold MutMap.flush at hfl
  simp only [bind, Except.bind, pure, Except.pure] at hfl
  cases hmat : m.materialize C cmp with
  | error e => rw [hmat] at hfl; cases hfl
  | ok t' =>
    rw [hmat] at hfl
    simp only [Except.ok.injEq] at hfl
    have hview := viewL_sorted (ν := ν) hc m.edits.log
    obtain ⟨hfl', hP'⟩ := hf m.tree t' _ h.goodTree h.sortedTree hview hmat
    have htf : t'.flatten = d.cur := by rw [hfl']; exact h.cur
    have hts : Sorted cmp t'.flatten := by
      rw [hfl']
      exact applyEdits_sorted hc _ _ h.sortedTree hview
    by_cases hcp : 0 < m.edits.cp
    · -- a checkpoint is pending: it moves into the stash
      have hhas : m.edits.hasCheckpoint = true := by simp [EditLog.hasCheckpoint, hcp]
      have hseen : seen = true := by
        cases seen with
        | true => rfl
        | false => have := (h.unseen rfl).1; omega
      have hor : m.stash = none ∨ m.aliased = true := by
        cases hst : m.stash with
        | none => exact Or.inl rfl
        | some s =>
          right
          cases hal : m.aliased with
          | true => rfl
          | false => have := (h.stashOk s hst hal).1; omega
      obtain ⟨_, hlive⟩ := h.liveOk hseen hor
      simp only [hhas, if_true, Bool.false_eq_true, if_false] at hfl
      subst hfl
      exact {
        goodTree := hP'
        sortedTree := hts
        cur := by show applyEdits cmp t'.flatten (viewL cmp []) = d.cur; exact htf
        cpLe := Nat.le_refl _
        aliasCp := fun ha => by cases ha
        unseen := fun hs => by rw [hseen] at hs; cases hs
        stashOk := fun s hs _ => by
          simp only [Option.some.injEq] at hs
          subst hs
          refine ⟨rfl, h.goodTree, h.sortedTree, hcp, ?_, fun _ => hlive⟩
          show (m.edits.log.take m.edits.cp).length = m.edits.cp
          rw [List.length_take]; exact Nat.min_eq_left h.cpLe
        liveOk := fun _ hor' => by
          rcases hor' with h1 | h1
          · cases h1
          · cases h1 }
    · have hcp0 : m.edits.cp = 0 := by omega
      have hhas : m.edits.hasCheckpoint = false := by simp [EditLog.hasCheckpoint, hcp0]
      have hal : m.aliased = false := by
        cases ha : m.aliased with
        | false => rfl
        | true => have := h.aliasCp ha; omega
      simp only [hhas, Bool.false_eq_true, if_false, hal] at hfl
      subst hfl
      exact {
        goodTree := hP'
        sortedTree := hts
        cur := by show applyEdits cmp t'.flatten (viewL cmp []) = d.cur; exact htf
        cpLe := Nat.le_refl _
        aliasCp := fun ha => by have hx : (false : Bool) = true := ha; cases hx
        unseen := fun hs => ⟨rfl, (h.unseen hs).2.1, rfl⟩
        stashOk := fun s hs _ => by
          obtain ⟨_, h0, h2, h3, h4, h5⟩ := h.stashOk s hs hal
          exact ⟨rfl, h0, h2, h3, h4, h5⟩
        liveOk := fun hseen hor' => by
          have hor : m.stash = none ∨ m.aliased = true := by
            rcases hor' with h1 | h1
            · exact Or.inl h1
            · have hx : (false : Bool) = true := h1; cases hx
          have := (h.liveOk hseen hor).1
          omega }

theorem MInv.checkpoint {cmp : κ → κ → Ordering} {P : Tree κ ν → Prop} {m : MutMap κ ν} {d : Dict κ ν} {seen : Bool}
    (h : MInv cmp P m d seen) (hne : m.edits.log ≠ []) :
    MInv cmp P m.checkpoint { d with cp := d.cur } true where
  goodTree := h.goodTree
  sortedTree := h.sortedTree
  cur := h.cur
  cpLe := Nat.le_refl _
  aliasCp := fun ha => by cases ha
  unseen := fun hs => by cases hs
  stashOk := fun s hs _ => by cases hs
  liveOk := fun _ _ => by
    refine ⟨List.length_pos_iff.mpr hne, ?_⟩
    show applyEdits cmp m.tree.flatten (viewL cmp (m.edits.log.take m.edits.log.length)) = d.cur
    rw [List.take_length]; exact h.cur

theorem MInv.revert {cmp : κ → κ → Ordering} {P : Tree κ ν → Prop} {m : MutMap κ ν} {d : Dict κ ν}
    (h : MInv cmp P m d true) (hal : m.aliased = false) :
    MInv cmp P m.revert { d with cur := d.cp } true := by
  unfold MutMap.revert
  cases hst : m.stash with
  | some s =>
    obtain ⟨_, h0, h2, h3, h4, h5⟩ := h.stashOk s hst hal
    simp only
    exact {
      goodTree := h0
      sortedTree := h2
      cur := h5 rfl
      cpLe := by show s.2.cp ≤ s.2.log.length; omega
      aliasCp := fun _ => h3
      unseen := fun hs => by cases hs
      stashOk := fun _ _ ha => by cases ha
      liveOk := fun _ _ => by
        refine ⟨h3, ?_⟩
        show applyEdits cmp s.1.flatten (viewL cmp (s.2.log.take s.2.cp)) = d.cp
        rw [← h4, List.take_length]; exact h5 rfl }
  | none =>
    obtain ⟨h1, h2⟩ := h.liveOk rfl (Or.inl hst)
    simp only
    exact {
      goodTree := h.goodTree
      sortedTree := h.sortedTree
      cur := h2
      cpLe := by
        show m.edits.cp ≤ (m.edits.log.take m.edits.cp).length
        rw [List.length_take]; exact Nat.le_min.mpr ⟨Nat.le_refl _, h.cpLe⟩
      aliasCp := fun ha => by rw [hal] at ha; cases ha
      unseen := fun hs => by cases hs
      stashOk := fun s hs _ => by have hs' : (none : Option (Tree κ ν × EditLog κ ν)) = some s := hs; cases hs'
      liveOk := fun _ _ => by
        refine ⟨h1, ?_⟩
        show applyEdits cmp m.tree.flatten (viewL cmp ((m.edits.log.take m.edits.cp).take m.edits.cp)) = d.cp
        rw [List.take_take, Nat.min_self]; exact h2 }

theorem MInv.put {C : Cfg σ κ ν} {cmp : κ → κ → Ordering} {P : Tree κ ν → Prop} (hc : TotalPreorder cmp) (hf : FlushRefines C cmp P)
    {m m' : MutMap κ ν} {d : Dict κ ν} {seen : Bool} (h : MInv cmp P m d seen) (k : κ) (v : ν)
    (hp : m.put C cmp k v = .ok m') : MInv cmp P m' { d with cur := SortedDict.insert cmp d.cur k v } seen := by
  have happ := MInv.append hc h (k, some v)
    (if m.aliased then m.stash.map (fun s => (s.1, s.2.put k (some v))) else m.stash)
    (fun ha => by simp [ha])
    (fun hn => by
      by_cases ha : m.aliased = true
      · simp only [ha, if_true, Option.map_eq_none_iff] at hn; exact hn
      · simp only [ha, Bool.false_eq_true, if_false] at hn; exact hn)
  rw [← insert_eq_upd] at happ
  unfold MutMap.put at hp
  simp only at hp
  split at hp
  · exact MInv.flush hc hf happ hp
  · simp only [Except.ok.injEq] at hp
    rw [← hp]; exact happ

theorem MInv.delete {cmp : κ → κ → Ordering} {P : Tree κ ν → Prop} (hc : TotalPreorder cmp)
    {m : MutMap κ ν} {d : Dict κ ν} {seen : Bool} (h : MInv cmp P m d seen) (k : κ) :
    MInv cmp P (m.delete k) { d with cur := SortedDict.erase cmp d.cur k } seen := by
  have happ := MInv.append hc h (k, none)
    (if m.aliased then m.stash.map (fun s => (s.1, s.2.put k none)) else m.stash)
    (fun ha => by simp [ha])
    (fun hn => by
      by_cases ha : m.aliased = true
      · simp only [ha, if_true, Option.map_eq_none_iff] at hn; exact hn
      · simp only [ha, Bool.false_eq_true, if_false] at hn; exact hn)
  rw [← erase_eq_upd] at happ
  exact happ

/-- the state-machine induction -/
theorem mutable_run_refines {C : Cfg σ κ ν} {cmp : κ → κ → Ordering} {P : Tree κ ν → Prop} (hc : TotalPreorder cmp) (hf : FlushRefines C cmp P) :
    ∀ (ops : List (MOp κ ν)) (m m' : MutMap κ ν) (d : Dict κ ν) (seen : Bool),
      MInv cmp P m d seen → SafeRun C cmp m seen ops → m.run C cmp ops = .ok m' →
      applyEdits cmp m'.tree.flatten (viewL cmp m'.edits.log) = (ops.foldl (Dict.step cmp) d).cur
  | [], m, m', d, seen, h, _, hr => by
    simp only [MutMap.run, Except.ok.injEq] at hr
    rw [← hr]; exact h.cur
  | .put k v :: os, m, m', d, seen, h, hsafe, hr => by
    simp only [MutMap.run, MutMap.step] at hr
    simp only [SafeRun] at hsafe
    cases hp : m.put C cmp k v with
    | error e => rw [hp] at hr; cases hr
    | ok m1 =>
      rw [hp] at hr hsafe
      simp only at hr hsafe
      exact mutable_run_refines hc hf os m1 m' _ seen (MInv.put hc hf h k v hp) hsafe hr
  | .del k :: os, m, m', d, seen, h, hsafe, hr => by
    simp only [MutMap.run, MutMap.step] at hr
    simp only [SafeRun] at hsafe
    exact mutable_run_refines hc hf os (m.delete k) m' _ seen (MInv.delete hc h k) hsafe hr
  | .checkpoint :: os, m, m', d, seen, h, hsafe, hr => by
    simp only [MutMap.run, MutMap.step] at hr
    simp only [SafeRun] at hsafe
    exact mutable_run_refines hc hf os m.checkpoint m' _ true (MInv.checkpoint h hsafe.1) hsafe.2 hr
  | .revert :: os, m, m', d, seen, h, hsafe, hr => by
    simp only [MutMap.run, MutMap.step] at hr
    simp only [SafeRun] at hsafe
    obtain ⟨hseen, hal, hrest⟩ := hsafe
    subst hseen
    exact mutable_run_refines hc hf os m.revert m' _ true (MInv.revert h hal) hrest hr

/-- the invariant holds for the final state of a safe run (so its tree satisfies `P`) -/
theorem mutable_run_inv {C : Cfg σ κ ν} {cmp : κ → κ → Ordering} {P : Tree κ ν → Prop} (hc : TotalPreorder cmp)
    (hf : FlushRefines C cmp P) :
    ∀ (ops : List (MOp κ ν)) (m m' : MutMap κ ν) (d : Dict κ ν) (seen : Bool),
      MInv cmp P m d seen → SafeRun C cmp m seen ops → m.run C cmp ops = .ok m' →
      ∃ seen', MInv cmp P m' (ops.foldl (Dict.step cmp) d) seen'
  | [], m, m', d, seen, h, _, hr => by
    simp only [MutMap.run, Except.ok.injEq] at hr
    rw [← hr]; exact ⟨seen, h⟩
  | .put k v :: os, m, m', d, seen, h, hsafe, hr => by
    simp only [MutMap.run, MutMap.step] at hr
    simp only [SafeRun] at hsafe
    cases hp : m.put C cmp k v with
    | error e => rw [hp] at hr; cases hr
    | ok m1 =>
      rw [hp] at hr hsafe
      simp only at hr hsafe
      exact mutable_run_inv hc hf os m1 m' _ seen (MInv.put hc hf h k v hp) hsafe hr
  | .del k :: os, m, m', d, seen, h, hsafe, hr => by
    simp only [MutMap.run, MutMap.step] at hr
    simp only [SafeRun] at hsafe
    exact mutable_run_inv hc hf os (m.delete k) m' _ seen (MInv.delete hc h k) hsafe hr
  | .checkpoint :: os, m, m', d, seen, h, hsafe, hr => by
    simp only [MutMap.run, MutMap.step] at hr
    simp only [SafeRun] at hsafe
    exact mutable_run_inv hc hf os m.checkpoint m' _ true (MInv.checkpoint h hsafe.1) hsafe.2 hr
  | .revert :: os, m, m', d, seen, h, hsafe, hr => by
    simp only [MutMap.run, MutMap.step] at hr
    simp only [SafeRun] at hsafe
    obtain ⟨hseen, hal, hrest⟩ := hsafe
    subst hseen
    exact mutable_run_inv hc hf os m.revert m' _ true (MInv.revert h hal) hrest hr

/-- executable form of `SafeRun` -/
def safeRunB (C : Cfg σ κ ν) (cmp : κ → κ → Ordering) : MutMap κ ν → Bool → List (MOp κ ν) → Bool
  | _, _, [] => true
  | m, _, .checkpoint :: os => !m.edits.log.isEmpty && safeRunB C cmp m.checkpoint true os
  | m, seen, .revert :: os => seen && !m.aliased && safeRunB C cmp m.revert seen os
  | m, seen, .del k :: os => safeRunB C cmp (m.delete k) seen os
  | m, seen, .put k v :: os =>
    match m.put C cmp k v with
    | .ok m' => safeRunB C cmp m' seen os
    | .error _ => true

theorem safeRun_of_safeRunB (C : Cfg σ κ ν) (cmp : κ → κ → Ordering) :
    ∀ (ops : List (MOp κ ν)) (m : MutMap κ ν) (seen : Bool), safeRunB C cmp m seen ops = true → SafeRun C cmp m seen ops
  | [], _, _, _ => trivial
  | .checkpoint :: os, m, seen, h => by
    simp only [safeRunB, Bool.and_eq_true, Bool.not_eq_true', List.isEmpty_eq_false_iff] at h
    exact ⟨h.1, safeRun_of_safeRunB C cmp os _ _ h.2⟩
  | .revert :: os, m, seen, h => by
    simp only [safeRunB, Bool.and_eq_true, Bool.not_eq_true'] at h
    exact ⟨h.1.1, h.1.2, safeRun_of_safeRunB C cmp os _ _ h.2⟩
  | .del k :: os, m, seen, h => by
    simp only [safeRunB] at h
    exact safeRun_of_safeRunB C cmp os _ _ h
  | .put k v :: os, m, seen, h => by
    simp only [safeRunB] at h
    simp only [SafeRun]
    cases hp : m.put C cmp k v with
    | error e => trivial
    | ok m1 =>
      rw [hp] at h
      exact safeRun_of_safeRunB C cmp os _ _ h

end DoltVerif.Prolly
