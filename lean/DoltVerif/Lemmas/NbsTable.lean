import DoltVerif.Model.NbsTableFile
import DoltVerif.Lemmas.NbsBuild
import DoltVerif.Lemmas.NbsParse
namespace DoltVerif.NbsFiles

structure Codec.Ok (c : Codec) : Prop where
  dec_cmp : ∀ d, c.dec (c.cmp d) = some d
  cmp_ne : ∀ d, d ≠ [] → c.cmp d ≠ []
  crc_lt : ∀ b, c.crc b < 256 ^ checksumSize

theorem foldl_add_eq : ∀ (l : List Nat) (a : Nat), l.foldl (· + ·) a = a + l.foldl (· + ·) 0
  | [], a => by simp
  | x :: xs, a => by
    simp only [List.foldl_cons, Nat.zero_add]
    rw [foldl_add_eq xs (a + x), foldl_add_eq xs x]; omega

/-- the `o`-th block of a concatenation sits at the sum of the earlier block lengths -/
theorem slice_flatMap {α : Type} (f : α → Bytes) : ∀ (l : List α) (o : Nat) (h : o < l.length) (rest : Bytes),
    ((l.flatMap f ++ rest).drop (((l.map (fun x => (f x).length)).take o).foldl (· + ·) 0)).take (f l[o]).length = f l[o]
  | [], o, h, _ => absurd h (by simp)
  | x :: xs, 0, _, rest => by
    simp only [List.take_zero, List.foldl_nil, List.drop_zero, List.flatMap_cons, List.getElem_cons_zero, List.append_assoc]
    exact take_append_len _ _ _ rfl
  | x :: xs, o + 1, h, rest => by
    have ih := slice_flatMap f xs o (by simpa using h) rest
    simp only [List.map_cons, List.take_succ_cons, List.foldl_cons, Nat.zero_add, List.flatMap_cons,
      List.getElem_cons_succ, List.append_assoc]
    rw [foldl_add_eq, ← List.drop_drop, drop_append_len _ _ _ rfl]
    exact ih

theorem length_flatMap_foldl {α : Type} (f : α → Bytes) : ∀ (l : List α),
    (l.flatMap f).length = (l.map (fun x => (f x).length)).foldl (· + ·) 0
  | [] => rfl
  | x :: xs => by
    simp only [List.flatMap_cons, List.length_append, List.map_cons, List.foldl_cons, Nat.zero_add]
    rw [foldl_add_eq, length_flatMap_foldl f xs]

theorem slice_end {α : Type} (f : α → Bytes) (l : List α) (o : Nat) (h : o < l.length) :
    ((l.map (fun x => (f x).length)).take o).foldl (· + ·) 0 + (f l[o]).length ≤ (l.flatMap f).length := by
  induction l generalizing o with
  | nil => simp at h
  | cons x xs ih =>
    cases o with
    | zero => simp
    | succ o =>
      have := ih o (by simpa using h)
      simp only [List.map_cons, List.take_succ_cons, List.foldl_cons, Nat.zero_add, List.flatMap_cons,
        List.getElem_cons_succ, List.length_append]
      rw [foldl_add_eq]; omega

/-- reading back a record that the writer laid down -/
theorem readRecord_slice (c : Codec) (hc : c.Ok) (file : Bytes) (off : Nat) (d : Bytes) (hd : d ≠ [])
    (hlen : off + (record c d).length ≤ file.length)
    (hb : (file.drop off).take (record c d).length = record c d) :
    readRecord c file off (record c d).length = .ok d := by
  have hrl : (record c d).length = (c.cmp d).length + checksumSize := by simp [record, beBytes_length]
  unfold readRecord
  have h1 : ¬ (file.length < off + (record c d).length) := by omega
  have h2 : ¬ ((record c d).length < checksumSize) := by omega
  simp only [h1, h2, if_false, hb]
  have hk : (record c d).length - checksumSize = (c.cmp d).length := by omega
  have ht : (record c d).take ((record c d).length - checksumSize) = c.cmp d := by
    rw [hk]; exact take_append_len _ _ _ rfl
  have hdr : (record c d).drop ((record c d).length - checksumSize) = beBytes checksumSize (c.crc (c.cmp d)) := by
    rw [hk]; exact drop_append_len _ _ _ rfl
  have hne : (c.cmp d).isEmpty = false := by
    cases h : c.cmp d with
    | nil => exact absurd h (hc.cmp_ne d hd)
    | cons _ _ => rfl
  simp [ht, hdr, beVal_beBytes _ _ (hc.crc_lt _), hne, hc.dec_cmp]

/-- the chunk-record region of a table file -/
def recordsOf (c : Codec) (chunks : List Chunk) : Bytes := chunks.flatMap (fun ch => record c ch.data)

theorem recs_len_map (c : Codec) (chunks : List Chunk) :
    (chunks.map (recOf c)).map (·.len) = chunks.map (fun ch => (record c ch.data).length) := by
  simp [recOf, List.map_map, Function.comp_def]

/-- reading ordinal `o` of a file whose record region is `recordsOf c chunks` -/
theorem readRecord_ordinal (c : Codec) (hc : c.Ok) (chunks : List Chunk) (hne : ∀ ch ∈ chunks, ch.data ≠ [])
    (tail : Bytes) (o : Nat) (ho : o < chunks.length) :
    readRecord c (recordsOf c chunks ++ tail) (offsetIn (chunks.map (recOf c)) o) (record c (chunks[o]).data).length
      = .ok (chunks[o]).data := by
  have hoff : offsetIn (chunks.map (recOf c)) o =
      ((chunks.map (fun ch => (record c ch.data).length)).take o).foldl (· + ·) 0 := by
    unfold offsetIn; rw [recs_len_map]
  rw [hoff]
  apply readRecord_slice c hc _ _ _ (hne _ (List.getElem_mem ho))
  · have := slice_end (fun ch : Chunk => record c ch.data) chunks o ho
    simp only [recordsOf, List.length_append]
    omega
  · exact slice_flatMap (fun ch : Chunk => record c ch.data) chunks o ho tail

/-- **Reads through any index of the written chunks** (whatever order the writer's sort left equal
prefixes in), on a file that starts with the chunk records: an address that was not written is
reported absent; an address that was written yields the bytes of a chunk written under it. -/
theorem tableGet_of_index (c : Codec) (hc : c.Ok) (chunks : List Chunk) (hne : ∀ ch ∈ chunks, ch.data ≠ [])
    (ix : Idx) (hix : IsIndexOf ix (chunks.map (recOf c))) (tail : Bytes) (a : Addr) :
    (a ∉ chunks.map (·.a) ∧ tableGet c (recordsOf c chunks ++ tail) ix a = .ok none) ∨
    (∃ ch ∈ chunks, ch.a = a ∧ tableGet c (recordsOf c chunks ++ tail) ix a = .ok (some ch.data)) := by
  have hmap : (chunks.map (recOf c)).map (·.a) = chunks.map (·.a) := by
    simp [recOf, List.map_map, Function.comp_def]
  rcases hix.lookup_spec a with ⟨hl, hn⟩ | ⟨o, ho, ha, hl⟩
  · left
    rw [hmap] at hn
    exact ⟨hn, by simp [tableGet, hl]⟩
  · right
    have ho' : o < chunks.length := by simpa using ho
    refine ⟨chunks[o], List.getElem_mem ho', by simpa [recOf] using ha, ?_⟩
    have hr := readRecord_ordinal c hc chunks hne tail o ho'
    have hl' : lookup ix a = some (some (offsetIn (chunks.map (recOf c)) o, (record c (chunks[o]).data).length)) := by
      rw [hl]; simp [recOf]
    simp only [tableGet, hl', hr]

theorem mapM_ok {α β : Type} (f : α → Except ReadErr β) (g : α → β) :
    ∀ (l : List α), (∀ x ∈ l, f x = .ok (g x)) → l.mapM f = .ok (l.map g)
  | [], _ => rfl
  | x :: xs, h => by
    simp only [List.mapM_cons, h x (List.mem_cons_self ..), mapM_ok f g xs (fun y hy => h y (List.mem_cons_of_mem _ hy))]
    rfl

/-- one row of the iteration -/
theorem tableRow_of_index (c : Codec) (hc : c.Ok) (chunks : List Chunk) (hne : ∀ ch ∈ chunks, ch.data ≠ [])
    (ix : Idx) (hix : IsIndexOf ix (chunks.map (recOf c))) (tail : Bytes) (k : Nat) (hk : k < ix.count) :
    ∃ o, ∃ ho : o < chunks.length, ix.ord[k]? = some o ∧
      tableRow c (recordsOf c chunks ++ tail) ix k = .ok ((chunks[o]).a, (chunks[o]).data) := by
  have hkp : k < ix.pfx.size := hk
  have hk2 : k < ix.ord.size := by rw [hix.ord_size, ← hix.size]; exact hkp
  obtain ⟨ho, hpre⟩ := hix.tuple_ok k hkp hk2
  have ho' : ix.ord[k] < chunks.length := by simpa using ho
  refine ⟨ix.ord[k], ho', Array.getElem?_eq_getElem hk2, ?_⟩
  have hr := readRecord_ordinal c hc chunks hne tail _ ho'
  have hent : indexEntry ix ix.ord[k] = some (offsetIn (chunks.map (recOf c)) ix.ord[k], (record c (chunks[ix.ord[k]]).data).length) := by
    have hl : ix.len[ix.ord[k]]? = some (record c (chunks[ix.ord[k]]).data).length := by
      rw [hix.len]; simp [ho', recOf]
    have hof : offsetOf ix ix.ord[k] = offsetIn (chunks.map (recOf c)) ix.ord[k] := by
      simp [offsetOf, offsetIn, hix.len]
    simp [indexEntry, hl, hof]
  have hp : ix.pfx[k] = (chunks[ix.ord[k]]).a.pre := by rw [← hpre]; simp [recOf]
  have hs : rowSuf ix k = some (chunks[ix.ord[k]]).a.suf := by rw [hix.rowSuf k hk2 ho]; simp [recOf]
  simp [tableRow, Array.getElem?_eq_getElem hkp, Array.getElem?_eq_getElem hk2, hs, hent, hr, hp]

/-- **Full iteration** yields exactly the written chunks: every yielded pair is a written chunk with
its own bytes, every written chunk is yielded, and as many pairs as chunks were written. -/
theorem tableIterate_of_index (c : Codec) (hc : c.Ok) (chunks : List Chunk) (hne : ∀ ch ∈ chunks, ch.data ≠ [])
    (ix : Idx) (hix : IsIndexOf ix (chunks.map (recOf c))) (tail : Bytes) :
    ∃ out, tableIterate c (recordsOf c chunks ++ tail) ix = .ok out ∧ out.length = chunks.length ∧
      (∀ p ∈ out, ∃ ch ∈ chunks, p = (ch.a, ch.data)) ∧ (∀ ch ∈ chunks, (ch.a, ch.data) ∈ out) := by
  -- the row function, totalised
  let g : Nat → Addr × Bytes := fun k =>
    match ix.ord[k]? with
    | some o => if h : o < chunks.length then ((chunks[o]).a, (chunks[o]).data) else (default, [])
    | none => (default, [])
  have hg : ∀ k ∈ List.range ix.count, tableRow c (recordsOf c chunks ++ tail) ix k = .ok (g k) := by
    intro k hk
    obtain ⟨o, ho, hord, hrow⟩ := tableRow_of_index c hc chunks hne ix hix tail k (List.mem_range.mp hk)
    simp only [g, hord, ho, dite_true]
    exact hrow
  refine ⟨(List.range ix.count).map g, mapM_ok _ g _ hg, ?_, ?_, ?_⟩
  · simp [Idx.count, hix.size]
  · intro p hp
    obtain ⟨k, hk, rfl⟩ := List.mem_map.mp hp
    obtain ⟨o, ho, hord, _⟩ := tableRow_of_index c hc chunks hne ix hix tail k (List.mem_range.mp hk)
    exact ⟨chunks[o], List.getElem_mem ho, by simp only [g, hord, ho, dite_true]⟩
  · intro ch hch
    obtain ⟨o, ho, rfl⟩ := List.getElem_of_mem hch
    obtain ⟨k, hk2, hko⟩ := hix.ord_surj o (by simpa using ho)
    have hk : k < ix.count := by unfold Idx.count; rw [hix.size, ← hix.ord_size]; exact hk2
    refine List.mem_map.mpr ⟨k, List.mem_range.mpr hk, ?_⟩
    simp only [g, Array.getElem?_eq_getElem hk2, hko, ho, dite_true]

end DoltVerif.NbsFiles

namespace DoltVerif.NbsFiles

/-- what the writer needs of its input so that no field is truncated and `addChunk` does not panic -/
structure ChunksOk (c : Codec) (chunks : List Chunk) : Prop where
  nonempty : ∀ ch ∈ chunks, ch.data ≠ []
  pre_lt : ∀ ch ∈ chunks, ch.a.pre < 256 ^ prefixLen
  suf_lt : ∀ ch ∈ chunks, ch.a.suf < 256 ^ suffixLen
  rec_lt : ∀ ch ∈ chunks, (record c ch.data).length < 256 ^ lengthSize
  count_lt : chunks.length < 256 ^ 4
  unc_lt : totalUnc chunks < 256 ^ 8

theorem build_bounded (cs : List Rec) (unc : Nat)
    (h1 : ∀ r ∈ cs, r.a.pre < 256 ^ prefixLen) (h2 : ∀ r ∈ cs, r.a.suf < 256 ^ suffixLen)
    (h3 : ∀ r ∈ cs, r.len < 256 ^ lengthSize) (h4 : cs.length < 256 ^ 4) (h5 : unc < 256 ^ 8) :
    Bounded (build cs unc) := by
  have hix := build_isIndexOf cs unc
  have hwf := hix.wf
  have hmemT : ∀ t ∈ sortTuples (rawTuples cs), ∃ o, ∃ h : o < cs.length, t = ((cs[o]).a.pre, o) :=
    fun t ht => (mem_rawTuples cs t).mp ((mem_sortTuples t _).mp ht)
  refine ⟨hwf.ord_size, hwf.suf_size, hwf.len_size, ?_, ?_, ?_, ?_, ?_, h5⟩
  · intro x hx
    simp only [build, List.toList_toArray] at hx
    obtain ⟨t, ht, rfl⟩ := List.mem_map.mp hx
    obtain ⟨o, ho, rfl⟩ := hmemT t ht
    exact h1 _ (List.getElem_mem ho)
  · intro x hx
    simp only [build, List.toList_toArray] at hx
    obtain ⟨t, ht, rfl⟩ := List.mem_map.mp hx
    obtain ⟨o, ho, rfl⟩ := hmemT t ht
    simp only [ordinalSize]; omega
  · intro x hx
    simp only [build, List.toList_toArray] at hx
    obtain ⟨r, hr, rfl⟩ := List.mem_map.mp hx
    exact h2 r hr
  · intro x hx
    simp only [build, List.toList_toArray] at hx
    obtain ⟨r, hr, rfl⟩ := List.mem_map.mp hx
    exact h3 r hr
  · rw [hix.size]; exact h4

theorem serializeIndex_length (ix : Idx) (h1 : ix.ord.size = ix.pfx.size) (h2 : ix.suf.size = ix.pfx.size)
    (h3 : ix.len.size = ix.pfx.size) : (serializeIndex ix).length = indexSize ix.count + footerSize := by
  rw [serializeIndex_eq]
  simp only [List.length_append, flatMap_length_const _ _ tupleBytes_length, flatMap_length_const _ _ (beBytes_length _),
    footerBytes_length, List.length_zip, Array.length_toList, h1, h2, h3, Nat.min_self, Idx.count]
  simp only [indexSize, prefixTupleSize, lengthSize, suffixLen, prefixLen, ordinalSize]
  omega

theorem tableFileSize_build (cs : List Rec) (unc : Nat) :
    tableFileSize (build cs unc) = footerSize + (cs.map (·.len)).foldl (· + ·) 0 + indexSize cs.length := by
  have hc : (build cs unc).count = cs.length := (build_isIndexOf cs unc).size
  unfold tableFileSize
  rw [hc]
  cases cs with
  | nil => simp [indexSize]
  | cons x xs =>
    have : offsetOf (build (x :: xs) unc) (x :: xs).length = ((x :: xs).map (·.len)).foldl (· + ·) 0 := by
      have ht : List.take (x :: xs).length (List.map (fun r => r.len) (x :: xs)) = List.map (fun r => r.len) (x :: xs) :=
        List.take_of_length_le (by simp)
      simp only [offsetOf, build, List.toList_toArray, ht]
    rw [if_pos (by simp), this]

/-- **Table-file round trip.**  For every chunk list the writer accepts (duplicates and prefix
collisions included) and every codec with `dec (cmp d) = d`: the writer produces a file; opening it
yields an index of exactly the written chunks; every address that was not written is reported absent
by `get`; every written address yields the bytes of a chunk written under it; full iteration yields
the written chunks, all of them, nothing else; count, uncompressed size and file size in the footer /
index are those of the input. -/
theorem table_roundtrip (c : Codec) (hc : c.Ok) (chunks : List Chunk) (hk : ChunksOk c chunks) :
    ∃ file ix, writeTable c chunks = some file ∧ parseIndex file = .ok ix ∧
      IsIndexOf ix (chunks.map (recOf c)) ∧
      (∀ a, a ∉ chunks.map (·.a) → tableGet c file ix a = .ok none ∧ has ix a = some false) ∧
      (∀ a, a ∈ chunks.map (·.a) → has ix a = some true ∧
         ∃ ch ∈ chunks, ch.a = a ∧ tableGet c file ix a = .ok (some ch.data)) ∧
      (∃ out, tableIterate c file ix = .ok out ∧ out.length = chunks.length ∧
        (∀ p ∈ out, ∃ ch ∈ chunks, p = (ch.a, ch.data)) ∧ (∀ ch ∈ chunks, (ch.a, ch.data) ∈ out)) ∧
      ix.count = chunks.length ∧ ix.unc = totalUnc chunks ∧ tableFileSize ix = file.length := by
  have hany : chunks.any (·.data.isEmpty) = false := by
    apply Bool.eq_false_iff.mpr
    intro h
    obtain ⟨ch, hch, he⟩ := List.any_eq_true.mp h
    exact hk.nonempty ch hch (List.isEmpty_iff.mp he)
  have hix := build_isIndexOf (chunks.map (recOf c)) (totalUnc chunks)
  have hb : Bounded (build (chunks.map (recOf c)) (totalUnc chunks)) := by
    apply build_bounded
    · intro r hr; obtain ⟨ch, hch, rfl⟩ := List.mem_map.mp hr; exact hk.pre_lt ch hch
    · intro r hr; obtain ⟨ch, hch, rfl⟩ := List.mem_map.mp hr; exact hk.suf_lt ch hch
    · intro r hr; obtain ⟨ch, hch, rfl⟩ := List.mem_map.mp hr; exact hk.rec_lt ch hch
    · simpa using hk.count_lt
    · exact hk.unc_lt
  have hmap : (chunks.map (recOf c)).map (·.a) = chunks.map (·.a) := by
    simp [recOf, List.map_map, Function.comp_def]
  refine ⟨recordsOf c chunks ++ writeIndex (chunks.map (recOf c)) (totalUnc chunks), _, by simp [writeTable, hany, recordsOf],
    parse_serialize _ hb _, hix, ?_, ?_, tableIterate_of_index c hc chunks hk.nonempty _ hix _, (by unfold Idx.count; simpa using hix.size), rfl, ?_⟩
  · intro a ha
    rcases tableGet_of_index c hc chunks hk.nonempty _ hix (writeIndex (chunks.map (recOf c)) (totalUnc chunks)) a with ⟨_, h⟩ | ⟨ch, hch, rfl, _⟩
    · refine ⟨h, ?_⟩
      rcases has_spec _ a hix.wf hix.sorted with ⟨_, hm⟩ | ⟨h, _⟩
      · exact absurd (hmap ▸ (hix.mem_iff a).mp hm) ha
      · exact h
    · exact absurd (List.mem_map.mpr ⟨ch, hch, rfl⟩) ha
  · intro a ha
    constructor
    · rcases has_spec _ a hix.wf hix.sorted with ⟨h, _⟩ | ⟨_, hn⟩
      · exact h
      · exact absurd ((hix.mem_iff a).mpr (hmap ▸ ha)) hn
    · rcases tableGet_of_index c hc chunks hk.nonempty _ hix (writeIndex (chunks.map (recOf c)) (totalUnc chunks)) a with ⟨hn, _⟩ | h
      · exact absurd ha hn
      · exact h
  · rw [tableFileSize_build, List.length_append, writeIndex,
      serializeIndex_length _ hb.ord_size hb.suf_size hb.len_size, show (build (chunks.map (recOf c)) (totalUnc chunks)).count = (chunks.map (recOf c)).length from hix.size, recordsOf,
      length_flatMap_foldl, recs_len_map]
    simp only [List.length_map]
    omega

end DoltVerif.NbsFiles
