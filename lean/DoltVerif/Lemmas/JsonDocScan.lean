import DoltVerif.Model.JsonDoc
import DoltVerif.Model.JsonDocIndexed
/-!
C17 helper lemmas: the byte-level scanner on the stored text of a *flat* object (members are scalar
literals), single chunk.  Core only.
-/
set_option linter.unusedSimpArgs false
namespace DoltVerif.JsonDoc

/-- what may follow a value in the stored text: nothing, or a byte the scalar scan stops at -/
def stopHead (r : Bytes) : Prop := r = [] ∨ ∃ c t, r = c :: t ∧ isStop c = true

/-- the scanner passes the literal `s` as one value -/
def valScans (s : Bytes) : Prop :=
  ∀ (done r : Bytes) (p : Loc), stopHead r → p.st = .startOfValue →
    Scanner.advance { done := done, rest := s ++ r, path := p } =
      .ok { done := s.reverse ++ done, rest := r, path := p.withState .endOfValue }

/-- the scanner reads the key text `k` back exactly, and its location key is the key itself -/
def keyScans (k : Bytes) : Prop := (∀ r, skipKey (k ++ 0x22 :: r) = some (k, r)) ∧ unescapeKey k = k

def FlatMember (kv : Bytes × JsonVal) : Prop := keyScans kv.1 ∧ ∃ s, kv.2 = .lit s ∧ valScans s

/-- the stored text after a member's value: `}` or `,` and the remaining members -/
def afterVal (t : List (Bytes × JsonVal)) (tail : Bytes) : Bytes :=
  match t with
  | [] => 0x7d :: tail
  | _ :: _ => 0x2c :: (serObj t ++ 0x7d :: tail)

theorem serObj_cons (k : Bytes) (v : JsonVal) (t : List (Bytes × JsonVal)) (tail : Bytes) :
    serObj ((k, v) :: t) ++ 0x7d :: tail = 0x22 :: k ++ 0x22 :: 0x3a :: (serialize v ++ afterVal t tail) := by
  cases t with
  | nil => simp [serObj, afterVal]
  | cons kv t' => simp [serObj, afterVal]

theorem stopHead_afterVal (t : List (Bytes × JsonVal)) (tail : Bytes) : stopHead (afterVal t tail) := by
  cases t with
  | nil => exact Or.inr ⟨0x7d, tail, rfl, by decide⟩
  | cons kv t' => exact Or.inr ⟨0x2c, _, rfl, by decide⟩

theorem afterVal_cons (k2 s2 : Bytes) (t2 : List (Bytes × JsonVal)) (tail : Bytes) :
    afterVal ((k2, JsonVal.lit s2) :: t2) tail = 0x2c :: (0x22 :: k2 ++ 0x22 :: 0x3a :: (s2 ++ afterVal t2 tail)) := by
  have := serObj_cons k2 (.lit s2) t2 tail
  simp only [afterVal, this, serialize]

/-- scanner states while walking the members -/
def atValue (done : Bytes) (k : Bytes) (s : Bytes) (t : List (Bytes × JsonVal)) (tail : Bytes) : Scanner :=
  { done := done, rest := s ++ afterVal t tail, path := { st := .startOfValue, elems := [objElem k] } }

def atEnd (done : Bytes) (k : Bytes) (t : List (Bytes × JsonVal)) (tail : Bytes) : Scanner :=
  { done := done, rest := afterVal t tail, path := { st := .endOfValue, elems := [objElem k] } }

theorem adv_value (done k s : Bytes) (t : List (Bytes × JsonVal)) (tail : Bytes) (hs : valScans s) :
    (atValue done k s t tail).advance = .ok (atEnd (s.reverse ++ done) k t tail) := by
  have := hs done (afterVal t tail) { st := .startOfValue, elems := [objElem k] } (stopHead_afterVal t tail) rfl
  simpa [atValue, atEnd, Loc.withState] using this

theorem adv_next (done k k2 s2 : Bytes) (t2 : List (Bytes × JsonVal)) (tail : Bytes) (hk : keyScans k2) :
    (atEnd done k ((k2, .lit s2) :: t2) tail).advance =
      .ok (atValue ((0x22 :: k2 ++ [0x22, 0x3a]).reverse ++ (0x2c :: done)) k2 s2 t2 tail) := by
  have e : afterVal ((k2, JsonVal.lit s2) :: t2) tail = 0x2c :: (0x22 :: k2 ++ 0x22 :: 0x3a :: (s2 ++ afterVal t2 tail)) := by
    have := serObj_cons k2 (.lit s2) t2 tail
    simp only [afterVal, this, serialize]
  simp only [atEnd, e, Scanner.advance, Loc.last, Loc.pop, objElem]
  simp only [List.getLast?_singleton, Option.getD_some, Bool.false_eq_true, if_false, if_true,
    Scanner.pass, Scanner.cur, List.headD_cons, ne_eq, not_true_eq_false, List.dropLast_singleton]
  simp only [Scanner.acceptObjectKey, hk.1 (0x3a :: (s2 ++ afterVal t2 tail)), Scanner.pass, Loc.push, Loc.withState,
    hk.2, atValue, objElem]
  have hsk := hk.1 (0x3a :: (s2 ++ afterVal t2 tail))
  simp [hsk, hk.2]


/-! ### location comparisons met while walking a flat object -/

theorem bytesCmp_self : ∀ (a : Bytes), bytesCmp a a = .eq
  | [] => rfl
  | x :: t => by simp [bytesCmp, bytesCmp_self t]

def keyLoc (st : PState) (k : Bytes) : Loc := { st := st, elems := [objElem k] }

theorem cmp_lt (st st' : PState) (k K : Bytes) (h : bytesCmp k K = .lt) :
    compareLoc (keyLoc st k) (keyLoc st' K) = -1 := by
  simp [compareLoc, keyLoc, compareElems, objElem, h]

theorem cmp_same (st st' : PState) (K : Bytes) :
    compareLoc (keyLoc st K) (keyLoc st' K) = compareTypes st st' := by
  simp [compareLoc, keyLoc, compareElems, objElem, bytesCmp_self, Loc.size]

theorem cmp_root_start (K : Bytes) : compareLoc rootLoc (keyLoc .startOfValue K) = -1 := by
  simp [compareLoc, keyLoc, rootLoc, compareElems, Loc.size, Loc.last, objElem]

theorem cmp_root_objInit (st' : PState) (K : Bytes) (h : st' ≠ .objectInitial ∧ st' ≠ .arrayInitial) :
    compareLoc { st := .objectInitial, elems := [] } (keyLoc st' K) = -1 := by
  cases st' <;> simp [compareLoc, keyLoc, compareElems, Loc.size, Loc.last, objElem] at h ⊢

/-! ### walking the members up to the one named `K` -/

def mem (ks : Bytes × Bytes) : Bytes × JsonVal := (ks.1, .lit ks.2)

/-- the members of a flat prefix, then the member `K`, then anything -/
def membersFrom (pre : List (Bytes × Bytes)) (K sK : Bytes) (post : List (Bytes × JsonVal)) : List (Bytes × JsonVal) :=
  pre.map mem ++ (K, .lit sK) :: post

/-- the scanner standing at the value of the first member of `membersFrom pre …` -/
def startState (done : Bytes) (pre : List (Bytes × Bytes)) (K sK : Bytes) (post : List (Bytes × JsonVal)) (tail : Bytes) :
    Scanner :=
  match pre with
  | [] => atValue done K sK post tail
  | (k, s) :: pre' => atValue done k s (membersFrom pre' K sK post) tail

def FlatPre (K : Bytes) (pre : List (Bytes × Bytes)) : Prop :=
  ∀ ks ∈ pre, keyScans ks.1 ∧ valScans ks.2 ∧ bytesCmp ks.1 K = .lt

theorem atValue_text (done k s : Bytes) (t : List (Bytes × JsonVal)) (tail : Bytes) :
    (atValue done k s t tail).done.reverse ++ (atValue done k s t tail).rest = done.reverse ++ (s ++ afterVal t tail) := rfl

/-- **the scan finds the member**: from the value of the first member, `AdvanceToLocation`'s loop stops
(comparison 0) exactly at the value of member `K`, having passed precisely the text before it -/
theorem loop_find (K sK : Bytes) (post : List (Bytes × JsonVal)) (tail : Bytes) (hK : keyScans K) :
    ∀ (pre : List (Bytes × Bytes)) (done : Bytes) (prev : Scanner) (fuel : Nat), FlatPre K pre →
      2 * pre.length + 1 ≤ fuel →
      ∃ done' prev', advanceToGo (keyLoc .startOfValue K) fuel prev (startState done pre K sK post tail) =
          .ok (0, prev', atValue done' K sK post tail) ∧
        done'.reverse ++ (sK ++ afterVal post tail) =
          (startState done pre K sK post tail).done.reverse ++ (startState done pre K sK post tail).rest := by
  intro pre
  induction pre with
  | nil =>
    intro done prev fuel _ hf
    cases fuel with
    | zero => omega
    | succ f =>
      refine ⟨done, prev, ?_, rfl⟩
      have hc : compareLoc (atValue done K sK post tail).path (keyLoc .startOfValue K) = 0 := by
        simpa [atValue, keyLoc, compareTypes] using cmp_same .startOfValue .startOfValue K
      simp only [startState, advanceToGo, hc]
      simp
  | cons ks pre' ih =>
    intro done prev fuel hflat hf
    obtain ⟨k, s⟩ := ks
    obtain ⟨hk, hs, hlt⟩ := hflat (k, s) (by simp)
    have hflat' : FlatPre K pre' := fun x hx => hflat x (by simp [hx])
    match fuel, hf with
    | f + 2, hf =>
      have hc1 : compareLoc (atValue done k s (membersFrom pre' K sK post) tail).path (keyLoc .startOfValue K) = -1 := by
        simpa [atValue, keyLoc] using cmp_lt .startOfValue .startOfValue k K hlt
      have hc2 : compareLoc (atEnd (s.reverse ++ done) k (membersFrom pre' K sK post) tail).path (keyLoc .startOfValue K) = -1 := by
        simpa [atEnd, keyLoc] using cmp_lt .endOfValue .startOfValue k K hlt
      -- the member after (k, s): either the next flat one or K itself
      have hnext : ∃ k2 s2 t2, membersFrom pre' K sK post = (k2, .lit s2) :: t2 ∧ keyScans k2 ∧
          startState ((0x22 :: k2 ++ [0x22, 0x3a]).reverse ++ (0x2c :: (s.reverse ++ done))) pre' K sK post tail =
            atValue ((0x22 :: k2 ++ [0x22, 0x3a]).reverse ++ (0x2c :: (s.reverse ++ done))) k2 s2 t2 tail := by
        cases pre' with
        | nil => exact ⟨K, sK, post, rfl, hK, rfl⟩
        | cons ks2 pre'' =>
          obtain ⟨k2, s2⟩ := ks2
          exact ⟨k2, s2, membersFrom pre'' K sK post, rfl, (hflat' (k2, s2) (by simp)).1, rfl⟩
      obtain ⟨k2, s2, t2, hm, hk2, hst⟩ := hnext
      have hadv1 := adv_value done k s (membersFrom pre' K sK post) tail hs
      have hadv2 : (atEnd (s.reverse ++ done) k (membersFrom pre' K sK post) tail).advance =
          .ok (atValue ((0x22 :: k2 ++ [0x22, 0x3a]).reverse ++ (0x2c :: (s.reverse ++ done))) k2 s2 t2 tail) := by
        rw [hm]; exact adv_next (s.reverse ++ done) k k2 s2 t2 tail hk2
      obtain ⟨done', prev', hgo, htext⟩ :=
        ih ((0x22 :: k2 ++ [0x22, 0x3a]).reverse ++ (0x2c :: (s.reverse ++ done)))
          (atEnd (s.reverse ++ done) k (membersFrom pre' K sK post) tail) f hflat' (by simp only [List.length_cons] at hf; omega)
      refine ⟨done', prev', ?_, ?_⟩
      · simp only [startState]
        rw [advanceToGo, hc1]
        simp only [show ((-1 : Int) < 0) from by decide, if_true, hadv1]
        rw [advanceToGo, hc2]
        simp only [show ((-1 : Int) < 0) from by decide, if_true, hadv2]
        rw [← hst]
        exact hgo
      · rw [htext, hst]
        simp only [startState, atValue, hm, afterVal_cons]
        simp


/-- `loop_find` with the scanner *before* the found location (what `forRemoval` returns): from the value of the first member, `AdvanceToLocation`'s loop stops
(comparison 0) exactly at the value of member `K`, having passed precisely the text before it -/
theorem loop_find2 (K sK : Bytes) (post : List (Bytes × JsonVal)) (tail : Bytes) (hK : keyScans K) :
    ∀ (pre : List (Bytes × Bytes)) (done : Bytes) (prev : Scanner) (fuel : Nat), FlatPre K pre →
      2 * pre.length + 1 ≤ fuel →
      ∃ done' prev', advanceToGo (keyLoc .startOfValue K) fuel prev (startState done pre K sK post tail) =
          .ok (0, prev', atValue done' K sK post tail) ∧
        done'.reverse ++ (sK ++ afterVal post tail) =
          (startState done pre K sK post tail).done.reverse ++ (startState done pre K sK post tail).rest ∧
        (pre = [] → prev' = prev) ∧
        (pre ≠ [] → ∃ dp kp, bytesCmp kp K = .lt ∧ prev' = atEnd dp kp ((K, .lit sK) :: post) tail ∧
          dp.reverse ++ afterVal ((K, .lit sK) :: post) tail =
            (startState done pre K sK post tail).done.reverse ++ (startState done pre K sK post tail).rest) := by
  intro pre
  induction pre with
  | nil =>
    intro done prev fuel _ hf
    cases fuel with
    | zero => omega
    | succ f =>
      refine ⟨done, prev, ?_, rfl, fun _ => rfl, fun h => absurd rfl h⟩
      have hc : compareLoc (atValue done K sK post tail).path (keyLoc .startOfValue K) = 0 := by
        simpa [atValue, keyLoc, compareTypes] using cmp_same .startOfValue .startOfValue K
      simp only [startState, advanceToGo, hc]
      simp
  | cons ks pre' ih =>
    intro done prev fuel hflat hf
    obtain ⟨k, s⟩ := ks
    obtain ⟨hk, hs, hlt⟩ := hflat (k, s) (by simp)
    have hflat' : FlatPre K pre' := fun x hx => hflat x (by simp [hx])
    match fuel, hf with
    | f + 2, hf =>
      have hc1 : compareLoc (atValue done k s (membersFrom pre' K sK post) tail).path (keyLoc .startOfValue K) = -1 := by
        simpa [atValue, keyLoc] using cmp_lt .startOfValue .startOfValue k K hlt
      have hc2 : compareLoc (atEnd (s.reverse ++ done) k (membersFrom pre' K sK post) tail).path (keyLoc .startOfValue K) = -1 := by
        simpa [atEnd, keyLoc] using cmp_lt .endOfValue .startOfValue k K hlt
      -- the member after (k, s): either the next flat one or K itself
      have hnext : ∃ k2 s2 t2, membersFrom pre' K sK post = (k2, .lit s2) :: t2 ∧ keyScans k2 ∧
          startState ((0x22 :: k2 ++ [0x22, 0x3a]).reverse ++ (0x2c :: (s.reverse ++ done))) pre' K sK post tail =
            atValue ((0x22 :: k2 ++ [0x22, 0x3a]).reverse ++ (0x2c :: (s.reverse ++ done))) k2 s2 t2 tail := by
        cases pre' with
        | nil => exact ⟨K, sK, post, rfl, hK, rfl⟩
        | cons ks2 pre'' =>
          obtain ⟨k2, s2⟩ := ks2
          exact ⟨k2, s2, membersFrom pre'' K sK post, rfl, (hflat' (k2, s2) (by simp)).1, rfl⟩
      obtain ⟨k2, s2, t2, hm, hk2, hst⟩ := hnext
      have hadv1 := adv_value done k s (membersFrom pre' K sK post) tail hs
      have hadv2 : (atEnd (s.reverse ++ done) k (membersFrom pre' K sK post) tail).advance =
          .ok (atValue ((0x22 :: k2 ++ [0x22, 0x3a]).reverse ++ (0x2c :: (s.reverse ++ done))) k2 s2 t2 tail) := by
        rw [hm]; exact adv_next (s.reverse ++ done) k k2 s2 t2 tail hk2
      obtain ⟨done', prev', hgo, htext, hp0, hp1⟩ :=
        ih ((0x22 :: k2 ++ [0x22, 0x3a]).reverse ++ (0x2c :: (s.reverse ++ done)))
          (atEnd (s.reverse ++ done) k (membersFrom pre' K sK post) tail) f hflat' (by simp only [List.length_cons] at hf; omega)
      have hstart : (startState ((0x22 :: k2 ++ [0x22, 0x3a]).reverse ++ (0x2c :: (s.reverse ++ done))) pre' K sK post tail).done.reverse ++
          (startState ((0x22 :: k2 ++ [0x22, 0x3a]).reverse ++ (0x2c :: (s.reverse ++ done))) pre' K sK post tail).rest =
          (startState done ((k, s) :: pre') K sK post tail).done.reverse ++ (startState done ((k, s) :: pre') K sK post tail).rest := by
        rw [hst]
        simp only [startState, atValue, hm, afterVal_cons]
        simp
      refine ⟨done', prev', ?_, ?_, fun h => absurd h (by simp), fun _ => ?_⟩
      · simp only [startState]
        rw [advanceToGo, hc1]
        simp only [show ((-1 : Int) < 0) from by decide, if_true, hadv1]
        rw [advanceToGo, hc2]
        simp only [show ((-1 : Int) < 0) from by decide, if_true, hadv2]
        rw [← hst]
        exact hgo
      · rw [htext, hstart]
      · by_cases hp : pre' = []
        · subst hp
          refine ⟨s.reverse ++ done, k, hlt, ?_, ?_⟩
          · rw [hp0 rfl]; rfl
          · simp [startState, atValue, membersFrom]
        · obtain ⟨dp, kp, hkp, hpe, hpt⟩ := hp1 hp
          exact ⟨dp, kp, hkp, hpe, by rw [hpt, hstart]⟩



/-! ### from the beginning of the stored text -/

def preText : List (Bytes × Bytes) → Bytes
  | [] => []
  | (k, s) :: t => 0x22 :: k ++ 0x22 :: 0x3a :: (s ++ 0x2c :: preText t)

/-- the stored text of a flat-prefixed object, split around the value of member `K` -/
theorem ser_split (K : Bytes) (x : JsonVal) (post : List (Bytes × JsonVal)) (tail : Bytes) :
    ∀ (pre : List (Bytes × Bytes)),
      serObj (pre.map mem ++ (K, x) :: post) ++ 0x7d :: tail =
        preText pre ++ (0x22 :: K ++ 0x22 :: 0x3a :: (serialize x ++ afterVal post tail))
  | [] => by simpa [preText] using serObj_cons K x post tail
  | (k, s) :: pre' => by
    have ih := ser_split K x post tail pre'
    have h1 := serObj_cons k (.lit s) (pre'.map mem ++ (K, x) :: post) tail
    have h2 : afterVal (pre'.map mem ++ (K, x) :: post) tail =
        0x2c :: (serObj (pre'.map mem ++ (K, x) :: post) ++ 0x7d :: tail) := by
      cases pre' <;> rfl
    simp only [List.map_cons, List.cons_append, mem] at h1 ⊢
    rw [h1, h2, ih]
    simp [preText, serialize]

theorem pre_length_le (pre : List (Bytes × Bytes)) : pre.length ≤ (preText pre).length := by
  induction pre with
  | nil => simp
  | cons ks t ih => obtain ⟨k, s⟩ := ks; simp only [preText, List.length_cons, List.length_append]; omega

/-- the scanner just after the opening `{` of the document -/
def afterBrace (r : Bytes) : Scanner := { done := [0x7b], rest := r, path := { st := .objectInitial, elems := [] } }

/-- **`scan_locates`** (flat object, single chunk): on the stored text of an object whose members before
`K` are scalars in ascending key order, `AdvanceToLocation(K)` reports "found" and stands exactly at the
value of `K`: the text passed is everything before that value, the text ahead is the value and the rest -/
theorem scan_locates_flat (pre : List (Bytes × Bytes)) (K sK : Bytes) (post : List (Bytes × JsonVal))
    (hpre : FlatPre K pre) (hK : keyScans K) :
    ∃ done', advanceTo (mkScanner (serialize (.obj (membersFrom pre K sK post)))) (keyLoc .startOfValue K) false =
        .ok (true, atValue done' K sK post []) ∧
      done'.reverse = 0x7b :: (preText pre ++ (0x22 :: K ++ [0x22, 0x3a])) := by
  -- the first member the scanner meets
  have hfirst : ∃ k0 s0 t0, membersFrom pre K sK post = (k0, .lit s0) :: t0 ∧ keyScans k0 ∧
      ∀ d, startState d pre K sK post [] = atValue d k0 s0 t0 [] := by
    cases pre with
    | nil => exact ⟨K, sK, post, rfl, hK, fun _ => rfl⟩
    | cons ks pre' =>
      obtain ⟨k, s⟩ := ks
      exact ⟨k, s, membersFrom pre' K sK post, rfl, (hpre (k, s) (by simp)).1, fun _ => rfl⟩
  obtain ⟨k0, s0, t0, hm, hk0, hst⟩ := hfirst
  have hdoc : serialize (.obj (membersFrom pre K sK post)) =
      0x7b :: (0x22 :: k0 ++ 0x22 :: 0x3a :: (s0 ++ afterVal t0 [])) := by
    have := serObj_cons k0 (.lit s0) t0 []
    simp only [serialize, hm]
    simp only [serialize] at this
    simp [this]
  have hsplit := ser_split K (.lit sK) post [] pre
  obtain ⟨D0, hD0⟩ : ∃ D0 : Bytes, D0 = (0x22 :: k0 ++ [0x22, 0x3a]).reverse ++ [0x7b] := ⟨_, rfl⟩
  have hlen : 2 * pre.length + 1 ≤ 2 * (mkScanner (serialize (.obj (membersFrom pre K sK post)))).size + 14 := by
    have h1 := pre_length_le pre
    have h2 : (preText pre).length ≤ (serialize (.obj (membersFrom pre K sK post))).length := by
      have := congrArg List.length hsplit
      simp only [serialize, membersFrom, List.length_cons, List.length_append] at this ⊢
      omega
    simp only [mkScanner, Scanner.size, List.length_nil, Nat.zero_add]
    omega
  obtain ⟨done', prev', hgo, htext⟩ := loop_find K sK post [] hK pre D0
    (afterBrace (0x22 :: k0 ++ 0x22 :: 0x3a :: (s0 ++ afterVal t0 [])))
    (2 * (mkScanner (serialize (.obj (membersFrom pre K sK post)))).size + 14) hpre hlen
  refine ⟨done', ?_, ?_⟩
  · unfold advanceTo
    have hf : 2 * (mkScanner (serialize (.obj (membersFrom pre K sK post)))).size + 16 =
        (2 * (mkScanner (serialize (.obj (membersFrom pre K sK post)))).size + 14) + 1 + 1 := by omega
    rw [hf, advanceToGo]
    have hc0 : compareLoc (mkScanner (serialize (.obj (membersFrom pre K sK post)))).path (keyLoc .startOfValue K) = -1 := by
      simpa [mkScanner] using cmp_root_start K
    simp only [hc0, show ((-1 : Int) < 0) from by decide, if_true]
    have hadv0 : (mkScanner (serialize (.obj (membersFrom pre K sK post)))).advance =
        .ok (afterBrace (0x22 :: k0 ++ 0x22 :: 0x3a :: (s0 ++ afterVal t0 []))) := by
      simp [mkScanner, hdoc, Scanner.advance, rootLoc, Scanner.pass, Loc.withState, afterBrace]
    rw [hadv0]
    simp only []
    rw [advanceToGo]
    have hc1 : compareLoc (afterBrace (0x22 :: k0 ++ 0x22 :: 0x3a :: (s0 ++ afterVal t0 []))).path (keyLoc .startOfValue K) = -1 :=
      cmp_root_objInit .startOfValue K (by simp)
    simp only [hc1, show ((-1 : Int) < 0) from by decide, if_true]
    have hadv1 : (afterBrace (0x22 :: k0 ++ 0x22 :: 0x3a :: (s0 ++ afterVal t0 []))).advance = .ok (atValue D0 k0 s0 t0 []) := by
      have hsk := hk0.1 (0x3a :: (s0 ++ afterVal t0 []))
      simp [afterBrace, Scanner.advance, Scanner.acceptObjectKey, hsk, hk0.2, Scanner.pass, Loc.push, Loc.withState, atValue, objElem, hD0]
    rw [hadv1]
    simp only []
    rw [← hst D0, hgo]
    simp
  · -- the passed text: cancel the value and what follows
    have e1 : done'.reverse ++ (sK ++ afterVal post []) = D0.reverse ++ (s0 ++ afterVal t0 []) := by
      rw [htext, hst D0]; rfl
    have e2 : D0.reverse ++ (s0 ++ afterVal t0 []) = serialize (.obj (membersFrom pre K sK post)) := by
      rw [hdoc, hD0]; simp
    have e3 : serialize (.obj (membersFrom pre K sK post)) =
        (0x7b :: (preText pre ++ (0x22 :: K ++ [0x22, 0x3a]))) ++ (sK ++ afterVal post []) := by
      simp only [serialize, membersFrom]
      have := hsplit
      simp only [serialize] at this
      have e4 : serObj (pre.map mem ++ (K, JsonVal.lit sK) :: post) ++ [0x7d] =
          preText pre ++ (0x22 :: K ++ 0x22 :: 0x3a :: (sK ++ afterVal post [])) := this
      simp [e4]
    exact List.append_cancel_right (e1.trans (e2.trans e3))


/-! ### splice = structural edit, for a member of a flat-prefixed object -/

theorem cmp_end_same (K : Bytes) : compareLoc (keyLoc .endOfValue K) (keyLoc .endOfValue K) = 0 := by
  simp [cmp_same, compareTypes]

theorem cmp_start_end (K : Bytes) : compareLoc (keyLoc .startOfValue K) (keyLoc .endOfValue K) = -1 := by
  simp [cmp_same, compareTypes]

theorem doneTail_afterVal (post : List (Bytes × JsonVal)) (tail : Bytes) :
    doneTail .endOfValue (afterVal post tail) = afterVal post tail := by
  cases post <;> simp [afterVal, doneTail]

/-- from the value of `K`, `AdvanceToLocation(K, endOfValue)` passes exactly the value -/
theorem advance_to_end (done K sK : Bytes) (post : List (Bytes × JsonVal)) (tail : Bytes) (hs : valScans sK) :
    advanceTo (atValue done K sK post tail) (keyLoc .endOfValue K) false =
      .ok (true, atEnd (sK.reverse ++ done) K post tail) := by
  unfold advanceTo
  have hf : 2 * (atValue done K sK post tail).size + 16 = (2 * (atValue done K sK post tail).size + 14) + 1 + 1 := by omega
  rw [hf, advanceToGo]
  have hc0 : compareLoc (atValue done K sK post tail).path (keyLoc .endOfValue K) = -1 := by
    simpa [atValue, keyLoc] using cmp_start_end K
  simp only [hc0, show ((-1 : Int) < 0) from by decide, if_true, adv_value done K sK post tail hs]
  rw [advanceToGo]
  have hc1 : compareLoc (atEnd (sK.reverse ++ done) K post tail).path (keyLoc .endOfValue K) = 0 := by
    simpa [atEnd, keyLoc] using cmp_end_same K
  simp [hc1]

/-- **lookup**: the stored-text lookup of member `K` returns exactly the value's text -/
theorem iLookup_flat (pre : List (Bytes × Bytes)) (K sK : Bytes) (post : List (Bytes × JsonVal))
    (hpre : FlatPre K pre) (hK : keyScans K) (hs : valScans sK) :
    iLookup (serialize (.obj (membersFrom pre K sK post))) (keyLoc .startOfValue K) = .ok (some sK) := by
  obtain ⟨done', hfind, _⟩ := scan_locates_flat pre K sK post hpre hK
  unfold iLookup
  rw [hfind]
  simp only [nextValue, atValue, ne_eq, not_true_eq_false, if_false]
  have hadv := adv_value done' K sK post [] hs
  simp only [atValue] at hadv
  simp only [Loc.withState, hadv]
  have hgo : ∀ f, nextValueGo (keyLoc .endOfValue K) (f + 1) (atEnd (sK.reverse ++ done') K post []) =
      .ok (atEnd (sK.reverse ++ done') K post []) := by
    intro f
    have hc1 : compareLoc (atEnd (sK.reverse ++ done') K post []).path (keyLoc .endOfValue K) = 0 := by
      simpa [atEnd, keyLoc] using cmp_end_same K
    simp [nextValueGo, hc1]
  have hsz : ∃ f, 2 * (Scanner.size { done := done', rest := sK ++ afterVal post [], path := { st := .startOfValue, elems := [objElem K] } }) + 16 = f + 1 :=
    ⟨_, rfl⟩
  obtain ⟨f, hf⟩ := hsz
  simp only [keyLoc] at hgo
  rw [hf, hgo f]
  simp [atEnd]

/-- **replace / set of an existing member**: the splice writes the new value's text in place of the old
one, everything else untouched -/
theorem iReplace_flat (pre : List (Bytes × Bytes)) (K sK : Bytes) (post : List (Bytes × JsonVal)) (v : Bytes)
    (hpre : FlatPre K pre) (hK : keyScans K) (hs : valScans sK) :
    iReplace (serialize (.obj (membersFrom pre K sK post))) (keyLoc .startOfValue K) v =
      .ok (0x7b :: (preText pre ++ (0x22 :: K ++ [0x22, 0x3a])) ++ v ++ afterVal post [], true) ∧
    iSet (serialize (.obj (membersFrom pre K sK post))) (keyLoc .startOfValue K) v =
      .ok (0x7b :: (preText pre ++ (0x22 :: K ++ [0x22, 0x3a])) ++ v ++ afterVal post [], true) := by
  obtain ⟨done', hfind, hdone⟩ := scan_locates_flat pre K sK post hpre hK
  have hrep : replaceInto (keyLoc .startOfValue K) (atValue done' K sK post []) v =
      .ok (0x7b :: (preText pre ++ (0x22 :: K ++ [0x22, 0x3a])) ++ v ++ afterVal post [], true) := by
    unfold replaceInto
    have : (keyLoc .startOfValue K).withState .endOfValue = keyLoc .endOfValue K := rfl
    rw [this, advance_to_end done' K sK post [] hs]
    simp only [prefixOf, restOf, atValue, atEnd, hdone, doneTail_afterVal]
  constructor
  · unfold iReplace; rw [hfind]; simp only [if_true]; exact hrep
  · unfold iSet; rw [hfind]; simp only [if_true]; exact hrep


/-! ### REMOVE of an existing member -/

theorem adv_brace (k r : Bytes) (hk : keyScans k) (s0 : Bytes) (t0 : List (Bytes × JsonVal)) (tail : Bytes)
    (hr : r = s0 ++ afterVal t0 tail) :
    (afterBrace (0x22 :: k ++ 0x22 :: 0x3a :: r)).advance =
      .ok (atValue ((0x22 :: k ++ [0x22, 0x3a]).reverse ++ [0x7b]) k s0 t0 tail) := by
  subst hr
  have hsk := hk.1 (0x3a :: (s0 ++ afterVal t0 tail))
  simp [afterBrace, Scanner.advance, Scanner.acceptObjectKey, hsk, hk.2, Scanner.pass, Loc.push, Loc.withState, atValue, objElem]

/-- the cursor `AdvanceToLocation(K, forRemoval)` returns: the scanner just before the member -/
theorem scan_remove_cursor (pre : List (Bytes × Bytes)) (K sK : Bytes) (post : List (Bytes × JsonVal))
    (hpre : FlatPre K pre) (hK : keyScans K) :
    ∃ c, advanceTo (mkScanner (serialize (.obj (membersFrom pre K sK post)))) (keyLoc .startOfValue K) true = .ok (true, c) ∧
      ((pre = [] ∧ c = afterBrace (0x22 :: K ++ 0x22 :: 0x3a :: (sK ++ afterVal post []))) ∨
       (pre ≠ [] ∧ ∃ dp kp, bytesCmp kp K = .lt ∧ c = atEnd dp kp ((K, .lit sK) :: post) [] ∧
          dp.reverse ++ afterVal ((K, .lit sK) :: post) [] = serialize (.obj (membersFrom pre K sK post)))) := by
  have hfirst : ∃ k0 s0 t0, membersFrom pre K sK post = (k0, .lit s0) :: t0 ∧ keyScans k0 ∧
      (∀ d, startState d pre K sK post [] = atValue d k0 s0 t0 []) ∧ (pre = [] → k0 = K ∧ s0 = sK ∧ t0 = post) := by
    cases pre with
    | nil => exact ⟨K, sK, post, rfl, hK, fun _ => rfl, fun _ => ⟨rfl, rfl, rfl⟩⟩
    | cons ks pre' =>
      obtain ⟨k, s⟩ := ks
      exact ⟨k, s, membersFrom pre' K sK post, rfl, (hpre (k, s) (by simp)).1, fun _ => rfl, fun h => absurd h (by simp)⟩
  obtain ⟨k0, s0, t0, hm, hk0, hst, hnil⟩ := hfirst
  have hdoc : serialize (.obj (membersFrom pre K sK post)) =
      0x7b :: (0x22 :: k0 ++ 0x22 :: 0x3a :: (s0 ++ afterVal t0 [])) := by
    have := serObj_cons k0 (.lit s0) t0 []
    simp only [serialize, hm]
    simp only [serialize] at this
    simp [this]
  have hsplit := ser_split K (.lit sK) post [] pre
  obtain ⟨D0, hD0⟩ : ∃ D0 : Bytes, D0 = (0x22 :: k0 ++ [0x22, 0x3a]).reverse ++ [0x7b] := ⟨_, rfl⟩
  have hlen : 2 * pre.length + 1 ≤ 2 * (mkScanner (serialize (.obj (membersFrom pre K sK post)))).size + 14 := by
    have h1 := pre_length_le pre
    have h2 : (preText pre).length ≤ (serialize (.obj (membersFrom pre K sK post))).length := by
      have := congrArg List.length hsplit
      simp only [serialize, membersFrom, List.length_cons, List.length_append] at this ⊢
      omega
    simp only [mkScanner, Scanner.size, List.length_nil, Nat.zero_add]
    omega
  obtain ⟨done', prev', hgo, _, hp0, hp1⟩ := loop_find2 K sK post [] hK pre D0
    (afterBrace (0x22 :: k0 ++ 0x22 :: 0x3a :: (s0 ++ afterVal t0 [])))
    (2 * (mkScanner (serialize (.obj (membersFrom pre K sK post)))).size + 14) hpre hlen
  have hstart : (startState D0 pre K sK post []).done.reverse ++ (startState D0 pre K sK post []).rest =
      serialize (.obj (membersFrom pre K sK post)) := by
    rw [hst D0, hdoc, hD0]; simp [atValue]
  refine ⟨prev', ?_, ?_⟩
  · unfold advanceTo
    have hf : 2 * (mkScanner (serialize (.obj (membersFrom pre K sK post)))).size + 16 =
        (2 * (mkScanner (serialize (.obj (membersFrom pre K sK post)))).size + 14) + 1 + 1 := by omega
    rw [hf, advanceToGo]
    have hc0 : compareLoc (mkScanner (serialize (.obj (membersFrom pre K sK post)))).path (keyLoc .startOfValue K) = -1 := by
      simpa [mkScanner] using cmp_root_start K
    simp only [hc0, show ((-1 : Int) < 0) from by decide, if_true]
    have hadv0 : (mkScanner (serialize (.obj (membersFrom pre K sK post)))).advance =
        .ok (afterBrace (0x22 :: k0 ++ 0x22 :: 0x3a :: (s0 ++ afterVal t0 []))) := by
      simp [mkScanner, hdoc, Scanner.advance, rootLoc, Scanner.pass, Loc.withState, afterBrace]
    rw [hadv0]
    simp only []
    rw [advanceToGo]
    have hc1 : compareLoc (afterBrace (0x22 :: k0 ++ 0x22 :: 0x3a :: (s0 ++ afterVal t0 []))).path (keyLoc .startOfValue K) = -1 :=
      cmp_root_objInit .startOfValue K (by simp)
    simp only [hc1, show ((-1 : Int) < 0) from by decide, if_true]
    rw [adv_brace k0 _ hk0 s0 t0 [] rfl, ← hD0]
    simp only []
    rw [← hst D0, hgo]
    simp
  · by_cases hp : pre = []
    · left
      obtain ⟨rfl, rfl, rfl⟩ := hnil hp
      exact ⟨hp, hp0 hp⟩
    · right
      obtain ⟨dp, kp, hkp, hpe, hpt⟩ := hp1 hp
      exact ⟨hp, dp, kp, hkp, hpe, by rw [hpt, hstart]⟩

/-- members of a non-empty flat prefix, comma separated, no trailing comma -/
def preCore : List (Bytes × Bytes) → Bytes
  | [] => []
  | [(k, s)] => 0x22 :: k ++ 0x22 :: 0x3a :: s
  | (k, s) :: x :: r => 0x22 :: k ++ 0x22 :: 0x3a :: (s ++ 0x2c :: preCore (x :: r))

theorem ser_core (t : List (Bytes × JsonVal)) (tail : Bytes) : ∀ (pre : List (Bytes × Bytes)), pre ≠ [] →
    serObj (pre.map mem ++ t) ++ 0x7d :: tail = preCore pre ++ afterVal t tail
  | [], h => absurd rfl h
  | [(k, s)], _ => by
    have := serObj_cons k (.lit s) t tail
    simpa [mem, preCore, serialize] using this
  | (k, s) :: x :: r, _ => by
    have ih := ser_core t tail (x :: r) (by simp)
    have h1 := serObj_cons k (.lit s) ((x :: r).map mem ++ t) tail
    have h2 : afterVal ((x :: r).map mem ++ t) tail = 0x2c :: (serObj ((x :: r).map mem ++ t) ++ 0x7d :: tail) := rfl
    simp only [List.map_cons, List.cons_append, mem] at h1 h2 ih ⊢
    rw [h1, h2, ih]
    simp [preCore, serialize]

/-- from the previous member's end: pass `,"K":` and the value -/
theorem advance_prev_to_end (dp kp K sK : Bytes) (post : List (Bytes × JsonVal)) (hkp : bytesCmp kp K = .lt)
    (hK : keyScans K) (hs : valScans sK) :
    ∃ D, advanceTo (atEnd dp kp ((K, .lit sK) :: post) []) (keyLoc .endOfValue K) false =
      .ok (true, atEnd D K post []) := by
  refine ⟨sK.reverse ++ ((0x22 :: K ++ [0x22, 0x3a]).reverse ++ (0x2c :: dp)), ?_⟩
  unfold advanceTo
  have hf : 2 * (atEnd dp kp ((K, JsonVal.lit sK) :: post) []).size + 16 =
      (2 * (atEnd dp kp ((K, JsonVal.lit sK) :: post) []).size + 13) + 1 + 1 + 1 := by omega
  rw [hf, advanceToGo]
  have hc0 : compareLoc (atEnd dp kp ((K, JsonVal.lit sK) :: post) []).path (keyLoc .endOfValue K) = -1 := by
    simpa [atEnd, keyLoc] using cmp_lt .endOfValue .endOfValue kp K hkp
  simp only [hc0, show ((-1 : Int) < 0) from by decide, if_true, adv_next dp kp K sK post [] hK]
  rw [advanceToGo]
  have hc1 : compareLoc (atValue ((0x22 :: K ++ [0x22, 0x3a]).reverse ++ (0x2c :: dp)) K sK post []).path (keyLoc .endOfValue K) = -1 := by
    simpa [atValue, keyLoc] using cmp_start_end K
  simp only [hc1, show ((-1 : Int) < 0) from by decide, if_true, adv_value _ K sK post [] hs]
  rw [advanceToGo]
  have hc2 : compareLoc (atEnd (sK.reverse ++ ((0x22 :: K ++ [0x22, 0x3a]).reverse ++ (0x2c :: dp))) K post []).path (keyLoc .endOfValue K) = 0 := by
    simpa [atEnd, keyLoc] using cmp_end_same K
  simp only [hc2]
  simp

/-- from just after `{`: pass `"K":` and the value -/
theorem advance_brace_to_end (K sK : Bytes) (post : List (Bytes × JsonVal)) (hK : keyScans K) (hs : valScans sK) :
    ∃ D, advanceTo (afterBrace (0x22 :: K ++ 0x22 :: 0x3a :: (sK ++ afterVal post []))) (keyLoc .endOfValue K) false =
      .ok (true, atEnd D K post []) := by
  refine ⟨sK.reverse ++ ((0x22 :: K ++ [0x22, 0x3a]).reverse ++ [0x7b]), ?_⟩
  unfold advanceTo
  have hf : 2 * (afterBrace (0x22 :: K ++ 0x22 :: 0x3a :: (sK ++ afterVal post []))).size + 16 =
      (2 * (afterBrace (0x22 :: K ++ 0x22 :: 0x3a :: (sK ++ afterVal post []))).size + 13) + 1 + 1 + 1 := by omega
  rw [hf, advanceToGo]
  have hc0 : compareLoc (afterBrace (0x22 :: K ++ 0x22 :: 0x3a :: (sK ++ afterVal post []))).path (keyLoc .endOfValue K) = -1 :=
    cmp_root_objInit .endOfValue K (by simp)
  simp only [hc0, show ((-1 : Int) < 0) from by decide, if_true, adv_brace K _ hK sK post [] rfl]
  rw [advanceToGo]
  have hc1 : compareLoc (atValue ((0x22 :: K ++ [0x22, 0x3a]).reverse ++ [0x7b]) K sK post []).path (keyLoc .endOfValue K) = -1 := by
    simpa [atValue, keyLoc] using cmp_start_end K
  simp only [hc1, show ((-1 : Int) < 0) from by decide, if_true, adv_value _ K sK post [] hs]
  rw [advanceToGo]
  have hc2 : compareLoc (atEnd (sK.reverse ++ ((0x22 :: K ++ [0x22, 0x3a]).reverse ++ [0x7b])) K post []).path (keyLoc .endOfValue K) = 0 := by
    simpa [atEnd, keyLoc] using cmp_end_same K
  simp only [hc2]
  simp


theorem serialize_obj_cons (kvs : List (Bytes × JsonVal)) :
    serialize (.obj kvs) = 0x7b :: (serObj kvs ++ [0x7d]) := by simp [serialize]

/-- **remove of an existing member** (first, middle or last): the splice deletes the member and exactly
one adjacent comma -/
theorem iRemove_flat (pre : List (Bytes × Bytes)) (K sK : Bytes) (post : List (Bytes × JsonVal))
    (hpre : FlatPre K pre) (hK : keyScans K) (hs : valScans sK) :
    iRemove (serialize (.obj (membersFrom pre K sK post))) (keyLoc .startOfValue K) =
      .ok (serialize (.obj (pre.map mem ++ post)), true) := by
  obtain ⟨c, hcur, hcase⟩ := scan_remove_cursor pre K sK post hpre hK
  unfold iRemove
  rw [hcur]
  have hkl : (keyLoc .startOfValue K).withState .endOfValue = keyLoc .endOfValue K := rfl
  rcases hcase with ⟨hp, rfl⟩ | ⟨hp, dp, kp, hkp, rfl, htext⟩
  · -- first member: the cursor stands just after `{`
    subst hp
    obtain ⟨D, hadv⟩ := advance_brace_to_end K sK post hK hs
    simp only [hkl, hadv]
    cases post with
    | nil =>
      simp [afterBrace, atEnd, afterVal, Scanner.cur, prefixOf, restOf, doneTail, serialize, serObj]
    | cons kv t =>
      have hser : serialize (.obj (([] : List (Bytes × Bytes)).map mem ++ kv :: t)) = 0x7b :: (serObj (kv :: t) ++ [0x7d]) := by
        simp [serialize]
      rw [hser]
      simp [afterBrace, atEnd, afterVal, Scanner.cur, Scanner.pass, prefixOf, restOf, doneTail]
      cases hh : serObj (kv :: t) ++ [0x7d] with
      | nil => simp at hh
      | cons a r => simp [doneTail]
  · -- a later member: the cursor stands at the end of the previous member's value
    obtain ⟨D, hadv⟩ := advance_prev_to_end dp kp K sK post hkp hK hs
    simp only [hkl, hadv]
    have hni : ¬ ((atEnd dp kp ((K, JsonVal.lit sK) :: post) []).path.st = .objectInitial ∨
        (atEnd dp kp ((K, JsonVal.lit sK) :: post) []).path.st = .arrayInitial) := by simp [atEnd]
    simp only [hni, false_and, if_false]
    -- the text: both documents share everything up to the previous member's value
    have h1 := ser_core ((K, .lit sK) :: post) [] pre hp
    have h2 := ser_core post [] pre hp
    have hdoc : serialize (.obj (membersFrom pre K sK post)) = (0x7b :: preCore pre) ++ afterVal ((K, .lit sK) :: post) [] := by
      simp only [serialize_obj_cons, membersFrom]; simp [h1]
    have hdp : dp.reverse = 0x7b :: preCore pre := List.append_cancel_right (htext.trans hdoc)
    have hnew : serialize (.obj (pre.map mem ++ post)) = (0x7b :: preCore pre) ++ afterVal post [] := by
      simp only [serialize_obj_cons]; simp [h2]
    simp only [prefixOf, restOf, atEnd, hdp, hnew, doneTail_afterVal]

end DoltVerif.JsonDoc
