import DoltVerif.Lemmas.NbsFiles
namespace DoltVerif.NbsFiles

/-- row `k` is the address and its index entry is `(off, len)` -/
def RowEntry (ix : Idx) (a : Addr) (off len : Nat) : Prop :=
  ∃ k, RowIs ix k a ∧ ∃ hk : k < ix.ord.size, indexEntry ix ix.ord[k] = some (off, len)

/-- relation between the requests, the updated requests and the offset records of `findOffsets`:
already-found and absent requests are left alone and produce no record; every other request is marked
found and produces exactly one record — its own address with the index entry of a row that is that
address — in request order. -/
inductive FoRel (ix : Idx) : List GetRec → List GetRec → List OffRec → Prop
  | nil : FoRel ix [] [] []
  | skip {r o rs os recs} : o = r → (r.found = true ∨ ¬ Mem ix r.a) → FoRel ix rs os recs →
      FoRel ix (r :: rs) (o :: os) recs
  | hit {r o rc rs os recs} : r.found = false → o = { r with found := true } → rc.a = r.a →
      RowEntry ix r.a rc.off rc.len → FoRel ix rs os recs → FoRel ix (r :: rs) (o :: os) (rc :: recs)

theorem FoRel.self (ix : Idx) : ∀ (rs : List GetRec), (∀ r ∈ rs, r.found = true ∨ ¬ Mem ix r.a) → FoRel ix rs rs []
  | [], _ => .nil
  | r :: rs, h => .skip rfl (h r (List.mem_cons_self ..)) (FoRel.self ix rs (fun y hy => h y (List.mem_cons_of_mem _ hy)))

theorem findOffsetsGo_spec (ix : Idx) (hwf : WF ix) (hs : SortedArr ix.pfx) :
    ∀ (rs : List GetRec) (fi : Nat) (rem : Bool), fi ≤ ix.pfx.size →
      rs.Pairwise (fun x y => x.a.pre ≤ y.a.pre) →
      (∀ r ∈ rs, ∀ k (hk : k < ix.pfx.size), k < fi → ix.pfx[k] < r.a.pre) →
      ∃ out recs rem', findOffsetsGo ix rs fi rem = some (out, recs, rem') ∧
        FoRel ix rs out recs ∧ (rem = true → rem' = true) ∧
        (rem' = false → ∀ o ∈ out, o.found = true) := by
  intro rs
  induction rs with
  | nil =>
    intro fi rem _ _ _
    exact ⟨[], [], rem, rfl, .nil, id, fun _ o ho => absurd ho (List.not_mem_nil)⟩
  | cons r rs ih =>
    intro fi rem hfi hpw hinv
    have hpw' := (List.pairwise_cons.mp hpw)
    have hinv' : ∀ r' ∈ rs, ∀ k (hk : k < ix.pfx.size), k < fi → ix.pfx[k] < r'.a.pre :=
      fun r' hr' => hinv r' (List.mem_cons_of_mem _ hr')
    rw [findOffsetsGo]
    by_cases hh : r.found = true
    · simp only [hh, if_true]
      obtain ⟨out, recs, rem', h1, h2, h3, h4⟩ := ih fi rem hfi hpw'.2 hinv'
      refine ⟨r :: out, recs, rem', by simp [h1], .skip rfl (Or.inl hh) h2, h3, ?_⟩
      intro hr o ho
      rcases List.mem_cons.mp ho with rfl | ho
      · exact hh
      · exact h4 hr o ho
    · simp only [hh, Bool.false_eq_true, if_false, hfi, dite_true]
      have hf : r.found = false := by cases h : r.found <;> simp_all
      obtain ⟨hge, hlb⟩ := findFrom_spec ix.pfx r.a.pre hs _ fi ix.pfx.size (Nat.le_refl _) rfl hfi
        (hinv r (List.mem_cons_self ..)) (fun k hk h => absurd hk (by omega))
      have hinvT : ∀ r' ∈ rs, ∀ k (hk : k < ix.pfx.size),
          k < findFrom ix.pfx r.a.pre fi ix.pfx.size (Nat.le_refl _) → ix.pfx[k] < r'.a.pre := by
        intro r' hr' k hk hlt
        have := hlb.2.1 k hk hlt
        have := hpw'.1 r' hr'
        omega
      by_cases hlt : findFrom ix.pfx r.a.pre fi ix.pfx.size (Nat.le_refl _) < ix.pfx.size
      · simp only [hlt, dite_true]
        by_cases hne : ix.pfx[findFrom ix.pfx r.a.pre fi ix.pfx.size (Nat.le_refl _)] = r.a.pre
        · simp only [hne, ne_eq, not_true_eq_false, if_false]
          rcases scanRun_spec ix r.a hwf hs _ _ rfl hlb.2.2 with ⟨k, hk1, _, hk3⟩ | ⟨hn1, hn2⟩
          · rw [hk1]
            obtain ⟨hkp, _, _⟩ := id hk3
            have hk2 : k < ix.ord.size := by rw [hwf.ord_size]; exact hkp
            have ho1 : ix.ord[k] < ix.pfx.size := hwf.ord_lt k hk2
            have ho2 : ix.ord[k] < ix.len.size := by rw [hwf.len_size]; exact ho1
            have hent : indexEntry ix ix.ord[k] = some (offsetOf ix ix.ord[k], ix.len[ix.ord[k]]) := by
              simp [indexEntry, Array.getElem?_eq_getElem ho2]
            obtain ⟨out, recs, rem', h1, h2, h3, h4⟩ := ih _ rem hlb.1 hpw'.2 hinvT
            refine ⟨{ r with found := true } :: out, ⟨r.a, offsetOf ix ix.ord[k], ix.len[ix.ord[k]]⟩ :: recs, rem',
              by simp [Array.getElem?_eq_getElem hk2, hent, h1],
              .hit hf rfl rfl ⟨k, hk3, hk2, hent⟩ h2, h3, ?_⟩
            intro hr o ho
            rcases List.mem_cons.mp ho with rfl | ho
            · rfl
            · exact h4 hr o ho
          · rw [hn1]
            have hnm : ¬ Mem ix r.a := by
              intro ⟨k, hrow⟩
              by_cases hk : k < findFrom ix.pfx r.a.pre fi ix.pfx.size (Nat.le_refl _)
              · exact not_rowIs_before ix r.a _ hlb k hk hrow
              · exact hn2 k (by omega) hrow
            obtain ⟨out, recs, rem', h1, h2, h3, h4⟩ := ih _ true hlb.1 hpw'.2 hinvT
            refine ⟨r :: out, recs, rem', by simp [h1], .skip rfl (Or.inr hnm) h2, fun _ => h3 rfl, ?_⟩
            intro hr
            rw [h3 rfl] at hr
            exact absurd hr (by simp)
        · simp only [hne, ne_eq, not_false_eq_true, if_true]
          have hnm : ¬ Mem ix r.a := by
            intro ⟨k, hrow⟩
            by_cases hk : k < findFrom ix.pfx r.a.pre fi ix.pfx.size (Nat.le_refl _)
            · exact not_rowIs_before ix r.a _ hlb k hk hrow
            · obtain ⟨hks, hp, _⟩ := hrow
              have h1 := hs _ k hlt hks (by omega)
              have h2 := hlb.2.2 _ hlt (Nat.le_refl _)
              omega
          obtain ⟨out, recs, rem', h1, h2, h3, h4⟩ := ih _ true hlb.1 hpw'.2 hinvT
          refine ⟨r :: out, recs, rem', by simp [h1], .skip rfl (Or.inr hnm) h2, fun _ => h3 rfl, ?_⟩
          intro hr
          rw [h3 rfl] at hr
          exact absurd hr (by simp)
      · simp only [hlt, dite_false]
        have hall : ∀ r' ∈ r :: rs, r'.found = true ∨ ¬ Mem ix r'.a := by
          intro r' hr'
          right
          intro ⟨k, hks, hp, _⟩
          have h1 := hlb.2.1 k hks (by omega)
          have h2 : r.a.pre ≤ r'.a.pre := by
            rcases List.mem_cons.mp hr' with rfl | hr'
            · exact Nat.le_refl _
            · exact hpw'.1 r' hr'
          omega
        refine ⟨r :: rs, [], true, rfl, FoRel.self ix _ hall, fun _ => rfl, ?_⟩
        intro hr
        exact absurd hr (by simp)

/-! ### the final `sort.Sort(ors)` -/

theorem mem_insertByOff (x y : OffRec) : ∀ l, y ∈ insertByOff x l ↔ y = x ∨ y ∈ l
  | [] => by simp [insertByOff]
  | z :: zs => by
    unfold insertByOff
    split
    · simp
    · simp [mem_insertByOff x y zs]; constructor <;> (intro h; rcases h with h | h | h <;> simp [h])

theorem mem_sortByOff (y : OffRec) : ∀ l, y ∈ sortByOff l ↔ y ∈ l
  | [] => by simp [sortByOff]
  | x :: xs => by simp [sortByOff, mem_insertByOff, mem_sortByOff y xs]

theorem insertByOff_length (x : OffRec) : ∀ l, (insertByOff x l).length = l.length + 1
  | [] => rfl
  | y :: ys => by
    unfold insertByOff
    split
    · rfl
    · simp [insertByOff_length x ys]

theorem sortByOff_length : ∀ l, (sortByOff l).length = l.length
  | [] => rfl
  | x :: xs => by simp [sortByOff, insertByOff_length, sortByOff_length xs]

theorem insertByOff_pairwise (x : OffRec) : ∀ l, l.Pairwise (fun a b => a.off ≤ b.off) →
    (insertByOff x l).Pairwise (fun a b => a.off ≤ b.off)
  | [], _ => by simp [insertByOff]
  | z :: zs, h => by
    have hz := List.pairwise_cons.mp h
    unfold insertByOff
    split
    · rename_i hlt
      refine List.pairwise_cons.mpr ⟨?_, h⟩
      intro b hb
      rcases List.mem_cons.mp hb with rfl | hb
      · omega
      · have := hz.1 b hb; omega
    · rename_i hge
      refine List.pairwise_cons.mpr ⟨?_, insertByOff_pairwise x zs hz.2⟩
      intro b hb
      rcases (mem_insertByOff x b zs).mp hb with rfl | hb
      · omega
      · exact hz.1 b hb

theorem sortByOff_pairwise : ∀ l, (sortByOff l).Pairwise (fun a b => a.off ≤ b.off)
  | [] => by simp [sortByOff]
  | x :: xs => insertByOff_pairwise x _ (sortByOff_pairwise xs)

end DoltVerif.NbsFiles
