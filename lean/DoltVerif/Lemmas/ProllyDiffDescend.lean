import DoltVerif.Lemmas.ProllyDiffLoop
/-!
C13 helper lemmas, part 5: the cursor constructors (`newCursorAtStart`, `newCursorPastEnd`)
produce proper cursors positioned where they should be.
-/
namespace DoltVerif.ProllyDiff

def AllCs (P : Tree → Prop) : List Child → Prop
  | [] => True
  | c :: cs => P c.2.2 ∧ AllCs P cs

theorem AllCs.mem {P : Tree → Prop} : ∀ {cs : List Child}, AllCs P cs → ∀ c ∈ cs, P c.2.2
  | [], _, c, h => by simp at h
  | d :: ds, ha, c, h => by
    simp at h
    rcases h with rfl | h
    · exact ha.1
    · exact AllCs.mem ha.2 c h

mutual
theorem Tree.induct_aux0 {P : Tree → Prop} (hleaf : ∀ kvs, P (.leaf kvs))
    (hnode : ∀ cs : List Child, AllCs P cs → P (.node cs)) : ∀ t, P t
  | .leaf kvs => hleaf kvs
  | .node cs => hnode cs (Tree.induct_cs0 hleaf hnode cs)
theorem Tree.induct_cs0 {P : Tree → Prop} (hleaf : ∀ kvs, P (.leaf kvs))
    (hnode : ∀ cs : List Child, AllCs P cs → P (.node cs)) : ∀ (cs : List Child), AllCs P cs
  | [] => trivial
  | c :: cs => ⟨Tree.induct_aux0 hleaf hnode c.2.2, Tree.induct_cs0 hleaf hnode cs⟩
end

/-- structural induction on Merkle trees -/
theorem Tree.induct_aux {P : Tree → Prop} (hleaf : ∀ kvs, P (.leaf kvs))
    (hnode : ∀ cs : List Child, (∀ c ∈ cs, P c.2.2) → P (.node cs)) : ∀ t, P t :=
  Tree.induct_aux0 hleaf (fun cs h => hnode cs (AllCs.mem h))

theorem descendCs_eq (pick : Tree → Nat) : ∀ (cs : List Child) (i : Nat) (h : i < cs.length),
    descendCs pick cs i = descend pick (cs[i]).2.2
  | [], i, h => by simp at h
  | c :: cs, 0, _ => by simp [descendCs]
  | c :: cs, i + 1, h => by
    simp [descendCs]
    exact descendCs_eq pick cs i (by simpa using h)

theorem descend_node (pick : Tree → Nat) (cs : List Child) (hne : cs ≠ []) :
    ∃ (i : Nat) (hi : i < cs.length), i = min (pick (.node cs)) (cs.length - 1) ∧
      descend pick (.node cs) = descend pick (cs[i]).2.2 ++ [⟨.node cs, i⟩] := by
  have hl : 0 < cs.length := List.length_pos_iff.mpr hne
  refine ⟨min (pick (.node cs)) (cs.length - 1), by omega, rfl, ?_⟩
  simp only [descend]
  rw [descendCs_eq pick cs _ (by omega)]

theorem descend_ne_nil (pick : Tree → Nat) (t : Tree) : descend pick t ≠ [] := by
  cases t with
  | leaf kvs => simp [descend]
  | node cs => simp [descend]

theorem remAbove_snoc : ∀ (c : Cur) (fr : Frame), remAbove (c ++ [fr]) = remAbove c ++ fr.nd.flatFrom (fr.idx + 1)
  | [], fr => by simp [remAbove]
  | f :: c, fr => by simp [remAbove, remAbove_snoc c fr]

theorem rem_snoc {c : Cur} (hne : c ≠ []) (fr : Frame) : rem (c ++ [fr]) = rem c ++ fr.nd.flatFrom (fr.idx + 1) := by
  cases c with
  | nil => simp at hne
  | cons f c => simp [rem, remAbove_snoc]

theorem valid_snoc {c : Cur} (hne : c ≠ []) (fr : Frame) : valid (c ++ [fr]) = valid c := by
  cases c with
  | nil => simp at hne
  | cons f c => simp [valid]

/-- the link between a frame and its parent frame -/
def Link (g fr : Frame) : Prop :=
  ((fr.idx < fr.nd.count ∧ fr.nd.child? fr.idx = some g.nd) ∨ (fr.nd.count ≤ fr.idx ∧ g.nd.count ≤ g.idx)) ∧
  fr.nd.height = g.nd.height + 1

theorem path_snoc : ∀ {c : Cur} (hne : c ≠ []) (fr : Frame), Path c → Link (c.getLast hne) fr → Path (c ++ [fr])
  | [g], _, fr, _, hl => ⟨hl.1, hl.2, trivial⟩
  | g :: g' :: rest, _, fr, hp, hl => by
    refine ⟨hp.1, hp.2.1, ?_⟩
    exact path_snoc (c := g' :: rest) (by simp) fr hp.2.2 (by simpa using hl)

/-- structure of any descent, independent of how the slots are picked -/
structure DescOK (store : Addr → Option Tree) (t : Tree) (c : Cur) : Prop where
  path : Path c
  wf : ∀ f ∈ c, f.nd.WF store
  hts : c.map (·.nd.height) = List.range (t.height + 1)
  root : c.getLast?.map (·.nd) = some t

theorem descend_ok {store} (pick : Tree → Nat) : ∀ t : Tree, t.WF store → DescOK store t (descend pick t) := by
  apply Tree.induct_aux
  · intro kvs hw
    exact ⟨trivial, by simpa [descend] using hw, by simp [descend, Tree.height, List.range_succ], by simp [descend]⟩
  · intro cs ih hw
    have hw' := hw
    simp only [Tree.WF] at hw'
    obtain ⟨i, hi, _, hd⟩ := descend_node pick cs hw'.1
    have hget : cs[i]? = some cs[i] := List.getElem?_eq_getElem hi
    have hc := WFCs_get hw'.2.2 hget
    have hch : (Tree.node cs).child? i = some (cs[i]).2.2 := by simp [Tree.child?, hi]
    have hcw := Tree.WF_child hw hch
    have ihc := ih cs[i] (List.getElem_mem hi) hc.2.2.2
    have hne := descend_ne_nil pick (cs[i]).2.2
    rw [hd]
    refine ⟨?_, ?_, ?_, by simp⟩
    · apply path_snoc hne _ ihc.path
      have hl : ((descend pick (cs[i]).2.2).getLast hne).nd = (cs[i]).2.2 := by
        have := ihc.root
        rw [List.getLast?_eq_some_getLast hne] at this
        simpa using this
      refine ⟨Or.inl ⟨by simpa [Tree.count] using hi, by rw [hl]; exact hch⟩, by rw [hl]; simp; omega⟩
    · intro f hf
      simp at hf
      rcases hf with hf | rfl
      · exact ihc.wf f hf
      · exact hw
    · simp [ihc.hts]
      rw [← hcw.2.1, List.range_succ (n := (cs[i]).2.2.height + 1)]

theorem DescOK.atLeaf {store t c} (h : DescOK store t c) : AtLeaf c := by
  cases c with
  | nil => trivial
  | cons f ps =>
    have := h.hts
    rw [List.range_succ_eq_map] at this
    simp at this
    exact this.1

/-! ### `newCursorAtStart` -/

theorem atStart_rem {store} : ∀ t : Tree, t.WF store →
    rem (cursorAtStart t) = t.flatten ∧ (t.count ≠ 0 → valid (cursorAtStart t) = true) := by
  apply Tree.induct_aux
  · intro kvs _
    refine ⟨by simp [cursorAtStart, descend, rem, remAbove, Tree.flatFrom, Tree.flatten], ?_⟩
    intro h; simp [cursorAtStart, descend, valid, Frame.valid]; simpa [Tree.count] using Nat.pos_of_ne_zero h
  · intro cs ih hw
    have hw' := hw
    simp only [Tree.WF] at hw'
    obtain ⟨i, hi, he, hd⟩ := descend_node (fun _ => 0) cs hw'.1
    have hi0 : i = 0 := by simp at he; exact he
    subst hi0
    have hc := WFCs_get hw'.2.2 (List.getElem?_eq_getElem hi)
    have ihc := ih cs[0] (List.getElem_mem hi) hc.2.2.2
    have hne := descend_ne_nil (fun _ => 0) (cs[0]).2.2
    unfold cursorAtStart at ihc ⊢
    rw [hd]
    refine ⟨?_, fun _ => ?_⟩
    · rw [rem_snoc hne, ihc.1]
      cases cs with
      | nil => simp at hi
      | cons c cs => simp [Tree.flatFrom, Tree.flatten, flattenCs]
    · rw [valid_snoc hne]; exact ihc.2 hc.2.1

theorem WF_count_zero {store} {t : Tree} (hw : t.WF store) (h : t.count = 0) : t = .leaf [] := by
  cases t with
  | leaf kvs => simp [Tree.count] at h; simp [h]
  | node cs => simp [Tree.count] at h; simp only [Tree.WF] at hw; exact absurd h hw.1

theorem atStart_good {store} {t : Tree} (hw : t.WF store) : Good store (cursorAtStart t) := by
  have d := descend_ok (store := store) (fun _ => 0) t hw
  refine ⟨d.path, d.wf, ?_⟩
  intro hv
  by_cases hc : t.count = 0
  · rw [WF_count_zero hw hc]; simp [cursorAtStart, descend, rem, remAbove, Tree.flatFrom]
  · have := (atStart_rem t hw).2 hc
    unfold cursorAtStart at this hv
    rw [this] at hv; simp at hv

/-! ### `newCursorPastEnd` -/

theorem atEnd_rem {store} : ∀ t : Tree, t.WF store → t.count ≠ 0 →
    (rem (cursorAtEnd t)).length = 1 ∧ valid (cursorAtEnd t) = true := by
  apply Tree.induct_aux
  · intro kvs _ h
    have hp : 0 < kvs.length := by simpa [Tree.count] using Nat.pos_of_ne_zero h
    refine ⟨?_, ?_⟩
    · simp [cursorAtEnd, descend, rem, remAbove, Tree.flatFrom, Tree.count]; omega
    · simp only [cursorAtEnd, descend, valid, Frame.valid, Tree.count]; exact decide_eq_true (by omega)
  · intro cs ih hw _
    have hw' := hw
    simp only [Tree.WF] at hw'
    obtain ⟨i, hi, he, hd⟩ := descend_node (fun n => n.count - 1) cs hw'.1
    have hil : i = cs.length - 1 := by simp [Tree.count] at he; exact he
    have hc := WFCs_get hw'.2.2 (List.getElem?_eq_getElem hi)
    have ihc := ih cs[i] (List.getElem_mem hi) hc.2.2.2 hc.2.1
    have hne := descend_ne_nil (fun n => n.count - 1) (cs[i]).2.2
    unfold cursorAtEnd at ihc ⊢
    rw [hd]
    refine ⟨?_, ?_⟩
    · rw [rem_snoc hne, Tree.flatFrom_ge _ _ (by simp [Tree.count]; omega)]
      simpa using ihc.1
    · rw [valid_snoc hne]; exact ihc.2

/-- the stop cursor of a whole-tree diff: proper, nothing remains -/
theorem pastEnd_spec {store} {t : Tree} (hw : t.WF store) :
    Good store (cursorPastEnd t) ∧ rem (cursorPastEnd t) = [] ∧
    (cursorPastEnd t).map (·.nd.height) = List.range (t.height + 1) ∧
    (cursorPastEnd t).getLast?.map (·.nd) = some t := by
  have d := descend_ok (store := store) (fun n => n.count - 1) t hw
  by_cases hc : t.count = 0
  · rw [WF_count_zero hw hc]
    refine ⟨⟨trivial, ?_, ?_⟩, ?_, ?_, ?_⟩ <;>
      simp [cursorPastEnd, cursorAtEnd, descend, advance, Tree.count, rem, remAbove, Tree.flatFrom, Tree.WF, Tree.height,
        List.range_succ]
  · obtain ⟨hl, hv⟩ := atEnd_rem t hw hc
    have hg : Good store (cursorAtEnd t) := ⟨d.path, d.wf, fun h => by unfold cursorAtEnd at hv h; rw [hv] at h; simp at h⟩
    obtain ⟨g, r, hh⟩ := advance_spec _ hg hv
    obtain ⟨kv, _, hi⟩ := curKV_of_valid (d.atLeaf) (by unfold cursorAtEnd at hv; exact hv)
    refine ⟨g, ?_, ?_, ?_⟩
    · unfold cursorAtEnd at r hl
      rw [hi] at r
      rw [r] at hl
      simp at hl
      exact hl
    · unfold cursorPastEnd; rw [hh]; exact d.hts
    · unfold cursorPastEnd; rw [advance_root]; exact d.root

end DoltVerif.ProllyDiff
