import DoltVerif.Lemmas.VcsOpsPatch
import DoltVerif.Model.VcsOpsStep
/-!
A Boolean checker for `Db.WF`, so that the non-vacuity examples next to the property theorems can
discharge the invariant of a concrete database by evaluation.
-/
namespace DoltVerif.VcsOps

def Db.wfb (d : Db) : Bool :=
  sortedb ltStr (keys d.branches) && sortedb ltStr (keys d.wss) &&
  d.commits.all (fun c => rootWFb c.root) &&
  (List.range d.commits.length).all (fun i =>
    match d.commits[i]? with
    | some c => c.parents.all (fun p => decide (p < i))
    | none => true)

theorem Db.wf_of_wfb (d : Db) (h : d.wfb = true) : d.WF := by
  simp only [Db.wfb, Bool.and_eq_true, List.all_eq_true] at h
  obtain ⟨⟨⟨h1, h2⟩, h3⟩, h4⟩ := h
  refine ⟨sorted_of_sortedb _ _ h1, sorted_of_sortedb _ _ h2, ?_, ?_⟩
  · intro i c hc
    exact rootWF_of_b c.root (h3 c (List.mem_of_getElem? hc))
  · intro i c hc p hp
    have hi : i < d.commits.length := (List.getElem?_eq_some_iff.mp hc).1
    have := h4 i (List.mem_range.mpr hi)
    rw [hc] at this
    simp only [List.all_eq_true, decide_eq_true_eq] at this
    exact this p hp

/-- a small history used by the examples: two tables, a branch, a schema change, a merge -/
def exDb : Db :=
  initDb.run [
    .dml (.createTable "t" [⟨"a", .int⟩, ⟨"b", .str⟩]),
    .dml (.insert "t" 1 [.int 10, .str "x"]),
    .dml (.insert "t" 2 [.null, .null]),
    .commit .all "c1",
    .branch "other" ⟨.head, 0⟩,
    .dml (.update "t" 1 [("a", .int 11)]),
    .dml (.addCol "t" ⟨"c", .int⟩),
    .commit .tracked "c2",
    .checkout "other",
    .dml (.insert "t" 3 [.int 30, .str "it's"]),
    .dml (.createTable "u" [⟨"k", .int⟩]),
    .commit .all "c3",
    .checkout "main"]

end DoltVerif.VcsOps
