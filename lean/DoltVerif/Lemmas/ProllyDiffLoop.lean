import DoltVerif.Lemmas.ProllyDiffSkip
/-!
C13 helper lemmas, part 4: the differ loop is the merge walk of the two remaining windows.
The window of a side is cut off by its stop cursor; both stops come from the same key
predicate `below`, which is what makes a stop inside a skipped subtree harmless.
-/
namespace DoltVerif.ProllyDiff

variable {cmp : Bytes → Bytes → Ordering}

def tw (below : Bytes → Bool) (l : List KV) : List KV := l.takeWhile (fun kv => below kv.1)

/-- `R` (what remains at the cursor) relative to `S` (what remains at the stop cursor): either `R`
still has a part before the stop, all of it `below`, or `R` is already inside `S`. -/
def CutOK (below : Bytes → Bool) (S R : List KV) : Prop :=
  (∀ x ∈ S, below x.1 = false) ∧
  ((∃ A, R = A ++ S ∧ ∀ x ∈ A, below x.1 = true) ∨ R <:+ S)

theorem suffix_append_cases {α} : ∀ {A S R' : List α}, R' <:+ A ++ S →
    (∃ A'', A'' <:+ A ∧ R' = A'' ++ S) ∨ R' <:+ S
  | [], S, R', h => Or.inr (by simpa using h)
  | a :: A, S, R', h => by
    rw [List.cons_append, List.suffix_cons_iff] at h
    rcases h with h | h
    · exact Or.inl ⟨a :: A, List.suffix_refl _, by simpa using h⟩
    · rcases suffix_append_cases h with ⟨A'', h1, h2⟩ | h1
      · exact Or.inl ⟨A'', List.IsSuffix.trans h1 (List.suffix_cons a A), h2⟩
      · exact Or.inr h1

theorem CutOK.suffix {below S R R'} (h : CutOK below S R) (hs : R' <:+ R) : CutOK below S R' := by
  refine ⟨h.1, ?_⟩
  rcases h.2 with ⟨A, rfl, hA⟩ | h2
  · rcases suffix_append_cases hs with ⟨A'', h1, h2⟩ | h1
    · exact Or.inl ⟨A'', h2, fun x hx => hA x (h1.subset hx)⟩
    · exact Or.inr h1
  · exact Or.inr (hs.trans h2)

theorem CutOK.active_iff {below S R} (h : CutOK below S R) :
    S.length < R.length ↔ ∃ kv rest, R = kv :: rest ∧ below kv.1 = true := by
  rcases h.2 with ⟨A, rfl, hA⟩ | h2
  · cases A with
    | nil =>
      constructor
      · intro h'; simp at h'
      · rintro ⟨kv, rest, he, hb⟩
        simp at he
        have := h.1 kv (by rw [he]; simp)
        simp [this] at hb
    | cons a A =>
      constructor
      · intro _; exact ⟨a, A ++ S, by simp, hA a (by simp)⟩
      · intro _; simp; omega
  · have hl := h2.length_le
    constructor
    · intro h'; omega
    · rintro ⟨kv, rest, rfl, hb⟩
      have := h.1 kv (h2.subset (by simp))
      simp [this] at hb

theorem CutOK.tw_nil {below S R} (h : CutOK below S R) (hn : ¬ S.length < R.length) : tw below R = [] := by
  cases R with
  | nil => simp [tw]
  | cons kv rest =>
    have := mt h.active_iff.mpr hn
    simp at this
    simp [tw, this]

/-- once not below, never below again (inside the remaining list) -/
theorem CutOK.mono {below S R} (h : CutOK below S R) :
    ∃ A B, R = A ++ B ∧ (∀ x ∈ A, below x.1 = true) ∧ (∀ x ∈ B, below x.1 = false) := by
  rcases h.2 with ⟨A, rfl, hA⟩ | h2
  · exact ⟨A, S, rfl, hA, h.1⟩
  · exact ⟨[], R, by simp, by simp, fun x hx => h.1 x (h2.subset hx)⟩

theorem specDiff_nil_right (cmp) (cam : Bool) (as : List KV) : specDiff cmp cam as [] = as.map Event.removed := by
  cases as <;> simp [specDiff]

theorem specDiff_nil_left (cmp) (cam : Bool) (bs : List KV) : specDiff cmp cam [] bs = bs.map Event.added := by
  simp [specDiff]

theorem tw_mono_split {below} {A B : List KV} (hA : ∀ x ∈ A, below x.1 = true) (hB : ∀ x ∈ B, below x.1 = false) :
    tw below (A ++ B) = A := by
  induction A with
  | nil =>
    cases B with
    | nil => simp [tw]
    | cons b B => simp [tw, hB b (by simp)]
  | cons a A ih =>
    simp only [tw, List.cons_append, List.takeWhile_cons, hA a (by simp), if_true]
    congr 1
    exact ih (fun x hx => hA x (by simp [hx]))

/-- skipping a common prefix does not change the merge walk of the windows -/
theorem specDiff_skip (hrefl : ∀ k, cmp k k = .eq) {below} : ∀ (L X Y : List KV),
    (∃ A B, L ++ X = A ++ B ∧ (∀ x ∈ A, below x.1 = true) ∧ (∀ x ∈ B, below x.1 = false)) →
    (∃ A B, L ++ Y = A ++ B ∧ (∀ x ∈ A, below x.1 = true) ∧ (∀ x ∈ B, below x.1 = false)) →
    specDiff cmp false (tw below (L ++ X)) (tw below (L ++ Y)) = specDiff cmp false (tw below X) (tw below Y)
  | [], X, Y, _, _ => by simp
  | l :: L, X, Y, ⟨A, B, hAB, hA, hB⟩, ⟨A', B', hAB', hA', hB'⟩ => by
    by_cases hb : below l.1 = true
    · -- l is in both windows
      have hX : ∃ A B, L ++ X = A ++ B ∧ (∀ x ∈ A, below x.1 = true) ∧ (∀ x ∈ B, below x.1 = false) := by
        cases A with
        | nil =>
          simp at hAB; have := hB l (by rw [← hAB]; simp); simp [this] at hb
        | cons a A =>
          simp at hAB
          exact ⟨A, B, hAB.2, fun x hx => hA x (by simp [hx]), hB⟩
      have hY : ∃ A B, L ++ Y = A ++ B ∧ (∀ x ∈ A, below x.1 = true) ∧ (∀ x ∈ B, below x.1 = false) := by
        cases A' with
        | nil =>
          simp at hAB'; have := hB' l (by rw [← hAB']; simp); simp [this] at hb
        | cons a A' =>
          simp at hAB'
          exact ⟨A', B', hAB'.2, fun x hx => hA' x (by simp [hx]), hB'⟩
      have ih := specDiff_skip hrefl L X Y hX hY
      simp only [tw, List.cons_append, List.takeWhile_cons, hb, if_true] at ih ⊢
      rw [specDiff]
      simp [hrefl, ih]
    · -- l is outside: both windows are empty, and so are the windows after it
      simp at hb
      have hnone : ∀ {Z A B}, l :: (L ++ Z) = A ++ B → (∀ x ∈ A, below x.1 = true) → (∀ x ∈ B, below x.1 = false) →
          tw below Z = [] := by
        intro Z A B h1 h2 h3
        cases A with
        | nil =>
          simp at h1
          cases Z with
          | nil => simp [tw]
          | cons z Z => simp [tw, h3 z (by rw [← h1]; simp)]
        | cons a A =>
          simp at h1
          have := h2 a (by simp); rw [← h1.1, hb] at this; simp at this
      have e1 := hnone (by simpa using hAB) hA hB
      have e2 := hnone (by simpa using hAB') hA' hB'
      simp [tw, hb] at e1 e2 ⊢
      simp [tw, e1, e2, specDiff]

/-- everything the loop needs to know about one side -/
structure Side (store : Addr → Option Tree) (below : Bytes → Bool) (c stop : Cur) : Prop where
  gc : Good store c
  gs : Good store stop
  leaf : AtLeaf c
  /-- same tree, same height as the stop cursor (only needed while the cursor is valid; the nil
  cursor `&cursor{}` of an empty tree has no frames at all) -/
  lr : valid c = true → c.map (·.nd.height) = stop.map (·.nd.height) ∧
    c.getLast?.map (·.nd) = stop.getLast?.map (·.nd)
  cut : CutOK below (rem stop) (rem c)

theorem Side.act_iff {store below c stop} (h : Side store below c stop) :
    ProllyDiff.active c stop = true ↔ ∃ kv rest, rem c = kv :: rest ∧ below kv.1 = true := by
  by_cases hv : valid c = true
  · rw [ProllyDiff.active_iff h.gc h.gs h.leaf (heights_len (h.lr hv).1) (h.lr hv).2]
    exact h.cut.active_iff
  · simp at hv
    simp [ProllyDiff.active, hv, h.gc.exh hv]

theorem atLeaf_of_heights {c d : Cur} (h : d.map (·.nd.height) = c.map (·.nd.height)) (hl : AtLeaf c) : AtLeaf d := by
  cases c with
  | nil => cases d with
    | nil => trivial
    | cons _ _ => simp at h
  | cons f ps => cases d with
    | nil => trivial
    | cons g qs => simp at h; simp [AtLeaf] at hl ⊢; omega

theorem curKV_of_valid {c : Cur} (hl : AtLeaf c) (hv : valid c = true) :
    ∃ kv, curKV c = some kv ∧ curItemFlat c = [kv] := by
  cases c with
  | nil => simp [valid] at hv
  | cons f ps =>
    simp [valid_cons] at hv
    simp only [AtLeaf] at hl
    cases hn : f.nd with
    | leaf kvs =>
      rw [hn] at hv; simp [Tree.count] at hv
      exact ⟨kvs[f.idx], by simp [curKV, hn, Tree.kv?, hv], by simp [curItemFlat, hn, Tree.itemFlat, hv]⟩
    | node cs => rw [hn] at hl; simp [Tree.height] at hl

/-- advancing an active side: the head pair is passed, the side stays a side -/
theorem Side.step {store below c stop} (h : Side store below c stop) (ha : ProllyDiff.active c stop = true) :
    ∃ kv, curKV c = some kv ∧ below kv.1 = true ∧ rem c = kv :: rem (advance c) ∧ Side store below (advance c) stop := by
  have hv : valid c = true := by simp [ProllyDiff.active] at ha; exact ha.1
  obtain ⟨kv, hk, hi⟩ := curKV_of_valid h.leaf hv
  obtain ⟨g, r, hh⟩ := advance_spec c h.gc hv
  rw [hi] at r
  obtain ⟨kv', rest, he, hb⟩ := h.act_iff.mp ha
  have : kv' = kv := by rw [r] at he; simp at he; exact he.1.symm
  subst this
  refine ⟨kv', hk, hb, by simpa using r, ⟨g, h.gs, atLeaf_of_heights hh h.leaf,
    fun _ => ⟨by rw [hh, (h.lr hv).1], by rw [advance_root, (h.lr hv).2]⟩, ?_⟩⟩
  exact h.cut.suffix (by rw [r]; exact List.suffix_cons _ _)

theorem Side.inactive {store below c stop} (h : Side store below c stop) (ha : ProllyDiff.active c stop = false) :
    tw below (rem c) = [] := by
  by_cases hv : valid c = true
  · apply h.cut.tw_nil
    rw [← ProllyDiff.active_iff h.gc h.gs h.leaf (heights_len (h.lr hv).1) (h.lr hv).2]
    simp [ha]
  · simp at hv
    simp [h.gc.exh hv, tw]

theorem tw_cons_true {below} {kv : KV} {l : List KV} (h : below kv.1 = true) : tw below (kv :: l) = kv :: tw below l := by
  simp [tw, h]

/-- the differ loop = merge walk of the two windows -/
theorem diffLoop_spec {store below} (hrefl : ∀ k, cmp k k = .eq) (cam : Bool) (sfuel : Nat) :
    ∀ (fuel : Nat) (f t fs ts : Cur) (evs : List Event),
    Side store below f fs → Side store below t ts →
    diffLoop cmp cam sfuel fuel f t fs ts = some evs →
    evs = specDiff cmp cam (tw below (rem f)) (tw below (rem t))
  | 0, _, _, _, _, _, _, _, h => by simp [diffLoop] at h
  | fuel + 1, f, t, fs, ts, evs, sf, st, h => by
    unfold diffLoop at h
    split at h
    · rename_i hact
      simp at hact
      obtain ⟨a, hka, hba, hra, sfa⟩ := sf.step hact.1
      obtain ⟨b, hkb, hbb, hrb, stb⟩ := st.step hact.2
      rw [hka, hkb] at h
      simp only [] at h
      rw [hra, hrb, tw_cons_true hba, tw_cons_true hbb, specDiff]
      split at h
      · rename_i hc
        cases hr : diffLoop cmp cam sfuel fuel (advance f) t fs ts with
        | none => simp [hr] at h
        | some evs' =>
          simp [hr] at h
          have := diffLoop_spec hrefl cam sfuel fuel _ _ _ _ evs' sfa st hr
          rw [← h, this, hrb, tw_cons_true hbb]
      · rename_i hc
        cases hr : diffLoop cmp cam sfuel fuel f (advance t) fs ts with
        | none => simp [hr] at h
        | some evs' =>
          simp [hr] at h
          have := diffLoop_spec hrefl cam sfuel fuel _ _ _ _ evs' sf stb hr
          rw [← h, this, hra, tw_cons_true hba]
      · rename_i hc
        split at h
        · rename_i hm
          cases hr : diffLoop cmp cam sfuel fuel (advance f) (advance t) fs ts with
          | none => simp [hr] at h
          | some evs' =>
            simp [hr] at h
            have := diffLoop_spec hrefl cam sfuel fuel _ _ _ _ evs' sfa stb hr
            rw [← h, this]; simp [hm]
        · rename_i hm
          simp at hm
          split at h
          · simp at h
          · rename_i f' t' hsk
            have sp := skipCommon_spec sfuel _ _ true f' t' sfa.gc stb.gc hsk
            obtain ⟨L, hLf, hLt, _⟩ := sp.common
            have hvf : valid f = true := by have := hact.1; simp [ProllyDiff.active] at this; exact this.1
            have hvt : valid t = true := by have := hact.2; simp [ProllyDiff.active] at this; exact this.1
            obtain ⟨_, _, hha⟩ := advance_spec f sf.gc hvf
            obtain ⟨_, _, hhb⟩ := advance_spec t st.gc hvt
            have sf' : Side store below f' fs :=
              ⟨sp.gf, sf.gs, atLeaf_of_heights sp.hf sfa.leaf,
                fun _ => ⟨by rw [sp.hf, hha, (sf.lr hvf).1], by rw [sp.rf, advance_root, (sf.lr hvf).2]⟩,
                sfa.cut.suffix (by rw [hLf]; exact List.suffix_append _ _)⟩
            have st' : Side store below t' ts :=
              ⟨sp.gt, st.gs, atLeaf_of_heights sp.ht stb.leaf,
                fun _ => ⟨by rw [sp.ht, hhb, (st.lr hvt).1], by rw [sp.rt, advance_root, (st.lr hvt).2]⟩,
                stb.cut.suffix (by rw [hLt]; exact List.suffix_append _ _)⟩
            have ih := diffLoop_spec hrefl cam sfuel fuel _ _ _ _ evs sf' st' h
            rw [ih, hm.1]
            have m1 := sfa.cut.mono
            have m2 := stb.cut.mono
            rw [hLf] at m1; rw [hLt] at m2
            rw [hLf, hLt]
            simp [hm.2]
            exact (specDiff_skip hrefl L _ _ m1 m2).symm
    · rename_i hact
      split at h
      · rename_i ha
        have hb : active t ts = false := by
          simp [ha] at hact; exact hact
        obtain ⟨a, hka, hba, hra, sfa⟩ := sf.step ha
        rw [hka] at h
        simp only [] at h
        cases hr : diffLoop cmp cam sfuel fuel (advance f) t fs ts with
        | none => simp [hr] at h
        | some evs' =>
          simp [hr] at h
          have := diffLoop_spec hrefl cam sfuel fuel _ _ _ _ evs' sfa st hr
          rw [← h, this, hra, tw_cons_true hba, st.inactive hb, specDiff_nil_right, specDiff_nil_right]
          simp
      · rename_i ha
        simp at ha
        split at h
        · rename_i hb
          obtain ⟨b, hkb, hbb, hrb, stb⟩ := st.step hb
          rw [hkb] at h
          simp only [] at h
          cases hr : diffLoop cmp cam sfuel fuel f (advance t) fs ts with
          | none => simp [hr] at h
          | some evs' =>
            simp [hr] at h
            have := diffLoop_spec hrefl cam sfuel fuel _ _ _ _ evs' sf stb hr
            rw [← h, this, hrb, tw_cons_true hbb, sf.inactive ha, specDiff_nil_left, specDiff_nil_left]
            simp
        · rename_i hb
          simp at hb h
          rw [h, sf.inactive ha, st.inactive hb]
          simp [specDiff]

end DoltVerif.ProllyDiff
