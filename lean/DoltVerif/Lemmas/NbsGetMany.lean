import DoltVerif.Lemmas.NbsTable
import DoltVerif.Lemmas.NbsFindOffsets
namespace DoltVerif.NbsFiles

theorem readCompressed_slice (c : Codec) (hc : c.Ok) (file : Bytes) (off : Nat) (d : Bytes)
    (hlen : off + (record c d).length ≤ file.length)
    (hb : (file.drop off).take (record c d).length = record c d) :
    readCompressed c file off (record c d).length = .ok (c.cmp d) := by
  have hrl : (record c d).length = (c.cmp d).length + checksumSize := by simp [record, beBytes_length]
  unfold readCompressed
  have h1 : ¬ (file.length < off + (record c d).length) := by omega
  have h2 : ¬ ((record c d).length < checksumSize) := by omega
  simp only [h1, h2, if_false, hb]
  have hk : (record c d).length - checksumSize = (c.cmp d).length := by omega
  have ht : (record c d).take ((record c d).length - checksumSize) = c.cmp d := by
    rw [hk]; exact take_append_len _ _ _ rfl
  have hdr : (record c d).drop ((record c d).length - checksumSize) = beBytes checksumSize (c.crc (c.cmp d)) := by
    rw [hk]; exact drop_append_len _ _ _ rfl
  simp [ht, hdr, beVal_beBytes _ _ (hc.crc_lt _)]

/-- an index entry of a row that is address `a` is the record of a written chunk with address `a` -/
theorem rowEntry_chunk (c : Codec) (chunks : List Chunk) (ix : Idx) (hix : IsIndexOf ix (chunks.map (recOf c)))
    (a : Addr) (off len : Nat) (h : RowEntry ix a off len) :
    ∃ o, ∃ ho : o < chunks.length, (chunks[o]).a = a ∧ off = offsetIn (chunks.map (recOf c)) o ∧
      len = (record c (chunks[o]).data).length := by
  obtain ⟨k, ⟨hkp, hp, hsf⟩, hk2, hent⟩ := h
  obtain ⟨ho, hpre⟩ := hix.tuple_ok k hkp hk2
  have ho' : ix.ord[k] < chunks.length := by simpa using ho
  rw [hix.rowSuf k hk2 ho] at hsf
  have hl : ix.len[ix.ord[k]]? = some (record c (chunks[ix.ord[k]]).data).length := by
    rw [hix.len]; simp [ho', recOf]
  have hof : offsetOf ix ix.ord[k] = offsetIn (chunks.map (recOf c)) ix.ord[k] := by
    simp [offsetOf, offsetIn, hix.len]
  simp only [indexEntry, hl, hof, Option.some.injEq, Prod.mk.injEq] at hent
  refine ⟨ix.ord[k], ho', ?_, hent.1.symm, hent.2.symm⟩
  have h1 : (chunks[ix.ord[k]]).a.pre = a.pre := by
    have : ((chunks.map (recOf c))[ix.ord[k]]).a.pre = (chunks[ix.ord[k]]).a.pre := by simp [recOf]
    rw [← this, hpre, hp]
  have h2 : (chunks[ix.ord[k]]).a.suf = a.suf := by
    have := Option.some.inj hsf
    simpa [recOf] using this
  cases hc : (chunks[ix.ord[k]]).a
  cases a
  simp_all

/-- reading a list of located records both ways -/
theorem read_recs (c : Codec) (hc : c.Ok) (chunks : List Chunk) (ix : Idx)
    (hix : IsIndexOf ix (chunks.map (recOf c))) (tail : Bytes) :
    ∀ (recs : List OffRec), (∀ r ∈ recs, RowEntry ix r.a r.off r.len) →
      ∃ L : List (Addr × Bytes),
        recs.mapM (fun r => (readDecoded c (recordsOf c chunks ++ tail) r.off r.len).map (fun d => (r.a, d))) = .ok L ∧
        recs.mapM (fun r => (readCompressed c (recordsOf c chunks ++ tail) r.off r.len).map (fun z => (r.a, z)))
          = .ok (L.map (fun p => (p.1, c.cmp p.2))) ∧
        L.map (·.1) = recs.map (·.a) ∧ ∀ p ∈ L, ∃ ch ∈ chunks, p = (ch.a, ch.data)
  | [], _ => ⟨[], rfl, rfl, rfl, fun _ h => absurd h (by simp)⟩
  | r :: rest, h => by
    obtain ⟨L, h1, h2, h3, h4⟩ := read_recs c hc chunks ix hix tail rest (fun x hx => h x (List.mem_cons_of_mem _ hx))
    obtain ⟨o, ho, ha, hoff, hlen⟩ := rowEntry_chunk c chunks ix hix r.a r.off r.len (h r (List.mem_cons_self ..))
    have hoffE : offsetIn (chunks.map (recOf c)) o =
        ((chunks.map (fun ch => (record c ch.data).length)).take o).foldl (· + ·) 0 := by
      unfold offsetIn; rw [recs_len_map]
    have hcmp : readCompressed c (recordsOf c chunks ++ tail) r.off r.len = .ok (c.cmp (chunks[o]).data) := by
      rw [hoff, hlen, hoffE]
      apply readCompressed_slice c hc
      · have := slice_end (fun ch : Chunk => record c ch.data) chunks o ho
        simp only [recordsOf, List.length_append]; omega
      · exact slice_flatMap (fun ch : Chunk => record c ch.data) chunks o ho tail
    have hdec : readDecoded c (recordsOf c chunks ++ tail) r.off r.len = .ok (chunks[o]).data := by
      simp [readDecoded, hcmp, hc.dec_cmp]
    refine ⟨(r.a, (chunks[o]).data) :: L, ?_, ?_, by simp [h3], ?_⟩
    · simp only [List.mapM_cons, hdec, h1]; rfl
    · simp only [List.mapM_cons, hcmp, h2]; rfl
    · intro p hp
      rcases List.mem_cons.mp hp with rfl | hp
      · exact ⟨chunks[o], List.getElem_mem ho, by rw [ha]⟩
      · exact h4 p hp

theorem foRel_entries (ix : Idx) : ∀ (rs out : List GetRec) (recs : List OffRec), FoRel ix rs out recs →
    ∀ r ∈ recs, RowEntry ix r.a r.off r.len
  | _, _, _, .nil => fun _ h => absurd h (by simp)
  | _, _, _, .skip _ _ t => foRel_entries ix _ _ _ t
  | _, _, _, .hit _ _ ha he t => by
    intro r hr
    rcases List.mem_cons.mp hr with rfl | hr
    · rw [ha]; exact he
    · exact foRel_entries ix _ _ _ t r hr

end DoltVerif.NbsFiles
