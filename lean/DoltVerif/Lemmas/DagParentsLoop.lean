import DoltVerif.Lemmas.DagParentsWalk
/-! Merge bases (family Dag, C19): correctness of `viaParentsLoop` for all reachable graphs. -/
namespace DoltVerif.Dag

def Common (g : Graph) (c1 c2 a : Addr) : Prop := AncStar g a c1 ∧ AncStar g a c2

theorem ancStar_stored {g : Graph} (hi : Inv g) {a c : Addr} (h : AncStar g a c) : ∃ ac, lookup g a = some ac := by
  rcases h with ⟨e, hs⟩ | h
  · subst e
    cases hl : lookup g a with
    | none => rw [hl] at hs; cases hs
    | some ac => exact ⟨ac, rfl⟩
  · exact anc_stored hi h

/-- what the parents-list walk returns: a common ancestor of maximal height, the one with the
smallest address among those; nothing only if there is no common ancestor -/
def ParentsSpec (g : Graph) (c1 c2 : Addr) : Option Addr → Prop
  | some a => ∃ ac, lookup g a = some ac ∧ Common g c1 c2 a ∧
      ∀ b bc, Common g c1 c2 b → lookup g b = some bc → bc.height < ac.height ∨ (bc.height = ac.height ∧ a ≤ b)
  | none => ∀ a, ¬ Common g c1 c2 a

theorem inAncStar_height {g : Graph} (hi : Inv g) {Q : List Commit} {c : Addr} (hq : QOk g Q c) {b : Addr} {bc : Commit}
    (hb : InAncStar g Q b) (hl : lookup g b = some bc) :
    bc.height ≤ maxH Q ∧ (bc.height = maxH Q → ∃ q ∈ Q, q.height = maxH Q ∧ q.addr = b) := by
  obtain ⟨q, hqm, haq⟩ := hb
  have h1 := ancStar_stored_height hi (hq q hqm).1 haq hl
  have h2 := maxH_ge hqm
  refine ⟨Nat.le_trans h1.1 h2, ?_⟩
  intro he
  have : bc.height = q.height := by omega
  exact ⟨q, hqm, by omega, (h1.2 this).symm⟩

theorem loop_spec {g : Graph} (hi : Inv g) {c1 c2 : Addr} : ∀ (n : Nat) (Q1 Q2 : List Commit),
    QOk g Q1 c1 → QOk g Q2 c2 →
    (∀ a, Common g c1 c2 a → InAncStar g Q1 a ∧ InAncStar g Q2 a) →
    max (maxH Q1) (maxH Q2) < n →
    ∃ r, viaParentsLoop g n Q1 Q2 = .ok r ∧ ParentsSpec g c1 c2 r
  | 0, _, _, _, _, _, hf => by omega
  | n + 1, Q1, Q2, hq1, hq2, hcov, hf => by
    unfold viaParentsLoop
    by_cases hemp : (Q1.isEmpty || Q2.isEmpty) = true
    · rw [if_pos hemp]
      refine ⟨none, rfl, ?_⟩
      intro a hca
      obtain ⟨⟨q1, hm1, _⟩, ⟨q2, hm2, _⟩⟩ := hcov a hca
      rcases Bool.or_eq_true_iff.1 hemp with h | h
      · rw [List.isEmpty_iff] at h; subst h; cases hm1
      · rw [List.isEmpty_iff] at h; subst h; cases hm2
    · rw [if_neg hemp]
      have hne1 : Q1 ≠ [] := by
        intro h; subst h; simp at hemp
      have hne2 : Q2 ≠ [] := by
        intro h; subst h; simp at hemp
      dsimp only
      obtain ⟨Q1', e1, hq1', hcov1, hlt1⟩ := pop_push hi hq1 hne1
      obtain ⟨Q2', e2, hq2', hcov2, hlt2⟩ := pop_push hi hq2 hne2
      by_cases heq : maxH Q1 = maxH Q2
      · rw [if_pos heq]
        have hs := findCommonCommit_spec (Q1.filter (fun c => c.height == maxH Q1)) (Q2.filter (fun c => c.height == maxH Q2))
        cases ef : findCommonCommit (Q1.filter (fun c => c.height == maxH Q1)) (Q2.filter (fun c => c.height == maxH Q2)) with
        | some a =>
          refine ⟨some a, rfl, ?_⟩
          obtain ⟨⟨p1, hp1, ea1⟩, ⟨p2, hp2, ea2⟩, hmin⟩ := hs.2 a ef
          have hm1 := List.mem_filter.1 hp1
          have hm2 := List.mem_filter.1 hp2
          have hh1 : p1.height = maxH Q1 := by simpa using hm1.2
          have hst1 := (hq1 p1 hm1.1).1
          refine ⟨p1, by rw [← ea1]; exact hst1, ⟨by rw [← ea1]; exact (hq1 p1 hm1.1).2, by rw [← ea2]; exact (hq2 p2 hm2.1).2⟩, ?_⟩
          intro b bc hcb hlb
          obtain ⟨hb1, hb2⟩ := hcov b hcb
          have i1 := inAncStar_height hi hq1 hb1 hlb
          have i2 := inAncStar_height hi hq2 hb2 hlb
          by_cases hbh : bc.height = maxH Q1
          · right
            refine ⟨by omega, ?_⟩
            obtain ⟨r1, hr1, hrh1, hra1⟩ := i1.2 hbh
            obtain ⟨r2, hr2, hrh2, hra2⟩ := i2.2 (by omega)
            have := hmin r1 (List.mem_filter.2 ⟨hr1, by simpa using hrh1⟩) r2 (List.mem_filter.2 ⟨hr2, by simpa using hrh2⟩) (by rw [hra1, hra2])
            rw [hra1] at this
            exact this
          · left; omega
        | none =>
          dsimp only
          rw [e1, e2]
          dsimp only
          have hnone := hs.1 ef
          have hcov' : ∀ a, Common g c1 c2 a → InAncStar g Q1' a ∧ InAncStar g Q2' a := by
            intro a hca
            obtain ⟨ha1, ha2⟩ := hcov a hca
            obtain ⟨ac, hla⟩ := ancStar_stored hi hca.1
            have i1 := inAncStar_height hi hq1 ha1 hla
            have i2 := inAncStar_height hi hq2 ha2 hla
            -- `a` cannot sit at the popped level of both queues (no common commit there)
            have hnot : ac.height ≠ maxH Q1 := by
              intro hh
              obtain ⟨r1, hr1, hrh1, hra1⟩ := i1.2 hh
              obtain ⟨r2, hr2, hrh2, hra2⟩ := i2.2 (by omega)
              exact hnone r1 (List.mem_filter.2 ⟨hr1, by simpa using hrh1⟩) r2 (List.mem_filter.2 ⟨hr2, by simpa using hrh2⟩) (by rw [hra1, hra2])
            refine ⟨hcov1 a ha1 ?_, hcov2 a ha2 ?_⟩
            · intro p hp hph hpa
              have := (hq1 p hp).1
              unfold Stored at this
              rw [hpa, hla] at this
              cases this
              exact hnot hph
            · intro p hp hph hpa
              have := (hq2 p hp).1
              unfold Stored at this
              rw [hpa, hla] at this
              cases this
              exact hnot (by omega)
          exact loop_spec hi n Q1' Q2' hq1' hq2' hcov' (by omega)
      · rw [if_neg heq]
        by_cases hgt : maxH Q1 > maxH Q2
        · rw [if_pos hgt, e1]
          dsimp only
          have hcov' : ∀ a, Common g c1 c2 a → InAncStar g Q1' a ∧ InAncStar g Q2 a := by
            intro a hca
            obtain ⟨ha1, ha2⟩ := hcov a hca
            obtain ⟨ac, hla⟩ := ancStar_stored hi hca.1
            have i2 := inAncStar_height hi hq2 ha2 hla
            refine ⟨hcov1 a ha1 ?_, ha2⟩
            intro p hp hph hpa
            have := (hq1 p hp).1
            unfold Stored at this
            rw [hpa, hla] at this
            cases this
            omega
          exact loop_spec hi n Q1' Q2 hq1' hq2 hcov' (by omega)
        · rw [if_neg hgt, e2]
          dsimp only
          have hcov' : ∀ a, Common g c1 c2 a → InAncStar g Q1 a ∧ InAncStar g Q2' a := by
            intro a hca
            obtain ⟨ha1, ha2⟩ := hcov a hca
            obtain ⟨ac, hla⟩ := ancStar_stored hi hca.1
            have i1 := inAncStar_height hi hq1 ha1 hla
            refine ⟨ha1, hcov2 a ha2 ?_⟩
            intro p hp hph hpa
            have := (hq2 p hp).1
            unfold Stored at this
            rw [hpa, hla] at this
            cases this
            omega
          exact loop_spec hi n Q1 Q2' hq1 hq2' hcov' (by omega)

/-- `findCommonAncestorUsingParentsList` on two stored commits never fails and returns the
highest common ancestor with the smallest address (none iff there is no common ancestor). -/
theorem viaParents_spec {g : Graph} (hi : Inv g) {c1 c2 : Commit} (h1 : c1 ∈ g) (h2 : c2 ∈ g) :
    ∃ r, viaParents g c1 c2 = .ok r ∧ ParentsSpec g c1.addr c2.addr r := by
  have s1 := lookup_self_of_inv hi h1
  have s2 := lookup_self_of_inv hi h2
  unfold viaParents
  apply loop_spec hi
  · intro q hq
    cases hq with
    | head => exact ⟨s1, .inl ⟨rfl, by rw [s1]; rfl⟩⟩
    | tail _ h => cases h
  · intro q hq
    cases hq with
    | head => exact ⟨s2, .inl ⟨rfl, by rw [s2]; rfl⟩⟩
    | tail _ h => cases h
  · intro a hca
    exact ⟨⟨c1, List.mem_cons_self, hca.1⟩, ⟨c2, List.mem_cons_self, hca.2⟩⟩
  · have e1 : maxH [c1] ≤ c1.height := maxH_le (by intro q hq; cases hq with | head => exact Nat.le_refl _ | tail _ h => cases h)
    have e2 : maxH [c2] ≤ c2.height := maxH_le (by intro q hq; cases hq with | head => exact Nat.le_refl _ | tail _ h => cases h)
    omega

end DoltVerif.Dag
