import DoltVerif.Lemmas.CorruptArchive
/-! C10 helper lemmas: the journal record scan does not panic under the field-layout guard
`readJournalRecord` lacks. -/
namespace DoltVerif.Corrupt.Journal
open DoltVerif.Corrupt
set_option linter.unusedSimpArgs false

/-- the field-layout check `readJournalRecord` lacks (decidable): walking the tags, an address
field has its 20 bytes, a timestamp field its 8, and the walk ends on exactly the 4 checksum bytes.
An unknown tag is fine (an error, not a panic). -/
def fieldsOk : Nat → Bytes → Bool
  | 0, _ => false
  | fuel + 1, buf =>
    if buf.length > checksumSz then
      match buf with
      | [] => false
      | tag :: b1 =>
        if tag.toNat == kindTag then
          match b1 with
          | [] => false
          | _ :: b2 => fieldsOk fuel b2
        else if tag.toNat == addrTag then
          if b1.length < addrSz then false else fieldsOk fuel (b1.drop addrSz)
        else if tag.toNat == timestampTag then
          if b1.length < timestampSz then false else fieldsOk fuel (b1.drop timestampSz)
        else if tag.toNat == payloadTag then fieldsOk fuel (b1.drop (b1.length - checksumSz))
        else true
    else buf.length == checksumSz

theorem readLoop_no_panic : ∀ (fuel : Nat) (buf : Bytes) (extra : Nat) (r : Rec),
    fieldsOk fuel buf = true → readLoop fuel buf extra r ≠ .error .panicWouldOccur
  | 0, _, _, _, h => by simp [fieldsOk] at h
  | fuel + 1, buf, extra, r, h => by
    unfold readLoop
    unfold fieldsOk at h
    by_cases hl : buf.length > checksumSz
    · simp only [hl, if_true] at h ⊢
      match buf, h with
      | tag :: b1, h =>
        simp only [] at h ⊢
        by_cases h1 : (tag.toNat == kindTag) = true
        · simp only [h1, if_true] at h ⊢
          match b1, h with
          | k :: b2, h => exact readLoop_no_panic fuel b2 extra _ h
        · simp only [h1, if_false] at h ⊢
          by_cases h2 : (tag.toNat == addrTag) = true
          · simp only [h2, if_true] at h ⊢
            by_cases hs : b1.length < addrSz
            · simp [hs] at h
            · simp only [hs, if_false] at h ⊢
              exact readLoop_no_panic fuel _ extra _ h
          · simp only [h2, if_false] at h ⊢
            by_cases h3 : (tag.toNat == timestampTag) = true
            · simp only [h3, if_true] at h ⊢
              by_cases hs : b1.length < timestampSz
              · simp [hs] at h
              · simp only [hs, if_false] at h ⊢
                exact readLoop_no_panic fuel _ extra _ h
            · simp only [h3, if_false] at h ⊢
              by_cases h4 : (tag.toNat == payloadTag) = true
              · simp only [h4, if_true] at h ⊢
                exact readLoop_no_panic fuel _ extra _ h
              · simp only [h4, if_false]
                intro hc; cases hc
    · simp only [hl, if_false] at h ⊢
      have : buf.length = checksumSz := by simpa using h
      have hc : checksumSz ≤ buf.length + extra := by omega
      simp only [hc, if_true]
      intro hcc; cases hcc

theorem sub32_four {n : Nat} (h4 : 4 ≤ n) (hlt : n < two32) : sub32 n checksumSz = n - 4 := by
  unfold sub32 checksumSz
  have e4 : 4 % two32 = 4 := by decide
  rw [e4]
  have : n + two32 - 4 = (n - 4) + two32 := by omega
  rw [this, Nat.add_mod_right]
  exact Nat.mod_eq_of_lt (by omega)

/-- `validateJournalRecord` does not panic when the length field equals the buffer length — which is
how `processJournalRecordsReader` and `possibleDataLossCheck` call it -/
theorem validate_no_panic {buf : Bytes} (extra : Nat) (h : buf.length < 8 ∨ beNat (buf.take 4) = buf.length) :
    ∃ b, validate buf extra = .ok b := by
  unfold validate
  by_cases h8 : buf.length < lenSz + checksumSz
  · rw [if_pos h8]; exact ⟨_, rfl⟩
  · rw [if_neg h8]
    have h8' : 8 ≤ buf.length := by simp [lenSz, checksumSz] at h8; omega
    have hl : beNat (buf.take 4) = buf.length := by
      rcases h with h | h
      · omega
      · exact h
    have hb : be32 buf = .ok buf.length := by rw [be32_ok (by omega), hl]
    have h32 : buf.length < two32 := by
      rw [← hl]
      have := Archive.beNat_lt (buf.take 4)
      have hl4 : (buf.take 4).length ≤ 4 := by simp [List.length_take]; omega
      calc beNat (buf.take 4) < 256 ^ (buf.take 4).length := this
        _ ≤ 256 ^ 4 := Nat.pow_le_pow_right (by decide) hl4
        _ = two32 := by decide
    have hs := @sub32_four buf.length (by omega) h32
    rw [hb]
    dsimp only
    rw [if_neg (by omega : ¬ buf.length > buf.length), hs]
    have hle : ¬ ¬ (buf.length - 4 ≤ buf.length + extra) := fun hc => hc (by omega)
    rw [if_neg hle, goSliceFrom_ok (by omega)]
    dsimp only
    have hl4 : 4 ≤ ((buf.drop (0 + (buf.length - 4))).take (buf.length - (buf.length - 4))).length := by
      simp [List.length_take, List.length_drop]; omega
    rw [be32_ok hl4]
    exact ⟨_, rfl⟩

theorem validate_true_len {buf : Bytes} {extra : Nat} (h : validate buf extra = .ok true) : 8 ≤ buf.length := by
  unfold validate at h
  by_cases h8 : buf.length < lenSz + checksumSz
  · rw [if_pos h8] at h; cases h
  · simp [lenSz, checksumSz] at h8; omega

theorem read_no_panic {buf : Bytes} (extra : Nat) (h8 : 8 ≤ buf.length)
    (hf : fieldsOk (buf.length + 1) (buf.drop 4) = true) : read buf extra ≠ .error .panicWouldOccur := by
  unfold read
  rw [be32_ok (by omega), goSliceFrom_ok (by simp [lenSz]; omega)]
  simp only [bind, Except.bind]
  have : (buf.drop (0 + lenSz)).take (buf.length - lenSz) = buf.drop 4 := by
    simp [lenSz, List.take_of_length_le]
  rw [this]
  exact readLoop_no_panic _ _ _ _ hf

/-- the guard `readJournalRecord` lacks, for every record of `data` that passes validation -/
def ScanGuard (data : Bytes) : Prop :=
  ∀ off extra, beNat ((data.drop off).take 4) ≤ (data.drop off).length →
    validate ((data.drop off).take (beNat ((data.drop off).take 4))) extra = .ok true →
    fieldsOk (beNat ((data.drop off).take 4) + 1) (((data.drop off).take (beNat ((data.drop off).take 4))).drop 4) = true

theorem scanLoop_no_panic (data : Bytes) (buffSize : Nat) (hg : ScanGuard data) :
    ∀ (fuel off : Nat) (acc : List (Nat × Rec)), (scanLoop data buffSize fuel off acc).2 ≠ some .panicWouldOccur
  | 0, _, _ => by unfold scanLoop; intro h; cases h
  | fuel + 1, off, acc => by
    unfold scanLoop
    simp only []
    split
    · intro h; cases h
    · split
      · intro h; cases h
      · split
        · intro h; cases h
        · split
          · intro h; cases h
          · rename_i h4 h0 hB hl
            have hd : (data.drop off).length = data.length - off := List.length_drop
            have hlen : beNat ((data.drop off).take 4) ≤ (data.drop off).length := by omega
            have hbl : ((data.drop off).take (beNat ((data.drop off).take 4))).length = beNat ((data.drop off).take 4) := by
              simp [List.length_take]; omega
            have hv := @validate_no_panic ((data.drop off).take (beNat ((data.drop off).take 4)))
              (max buffSize 16 - off - beNat ((data.drop off).take 4)) (by
                by_cases h8 : beNat ((data.drop off).take 4) < 8
                · left; omega
                · right
                  rw [hbl, List.take_take]
                  congr 2
                  omega)
            obtain ⟨b, hb⟩ := hv
            rw [hb]
            cases b with
            | false => intro h; cases h
            | true =>
              simp only []
              have h8 := validate_true_len hb
              have hf := hg off _ hlen hb
              have hr := @read_no_panic _ (max buffSize 16 - off - beNat ((data.drop off).take 4)) h8 (by rw [hbl]; exact hf)
              cases hrd : read ((data.drop off).take (beNat ((data.drop off).take 4))) (max buffSize 16 - off - beNat ((data.drop off).take 4)) with
              | error e =>
                simp only []
                intro hc
                have : e = .panicWouldOccur := by injection hc
                subst this; exact hr hrd
              | ok r => exact scanLoop_no_panic data buffSize hg fuel _ _


end DoltVerif.Corrupt.Journal
