import DoltVerif.Lemmas.ProllyMergeLeafSend
/-!
C14 helper lemmas: `ThreeWayMerge` of three single-leaf trees, end to end: the patch stream is
`sendSpec` of the two merge walks, the content is `applyPatches` of left's pairs.
-/
namespace DoltVerif.ProllyMerge
open DoltVerif.ProllyDiff

variable {cmp : Bytes → Bytes → Ordering}

theorem rootCur_leaf (kvs : List KV) :
    IsLeafCur (if (Tree.leaf kvs).count = 0 then ([] : Cur) else [⟨.leaf kvs, 0⟩]) ∧
    rem (if (Tree.leaf kvs).count = 0 then ([] : Cur) else [⟨.leaf kvs, 0⟩]) = kvs := by
  by_cases h : (Tree.leaf kvs).count = 0
  · simp only [h, if_true]
    simp [Tree.count] at h
    exact ⟨Or.inl rfl, by simp [rem, h]⟩
  · simp only [h, if_false]
    exact ⟨Or.inr ⟨kvs, 0, rfl⟩, by simp [rem, remAbove, Tree.flatFrom]⟩

/-- `PatchGeneratorFromRoots` on two single-leaf trees: a fresh leaf-level generator whose stream
is the merge walk of the two leaves -/
theorem pgFromRoots_leaf (ka kb : List KV) (d : PG) (h : pgFromRoots (.leaf ka) (.leaf kb) = .ok d) :
    LeafStr cmp d (specDiffP cmp ka kb) := by
  obtain ⟨lfa, ra⟩ := rootCur_leaf ka
  unfold pgFromRoots at h
  by_cases hb : (Tree.leaf kb).count = 0
  · simp only [hb, if_true, pure, Except.pure] at h
    simp at h
    subst h
    have hb' : kb = [] := by simpa [Tree.count] using hb
    refine ⟨lfa, Or.inl rfl, rfl, ?_⟩
    simp only [afterStream]
    rw [ra, hb']; rfl
  · simp only [hb, if_false, bind, Except.bind] at h
    have hlev : level (if (Tree.leaf ka).count = 0 then ([] : Cur) else [⟨.leaf ka, 0⟩]) = 0 := lfa.level_eq
    have : descendTo ((Tree.leaf ka).height + 2) (if (Tree.leaf ka).count = 0 then ([] : Cur) else [⟨.leaf ka, 0⟩]) (Tree.leaf kb).height
        = .ok (if (Tree.leaf ka).count = 0 then ([] : Cur) else [⟨.leaf ka, 0⟩]) := by
      simp [Tree.height, descendTo, hlev, pure, Except.pure]
    rw [this] at h
    simp [pure, Except.pure] at h
    subst h
    refine ⟨lfa, Or.inr ⟨kb, 0, rfl⟩, rfl, ?_⟩
    simp only [afterStream]
    rw [ra]
    simp [rem, remAbove, Tree.flatFrom]

/-- **threeWayMerge_leaf**: the patch-based merge of three single-leaf trees -/
theorem threeWayMerge_leaf (hrefl : ∀ k, cmp k k = .eq) (collide : Collide) (kb kl kr : List KV)
    (content : List KV) (ps : List Patch) (cs : List Collision)
    (h : threeWayMerge cmp collide (.leaf kb) (.leaf kl) (.leaf kr) = .ok (content, ps, cs)) :
    (ps, cs) = sendSpec cmp collide (specDiffP cmp kb kl) (specDiffP cmp kb kr) ∧ content = applyPatches cmp kl ps := by
  unfold threeWayMerge at h
  simp only [bind, Except.bind] at h
  cases h1 : pgFromRoots (.leaf kb) (.leaf kl) with
  | error e => simp [h1] at h
  | ok ld =>
    cases h2 : pgFromRoots (.leaf kb) (.leaf kr) with
    | error e => simp [h1, h2] at h
    | ok rd =>
      simp only [h1, h2] at h
      cases h3 : sendPatches cmp collide (mergeFuel (.leaf kb) (.leaf kl) (.leaf kr)) ld rd with
      | error e => simp [h3] at h
      | ok res =>
        obtain ⟨ps', cs'⟩ := res
        simp [h3, pure, Except.pure, Tree.flatten] at h
        obtain ⟨rfl, rfl, rfl⟩ := h
        exact ⟨sendPatches_leaf hrefl collide _ ld rd _ _ (pgFromRoots_leaf kb kl ld h1) (pgFromRoots_leaf kb kr rd h2) ps' cs' h3, rfl⟩

end DoltVerif.ProllyMerge
