/-
`ApplyMutations` on ANY well-formed tree returns a well-formed tree holding exactly the edited
content — no canonicity / NoOverflowBoundary assumption (C11: every flush keeps the map a sorted
dictionary, also in the shapes where C12 fails).
-/
import DoltVerif.Lemmas.Glue
import DoltVerif.Lemmas.TreeWF
import DoltVerif.Lemmas.TreeLevels
namespace DoltVerif.Prolly
open DoltVerif.SortedDict

variable {σ α κ ν : Type}

/-- every chunk produced while feeding is non-empty, the pending items too (given no panic) -/
theorem LevelCfg.incr_nonempty (L : LevelCfg σ α) : ∀ (rs : List (Region α)) (st : St σ α),
    L.incrOk st rs = true → (∀ r ∈ rs, r.dirty = false → r.old ≠ []) →
    ∀ c ∈ (L.incr st rs).flatMap Out.chunks, c ≠ []
  | [], _, _, _ => by simp [LevelCfg.incr]
  | [r], st, hok, hold => by
    unfold LevelCfg.incrOk at hok
    by_cases hc : (st.cur.isEmpty && !r.dirty) = true
    · have hc' := hc
      simp only [Bool.and_eq_true, Bool.not_eq_true', List.isEmpty_iff] at hc'
      rw [L.incr_reused st r [] hc'.1 hc'.2]
      intro c hcm
      simp only [LevelCfg.incr, List.flatMap_cons, List.flatMap_nil, List.append_nil, Out.chunks,
        List.mem_singleton] at hcm
      rw [hcm]; exact hold r (by simp) hc'.2
    · simp only [hc, Bool.false_eq_true, if_false, Bool.and_eq_true] at hok
      rw [L.incr_fresh_last st r hc]
      intro c hcm
      simp only [List.flatMap_cons, List.flatMap_nil, List.append_nil, Out.chunks, List.mem_append] at hcm
      rcases hcm with hcm | hcm
      · exact L.feed_nonempty r.new st hok.1 c hcm
      · unfold St.flush at hcm
        split at hcm
        · simp at hcm
        · rename_i hne
          simp only [List.mem_singleton] at hcm
          rw [hcm]; intro h'; rw [h'] at hne; simp at hne
  | r :: r' :: rs, st, hok, hold => by
    unfold LevelCfg.incrOk at hok
    have hold' : ∀ x ∈ r' :: rs, x.dirty = false → x.old ≠ [] := fun x hx => hold x (by simp [hx])
    by_cases hc : (st.cur.isEmpty && !r.dirty) = true
    · have hc' := hc
      simp only [Bool.and_eq_true, Bool.not_eq_true', List.isEmpty_iff] at hc'
      simp only [hc, if_true] at hok
      rw [L.incr_reused st r _ hc'.1 hc'.2]
      intro c hcm
      simp only [List.flatMap_cons, Out.chunks, List.mem_append, List.mem_singleton] at hcm
      rcases hcm with hcm | hcm
      · rw [hcm]; exact hold r (by simp) hc'.2
      · exact L.incr_nonempty (r' :: rs) st hok hold' c hcm
    · simp only [hc, Bool.false_eq_true, if_false, Bool.and_eq_true] at hok
      rw [L.incr_fresh_cons st r r' rs hc]
      intro c hcm
      simp only [List.flatMap_cons, Out.chunks, List.mem_append] at hcm
      rcases hcm with hcm | hcm
      · exact L.feed_nonempty r.new st hok.1 c hcm
      · exact L.incr_nonempty (r' :: rs) _ hok.2 hold' c hcm

variable [Inhabited κ]

/-- the children seen through the slots are the chunks the child level left -/
theorem zip_slot_children (n : Nat) (L : LevelCfg σ (ItemH κ ν n)) :
    ∀ (rs : List (Region (ItemH κ ν n))) (items : List (ItemH κ ν (n+1))) (st : St σ (ItemH κ ν n)),
      rs.map (·.old) = items.map childOf →
      ((items.zip (L.incr st rs)).flatMap (slotItems n)).map childOf = (L.incr st rs).flatMap Out.chunks
  | [], items, _, _ => by simp [LevelCfg.incr]
  | [r], [], _, h => by simp at h
  | [r], it :: items, st, h => by
    simp only [List.map_cons, List.map_nil, List.cons.injEq] at h
    have hitems : items = [] := by
      cases items with
      | nil => rfl
      | cons a b => simp at h
    subst hitems
    by_cases hc : (st.cur.isEmpty && !r.dirty) = true
    · simp only [Bool.and_eq_true, Bool.not_eq_true', List.isEmpty_iff] at hc
      rw [L.incr_reused st r [] hc.1 hc.2]
      simp [LevelCfg.incr, slotItems, Out.chunks, h.1]
    · rw [L.incr_fresh_last st r hc]
      simp [slotItems, Out.chunks, Function.comp_def, childOf_summary]
  | r :: r' :: rs, [], _, h => by simp at h
  | r :: r' :: rs, it :: items, st, h => by
    simp only [List.map_cons, List.cons.injEq] at h
    have htail : (r' :: rs).map (·.old) = items.map childOf := by simpa using h.2
    by_cases hc : (st.cur.isEmpty && !r.dirty) = true
    · simp only [Bool.and_eq_true, Bool.not_eq_true', List.isEmpty_iff] at hc
      have ih := zip_slot_children n L (r' :: rs) items st htail
      rw [L.incr_reused st r _ hc.1 hc.2, List.zip_cons_cons, List.flatMap_cons, List.map_append, ih,
        List.flatMap_cons]
      simp [slotItems, Out.chunks, h.1]
    · have ih := zip_slot_children n L (r' :: rs) items (L.feed st r.new).2 htail
      rw [L.incr_fresh_cons st r r' rs hc, List.zip_cons_cons, List.flatMap_cons, List.map_append, ih,
        List.flatMap_cons]
      simp [slotItems, Out.chunks, Function.comp_def, childOf_summary]

/-- what a slot can contribute: the old item, or the summary of a chunk the child level left -/
theorem mem_zip_slot (n : Nat) : ∀ (items : List (ItemH κ ν (n+1))) (outs : List (Out (ItemH κ ν n)))
    (x : ItemH κ ν (n+1)), x ∈ (items.zip outs).flatMap (slotItems n) →
    x ∈ items ∨ ∃ c ∈ outs.flatMap Out.chunks, x = summary n c
  | [], _, x, h => by simp at h
  | _ :: _, [], x, h => by simp at h
  | it :: items, o :: outs, x, h => by
    simp only [List.zip_cons_cons, List.flatMap_cons, List.mem_append] at h
    rcases h with h | h
    · cases o with
      | reused c => simp only [slotItems, List.mem_singleton] at h; exact Or.inl (by simp [h])
      | fresh cs =>
        simp only [slotItems, List.mem_map] at h
        obtain ⟨c, hc, rfl⟩ := h
        exact Or.inr ⟨c, by simp [Out.chunks, hc], rfl⟩
    · rcases mem_zip_slot n items outs x h with h | ⟨c, hc, hx⟩
      · exact Or.inl (by simp [h])
      · exact Or.inr ⟨c, by simp [hc], hx⟩

theorem flatMap_flatten_succ (n : Nat) (nds : List (NodeH κ ν (n+1))) :
    nds.flatMap (flatten (n+1)) = (nds.flatten).flatMap (fun it => flatten n (childOf it)) := by
  induction nds with
  | nil => rfl
  | cons nd rest ih =>
    rw [List.flatMap_cons, ih, List.flatten_cons, List.flatMap_append]; rfl

theorem flatMap_children (n : Nat) (nds : List (NodeH κ ν (n+1))) :
    (children n nds).flatMap (flatten n) = nds.flatMap (flatten (n+1)) := by
  rw [children_eq, flatMap_flatten_succ, List.flatMap_map]

/-- `getCanonicalRoot` keeps content and well-formedness -/
theorem canonical_content_wf : ∀ (n : Nat) (c : NodeH κ ν n), WFNode n c →
    (canonical n c).flatten = flatten n c ∧ WFNode (canonical n c).height (canonical n c).root
  | 0, c, _ => ⟨rfl, trivial⟩
  | n+1, c, hwf => by
    match c, hwf with
    | [], hwf => exact ⟨rfl, hwf⟩
    | [it], hwf =>
      obtain ⟨_, _, _, hwc⟩ := hwf it (by simp)
      obtain ⟨h1, h2⟩ := canonical_content_wf n (childOf it) hwc
      refine ⟨?_, h2⟩
      show (canonical n (childOf it)).flatten = _
      rw [h1]; simp [flatten]
    | a :: b :: r, hwf => exact ⟨rfl, hwf⟩

/-- `Done` above a level keeps content and well-formedness -/
theorem rootOf_content_wf (C : Cfg σ κ ν) : ∀ (f n : Nat) (cs : List (NodeH κ ν n)) (t : Tree κ ν),
    (∀ c ∈ cs, WFNode n c ∧ c ≠ []) → rootOf C f n cs = .ok t →
    t.flatten = cs.flatMap (flatten n) ∧ WFNode t.height t.root
  | f, n, [], t, _, h => by
    have : t = ⟨0, []⟩ := by cases f <;> simp [rootOf] at h <;> exact h.symm
    subst this; exact ⟨rfl, trivial⟩
  | f, n, [c], t, hc, h => by
    have : t = canonical n c := by cases f <;> simp [rootOf] at h <;> exact h.symm
    subst this
    obtain ⟨h1, h2⟩ := canonical_content_wf n c (hc c (by simp)).1
    exact ⟨by rw [h1]; simp, h2⟩
  | 0, n, _ :: _ :: _, t, _, h => by simp [rootOf] at h
  | f+1, n, c₁ :: c₂ :: cs, t, hc, h => by
    simp only [rootOf] at h
    split at h
    · cases h
    · rename_i hok
      simp only [Bool.not_eq_true, Bool.not_eq_false] at hok
      have hok' : (C (n+1)).chunkOk ((c₁ :: c₂ :: cs).map (summary n)) = true := by simpa using hok
      have hnext : ∀ nd ∈ (C (n+1)).chunk ((c₁ :: c₂ :: cs).map (summary n)), WFNode (n+1) nd ∧ nd ≠ [] := by
        intro nd hnd
        refine ⟨?_, (C (n+1)).chunk_nonempty' _ hok' nd hnd⟩
        intro it hit
        have hmem : it ∈ ((C (n+1)).chunk ((c₁ :: c₂ :: cs).map (summary n))).flatten :=
          List.mem_flatten.mpr ⟨nd, hnd, hit⟩
        rw [LevelCfg.chunk_flatten] at hmem
        obtain ⟨c, hcm, rfl⟩ := List.mem_map.mp hmem
        exact ⟨(hc c hcm).2, rfl, rfl, (hc c hcm).1⟩
      obtain ⟨h1, h2⟩ := rootOf_content_wf C f (n+1) _ t hnext h
      refine ⟨?_, h2⟩
      rw [h1, flatMap_flatten_succ, LevelCfg.chunk_flatten, List.flatMap_map]
      rfl

theorem flatMap_flatten0 (cs : List (NodeH κ ν 0)) : cs.flatMap (flatten 0) = (cs.flatten : List (κ × ν)) := by
  induction cs with
  | nil => rfl
  | cons a r ih => rw [List.flatMap_cons, ih, List.flatten_cons]; rfl

variable [BEq κ] [BEq ν] [LawfulBEq κ] [LawfulBEq ν]

/-- **all levels, any well-formed old tree**: the nodes left at level `n` hold exactly the edited
content and are well formed -/
theorem levels_content (C : Cfg σ κ ν) {cmp : κ → κ → Ordering} (hc : TotalPreorder cmp) (es : Edits κ ν)
    (hes : es.Pairwise (fun a b => cmp a.1 b.1 = .lt)) :
    ∀ (n : Nat) (nds : List (NodeH κ ν n)), nds ≠ [] → (∀ nd ∈ nds, WFNode n nd ∧ nd ≠ []) →
      Sorted cmp (nds.flatMap (flatten n)) → levelsOk C cmp n nds es = true →
      (regionsAt C cmp n nds es).map (·.old) = nds ∧
      (((C n).incr (C n).fresh (regionsAt C cmp n nds es)).flatMap Out.chunks).flatMap (flatten n)
        = applyEdits cmp (nds.flatMap (flatten n)) es ∧
      ∀ c ∈ ((C n).incr (C n).fresh (regionsAt C cmp n nds es)).flatMap Out.chunks, WFNode n c ∧ c ≠ []
  | 0, nds, hne, hwf, hs, hok => by
    have hold := leafRegions_old cmp nds es false true
    have hflat0 : nds.flatMap (flatten 0) = (nds.flatten : List (κ × ν)) := flatMap_flatten0 nds
    have hs' : Sorted cmp (nds.flatten : List (κ × ν)) := by rw [← hflat0]; exact hs
    have hclean := leafRegions_clean hc nds es false true (fun l hl => sorted_of_mem_flatten _ l hl hs') hes
    have hcontent := leafRegions_content hc nds es false true hne (fun l hl => (hwf l hl).2) hs'
    have hrne := leafRegions_ne_nil cmp nds es false true hne
    have hfl := (C 0).incr_flatten (leafRegions cmp nds es false true) (C 0).fresh hrne hclean
    have hokI : (C 0).incrOk (C 0).fresh (leafRegions cmp nds es false true) = true := hok
    refine ⟨hold, ?_, ?_⟩
    · have hchunks0 : ∀ (cs : List (NodeH κ ν 0)), cs.flatMap (flatten 0) = (cs.flatten : List (κ × ν)) :=
        flatMap_flatten0
      show (((C 0).incr (C 0).fresh (leafRegions cmp nds es false true)).flatMap Out.chunks).flatMap (flatten 0) = _
      rw [hchunks0, hflat0]
      have : ((C 0).fresh.cur : List (κ × ν)) = [] := rfl
      rw [this, List.nil_append] at hfl
      exact hfl.trans hcontent
    · intro c hcm
      refine ⟨trivial, ?_⟩
      exact (C 0).incr_nonempty _ _ hokI (fun r hr _ => by
        have : r.old ∈ nds := by rw [← hold]; exact List.mem_map.mpr ⟨r, hr, rfl⟩
        exact (hwf _ this).2) c hcm
  | n+1, nds, hne, hwf, hs, hok => by
    have hokb : levelsOk C cmp n (children n nds) es = true ∧
        (C (n+1)).incrOk (C (n+1)).fresh (regionsAt C cmp (n+1) nds es) = true := by
      have : levelsOk C cmp (n+1) nds es = (levelsOk C cmp n (children n nds) es &&
          (C (n+1)).incrOk (C (n+1)).fresh (regionsAt C cmp (n+1) nds es)) := rfl
      rw [this, Bool.and_eq_true] at hok; exact hok
    -- the children satisfy the hypotheses
    have hchne : children n nds ≠ [] := by
      cases nds with
      | nil => exact absurd rfl hne
      | cons nd rest =>
        have hnd := (hwf nd (by simp)).2
        cases nd with
        | nil => exact absurd rfl hnd
        | cons it r => simp [children]
    have hchwf : ∀ c ∈ children n nds, WFNode n c ∧ c ≠ [] := by
      intro c hcm
      rw [children_eq] at hcm
      obtain ⟨it, hit, rfl⟩ := List.mem_map.mp hcm
      obtain ⟨nd, hnd, hitnd⟩ := List.mem_flatten.mp hit
      obtain ⟨h1, _, _, h4⟩ := (hwf nd hnd).1 it hitnd
      exact ⟨h4, h1⟩
    have hchs : Sorted cmp ((children n nds).flatMap (flatten n)) := by rw [flatMap_children]; exact hs
    obtain ⟨hAn, hBn, hCn⟩ := levels_content C hc es hes n (children n nds) hchne hchwf hchs hokb.1
    have hregs : regionsAt C cmp (n+1) nds es
        = regionsUp n nds ((C n).incr (C n).fresh (regionsAt C cmp n (children n nds) es)) true := rfl
    generalize hrs : regionsAt C cmp n (children n nds) es = rs at hAn hBn hCn hregs
    generalize houts : (C n).incr (C n).fresh rs = outs at hBn hCn hregs
    have hlen : nds.flatten.length ≤ outs.length := by
      have h1 : rs.length = (children n nds).length := by rw [← hAn, List.length_map]
      rw [← houts, (C n).incr_length, h1, children_eq, List.length_map]
      exact Nat.le_refl _
    have hold' := regionsUp_old n nds outs true
    have hrne : regionsUp n nds outs true ≠ [] := by
      intro h; rw [h] at hold'; exact hne hold'.symm
    have hclean := regionsUp_clean n nds outs true hlen
    have hfl := (C (n+1)).incr_flatten (regionsUp n nds outs true) (C (n+1)).fresh hrne hclean
    have hcur : ((C (n+1)).fresh.cur : List (ItemH κ ν (n+1))) = [] := rfl
    rw [hcur, List.nil_append, regionsUp_new n nds outs true hlen] at hfl
    rw [hregs]
    refine ⟨hold', ?_, ?_⟩
    · rw [flatMap_flatten_succ, hfl]
      have hz := zip_slot_children n (C n) rs nds.flatten (C n).fresh (by rw [hAn, children_eq])
      rw [houts] at hz
      have : ((nds.flatten.zip outs).flatMap (slotItems n)).flatMap (fun it => flatten n (childOf it))
          = (((nds.flatten.zip outs).flatMap (slotItems n)).map childOf).flatMap (flatten n) := by
        rw [List.flatMap_map]
      rw [this, hz, hBn, flatMap_children]
    · intro c hcm
      constructor
      · intro it hit
        have hmem : it ∈ (((C (n+1)).incr (C (n+1)).fresh (regionsUp n nds outs true)).flatMap Out.chunks).flatten :=
          List.mem_flatten.mpr ⟨c, hcm, hit⟩
        rw [hfl] at hmem
        rcases mem_zip_slot n _ _ it hmem with h | ⟨c', hc', rfl⟩
        · obtain ⟨nd, hnd, hitnd⟩ := List.mem_flatten.mp h
          exact (hwf nd hnd).1 it hitnd
        · exact ⟨(hCn c' hc').2, rfl, rfl, (hCn c' hc').1⟩
      · have hokI := hokb.2
        rw [hregs] at hokI
        exact (C (n+1)).incr_nonempty _ _ hokI (fun r hr _ => by
          have : r.old ∈ nds := by rw [← hold']; exact List.mem_map.mpr ⟨r, hr, rfl⟩
          exact (hwf _ this).2) c hcm

theorem applyMutations_ok' (C : Cfg σ κ ν) (cmp : κ → κ → Ordering) (h : Nat) (root : NodeH κ ν h)
    (es : Edits κ ν) (hes : es ≠ []) (t1 : Tree κ ν)
    (h1 : applyMutations C cmp ⟨h, root⟩ es = .ok t1) :
    levelsOk C cmp h [root] es = true ∧
    ∃ f, rootOf C f h (((C h).incr (C h).fresh (regionsAt C cmp h [root] es)).flatMap Out.chunks) = .ok t1 := by
  unfold applyMutations at h1
  have hemp : es.isEmpty = false := by cases es <;> simp_all
  simp only [hemp, Bool.false_eq_true, if_false] at h1
  split at h1
  · cases h1
  · rename_i hok
    exact ⟨by simpa using hok, _, h1⟩

/-- **`ApplyMutations` keeps any well-formed map a well-formed sorted dictionary**: for every
well-formed tree with sorted content and every sorted batch, the result (when `append` does not
panic) is well formed and holds exactly `applyEdits content batch` — no assumption about how the
old tree was built, no NoOverflowBoundary: the content is right even when the shape is not
canonical. -/
theorem applyMutations_content_wf (C : Cfg σ κ ν) {cmp : κ → κ → Ordering} (hc : TotalPreorder cmp)
    (t : Tree κ ν) (hwf : WFNode t.height t.root) (hne : t.height = 0 ∨ t.root ≠ [])
    (hs : Sorted cmp t.flatten) (es : Edits κ ν) (hes : es.Pairwise (fun a b => cmp a.1 b.1 = .lt))
    (t1 : Tree κ ν) (h1 : applyMutations C cmp t es = .ok t1) :
    t1.flatten = applyEdits cmp t.flatten es ∧ WFNode t1.height t1.root := by
  by_cases hemp : es = []
  · subst hemp
    have : applyMutations C cmp t [] = .ok t := by simp [applyMutations]
    rw [this] at h1; cases h1
    exact ⟨rfl, hwf⟩
  · obtain ⟨h, root⟩ := t
    simp only at hwf hne hs
    obtain ⟨hok, f, hf⟩ := applyMutations_ok' C cmp h root es hemp t1 h1
    by_cases hroot : root = []
    · -- the empty map: a single empty leaf
      have hh : h = 0 := by rcases hne with h0 | h0; exact h0; exact absurd hroot h0
      subst hh
      subst hroot
      have hempb : es.isEmpty = false := by cases es <;> simp_all
      have hr : ∃ r : Region (ItemH κ ν 0), regionsAt C cmp 0 [([] : NodeH κ ν 0)] es = [r] ∧ r.dirty = true ∧
          r.new = applyEdits cmp [] es :=
        ⟨_, rfl, by show (((!false && !es.isEmpty) || _) || !true) = true; simp [hempb], rfl⟩
      obtain ⟨r, hr1, hr2, hr3⟩ := hr
      have hchunks : ((C 0).incr (C 0).fresh (regionsAt C cmp 0 [([] : NodeH κ ν 0)] es)).flatMap Out.chunks
          = (C 0).chunk r.new := by
        rw [hr1, (C 0).incr_fresh_last _ _ (by simp [hr2])]
        simp [Out.chunks, LevelCfg.chunk_eq]
      have hokc : (C 0).chunkOk r.new = true := by
        have : levelsOk C cmp 0 [([] : NodeH κ ν 0)] es = (C 0).incrOk (C 0).fresh (regionsAt C cmp 0 [[]] es) := rfl
        rw [this, hr1] at hok
        unfold LevelCfg.incrOk at hok
        simp only [hr2, Bool.not_true, Bool.and_false, Bool.false_eq_true, if_false, Bool.and_eq_true] at hok
        exact hok.1
      rw [hchunks] at hf
      obtain ⟨h1', h2'⟩ := rootOf_content_wf C f 0 _ t1
        (fun c hcm => ⟨trivial, (C 0).chunk_nonempty' _ hokc c hcm⟩) hf
      refine ⟨?_, h2'⟩
      rw [h1', flatMap_flatten0, LevelCfg.chunk_flatten, hr3]
      rfl
    · have hs2 : Sorted cmp (flatten h root) := hs
      have hsorted : Sorted cmp ([root].flatMap (flatten h)) := by simpa using hs2
      obtain ⟨_, hB, hCc⟩ := levels_content C hc es hes h [root] (by simp)
        (fun nd hnd => by simp only [List.mem_singleton] at hnd; subst hnd; exact ⟨hwf, hroot⟩) hsorted hok
      obtain ⟨h1', h2'⟩ := rootOf_content_wf C f h _ t1 hCc hf
      refine ⟨?_, h2'⟩
      rw [h1', hB]
      simp [Tree.flatten]

omit [BEq κ] [BEq ν] [LawfulBEq κ] [LawfulBEq ν] in
theorem canonical_shape : ∀ (n : Nat) (c : NodeH κ ν n), WFNode n c → c ≠ [] →
    (canonical n c).height = 0 ∨ (canonical n c).root ≠ []
  | 0, _, _, _ => Or.inl rfl
  | n+1, c, hwf, hne => by
    match c, hwf, hne with
    | [], _, hne => exact absurd rfl hne
    | [it], hwf, _ =>
      obtain ⟨h1, _, _, h4⟩ := hwf it (by simp)
      exact canonical_shape n (childOf it) h4 h1
    | a :: b :: r, _, _ => exact Or.inr (by simp [canonical])

omit [BEq κ] [BEq ν] [LawfulBEq κ] [LawfulBEq ν] in
theorem rootOf_shape (C : Cfg σ κ ν) : ∀ (f n : Nat) (cs : List (NodeH κ ν n)) (t : Tree κ ν),
    (∀ c ∈ cs, WFNode n c ∧ c ≠ []) → rootOf C f n cs = .ok t → t.height = 0 ∨ t.root ≠ []
  | f, n, [], t, _, h => by
    have : t = ⟨0, []⟩ := by cases f <;> simp [rootOf] at h <;> exact h.symm
    subst this; exact Or.inl rfl
  | f, n, [c], t, hc, h => by
    have : t = canonical n c := by cases f <;> simp [rootOf] at h <;> exact h.symm
    subst this
    exact canonical_shape n c (hc c (by simp)).1 (hc c (by simp)).2
  | 0, n, _ :: _ :: _, t, _, h => by simp [rootOf] at h
  | f+1, n, c₁ :: c₂ :: cs, t, hc, h => by
    simp only [rootOf] at h
    split at h
    · cases h
    · rename_i hok
      have hok' : (C (n+1)).chunkOk ((c₁ :: c₂ :: cs).map (summary n)) = true := by simpa using hok
      have hnext : ∀ nd ∈ (C (n+1)).chunk ((c₁ :: c₂ :: cs).map (summary n)), WFNode (n+1) nd ∧ nd ≠ [] := by
        intro nd hnd
        refine ⟨?_, (C (n+1)).chunk_nonempty' _ hok' nd hnd⟩
        intro it hit
        have hmem : it ∈ ((C (n+1)).chunk ((c₁ :: c₂ :: cs).map (summary n))).flatten :=
          List.mem_flatten.mpr ⟨nd, hnd, hit⟩
        rw [LevelCfg.chunk_flatten] at hmem
        obtain ⟨c, hcm, rfl⟩ := List.mem_map.mp hmem
        exact ⟨(hc c hcm).2, rfl, rfl, (hc c hcm).1⟩
      exact rootOf_shape C f (n+1) _ t hnext h

/-- the result of `ApplyMutations` is never an empty internal root -/
theorem applyMutations_shape (C : Cfg σ κ ν) {cmp : κ → κ → Ordering} (hc : TotalPreorder cmp)
    (t : Tree κ ν) (hwf : WFNode t.height t.root) (hne : t.height = 0 ∨ t.root ≠ [])
    (hs : Sorted cmp t.flatten) (es : Edits κ ν) (hes : es.Pairwise (fun a b => cmp a.1 b.1 = .lt))
    (t1 : Tree κ ν) (h1 : applyMutations C cmp t es = .ok t1) : t1.height = 0 ∨ t1.root ≠ [] := by
  by_cases hemp : es = []
  · subst hemp
    have : applyMutations C cmp t [] = .ok t := by simp [applyMutations]
    rw [this] at h1; cases h1; exact hne
  · obtain ⟨h, root⟩ := t
    simp only at hwf hne hs
    obtain ⟨hok, f, hf⟩ := applyMutations_ok' C cmp h root es hemp t1 h1
    by_cases hroot : root = []
    · have hh : h = 0 := by rcases hne with h0 | h0; exact h0; exact absurd hroot h0
      subst hh
      subst hroot
      have hempb : es.isEmpty = false := by cases es <;> simp_all
      have hr : ∃ r : Region (ItemH κ ν 0), regionsAt C cmp 0 [([] : NodeH κ ν 0)] es = [r] ∧ r.dirty = true :=
        ⟨_, rfl, by show (((!false && !es.isEmpty) || _) || !true) = true; simp [hempb]⟩
      obtain ⟨r, hr1, hr2⟩ := hr
      have hchunks : ((C 0).incr (C 0).fresh (regionsAt C cmp 0 [([] : NodeH κ ν 0)] es)).flatMap Out.chunks
          = (C 0).chunk r.new := by
        rw [hr1, (C 0).incr_fresh_last _ _ (by simp [hr2])]
        simp [Out.chunks, LevelCfg.chunk_eq]
      have hokc : (C 0).chunkOk r.new = true := by
        have : levelsOk C cmp 0 [([] : NodeH κ ν 0)] es = (C 0).incrOk (C 0).fresh (regionsAt C cmp 0 [[]] es) := rfl
        rw [this, hr1] at hok
        unfold LevelCfg.incrOk at hok
        simp only [hr2, Bool.not_true, Bool.and_false, Bool.false_eq_true, if_false, Bool.and_eq_true] at hok
        exact hok.1
      rw [hchunks] at hf
      exact rootOf_shape C f 0 _ t1 (fun c hcm => ⟨trivial, (C 0).chunk_nonempty' _ hokc c hcm⟩) hf
    · have hs2 : Sorted cmp (flatten h root) := hs
      have hsorted : Sorted cmp ([root].flatMap (flatten h)) := by simpa using hs2
      obtain ⟨_, _, hCc⟩ := levels_content C hc es hes h [root] (by simp)
        (fun nd hnd => by simp only [List.mem_singleton] at hnd; subst hnd; exact ⟨hwf, hroot⟩) hsorted hok
      exact rootOf_shape C f h _ t1 hCc hf

end DoltVerif.Prolly
