import DoltVerif.Lemmas.ManStoreHInv
/-! System-level closure invariant of the ManStore model (C07) and its preservation by every step. -/
namespace DoltVerif.ManStore

theorem HInv.clearPc {env : Env} {d : Disk} {h : Handle} (hi : HInv env d h) : HInv env d { h with pc := none } :=
  ⟨hi.upsub, hi.upiff, hi.upwf, hi.novelRefs, hi.cache, by intro p hp; simp at hp⟩

theorem flushForCommit_hinv {env : Env} {d : Disk} {h h1 : Handle} (hi : HInv env d h) (hpc : h.pc = none)
    (hf : h.flushForCommit env = some h1) : HInv env d h1 ∧ h1.pc = none ∧ MemEmpty h1 := by
  unfold Handle.flushForCommit at hf
  split at hf
  · rename_i hm
    simp at hf; subst hf; exact ⟨hi, hpc, Or.inl hm⟩
  · rename_i m hm
    split at hf
    · rename_i he
      simp at hf; subst hf
      exact ⟨hi, hpc, Or.inr ⟨m, hm, by simpa using he⟩⟩
    · split at hf
      · rename_i hok
        simp at hf; subst hf
        exact ⟨hi.afterFlush hpc m none hok, by simp [flushed, hpc], Or.inl rfl⟩
      · simp at hf

theorem toSpecs_noteRoot (h : Handle) (cur : Addr) : (h.noteRoot cur).toSpecs = h.toSpecs := by
  unfold Handle.noteRoot; split <;> rfl

theorem N_noteRoot (h : Handle) (cur : Addr) (a : Addr) : N (h.noteRoot cur) a ↔ N h a := by
  unfold Handle.noteRoot; split <;> simp [N]

theorem has_of_memEmpty {h : Handle} (hm : MemEmpty h) {a : Addr} (ha : h.has a = true) : h.inTables a = true := by
  unfold Handle.has Handle.inMem at ha
  rcases hm with e | ⟨m, e, hc⟩
  · simpa [e] using ha
  · simpa [e, hc] using ha

theorem HInv.prepare {env : Env} {d : Disk} {h : Handle} (hi : HInv env d h) (hpc : h.pc = none) (cur last : Addr) :
    HInv env d (h.prepare env cur last).1 := by
  unfold Handle.prepare
  split
  · exact hi
  · split
    · exact hi.setMem hpc none
    · rename_i h1 hf
      obtain ⟨h1i, h1pc, h1m⟩ := flushForCommit_hinv hi hpc hf
      split
      · exact h1i.setMem h1pc none
      · rename_i hnd
        have hcur : cur = 0 ∨ N h1 cur ∨ P d cur := by
          by_cases c0 : cur = 0
          · exact Or.inl c0
          · right
            have hc0 : (cur != 0) = true := by simpa using c0
            cases hcc : h1.hasCache.contains cur with
            | true => exact h1i.cache cur (by simpa using hcc)
            | false =>
              cases hh : h1.has cur with
              | true => exact h1i.inTables_NP (has_of_memEmpty h1m hh)
              | false => exact absurd (by unfold Handle.rootDangling; rw [hc0, hcc, hh]; rfl) hnd
        refine ⟨?_, ?_, ?_, ?_, ?_, ?_⟩
        · intro t ht; exact h1i.upsub t (by simpa [Handle.park, Handle.noteRoot] using (by
            unfold Handle.park Handle.noteRoot at ht; split at ht <;> exact ht))
        · intro t
          have := h1i.upiff t
          unfold Handle.park Handle.noteRoot; split <;> exact this
        · have := h1i.upwf
          unfold Handle.park Handle.noteRoot; split <;> exact this
        · intro a ha b hb
          have ha' : N h1 a := by
            unfold Handle.park Handle.noteRoot at ha; split at ha <;> exact ha
          refine (h1i.novelRefs a ha' b hb).imp (fun hn => ?_) id
          unfold Handle.park Handle.noteRoot; split <;> exact hn
        · intro a ha
          have hN : ∀ x, N h1 x → N ((h1.noteRoot cur).park cur last) x := by
            intro x hn; unfold Handle.park Handle.noteRoot; split <;> exact hn
          have : a ∈ h1.hasCache ∨ a = cur := by
            unfold Handle.park Handle.noteRoot at ha
            split at ha
            · simp only [List.mem_append, List.mem_singleton] at ha; exact ha
            · exact Or.inl ha
          rcases this with h | rfl
          · exact (h1i.cache a h).imp (hN a) id
          · rcases hcur with c0 | hn | hp
            · -- cur = 0 is never cached by noteRoot
              unfold Handle.park Handle.noteRoot at ha
              split at ha
              · rename_i hcond; simp [c0] at hcond
              · exact (h1i.cache _ ha).imp (hN _) id
            · exact Or.inl (hN _ hn)
            · exact Or.inr hp
        · intro p hp
          simp only [Handle.park, Option.some.injEq] at hp
          subst hp
          refine ⟨?_, ?_, ?_⟩
          · rfl
          · show cur = 0 ∨ _ ∨ _
            rcases hcur with c0 | hn | hp
            · exact Or.inl c0
            · exact Or.inr (Or.inl (by unfold Handle.park Handle.noteRoot; split <;> exact hn))
            · exact Or.inr (Or.inr hp)
          · unfold MemEmpty Handle.park Handle.noteRoot
            split <;> exact h1m


structure RInv (env : Env) (s : Sys) : Prop where
  dwf : ∀ m, s.disk.manifest = some m → m.WF2
  closed : ∀ a, P s.disk a → ∀ b ∈ env.refs a, P s.disk b
  root : s.disk.root = 0 ∨ P s.disk s.disk.root
  hs : ∀ i, HInv env s.disk (s.hs i)

theorem rinv_init (env : Env) : RInv env Sys.init :=
  ⟨by intro m h; simp [Sys.init, Disk.empty] at h,
   by intro a h; simp [P, Disk.persisted, Disk.specs, Sys.init, Disk.empty] at h,
   Or.inl rfl, fun _ => hinv_closed env _⟩

/-- one handle replaced, disk untouched -/
theorem RInv.setHandle {env : Env} {s : Sys} (hr : RInv env s) (i : Nat) (h' : Handle) (hh : HInv env s.disk h') :
    RInv env (s.set i h') :=
  ⟨hr.dwf, hr.closed, hr.root, by
    intro j; simp only [Sys.set]; split
    · exact hh
    · exact hr.hs j⟩

/-- the flattened handle after its commit was acknowledged -/
def ackedHandle (h : Handle) (p : Pending) : Handle := { ({ h with pc := none } : Handle).flatten with upstream := p.new }

theorem mem_acked_upTables (h : Handle) (p : Pending) (t : Table) : t ∈ (ackedHandle h p).upTables ↔ t ∈ h.toSpecs := by
  simp only [ackedHandle, Handle.flatten, Handle.toSpecs, List.mem_append]
  exact Or.comm

theorem disk_specs_sub_toSpecs {env : Env} {s : Sys} (hr : RInv env s) (i : Nat)
    (hlock : s.disk.lock = (s.hs i).upstream.lock) : ∀ t ∈ s.disk.specs, t ∈ (s.hs i).toSpecs := by
  intro t ht
  cases hm : s.disk.manifest with
  | none => simp [Disk.specs, hm] at ht
  | some m =>
    simp only [Disk.specs, hm] at ht
    simp only [Disk.lock, hm] at hlock
    have := (WF2.specs_eq (hr.dwf m hm) (hr.hs i).upwf hlock t).1 ht
    exact (mem_toSpecs _ t).2 (Or.inr (((hr.hs i).upiff t).2 this))

/-- `manifest.Update` wrote the parked commit's manifest -/
theorem RInv.wrote {env : Env} {s : Sys} (hr : RInv env s) (i : Nat) (p : Pending) (hp : (s.hs i).pc = some p)
    (hlock : s.disk.lock = (s.hs i).upstream.lock) :
    RInv env { disk := { s.disk with manifest := some p.new },
               hs := fun j => if j = i then ackedHandle (s.hs i) p else s.hs j } := by
  have hi := hr.hs i
  obtain ⟨hnew, hcur, _⟩ := hi.pcOK p hp
  have hsub := disk_specs_sub_toSpecs hr i hlock
  have hspecs : ({ s.disk with manifest := some p.new } : Disk).specs = (s.hs i).toSpecs := by
    simp [Disk.specs, hnew]
  have hmono : ∀ t ∈ s.disk.specs, t ∈ ({ s.disk with manifest := some p.new } : Disk).specs := by
    rw [hspecs]; exact hsub
  have hP' : ∀ a, P ({ s.disk with manifest := some p.new } : Disk) a ↔ (N (s.hs i) a ∨ ∃ t ∈ (s.hs i).upTables, a ∈ t) := by
    intro a; rw [P_iff, hspecs]; exact toSpecs_covers _ a
  have hNP : ∀ a, N (s.hs i) a ∨ P s.disk a → P ({ s.disk with manifest := some p.new } : Disk) a := by
    intro a h
    rcases h with hn | hp'
    · exact (hP' a).2 (Or.inl hn)
    · exact P_mono hmono hp'
  refine ⟨?_, ?_, ?_, ?_⟩
  · intro m hm; simp at hm; subst hm; rw [hnew]; exact mk_wf2 _ _
  · intro a ha b hb
    rcases (hP' a).1 ha with hn | ⟨t, ht, hat⟩
    · exact hNP b (hi.novelRefs a hn b hb)
    · exact hNP b (Or.inr (hr.closed a ((P_iff _ a).2 ⟨t, hi.upsub t ht, hat⟩) b hb))
  · have hroot : ({ s.disk with manifest := some p.new } : Disk).root = p.cur := by simp [Disk.root, hnew]
    rw [hroot]
    rcases hcur with c0 | h
    · exact Or.inl c0
    · exact Or.inr (hNP _ h)
  · intro j
    simp only
    split
    · refine ⟨?_, ?_, ?_, ?_, ?_, ?_⟩
      · intro t ht; rw [hspecs]; exact (mem_acked_upTables _ p t).1 ht
      · intro t; rw [mem_acked_upTables]; simp [ackedHandle, hnew]
      · simp only [ackedHandle, hnew]; exact mk_wf2 _ _
      · intro a ha; simp [N, ackedHandle, Handle.flatten] at ha
      · intro a ha
        exact Or.inr (hNP a (hi.cache a (by simpa [ackedHandle, Handle.flatten] using ha)))
      · intro q hq; simp [ackedHandle, Handle.flatten] at hq
    · exact (hr.hs j).mono hmono

/-- the lock-coincidence success: nothing is written, the handle adopts the manifest it wanted to write -/
theorem RInv.coincide {env : Env} {s : Sys} (hr : RInv env s) (i : Nat) (p : Pending) (up : Contents)
    (hp : (s.hs i).pc = some p) (hm : s.disk.manifest = some up) (hl : up.lock = p.new.lock) :
    HInv env s.disk (ackedHandle (s.hs i) p) := by
  have hi := hr.hs i
  obtain ⟨hnew, _, _⟩ := hi.pcOK p hp
  have hwf : p.new.WF2 := by rw [hnew]; exact mk_wf2 _ _
  have hiff := WF2.specs_eq (hr.dwf up hm) hwf hl
  have hsp : ∀ t, t ∈ (s.hs i).toSpecs → t ∈ s.disk.specs := by
    intro t ht
    have : t ∈ p.new.specs := by rw [hnew]; exact ht
    simpa [Disk.specs, hm] using (hiff t).2 this
  refine ⟨?_, ?_, hwf, ?_, ?_, ?_⟩
  · intro t ht; exact hsp t ((mem_acked_upTables _ p t).1 ht)
  · intro t; rw [mem_acked_upTables]; simp [ackedHandle, hnew]
  · intro a ha; simp [N, ackedHandle, Handle.flatten] at ha
  · intro a ha
    right
    rcases hi.cache a (by simpa [ackedHandle, Handle.flatten] using ha) with hn | hp'
    · obtain ⟨t, ht, hat⟩ := (toSpecs_covers (s.hs i) a).2 (Or.inl hn)
      exact (P_iff _ a).2 ⟨t, hsp t ht, hat⟩
    · exact hp'
  · intro q hq; simp [ackedHandle, Handle.flatten] at hq

end DoltVerif.ManStore
