import DoltVerif.Lemmas.Txn
/-! `dump` (the canonical sorted listing of a root) lists exactly the bindings of the root, each key once. -/
namespace DoltVerif.Txn

theorem mem_dump (t : Root) (k : Key) (r : Row) : (k, r) ∈ dump t ↔ get t k = some r := by
  unfold dump
  simp only [List.mem_filterMap, Option.map_eq_some_iff]
  constructor
  · rintro ⟨k', _, r', hg, he⟩; injection he with h1 h2; subst h1; subst h2; exact hg
  · intro hg
    refine ⟨k, ?_, r, hg, rfl⟩
    unfold sortedKeys
    rw [List.mem_mergeSort, List.mem_eraseDups]
    apply Classical.byContradiction; intro hn
    rw [get_eq_none_of_not_mem t k hn] at hg; cases hg

theorem nodup_eraseDups : ∀ (l : List Key), l.eraseDups.Nodup
  | [] => by simp
  | a :: as => by
    rw [List.eraseDups_cons]
    have : (as.filter fun b => !b == a).length < as.length + 1 :=
      Nat.lt_succ_of_le (List.length_filter_le _ _)
    refine List.nodup_cons.2 ⟨?_, nodup_eraseDups _⟩
    intro hm; rw [List.mem_eraseDups, List.mem_filter] at hm; simpa using hm.2
termination_by l => l.length

theorem nodup_dump_keys (t : Root) : ((dump t).map (·.1)).Nodup := by
  unfold dump
  have hs : (sortedKeys t).Nodup := by
    unfold sortedKeys
    exact (List.mergeSort_perm _ _).nodup_iff.2 (nodup_eraseDups _)
  generalize sortedKeys t = ks at hs
  induction ks with
  | nil => simp
  | cons a ks ih =>
    rw [List.nodup_cons] at hs
    simp only [List.filterMap_cons]
    cases hg : get t a with
    | none => simpa [hg] using ih hs.2
    | some r =>
      simp only [hg, Option.map_some, List.map_cons, List.nodup_cons]
      refine ⟨?_, ih hs.2⟩
      intro hm
      rw [List.mem_map] at hm
      obtain ⟨⟨k', r'⟩, hm, rfl⟩ := hm
      rw [List.mem_filterMap] at hm
      obtain ⟨k'', hk, he⟩ := hm
      cases hg2 : get t k'' with
      | none => simp [hg2] at he
      | some r2 => simp [hg2] at he; exact hs.1 (he.1 ▸ hk)

end DoltVerif.Txn
