import DoltVerif.Lemmas.NbsFiles
namespace DoltVerif.NbsFiles

theorem wsub_of_le {a b : Nat} (h : b ≤ a) : wsub a b = a - b := by simp [wsub, h]

theorem interp_le (t lo hi n : Nat) (h1 : lo < t) (h2 : t ≤ hi) : interp t lo hi n ≤ n := by
  unfold interp
  rw [wsub_of_le (Nat.le_of_lt h1), wsub_of_le (by omega)]
  apply Nat.div_le_of_le_mul
  exact Nat.mul_le_mul_right n (by omega)

theorem lb_of_adjacent (s : Array Nat) (t j : Nat) (hs : SortedArr s) (hj : j < s.size) (hj0 : 0 < j)
    (h1 : s[j - 1]'(by omega) < t) (h2 : t ≤ s[j]) : IsLowerBound s t j := by
  refine ⟨by omega, ?_, ?_⟩
  · intro k hk hkj
    have := hs k (j - 1) hk (by omega) (by omega)
    omega
  · intro k hk hjk
    have := hs j k hj hk hjk
    omega

/-- the loop invariant of `prollyBinSearch` -/
structure PInv (s : Array Nat) (t lft rht lo hi r' : Nat) : Prop where
  hl : lft < s.size
  hlo : s[lft]? = some lo
  lo_lt : lo < t
  le_hi : t ≤ hi
  hr : rht ≤ s.size
  hr' : r' = rht ∨ r' + 1 = rht
  lt_r' : lft < r'
  hhi : s[r']? = some hi

theorem getElem?_some_iff {s : Array Nat} {i v : Nat} : s[i]? = some v ↔ ∃ h : i < s.size, s[i] = v :=
  Array.getElem?_eq_some_iff

theorem pbsLoop_spec (s : Array Nat) (t : Nat) (hs : SortedArr s) (hsz : s.size < 18446744073709551616) :
    ∀ (d lft rht lo hi r' : Nat), rht - lft = d → PInv s t lft rht lo hi r' →
      ∃ r, pbsLoop s t lft rht lo hi = some r ∧ IsLowerBound s t r := by
  intro d
  induction d using Nat.strongRecOn with
  | _ d ih =>
    intro lft rht lo hi r' hd inv
    obtain ⟨hl, hlo, lo_lt, le_hi, hr, hr', lt_r', hhi⟩ := inv
    obtain ⟨hr's, hhiv⟩ := getElem?_some_iff.mp hhi
    obtain ⟨_, hlov⟩ := getElem?_some_iff.mp hlo
    have hlt : lft < rht := by omega
    have hq := interp_le t lo hi (rht - lft - 1) lo_lt le_hi
    have hidx : interp t lo hi (rht - lft - 1) + lft < rht := by omega
    have hidxs : interp t lo hi (rht - lft - 1) + lft < s.size := by omega
    have hV : wsub hi lo = hi - lo := wsub_of_le (by omega)
    have hT : wsub t lo = t - lo := wsub_of_le (by omega)
    have hV0 : ¬ (wsub hi lo = 0) := by rw [hV]; omega
    have hov : ¬ (wsub hi lo ≤ wsub t lo * (rht - lft - 1) / 18446744073709551616) := by
      rw [hV, hT]
      apply Nat.not_le.mpr
      apply Nat.div_lt_of_lt_mul
      have h1 : (t - lo) * (rht - lft - 1) ≤ (hi - lo) * (rht - lft - 1) := Nat.mul_le_mul_right _ (by omega)
      have h2 : (hi - lo) * (rht - lft - 1) < (hi - lo) * 18446744073709551616 :=
        (Nat.mul_lt_mul_left (by omega)).mpr (by omega)
      rw [Nat.mul_comm 18446744073709551616]
      omega
    rw [pbsLoop]
    simp only [hlt, if_true, hV0, if_false, hov, Array.getElem?_eq_getElem hidxs]
    by_cases hv : s[interp t lo hi (rht - lft - 1) + lft] < t
    · simp only [hv, if_true]
      by_cases hnx : interp t lo hi (rht - lft - 1) + lft + 1 < s.size
      · simp only [hnx, if_true, Array.getElem?_eq_getElem hnx]
        by_cases hge : s[interp t lo hi (rht - lft - 1) + lft + 1] ≥ t
        · simp only [hge, if_true]
          exact ⟨_, rfl, lb_of_adjacent s t _ hs hnx (by omega) (by simpa using hv) hge⟩
        · simp only [hge, if_false]
          have hlt' : interp t lo hi (rht - lft - 1) + lft + 1 < r' := by
            apply Nat.lt_of_not_le
            intro hle
            have := hs r' _ hr's hnx hle
            omega
          exact ih (rht - (interp t lo hi (rht - lft - 1) + lft + 1)) (by omega) _ rht _ hi r' rfl
            ⟨hnx, Array.getElem?_eq_getElem hnx, by omega, le_hi, hr, hr', hlt', hhi⟩
      · exfalso
        have := hs r' _ hr's hidxs (by omega)
        omega
    · simp only [hv, if_false, hidx, if_true]
      have hne : lft < interp t lo hi (rht - lft - 1) + lft := by
        apply Nat.lt_of_le_of_ne (by omega)
        intro e
        have : s[interp t lo hi (rht - lft - 1) + lft] = s[lft] := by simp [← e]
        omega
      exact ih (interp t lo hi (rht - lft - 1) + lft - lft) (by omega) lft _ lo _ _ rfl
        ⟨hl, hlo, lo_lt, by omega, by omega, Or.inl rfl, hne, Array.getElem?_eq_getElem hidxs⟩

theorem prollyBinSearch_spec (s : Array Nat) (t : Nat) (hs : SortedArr s) (hsz : s.size < 18446744073709551616) :
    ∃ r, prollyBinSearch s t = some r ∧ IsLowerBound s t r := by
  unfold prollyBinSearch
  by_cases h0 : s.size = 0
  · simp only [h0, dite_true]
    exact ⟨0, rfl, by omega, fun k hk _ => absurd hk (by omega), fun k hk _ => absurd hk (by omega)⟩
  · simp only [h0, dite_false]
    by_cases hgt : t > s[s.size - 1]
    · simp only [hgt, if_true]
      refine ⟨_, rfl, Nat.le_refl _, ?_, fun k hk h => absurd hk (by omega)⟩
      intro k hk _
      have := hs k (s.size - 1) hk (by omega) (by omega)
      omega
    · simp only [hgt, if_false]
      by_cases hge : s[0] ≥ t
      · simp only [hge, if_true]
        refine ⟨0, rfl, by omega, fun k _ h => absurd h (by omega), ?_⟩
        intro k hk _
        have := hs 0 k (by omega) hk (by omega)
        omega
      · simp only [hge, if_false]
        have hne : 0 < s.size - 1 := by
          apply Nat.lt_of_le_of_ne (by omega)
          intro e
          have : s[s.size - 1] = s[0] := by simp [← e]
          omega
        exact pbsLoop_spec s t hs hsz _ 0 s.size _ _ (s.size - 1) rfl
          ⟨by omega, Array.getElem?_eq_getElem (by omega), by omega, by omega, Nat.le_refl _, Or.inr (by omega), hne,
           Array.getElem?_eq_getElem (by omega)⟩

end DoltVerif.NbsFiles
