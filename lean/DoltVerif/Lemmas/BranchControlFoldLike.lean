import DoltVerif.Model.BranchControl
import DoltVerif.Lemmas.BranchControlLike
import DoltVerif.Lemmas.BranchControlFold
/-!
C38 helper lemmas, part 4: a pass of `FoldExpression` keeps the LIKE meaning of the expression.
Core Lean only.
-/
set_option linter.unusedSimpArgs false
namespace DoltVerif.BranchControl

/-- two patterns with the same meaning -/
def LikeEq (p q : List Int) : Prop := ∀ x, likeSpec p x = likeSpec q x

theorem LikeEq.refl (p : List Int) : LikeEq p p := fun _ => rfl
theorem LikeEq.trans {p q r : List Int} (h1 : LikeEq p q) (h2 : LikeEq q r) : LikeEq p r :=
  fun x => (h1 x).trans (h2 x)
theorem LikeEq.symm {p q : List Int} (h : LikeEq p q) : LikeEq q p := fun x => (h x).symm

theorem likeEq_cons (a : Int) {p q : List Int} (h : LikeEq p q) : LikeEq (a :: p) (a :: q) := by
  have hf : likeSpec p = likeSpec q := funext h
  intro x
  simp only [likeSpec, hf]

theorem anySuffix_idem (f : List Int → Bool) : ∀ x, anySuffix (anySuffix f) x = anySuffix f x := by
  intro x
  induction x with
  | nil => rfl
  | cons c x ih =>
    simp only [anySuffix, ih]
    cases f (c :: x) <;> cases anySuffix f x <;> rfl

/-- `%%` means `%` -/
theorem like_any_any (p : List Int) : LikeEq (anyMatch :: anyMatch :: p) (anyMatch :: p) := by
  intro x
  have h1 : likeSpec (anyMatch :: anyMatch :: p) x = anySuffix (anySuffix (likeSpec p)) x := by
    have : likeSpec (anyMatch :: p) = anySuffix (likeSpec p) := by
      funext s; simp [likeSpec]
    simp [likeSpec, this]
  have h2 : likeSpec (anyMatch :: p) x = anySuffix (likeSpec p) x := by simp [likeSpec]
  rw [h1, h2, anySuffix_idem]

/-- `%_` means `_%` -/
theorem like_any_single (p : List Int) :
    LikeEq (anyMatch :: singleMatch :: p) (singleMatch :: anyMatch :: p) := by
  have hA : likeSpec (anyMatch :: p) = anySuffix (likeSpec p) := by funext s; simp [likeSpec]
  have hS : ∀ (q : List Int) c s, likeSpec (singleMatch :: q) (c :: s) = likeSpec q s := by
    intro q c s; simp [likeSpec, any_ne_single.symm]
  have hS0 : ∀ (q : List Int), likeSpec (singleMatch :: q) [] = false := by
    intro q; simp [likeSpec, any_ne_single.symm]
  have key : ∀ x, anySuffix (likeSpec (singleMatch :: p)) x = likeSpec (singleMatch :: anyMatch :: p) x := by
    intro x
    induction x with
    | nil => simp [anySuffix, hS0]
    | cons c x ih =>
      rw [hS, hA]
      simp only [anySuffix, hS, ih]
      cases x with
      | nil => simp [hS0, anySuffix]
      | cons d x' => rw [hS, hA]; simp [anySuffix]
  intro x
  have h1 : likeSpec (anyMatch :: singleMatch :: p) x = anySuffix (likeSpec (singleMatch :: p)) x := by
    simp [likeSpec]
  rw [h1, key]

structure LikeFacts (so : Rune → Int) (t : List Rune) : Prop where
  n : LikeEq (parseGo so false (foldGo .normal t)) (parseGo so false t)
  s : LikeEq (parseGo so true (foldGo .skip t)) (parseGo so true t)
  c : LikeEq (parseGo so false (foldGo .consider t)) (anyMatch :: parseGo so false t)

theorem likeFacts (so : Rune → Int) : ∀ t, LikeFacts so t := by
  intro t
  induction t with
  | nil =>
    constructor
    · exact LikeEq.refl _
    · exact LikeEq.refl _
    · simp [foldGo, parseGo, bs_ne_pct.symm]; exact LikeEq.refl _
  | cons r t ih =>
    constructor
    · by_cases hb : r = bs
      · subst hb; simpa [foldGo, parseGo] using ih.s
      · by_cases hp : r = pct
        · subst hp; simpa [foldGo, parseGo, bs_ne_pct.symm] using ih.c
        · by_cases hu : r = und
          · subst hu
            simpa [foldGo, parseGo, bs_ne_und.symm, pct_ne_und.symm] using likeEq_cons singleMatch ih.n
          · simpa [foldGo, parseGo, hb, hp, hu] using likeEq_cons (so r) ih.n
    · simpa [foldGo, parseGo] using likeEq_cons (so r) ih.n
    · by_cases hb : r = bs
      · subst hb
        simpa [foldGo, parseGo, bs_ne_pct.symm] using likeEq_cons anyMatch ih.s
      · by_cases hu : r = und
        · subst hu
          have h1 : LikeEq (singleMatch :: anyMatch :: parseGo so false (foldGo .normal t))
              (singleMatch :: anyMatch :: parseGo so false t) :=
            likeEq_cons _ (likeEq_cons _ ih.n)
          have h2 := (like_any_single (parseGo so false t)).symm
          simpa [foldGo, parseGo, bs_ne_und.symm, pct_ne_und.symm, bs_ne_pct.symm] using h1.trans h2
        · by_cases hp : r = pct
          · subst hp
            have h1 : LikeEq (anyMatch :: parseGo so false (foldGo .normal t)) (anyMatch :: parseGo so false t) :=
              likeEq_cons _ ih.n
            have h2 := (like_any_any (parseGo so false t)).symm
            simpa [foldGo, parseGo, bs_ne_pct.symm, pct_ne_und] using h1.trans h2
          · simpa [foldGo, parseGo, hb, hp, hu, bs_ne_pct.symm] using
              likeEq_cons anyMatch (likeEq_cons (so r) ih.n)

theorem foldPass_like (so : Rune → Int) (s : List Rune) : LikeEq (parse so (foldPass s)) (parse so s) :=
  (likeFacts so s).n

theorem foldLoop_like (so : Rune → Int) : ∀ (n : Nat) (s : List Rune), LikeEq (parse so (foldLoop n s)) (parse so s) := by
  intro n
  induction n with
  | zero => intro s; exact LikeEq.refl _
  | succ n ih =>
    intro s
    simp only [foldLoop]
    by_cases he : foldPass s = s
    · simp [he]; exact LikeEq.refl _
    · simp only [he, if_false]
      exact (ih _).trans (foldPass_like so s)

end DoltVerif.BranchControl
