import DoltVerif.Model.VcsOpsQuery
import DoltVerif.Lemmas.VcsOpsMerge
/-!
Bookkeeping lemmas about the database machine: what `addCommit`, `setHead`, `setWs` do to the
accessors, the well-formedness invariant, and `moveTables` over all differing tables.
-/
namespace DoltVerif.VcsOps

/-- invariant of every reachable database that the identities below need -/
structure Db.WF (d : Db) : Prop where
  branches : Sorted ltStr (keys d.branches)
  wss : Sorted ltStr (keys d.wss)
  roots : ∀ (i : Nat) (c : Commit), d.commits[i]? = some c → RootWF c.root
  parents : ∀ (i : Nat) (c : Commit), d.commits[i]? = some c → ∀ p ∈ c.parents, p < i

@[simp] theorem setWs_commits (d : Db) (w : WS) : (d.setWs w).commits = d.commits := rfl
@[simp] theorem setWs_branches (d : Db) (w : WS) : (d.setWs w).branches = d.branches := rfl
@[simp] theorem setWs_cur (d : Db) (w : WS) : (d.setWs w).cur = d.cur := rfl
@[simp] theorem setWs_stashes (d : Db) (w : WS) : (d.setWs w).stashes = d.stashes := rfl
@[simp] theorem setHead_commits (d : Db) (i : Nat) : (d.setHead i).commits = d.commits := rfl
@[simp] theorem setHead_wss (d : Db) (i : Nat) : (d.setHead i).wss = d.wss := rfl
@[simp] theorem setHead_cur (d : Db) (i : Nat) : (d.setHead i).cur = d.cur := rfl

@[simp] theorem ws_setWs (d : Db) (w : WS) : (d.setWs w).ws = w := by
  simp [Db.ws, Db.setWs, get_put]

@[simp] theorem headId_setHead (d : Db) (i : Nat) : (d.setHead i).headId = i := by
  simp [Db.headId, Db.setHead, get_put]

@[simp] theorem headId_setWs (d : Db) (w : WS) : (d.setWs w).headId = d.headId := rfl
@[simp] theorem ws_setHead (d : Db) (i : Nat) : (d.setHead i).ws = d.ws := rfl
@[simp] theorem rootOf_setWs (d : Db) (w : WS) (i : Nat) : (d.setWs w).rootOf i = d.rootOf i := rfl
@[simp] theorem rootOf_setHead (d : Db) (j i : Nat) : (d.setHead j).rootOf i = d.rootOf i := rfl

theorem headRoot_setHead (d : Db) (i : Nat) : (d.setHead i).headRoot = d.rootOf i := by
  simp [Db.headRoot]

@[simp] theorem headRoot_setWs (d : Db) (w : WS) : (d.setWs w).headRoot = d.headRoot := rfl

@[simp] theorem addCommit_snd (d : Db) (ps : List Nat) (r : Root) (m : String) :
    (d.addCommit ps r m).2 = d.commits.length := rfl

@[simp] theorem addCommit_branches (d : Db) (ps : List Nat) (r : Root) (m : String) :
    (d.addCommit ps r m).1.branches = d.branches := rfl
@[simp] theorem addCommit_wss (d : Db) (ps : List Nat) (r : Root) (m : String) :
    (d.addCommit ps r m).1.wss = d.wss := rfl
@[simp] theorem addCommit_cur (d : Db) (ps : List Nat) (r : Root) (m : String) :
    (d.addCommit ps r m).1.cur = d.cur := rfl
@[simp] theorem addCommit_ws (d : Db) (ps : List Nat) (r : Root) (m : String) :
    (d.addCommit ps r m).1.ws = d.ws := rfl
@[simp] theorem addCommit_headId (d : Db) (ps : List Nat) (r : Root) (m : String) :
    (d.addCommit ps r m).1.headId = d.headId := rfl

theorem addCommit_length (d : Db) (ps : List Nat) (r : Root) (m : String) :
    (d.addCommit ps r m).1.commits.length = d.commits.length + 1 := by
  simp [Db.addCommit]

/-- the new commit has the given parents and root -/
theorem commit_addCommit_new (d : Db) (ps : List Nat) (r : Root) (m : String) :
    ∃ h, (d.addCommit ps r m).1.commit? d.commits.length = some ⟨ps, r, m, h⟩ := by
  simp [Db.addCommit, Db.commit?]

theorem rootOf_addCommit_new (d : Db) (ps : List Nat) (r : Root) (m : String) :
    (d.addCommit ps r m).1.rootOf d.commits.length = r := by
  simp [Db.addCommit, Db.rootOf]

/-- old commits are untouched -/
theorem commit_addCommit_old (d : Db) (ps : List Nat) (r : Root) (m : String) (i : Nat) (h : i < d.commits.length) :
    (d.addCommit ps r m).1.commit? i = d.commit? i := by
  simp [Db.addCommit, Db.commit?, List.getElem?_append_left h]

theorem rootOf_addCommit_old (d : Db) (ps : List Nat) (r : Root) (m : String) (i : Nat) (h : i < d.commits.length) :
    (d.addCommit ps r m).1.rootOf i = d.rootOf i := by
  simp [Db.addCommit, Db.rootOf, List.getElem?_append_left h]

theorem lt_length_of_commit (d : Db) (i : Nat) (c : Commit) (h : d.commit? i = some c) : i < d.commits.length := by
  unfold Db.commit? at h
  exact (List.getElem?_eq_some_iff.mp h).1

theorem rootOf_of_commit (d : Db) (i : Nat) (c : Commit) (h : d.commit? i = some c) : d.rootOf i = c.root := by
  unfold Db.commit? at h
  simp [Db.rootOf, h]

theorem rootWF_rootOf (d : Db) (hd : d.WF) (i : Nat) : RootWF (d.rootOf i) := by
  unfold Db.rootOf
  cases h : d.commits[i]? with
  | none => exact ⟨List.Pairwise.nil, fun n t h => by cases h⟩
  | some c => exact hd.roots i c h

/-- writing back the value a sorted map already holds is the identity -/
theorem put_get_self {κ α : Type} [DecidableEq κ] {lt : κ → κ → Bool} (st : StrictTotal lt)
    (m : List (κ × α)) (k : κ) (v : α) (hs : Sorted lt (keys m)) (h : get m k = some v) :
    put lt m k v = m := by
  apply sorted_ext st _ _ (sorted_put st m k v hs) hs
  intro a
  rw [get_put]
  by_cases e : k = a
  · subst e; simp [h]
  · simp [e]

/-! ### copying every differing table makes the roots equal -/

theorem get_moveStep (src dest : Root) (n : String) (hd : Sorted ltStr (keys dest)) :
    Sorted ltStr (keys (moveStep src dest n)) ∧
    ∀ b, get (moveStep src dest n) b = if n = b then get src n else get dest b := by
  unfold moveStep
  cases hs : get src n with
  | some tb =>
    refine ⟨sorted_put strictTotal_ltStr dest n tb hd, ?_⟩
    intro b
    simp only [putTable, get_put]
  | none =>
    refine ⟨sorted_del dest n hd, ?_⟩
    intro b
    simp only [get_del strictTotal_ltStr dest n b hd]

theorem get_moveTables (names : List String) (src dest : Root) (hd : Sorted ltStr (keys dest)) (a : String) :
    (get (moveTables names src dest) a = if a ∈ names then get src a else get dest a)
    ∧ Sorted ltStr (keys (moveTables names src dest)) := by
  induction names generalizing dest with
  | nil => simp [moveTables, hd]
  | cons n rest ih =>
    have step := get_moveStep src dest n hd
    have := ih _ step.1
    have e : moveTables (n :: rest) src dest = moveTables rest src (moveStep src dest n) := rfl
    rw [e]
    refine ⟨?_, this.2⟩
    rw [this.1, step.2 a]
    by_cases e1 : a ∈ rest
    · simp [e1]
    · by_cases e2 : n = a
      · subst e2; simp [e1]
      · have : ¬ a = n := fun e => e2 e.symm
        simp [e1, e2, this]

theorem moveTables_changed (a m : Root) (ha : Sorted ltStr (keys a)) (hm : Sorted ltStr (keys m)) :
    moveTables (changedTables a m) m a = m := by
  have h := fun k => (get_moveTables (changedTables a m) m a ha k)
  apply sorted_ext strictTotal_ltStr _ _ (h "").2 hm
  intro k
  rw [(h k).1]
  by_cases e : k ∈ changedTables a m
  · simp [e]
  · simp only [e, if_false]
    unfold changedTables at e
    rw [List.mem_filter] at e
    by_cases hk : k ∈ unionKeys ltStr (keys a) (keys m)
    · have : ¬ (decide (get a k ≠ get m k) = true) := fun h' => e ⟨hk, h'⟩
      simpa using this
    · rw [mem_unionKeys] at hk
      rw [get_none_of_not_mem a k (fun h' => hk (Or.inl h')), get_none_of_not_mem m k (fun h' => hk (Or.inr h'))]

/-! ### extension of the commit list (commits are only ever appended) -/

theorem commit_ext (d d1 : Db) (h : d.commits <+: d1.commits) (i : Nat) (hi : i < d.commits.length) :
    d1.commit? i = d.commit? i := by
  obtain ⟨t, ht⟩ := h
  simp [Db.commit?, ← ht, List.getElem?_append_left hi]

theorem rootOf_ext (d d1 : Db) (h : d.commits <+: d1.commits) (i : Nat) (hi : i < d.commits.length) :
    d1.rootOf i = d.rootOf i := by
  obtain ⟨t, ht⟩ := h
  simp [Db.rootOf, ← ht, List.getElem?_append_left hi]

theorem ext_addCommit (d : Db) (ps : List Nat) (r : Root) (m : String) :
    d.commits <+: (d.addCommit ps r m).1.commits := by
  simp [Db.addCommit]

theorem ancestor_lt (d : Db) (i n u : Nat) (h : d.ancestor i n = some u) : u < d.commits.length := by
  induction n generalizing i with
  | zero =>
    simp only [Db.ancestor] at h
    split at h
    · cases h; assumption
    · cases h
  | succ n ih =>
    simp only [Db.ancestor] at h
    split at h
    · split at h
      · exact ih _ h
      · cases h
    · cases h

theorem resolve_lt (d : Db) (r : Ref) (u : Nat) (h : d.resolve r = some u) : u < d.commits.length := by
  unfold Db.resolve at h
  split at h
  · exact ancestor_lt d _ _ u h
  · cases h

end DoltVerif.VcsOps
