/-
Lemmas about the incremental chunker (C12): one level of `ApplyMutations` produces exactly the
chunks a from-scratch chunker produces for the edited item sequence, for every sound dirty-marking.
-/
import DoltVerif.Model.Mutate
import DoltVerif.Lemmas.Chunker
namespace DoltVerif.Prolly

variable {σ α : Type}

/-- a chunk that, fed to a reset chunker, is emitted as exactly itself and leaves the chunker reset -/
def LevelCfg.Closed (L : LevelCfg σ α) (c : List α) : Prop := L.feed L.fresh c = ([c], L.fresh)

/-- a run of items that a from-scratch chunker turns into exactly one chunk (possibly by the final flush) -/
def LevelCfg.Whole (L : LevelCfg σ α) (c : List α) : Prop := L.chunk c = [c]

theorem LevelCfg.Closed.whole {L : LevelCfg σ α} {c : List α} (h : L.Closed c) : L.Whole c := by
  unfold LevelCfg.Whole LevelCfg.chunk
  rw [h]; simp [St.flush_fresh]

/-- canonical chunk list: every chunk but the last is closed, the last is whole -/
def LevelCfg.Canon (L : LevelCfg σ α) : List (List α) → Prop
  | [] => True
  | [c] => L.Whole c
  | c :: c' :: cs => L.Closed c ∧ L.Canon (c' :: cs)

/-- the dirty marking of a region list is sound: a clean region is unchanged and its old chunk
is closed (whole, if it is the last region) -/
def LevelCfg.Sound (L : LevelCfg σ α) : List (Region α) → Prop
  | [] => True
  | [r] => r.dirty = false → r.new = r.old ∧ L.Whole r.old
  | r :: r' :: rs => (r.dirty = false → r.new = r.old ∧ L.Closed r.old) ∧ L.Sound (r' :: rs)

theorem LevelCfg.incr_reused (L : LevelCfg σ α) (st : St σ α) (r : Region α) (rs : List (Region α))
    (h1 : st.cur = []) (h2 : r.dirty = false) :
    L.incr st (r :: rs) = .reused r.old :: L.incr st rs := by
  rw [LevelCfg.incr]; simp [h1, h2]

theorem LevelCfg.incr_fresh_last (L : LevelCfg σ α) (st : St σ α) (r : Region α)
    (h : ¬ (st.cur.isEmpty && !r.dirty) = true) :
    L.incr st [r] = [.fresh ((L.feed st r.new).1 ++ (L.feed st r.new).2.flush)] := by
  rw [LevelCfg.incr]; simp [h]

theorem LevelCfg.incr_fresh_cons (L : LevelCfg σ α) (st : St σ α) (r r' : Region α) (rs : List (Region α))
    (h : ¬ (st.cur.isEmpty && !r.dirty) = true) :
    L.incr st (r :: r' :: rs) = .fresh (L.feed st r.new).1 :: L.incr (L.feed st r.new).2 (r' :: rs) := by
  rw [LevelCfg.incr]; simp [h]

/-- **one level of `ApplyMutations` is canonical**: whatever the (sound) dirty marking and
wherever resynchronisation happens, the chunks left at this level are those of a from-scratch
chunker run over the edited items (continuing from the state `st`). -/
theorem LevelCfg.incr_chunks (L : LevelCfg σ α) : ∀ (rs : List (Region α)) (st : St σ α),
    rs ≠ [] → L.Inv st → L.Sound rs →
    (L.incr st rs).flatMap Out.chunks
      = (L.feed st (rs.flatMap (·.new))).1 ++ (L.feed st (rs.flatMap (·.new))).2.flush
  | [], _, h, _, _ => absurd rfl h
  | [r], st, _, hinv, hs => by
    have hflat : [r].flatMap (·.new) = r.new := by simp
    rw [hflat]
    by_cases hc : (st.cur.isEmpty && !r.dirty) = true
    · simp only [Bool.and_eq_true, Bool.not_eq_true', List.isEmpty_iff] at hc
      have hst : st = L.fresh := hinv hc.1
      obtain ⟨hnew, hwhole⟩ := hs hc.2
      rw [L.incr_reused st r [] hc.1 hc.2, hnew, hst]
      simp only [LevelCfg.incr, List.flatMap_cons, List.flatMap_nil, List.append_nil, Out.chunks]
      exact hwhole.symm
    · rw [L.incr_fresh_last st r hc]
      simp [Out.chunks]
  | r :: r' :: rs, st, _, hinv, hs => by
    have hflat : (r :: r' :: rs).flatMap (·.new) = r.new ++ (r' :: rs).flatMap (·.new) := List.flatMap_cons ..
    rw [hflat, L.feed_append r.new ((r' :: rs).flatMap (·.new)) st]
    by_cases hc : (st.cur.isEmpty && !r.dirty) = true
    · simp only [Bool.and_eq_true, Bool.not_eq_true', List.isEmpty_iff] at hc
      have hst : st = L.fresh := hinv hc.1
      obtain ⟨hnew, hclosed⟩ := hs.1 hc.2
      have ih := L.incr_chunks (r' :: rs) L.fresh (by simp) L.inv_fresh hs.2
      rw [L.incr_reused st r (r' :: rs) hc.1 hc.2, hnew, hst, List.flatMap_cons, ih]
      have hcl : L.feed L.fresh r.old = ([r.old], L.fresh) := hclosed
      rw [hcl]
      simp [Out.chunks]
    · have ih := L.incr_chunks (r' :: rs) (L.feed st r.new).2 (by simp) (L.inv_feed _ _ hinv) hs.2
      rw [L.incr_fresh_cons st r r' rs hc, List.flatMap_cons, ih]
      simp [Out.chunks, List.append_assoc]

/-- corollary from a reset chunker: the level's chunks are `chunk` of the edited items -/
theorem LevelCfg.incr_eq_chunk (L : LevelCfg σ α) (rs : List (Region α)) (hne : rs ≠ []) (hs : L.Sound rs) :
    (L.incr L.fresh rs).flatMap Out.chunks = L.chunk (rs.flatMap (·.new)) :=
  L.incr_chunks rs L.fresh hne L.inv_fresh hs

/-! ### chunks produced without the capacity rule are closed -/

/-- no `append` of this run hit the capacity rule (`hasCapacity` was always true) -/
def LevelCfg.feedNoOvf (L : LevelCfg σ α) : St σ α → List α → Bool
  | _, [] => true
  | st, x :: xs => !L.overflow st.cur x && L.feedNoOvf (L.stepItem st x).2.1 xs

theorem LevelCfg.feedNoOvf_append (L : LevelCfg σ α) : ∀ (xs ys : List α) (st : St σ α),
    L.feedNoOvf st (xs ++ ys) = (L.feedNoOvf st xs && L.feedNoOvf (L.feed st xs).2 ys)
  | [], _, _ => by simp [LevelCfg.feedNoOvf, LevelCfg.feed]
  | x :: xs, ys, st => by
    simp only [List.cons_append, LevelCfg.feedNoOvf, LevelCfg.feed, L.feedNoOvf_append xs ys, Bool.and_assoc]

/-- shape of a run without capacity boundaries: the first emitted chunk is the pending items
plus a prefix `p` of the input after which the chunker is reset; the rest is `chunk` of the
remaining input -/
theorem LevelCfg.feed_first (L : LevelCfg σ α) : ∀ (xs : List α) (st : St σ α),
    L.feedNoOvf st xs = true →
    ∀ e rest, (L.feed st xs).1 = e :: rest →
      ∃ p q, xs = p ++ q ∧ p ≠ [] ∧ e = st.cur ++ p ∧ L.feed st p = ([e], L.fresh) ∧
        rest ++ (L.feed st xs).2.flush = L.chunk q
  | [], _, _, e, rest, h => by simp [LevelCfg.feed] at h
  | x :: xs, st, hno, e, rest, h => by
    simp only [LevelCfg.feedNoOvf, Bool.and_eq_true, Bool.not_eq_true'] at hno
    obtain ⟨hov, hno'⟩ := hno
    by_cases hsp : ((L.sp.step st.s x).2 && !L.degenerate (st.cur ++ [x])) = true
    · have hstep : L.stepItem st x = ([st.cur ++ [x]], L.fresh, true) := by
        unfold LevelCfg.stepItem; simp only [hov, Bool.false_eq_true, if_false, hsp, if_true]
      simp only [LevelCfg.feed, hstep, List.singleton_append, List.cons.injEq] at h hno' ⊢
      obtain ⟨he, hr⟩ := h
      subst he
      refine ⟨[x], xs, rfl, by simp, rfl, ?_, ?_⟩
      · simp [LevelCfg.feed, hstep]
      · rw [← hr]; rfl
    · have hstep : L.stepItem st x = ([], ⟨(L.sp.step st.s x).1, st.cur ++ [x]⟩, false) := by
        unfold LevelCfg.stepItem; simp only [hov, Bool.false_eq_true, if_false, hsp]
      simp only [LevelCfg.feed, hstep, List.nil_append] at h hno' ⊢
      obtain ⟨p, q, hxs, _, he, hfeed, hrest⟩ := L.feed_first xs _ hno' e rest h
      refine ⟨x :: p, q, by simp [hxs], by simp, by simp [he], ?_, hrest⟩
      simp only [LevelCfg.feed, hstep, List.nil_append]
      rw [hfeed]

theorem LevelCfg.chunk_eq (L : LevelCfg σ α) (xs : List α) :
    L.chunk xs = (L.feed L.fresh xs).1 ++ (L.feed L.fresh xs).2.flush := rfl

/-- **every chunk of a level built without capacity boundaries is closed** (the last one whole):
this is what makes an old node reusable after a resync -/
theorem LevelCfg.chunk_canon (L : LevelCfg σ α) : ∀ (n : Nat) (xs : List α), xs.length ≤ n →
    L.feedNoOvf L.fresh xs = true → L.Canon (L.chunk xs)
  | 0, xs, hn, _ => by
    have : xs = [] := List.length_eq_zero_iff.mp (Nat.le_zero.mp hn)
    subst this
    simp [LevelCfg.chunk, LevelCfg.feed, St.flush_fresh, LevelCfg.Canon]
  | n+1, xs, hn, hno => by
    cases hE : (L.feed L.fresh xs).1 with
    | nil =>
      -- nothing emitted: the whole input is (at most) one flushed chunk
      have hfl := L.feed_flatten xs L.fresh
      rw [hE] at hfl
      have hcur : (L.feed L.fresh xs).2.cur = xs := by simpa [LevelCfg.fresh] using hfl
      have hch : L.chunk xs = (L.feed L.fresh xs).2.flush := by rw [L.chunk_eq, hE]; rfl
      by_cases hx : xs = []
      · rw [hch]; unfold St.flush; rw [hcur, hx]; exact trivial
      · have hfl2 : (L.feed L.fresh xs).2.flush = [xs] := by
          unfold St.flush; rw [hcur]; simp [hx]
        rw [hch, hfl2]
        show L.chunk xs = [xs]
        rw [hch, hfl2]
    | cons e rest =>
      obtain ⟨p, q, hxs, hp, he, hfeed, hrest⟩ := L.feed_first xs L.fresh hno e rest hE
      have he' : e = p := by simpa [LevelCfg.fresh] using he
      subst he'
      have hclosed : L.Closed e := hfeed
      have hq : q.length ≤ n := by
        have h1 : xs.length = e.length + q.length := by rw [hxs]; simp
        have h2 : 0 < e.length := List.length_pos_iff.mpr hp
        omega
      have hnoq : L.feedNoOvf L.fresh q = true := by
        have h3 := L.feedNoOvf_append e q L.fresh
        rw [← hxs, hno, hfeed] at h3
        simp only [Bool.true_eq, Bool.and_eq_true] at h3
        exact h3.2
      have ih := L.chunk_canon n q hq hnoq
      have hchunk : L.chunk xs = e :: L.chunk q := by
        rw [L.chunk_eq xs, hE, ← hrest]; rfl
      rw [hchunk]
      cases hcq : L.chunk q with
      | nil => exact hclosed.whole
      | cons c cs => rw [hcq] at ih; exact ⟨hclosed, ih⟩

end DoltVerif.Prolly

namespace DoltVerif.Prolly
variable {σ α : Type}

/-- clean regions are unchanged (true by construction of `regionsAt`: a region without an edit
below it keeps its items) -/
def CleanUnchanged (rs : List (Region α)) : Prop := ∀ r ∈ rs, r.dirty = false → r.new = r.old

/-- **One level of `ApplyMutations` never loses, duplicates or reorders items** — even when the
resulting nodes are not the canonical ones (no closedness assumption): the nodes left at the
level, concatenated, are the pending items followed by the edited item sequence. -/
theorem LevelCfg.incr_flatten (L : LevelCfg σ α) : ∀ (rs : List (Region α)) (st : St σ α),
    rs ≠ [] → CleanUnchanged rs →
    ((L.incr st rs).flatMap Out.chunks).flatten = st.cur ++ rs.flatMap (·.new)
  | [], _, h, _ => absurd rfl h
  | [r], st, _, hcu => by
    by_cases hc : (st.cur.isEmpty && !r.dirty) = true
    · simp only [Bool.and_eq_true, Bool.not_eq_true', List.isEmpty_iff] at hc
      have hn := hcu r (by simp) hc.2
      rw [L.incr_reused st r [] hc.1 hc.2, hc.1]
      simp [LevelCfg.incr, Out.chunks, hn]
    · rw [L.incr_fresh_last st r hc]
      have := L.feed_flatten r.new st
      simp only [List.flatMap_cons, List.flatMap_nil, Out.chunks, List.append_nil, List.flatten_append,
        St.flush_flatten]
      exact this
  | r :: r' :: rs, st, _, hcu => by
    have hcu' : CleanUnchanged (r' :: rs) := fun x hx => hcu x (by simp [hx])
    have hflat : (r :: r' :: rs).flatMap (·.new) = r.new ++ (r' :: rs).flatMap (·.new) := List.flatMap_cons ..
    by_cases hc : (st.cur.isEmpty && !r.dirty) = true
    · simp only [Bool.and_eq_true, Bool.not_eq_true', List.isEmpty_iff] at hc
      have ih := L.incr_flatten (r' :: rs) st (by simp) hcu'
      have hn := hcu r (by simp) hc.2
      rw [L.incr_reused st r (r' :: rs) hc.1 hc.2, List.flatMap_cons, List.flatten_append, ih, hflat, hn, hc.1]
      simp [Out.chunks]
    · have ih := L.incr_flatten (r' :: rs) (L.feed st r.new).2 (by simp) hcu'
      rw [L.incr_fresh_cons st r r' rs hc, List.flatMap_cons, List.flatten_append, ih, hflat]
      have := L.feed_flatten r.new st
      simp only [Out.chunks, ← List.append_assoc]
      rw [this]

end DoltVerif.Prolly

namespace DoltVerif.Prolly
open DoltVerif.SortedDict (Edits applyEdits Sorted)
variable {κ ν : Type}

theorem lastKey_leaf [Inhabited κ] (l : NodeH κ ν 0) (hne : l ≠ []) :
    lastKey 0 l = keyOf 0 (l.getLast hne) := by
  unfold lastKey
  rw [List.getLast?_eq_some_getLast hne]

end DoltVerif.Prolly
