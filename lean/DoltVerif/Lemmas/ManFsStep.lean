import DoltVerif.Lemmas.ManFs
/-! `Inv` is preserved by every step of every actor of the ManFs model (unlocked unlinks under `StepSafe`). -/
namespace DoltVerif.ManFs

theorem WInv.vac {d : Dir} {w : Writer} (h1 : w.pc ≠ .synced) (h2 : w.pc ≠ .read) (h3 : w.pc ≠ .compared) (h4 : w.pc ≠ .validated) :
    WInv d w :=
  ⟨fun h => by rcases h with h | h | h | h <;> contradiction,
   fun h => by rcases h with h | h | h <;> contradiction,
   fun h => absurd h h4⟩

theorem WInv.unlink {d : Dir} {w : Writer} (h : WInv d w) (n : Name) (hn : w.pc = .validated → n ∉ w.new.specs) :
    WInv (d.apply (.unlinkTable n)) w :=
  ⟨h.tmp, fun hp => by have := h.seen hp; unfold SeenOK at this ⊢; simpa [Dir.apply] using this,
   fun hp t ht => mem_apply_unlink d n t (h.present hp t ht) (by intro e; subst e; exact hn hp ht)⟩

theorem WInv.at_synced {d : Dir} {w : Writer} (hpc : w.pc = .synced) (ht : w.tmp = some (.complete w.new true)) : WInv d w :=
  ⟨fun _ => ht, (fun h => by rw [hpc] at h; rcases h with h | h | h <;> cases h), (fun h => by rw [hpc] at h; cases h)⟩

theorem WInv.at_read {d : Dir} {w : Writer} (hpc : w.pc = .read ∨ w.pc = .compared) (ht : w.tmp = some (.complete w.new true))
    (hs : SeenOK d w.seen) : WInv d w :=
  ⟨fun _ => ht, fun _ => hs, (fun h => by rcases hpc with e | e <;> (rw [e] at h; cases h))⟩

theorem writer_holds {w : Writer} (h : w.pc ≠ .idle) : (Actor.writer w).holds = true := by
  simp [Actor.holds, h]

/-- whoever holds the LOCK and is not a writer standing right after its rename: no rename is pending -/
theorem noRen_of_holder {s : Sys} (hi : Inv s) (a : Nat) (hh : (s.actors a).holds = true)
    (hnr : ∀ w, s.actors a = .writer w → w.pc ≠ .renamed) : NoRen s.fs := by
  rcases hi.ren with h | ⟨c, w, hc, hpc⟩
  · exact h
  · have hch : (s.actors c).holds = true := by rw [hc]; exact writer_holds (by rw [hpc]; decide)
    have := holders_eq hi hh hch
    subst this
    exact absurd hpc (hnr w hc)

/-- change of one actor and of the lock word, file system untouched -/
theorem inv_setActor {s : Sys} (hi : Inv s) (a : Nat) (x : Actor) (L : Option Nat)
    (hex : ∀ b, (if b = a then x else s.actors b).holds = true → L = some b)
    (hw : ∀ w, x = .writer w → WInv s.fs.vis w)
    (hp : ∀ p, x = .pruner p → p.pc = .keeping → PKeep s.fs.vis p)
    (hr : NoRen s.fs ∨ ∃ b w, (if b = a then x else s.actors b) = .writer w ∧ w.pc = .renamed) :
    Inv ({ s with lock := L }.setActor a x) := by
  refine ⟨hi.fs, ?_, ?_, ?_, ?_⟩
  · intro b hb; exact hex b hb
  · intro b w hb
    simp only [Sys.setActor] at hb
    split at hb
    · exact hw w hb
    · exact hi.wr b w hb
  · intro b p hb
    simp only [Sys.setActor] at hb
    split at hb
    · exact hp p hb
    · exact hi.pr b p hb
  · exact hr

/-- the rename witness survives when actor `a` (not standing after its rename) is replaced -/
theorem ren_keep {s : Sys} (hi : Inv s) (a : Nat) (x : Actor) (hnr : ∀ w, s.actors a = .writer w → w.pc ≠ .renamed) :
    NoRen s.fs ∨ ∃ b w, (if b = a then x else s.actors b) = .writer w ∧ w.pc = .renamed := by
  rcases hi.ren with h | ⟨c, w, hc, hpc⟩
  · exact Or.inl h
  · by_cases e : c = a
    · subst e; exact absurd hpc (hnr w hc)
    · exact Or.inr ⟨c, w, by simp [e, hc], hpc⟩

/-- actor `a` leaves (failure path or normal end) -/
theorem inv_leave {s : Sys} (hi : Inv s) (a : Nat) (hnr : ∀ w, s.actors a = .writer w → w.pc ≠ .renamed) : Inv (s.leave a) := by
  have := inv_setActor hi a .none (if s.lock = some a then none else s.lock)
    (by
      intro b hb
      by_cases e : b = a
      · simp [e, Actor.holds] at hb
      · simp only [e, if_false] at hb
        have hl := hi.excl b hb
        have : s.lock ≠ some a := by rw [hl]; intro h; exact e (by simpa using h)
        rw [if_neg this]; exact hl)
    (by intro w h; cases h) (by intro p h; cases h) (ren_keep hi a .none hnr)
  exact this

theorem inv_leaveW {s : Sys} (hi : Inv s) (a : Nat) (w : Writer) (hnr : ∀ w', s.actors a = .writer w' → w'.pc ≠ .renamed) :
    Inv (s.leaveW a w) := by
  unfold Sys.leaveW
  split
  · have := inv_setActor hi a .none s.lock
      (by
        intro b hb
        by_cases e : b = a
        · simp [e, Actor.holds] at hb
        · simp only [e, if_false] at hb; exact hi.excl b hb)
      (by intro w h; cases h) (by intro p h; cases h) (ren_keep hi a .none hnr)
    exact this
  · exact inv_leave hi a hnr

/-- the stepping actor `a` is replaced by a lock-holding state while it is (or becomes) the lock owner -/
theorem excl_holder {s : Sys} (hi : Inv s) (a : Nat) (x : Actor)
    (hfree : s.lock = none ∨ s.lock = some a) :
    ∀ b, (if b = a then x else s.actors b).holds = true → some a = some b := by
  intro b hb
  by_cases e : b = a
  · rw [e]
  · simp only [e, if_false] at hb
    have hl := hi.excl b hb
    rcases hfree with h | h
    · rw [h] at hl; cases hl
    · rw [h] at hl; exact hl

/-- non-rename directory operation by somebody, actors and lock unchanged -/
theorem inv_op_other {s : Sys} (hi : Inv s) (o : DirOp) (hn : ∀ f, o ≠ .renameMan f) (hg : GoodDir (s.fs.vis.apply o))
    (hw : ∀ a w, s.actors a = .writer w → WInv (s.fs.vis.apply o) w) :
    Inv { s with fs := s.fs.op o } := by
  refine ⟨hi.fs.op_other o hn hg, hi.excl, hw, ?_, ?_⟩
  · intro a p ha hk
    refine ⟨?_, (hi.pr a p ha hk).2⟩
    intro t ht
    simp only [Fs.op] at ht
    rw [specs_apply_other _ _ hn] at ht
    exact (hi.pr a p ha hk).1 t ht
  · rcases hi.ren with h | h
    · exact Or.inl (NoRen.op_other hi.fs.coh h o hn)
    · exact Or.inr h

theorem inv_wStep {s : Sys} (hi : Inv s) (a : Nat) (w : Writer) (hw : s.actors a = .writer w)
    (hs : w.journal = true → w.pc = .compared → ∀ t ∈ w.new.specs, t ∈ s.fs.vis.tables) : Inv (s.wStep a w) := by
  have hwi := hi.wr a w hw
  unfold Sys.wStep
  split
  · -- idle → locked
    rename_i hpc
    have finish : (s.lock = none ∨ s.lock = some a) →
        Inv ({ s with lock := some a }.setActor a (.writer { w with pc := .locked })) := by
      intro hfree
      exact inv_setActor hi a (.writer { w with pc := .locked }) (some a)
        (excl_holder hi a _ hfree)
        (by intro w' h; cases h; exact WInv.vac (by simp) (by simp) (by simp) (by simp))
        (by intro q h; cases h)
        (ren_keep hi a _ (by intro w' h; rw [hw] at h; cases h; rw [hpc]; decide))
    by_cases hj : w.journal = true
    · simp only [hj, if_true]
      split
      · rename_i h; simpa [hj] using finish (Or.inr h)
      · exact hi
    · simp only [hj, Bool.false_eq_true, if_false]
      split
      · rename_i h; simpa [hj] using finish (Or.inl h)
      · exact hi
  all_goals
    rename_i hpc
    have hah : (s.actors a).holds = true := by rw [hw]; exact writer_holds (by rw [hpc]; decide)
    have hl := hi.excl a hah
  · -- locked → tempCreated
    have := inv_setActor hi a (.writer { w with pc := .tempCreated, tmp := some .partialW }) s.lock
      (by rw [hl]; exact excl_holder hi a _ (Or.inr hl))
      (by intro w' h; cases h; exact WInv.vac (by simp) (by simp) (by simp) (by simp))
      (by intro q h; cases h)
      (ren_keep hi a _ (by intro w' h; rw [hw] at h; cases h; rw [hpc]; decide))
    exact this
  · -- tempCreated → written / leave
    split
    · exact inv_leaveW hi a w (by intro w' h; rw [hw] at h; cases h; rw [hpc]; decide)
    · have := inv_setActor hi a (.writer { w with pc := .written, tmp := some (.complete w.new false) }) s.lock
        (by rw [hl]; exact excl_holder hi a _ (Or.inr hl))
        (by intro w' h; cases h; exact WInv.vac (by simp) (by simp) (by simp) (by simp))
        (by intro q h; cases h)
        (ren_keep hi a _ (by intro w' h; rw [hw] at h; cases h; rw [hpc]; decide))
      exact this
  · -- written → synced
    have := inv_setActor hi a (.writer { w with pc := .synced, tmp := some (.complete w.new true) }) s.lock
      (by rw [hl]; exact excl_holder hi a _ (Or.inr hl))
      (by
        intro w' h; cases h
        exact WInv.at_synced rfl rfl)
      (by intro q h; cases h)
      (ren_keep hi a _ (by intro w' h; rw [hw] at h; cases h; rw [hpc]; decide))
    exact this
  · -- synced → read / leave
    have htmp := hwi.tmp (Or.inl hpc)
    have hgood := hi.fs.vis_good
    split
    · rename_i hm
      have := inv_setActor hi a (.writer { w with pc := .read, seen := none }) s.lock
        (by rw [hl]; exact excl_holder hi a _ (Or.inr hl))
        (by
          intro w' h; cases h
          exact WInv.at_read (Or.inl rfl) htmp (by simpa [SeenOK] using hm))
        (by intro q h; cases h)
        (ren_keep hi a _ (by intro w' h; rw [hw] at h; cases h; rw [hpc]; decide))
      exact this
    · rename_i m sy hm
      have hsy : s.fs.vis.manifest = some (.complete m true) := by
        rcases hgood.1 with e | ⟨m', e⟩
        · rw [e] at hm; cases hm
        · rw [e] at hm; cases hm; exact e
      have := inv_setActor hi a (.writer { w with pc := .read, seen := some m }) s.lock
        (by rw [hl]; exact excl_holder hi a _ (Or.inr hl))
        (by
          intro w' h; cases h
          exact WInv.at_read (Or.inl rfl) htmp (by simpa [SeenOK] using hsy))
        (by intro q h; cases h)
        (ren_keep hi a _ (by intro w' h; rw [hw] at h; cases h; rw [hpc]; decide))
      exact this
    · exact inv_leaveW hi a w (by intro w' h; rw [hw] at h; cases h; rw [hpc]; decide)
  · -- read → compared / leave
    split
    · exact inv_leaveW hi a w (by intro w' h; rw [hw] at h; cases h; rw [hpc]; decide)
    · have := inv_setActor hi a (.writer { w with pc := .compared }) s.lock
        (by rw [hl]; exact excl_holder hi a _ (Or.inr hl))
        (by
          intro w' h; cases h
          exact WInv.at_read (Or.inr rfl) (hwi.tmp (Or.inr (Or.inl hpc))) (hwi.seen (Or.inl hpc)))
        (by intro q h; cases h)
        (ren_keep hi a _ (by intro w' h; rw [hw] at h; cases h; rw [hpc]; decide))
      exact this
  · -- compared → validated / leave
    split
    · rename_i hv
      have hseen := hwi.seen (Or.inr (Or.inl hpc))
      have hgood := hi.fs.vis_good
      have hpres : ∀ t ∈ w.new.specs, t ∈ s.fs.vis.tables := by
        by_cases hj : w.journal = true
        · exact hs hj hpc
        have hsp : specsPresent s.fs.vis w.seen w.new = true := by
          simp only [Bool.and_eq_true, Bool.or_eq_true] at hv
          rcases hv.2 with h | h
          · exact absurd h hj
          · exact h
        intro t ht
        unfold specsPresent at hsp
        rw [List.all_eq_true] at hsp
        have := hsp t ht
        simp only [Bool.or_eq_true, List.contains_iff_mem] at this
        rcases this with h1 | h2
        · -- already named by the manifest read under the lock, which is still the visible one
          apply hgood.2
          cases hseenv : w.seen with
          | none => rw [hseenv] at h1; simp [seenSpecs] at h1
          | some m =>
            rw [hseenv] at h1 hseen
            simp only [SeenOK] at hseen
            simpa [Dir.specs, hseen, seenSpecs] using h1
        · exact h2
      have := inv_setActor hi a (.writer { w with pc := .validated }) s.lock
        (by rw [hl]; exact excl_holder hi a _ (Or.inr hl))
        (by
          intro w' h; cases h
          exact ⟨fun _ => hwi.tmp (Or.inr (Or.inr (Or.inl hpc))), fun _ => hseen, fun _ => hpres⟩)
        (by intro q h; cases h)
        (ren_keep hi a _ (by intro w' h; rw [hw] at h; cases h; rw [hpc]; decide))
      exact this
    · exact inv_leaveW hi a w (by intro w' h; rw [hw] at h; cases h; rw [hpc]; decide)
  · -- validated → renamed
    have htmp := hwi.tmp (Or.inr (Or.inr (Or.inr hpc)))
    rw [htmp]
    simp only
    have hnr : NoRen s.fs := noRen_of_holder hi a hah (by intro w' h; rw [hw] at h; cases h; rw [hpc]; decide)
    have hfs := hi.fs.op_rename hnr w.new (hwi.present hpc)
    refine ⟨hfs, ?_, ?_, ?_, Or.inr ⟨a, { w with pc := .renamed, tmp := none }, by simp [Sys.setActor], rfl⟩⟩
    · intro b hb
      simp only [Sys.setActor] at hb ⊢
      by_cases e : b = a
      · rw [e]; exact hl
      · simp only [e, if_false] at hb; exact hi.excl b hb
    · intro b w' hb
      simp only [Sys.setActor] at hb
      by_cases e : b = a
      · simp only [e, if_true] at hb; cases hb
        exact WInv.vac (by simp) (by simp) (by simp) (by simp)
      · simp only [e, if_false] at hb
        -- any other writer is idle (it cannot hold the LOCK)
        have hidle : w'.pc = .idle := by
          by_cases hi' : w'.pc = .idle
          · exact hi'
          · have hbh : (s.actors b).holds = true := by rw [hb]; exact writer_holds hi'
            exact absurd (holders_eq hi hbh hah) e
        exact WInv.vac (by rw [hidle]; decide) (by rw [hidle]; decide) (by rw [hidle]; decide) (by rw [hidle]; decide)
    · intro b q hb hk
      simp only [Sys.setActor] at hb
      by_cases e : b = a
      · simp only [e, if_true] at hb; cases hb
      · simp only [e, if_false] at hb
        have hbh : (s.actors b).holds = true := by rw [hb]; simp [Actor.holds, hk]
        exact absurd (holders_eq hi hbh hah) e
  · -- renamed → dirSynced
    obtain ⟨hfs, hnr⟩ := hi.fs.syncDir
    refine ⟨hfs, ?_, ?_, ?_, Or.inl hnr⟩
    · intro b hb
      simp only [Sys.setActor] at hb ⊢
      by_cases e : b = a
      · rw [e]; exact hl
      · simp only [e, if_false] at hb; exact hi.excl b hb
    · intro b w' hb
      simp only [Sys.setActor] at hb
      by_cases e : b = a
      · simp only [e, if_true] at hb; cases hb
        exact WInv.vac (by simp) (by simp) (by simp) (by simp)
      · simp only [e, if_false] at hb
        exact hi.wr b w' hb
    · intro b q hb hk
      simp only [Sys.setActor] at hb
      by_cases e : b = a
      · simp only [e, if_true] at hb; cases hb
      · simp only [e, if_false] at hb
        exact hi.pr b q hb hk
  · -- dirSynced → leave
    exact inv_leaveW hi a w (by intro w' h; rw [hw] at h; cases h; rw [hpc]; decide)


theorem inv_step (s : Sys) (hi : Inv s) (st : Step) (hs : StepSafe s st) : Inv (s.step st) := by
  cases st with
  | land n =>
    simp only [Sys.step]
    exact inv_op_other hi _ (by intro f e; cases e) (good_add hi.fs.vis_good n)
      (fun a w ha => (hi.wr a w ha).mono rfl (fun t ht => mem_apply_add _ n t ht))
  | spawnWriter a l new gc =>
    simp only [Sys.step]
    split
    · rename_i hn
      have := inv_setActor hi a (.writer { lastLock := l, new := new, gc := gc, pc := .idle, tmp := none, seen := none }) s.lock
        (by
          intro b hb
          by_cases e : b = a
          · simp [e, Actor.holds] at hb
          · simp only [e, if_false] at hb; exact hi.excl b hb)
        (by intro w h; cases h; exact WInv.vac (by simp) (by simp) (by simp) (by simp))
        (by intro p h; cases h)
        (ren_keep hi a _ (by intro w h; rw [hn] at h; cases h))
      exact this
    · exact hi
  | spawnPruner a up =>
    simp only [Sys.step]
    split
    · rename_i hn
      have := inv_setActor hi a (.pruner { upstream := up, cands := [], keep := [], pc := .idle }) s.lock
        (by
          intro b hb
          by_cases e : b = a
          · simp [e, Actor.holds] at hb
          · simp only [e, if_false] at hb; exact hi.excl b hb)
        (by intro w h; cases h)
        (by intro p h hk; cases h; cases hk)
        (ren_keep hi a _ (by intro w h; rw [hn] at h; cases h))
      exact this
    · exact hi
  | spawnCleaner a names =>
    simp only [Sys.step]
    split
    · rename_i hn
      have := inv_setActor hi a (.cleaner names) s.lock
        (by
          intro b hb
          by_cases e : b = a
          · simp [e, Actor.holds] at hb
          · simp only [e, if_false] at hb; exact hi.excl b hb)
        (by intro w h; cases h) (by intro p h; cases h)
        (ren_keep hi a _ (by intro w h; rw [hn] at h; cases h))
      exact this
    · exact hi
  | retire a =>
    simp only [Sys.step]
    split
    · rename_i names hn
      have := inv_setActor hi a .none s.lock
        (by
          intro b hb
          by_cases e : b = a
          · simp [e, Actor.holds] at hb
          · simp only [e, if_false] at hb; exact hi.excl b hb)
        (by intro w h; cases h) (by intro p h; cases h)
        (ren_keep hi a _ (by intro w h; rw [hn] at h; cases h))
      exact this
    · exact hi
  | wFail a =>
    simp only [Sys.step]
    split
    · rename_i w hw
      split
      · exact hi
      · rename_i hpc
        exact inv_leaveW hi a w (by intro w' h; rw [hw] at h; cases h; intro e; exact hpc (Or.inl e))
    · exact hi
  | pAbort a =>
    simp only [Sys.step]
    split
    · rename_i p hp
      exact inv_leave hi a (by intro w h; rw [hp] at h; cases h)
    · exact hi
  | cUnlink a n =>
    simp only [Sys.step]
    split
    · rename_i names hn
      split
      · rename_i hc
        have hsafe : CSafe s n := hs names hn hc
        exact inv_op_other hi _ (by intro f e; cases e) (good_unlink hi.fs.vis_good n hsafe.1)
          (fun b w hb => (hi.wr b w hb).unlink n (hsafe.2 b w hb))
      · exact hi
    · exact hi
  | pUnlink a n =>
    simp only [Sys.step]
    split
    · rename_i p hp
      split
      · rename_i hc
        obtain ⟨hk, _, hnk⟩ := hc
        have hnot : n ∉ s.fs.vis.specs := by
          intro hin
          have := (hi.pr a p hp hk).1 n hin
          simp at hnk
          exact hnk this
        have hah : (s.actors a).holds = true := by rw [hp]; simp [Actor.holds, hk]
        refine inv_op_other hi _ (by intro f e; cases e) (good_unlink hi.fs.vis_good n hnot) ?_
        intro b w hb
        refine (hi.wr b w hb).unlink n ?_
        intro hv
        have hbh : (s.actors b).holds = true := by rw [hb]; exact writer_holds (by rw [hv]; decide)
        have := holders_eq hi hah hbh
        subst this
        rw [hp] at hb; cases hb
      · exact hi
    · exact hi
  | spawnJournalWriter a l new gc =>
    simp only [Sys.step]
    split
    · rename_i hn
      have := inv_setActor hi a (.writer { lastLock := l, new := new, gc := gc, pc := .idle, tmp := none, seen := none, journal := true }) s.lock
        (by
          intro b hb
          by_cases e : b = a
          · simp [e, Actor.holds] at hb
          · simp only [e, if_false] at hb; exact hi.excl b hb)
        (by intro w h; cases h; exact WInv.vac (by simp) (by simp) (by simp) (by simp))
        (by intro p h; cases h)
        (ren_keep hi a _ (by intro w h; rw [hn] at h; cases h))
      exact this
    · exact hi
  | jAcquire a =>
    simp only [Sys.step]
    split
    · rename_i hfree
      refine ⟨hi.fs, ?_, hi.wr, hi.pr, hi.ren⟩
      intro b hb
      have := hi.excl b hb
      rw [hfree] at this; cases this
    · exact hi
  | jRelease a =>
    simp only [Sys.step]
    split
    · rename_i hn
      refine ⟨hi.fs, ?_, hi.wr, hi.pr, hi.ren⟩
      intro b hb
      have hb' : (s.actors b).holds = true := hb
      have hl := hi.excl b hb'
      have hne : b ≠ a := by intro e; subst e; rw [hn] at hb'; simp [Actor.holds] at hb'
      simp only [Sys.release]
      have : s.lock ≠ some a := by rw [hl]; intro h; exact hne (by simpa using h)
      rw [if_neg this]; exact hl
    · exact hi
  | crash k =>
    simp only [Sys.step]
    obtain ⟨h1, h2⟩ := hi.fs.crash k
    exact ⟨h1, (by intro a h; simp [Actor.holds] at h), (by intro a w h; cases h), (by intro a p h; cases h), Or.inl h2⟩
  | p a =>
    simp only [Sys.step]
    split
    · rename_i p hp
      unfold Sys.pStep
      split
      · -- idle → snapped
        rename_i hpc
        have := inv_setActor hi a (.pruner { p with pc := .snapped, cands := s.fs.vis.tables }) s.lock
          (by
            intro b hb
            by_cases e : b = a
            · simp [e, Actor.holds] at hb
            · simp only [e, if_false] at hb; exact hi.excl b hb)
          (by intro w h; cases h)
          (by intro q h hk; cases h; cases hk)
          (ren_keep hi a _ (by intro w h; rw [hp] at h; cases h))
        exact this
      · -- snapped → locked
        rename_i hpc
        split
        · rename_i hfree
          have := inv_setActor hi a (.pruner { p with pc := .locked }) (some a)
            (excl_holder hi a _ (Or.inl hfree))
            (by intro w h; cases h)
            (by intro q h hk; cases h; cases hk)
            (ren_keep hi a _ (by intro w h; rw [hp] at h; cases h))
          exact this
        · exact hi
      · -- locked → keeping / leave
        rename_i hpc
        have hah : (s.actors a).holds = true := by rw [hp]; simp [Actor.holds, hpc]
        have hl := hi.excl a hah
        split
        · rename_i hm
          have := inv_setActor hi a (.pruner { p with pc := .keeping, keep := p.upstream }) s.lock
            (by rw [hl]; exact excl_holder hi a _ (Or.inr hl))
            (by intro w h; cases h)
            (by intro q h _; cases h; exact ⟨by intro t ht; simp [Dir.specs, hm] at ht, fun t ht => ht⟩)
            (ren_keep hi a _ (by intro w h; rw [hp] at h; cases h))
          exact this
        · rename_i m sy hm
          have := inv_setActor hi a (.pruner { p with pc := .keeping, keep := p.upstream ++ m.specs }) s.lock
            (by rw [hl]; exact excl_holder hi a _ (Or.inr hl))
            (by intro w h; cases h)
            (by intro q h _; cases h; exact ⟨by intro t ht; simp [Dir.specs, hm] at ht; simp [ht], fun t ht => List.mem_append_left _ ht⟩)
            (ren_keep hi a _ (by intro w h; rw [hp] at h; cases h))
          exact this
        · exact inv_leave hi a (by intro w h; rw [hp] at h; cases h)
      · exact inv_leave hi a (by intro w h; rw [hp] at h; cases h)
    · exact hi
  | w a =>
    simp only [Sys.step]
    split
    · rename_i w hw
      split
      · exact hi
      · rename_i hj
        exact inv_wStep hi a w hw (by intro h; exact absurd h hj)
    · exact hi
  | jw a =>
    simp only [Sys.step]
    split
    · rename_i w hw
      split
      · rename_i hj
        exact inv_wStep hi a w hw (fun _ => hs w hw hj)
      · exact hi
    · exact hi

end DoltVerif.ManFs
