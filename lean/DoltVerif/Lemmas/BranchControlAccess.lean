import DoltVerif.Model.BranchControl
/-!
C38 helper lemmas, part 2: the longest-match loop of `Access.MatchIgnoringRow`.  Core Lean only.
-/
set_option linter.unusedSimpArgs false
namespace DoltVerif.BranchControl

/-- the greatest pattern length among the results (0 when there is none) -/
def maxLen : List (Data × Nat) → Nat
  | [] => 0
  | r :: rs => max r.2 (maxLen rs)

/-- OR of the permissions of the results whose length is exactly `L` -/
def orAt : List (Data × Nat) → Nat → Nat
  | [], _ => 0
  | r :: rs, L => (if r.2 = L then r.1.perms else 0) ||| orAt rs L

theorem longestLoop_inv : ∀ (rs : List (Data × Nat)) (len perms : Nat),
    longestLoop none rs len perms =
      if maxLen rs > len then (maxLen rs, orAt rs (maxLen rs)) else (len, perms ||| orAt rs len) := by
  intro rs
  induction rs with
  | nil => intro len perms; simp [longestLoop, maxLen, orAt]
  | cons r rs ih =>
    intro len perms
    obtain ⟨d, l⟩ := r
    have hno : (none : Option Nat) ≠ some d.row := by simp
    simp only [longestLoop, hno, if_false, maxLen, orAt]
    by_cases h1 : l > len
    · simp only [h1, if_true, ih]
      by_cases h2 : maxLen rs > l
      · have hm : max l (maxLen rs) = maxLen rs := by omega
        have hne : ¬ l = maxLen rs := by omega
        have hgt : maxLen rs > len := by omega
        simp [h2, hm, hne, hgt]
      · have hm : max l (maxLen rs) = l := by omega
        simp [h2, hm, h1]
    · simp only [h1, if_false]
      by_cases h3 : l = len
      · subst h3
        simp only [if_true, ih]
        by_cases h2 : maxLen rs > l
        · have hm : max l (maxLen rs) = maxLen rs := by omega
          have hne : ¬ l = maxLen rs := by omega
          simp [h2, hm, hne]
        · have hm : max l (maxLen rs) = l := by omega
          simp [h2, hm, Nat.or_assoc]
      · simp only [h3, if_false, ih]
        by_cases h2 : maxLen rs > len
        · have hm : max l (maxLen rs) = maxLen rs := by omega
          have hne : ¬ l = maxLen rs := by omega
          simp [h2, hm, hne]
        · have hm : ¬ max l (maxLen rs) > len := by omega
          simp [h2, hm, h3]

theorem longestLoop_spec (rs : List (Data × Nat)) :
    longestLoop none rs 0 0 = (maxLen rs, orAt rs (maxLen rs)) := by
  rw [longestLoop_inv]
  by_cases h : maxLen rs > 0
  · simp [h]
  · have : maxLen rs = 0 := by omega
    simp [this]

end DoltVerif.BranchControl
