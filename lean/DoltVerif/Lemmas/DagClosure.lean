import DoltVerif.Lemmas.Dag
/-! Heights and closures of graphs built by `addCommit` (family Dag).  Core Lean only. -/
namespace DoltVerif.Dag

/-! ### maxHeight -/

theorem foldl_max_ge (hs : List Nat) (m : Nat) :
    m ≤ hs.foldl (fun m h => if h > m then h else m) m := by
  induction hs generalizing m with
  | nil => exact Nat.le_refl _
  | cons h t ih =>
    simp only [List.foldl_cons]
    split
    · exact Nat.le_trans (Nat.le_of_lt (by assumption)) (ih _)
    · exact ih _

theorem foldl_max_mem (hs : List Nat) (m : Nat) {x : Nat} (hx : x ∈ hs) :
    x ≤ hs.foldl (fun m h => if h > m then h else m) m := by
  induction hs generalizing m with
  | nil => cases hx
  | cons h t ih =>
    simp only [List.foldl_cons]
    cases hx with
    | head =>
      split
      · exact foldl_max_ge _ _
      · exact Nat.le_trans (by omega) (foldl_max_ge _ _)
    | tail _ hx' => exact ih _ hx'

theorem foldl_max_attained (hs : List Nat) (m : Nat) :
    hs.foldl (fun m h => if h > m then h else m) m = m ∨
    hs.foldl (fun m h => if h > m then h else m) m ∈ hs := by
  induction hs generalizing m with
  | nil => exact .inl rfl
  | cons h t ih =>
    simp only [List.foldl_cons]
    split
    · rcases ih h with h1 | h1
      · rw [h1]; exact .inr (List.mem_cons_self)
      · exact .inr (List.mem_cons_of_mem _ h1)
    · rcases ih m with h1 | h1
      · exact .inl h1
      · exact .inr (List.mem_cons_of_mem _ h1)

theorem le_maxHeight {hs : List Nat} {x : Nat} (hx : x ∈ hs) : x ≤ maxHeight hs := foldl_max_mem hs 0 hx

theorem maxHeight_attained (hs : List Nat) : maxHeight hs = 0 ∨ maxHeight hs ∈ hs := foldl_max_attained hs 0

theorem maxHeight_le {hs : List Nat} {b : Nat} (h : ∀ x ∈ hs, x ≤ b) : maxHeight hs ≤ b := by
  rcases maxHeight_attained hs with h0 | hm
  · omega
  · exact h _ hm

/-! ### klt is a strict total order on keys -/

theorem klt_irrefl : ∀ (a : Key), ¬ klt a a
  | (x, y) => by simp only [klt]; omega

theorem klt_trans : ∀ {a b c : Key}, klt a b → klt b c → klt a c
  | (x1, y1), (x2, y2), (x3, y3), h1, h2 => by simp only [klt] at *; omega

theorem klt_trichotomy (a b : Key) : klt a b ∨ a = b ∨ klt b a := by
  unfold klt
  rcases Nat.lt_trichotomy a.1 b.1 with h | h | h
  · exact .inl (.inl h)
  · rcases Nat.lt_trichotomy a.2 b.2 with h' | h' | h'
    · exact .inl (.inr ⟨h, h'⟩)
    · exact .inr (.inl (Prod.ext h h'))
    · exact .inr (.inr (.inr ⟨h.symm, h'⟩))
  · exact .inr (.inr (.inl h))

theorem klt_asymm : ∀ {a b : Key}, klt a b → ¬ klt b a
  | (x1, y1), (x2, y2), h => by simp only [klt] at *; omega

/-! ### insertKey -/

theorem mem_insertKey {k x : Key} {l : List Key} : x ∈ insertKey k l ↔ x = k ∨ x ∈ l := by
  induction l with
  | nil => simp [insertKey]
  | cons y ys ih =>
    unfold insertKey
    split
    · simp
    · split
      · rename_i _ heq
        subst heq
        simp
      · simp only [List.mem_cons, ih]
        constructor
        · rintro (h | h | h)
          · exact .inr (.inl h)
          · exact .inl h
          · exact .inr (.inr h)
        · rintro (h | h | h)
          · exact .inr (.inl h)
          · exact .inl h
          · exact .inr (.inr h)

theorem sorted_insertKey {k : Key} {l : List Key} (h : l.Pairwise klt) : (insertKey k l).Pairwise klt := by
  induction l with
  | nil => simp [insertKey]
  | cons y ys ih =>
    unfold insertKey
    rw [List.pairwise_cons] at h
    split
    · rename_i hlt
      rw [List.pairwise_cons]
      refine ⟨?_, List.pairwise_cons.2 h⟩
      intro z hz
      cases hz with
      | head => exact hlt
      | tail _ hz' => exact klt_trans hlt (h.1 z hz')
    · split
      · exact List.pairwise_cons.2 h
      · rename_i hnlt hne
        rw [List.pairwise_cons]
        refine ⟨?_, ih h.2⟩
        intro z hz
        rcases mem_insertKey.1 hz with hzk | hz'
        · subst hzk
          rcases klt_trichotomy z y with h1 | h1 | h1
          · exact absurd h1 hnlt
          · exact absurd h1 hne
          · exact h1
        · exact h.1 z hz'

theorem mem_foldl_insertKey {puts base : List Key} {x : Key} :
    x ∈ puts.foldl (fun acc k => insertKey k acc) base ↔ x ∈ puts ∨ x ∈ base := by
  induction puts generalizing base with
  | nil => simp
  | cons p ps ih =>
    simp only [List.foldl_cons, ih, mem_insertKey, List.mem_cons]
    constructor
    · rintro (h | h | h)
      · exact .inl (.inr h)
      · exact .inl (.inl h)
      · exact .inr h
    · rintro ((h | h) | h)
      · exact .inr (.inl h)
      · exact .inl h
      · exact .inr (.inr h)

theorem sorted_foldl_insertKey {puts base : List Key} (h : base.Pairwise klt) :
    (puts.foldl (fun acc k => insertKey k acc) base).Pairwise klt := by
  induction puts generalizing base with
  | nil => exact h
  | cons p ps ih => exact ih (sorted_insertKey h)

/-! ### parentClosure -/

theorem mem_parentClosure {ps : List Commit} {k : Key} :
    k ∈ parentClosure ps ↔ ∃ p ∈ ps, k = p.key ∨ k ∈ p.closure := by
  cases ps with
  | nil => simp [parentClosure]
  | cons p0 rest =>
    simp only [parentClosure, mem_foldl_insertKey, List.mem_append, List.mem_flatMap, List.mem_filter,
      List.mem_map, List.mem_cons]
    constructor
    · rintro ((⟨p, hp, hk, _⟩ | ⟨p, hp, hk⟩) | h)
      · exact ⟨p, .inr hp, .inr hk⟩
      · exact ⟨p, hp, .inl hk.symm⟩
      · exact ⟨p0, .inl rfl, .inr h⟩
    · rintro ⟨p, hp, hk | hk⟩
      · exact .inl (.inr ⟨p, hp, hk.symm⟩)
      · rcases hp with hp | hp
        · subst hp; exact .inr hk
        · by_cases hin : k ∈ p0.closure
          · exact .inr hin
          · exact .inl (.inl ⟨p, hp, hk, by simpa using hin⟩)

theorem sorted_parentClosure {ps : List Commit} (h : ∀ p ∈ ps, p.closure.Pairwise klt) :
    (parentClosure ps).Pairwise klt := by
  cases ps with
  | nil => simp [parentClosure]
  | cons p0 rest => exact sorted_foldl_insertKey (h p0 (List.mem_cons_self))

/-! ### heights -/

theorem height_parent_lt {g : Graph} (hi : Inv g) {a c : Addr} {ac cc : Commit}
    (hp : IsParent g a c) (ha : lookup g a = some ac) (hc : lookup g c = some cc) : ac.height < cc.height := by
  induction g with
  | nil => simp [lookup] at hc
  | cons d g ih =>
    obtain ⟨hi1, hfresh, ps, hl, hh, _⟩ := hi
    by_cases hdc : d.addr = c
    · subst hdc
      have hm := isParent_cons_new.1 hp
      rw [lookup_cons] at hc
      simp at hc
      subst hc
      obtain ⟨p, hpm, hpa⟩ := loadParents_mem hl hm
      have hlk := (loadParents_ok hl).2 p hpm
      rw [hpa] at hlk
      have := lookup_cons_of_some hfresh hlk
      rw [this] at ha
      have hpe : p = ac := Option.some.inj ha
      subst hpe
      rw [hh]
      have : p.height ≤ maxHeight (ps.map (·.height)) := le_maxHeight (List.mem_map.2 ⟨p, hpm, rfl⟩)
      omega
    · have hp' := (isParent_cons_old hdc).1 hp
      rw [lookup_cons] at hc
      simp [hdc] at hc
      obtain ⟨ac', hac'⟩ := parent_stored hi1 hp'
      have := lookup_cons_of_some hfresh hac'
      rw [this] at ha
      cases ha
      exact ih hi1 hp' hac' hc

theorem height_anc_lt {g : Graph} (hi : Inv g) {a c : Addr} (h : Anc g a c) {ac cc : Commit}
    (ha : lookup g a = some ac) (hc : lookup g c = some cc) : ac.height < cc.height := by
  induction h generalizing cc with
  | parent hp => exact height_parent_lt hi hp ha hc
  | @step p c h1 hp ih =>
    obtain ⟨pc, hpc⟩ := parent_stored hi hp
    exact Nat.lt_trans (ih hpc) (height_parent_lt hi hp hpc hc)

theorem height_pos {g : Graph} (hi : Inv g) {c : Commit} (hm : c ∈ g) : 1 ≤ c.height := by
  induction g with
  | nil => cases hm
  | cons d g ih =>
    obtain ⟨hi1, _, ps, _, hh, _⟩ := hi
    cases hm with
    | head => omega
    | tail _ hm' => exact ih hi1 hm'

/-! ### the closure lists exactly the proper ancestors, keyed by their heights -/

theorem closure_mem_iff : ∀ {g : Graph}, Inv g → ∀ {c : Commit}, c ∈ g → ∀ {k : Key},
    (k ∈ c.closure ↔ ∃ ac, Anc g ac.addr c.addr ∧ lookup g ac.addr = some ac ∧ k = ac.key)
  | [], _, _, hm, _ => by cases hm
  | d :: g, hi, c, hm, k => by
    obtain ⟨hi1, hfresh, ps, hl, hh, hcl⟩ := hi
    have hi' : Inv (d :: g) := ⟨hi1, hfresh, ps, hl, hh, hcl⟩
    cases hm with
    | head =>
      rw [hcl, mem_parentClosure]
      constructor
      · rintro ⟨p, hp, hk⟩
        have hlp := (loadParents_ok hl).2 p hp
        have hpm : p.addr ∈ d.parents := by
          rw [← (loadParents_ok hl).1]; exact List.mem_map.2 ⟨p, hp, rfl⟩
        have hpg : p ∈ g := (lookup_some hlp).1
        rcases hk with hk | hk
        · exact ⟨p, (anc_cons_new hi').2 (.inl hpm), lookup_cons_of_some hfresh hlp, hk⟩
        · obtain ⟨ac, h1, h2, h3⟩ := (closure_mem_iff hi1 hpg).1 hk
          exact ⟨ac, (anc_cons_new hi').2 (.inr ⟨p.addr, hpm, h1⟩), lookup_cons_of_some hfresh h2, h3⟩
      · rintro ⟨ac, h1, h2, h3⟩
        rcases (anc_cons_new hi').1 h1 with hpar | ⟨pa, hpa, hanc⟩
        · obtain ⟨p, hp, hpe⟩ := loadParents_mem hl hpar
          have hlp := (loadParents_ok hl).2 p hp
          have := lookup_cons_of_some hfresh hlp
          rw [hpe, h2] at this
          cases this
          exact ⟨ac, hp, .inl h3⟩
        · obtain ⟨p, hp, hpe⟩ := loadParents_mem hl hpa
          have hlp := (loadParents_ok hl).2 p hp
          have hpg : p ∈ g := (lookup_some hlp).1
          obtain ⟨ac', hac'⟩ := anc_stored hi1 hanc
          have := lookup_cons_of_some hfresh hac'
          rw [h2] at this
          cases this
          refine ⟨p, hp, .inr ((closure_mem_iff hi1 hpg).2 ⟨ac, ?_, hac', h3⟩)⟩
          rw [hpe]; exact hanc
    | tail _ hm' =>
      have hcs := lookup_self_of_inv hi1 hm'
      rw [closure_mem_iff hi1 hm']
      constructor
      · rintro ⟨ac, h1, h2, h3⟩
        exact ⟨ac, anc_cons_mono hfresh h1, lookup_cons_of_some hfresh h2, h3⟩
      · rintro ⟨ac, h1, h2, h3⟩
        have h1' := anc_cons_old hi1 hfresh (by rw [hcs]; rfl) h1
        obtain ⟨ac', hac'⟩ := anc_stored hi1 h1'
        have := lookup_cons_of_some hfresh hac'
        rw [h2] at this
        cases this
        exact ⟨ac, h1', hac', h3⟩

theorem closure_sorted : ∀ {g : Graph}, Inv g → ∀ {c : Commit}, c ∈ g → c.closure.Pairwise klt
  | [], _, _, hm => by cases hm
  | d :: g, hi, c, hm => by
    obtain ⟨hi1, _, ps, hl, _, hcl⟩ := hi
    cases hm with
    | head =>
      rw [hcl]
      apply sorted_parentClosure
      intro p hp
      exact closure_sorted hi1 (lookup_some ((loadParents_ok hl).2 p hp)).1
    | tail _ hm' => exact closure_sorted hi1 hm'

end DoltVerif.Dag
