import DoltVerif.Lemmas.BranchControlLike
import DoltVerif.Lemmas.BranchControlTrie
/-!
C38 helper lemmas, part 8: the per-rule direct match on concatenated keys = LIKE column by column
(for plain requests), and the length it reports = the length of the rule key.  Core Lean only.
-/
set_option linter.unusedSimpArgs false
namespace DoltVerif.BranchControl

/-- the direct step on the key alone -/
def kstep (k : List Int) (c : Int) : List (List Int) :=
  match k with
  | [] => []
  | x :: q =>
    if x = singleMatch then (if c < singleMatch then [] else [q])
    else if x = anyMatch then
      (match q with
        | z :: q' => if z = c then [q'] else []
        | [] => [])
      ++ (if c ≠ columnMarker then [x :: q] else [])
    else if c = x then [q] else []

/-- acceptance of a whole concatenated request by one concatenated rule key -/
def dacc : List Int → List Int → Bool
  | k, [] => k == [] || k == [anyMatch]
  | k, c :: t => (kstep k c).any (fun q => dacc q t)

theorem dacc_nil (k : List Int) : dacc k [] = (k == [] || k == [anyMatch]) := by
  cases k <;> rfl

theorem dacc_cons (k : List Int) (c : Int) (t : List Int) : dacc k (c :: t) = (kstep k c).any (fun q => dacc q t) := by
  cases k <;> rfl

/-- no column marker inside, nothing below `anyMatch` -/
def plainPat (p : List Int) : Prop := ∀ x ∈ p, x = singleMatch ∨ x = anyMatch ∨ 0 ≤ x

/-- what may follow a column: nothing, or the next column marker -/
def colEnd (l : List Int) : Prop := l = [] ∨ ∃ t, l = columnMarker :: t

theorem marker_facts : columnMarker ≠ singleMatch ∧ columnMarker ≠ anyMatch ∧ columnMarker < singleMatch ∧
    ¬ (0 : Int) ≤ columnMarker := by decide

/-- **one column**: reading the column `s` (then `S'`) with the column pattern `p` (then `P'`) =
`p` LIKE-matches `s`, and the rest goes on -/
theorem dacc_column : ∀ (s : List Int) (p P' S' : List Int), folded p = true → plainPat p →
    (∀ c ∈ s, 0 ≤ c) → colEnd P' → colEnd S' →
    dacc (p ++ P') (s ++ S') = (likeSpec p s && dacc P' S') := by
  obtain ⟨m1, m2, m3, m4⟩ := marker_facts
  intro s
  induction s with
  | nil =>
    intro p P' S' hf hp _ hP hS
    simp only [List.nil_append]
    cases p with
    | nil => simp [likeSpec]
    | cons x q =>
      have hq := folded_tail x q hf
      have hx := hp x (by simp)
      by_cases hxa : x = anyMatch
      · subst hxa
        rw [likeSpec_any_nil]
        cases q with
        | nil =>
          -- `%` at the end of the column
          simp only [List.cons_append, List.nil_append, likeSpec, List.isEmpty_nil, Bool.true_and]
          rcases hS with rfl | ⟨S'', rfl⟩
          · rcases hP with rfl | ⟨P'', rfl⟩
            · simp [dacc_nil]
            · simp [dacc_nil, m2]
          · rw [dacc_cons]
            rcases hP with rfl | ⟨P'', rfl⟩
            · simp [kstep, any_ne_single, dacc_cons]
            · simp [kstep, any_ne_single, dacc_cons, m1, m2]
        | cons z q' =>
          have hz1 : z ≠ anyMatch := by intro h; subst h; simp [folded] at hf
          have hz2 : z ≠ singleMatch := by intro h; subst h; simp [folded] at hf
          have hz := hp z (by simp)
          have hz0 : 0 ≤ z := by rcases hz with h | h | h; exact absurd h hz2; exact absurd h hz1; exact h
          rw [likeSpec_cons_nil z q' hz1]
          simp only [Bool.false_and, List.cons_append]
          rcases hS with rfl | ⟨S'', rfl⟩
          · simp [dacc_nil]
          · rw [dacc_cons]
            have : z ≠ columnMarker := by intro h; rw [h] at hz0; exact m4 hz0
            simp [kstep, any_ne_single, this]
      · rw [likeSpec_cons_nil x q hxa]
        simp only [Bool.false_and, List.cons_append]
        rcases hS with rfl | ⟨S'', rfl⟩
        · simp [dacc_nil, hxa]
        · rw [dacc_cons]
          by_cases hxs : x = singleMatch
          · subst hxs; simp [kstep, m3]
          · have hx0 : 0 ≤ x := by rcases hx with h | h | h; exact absurd h hxs; exact absurd h hxa; exact h
            have : columnMarker ≠ x := by intro h; rw [← h] at hx0; exact m4 hx0
            simp [kstep, hxs, hxa, this]
  | cons c s ih =>
    intro p P' S' hf hp hs hP hS
    have hc : 0 ≤ c := hs c (by simp)
    have hs' : ∀ c ∈ s, 0 ≤ c := fun a ha => hs a (by simp [ha])
    have hcm : c ≠ columnMarker := by intro h; rw [h] at hc; exact m4 hc
    simp only [List.cons_append]
    rw [dacc_cons]
    cases p with
    | nil =>
      simp only [List.nil_append, likeSpec, List.isEmpty_cons, Bool.false_and]
      rcases hP with rfl | ⟨P'', rfl⟩
      · simp [kstep]
      · simp [kstep, m1, m2, hcm]
    | cons x q =>
      have hq := folded_tail x q hf
      have hpq : plainPat q := fun y hy => hp y (by simp [hy])
      have hx := hp x (by simp)
      simp only [List.cons_append]
      by_cases h1 : x = singleMatch
      · subst h1
        have hlt : ¬ c < singleMatch := by simp only [singleMatch]; omega
        rw [likeSpec_cons_cons _ _ _ _ any_ne_single.symm]
        simp [kstep, hlt, ih q P' S' hq hpq hs' hP hS]
      · by_cases h2 : x = anyMatch
        · subst h2
          rw [likeSpec_any_cons]
          have hstay := ih (anyMatch :: q) P' S' hf hp hs' hP hS
          simp only [List.cons_append] at hstay
          cases q with
          | nil =>
            simp only [List.nil_append] at hstay ⊢
            rcases hP with rfl | ⟨P'', rfl⟩
            · simp [kstep, any_ne_single, hcm, hstay, likeSpec]
            · have hmc : ¬ columnMarker = c := fun h => hcm h.symm
              simp [kstep, any_ne_single, hcm, hmc, hstay, likeSpec]
          | cons z q' =>
            have hz1 : z ≠ anyMatch := by intro h; subst h; simp [folded] at hf
            have hz2 : z ≠ singleMatch := by intro h; subst h; simp [folded] at hf
            have hq' := folded_tail z q' hq
            have hpq' : plainPat q' := fun y hy => hpq y (by simp [hy])
            rw [likeSpec_cons_cons z q' c s hz1]
            simp only [List.cons_append] at hstay ⊢
            by_cases hzc : z = c
            · subst hzc
              simp only [kstep, any_ne_single, if_false, if_true, hcm, ne_eq, not_false_eq_true,
                List.cons_append, List.any_cons, List.any_nil, Bool.or_false, List.nil_append,
                List.singleton_append, hstay, ih q' P' S' hq' hpq' hs' hP hS]
              simp [hz2]
              cases likeSpec q' s <;> cases dacc P' S' <;> simp
            · simp only [kstep, any_ne_single, if_false, if_true, hzc, hcm, ne_eq, not_false_eq_true,
                List.nil_append, List.any_cons, List.any_nil, Bool.or_false, hstay]
              simp [hz2, hzc]
        · have hx0 : 0 ≤ x := by rcases hx with h | h | h; exact absurd h h1; exact absurd h h2; exact h
          rw [likeSpec_cons_cons x q c s h2]
          by_cases hxc : c = x
          · subst hxc
            simp [kstep, h1, h2, ih q P' S' hq hpq hs' hP hS]
          · have hxc' : ¬ x = c := fun h => hxc h.symm
            simp [kstep, h1, h2, hxc, hxc']


theorem dacc_marker (X Y : List Int) : dacc (columnMarker :: X) (columnMarker :: Y) = dacc X Y := by
  obtain ⟨m1, m2, _, _⟩ := marker_facts
  rw [dacc_cons]
  simp [kstep, m1, m2]

/-- **four columns**: a concatenated rule key accepts a concatenated plain request iff every column
LIKE-matches -/
theorem dacc_parse4 (p1 p2 p3 p4 s1 s2 s3 s4 : List Int)
    (hf : folded p1 = true ∧ folded p2 = true ∧ folded p3 = true ∧ folded p4 = true)
    (hp : plainPat p1 ∧ plainPat p2 ∧ plainPat p3 ∧ plainPat p4)
    (hs : (∀ c ∈ s1, 0 ≤ c) ∧ (∀ c ∈ s2, 0 ≤ c) ∧ (∀ c ∈ s3, 0 ≤ c) ∧ (∀ c ∈ s4, 0 ≤ c)) :
    dacc (columnMarker :: p1 ++ columnMarker :: p2 ++ columnMarker :: p3 ++ columnMarker :: p4)
         (columnMarker :: s1 ++ columnMarker :: s2 ++ columnMarker :: s3 ++ columnMarker :: s4) =
      (likeSpec p1 s1 && likeSpec p2 s2 && likeSpec p3 s3 && likeSpec p4 s4) := by
  have e4 := dacc_column s4 p4 [] [] hf.2.2.2 hp.2.2.2 hs.2.2.2 (Or.inl rfl) (Or.inl rfl)
  simp only [List.append_nil] at e4
  have e3 := dacc_column s3 p3 (columnMarker :: p4) (columnMarker :: s4) hf.2.2.1 hp.2.2.1 hs.2.2.1
    (Or.inr ⟨_, rfl⟩) (Or.inr ⟨_, rfl⟩)
  have e2 := dacc_column s2 p2 (columnMarker :: p3 ++ columnMarker :: p4) (columnMarker :: s3 ++ columnMarker :: s4)
    hf.2.1 hp.2.1 hs.2.1 (Or.inr ⟨_, rfl⟩) (Or.inr ⟨_, rfl⟩)
  have e1 := dacc_column s1 p1 (columnMarker :: p2 ++ columnMarker :: p3 ++ columnMarker :: p4)
    (columnMarker :: s2 ++ columnMarker :: s3 ++ columnMarker :: s4)
    hf.1 hp.1 hs.1 (Or.inr ⟨_, rfl⟩) (Or.inr ⟨_, rfl⟩)
  simp only [List.cons_append, List.append_assoc] at e1 e2 e3 ⊢
  rw [dacc_marker, e1, dacc_marker, e2, dacc_marker, e3, dacc_marker, e4, dacc_nil]
  simp [Bool.and_assoc]

/-! ### the direct match in terms of `dacc`, with its length -/

theorem mem_dstep (k : List Int) (d : Data) (l : Nat) (c : Int) (y : RS) :
    y ∈ dstep (k, d, l) c ↔ ∃ q ∈ kstep k c, q.length ≤ k.length ∧ y = (q, d, l + (k.length - q.length)) := by
  cases k with
  | nil => simp [dstep, kstep]
  | cons x q =>
    rw [dstep_cons]
    simp only [kstep]
    by_cases h1 : x = singleMatch
    · by_cases hc : c < singleMatch
      · simp [h1, hc]
      · simp [h1, hc]
    · by_cases h2 : x = anyMatch
      · subst h2
        simp only [any_ne_single, if_false, if_true, List.mem_append]
        cases q with
        | nil =>
          by_cases hcm : c ≠ columnMarker
          · simp [hcm]
          · simp [hcm]
        | cons z q' =>
          by_cases hz : z = c
          · by_cases hcm : c ≠ columnMarker
            · simp only [hz, hcm, if_true, List.mem_singleton, ne_eq, not_false_eq_true, List.mem_cons,
                List.not_mem_nil, or_false, List.nil_append, List.singleton_append]
              constructor
              · rintro (rfl | rfl)
                · exact ⟨q', Or.inl rfl, by simp; omega, by simp; omega⟩
                · exact ⟨_, Or.inr rfl, by simp, by simp⟩
              · rintro ⟨q0, (rfl | rfl), _, rfl⟩
                · left; simp; omega
                · right; simp
            · simp only [hz, hcm, if_true, if_false, List.mem_singleton, List.append_nil, List.not_mem_nil, or_false]
              constructor
              · rintro rfl; exact ⟨q', rfl, by simp; omega, by simp; omega⟩
              · rintro ⟨q0, rfl, _, rfl⟩; simp; omega
          · by_cases hcm : c ≠ columnMarker
            · simp [hz, hcm]
            · simp [hz, hcm]
      · by_cases hc : c = x
        · simp [h1, h2, hc]
        · simp [h1, h2, hc]

theorem dreach_dacc : ∀ (toks : List Int) (k : List Int) (d : Data) (l : Nat) (r : Data × Nat),
    (∃ z, dreach (k, d, l) toks z ∧ dfin z = some r) ↔ (dacc k toks = true ∧ r = (d, l + k.length)) := by
  intro toks
  induction toks with
  | nil =>
    intro k d l r
    simp only [dreach, exists_eq_left, dfin, dacc_nil]
    by_cases h0 : k = []
    · subst h0; simp [eq_comm]
    · by_cases h1 : k = [anyMatch]
      · subst h1; simp [eq_comm]
      · simp [h0, h1]
  | cons c t ih =>
    intro k d l r
    simp only [dreach, dacc_cons, List.any_eq_true]
    constructor
    · rintro ⟨z, ⟨y', hy', hr⟩, hf⟩
      obtain ⟨q, hq, hle, rfl⟩ := (mem_dstep k d l c y').mp hy'
      obtain ⟨ha, hre⟩ := (ih q d _ r).mp ⟨z, hr, hf⟩
      refine ⟨⟨q, hq, ha⟩, ?_⟩
      rw [hre]; congr 1; omega
    · rintro ⟨⟨q, hq, ha⟩, hre⟩
      have hmem : q.length ≤ k.length := by
        cases k with
        | nil => simp [kstep] at hq
        | cons x k' =>
          simp only [kstep] at hq
          by_cases h1 : x = singleMatch
          · by_cases hc : c < singleMatch
            · simp [h1, hc] at hq
            · simp [h1, hc] at hq; subst hq; simp
          · by_cases h2 : x = anyMatch
            · subst h2
              simp only [any_ne_single, if_false, if_true, List.mem_append] at hq
              rcases hq with hq | hq
              · cases k' with
                | nil => simp at hq
                | cons z q' =>
                  by_cases hz : z = c
                  · simp [hz] at hq; subst hq; simp; omega
                  · simp [hz] at hq
              · by_cases hcm : c ≠ columnMarker
                · simp [hcm] at hq; subst hq; simp
                · simp [hcm] at hq
            · by_cases hc : c = x
              · simp [h1, h2, hc] at hq; subst hq; simp
              · simp [h1, h2, hc] at hq
      obtain ⟨z, hr, hf⟩ := (ih q d (l + (k.length - q.length)) r).mpr ⟨ha, by rw [hre]; congr 1; omega⟩
      exact ⟨z, ⟨_, (mem_dstep k d l c _).mpr ⟨q, hq, hmem, rfl⟩, hr⟩, hf⟩

/-- **the per-rule direct match**: the rule alone accepts (`dacc`) and reports its own length -/
theorem direct_iff (k : List Int) (d : Data) (hk : k ≠ []) (toks : List Int) (r : Data × Nat) :
    r ∈ (Node.mk k [] (some d)).matchTokens toks ↔ (dacc k toks = true ∧ r = (d, k.length)) := by
  rw [match_iff _ (by simp [wfN, wfL, hk]) (by simp [noAnyLeafN, noAnyLeafL])]
  simp only [rulesN, rulesL, List.map_nil, List.append_nil, List.mem_singleton]
  constructor
  · rintro ⟨kd, rfl, h⟩
    simpa using (dreach_dacc toks k d 0 r).mp h
  · intro h
    exact ⟨(k, d), rfl, (dreach_dacc toks k d 0 r).mpr (by simpa using h)⟩

end DoltVerif.BranchControl
