import DoltVerif.Lemmas.ValCodecOrder
/-! Every ordered encoding compares by an order key of the decoded value (C15). -/
namespace DoltVerif.ValCodec

def mapKey {α : Type} (r : Except Err α) (f : α → Key) : Except Err Key :=
  match r with
  | .ok v => .ok (f v)
  | .error e => .error e

theorem mapKey_ok {α : Type} {r : Except Err α} {f : α → Key} {k : Key} (h : mapKey r f = .ok k) :
    ∃ v, r = .ok v ∧ f v = k := by
  cases r with
  | error e => simp [mapKey] at h
  | ok v => exact ⟨v, rfl, by simpa [mapKey] using h⟩

/-- the order key of a field of encoding `e`: the integer value, the absolute day number of a date,
the sign-magnitude key of a non-NaN float, the byte string.  Not defined (error) for NaN floats,
decimals (ordered by exact value, see `Props/C15`), adaptive and unordered encodings. -/
def keyOf (e : Enc) (b : Bytes) : Except Err Key :=
  match e with
  | .int8 => mapKey (readI8 b) (fun v => .inl v.toInt)
  | .uint8 => mapKey (readU8 b) (fun v => .inl v.toNat)
  | .int16 => mapKey (readI16 b) (fun v => .inl v.toInt)
  | .uint16 | .enum => mapKey (readU16 b) (fun v => .inl v.toNat)
  | .int32 => mapKey (readI32 b) (fun v => .inl v.toInt)
  | .uint32 => mapKey (readU32 b) (fun v => .inl v.toNat)
  | .int64 | .time | .datetime => mapKey (readI64 b) (fun v => .inl v.toInt)
  | .uint64 | .bit64 | .set => mapKey (readU64 b) (fun v => .inl v.toNat)
  | .float32 => match readU32 b with
      | .ok v => if f32IsNaN v then .error .domain else .ok (.inl (f32Key v))
      | .error e => .error e
  | .float64 => match readU64 b with
      | .ok v => if f64IsNaN v then .error .domain else .ok (.inl (f64Key v))
      | .error e => .error e
  | .year => mapKey (readYear b) (fun v => .inl v.toInt)
  | .date => mapKey (readU32 b) (fun v => .inl (dateDays v))
  | .string | .bytes => mapKey (readByteString b) .inr
  | .hash128 => mapKey (readRaw 16 b) .inr
  | .geomAddr | .bytesAddr | .commitAddr | .jsonAddr | .stringAddr => mapKey (readRaw 20 b) .inr
  | .cell => mapKey (readRaw 17 b) .inr
  | _ => .error .unknownEnc

theorem compareF32_key {l r : UInt32} (hl : f32IsNaN l = false) (hr : f32IsNaN r = false) :
    compareF32 l r = specCmpInt (f32Key l) (f32Key r) := by
  unfold compareF32 specCmpInt
  simp only [hl, hr, Bool.or_self, Bool.false_eq_true, if_false]
  by_cases h1 : f32Key l = f32Key r
  · simp [h1]
  · by_cases h2 : f32Key l < f32Key r <;> simp [h1, h2]

theorem compareF64_key {l r : UInt64} (hl : f64IsNaN l = false) (hr : f64IsNaN r = false) :
    compareF64 l r = specCmpInt (f64Key l) (f64Key r) := by
  unfold compareF64 specCmpInt
  simp only [hl, hr, Bool.or_self, Bool.false_eq_true, if_false]
  by_cases h1 : f64Key l = f64Key r
  · simp [h1]
  · by_cases h2 : f64Key l < f64Key r <;> simp [h1, h2]

/-- **order by key**: on fields whose key is defined, the Go comparison of encoding `e` is the
comparison of the keys -/
theorem compareEnc_key (e : Enc) (l r : Bytes) (kl kr : Key)
    (hl : keyOf e l = .ok kl) (hr : keyOf e r = .ok kr) : compareEnc e l r = .ok (Key.cmp kl kr) := by
  cases e <;> simp only [keyOf] at hl hr <;> try (cases hl; done)
  all_goals first
    | (obtain ⟨a, ha, rfl⟩ := mapKey_ok hl
       obtain ⟨b, hb, rfl⟩ := mapKey_ok hr
       simp only [compareEnc, ha, hb, bind, Except.bind, pure, Except.pure, Key.cmp]
       try (first
         | rw [cmp3_i8] | rw [cmp3_u8] | rw [cmp3_i16] | rw [cmp3_u16] | rw [cmp3_i32] | rw [cmp3_u32]
         | rw [cmp3_i64] | rw [cmp3_u64] | rw [cmp3_int] | rfl))
    | skip
  · -- float32
    cases hv : readU32 l with
    | error e => simp [hv] at hl
    | ok a =>
      cases hw : readU32 r with
      | error e => simp [hw] at hr
      | ok b =>
        simp only [hv, hw] at hl hr
        by_cases na : f32IsNaN a = true
        · simp [na] at hl
        · by_cases nb : f32IsNaN b = true
          · simp [nb] at hr
          · simp only [na, nb, Bool.false_eq_true, if_false] at hl hr
            cases hl; cases hr
            simp only [compareEnc, hv, hw, bind, Except.bind, pure, Except.pure, Key.cmp]
            rw [compareF32_key (by simpa using na) (by simpa using nb)]
  · -- float64
    cases hv : readU64 l with
    | error e => simp [hv] at hl
    | ok a =>
      cases hw : readU64 r with
      | error e => simp [hw] at hr
      | ok b =>
        simp only [hv, hw] at hl hr
        by_cases na : f64IsNaN a = true
        · simp [na] at hl
        · by_cases nb : f64IsNaN b = true
          · simp [nb] at hr
          · simp only [na, nb, Bool.false_eq_true, if_false] at hl hr
            cases hl; cases hr
            simp only [compareEnc, hv, hw, bind, Except.bind, pure, Except.pure, Key.cmp]
            rw [compareF64_key (by simpa using na) (by simpa using nb)]

end DoltVerif.ValCodec

namespace DoltVerif.ValCodec

/-- a field admissible in a column of encoding `e`: NULL, or non-empty bytes with a defined key -/
def FieldValid (e : Enc) (f : Field) : Prop :=
  f = none ∨ ∃ b k, f = some b ∧ b ≠ [] ∧ keyOf e b = .ok k

def fieldKey (e : Enc) : Field → Option Key
  | none => none
  | some b => match keyOf e b with
    | .ok k => some k
    | .error _ => none

theorem compareField_key (e : Enc) (a b : Field) (ha : FieldValid e a) (hb : FieldValid e b) :
    compareField e a b = .ok (okCmp Key.cmp (fieldKey e a) (fieldKey e b)) := by
  rcases ha with rfl | ⟨x, kx, rfl, nx, hx⟩ <;> rcases hb with rfl | ⟨y, ky, rfl, ny, hy⟩
  · rfl
  · have : y.isEmpty = false := by cases y <;> simp_all
    simp [compareField, fieldKey, hy, okCmp, this]
  · have : x.isEmpty = false := by cases x <;> simp_all
    simp [compareField, fieldKey, hx, okCmp, this]
  · simp only [compareField, fieldKey, hx, hy, okCmp]
    exact compareEnc_key e x y kx ky hx hy

def rowKeys : List TType → Nat → List Field → List (Option Key)
  | [], _, _ => []
  | t :: ts, j, xs => fieldKey t.enc (fieldAt xs j) :: rowKeys ts (j + 1) xs

def RowValid : List TType → Nat → List Field → Prop
  | [], _, _ => True
  | t :: ts, j, xs => FieldValid t.enc (fieldAt xs j) ∧ RowValid ts (j + 1) xs

theorem spec_lex (ts : List TType) (j : Nat) (xs ys : List Field)
    (vx : RowValid ts j xs) (vy : RowValid ts j ys) :
    specTupleCompare ts j xs ys = .ok (lexCmp (okCmp Key.cmp) (rowKeys ts j xs) (rowKeys ts j ys)) := by
  induction ts generalizing j with
  | nil => rfl
  | cons t ts ih =>
    obtain ⟨fx, rx⟩ := vx
    obtain ⟨fy, ry⟩ := vy
    simp only [specTupleCompare, rowKeys, lexCmp]
    rw [compareField_key t.enc _ _ fx fy]
    cases okCmp Key.cmp (fieldKey t.enc (fieldAt xs j)) (fieldKey t.enc (fieldAt ys j)) with
    | eq => exact ih (j + 1) rx ry
    | lt => rfl
    | gt => rfl

end DoltVerif.ValCodec
