import DoltVerif.Model.ProllyDiff
/-!
C13 helper lemmas, part 1: tree well-formedness (content addressing as a hypothesis), the
"remaining key-value pairs" abstraction of a cursor, and the cursor invariant.
-/
namespace DoltVerif.ProllyDiff

/-- key-value pairs of item `i` of a node (one pair for a leaf, the whole child for a node) -/
def Tree.itemFlat : Tree → Nat → List KV
  | .leaf kvs, i => (kvs[i]?).toList
  | .node cs, i => match cs[i]? with
    | some c => c.2.2.flatten
    | none => []

mutual
/-- Well-formed Merkle tree relative to a content-addressed store: every child entry's address
resolves (in `store`) to the embedded subtree — so equal addresses mean equal subtrees —, no
node below the root is empty, all leaves are at the same depth, keys inside a node are distinct. -/
def Tree.WF (store : Addr → Option Tree) : Tree → Prop
  | .leaf kvs => (kvs.map (·.1)).Nodup
  | .node cs => cs ≠ [] ∧ (cs.map (·.1)).Nodup ∧ WFCs store (firstHeight cs) cs
def WFCs (store : Addr → Option Tree) (h : Nat) : List Child → Prop
  | [] => True
  | c :: cs => store c.2.1 = some c.2.2 ∧ c.2.2.count ≠ 0 ∧ c.2.2.height = h ∧ c.2.2.WF store ∧ WFCs store h cs
end

theorem WFCs_get {store h} : ∀ {cs : List Child} {i : Nat} {c : Child}, WFCs store h cs → cs[i]? = some c →
    store c.2.1 = some c.2.2 ∧ c.2.2.count ≠ 0 ∧ c.2.2.height = h ∧ c.2.2.WF store
  | [], i, c, _, hc => by simp at hc
  | d :: ds, 0, c, hw, hc => by
    simp at hc; subst hc
    simp [WFCs] at hw; exact ⟨hw.1, hw.2.1, hw.2.2.1, hw.2.2.2.1⟩
  | d :: ds, i + 1, c, hw, hc => by
    simp at hc
    simp [WFCs] at hw
    exact WFCs_get hw.2.2.2.2 hc

theorem flattenCs_append : ∀ (xs ys : List Child), flattenCs (xs ++ ys) = flattenCs xs ++ flattenCs ys
  | [], ys => by simp [flattenCs]
  | x :: xs, ys => by simp [flattenCs, flattenCs_append xs ys]

theorem Tree.flatFrom_zero (t : Tree) : t.flatFrom 0 = t.flatten := by
  cases t <;> simp [Tree.flatFrom, Tree.flatten]

theorem Tree.flatFrom_ge (t : Tree) (i : Nat) (h : t.count ≤ i) : t.flatFrom i = [] := by
  cases t with
  | leaf kvs => simp only [Tree.flatFrom, Tree.count] at *; exact List.drop_eq_nil_of_le h
  | node cs => simp only [Tree.flatFrom, Tree.count] at *; rw [List.drop_eq_nil_of_le h]; simp [flattenCs]

theorem Tree.flatFrom_lt (t : Tree) (i : Nat) (h : i < t.count) :
    t.flatFrom i = t.itemFlat i ++ t.flatFrom (i + 1) := by
  cases t with
  | leaf kvs =>
    simp [Tree.count] at h
    simp [Tree.flatFrom, Tree.itemFlat, h]
  | node cs =>
    simp [Tree.count] at h
    simp only [Tree.flatFrom, Tree.itemFlat]
    rw [List.drop_eq_getElem_cons h]
    simp [flattenCs, h]

theorem Tree.flatTo_flatFrom (t : Tree) (i : Nat) : t.flatTo i ++ t.flatFrom i = t.flatten := by
  cases t with
  | leaf kvs => simp [Tree.flatTo, Tree.flatFrom, Tree.flatten]
  | node cs => simp [Tree.flatTo, Tree.flatFrom, Tree.flatten, ← flattenCs_append]

theorem Tree.itemFlat_child {t c : Tree} {i : Nat} (h : t.child? i = some c) : t.itemFlat i = c.flatten := by
  cases t with
  | leaf kvs => simp [Tree.child?] at h
  | node cs =>
    simp [Tree.child?] at h
    obtain ⟨a, ad, ha⟩ := h
    simp [Tree.itemFlat, ha]

theorem Tree.flatFrom_length_antitone (t : Tree) {i j : Nat} (h : i ≤ j) :
    (t.flatFrom j).length ≤ (t.flatFrom i).length := by
  obtain ⟨d, rfl⟩ := Nat.exists_eq_add_of_le h
  cases t with
  | leaf kvs => simp [Tree.flatFrom]; omega
  | node cs =>
    simp only [Tree.flatFrom]
    have : cs.drop i = (cs.drop i).take d ++ cs.drop (i + d) := by
      rw [← List.drop_drop, List.take_append_drop]
    rw [this, flattenCs_append]; simp

theorem Tree.height_pos_child {t : Tree} (h : 0 < t.height) (i : Nat) (hi : i < t.count) :
    ∃ c, t.child? i = some c := by
  cases t with
  | leaf kvs => simp [Tree.height] at h
  | node cs =>
    simp [Tree.count] at hi
    exact ⟨cs[i].2.2, by simp [Tree.child?, hi]⟩

theorem Tree.WF_child {store} {t c : Tree} {i : Nat} (hw : t.WF store) (h : t.child? i = some c) :
    c.count ≠ 0 ∧ c.height + 1 = t.height ∧ c.WF store := by
  cases t with
  | leaf kvs => simp [Tree.child?] at h
  | node cs =>
    simp [Tree.child?] at h
    obtain ⟨a, ad, ha⟩ := h
    simp only [Tree.WF] at hw
    have := WFCs_get hw.2.2 ha
    exact ⟨this.2.1, by simp [Tree.height, this.2.2.1], this.2.2.2⟩

/-! ## cursors -/

/-- pairs strictly after the current slot of every frame -/
def remAbove : Cur → List KV
  | [] => []
  | p :: ps => p.nd.flatFrom (p.idx + 1) ++ remAbove ps

/-- everything the cursor has not passed yet, current item included -/
def rem : Cur → List KV
  | [] => []
  | f :: ps => f.nd.flatFrom f.idx ++ remAbove ps

def curItemFlat : Cur → List KV
  | [] => []
  | f :: _ => f.nd.itemFlat f.idx

/-- A proper cursor: every frame is the child its parent points to (or, when the parent is
exhausted, the child is exhausted too — the stale state `advance` leaves behind), and heights
go up by one per frame. -/
def Path : Cur → Prop
  | [] => True
  | [_] => True
  | f :: p :: ps =>
    ((p.idx < p.nd.count ∧ p.nd.child? p.idx = some f.nd) ∨ (p.nd.count ≤ p.idx ∧ f.nd.count ≤ f.idx))
    ∧ p.nd.height = f.nd.height + 1 ∧ Path (p :: ps)

structure Good (store : Addr → Option Tree) (c : Cur) : Prop where
  path : Path c
  wf : ∀ f ∈ c, f.nd.WF store
  exh : valid c = false → rem c = []

theorem valid_cons (f : Frame) (ps : Cur) : valid (f :: ps) = decide (f.idx < f.nd.count) := rfl

theorem Good.tail {store} {f : Frame} {ps : Cur} (h : Good store (f :: ps)) : Good store ps := by
  cases ps with
  | nil => exact ⟨trivial, by simp, by simp [rem]⟩
  | cons p pps =>
    refine ⟨h.path.2.2, fun g hg => h.wf g (List.mem_cons_of_mem _ hg), ?_⟩
    intro hv
    simp [valid_cons] at hv
    have hp := h.path.1
    rcases hp with ⟨h1, _⟩ | ⟨h1, h2⟩
    · omega
    · have := h.exh (by simp [valid_cons]; omega)
      simp [rem, remAbove] at this
      simp [rem, this.2.2, Tree.flatFrom_ge _ _ h1]

/-- for a valid child frame the parent is in bounds and points to it -/
theorem Good.parent {store} {f p : Frame} {ps : Cur} (h : Good store (f :: p :: ps))
    (hv : valid (f :: p :: ps) = true) : p.idx < p.nd.count ∧ p.nd.child? p.idx = some f.nd := by
  rcases h.path.1 with h1 | ⟨_, h2⟩
  · exact h1
  · simp [valid_cons] at hv; omega

theorem rem_parent {store} {f p : Frame} {ps : Cur} (h : Good store (f :: p :: ps))
    (hp : p.idx < p.nd.count ∧ p.nd.child? p.idx = some f.nd) :
    rem (p :: ps) = f.nd.flatTo f.idx ++ rem (f :: p :: ps) := by
  simp only [rem, remAbove]
  rw [Tree.flatFrom_lt _ _ hp.1, Tree.itemFlat_child hp.2, ← Tree.flatTo_flatFrom f.nd f.idx]
  simp

end DoltVerif.ProllyDiff
