import DoltVerif.Model.JournalWindow
import DoltVerif.Lemmas.JournalLoss
/-! The windowed loop of `possibleDataLossCheck` equals the whole-suffix scan `dlc`. -/
namespace DoltVerif.Journal

attribute [local irreducible] crc32c

theorem readU32?_append_of_long (w rest : Bytes) (h : 4 ≤ w.length) : readU32? (w ++ rest) = readU32? w := by
  match w, h with
  | a :: b :: c :: d :: t, _ => rfl
  | [], h => simp at h
  | [_], h => simp at h
  | [_, _], h => simp at h
  | [_, _, _], h => simp at h

theorem refill_append (W : Nat) (w rest : Bytes) : (refill W w rest).1 ++ (refill W w rest).2.1 = w ++ rest := by
  simp [refill, List.append_assoc]

theorem refill_length_le (W : Nat) (w rest : Bytes) (h : w.length ≤ W) : (refill W w rest).1.length ≤ W := by
  simp only [refill, List.length_append, List.length_take]; omega

theorem refill_eof (W : Nat) (w rest : Bytes) (h : (refill W w rest).2.2 = true) : (refill W w rest).2.1 = [] := by
  simp only [refill, decide_eq_true_eq] at h
  simp only [refill]
  exact List.drop_eq_nil_of_le (by omega)

theorem refill_full (W : Nat) (w rest : Bytes) (hw : w.length ≤ W) (h : (refill W w rest).2.2 = false) :
    (refill W w rest).1.length = W := by
  simp only [refill, decide_eq_false_iff_not, Nat.not_lt] at h
  simp only [refill, List.length_append, List.length_take]; omega

theorem refill_total (W : Nat) (w rest : Bytes) :
    (refill W w rest).1.length + (refill W w rest).2.1.length = w.length + rest.length := by
  have := congrArg List.length (refill_append W w rest)
  simpa using this

/-- progress measure: bytes not yet consumed, plus one pending useful refill -/
def wmeasure (W : Nat) (w rest : Bytes) (atEOF : Bool) : Nat :=
  2 * (w.length + rest.length) + (if atEOF = false ∧ w.length < W then 1 else 0)

theorem wdlc_eq_dlc (B W : Nat) (h40 : rootRecSz ≤ W) (hB : B ≤ W) :
    ∀ (fuel : Nat) (w rest : Bytes) (atEOF fr : Bool), w.length ≤ W → (atEOF = true → rest = []) →
      wmeasure W w rest atEOF < fuel → wdlc B W fuel w rest atEOF fr = dlc B (w ++ rest) fr := by
  intro fuel
  induction fuel with
  | zero => intro w rest atEOF fr _ _ hm; exact absurd hm (Nat.not_lt_zero _)
  | succ fuel ih =>
    intro w rest atEOF fr hwW heof hm
    have h40' : rootRecSz = 40 := rfl
    -- what a refill does, usable in both refill branches
    have hrefill : atEOF = false → w.length < W →
        wdlc B W fuel (refill W w rest).1 (refill W w rest).2.1 (refill W w rest).2.2 fr = dlc B (w ++ rest) fr := by
      intro hne hlt
      rw [← refill_append W w rest]
      apply ih _ _ _ _ (refill_length_le W w rest hwW) (refill_eof W w rest)
      have ht := refill_total W w rest
      unfold wmeasure at hm ⊢
      simp only [hne, hlt, and_self, if_true] at hm
      by_cases he : (refill W w rest).2.2 = false
      · have hf := refill_full W w rest hwW he
        have : ¬ ((refill W w rest).2.2 = false ∧ (refill W w rest).1.length < W) := by
          intro ⟨_, hl⟩; omega
        simp only [this, if_false]; omega
      · have : ¬ ((refill W w rest).2.2 = false ∧ (refill W w rest).1.length < W) := fun ⟨a, _⟩ => he a
        simp only [this, if_false]; omega
    -- a step that consumes at least one byte of the window
    have hstep : ∀ (w' : Bytes) (fr' : Bool), w'.length < w.length → w'.length ≤ W →
        wdlc B W fuel w' rest atEOF fr' = dlc B (w' ++ rest) fr' := by
      intro w' fr' hlt hle
      apply ih _ _ _ _ hle heof
      unfold wmeasure at hm ⊢
      split at hm <;> split <;> omega
    rw [wdlc]
    by_cases hshort : w.length < rootRecSz
    · simp only [hshort, if_true]
      cases hE : atEOF with
      | true =>
        have hr := heof hE; subst hr
        simp only [if_true, List.append_nil]
        rw [dlc]
        simp only [hshort, dite_true]
      | false =>
        simp only [Bool.false_eq_true, if_false]
        exact hrefill hE (by omega)
    · simp only [hshort, if_false]
      have hlen4 : 4 ≤ w.length := by omega
      have hne : w ≠ [] := by intro h; simp [h] at hlen4
      have htail : (w ++ rest).tail = w.tail ++ rest := by
        cases w with | nil => exact absurd rfl hne | cons x xs => rfl
      have htl : w.tail.length < w.length := by
        cases w with | nil => exact absurd rfl hne | cons x xs => simp
      have htle : w.tail.length ≤ W := by omega
      have hlong : ¬ (w ++ rest).length < rootRecSz := by simp; omega
      cases hr : readU32? w with
      | none =>
        obtain ⟨n, hn, _⟩ := readU32?_isSome_of_long w hlen4
        rw [hn] at hr; cases hr
      | some sz =>
        simp only []
        by_cases hrange : 0 < sz ∧ sz ≤ B
        · by_cases hfit : sz ≤ w.length
          · have htake : (w ++ rest).take sz = w.take sz := List.take_append_of_le_length hfit
            have hdrop : (w ++ rest).drop sz = w.drop sz ++ rest := List.drop_append_of_le_length hfit
            have hfit' : sz ≤ (w ++ rest).length := by simp; omega
            by_cases hv : isValid (w.take sz) = true
            · have hc : 0 < sz ∧ sz ≤ B ∧ sz ≤ (w ++ rest).length ∧ isValid ((w ++ rest).take sz) = true :=
                ⟨hrange.1, hrange.2, hfit', by rw [htake]; exact hv⟩
              rw [dlc]
              simp only [hlong, dite_false, readU32?_append_of_long w rest hlen4, hr]
              rw [dif_pos hc, if_pos hrange, if_pos hfit, if_pos hv, htake, hdrop]
              cases readRecord (w.take sz) with
              | error e => rfl
              | ok r =>
                simp only []
                cases fr with
                | true => rfl
                | false =>
                  simp only [Bool.false_eq_true, if_false]
                  exact hstep _ _ (by simp; omega) (by simp; omega)
            · have hc : ¬ (0 < sz ∧ sz ≤ B ∧ sz ≤ (w ++ rest).length ∧ isValid ((w ++ rest).take sz) = true) := by
                intro ⟨_, _, _, d⟩; rw [htake] at d; exact hv d
              rw [dlc]
              simp only [hlong, dite_false, readU32?_append_of_long w rest hlen4, hr]
              rw [dif_neg hc, htail, if_pos hrange, if_pos hfit, if_neg hv]
              exact hstep _ _ htl htle
          · cases hE : atEOF with
            | true =>
              have hr' : rest = [] := heof hE
              have hc : ¬ (0 < sz ∧ sz ≤ B ∧ sz ≤ (w ++ rest).length ∧ isValid ((w ++ rest).take sz) = true) := by
                intro ⟨_, _, c, _⟩; rw [hr'] at c; simp at c; exact hfit c
              rw [dlc]
              simp only [hlong, dite_false, readU32?_append_of_long w rest hlen4, hr]
              rw [dif_neg hc, htail, if_pos hrange, if_neg hfit]
              simp only [if_true]
              have := hstep w.tail fr htl htle
              rw [hE] at this
              exact this
            | false =>
              rw [if_pos hrange, if_neg hfit]
              simp only [Bool.false_eq_true, if_false]
              exact hrefill hE (by omega)
        · have hc : ¬ (0 < sz ∧ sz ≤ B ∧ sz ≤ (w ++ rest).length ∧ isValid ((w ++ rest).take sz) = true) := by
            intro ⟨a, b, _, _⟩; exact hrange ⟨a, b⟩
          rw [dlc]
          simp only [hlong, dite_false, readU32?_append_of_long w rest hlen4, hr]
          rw [dif_neg hc, htail, if_neg hrange]
          exact hstep _ _ htl htle

/-- `possibleDataLossCheck` with its real 2x-buffer windowing computes exactly the whole-suffix scan,
for every buffer size of at least 20 bytes. -/
theorem windowedDlc_eq_dlc (B : Nat) (hB : 20 ≤ B) (s : Bytes) : windowedDlc B s = dlc B s false := by
  unfold windowedDlc
  simp only []
  have h := wdlc_eq_dlc B (B * 2) (by simp [rootRecSz, lenSz, addrSz, timestampSz, checksumSz]; omega) (by omega)
    (2 * s.length + 3) (refill (B * 2) [] s).1 (refill (B * 2) [] s).2.1 (refill (B * 2) [] s).2.2 false
    (refill_length_le _ _ _ (by simp)) (refill_eof _ _ _)
    (by
      have ht := refill_total (B * 2) [] s
      unfold wmeasure
      simp at ht
      split <;> omega)
  rw [refill_append] at h
  simpa using h

end DoltVerif.Journal
