import DoltVerif.Model.Dag
/-!
Helper lemmas for the commit-graph model (family Dag): the structural invariant of graphs built by
`addCommit`, the abstract parent / ancestor relations, and the facts about heights and closures
the property theorems of C18 / C19 are assembled from.  Core Lean only.
-/
namespace DoltVerif.Dag

/-! ### graphs reachable through `addCommit` -/

inductive Built : Graph → Prop
  | nil : Built []
  | add {g : Graph} {a : Addr} {ps : List Addr} {g' : Graph} : Built g → addCommit g a ps = .ok g' → Built g'

/-- structural invariant: every commit was produced by `mkCommit` from the commits after it -/
def Inv : Graph → Prop
  | [] => True
  | c :: g => Inv g ∧ lookup g c.addr = none ∧
      ∃ ps, loadParents g c.parents = .ok ps ∧
        c.height = maxHeight (ps.map (·.height)) + 1 ∧ c.closure = parentClosure ps

theorem mkCommit_ok {g : Graph} {a : Addr} {ps : List Addr} {c : Commit} (h : mkCommit g a ps = .ok c) :
    c.addr = a ∧ c.parents = ps ∧ lookup g a = none ∧
    ∃ pcs, loadParents g ps = .ok pcs ∧ c.height = maxHeight (pcs.map (·.height)) + 1 ∧ c.closure = parentClosure pcs := by
  unfold mkCommit at h
  split at h
  · cases h
  · rename_i pcs hl
    split at h
    · cases h
    · rename_i hn
      cases h
      refine ⟨rfl, rfl, ?_, pcs, hl, rfl, rfl⟩
      cases hlk : lookup g a <;> simp_all

theorem Built.inv {g : Graph} (h : Built g) : Inv g := by
  induction h with
  | nil => trivial
  | add hb ha ih =>
    unfold addCommit at ha
    split at ha
    · rename_i c hc
      cases ha
      obtain ⟨h1, h2, h3, pcs, h4, h5, h6⟩ := mkCommit_ok hc
      exact ⟨ih, by rw [h1]; exact h3, pcs, by rw [h2]; exact h4, h5, h6⟩
    · cases ha

/-! ### lookup -/

theorem lookup_cons (c : Commit) (g : Graph) (a : Addr) :
    lookup (c :: g) a = if c.addr = a then some c else lookup g a := by
  unfold lookup
  by_cases h : c.addr = a
  · simp [h]
  · have hb : (c.addr == a) = false := by simpa using h
    simp [hb, h]

theorem lookup_some {g : Graph} {a : Addr} {c : Commit} (h : lookup g a = some c) : c ∈ g ∧ c.addr = a := by
  unfold lookup at h
  refine ⟨List.mem_of_find?_eq_some h, ?_⟩
  have := List.find?_some h
  simpa using this

theorem lookup_cons_of_some {c : Commit} {g : Graph} {a : Addr} {x : Commit}
    (hfresh : lookup g c.addr = none) (h : lookup g a = some x) : lookup (c :: g) a = some x := by
  rw [lookup_cons]
  split
  · rename_i heq; rw [heq] at hfresh; rw [hfresh] at h; cases h
  · exact h

theorem lookup_self_of_inv : ∀ {g : Graph}, Inv g → ∀ {c : Commit}, c ∈ g → lookup g c.addr = some c
  | [], _, _, hm => by cases hm
  | d :: g, hi, c, hm => by
    rw [lookup_cons]
    cases hm with
    | head => simp
    | tail _ hm' =>
      have hl := lookup_self_of_inv hi.1 hm'
      split
      · rename_i heq; have := hi.2.1; rw [heq] at this; rw [this] at hl; cases hl
      · exact hl

/-! ### loadParents -/

theorem loadParents_ok : ∀ {g : Graph} {as : List Addr} {ps : List Commit}, loadParents g as = .ok ps →
    ps.map (·.addr) = as ∧ ∀ p ∈ ps, lookup g p.addr = some p
  | _, [], ps, h => by unfold loadParents at h; cases h; simp
  | g, a :: as, ps, h => by
    unfold loadParents at h
    split at h
    · cases h
    · rename_i c hc
      split at h
      · rename_i cs hcs
        cases h
        have ih := loadParents_ok hcs
        have hca := (lookup_some hc).2
        refine ⟨by simp [hca, ih.1], ?_⟩
        intro p hp
        cases hp with
        | head => rw [hca]; exact hc
        | tail _ hp' => exact ih.2 p hp'
      · cases h

theorem loadParents_mem {g : Graph} {as : List Addr} {ps : List Commit} (h : loadParents g as = .ok ps)
    {a : Addr} (ha : a ∈ as) : ∃ p ∈ ps, p.addr = a := by
  have := (loadParents_ok h).1
  rw [← this] at ha
  simpa using ha

theorem loadParents_cons_graph {c : Commit} {g : Graph} (hfresh : lookup g c.addr = none) :
    ∀ {as : List Addr} {ps : List Commit}, loadParents g as = .ok ps → loadParents (c :: g) as = .ok ps
  | [], ps, h => by unfold loadParents at h ⊢; exact h
  | a :: as, ps, h => by
    unfold loadParents at h ⊢
    split at h
    · cases h
    · rename_i x hx
      rw [lookup_cons_of_some hfresh hx]
      split at h
      · rename_i cs hcs
        rw [loadParents_cons_graph hfresh hcs]
        exact h
      · cases h

/-! ### parents and ancestors -/

/-- `a` is named as a parent by the commit stored under `c` -/
def IsParent (g : Graph) (a c : Addr) : Prop := ∃ cc, lookup g c = some cc ∧ a ∈ cc.parents

/-- proper ancestors: the transitive closure of `IsParent` -/
inductive Anc (g : Graph) : Addr → Addr → Prop
  | parent {a c : Addr} : IsParent g a c → Anc g a c
  | step {a p c : Addr} : Anc g a p → IsParent g p c → Anc g a c

/-- ancestors-or-self among the stored commits -/
def AncStar (g : Graph) (a c : Addr) : Prop := (a = c ∧ (lookup g c).isSome) ∨ Anc g a c

theorem Anc.trans {g : Graph} {a b c : Addr} (h1 : Anc g a b) (h2 : Anc g b c) : Anc g a c := by
  induction h2 with
  | parent hp => exact .step h1 hp
  | step _ hp ih => exact .step ih hp

/-- every named parent is stored -/
theorem parent_stored : ∀ {g : Graph}, Inv g → ∀ {a c : Addr}, IsParent g a c → ∃ ac, lookup g a = some ac
  | [], _, a, c, ⟨cc, h, _⟩ => by simp [lookup] at h
  | d :: g, hi, a, c, ⟨cc, h, hm⟩ => by
    obtain ⟨hi1, hfresh, ps, hl, _, _⟩ := hi
    rw [lookup_cons] at h
    split at h
    · cases h
      obtain ⟨p, hp, hpa⟩ := loadParents_mem hl hm
      have := (loadParents_ok hl).2 p hp
      rw [hpa] at this
      exact ⟨p, lookup_cons_of_some hfresh this⟩
    · obtain ⟨ac, hac⟩ := parent_stored hi1 ⟨cc, h, hm⟩
      exact ⟨ac, lookup_cons_of_some hfresh hac⟩

theorem anc_stored {g : Graph} (hi : Inv g) {a c : Addr} (h : Anc g a c) : ∃ ac, lookup g a = some ac := by
  induction h with
  | parent hp => exact parent_stored hi hp
  | step _ _ ih => exact ih

theorem anc_target_stored {g : Graph} {a c : Addr} (h : Anc g a c) : ∃ cc, lookup g c = some cc := by
  cases h with
  | parent hp => exact ⟨hp.choose, hp.choose_spec.1⟩
  | step _ hp => exact ⟨hp.choose, hp.choose_spec.1⟩

theorem isParent_cons_old {d : Commit} {g : Graph} {a c : Addr} (hne : d.addr ≠ c) :
    IsParent (d :: g) a c ↔ IsParent g a c := by
  unfold IsParent
  rw [lookup_cons]
  simp [hne]

theorem isParent_cons_new {d : Commit} {g : Graph} {a : Addr} :
    IsParent (d :: g) a d.addr ↔ a ∈ d.parents := by
  unfold IsParent
  rw [lookup_cons]
  simp

theorem anc_cons_mono {d : Commit} {g : Graph} (hfresh : lookup g d.addr = none) {a c : Addr}
    (h : Anc g a c) : Anc (d :: g) a c := by
  have lift : ∀ {x y}, IsParent g x y → IsParent (d :: g) x y := by
    intro x y ⟨cc, h1, h2⟩
    exact ⟨cc, lookup_cons_of_some hfresh h1, h2⟩
  induction h with
  | parent hp => exact .parent (lift hp)
  | step _ hp ih => exact .step ih (lift hp)

/-- ancestors of an old commit do not change when a commit is added -/
theorem anc_cons_old {d : Commit} {g : Graph} (hi : Inv g) (hfresh : lookup g d.addr = none) {a c : Addr}
    (hc : (lookup g c).isSome) (h : Anc (d :: g) a c) : Anc g a c := by
  induction h with
  | @parent c hp =>
    have hne : d.addr ≠ c := by
      intro heq; rw [heq] at hfresh; rw [hfresh] at hc; cases hc
    exact .parent ((isParent_cons_old hne).1 hp)
  | @step p c _ hp ih =>
    have hne : d.addr ≠ c := by
      intro heq; rw [heq] at hfresh; rw [hfresh] at hc; cases hc
    have hp' := (isParent_cons_old hne).1 hp
    obtain ⟨pc, hpc⟩ := parent_stored hi hp'
    exact .step (ih (by rw [hpc]; rfl)) hp'

/-- ancestors of the new commit: its parents and their ancestors -/
theorem anc_cons_new {d : Commit} {g : Graph} (hi : Inv (d :: g)) {a : Addr} :
    Anc (d :: g) a d.addr ↔ a ∈ d.parents ∨ ∃ p ∈ d.parents, Anc g a p := by
  obtain ⟨hi1, hfresh, ps, hl, _, _⟩ := hi
  constructor
  · intro h
    cases h with
    | parent hp => exact .inl (isParent_cons_new.1 hp)
    | step h1 hp =>
      rename_i p
      have hpm := isParent_cons_new.1 hp
      obtain ⟨pc, hpc, hpa⟩ := loadParents_mem hl hpm
      have hlk := (loadParents_ok hl).2 pc hpc
      rw [hpa] at hlk
      exact .inr ⟨p, hpm, anc_cons_old hi1 hfresh (by rw [hlk]; rfl) h1⟩
  · rintro (h | ⟨p, hp, h⟩)
    · exact .parent (isParent_cons_new.2 h)
    · exact .step (anc_cons_mono hfresh h) (isParent_cons_new.2 hp)

end DoltVerif.Dag
