/-
The `[start, stop)` window of a range iterator contains every matching entry (pure list facts),
and `Map.IterRange` refines `filter` once the cursors are consistent.
-/
import DoltVerif.Lemmas.SeekP
namespace DoltVerif.Prolly
open DoltVerif.SortedDict

variable {κ ν : Type}

theorem take_takeWhile_length {α : Type} (q : α → Bool) : ∀ (l : List α),
    l.take (l.takeWhile q).length = l.takeWhile q ∧ l.drop (l.takeWhile q).length = l.dropWhile q
  | [] => by simp
  | x :: l => by
    by_cases hq : q x = true
    · simp only [List.takeWhile_cons, hq, if_true, List.length_cons, List.take_succ_cons, List.drop_succ_cons,
        List.dropWhile_cons]
      exact ⟨by rw [(take_takeWhile_length q l).1], (take_takeWhile_length q l).2⟩
    · simp [hq]

/-- after the first entry satisfying a monotone predicate, every entry satisfies it -/
theorem dropWhile_all {cmp : κ → κ → Ordering} {p : κ → Bool} (hp : Mono cmp p) :
    ∀ (l : List (κ × ν)), Sorted cmp l → ∀ x ∈ l.dropWhile (fun kv => !p kv.1), p x.1 = true
  | [], _, x, h => by simp at h
  | y :: l, hs, x, h => by
    unfold Sorted at hs
    rw [List.pairwise_cons] at hs
    by_cases hy : p y.1 = true
    · simp only [List.dropWhile_cons, hy, Bool.not_true, Bool.false_eq_true, if_false] at h
      rcases List.mem_cons.mp h with rfl | hx
      · exact hy
      · exact hp y.1 x.1 (by rw [hs.1 x hx]; simp) hy
    · simp only [List.dropWhile_cons, hy, Bool.not_false, if_true] at h
      exact dropWhile_all hp l hs.2 x h

/-- **the window between the start rank and the stop rank holds every matching entry** — also
when the window is empty or inverted (then nothing matches) -/
theorem window_filter {cmp : κ → κ → Ordering} {pLo pHi : κ → Bool} (hHi : Mono cmp pHi)
    (l : List (κ × ν)) (hs : Sorted cmp l) (m : κ × ν → Bool)
    (hm : ∀ x, m x = true → pLo x.1 = true ∧ pHi x.1 = false) :
    ((if rankP pLo l < rankP pHi l then (l.drop (rankP pLo l)).take (rankP pHi l - rankP pLo l) else []).filter m)
      = l.filter m := by
  -- entries before the start rank do not match; entries from the stop rank on do not match
  have hpre : (l.take (rankP pLo l)).filter m = [] := by
    rw [List.filter_eq_nil_iff]
    intro x hx
    unfold rankP at hx
    rw [(take_takeWhile_length _ l).1] at hx
    have := mem_takeWhile_true _ _ x hx
    intro hmx
    rw [(hm x hmx).1] at this; simp at this
  have hpost : (l.drop (rankP pHi l)).filter m = [] := by
    rw [List.filter_eq_nil_iff]
    intro x hx
    unfold rankP at hx
    rw [(take_takeWhile_length _ l).2] at hx
    have := dropWhile_all hHi l hs x hx
    intro hmx
    rw [(hm x hmx).2] at this; cases this
  generalize rankP pLo l = a at hpre
  generalize rankP pHi l = b at hpost
  have h1 : l.filter m = (l.take b).filter m := by
    conv => lhs; rw [← List.take_append_drop b l]
    rw [List.filter_append, hpost, List.append_nil]
  by_cases hab : a < b
  · simp only [hab, if_true]
    have h2 : l.take b = l.take a ++ (l.drop a).take (b - a) := by
      have : l.take b = (l.take b).take a ++ (l.take b).drop a := (List.take_append_drop a _).symm
      rw [this, List.take_take, List.drop_take]
      congr 1
      rw [Nat.min_eq_left (Nat.le_of_lt hab)]
    rw [h1, h2, List.filter_append, hpre, List.nil_append]
  · simp only [hab, if_false, List.filter_nil]
    rw [h1]
    -- b ≤ a: the first b entries are among the first a entries
    have : (l.take b) = (l.take a).take b := by
      rw [List.take_take, Nat.min_eq_left (Nat.le_of_not_lt hab)]
    rw [this]
    symm
    rw [List.filter_eq_nil_iff]
    intro x hx
    have hx' : x ∈ l.take a := (List.take_sublist _ _).subset hx
    exact (List.filter_eq_nil_iff.mp hpre) x hx'

end DoltVerif.Prolly
