import DoltVerif.Model.CorruptTable
import DoltVerif.Model.CorruptFormats
/-! Helper lemmas for C10 (family Corrupt): the panic-faithful slice primitives. -/
namespace DoltVerif.Corrupt

theorem goSlice_ok {buf : Bytes} {start lo hi : Nat} (h : lo ≤ hi ∧ start + hi ≤ buf.length) :
    goSlice buf start lo hi = .ok ((buf.drop (start + lo)).take (hi - lo)) := by
  unfold goSlice; rw [if_pos h]

theorem goSlice_panic_iff {buf : Bytes} {start lo hi : Nat} :
    goSlice buf start lo hi = .error .panicWouldOccur ↔ ¬ (lo ≤ hi ∧ start + hi ≤ buf.length) := by
  unfold goSlice panic
  by_cases h : lo ≤ hi ∧ start + hi ≤ buf.length
  · rw [if_pos h]; simp [h]
  · rw [if_neg h]; simp [h]

theorem goSlice_length {buf : Bytes} {start lo hi : Nat} {s : Bytes}
    (h : goSlice buf start lo hi = .ok s) : s.length = hi - lo := by
  unfold goSlice at h
  split at h
  · rename_i hc
    injection h with h; subst h
    simp [List.length_take, List.length_drop]; omega
  · simp [panic] at h

theorem goSliceFrom_ok {buf : Bytes} {start n lo : Nat} (h : lo ≤ n) :
    goSliceFrom buf start n lo = .ok ((buf.drop (start + lo)).take (n - lo)) := by
  unfold goSliceFrom; rw [if_pos h]

theorem goSliceFrom_length {buf : Bytes} {n lo : Nat} {s : Bytes} (hn : n = buf.length)
    (h : goSliceFrom buf 0 n lo = .ok s) : s.length = n - lo := by
  unfold goSliceFrom at h
  split at h
  · injection h with h; subst h
    simp [List.length_take, List.length_drop]; omega
  · simp [panic] at h

theorem be32_ok {s : Bytes} (h : 4 ≤ s.length) : be32 s = .ok (beNat (s.take 4)) := by
  unfold be32; rw [if_pos h]

theorem be64_ok {s : Bytes} (h : 8 ≤ s.length) : be64 s = .ok (beNat (s.take 8)) := by
  unfold be64; rw [if_pos h]

end DoltVerif.Corrupt
