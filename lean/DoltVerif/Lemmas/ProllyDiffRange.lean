import DoltVerif.Lemmas.ProllyDiffSearch
/-!
C13 helper lemmas, part 7: start/stop cursors of the range differs form proper sides; windows
as filters; monotone predicates from sortedness.
-/
namespace DoltVerif.ProllyDiff

/-- a proper leaf cursor of tree `t` -/
structure CurAt (store : Addr → Option Tree) (t : Tree) (c : Cur) : Prop where
  good : Good store c
  leaf : AtLeaf c
  hts : c.map (·.nd.height) = List.range (t.height + 1)
  root : c.getLast?.map (·.nd) = some t

theorem side_of {store below} {t : Tree} {c s : Cur} {A : List KV} (hc : CurAt store t c) (hs : CurAt store t s)
    (hsuf : rem c <:+ t.flatten) (hsplit : t.flatten = A ++ rem s)
    (hA : ∀ x ∈ A, below x.1 = true) (hS : ∀ x ∈ rem s, below x.1 = false) : Side store below c s := by
  refine ⟨hc.good, hs.good, hc.leaf, fun _ => ⟨by rw [hc.hts, hs.hts], by rw [hc.root, hs.root]⟩, hS, ?_⟩
  rw [hsplit] at hsuf
  rcases suffix_append_cases hsuf with ⟨A'', h1, h2⟩ | h1
  · exact Or.inl ⟨A'', h2, fun x hx => hA x (h1.subset hx)⟩
  · exact Or.inr h1

theorem curAt_search {store} (p : Bytes → Bool) {t : Tree} (hw : t.WF store) (hk : t.KeysOK) (hm : MonoP p t.flatten) :
    CurAt store t (cursorFromSearch p t) :=
  let s := search_spec (store := store) p hw hk hm
  ⟨s.1, s.2.2.1, s.2.2.2.1, s.2.2.2.2⟩

theorem curAt_pastEnd {store} {t : Tree} (hw : t.WF store) : CurAt store t (cursorPastEnd t) := by
  obtain ⟨g, r, h, ro⟩ := pastEnd_spec hw
  refine ⟨g, ?_, h, ro⟩
  cases hc : cursorPastEnd t with
  | nil => trivial
  | cons f ps =>
    rw [hc] at h
    rw [List.range_succ_eq_map] at h
    simp at h
    exact h.1

theorem curAt_start {store} {t : Tree} (hw : t.WF store) : CurAt store t (cursorAtStart t) :=
  let d := descend_ok (store := store) (fun _ => 0) t hw
  ⟨atStart_good hw, d.atLeaf, d.hts, d.root⟩

theorem filter_false {q : KV → Bool} {l : List KV} (h : ∀ x ∈ l, q x = false) : l.filter q = [] := by
  induction l with
  | nil => rfl
  | cons a l ih => simp [List.filter_cons, h a (by simp), ih (fun x hx => h x (by simp [hx]))]

theorem filter_true {q : KV → Bool} {l : List KV} (h : ∀ x ∈ l, q x = true) : l.filter q = l := by
  induction l with
  | nil => rfl
  | cons a l ih => simp [List.filter_cons, h a (by simp), ih (fun x hx => h x (by simp [hx]))]

/-- the window `[first pStart, first pStop)` of a list on which both predicates are monotone is
the sublist of pairs with `pStart ∧ ¬pStop` -/
theorem window_eq_filter {pStart pStop : Bytes → Bool} {F : List KV} (h1 : MonoP pStart F) (h2 : MonoP pStop F) :
    tw (fun k => !pStop k) (F.dropWhile (fun kv => !pStart kv.1)) = F.filter (fun kv => pStart kv.1 && !pStop kv.1) := by
  obtain ⟨A1, B1, rfl, hA1, hB1⟩ := h1
  rw [dropWhile_split hA1 hB1]
  obtain ⟨A2, B2, he, hA2, hB2⟩ := h2.suffix
  rw [he, tw_mono_split (below := fun k => !pStop k) (by simpa using hA2) (by simpa using hB2)]
  rw [List.filter_append, List.filter_append]
  rw [filter_false (l := A1) (by intro x hx; simp [hA1 x hx])]
  rw [filter_true (l := A2) (by intro x hx; simp [hA2 x hx, hB1 x (by rw [he]; simp [hx])])]
  rw [filter_false (l := B2) (by intro x hx; simp [hB2 x hx])]
  simp

/-- strictly ascending under `cmp` -/
def Sorted (cmp : Bytes → Bytes → Ordering) (l : List KV) : Prop := l.Pairwise (fun x y => cmp x.1 y.1 = .lt)

/-- an upward-closed key predicate is monotone on a sorted list -/
theorem monoP_of_sorted {cmp : Bytes → Bytes → Ordering} {p : Bytes → Bool}
    (hup : ∀ x y, p x = true → cmp x y = .lt → p y = true) : ∀ {l : List KV}, Sorted cmp l → MonoP p l
  | [], _ => ⟨[], [], rfl, by simp, by simp⟩
  | a :: l, hs => by
    have hs' := List.pairwise_cons.mp hs
    cases hp : p a.1 with
    | true =>
      refine ⟨[], a :: l, rfl, by simp, ?_⟩
      intro x hx
      simp at hx
      rcases hx with rfl | hx
      · exact hp
      · exact hup a.1 x.1 hp (hs'.1 x hx)
    | false =>
      obtain ⟨A, B, he, hA, hB⟩ := monoP_of_sorted hup hs'.2
      refine ⟨a :: A, B, by simp [he], ?_, hB⟩
      intro x hx
      simp at hx
      rcases hx with rfl | hx
      · exact hp
      · exact hA x hx

end DoltVerif.ProllyDiff
