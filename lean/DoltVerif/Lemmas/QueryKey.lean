import DoltVerif.Lemmas.Query
/-! C26: the key-range path of `IterRange` (`KeyRangeLookup` + `IncrementTuple` + `IterKeyRange`). -/
namespace DoltVerif.Query

theorem tle_nil (t : Tuple) : tle [] t = true := by cases t <;> rfl

/-- transitivity where the left tuple may be shorter (its missing cells read as NULL) -/
theorem tle_trans_short : ∀ (a t t' : Tuple), a.length ≤ t.length → t.length = t'.length →
    tle a t = true → tle t t' = true → tle a t' = true
  | [], _, t', _, _, _, _ => tle_nil t'
  | a0 :: as, [], _, h, _, _, _ => by simp at h
  | a0 :: as, x :: xs, [], _, h, _, _ => by simp at h
  | a0 :: as, x :: xs, y :: ys, h1, h2, h3, h4 => by
    rw [tle_cons] at h3 h4 ⊢
    simp only [Bool.or_eq_true, Bool.and_eq_true, beq_iff_eq] at h3 h4 ⊢
    rcases h3 with h3 | ⟨e3, h3⟩
    · rcases h4 with h4 | ⟨e4, _⟩
      · exact Or.inl (clt_trans h3 h4)
      · subst e4; exact Or.inl h3
    · subst e3
      rcases h4 with h4 | ⟨e4, h4⟩
      · exact Or.inl h4
      · subst e4
        exact Or.inr ⟨rfl, tle_trans_short as xs ys (by simpa using h1) (by simpa using h2) h3 h4⟩

/-- the first cells of `t` are exactly the integers `vs` -/
def prefixEq : List Int → Tuple → Bool
  | [], _ => true
  | v :: vs, t => headCell t == some v && prefixEq vs t.tail

/-- the start key of the key range: the bound values followed by NULLs -/
def loKey (vs : List Int) (pad : Nat) : Tuple := vs.map some ++ List.replicate pad none

/-- the stop key: the last bound value incremented, nothing after it -/
def hiKey : List Int → Tuple
  | [] => []
  | [v] => [some (v + 1)]
  | v :: v' :: vs => some v :: hiKey (v' :: vs)

theorem length_hiKey : ∀ vs : List Int, (hiKey vs).length = vs.length
  | [] => rfl
  | [_] => rfl
  | _ :: v' :: vs => by simp [hiKey, length_hiKey (v' :: vs)]

theorem tle_replicate_none (k : Nat) (t : Tuple) : tle (List.replicate k none) t = true := by
  induction k generalizing t with
  | zero => exact tle_nil t
  | succ k ih =>
    cases t with
    | nil => simp [List.replicate_succ, tle, ih]
    | cons x xs =>
      rw [List.replicate_succ, tle_cons]
      cases x with
      | none => simp [clt, ih]
      | some _ => simp [clt]

/-- between `loKey` and `hiKey` lie exactly the tuples that start with `vs` -/
theorem between_keys : ∀ (vs : List Int) (pad : Nat) (t : Tuple), vs ≠ [] → vs.length ≤ t.length →
    (tle (loKey vs pad) t && !tle (hiKey vs) t) = prefixEq vs t
  | [], _, _, h, _ => absurd rfl h
  | [v], pad, t, _, hl => by
    cases t with
    | nil => simp at hl
    | cons x xs =>
      simp only [loKey, List.map_cons, List.map_nil, List.cons_append, List.nil_append, hiKey, tle_cons, tle_nil,
        tle_replicate_none, Bool.and_true, prefixEq, headCell]
      cases x with
      | none => simp [clt]
      | some y =>
        simp only [clt]
        rw [Bool.eq_iff_iff]; simp; omega
  | v :: v' :: vs, pad, t, _, hl => by
    cases t with
    | nil => simp at hl
    | cons x xs =>
      have ih := between_keys (v' :: vs) pad xs (by simp) (by simpa using hl)
      simp only [loKey, List.map_cons, List.cons_append, hiKey, tle_cons, prefixEq, headCell, List.tail_cons] at ih ⊢
      cases x with
      | none => simp [clt]
      | some y =>
        by_cases hy : y = v
        · subst hy
          simp only [clt, Int.lt_irrefl, decide_false, Bool.false_or, beq_self_eq_true, Bool.true_and]
          exact ih
        · have h1 : (some y == some v) = false := by simp [hy]
          have h2 : (some v == some y) = false := by simp [Ne.symm hy]
          simp only [clt, h1, h2, Bool.false_and, Bool.or_false]
          by_cases hlt : v < y <;> simp [hlt]

end DoltVerif.Query

namespace DoltVerif.Query

/-- the shape `KeyRangeLookup` accepts: exactly-bound integer fields `vs`, then fields without bound values -/
structure KeyShape (fields : List RangeField) (vs : List Int) (tr : List RangeField) : Prop where
  split : ∃ eqs, fields = eqs ++ tr ∧ eqs.length = vs.length ∧
    (∀ j (h : j < eqs.length) (h' : j < vs.length), eqs[j].boundsAreEqual = true ∧ eqs[j].lo.value = some vs[j])
  trailing : ∀ g ∈ tr, g.lo.value = none ∧ g.hi.value = none

theorem go_shape : ∀ (fs : List RangeField) (i n : Nat), keyRangeN.go fs i = some (some n) →
    ∃ vs tr, KeyShape fs vs tr ∧ vs.length + i = n + 1
  | [], i, n, h => by
    simp only [keyRangeN.go] at h
    by_cases hi : i = 0
    · simp [hi] at h
    · simp only [beq_iff_eq, hi, if_false, Option.some.injEq] at h
      exact ⟨[], [], ⟨⟨[], rfl, rfl, fun j hj => absurd hj (by simp)⟩, by simp⟩, by simp; omega⟩
  | f :: fs, i, n, h => by
    simp only [keyRangeN.go] at h
    by_cases hlo : (f.lo.value == none) = true
    · simp only [hlo, if_true] at h
      by_cases hhi : (f.hi.value != none) = true
      · simp [hhi] at h
      · simp only [hhi, Bool.false_eq_true, if_false] at h
        by_cases hall : ((f :: fs).all fun g => g.lo.value == none && g.hi.value == none) = true
        · simp only [hall, if_true] at h
          by_cases hi : i = 0
          · simp [hi] at h
          · simp only [beq_iff_eq, hi, if_false, Option.some.injEq] at h
            refine ⟨[], f :: fs, ⟨⟨[], rfl, rfl, fun j hj => absurd hj (by simp)⟩, ?_⟩, by simp; omega⟩
            intro g hg
            have := List.all_eq_true.mp hall g hg
            simpa using this
        · exfalso
          apply hall
          simp at h
          rw [List.all_eq_true]
          intro g hg
          simp only [List.mem_cons] at hg
          rcases hg with rfl | hg
          · simp [h.1.1.1, h.1.1.2]
          · have := h.1.2 g hg
            simp [this.1, this.2]
    · simp only [hlo, Bool.false_eq_true, if_false] at h
      by_cases heq : f.boundsAreEqual = true
      · simp only [heq, Bool.not_true, Bool.false_eq_true, if_false] at h
        obtain ⟨vs, tr, ⟨⟨eqs, hsp, hlen, hj⟩, htr⟩, hn⟩ := go_shape fs (i + 1) n h
        cases hv : f.lo.value with
        | none => simp [hv] at hlo
        | some v =>
          refine ⟨v :: vs, tr, ⟨⟨f :: eqs, by rw [hsp]; rfl, by simp [hlen], ?_⟩, htr⟩, by simp; omega⟩
          intro j h1 h2
          cases j with
          | zero => exact ⟨heq, hv⟩
          | succ j => exact hj j (by simpa using h1) (by simpa using h2)
      · simp [heq] at h

theorem rmatches_shape : ∀ (eqs : List RangeField) (vs : List Int) (tr : List RangeField) (t : Tuple),
    eqs.length = vs.length →
    (∀ j (h : j < eqs.length) (h' : j < vs.length), eqs[j].boundsAreEqual = true ∧ eqs[j].lo.value = some vs[j]) →
    rmatches (eqs ++ tr) t = (prefixEq vs t && rmatches tr (t.drop vs.length))
  | [], [], tr, t, _, _ => by simp [prefixEq]
  | [], _ :: _, _, _, h, _ => by simp at h
  | _ :: _, [], _, _, h, _ => by simp at h
  | f :: eqs, v :: vs, tr, t, hl, hj => by
    obtain ⟨he, hv⟩ := hj 0 (by simp) (by simp)
    simp only [List.getElem_cons_zero] at he hv
    rw [List.cons_append, rmatches_cons, prefixEq,
      rmatches_shape eqs vs tr t.tail (by simpa using hl) (fun j h1 h2 => by
        have := hj (j + 1) (by simpa using h1) (by simpa using h2)
        simpa using this)]
    simp only [fieldMatches, he, if_true, hv, ccmp_beq_zero, List.length_cons]
    have : t.tail.drop vs.length = t.drop (vs.length + 1) := by
      cases t <;> simp
    rw [this]
    cases headCell t with
    | none => simp
    | some x => by_cases hx : x = v <;> simp [hx]

theorem hiKey_eq : ∀ (vs : List Int) (pad : Nat) (v : Int), 
    (loKey (vs ++ [v]) pad).take vs.length ++ [some (v + 1)] = hiKey (vs ++ [v])
  | [], _, _ => by simp [loKey, hiKey]
  | [w], pad, v => by simp [loKey, hiKey]
  | w :: w' :: vs, pad, v => by
    have ih := hiKey_eq (w' :: vs) pad v
    simp only [loKey, List.cons_append, List.map_cons, List.length_cons, List.take_succ_cons, hiKey] at ih ⊢
    rw [ih]

end DoltVerif.Query

namespace DoltVerif.Query

theorem contig_shape : ∀ (eqs : List RangeField) (vs : List Int) (tr : List RangeField), eqs.length = vs.length →
    (∀ j (h : j < eqs.length) (h' : j < vs.length), eqs[j].boundsAreEqual = true ∧ eqs[j].lo.value = some vs[j]) →
    (∀ g ∈ tr, g.lo.value = none ∧ g.hi.value = none) → contigLoop (eqs ++ tr) false true = true → tr = []
  | [], [], tr, _, _, htr, hc => by
    cases tr with
    | nil => rfl
    | cons g gs =>
      obtain ⟨h1, h2⟩ := htr g (by simp)
      simp [contigLoop, h1, h2, contigLoop_false] at hc
  | [], _ :: _, _, h, _, _, _ => by simp at h
  | _ :: _, [], _, h, _, _, _ => by simp at h
  | f :: eqs, v :: vs, tr, hl, hj, htr, hc => by
    obtain ⟨he, hv⟩ := hj 0 (by simp) (by simp)
    simp only [List.getElem_cons_zero] at he hv
    simp only [List.cons_append, contigLoop, hv, he] at hc
    simp at hc
    exact contig_shape eqs vs tr (by simpa using hl) (fun j h1 h2 => by
      have := hj (j + 1) (by simpa using h1) (by simpa using h2)
      simpa using this) htr hc

theorem tup_shape : ∀ (eqs : List RangeField) (vs : List Int) (tr : List RangeField), eqs.length = vs.length →
    (∀ j (h : j < eqs.length) (h' : j < vs.length), eqs[j].boundsAreEqual = true ∧ eqs[j].lo.value = some vs[j]) →
    (∀ g ∈ eqs, WFField g) → (∀ g ∈ tr, g.lo.value = none ∧ g.hi.value = none) →
    (eqs ++ tr).map (·.hi.value) = loKey vs tr.length
  | [], [], tr, _, _, _, htr => by
    simp only [List.nil_append, loKey, List.map_nil]
    induction tr with
    | nil => rfl
    | cons g gs ih =>
      simp only [List.map_cons, List.length_cons, List.replicate_succ, (htr g (by simp)).2]
      rw [ih (fun x hx => htr x (by simp [hx]))]
  | [], _ :: _, _, h, _, _, _ => by simp at h
  | _ :: _, [], _, h, _, _, _ => by simp at h
  | f :: eqs, v :: vs, tr, hl, hj, hw, htr => by
    obtain ⟨he, hv⟩ := hj 0 (by simp) (by simp)
    simp only [List.getElem_cons_zero] at he hv
    have hhi : f.hi.value = some v := by rw [((hw f (by simp)).eqVals he).1, hv]
    have ih := tup_shape eqs vs tr (by simpa using hl) (fun j h1 h2 => by
      have := hj (j + 1) (by simpa using h1) (by simpa using h2)
      simpa using this) (fun g hg => hw g (by simp [hg])) htr
    simp only [List.cons_append, List.map_cons, hhi, loKey] at ih ⊢
    rw [ih]

/-- **the key-range path is exact**: when `KeyRangeLookup` succeeds, `IterKeyRange [Tup, stop)` followed by
the (possibly skipped) post-filter returns exactly the entries between the cuts. -/
theorem keyscan_eq_filter (maxInt : Int) (nullable : List Bool) (w : Nat) (idx : List Tuple)
    (hwid : ∀ t ∈ idx, t.length = w) (hsorted : idx.Pairwise (fun a b => tle a b = true))
    (r : List ColExpr) (hne : rangeNonEmpty r = true) (hn : r.length ≤ w) (stop : Tuple)
    (hk : keyRangeStop maxInt nullable (toProlly r) = some stop) :
    postFilter (toProlly r) (keyPartition idx (toProlly r).tup stop) = idx.filter (memberAll r) := by
  have hwf : ∀ f ∈ r.map toField, WFField f := by
    intro f hf
    simp only [List.mem_map] at hf
    obtain ⟨e, _, rfl⟩ := hf
    exact wf_toField e
  -- unpack KeyRangeLookup
  simp only [keyRangeStop, toProlly] at hk
  cases hkn : keyRangeN (r.map toField) nullable with
  | none => simp [hkn] at hk
  | some n =>
    simp only [hkn, Option.bind_some] at hk
    have hgo : keyRangeN.go (r.map toField) 0 = some (some n) := by
      unfold keyRangeN at hkn
      cases hg : keyRangeN.go (r.map toField) 0 with
      | none => simp [hg] at hkn
      | some o =>
        cases o with
        | none => simp [hg] at hkn
        | some m =>
          simp only [hg] at hkn
          by_cases hnl : ((nullable.drop (m + 1)).all id) = true
          · simp only [hnl, if_true, Option.some.injEq] at hkn; rw [hkn]
          · simp [hnl] at hkn
    obtain ⟨vs, tr, ⟨⟨eqs, hsp, hlen, hj⟩, htr⟩, hvn⟩ := go_shape _ 0 n hgo
    have hvn' : vs.length = n + 1 := by omega
    have hvsne : vs ≠ [] := by intro e; rw [e] at hvn'; simp at hvn'
    have htup : (r.map toField).map (·.hi.value) = loKey vs tr.length := by
      rw [hsp]
      exact tup_shape eqs vs tr hlen hj (fun g hg => hwf g (by rw [hsp]; simp [hg])) htr
    -- the stop key
    obtain ⟨vs', vn, hvs⟩ : ∃ vs' vn, vs = vs' ++ [vn] := by
      cases hd : vs.reverse with
      | nil => exact absurd (List.reverse_eq_nil_iff.mp hd) hvsne
      | cons x xs => exact ⟨xs.reverse, x, by rw [← List.reverse_reverse vs, hd]; simp⟩
    have hn' : vs'.length = n := by rw [hvs] at hvn'; simp at hvn'; omega
    have hstop : stop = hiKey vs := by
      rw [htup] at hk
      simp only [incrementTuple] at hk
      have hget : (loKey vs tr.length)[n]? = some (some vn) := by
        rw [hvs, ← hn']; simp [loKey]
      rw [hget] at hk
      by_cases hov : vn ≥ maxInt
      · simp [hov] at hk
      · simp only [hov, if_false, Option.some.injEq] at hk
        rw [← hk, hvs, ← hn']
        exact hiKey_eq vs' tr.length vn
    have hvw : vs.length ≤ w := by
      have : (r.map toField).length = eqs.length + tr.length := by rw [hsp]; simp
      simp at this
      omega
    -- the slice
    have hs : idx.Pairwise (fun a b => tle a b = true ∧ a.length = w ∧ b.length = w) := by
      rw [List.pairwise_iff_forall_sublist] at hsorted ⊢
      intro a b hab
      have hm := hab.subset
      exact ⟨hsorted hab, hwid a (hm (by simp)), hwid b (hm (by simp))⟩
    have htl : (loKey vs tr.length).length ≤ w := by
      rw [← htup]; simpa using hn
    have hsl : (hiKey vs).length ≤ w := by rw [length_hiKey]; exact hvw
    have hfun : (fun t => tle stop t) = (fun t => !(fun t => !tle (hiKey vs) t) t) := by
      funext t; simp [hstop]
    have hslice : keyPartition idx (loKey vs tr.length) stop = idx.filter (prefixEq vs) := by
      unfold keyPartition
      rw [hfun]
      rw [slice_eq_filter _ (fun t => tle (loKey vs tr.length) t) (fun t => !tle (hiKey vs) t)
        (fun a b hab hpa => tle_trans_short _ a b (by rw [hab.2.1]; exact htl) (by rw [hab.2.1, hab.2.2]) hpa hab.1)
        (fun a b hab hqb => by
          cases hta : tle (hiKey vs) a with
          | false => rfl
          | true =>
            have := tle_trans_short _ a b (by rw [hab.2.1]; exact hsl) (by rw [hab.2.1, hab.2.2]) hta hab.1
            simp [this] at hqb)
        idx hs]
      apply List.filter_congr
      intro t ht
      exact between_keys vs tr.length t hvsne (by rw [hwid t ht]; exact hvw)
    have hrm : ∀ t, rmatches (r.map toField) t = (prefixEq vs t && rmatches tr (t.drop vs.length)) := by
      intro t; rw [hsp]; exact rmatches_shape eqs vs tr t hlen hj
    have hmem : ∀ t, rmatches (r.map toField) t = memberAll r t := fun t => rmatches_toProlly r t hne
    show postFilter (toProlly r) (keyPartition idx ((r.map toField).map (·.hi.value)) stop) = _
    rw [htup, hslice]
    simp only [postFilter, toProlly, Bool.not_true, Bool.false_or]
    by_cases hc : contigLoop (r.map toField) false true = true
    · simp only [hc, Bool.not_true, Bool.false_eq_true, if_false]
      have htr0 : tr = [] := contig_shape eqs vs tr hlen hj htr (by rw [← hsp]; exact hc)
      apply List.filter_congr
      intro t _
      rw [← hmem t, hrm t, htr0]
      simp [rmatches]
    · simp only [hc, Bool.not_false, if_true, List.filter_filter]
      apply List.filter_congr
      intro t _
      rw [← hmem t, hrm t]
      cases prefixEq vs t <;> simp

end DoltVerif.Query
