import DoltVerif.Lemmas.BinlogDecimal
import DoltVerif.Lemmas.BinlogCells
/-! NEWDECIMAL round trip for C40 (`bin2decimal` applied to `decimalSerializer.serialize`). -/
namespace DoltVerif.Binlog
set_option linter.unusedSimpArgs false

theorem dig2bytes_pos (n : Nat) (h : 1 ≤ n) : 1 ≤ dig2bytes n := by unfold dig2bytes; omega

theorem sum_dig2bytes_pos (szs : List Nat) (h : 1 ≤ szs.sum) : 1 ≤ (szs.map dig2bytes).sum := by
  induction szs with
  | nil => simp at h
  | cons sz rest ih =>
    simp only [List.sum_cons, List.map_cons] at h ⊢
    by_cases h0 : 1 ≤ sz
    · have := dig2bytes_pos sz h0; omega
    · have := ih (by omega); omega

theorem decimal_meta (p s : Nat) (hp : p ≤ 65) (hs : s ≤ 30) :
    (colMeta (.decimal p s)).2 >>> 8 = p ∧ (colMeta (.decimal p s)).2 &&& 0xff = s := by
  have hm : (colMeta (.decimal p s)).2 = p * 256 + s := by
    simp only [colMeta]
    rw [Nat.mod_eq_of_lt (a := p) (by omega), Nat.mod_eq_of_lt (a := s) (by omega), or_low _ _ (by omega)]
    omega
  rw [hm, and_ff, Nat.shiftRight_eq_div_pow]
  constructor <;> omega

/-- **NEWDECIMAL round trip** for every precision/scale with at least one integer digit. -/
theorem decode_decimal (p s : Nat) (neg : Bool) (u : Nat) (b r : Bytes) (hp1 : 1 ≤ p) (hp : p ≤ 65) (hs30 : s ≤ 30)
    (hs : s < p) (hu : u < 10 ^ p) (he : encDecimal p s neg u = .ok b) :
    decodeCell false tNewDecimal (colMeta (.decimal p s)).2 (b ++ r) = some (.decimal neg u, r) := by
  rw [encDecimal_eq p s neg u hs hu] at he
  injection he with he
  subst he
  obtain ⟨hm1, hm2⟩ := decimal_meta p s hp hs30
  have hle : s ≤ p := by omega
  have hlen : (bufOf p s u).length = decimalLen p s := by simp [bufOf, encBySizes_length, decimalLen]
  have hpos : 1 ≤ (bufOf p s u).length := by
    rw [hlen]; exact sum_dig2bytes_pos _ (by rw [decimalGroups_sum p s hle]; exact hp1)
  obtain ⟨b0, t, hbt⟩ : ∃ b0 t, bufOf p s u = b0 :: t := by
    cases h : bufOf p s u with
    | nil => rw [h] at hpos; simp at hpos
    | cons x xs => exact ⟨x, xs, rfl⟩
  have hb0 : b0.toNat < 128 :=
    encBySizes_head_lt (decimalGroups p s) (decDigits p s u) (decDigits_lt p s u) (decimalGroups_le9 p s)
      (by rw [decimalGroups_sum p s hle, decDigits_length p s u hle]; exact Nat.le_refl _) b0 t hbt
  obtain ⟨b', t', hsg, hng, hback⟩ := sign_roundtrip neg b0 t hb0
  have hlen2 : (b' :: t').length = decimalLen p s := by rw [← hsg, decimalSign_length, ← hbt, hlen]
  have htake : takeN (decimalLen p s) (b' :: t' ++ r) = some (b' :: t', r) := by
    rw [← hlen2]; exact takeN_append (b' :: t') r
  have hrg : readGroups (decimalGroups p s) (b0 :: t) 0 = some (u, []) := by
    have := readGroups_encBySizes (decimalGroups p s) (decDigits p s u) [] 0
      (by rw [decimalGroups_sum p s hle, decDigits_length p s u hle]) (decDigits_lt p s u) (decimalGroups_le9 p s)
    rw [List.append_nil, atoi_decDigits p s u hle hu, Nat.zero_mul, Nat.zero_add] at this
    rw [← hbt]; exact this
  rw [hbt, hsg]
  simp only [decodeCell, tTiny, tShort, tInt24, tLong, tLongLong, tFloat, tDouble, tYear, tDate, tTime2,
      tDateTime2, tTimestamp2, tNewDecimal, hm1, hm2]
  simp only [show (246 : Nat) = 1 ↔ False by decide, show (246 : Nat) = 2 ↔ False by decide, show (246 : Nat) = 9 ↔ False by decide,
    show (246 : Nat) = 3 ↔ False by decide, show (246 : Nat) = 8 ↔ False by decide, show (246 : Nat) = 4 ↔ False by decide,
    show (246 : Nat) = 5 ↔ False by decide, show (246 : Nat) = 13 ↔ False by decide, show (246 : Nat) = 10 ↔ False by decide,
    show (246 : Nat) = 19 ↔ False by decide, show (246 : Nat) = 18 ↔ False by decide, show (246 : Nat) = 17 ↔ False by decide,
    if_false, if_true, decNewDecimal, htake, hng]
  cases neg
  · simp only [Bool.false_eq_true, if_false] at hback ⊢
    rw [hback, hrg]
  · simp only [if_true] at hback ⊢
    rw [hback, hrg]
end DoltVerif.Binlog
