import DoltVerif.Lemmas.ValCodecLE
/-! Fixed-width integer codecs: round trip and order (C15). -/
namespace DoltVerif.ValCodec

/-- the order of SQL integer values -/
def specCmpInt (a b : Int) : Ordering := if a < b then .lt else if a = b then .eq else .gt

theorem cmp3_of_key {α : Type} [LT α] [DecidableEq α] [DecidableLT α] (key : α → Int)
    (hinj : ∀ a b : α, a = b ↔ key a = key b) (hlt : ∀ a b : α, a < b ↔ key a < key b) (a b : α) :
    cmp3 a b = specCmpInt (key a) (key b) := by
  unfold cmp3 specCmpInt
  by_cases h1 : a = b
  · have := (hinj a b).1 h1
    simp [h1]
  · have h1' : key a ≠ key b := fun h => h1 ((hinj a b).2 h)
    by_cases h2 : a < b
    · have := (hlt a b).1 h2
      simp [h1, h2, this]
    · have h2' : ¬ key a < key b := fun h => h2 ((hlt a b).2 h)
      simp [h1, h2, h1', h2']

/-! ### unsigned -/

theorem readU8_writeU8 (v : UInt8) : readU8 (writeU8 v) = .ok v := by
  have := UInt8.toNat_lt v
  simp [readU8, writeU8, expectSize, leBytes_length, leNat_leBytes, bind, Except.bind, pure, Except.pure]

theorem readU16_writeU16 (v : UInt16) : readU16 (writeU16 v) = .ok v := by
  have := UInt16.toNat_lt v
  simp [readU16, writeU16, expectSize, leBytes_length, leNat_leBytes, bind, Except.bind, pure, Except.pure]

theorem readU32_writeU32 (v : UInt32) : readU32 (writeU32 v) = .ok v := by
  have := UInt32.toNat_lt v
  simp [readU32, writeU32, expectSize, leBytes_length, leNat_leBytes, bind, Except.bind, pure, Except.pure]

theorem readU64_writeU64 (v : UInt64) : readU64 (writeU64 v) = .ok v := by
  have := UInt64.toNat_lt v
  simp [readU64, writeU64, expectSize, leBytes_length, leNat_leBytes, bind, Except.bind, pure, Except.pure]

/-! ### signed: two's complement cast, as Go's `uint32(val)` / `int32(u)` -/

theorem readI8_writeI8 (v : Int8) : readI8 (writeI8 v) = .ok v := by
  simp [readI8, writeI8, readU8_writeU8, bind, Except.bind, pure, Except.pure]
theorem readI16_writeI16 (v : Int16) : readI16 (writeI16 v) = .ok v := by
  simp [readI16, writeI16, readU16_writeU16, bind, Except.bind, pure, Except.pure]
theorem readI32_writeI32 (v : Int32) : readI32 (writeI32 v) = .ok v := by
  simp [readI32, writeI32, readU32_writeU32, bind, Except.bind, pure, Except.pure]
theorem readI64_writeI64 (v : Int64) : readI64 (writeI64 v) = .ok v := by
  simp [readI64, writeI64, readU64_writeU64, bind, Except.bind, pure, Except.pure]

/-! ### the three-way comparison of each width is the order of the integer values -/

theorem cmp3_u8 (a b : UInt8) : cmp3 a b = specCmpInt a.toNat b.toNat :=
  cmp3_of_key (fun x : UInt8 => (x.toNat : Int)) (fun a b => by rw [← UInt8.toNat_inj]; omega)
    (fun a b => by simp [UInt8.lt_iff_toNat_lt]) a b
theorem cmp3_u16 (a b : UInt16) : cmp3 a b = specCmpInt a.toNat b.toNat :=
  cmp3_of_key (fun x : UInt16 => (x.toNat : Int)) (fun a b => by rw [← UInt16.toNat_inj]; omega)
    (fun a b => by simp [UInt16.lt_iff_toNat_lt]) a b
theorem cmp3_u32 (a b : UInt32) : cmp3 a b = specCmpInt a.toNat b.toNat :=
  cmp3_of_key (fun x : UInt32 => (x.toNat : Int)) (fun a b => by rw [← UInt32.toNat_inj]; omega)
    (fun a b => by simp [UInt32.lt_iff_toNat_lt]) a b
theorem cmp3_u64 (a b : UInt64) : cmp3 a b = specCmpInt a.toNat b.toNat :=
  cmp3_of_key (fun x : UInt64 => (x.toNat : Int)) (fun a b => by rw [← UInt64.toNat_inj]; omega)
    (fun a b => by simp [UInt64.lt_iff_toNat_lt]) a b
theorem cmp3_i8 (a b : Int8) : cmp3 a b = specCmpInt a.toInt b.toInt :=
  cmp3_of_key Int8.toInt (fun _ _ => Int8.toInt_inj.symm) (fun _ _ => Int8.lt_iff_toInt_lt) a b
theorem cmp3_i16 (a b : Int16) : cmp3 a b = specCmpInt a.toInt b.toInt :=
  cmp3_of_key Int16.toInt (fun _ _ => Int16.toInt_inj.symm) (fun _ _ => Int16.lt_iff_toInt_lt) a b
theorem cmp3_i32 (a b : Int32) : cmp3 a b = specCmpInt a.toInt b.toInt :=
  cmp3_of_key Int32.toInt (fun _ _ => Int32.toInt_inj.symm) (fun _ _ => Int32.lt_iff_toInt_lt) a b
theorem cmp3_i64 (a b : Int64) : cmp3 a b = specCmpInt a.toInt b.toInt :=
  cmp3_of_key Int64.toInt (fun _ _ => Int64.toInt_inj.symm) (fun _ _ => Int64.lt_iff_toInt_lt) a b
theorem cmp3_int (a b : Int) : cmp3 a b = specCmpInt a b :=
  cmp3_of_key id (fun _ _ => Iff.rfl) (fun _ _ => Iff.rfl) a b

/-! ### `specCmpInt` is a linear order presented as a three-way comparison -/

theorem specCmpInt_refl (a : Int) : specCmpInt a a = .eq := by simp [specCmpInt]
theorem specCmpInt_eq_iff {a b : Int} : specCmpInt a b = .eq ↔ a = b := by
  unfold specCmpInt
  by_cases h1 : a < b
  · simp [h1]; omega
  · by_cases h2 : a = b <;> simp [h1, h2]
theorem specCmpInt_lt_iff {a b : Int} : specCmpInt a b = .lt ↔ a < b := by
  unfold specCmpInt
  by_cases h1 : a < b
  · simp [h1]
  · by_cases h2 : a = b <;> simp [h1, h2]
theorem specCmpInt_gt_iff {a b : Int} : specCmpInt a b = .gt ↔ b < a := by
  unfold specCmpInt
  by_cases h1 : a < b
  · simp [h1]; omega
  · by_cases h2 : a = b
    · simp [h2]
    · simp [h1, h2]; omega
theorem specCmpInt_swap (a b : Int) : specCmpInt b a = (specCmpInt a b).swap := by
  rcases Int.lt_trichotomy a b with h | h | h
  · have h1 := specCmpInt_lt_iff.2 h
    have h2 := specCmpInt_gt_iff.2 h
    rw [h1, h2]; rfl
  · subst h; simp [specCmpInt_refl]
  · have h1 := specCmpInt_gt_iff.2 h
    have h2 := specCmpInt_lt_iff.2 h
    rw [h1, h2]; rfl

end DoltVerif.ValCodec
