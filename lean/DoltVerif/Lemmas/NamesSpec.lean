import DoltVerif.Model.Names
/-!
Helper lemmas for C44 (ancestor specs): fuel irrelevance of `parseInstructions`, `strings.TrimSpace`
facts, and the slicing of `SplitAncestorSpec`.  Core Lean only.
-/
set_option linter.unusedSimpArgs false
namespace DoltVerif.Names

/-! ### generic list facts -/

theorem dropWhile_self_of_head {α} (p : α → Bool) : ∀ (l : List α),
    (∀ a, l.head? = some a → p a = false) → l.dropWhile p = l
  | [], _ => rfl
  | a :: t, h => by
    have := h a rfl
    simp [List.dropWhile_cons, this]

theorem head_dropWhile {α} (p : α → Bool) (l : List α) :
    ∀ a, (l.dropWhile p).head? = some a → p a = false := by
  intro a h
  have := List.head?_dropWhile_not p l
  rw [h] at this
  exact this

theorem dropWhile_dropWhile {α} (p : α → Bool) (l : List α) :
    (l.dropWhile p).dropWhile p = l.dropWhile p :=
  dropWhile_self_of_head p _ (head_dropWhile p l)

theorem takeWhile_mem {α} (p : α → Bool) : ∀ (l : List α) a, a ∈ l.takeWhile p → p a = true
  | [], _, h => by simp at h
  | b :: t, a, h => by
    by_cases hb : p b = true
    · simp only [List.takeWhile_cons, hb, if_true, List.mem_cons] at h
      rcases h with rfl | h
      · exact hb
      · exact takeWhile_mem p t a h
    · simp [List.takeWhile_cons, hb] at h

theorem findIdx_take_drop {α} (p : α → Bool) : ∀ (l : List α) (i : Nat),
    l.findIdx? p = some i →
      l.take i = l.takeWhile (fun a => !p a) ∧ l.drop i = l.dropWhile (fun a => !p a)
  | [], i, h => by simp at h
  | a :: t, i, h => by
    rw [List.findIdx?_cons] at h
    by_cases ha : p a = true
    · simp only [ha, if_true, Option.some.injEq] at h
      subst h
      simp [List.takeWhile_cons, List.dropWhile_cons, ha]
    · simp only [ha, Bool.false_eq_true, if_false, Option.map_eq_some_iff] at h
      obtain ⟨j, hj, rfl⟩ := h
      have := findIdx_take_drop p t j hj
      simp [List.takeWhile_cons, List.dropWhile_cons, ha, this.1, this.2]

theorem findIdx_none_take_drop {α} (p : α → Bool) : ∀ (l : List α),
    l.findIdx? p = none →
      l.takeWhile (fun a => !p a) = l ∧ l.dropWhile (fun a => !p a) = []
  | [], _ => by simp
  | a :: t, h => by
    rw [List.findIdx?_cons] at h
    by_cases ha : p a = true
    · simp [ha] at h
    · simp only [ha, Bool.false_eq_true, if_false, Option.map_eq_none_iff] at h
      have := findIdx_none_take_drop p t h
      simp [List.takeWhile_cons, List.dropWhile_cons, ha, this.1, this.2]

/-! ### parseInstructions: the fuel always suffices -/

theorem parse_zero (s : Bytes) : parseInstructions 0 s = .ok [] := by
  cases s <;> rfl

theorem parse_nil (f : Nat) : parseInstructions f [] = .ok [] := by
  cases f <;> rfl

/-- one loop iteration, as a function of the result on the remaining input -/
def parseStep (c : UInt8) (rest : Bytes) (k : Except SpecErr (List Nat)) : Except SpecErr (List Nat) :=
  let ds := rest.takeWhile isDigit
  if !ds.isEmpty && !atoiOk ds then .error .atoi else
  let num := if ds.isEmpty then 1 else digitsVal ds
  if c == 0x5e then
    if num == 1 || num == 2 then
      match k with
      | .ok is => .ok ((num - 1) :: is)
      | .error e => .error e
    else .error .invalidAncestor
  else if c == 0x7e then
    match k with
    | .ok is => .ok (List.replicate num 0 ++ is)
    | .error e => .error e
  else .error .invalidHead

theorem parse_succ_cons (f : Nat) (c : UInt8) (rest : Bytes) :
    parseInstructions (f+1) (c :: rest) =
      parseStep c rest (parseInstructions f (rest.dropWhile isDigit)) := rfl

theorem length_dropWhile_le {α} (p : α → Bool) (l : List α) : (l.dropWhile p).length ≤ l.length := by
  have := congrArg List.length (List.takeWhile_append_dropWhile (p := p) (l := l))
  simp only [List.length_append] at this
  omega

theorem parse_fuel : ∀ (n : Nat) (s : Bytes) (f1 f2 : Nat), s.length ≤ n → s.length < f1 → s.length < f2 →
    parseInstructions f1 s = parseInstructions f2 s := by
  intro n
  induction n with
  | zero =>
    intro s f1 f2 hn _ _
    have : s = [] := List.eq_nil_of_length_eq_zero (by omega)
    subst this; rw [parse_nil, parse_nil]
  | succ n ih =>
    intro s f1 f2 hn h1 h2
    cases s with
    | nil => rw [parse_nil, parse_nil]
    | cons c rest =>
      cases f1 with
      | zero => simp at h1
      | succ f1 =>
        cases f2 with
        | zero => simp at h2
        | succ f2 =>
          rw [parse_succ_cons, parse_succ_cons]
          have hl := length_dropWhile_le isDigit rest
          simp only [List.length_cons] at hn h1 h2
          rw [ih (rest.dropWhile isDigit) f1 f2 (by omega) (by omega) (by omega)]

/-- `parseInstructions` with the fuel its callers pass -/
def parseI (s : Bytes) : Except SpecErr (List Nat) := parseInstructions (s.length + 1) s

theorem parseI_nil : parseI [] = .ok [] := rfl

theorem parseI_cons (c : UInt8) (rest : Bytes) :
    parseI (c :: rest) = parseStep c rest (parseI (rest.dropWhile isDigit)) := by
  unfold parseI
  rw [parse_succ_cons]
  have hl := length_dropWhile_le isDigit rest
  rw [parse_fuel rest.length (rest.dropWhile isDigit) _ ((rest.dropWhile isDigit).length + 1)
    hl (by simp only [List.length_cons]; omega) (by omega)]

theorem parse_eq_parseI (s : Bytes) (f : Nat) (h : s.length < f) : parseInstructions f s = parseI s :=
  parse_fuel s.length s f (s.length + 1) (Nat.le_refl _) h (by omega)

/-- a first byte other than `^`/`~` is always an error -/
theorem parseStep_bad_head (c : UInt8) (rest : Bytes) (k) (h1 : c ≠ 0x5e) (h2 : c ≠ 0x7e) :
    ∃ e, parseStep c rest k = .error e := by
  unfold parseStep
  by_cases ha : (!(rest.takeWhile isDigit).isEmpty && !atoiOk (rest.takeWhile isDigit)) = true
  · exact ⟨.atoi, by simp only [ha, if_true]⟩
  · refine ⟨.invalidHead, ?_⟩
    simp only [ha, Bool.false_eq_true, if_false]
    simp [h1, h2]

/-! ### strings.TrimSpace -/

def spaceLead (s : Bytes) : Bytes := s.takeWhile isSpace
def spaceTrail (s : Bytes) : Bytes := ((s.dropWhile isSpace).reverse.takeWhile isSpace).reverse

theorem trim_decomp (s : Bytes) : s = spaceLead s ++ (trimSpace s ++ spaceTrail s) := by
  have h1 : s = s.takeWhile isSpace ++ s.dropWhile isSpace := List.takeWhile_append_dropWhile.symm
  have h2 := List.takeWhile_append_dropWhile (p := isSpace) (l := (s.dropWhile isSpace).reverse)
  have h3 : s.dropWhile isSpace = trimSpace s ++ spaceTrail s := by
    have := congrArg List.reverse h2
    simp only [List.reverse_append, List.reverse_reverse] at this
    simp only [trimSpace, spaceTrail]
    exact this.symm
  simp only [spaceLead]
  rw [← h3]; exact h1

theorem spaceLead_all (s : Bytes) : ∀ a ∈ spaceLead s, isSpace a = true :=
  fun a h => takeWhile_mem isSpace s a h

theorem trim_trim (s : Bytes) : trimSpace (trimSpace s) = trimSpace s := by
  -- head of `trimSpace s` is not a space
  have hd : ∀ a, (trimSpace s).head? = some a → isSpace a = false := by
    intro a ha
    have h3 : s.dropWhile isSpace = trimSpace s ++ spaceTrail s := by
      have h2 := List.takeWhile_append_dropWhile (p := isSpace) (l := (s.dropWhile isSpace).reverse)
      have := congrArg List.reverse h2
      simp only [List.reverse_append, List.reverse_reverse] at this
      simp only [trimSpace, spaceTrail]
      exact this.symm
    apply head_dropWhile isSpace s a
    rw [h3, List.head?_append, ha]; rfl
  have e1 : (trimSpace s).dropWhile isSpace = trimSpace s := dropWhile_self_of_head _ _ hd
  have e2 : (trimSpace s).reverse.dropWhile isSpace = (trimSpace s).reverse := by
    simp only [trimSpace, List.reverse_reverse]
    exact dropWhile_dropWhile _ _
  have e0 : trimSpace (trimSpace s) =
      (((trimSpace s).dropWhile isSpace).reverse.dropWhile isSpace).reverse := rfl
  rw [e0, e1, e2, List.reverse_reverse]

def isSpec (b : UInt8) : Bool := b == 0x5e || b == 0x7e

theorem space_not_spec (a : UInt8) (h : isSpace a = true) : isSpec a = false := by
  simp only [isSpace, Bool.or_eq_true, beq_iff_eq] at h
  rcases h with ((((h | h) | h) | h) | h) | h <;> subst h <;> decide

theorem indexOfSpecChar_eq (c : Bytes) : indexOfSpecChar c = c.findIdx? isSpec := rfl

def notSpec (b : UInt8) : Bool := !isSpec b

theorem split_trimmed (c : Bytes) (hc : trimSpace c = c) :
    splitAncestorSpec c =
      match parseI (c.dropWhile notSpec) with
      | .ok is => .ok (c.takeWhile notSpec, is)
      | .error e => .error e := by
  have e : notSpec = fun a => !isSpec a := rfl
  unfold splitAncestorSpec
  simp only [hc, indexOfSpecChar_eq]
  rw [e]
  cases h : c.findIdx? isSpec with
  | none =>
    obtain ⟨ht, hd⟩ := findIdx_none_take_drop isSpec c h
    rw [ht, hd, parseI_nil]
  | some idx =>
    obtain ⟨ht, hd⟩ := findIdx_take_drop isSpec c idx h
    rw [← ht, ← hd]
    by_cases he : (c.drop idx).isEmpty = true
    · have h0 : c.drop idx = [] := by simpa using he
      simp [h0, parseI_nil]
    · have hp := parse_eq_parseI (c.drop idx) ((c.drop idx).length + 1) (by omega)
      simp only [he, Bool.false_eq_true, if_false, hp]
      rfl

theorem split_leading_space (w : UInt8) (s : Bytes) (hw : isSpace w = true) (idx : Nat)
    (h : indexOfSpecChar (trimSpace (w :: s)) = some idx) :
    ∃ e, splitAncestorSpec (w :: s) = .error e := by
  have hd := trim_decomp (w :: s)
  have hlead : 1 ≤ (spaceLead (w :: s)).length := by
    simp [spaceLead, List.takeWhile_cons, hw]
  have hnone : (spaceLead (w :: s)).findIdx? isSpec = none := by
    rw [List.findIdx?_eq_none_iff]
    intro x hx
    exact space_not_spec x (spaceLead_all _ x hx)
  rw [indexOfSpecChar_eq] at h
  have hfull : (w :: s).findIdx? isSpec = some (idx + (spaceLead (w :: s)).length) := by
    conv => lhs; rw [hd]
    rw [List.findIdx?_append, hnone, List.findIdx?_append, h]
    simp
  rw [List.findIdx?_eq_some_iff_getElem] at hfull
  obtain ⟨hlt, _, hbefore⟩ := hfull
  have hidx : idx < (w :: s).length := by omega
  have hns : isSpec ((w :: s)[idx]) = false := by
    have := hbefore idx (by omega)
    simpa using this
  unfold splitAncestorSpec
  simp only [indexOfSpecChar_eq, h]
  rw [List.drop_eq_getElem_cons hidx]
  simp only [List.isEmpty_cons, Bool.false_eq_true, if_false, List.length_cons, parse_succ_cons]
  have hc : (w :: s)[idx] ≠ 0x5e ∧ (w :: s)[idx] ≠ 0x7e := by
    simp only [isSpec, Bool.or_eq_false_iff, beq_eq_false_iff_ne] at hns
    exact hns
  obtain ⟨e, he⟩ := parseStep_bad_head ((w :: s)[idx]) (List.drop (idx + 1) (w :: s))
    (parseInstructions ((List.drop (idx + 1) (w :: s)).length + 1) (List.dropWhile isDigit (List.drop (idx + 1) (w :: s)))) hc.1 hc.2
  exact ⟨e, by rw [he]⟩

theorem split_no_spec (s : Bytes) (h : indexOfSpecChar (trimSpace s) = none) :
    splitAncestorSpec s = .ok (trimSpace s, []) := by
  unfold splitAncestorSpec
  simp only [h]

/-! ### NewCommitSpec = classify the base + walk the suffix -/

/-- the part of the (trimmed) spec before the first `^`/`~` -/
def baseOf (s : Bytes) : Bytes := (trimSpace s).takeWhile notSpec
/-- the part of the (trimmed) spec from the first `^`/`~` on -/
def suffixOf (s : Bytes) : Bytes := (trimSpace s).dropWhile notSpec

/-- how `NewCommitSpec` parses a base name on its own: HEAD (any case), a 32-char base32 hash, or a
valid branch name -/
def classifyBase (name : Bytes) : Except SpecErr (BaseKind × Bytes) :=
  if name.map toLower == [0x68,0x65,0x61,0x64] then .ok (.head, [0x68,0x65,0x61,0x64])
  else if looksLikeHash name then .ok (.hash, name)
  else if !isValidBranchName name then .error .invalidBranchOrHash
  else .ok (.ref, name)

theorem newCommitSpec_eq (s : Bytes) :
    newCommitSpec s =
      match parseI (suffixOf s) with
      | .error e => .error e
      | .ok is =>
        match classifyBase (baseOf s) with
        | .ok (k, b) => .ok (k, b, is)
        | .error e => .error e := by
  unfold newCommitSpec
  rw [split_trimmed (trimSpace s) (trim_trim s)]
  simp only [baseOf, suffixOf, classifyBase]
  cases parseI ((trimSpace s).dropWhile notSpec) with
  | error e => rfl
  | ok is =>
    simp only
    by_cases h1 : (List.map toLower ((trimSpace s).takeWhile notSpec) == [0x68,0x65,0x61,0x64]) = true
    · simp only [h1, if_true]
    · simp only [h1, Bool.false_eq_true, if_false]
      by_cases h2 : looksLikeHash ((trimSpace s).takeWhile notSpec) = true
      · simp only [h2, if_true]
      · simp only [h2, Bool.false_eq_true, if_false]
        by_cases h3 : (!isValidBranchName ((trimSpace s).takeWhile notSpec)) = true
        · simp only [h3, if_true]
        · simp only [h3, Bool.false_eq_true, if_false]

end DoltVerif.Names
