import DoltVerif.Lemmas.ProllyMergeWalk
/-!
C14 helper lemmas: key-wise semantics of the patch-based merge of three single-leaf trees.
-/
namespace DoltVerif.ProllyMerge
open DoltVerif.ProllyDiff

variable {cmp : Bytes → Bytes → Ordering}

/-- the patch `SendPatches` sends for one tag of the merge walk -/
def patchTag (collide : Collide) : Tag → Option Patch
  | .left _ => none
  | .right r => some (pointPatch r)
  | .both l r =>
    if l.to? == r.to? then none
    else match collide l r with
      | none => none
      | some to => some { from? := l.from?.map PVal.val, endKey := l.key, to? := to.map PVal.val }

/-- the collision handed to the handler for one tag -/
def collTag : Tag → Option Collision
  | .both l r => if l.to? == r.to? then none else some ⟨l, r⟩
  | _ => none

theorem mergeWalk_nil_right : ∀ (ls : List Event), mergeWalk cmp ls [] = ls.map Tag.left
  | [] => by simp [mergeWalk]
  | l :: ls => by simp [mergeWalk, mergeWalk_nil_right ls]

theorem mergeWalk_nil_left : ∀ (rs : List Event), mergeWalk cmp [] rs = rs.map Tag.right
  | [] => by simp [mergeWalk]
  | r :: rs => by simp [mergeWalk, mergeWalk_nil_left rs]

/-- `sendSpec` is a `filterMap` of the generic merge walk -/
theorem sendSpec_eq_walk (collide : Collide) : ∀ (EL ER : List Event),
    sendSpec cmp collide EL ER = ((mergeWalk cmp EL ER).filterMap (patchTag collide), (mergeWalk cmp EL ER).filterMap collTag)
  | [], ER => by
    rw [sendSpec, mergeWalk_nil_left]
    simp [List.filterMap_map, Function.comp_def, patchTag, collTag]
  | l :: ls, [] => by
    rw [sendSpec, mergeWalk_nil_right]
    simp [List.filterMap_map, Function.comp_def, patchTag, collTag]
  | l :: ls, r :: rs => by
    rw [sendSpec, mergeWalk]
    cases hc : cmp l.key r.key with
    | lt => simp [sendSpec_eq_walk collide ls (r :: rs), List.filterMap_cons, patchTag, collTag]
    | gt => simp [sendSpec_eq_walk collide (l :: ls) rs, List.filterMap_cons, patchTag, collTag]
    | eq =>
      simp only []
      rw [sendSpec_eq_walk collide ls rs]
      by_cases hto : (l.to? == r.to?) = true
      · simp [hto, List.filterMap_cons, patchTag, collTag]
      · simp only [hto, Bool.false_eq_true, if_false]
        cases hcol : collide l r <;> simp [hto, hcol, List.filterMap_cons, patchTag, collTag]
termination_by EL ER => EL.length + ER.length

theorem patchTag_key {collide : Collide} {t : Tag} {p : Patch} (h : patchTag collide t = some p) :
    p.endKey = t.key ∧ p.level = 0 := by
  cases t with
  | left l => simp [patchTag] at h
  | right r => simp [patchTag] at h; subst h; exact ⟨rfl, rfl⟩
  | both l r =>
    simp only [patchTag] at h
    split at h
    · simp at h
    · split at h
      · simp at h
      · simp at h; subst h; exact ⟨rfl, rfl⟩

/-- in a list that ascends strictly by key, a key names at most one element -/
theorem asc_unique {α} (ol : OrdLaws cmp) (key : α → Bytes) : ∀ {l : List α}, l.Pairwise (fun a b => cmp (key a) (key b) = .lt) →
    ∀ {a b}, a ∈ l → b ∈ l → cmp (key a) (key b) = .eq → a = b
  | [], _, a, b, ha, _, _ => by simp at ha
  | x :: xs, hp, a, b, ha, hb, he => by
    have hp' := List.pairwise_cons.mp hp
    simp at ha hb
    rcases ha with rfl | ha <;> rcases hb with rfl | hb
    · rfl
    · have := hp'.1 b hb; rw [he] at this; simp at this
    · have := hp'.1 a ha; rw [ol.eq_symm he] at this; simp at this
    · exact asc_unique ol key hp'.2 ha hb he

theorem find_patch_of_mem (ol : OrdLaws cmp) (k : Bytes) : ∀ (ps : List Patch),
    ps.Pairwise (fun p q => cmp p.endKey q.endKey = .lt) → ∀ p ∈ ps, cmp k p.endKey = .eq →
    ps.find? (fun q => cmp k q.endKey == .eq) = some p
  | [], _, p, h, _ => by simp at h
  | p0 :: ps, ha, p, h, hk => by
    have ha' := List.pairwise_cons.mp ha
    simp at h
    rcases h with rfl | h
    · simp [List.find?_cons, hk]
    · have hlt := ha'.1 p h
      have : cmp k p0.endKey ≠ .eq := by
        intro h0
        have := ol.eq_lt _ _ _ h0 hlt
        rw [hk] at this; simp at this
      have hb : (cmp k p0.endKey == .eq) = false := by simpa using this
      simp only [List.find?_cons, hb]
      exact find_patch_of_mem ol k ps ha'.2 p h hk

/-- an event of the patch-form diff with key `k` is the change of `k` between the lookups -/
theorem diffSpecP_at_key (ol : OrdLaws cmp) {B X : List KV} (sb : Sorted cmp B) (sx : Sorted cmp X) (k : Bytes) (e : Event) :
    (DiffSpecP cmp B X e ∧ cmp k e.key = .eq) ↔ changeOf (lookupKV cmp k B) (lookupKV cmp k X) = some e := by
  constructor
  · rintro ⟨(⟨x, hx, rfl, hno⟩ | ⟨y, hy, rfl, hno⟩ | ⟨x, hx, y, hy, rfl, he, hv⟩), hk⟩
    · have h1 := (lookup_some_iff ol k sb x).mpr ⟨hx, hk⟩
      have h2 : lookupKV cmp k X = none := by
        rw [lookup_none_iff ol k sx]
        intro y hy hky
        exact hno y hy ((cmp_congr_left ol hk).mp hky)
      simp [changeOf, h1, h2]
    · have h2 := (lookup_some_iff ol k sx y).mpr ⟨hy, hk⟩
      have h1 : lookupKV cmp k B = none := by
        rw [lookup_none_iff ol k sb]
        intro x hx hkx
        have : cmp x.1 y.1 = .eq := ol.eq_trans (ol.eq_symm hkx) hk
        exact hno x hx this
      simp [changeOf, h1, h2]
    · have hk' : cmp k y.1 = .eq := hk
      have h2 := (lookup_some_iff ol k sx y).mpr ⟨hy, hk'⟩
      have h1 := (lookup_some_iff ol k sb x).mpr ⟨hx, ol.eq_trans hk' (ol.eq_symm he)⟩
      simp [changeOf, h1, h2, hv, Event.modP]
  · intro h
    cases hb : lookupKV cmp k B with
    | none =>
      cases hx : lookupKV cmp k X with
      | none => simp [changeOf, hb, hx] at h
      | some y =>
        simp [changeOf, hb, hx] at h; subst h
        have hy := (lookup_some_iff ol k sx y).mp hx
        refine ⟨Or.inr (Or.inl ⟨y, hy.1, rfl, ?_⟩), hy.2⟩
        intro x hxm he
        have := (lookup_none_iff ol k sb).mp hb x hxm
        exact this (ol.eq_trans hy.2 (ol.eq_symm he))
    | some a =>
      have ha := (lookup_some_iff ol k sb a).mp hb
      cases hx : lookupKV cmp k X with
      | none =>
        simp [changeOf, hb, hx] at h; subst h
        refine ⟨Or.inl ⟨a, ha.1, rfl, ?_⟩, ha.2⟩
        intro y hy he
        exact (lookup_none_iff ol k sx).mp hx y hy (ol.eq_trans ha.2 he)
      | some y =>
        have hy := (lookup_some_iff ol k sx y).mp hx
        simp only [changeOf, hb, hx] at h
        by_cases hv : a.2 = y.2
        · simp [hv] at h
        · simp [hv] at h; subst h
          exact ⟨Or.inr (Or.inr ⟨a, ha.1, y, hy.1, rfl, ol.eq_trans (ol.eq_symm ha.2) hy.2, hv⟩), hy.2⟩

theorem diffSpecP_none_at_key (ol : OrdLaws cmp) {B X : List KV} (sb : Sorted cmp B) (sx : Sorted cmp X) (k : Bytes) :
    (∀ e, DiffSpecP cmp B X e → cmp k e.key ≠ .eq) ↔ changeOf (lookupKV cmp k B) (lookupKV cmp k X) = none := by
  constructor
  · intro h
    cases hc : changeOf (lookupKV cmp k B) (lookupKV cmp k X) with
    | none => rfl
    | some e =>
      have := (diffSpecP_at_key ol sb sx k e).mpr hc
      exact absurd this.2 (h e this.1)
  · intro h e he hk
    have := (diffSpecP_at_key ol sb sx k e).mp ⟨he, hk⟩
    rw [h] at this; simp at this

/-- the value a right-side change leaves behind is right's own mapping -/
theorem changeOf_to {b r : Option KV} {er : Event} (h : changeOf b r = some er) :
    er.to?.map (fun v => (er.key, v)) = r := by
  cases b with
  | none =>
    cases r with
    | none => simp [changeOf] at h
    | some y => simp [changeOf] at h; subst h; simp [Event.added]
  | some a =>
    cases r with
    | none => simp [changeOf] at h; subst h; simp [Event.removed]
    | some y =>
      simp only [changeOf] at h
      by_cases hv : a.2 = y.2
      · simp [hv] at h
      · simp [hv] at h; subst h; simp

end DoltVerif.ProllyMerge
