import DoltVerif.Lemmas.ProllyMergeLeafKeywise
/-!
C14 helper lemmas: the patch merge of three sorted single-leaf maps, key by key.
-/
namespace DoltVerif.ProllyMerge
open DoltVerif.ProllyDiff

variable {cmp : Bytes → Bytes → Ordering}

theorem pointEffect_pointPatch (e : Event) : pointEffect (pointPatch e) = e.to?.map (fun v => (e.key, v)) := by
  cases h : e.to? <;> simp [pointEffect, pointPatch, patchOf, h]

/-- facts about the walk of the two patch-form diffs of sorted maps -/
structure WalkFacts (cmp : Bytes → Bytes → Ordering) (collide : Collide) (kb kl kr : List KV) : Prop where
  mem : ∀ t, t ∈ mergeWalk cmp (specDiffP cmp kb kl) (specDiffP cmp kb kr) ↔
    WalkSpec cmp (specDiffP cmp kb kl) (specDiffP cmp kb kr) t
  asc : (mergeWalk cmp (specDiffP cmp kb kl) (specDiffP cmp kb kr)).Pairwise (fun a b => cmp a.key b.key = .lt)
  memL : ∀ e, e ∈ specDiffP cmp kb kl ↔ DiffSpecP cmp kb kl e
  memR : ∀ e, e ∈ specDiffP cmp kb kr ↔ DiffSpecP cmp kb kr e

theorem walkFacts (ol : OrdLaws cmp) (collide : Collide) {kb kl kr : List KV}
    (sb : Sorted cmp kb) (sl : Sorted cmp kl) (sr : Sorted cmp kr) : WalkFacts cmp collide kb kl kr :=
  have aL : AscE cmp (specDiffP cmp kb kl) := specDiffP_ascending ol _ _ sb sl
  have aR : AscE cmp (specDiffP cmp kb kr) := specDiffP_ascending ol _ _ sb sr
  ⟨mergeWalk_mem ol _ _ aL aR, mergeWalk_ascending ol _ _ aL aR, specDiffP_mem ol _ _ sb sl, specDiffP_mem ol _ _ sb sr⟩

/-- the patches sent ascend by key and are point patches -/
theorem leaf_patches_asc (ol : OrdLaws cmp) (collide : Collide) {kb kl kr : List KV}
    (sb : Sorted cmp kb) (sl : Sorted cmp kl) (sr : Sorted cmp kr) :
    ((sendSpec cmp collide (specDiffP cmp kb kl) (specDiffP cmp kb kr)).1).Pairwise (fun p q => cmp p.endKey q.endKey = .lt) ∧
    ∀ p ∈ (sendSpec cmp collide (specDiffP cmp kb kl) (specDiffP cmp kb kr)).1, p.level = 0 := by
  have wf := walkFacts ol collide sb sl sr
  rw [sendSpec_eq_walk]
  constructor
  · apply List.Pairwise.filterMap (patchTag collide) _ wf.asc
    intro a a' h b hb b' hb'
    rw [(patchTag_key hb).1, (patchTag_key hb').1]; exact h
  · intro p hp
    obtain ⟨t, _, ht⟩ := List.mem_filterMap.mp hp
    exact (patchTag_key ht).2

/-- which patch (if any) is applied to key `k`: the one of the unique tag with that key -/
theorem find_of_tag (ol : OrdLaws cmp) (collide : Collide) {kb kl kr : List KV}
    (sb : Sorted cmp kb) (sl : Sorted cmp kl) (sr : Sorted cmp kr) (k : Bytes) (t : Tag)
    (ht : t ∈ mergeWalk cmp (specDiffP cmp kb kl) (specDiffP cmp kb kr)) (hk : cmp k t.key = .eq) :
    ((sendSpec cmp collide (specDiffP cmp kb kl) (specDiffP cmp kb kr)).1).find? (fun q => cmp k q.endKey == .eq) = patchTag collide t := by
  have wf := walkFacts ol collide sb sl sr
  have pa := (leaf_patches_asc ol collide sb sl sr).1
  rw [sendSpec_eq_walk] at pa ⊢
  simp only []
  cases hp : patchTag collide t with
  | some p =>
    apply find_patch_of_mem ol k _ pa p (List.mem_filterMap.mpr ⟨t, ht, hp⟩)
    rw [(patchTag_key hp).1]; exact hk
  | none =>
    rw [List.find?_eq_none]
    intro q hq
    obtain ⟨t', ht', hq'⟩ := List.mem_filterMap.mp hq
    simp only [beq_iff_eq]
    intro hkq
    rw [(patchTag_key hq').1] at hkq
    have : t' = t := asc_unique ol Tag.key wf.asc ht' ht (ol.eq_trans (ol.eq_symm hkq) hk)
    rw [this, hp] at hq'; simp at hq'

theorem find_none_of_no_tag (ol : OrdLaws cmp) (collide : Collide) {kb kl kr : List KV} (k : Bytes)
    (hno : ∀ t ∈ mergeWalk cmp (specDiffP cmp kb kl) (specDiffP cmp kb kr), cmp k t.key ≠ .eq) :
    ((sendSpec cmp collide (specDiffP cmp kb kl) (specDiffP cmp kb kr)).1).find? (fun q => cmp k q.endKey == .eq) = none := by
  rw [sendSpec_eq_walk]
  simp only []
  rw [List.find?_eq_none]
  intro q hq
  obtain ⟨t', ht', hq'⟩ := List.mem_filterMap.mp hq
  simp only [beq_iff_eq]
  rw [(patchTag_key hq').1]
  exact hno t' ht'

/-- **leaf_merge_lookup**: key-wise semantics of the patch merge of three sorted single-leaf maps -/
theorem leaf_merge_lookup (ol : OrdLaws cmp) (collide : Collide) {kb kl kr : List KV}
    (sb : Sorted cmp kb) (sl : Sorted cmp kl) (sr : Sorted cmp kr) (k : Bytes) :
    lookupKV cmp k (applyPatches cmp kl (sendSpec cmp collide (specDiffP cmp kb kl) (specDiffP cmp kb kr)).1) =
      (mergeKey collide (lookupKV cmp k kb) (lookupKV cmp k kl) (lookupKV cmp k kr)).1 := by
  have wf := walkFacts ol collide sb sl sr
  obtain ⟨pa, pl⟩ := leaf_patches_asc ol collide sb sl sr
  rw [applyPatches_points_lookup ol k _ kl sl pl pa]
  unfold mergeKey
  cases hcl : changeOf (lookupKV cmp k kb) (lookupKV cmp k kl) with
  | none =>
    have nl := (diffSpecP_none_at_key ol sb sl k).mpr hcl
    cases hcr : changeOf (lookupKV cmp k kb) (lookupKV cmp k kr) with
    | none =>
      have nr := (diffSpecP_none_at_key ol sb sr k).mpr hcr
      rw [find_none_of_no_tag ol collide k]
      intro t ht
      rcases (wf.mem t).mp ht with ⟨l, hl, rfl, _⟩ | ⟨r, hr, rfl, _⟩ | ⟨l, hl, r, _, rfl, _⟩
      · exact nl l ((wf.memL l).mp hl)
      · exact nr r ((wf.memR r).mp hr)
      · exact nl l ((wf.memL l).mp hl)
    | some er =>
      have her := (diffSpecP_at_key ol sb sr k er).mpr hcr
      have ht : Tag.right er ∈ mergeWalk cmp (specDiffP cmp kb kl) (specDiffP cmp kb kr) := by
        rw [wf.mem]
        refine Or.inr (Or.inl ⟨er, (wf.memR er).mpr her.1, rfl, ?_⟩)
        intro l hl he
        exact nl l ((wf.memL l).mp hl) (ol.eq_trans her.2 (ol.eq_symm he))
      rw [find_of_tag ol collide sb sl sr k _ ht her.2]
      simp only [patchTag, pointEffect_pointPatch, changeOf_to hcr]
      cases lookupKV cmp k kr <;> rfl
  | some el =>
    have hel := (diffSpecP_at_key ol sb sl k el).mpr hcl
    cases hcr : changeOf (lookupKV cmp k kb) (lookupKV cmp k kr) with
    | none =>
      have nr := (diffSpecP_none_at_key ol sb sr k).mpr hcr
      have ht : Tag.left el ∈ mergeWalk cmp (specDiffP cmp kb kl) (specDiffP cmp kb kr) := by
        rw [wf.mem]
        refine Or.inl ⟨el, (wf.memL el).mpr hel.1, rfl, ?_⟩
        intro r hr he
        exact nr r ((wf.memR r).mp hr) (ol.eq_trans hel.2 he)
      rw [find_of_tag ol collide sb sl sr k _ ht hel.2]
      simp [patchTag]
    | some er =>
      have her := (diffSpecP_at_key ol sb sr k er).mpr hcr
      have ht : Tag.both el er ∈ mergeWalk cmp (specDiffP cmp kb kl) (specDiffP cmp kb kr) := by
        rw [wf.mem]
        exact Or.inr (Or.inr ⟨el, (wf.memL el).mpr hel.1, er, (wf.memR er).mpr her.1, rfl,
          ol.eq_trans (ol.eq_symm hel.2) her.2⟩)
      rw [find_of_tag ol collide sb sl sr k _ ht hel.2]
      simp only [patchTag]
      by_cases hto : (el.to? == er.to?) = true
      · simp [hto]
      · simp only [hto, Bool.false_eq_true, if_false]
        cases hcol : collide el er with
        | none => simp
        | some to => cases to <;> simp [pointEffect]

/-- **leaf_merge_collisions**: the collisions handed to the handler are exactly the keys changed on
both sides to different results, each once, in ascending key order -/
theorem leaf_merge_collisions (ol : OrdLaws cmp) (collide : Collide) {kb kl kr : List KV}
    (sb : Sorted cmp kb) (sl : Sorted cmp kl) (sr : Sorted cmp kr) :
    (∀ c, c ∈ (sendSpec cmp collide (specDiffP cmp kb kl) (specDiffP cmp kb kr)).2 ↔
      ∃ k, (mergeKey collide (lookupKV cmp k kb) (lookupKV cmp k kl) (lookupKV cmp k kr)).2 = some c) ∧
    ((sendSpec cmp collide (specDiffP cmp kb kl) (specDiffP cmp kb kr)).2).Pairwise
      (fun c1 c2 => cmp c1.left.key c2.left.key = .lt) := by
  have wf := walkFacts ol collide sb sl sr
  rw [sendSpec_eq_walk]
  simp only []
  constructor
  · intro c
    rw [List.mem_filterMap]
    constructor
    · rintro ⟨t, ht, hc⟩
      cases t with
      | left l => simp [collTag] at hc
      | right r => simp [collTag] at hc
      | both l r =>
        simp only [collTag] at hc
        by_cases hto : (l.to? == r.to?) = true
        · simp [hto] at hc
        · simp [hto] at hc; subst hc
          rcases (wf.mem _).mp ht with ⟨_, _, h, _⟩ | ⟨_, _, h, _⟩ | ⟨l', hl', r', hr', h, he⟩
          · cases h
          · cases h
          · cases h
            refine ⟨l.key, ?_⟩
            have h1 := (diffSpecP_at_key ol sb sl l.key l).mp ⟨(wf.memL l).mp hl', ol.refl _⟩
            have h2 := (diffSpecP_at_key ol sb sr l.key r).mp ⟨(wf.memR r).mp hr', he⟩
            unfold mergeKey
            rw [h1, h2]
            simp only [hto, Bool.false_eq_true, if_false]
            cases collide l r <;> rfl
    · rintro ⟨k, hk⟩
      unfold mergeKey at hk
      cases hcl : changeOf (lookupKV cmp k kb) (lookupKV cmp k kl) with
      | none =>
        cases hcr : changeOf (lookupKV cmp k kb) (lookupKV cmp k kr) <;> simp [hcl, hcr] at hk
      | some el =>
        cases hcr : changeOf (lookupKV cmp k kb) (lookupKV cmp k kr) with
        | none => simp [hcl, hcr] at hk
        | some er =>
          have hel := (diffSpecP_at_key ol sb sl k el).mpr hcl
          have her := (diffSpecP_at_key ol sb sr k er).mpr hcr
          simp only [hcl, hcr] at hk
          by_cases hto : (el.to? == er.to?) = true
          · simp [hto] at hk
          · simp only [hto, Bool.false_eq_true, if_false] at hk
            have hc : c = ⟨el, er⟩ := by
              cases hcol : collide el er <;> simp [hcol] at hk <;> exact hk.symm
            refine ⟨Tag.both el er, ?_, by simp [collTag, hto, hc]⟩
            rw [wf.mem]
            exact Or.inr (Or.inr ⟨el, (wf.memL el).mpr hel.1, er, (wf.memR er).mpr her.1, rfl,
              ol.eq_trans (ol.eq_symm hel.2) her.2⟩)
  · apply List.Pairwise.filterMap collTag _ wf.asc
    intro a a' h b hb b' hb'
    cases a with
    | left l => simp [collTag] at hb
    | right r => simp [collTag] at hb
    | both l r =>
      cases a' with
      | left l => simp [collTag] at hb'
      | right r => simp [collTag] at hb'
      | both l' r' =>
        simp only [collTag] at hb hb'
        split at hb
        · simp at hb
        · split at hb'
          · simp at hb'
          · simp at hb hb'; subst hb; subst hb'; exact h

theorem applyPatches_points_sorted (ol : OrdLaws cmp) : ∀ (ps : List Patch) (l : List KV), Sorted cmp l →
    (∀ p ∈ ps, p.level = 0) → Sorted cmp (applyPatches cmp l ps)
  | [], l, h, _ => by simpa [applyPatches] using h
  | p :: ps, l, h, hl => by
    simp only [applyPatches, List.foldl_cons]
    exact applyPatches_points_sorted ol ps _ (applyPatch_point_sorted ol p (hl p (by simp)) h) (fun q hq => hl q (by simp [hq]))

/-- a sorted map is determined by its lookups -/
theorem sorted_ext (ol : OrdLaws cmp) : ∀ {a b : List KV}, Sorted cmp a → Sorted cmp b →
    (∀ k, lookupKV cmp k a = lookupKV cmp k b) → a = b
  | [], [], _, _, _ => rfl
  | [], y :: ys, _, _, h => by
    have := h y.1
    simp [lookupKV, ol.refl] at this
  | x :: xs, [], _, _, h => by
    have := h x.1
    simp [lookupKV, ol.refl] at this
  | x :: xs, y :: ys, sa, sb, h => by
    have hx := sorted_head_lt sa
    have hy := sorted_head_lt sb
    have hxy : x = y := by
      cases hc : cmp x.1 y.1 with
      | eq =>
        have := h x.1
        simp [lookupKV, ol.refl, hc] at this
        exact this
      | lt =>
        have := h x.1
        rw [show lookupKV cmp x.1 (x :: xs) = some x by simp [lookupKV, ol.refl]] at this
        have hn : lookupKV cmp x.1 (y :: ys) = none := by
          apply lookup_none_of_lt ol
          intro z hz
          simp at hz
          rcases hz with rfl | hz
          · exact hc
          · exact ol.lt_trans _ _ _ hc (hy z hz)
        rw [hn] at this; simp at this
      | gt =>
        have hlt := (ol.gt_iff _ _).mp hc
        have := h y.1
        rw [show lookupKV cmp y.1 (y :: ys) = some y by simp [lookupKV, ol.refl]] at this
        have hn : lookupKV cmp y.1 (x :: xs) = none := by
          apply lookup_none_of_lt ol
          intro z hz
          simp at hz
          rcases hz with rfl | hz
          · exact hlt
          · exact ol.lt_trans _ _ _ hlt (hx z hz)
        rw [hn] at this; simp at this
    subst hxy
    congr 1
    apply sorted_ext ol (sorted_tail sa) (sorted_tail sb)
    intro k
    have := h k
    by_cases hk : cmp k x.1 = .eq
    · rw [lookup_none_of_lt ol (fun z hz => ol.eq_lt _ _ _ hk (hx z hz)),
        lookup_none_of_lt ol (fun z hz => ol.eq_lt _ _ _ hk (hy z hz))]
    · have hb : (cmp k x.1 == .eq) = false := by simpa using hk
      simpa [lookupKV, hb] using this

end DoltVerif.ProllyMerge
