import DoltVerif.Model.SchemaSer
/-! Helper lemmas for C37 (round trip of the schema (de)serializer model; tag generator). -/
namespace DoltVerif.SchemaSer

theorem mapE_ok {α β ε : Type} (f : α → Except ε β) (g : α → β) :
    ∀ l : List α, (∀ a ∈ l, f a = .ok (g a)) → mapE f l = .ok (l.map g)
  | [], _ => rfl
  | a :: as, h => by
    have h1 := h a (by simp)
    have h2 := mapE_ok f g as (fun x hx => h x (by simp [hx]))
    simp [mapE, h1, h2]

theorem length_mapIdxFrom {α β : Type} (f : Nat → α → β) : ∀ (l : List α) (i : Nat), (mapIdxFrom f i l).length = l.length
  | [], _ => rfl
  | _ :: as, i => by simp [mapIdxFrom, length_mapIdxFrom f as (i + 1)]

theorem getElem?_mapIdxFrom {α β : Type} (f : Nat → α → β) :
    ∀ (l : List α) (i j : Nat), (mapIdxFrom f i l)[j]? = (l[j]?).map (f (i + j))
  | [], _, _ => by simp [mapIdxFrom]
  | a :: as, i, 0 => by simp [mapIdxFrom]
  | a :: as, i, j + 1 => by
    simp only [mapIdxFrom, List.getElem?_cons_succ]
    rw [getElem?_mapIdxFrom f as (i + 1) j]
    congr 2; omega

/-- column level round trip -/
structure ColWF (c : Column) : Prop where
  notBoth : c.default = "" ∨ c.generated = ""
  keyNotNull : (c.isPartOfPK = true ∨ c.autoIncrement = true) → c.notNull = true

theorem deColumn_serColumn (ad : AdaptivePred) (i : Nat) (c : Column) (h : ColWF c) :
    deColumn (serColumn ad i c) = c := by
  obtain ⟨name, tag, typ, pk, dflt, gen, onUpd, virt, ai, comment, nn, hid, shid⟩ := c
  obtain ⟨hb, hk⟩ := h
  simp only at hb hk
  have hnn : (!(!pk && !ai && !nn) || pk) = nn := by
    cases pk <;> cases ai <;> cases nn <;> simp_all
  simp only [deColumn, serColumn, Column.isNullable, optStr]
  congr 1
  · by_cases hd : dflt = ""
    · by_cases hg : gen = "" <;> simp [hd, hg]
    · have hg : gen = "" := by cases hb with | inl h => exact absurd h hd | inr h => exact h
      simp [hd, hg]
  · by_cases hd : dflt = ""
    · by_cases hg : gen = "" <;> simp [hd, hg]
    · have hg : gen = "" := by cases hb with | inl h => exact absurd h hd | inr h => exact h
      simp [hd, hg]
  · by_cases ho : onUpd = "" <;> simp [ho]

theorem map_deColumn_mapIdxFrom (ad : AdaptivePred) :
    ∀ (l : List Column) (i : Nat), (∀ c ∈ l, ColWF c) → (mapIdxFrom (serColumn ad) i l).map deColumn = l
  | [], _, _ => rfl
  | c :: cs, i, h => by
    simp only [mapIdxFrom, List.map_cons]
    rw [deColumn_serColumn ad i c (h c (by simp)), map_deColumn_mapIdxFrom ad cs (i + 1) (fun x hx => h x (by simp [hx]))]

theorem u16_of_lt {n : Nat} (h : n < 65536) : u16 n = n := Nat.mod_eq_of_lt h

theorem map_u16_of_lt : ∀ l : List Nat, (∀ x ∈ l, x < 65536) → l.map u16 = l
  | [], _ => rfl
  | a :: as, h => by
    simp only [List.map_cons]
    rw [u16_of_lt (h a (by simp)), map_u16_of_lt as (fun x hx => h x (by simp [hx]))]

/-- `TagToIdx` finds the position of a tag that occurs -/
theorem tagToIdx_spec (cols : List Column) (t : Nat) (h : t ∈ cols.map (·.tag)) :
    ∃ c, cols[tagToIdx cols t]? = some c ∧ c.tag = t := by
  induction cols with
  | nil => simp at h
  | cons c cs ih =>
    by_cases hc : c.tag = t
    · exact ⟨c, by simp [tagToIdx, List.findIdx?_cons, hc], hc⟩
    · have h' : t ∈ cs.map (·.tag) := by
        simp only [List.map_cons, List.mem_cons] at h
        cases h with
        | inl h => exact absurd h.symm hc
        | inr h => exact h
      obtain ⟨c', hc', ht⟩ := ih h'
      refine ⟨c', ?_, ht⟩
      have hne : (c.tag == t) = false := by simp [hc]
      simp only [tagToIdx, List.findIdx?_cons, hne] at hc' ⊢
      cases hf : cs.findIdx? (fun x => x.tag == t) with
      | none =>
        -- impossible: t occurs in cs
        exfalso
        rw [List.findIdx?_eq_none_iff] at hf
        simp only [List.mem_map] at h'
        obtain ⟨x, hx, hxt⟩ := h'
        have := hf x hx
        simp [hxt] at this
      | some j =>
        simp only [hf] at hc'
        simp [hc']

theorem getElem?_lt_length {α : Type} {l : List α} {i : Nat} {a : α} (h : l[i]? = some a) : i < l.length := by
  rcases Nat.lt_or_ge i l.length with h' | h'
  · exact h'
  · rw [List.getElem?_eq_none_iff.mpr h'] at h; cases h

end DoltVerif.SchemaSer
