import DoltVerif.Model.ProllyMerge
/-! the instrumented loop `sendLoopF` (flag for the known finding MergeMaps/tail-truncation-data-loss)
computes the same state as the `SendPatches` loop `sendLoop` -/
namespace DoltVerif.ProllyMerge
open DoltVerif.ProllyDiff

theorem sendLoopF_state (cmp : Bytes → Bytes → Ordering) (collide : Collide) (fuel : Nat) :
    ∀ (n : Nat) (s : SP) (fl : Bool), (sendLoopF cmp collide fuel n s fl).map (·.1) = sendLoop cmp collide fuel n s
  | 0, _, _ => rfl
  | n + 1, s, fl => by
    unfold sendLoopF sendLoop
    have ih := sendLoopF_state cmp collide fuel n
    cases hl : s.left with
    | none => rfl
    | some lp =>
      obtain ⟨left, lt⟩ := lp
      cases hr : s.right with
      | none => rfl
      | some rp =>
        obtain ⟨right, rt⟩ := rp
        simp only [bind, Except.bind, pure, Except.pure]
        repeat' split
        all_goals first
          | rfl
          | exact ih _ _
          | (simp only [Except.map]; done)
          | (simp_all [Except.map])

end DoltVerif.ProllyMerge
