import DoltVerif.Lemmas.JournalScan
/-! possibleDataLossCheck: tails without CRC-valid records, and damage followed by root + record. -/
namespace DoltVerif.Journal

attribute [local irreducible] crc32c

/-- a record the data-loss check (and the scan) would accept starts at the head of `bs` -/
def ValidAt (B : Nat) (bs : Bytes) : Prop :=
  ∃ sz, readU32? bs = some sz ∧ 0 < sz ∧ sz ≤ B ∧ sz ≤ bs.length ∧ isValid (bs.take sz) = true

/-- no position of `t` starts a CRC-valid record (`NoEmbeddedRecords`) -/
def NoValidRecord (B : Nat) (t : Bytes) : Prop := ∀ i, ¬ ValidAt B (t.drop i)

theorem scan_stop_of_not_validAt (B : Nat) (kinds : Bool) (t : Bytes) (off : Nat) (h : ¬ ValidAt B t) :
    scan B kinds t off = ⟨[], off, if t.length < 4 then .eof else .recovered⟩ := by
  rw [scan]
  cases hr : readU32? t with
  | none =>
    have : t.length < 4 := by
      by_cases hlt : t.length < 4
      · exact hlt
      · obtain ⟨n, hn, _⟩ := readU32?_isSome_of_long t (by omega)
        rw [hn] at hr; cases hr
    simp [this]
  | some l =>
    have hlen : ¬ t.length < 4 := by
      intro hlt; rw [readU32?_none_of_short t hlt] at hr; cases hr
    simp only [hlen, if_false]
    by_cases h0 : l = 0
    · simp [h0]
    · by_cases h1 : l > B
      · simp [h0, h1]
      · by_cases h2 : l > t.length
        · simp [h0, h1, h2]
        · by_cases hv : isValid (t.take l) = true
          · exact absurd ⟨l, hr, by omega, by omega, by omega, hv⟩ h
          · simp [h0, h1, h2, hv]

theorem dlc_of_noValidRecord (B : Nat) (fr : Bool) : ∀ (n : Nat) (t : Bytes), t.length ≤ n → NoValidRecord B t →
    dlc B t fr = .ok false := by
  intro n
  induction n with
  | zero =>
    intro t hn _
    have : t.length < rootRecSz := by simp [rootRecSz, lenSz, addrSz, timestampSz, checksumSz]; omega
    rw [dlc]; simp [this]
  | succ n ih =>
    intro t hn hnv
    rw [dlc]
    by_cases hlen : t.length < rootRecSz
    · simp [hlen]
    · simp only [hlen, dite_false]
      cases hr : readU32? t with
      | none => rfl
      | some sz =>
        simp only []
        have hno : ¬ (0 < sz ∧ sz ≤ B ∧ sz ≤ t.length ∧ isValid (t.take sz) = true) := by
          intro ⟨a, b, c, d⟩
          exact hnv 0 ⟨sz, by simpa using hr, a, b, by simpa using c, by simpa using d⟩
        simp only [hno, dite_false]
        apply ih
        · have : t.length ≠ 0 := by
            intro h0; simp [rootRecSz, lenSz, addrSz, timestampSz, checksumSz, h0] at hlen
          simp; omega
        · intro i
          have := hnv (i + 1)
          rw [show t.tail = t.drop 1 from (List.drop_one).symm, List.drop_drop]
          simpa [Nat.add_comm] using this

theorem noValidRecord_nil (B : Nat) : NoValidRecord B [] := by
  intro i ⟨sz, hr, _⟩
  simp [readU32?] at hr

theorem readU32?_zeros (z : Nat) : readU32? (zeros z) = none ∨ readU32? (zeros z) = some 0 := by
  match z with
  | 0 => left; rfl
  | 1 => left; rfl
  | 2 => left; rfl
  | 3 => left; rfl
  | n + 4 => right; simp [zeros, List.replicate_succ, readU32?]

theorem noValidRecord_zeros (B z : Nat) : NoValidRecord B (zeros z) := by
  intro i ⟨sz, hr, hpos, _⟩
  have hz : (zeros z).drop i = zeros (z - i) := by simp [zeros]
  rw [hz] at hr
  rcases readU32?_zeros (z - i) with h | h <;> rw [h] at hr <;> cases hr
  omega

/-- skipping over damage in which no valid record starts, as long as at least a root record's worth
of bytes follows (the loop bound `idx <= len(buf)-rootHashRecordSize()`) -/
theorem dlc_skip (B : Nat) (fr : Bool) (s : Bytes) (hs : rootRecSz ≤ s.length) :
    ∀ (pre : Bytes), (∀ i, i < pre.length → ¬ ValidAt B ((pre ++ s).drop i)) → dlc B (pre ++ s) fr = dlc B s fr := by
  intro pre
  induction pre with
  | nil => intro _; rfl
  | cons x pre ih =>
    intro h
    rw [dlc]
    have hlen : ¬ ((x :: pre) ++ s).length < rootRecSz := by simp; omega
    simp only [hlen, dite_false]
    cases hr : readU32? ((x :: pre) ++ s) with
    | none => 
      exfalso
      obtain ⟨n, hn, _⟩ := readU32?_isSome_of_long ((x :: pre) ++ s) (by
        simp [rootRecSz, lenSz, addrSz, timestampSz, checksumSz] at hs ⊢; omega)
      rw [hn] at hr; cases hr
    | some sz =>
      simp only []
      have hno : ¬ (0 < sz ∧ sz ≤ B ∧ sz ≤ ((x :: pre) ++ s).length ∧ isValid (((x :: pre) ++ s).take sz) = true) := by
        intro ⟨a, b, c, d⟩
        exact h 0 (by simp) ⟨sz, by simpa using hr, a, b, by simpa using c, by simpa using d⟩
      simp only [hno, dite_false]
      have : ((x :: pre) ++ s).tail = pre ++ s := rfl
      rw [this]
      apply ih
      intro i hi
      have := h (i + 1) (by simp; omega)
      simpa using this

/-- a well-formed record at the head is accepted by the data-loss check -/
theorem dlc_encode_append (B : Nat) (fr : Bool) (r : Rec) (rest : Bytes) (h : r.Fits) (hB : r.encode.length ≤ B)
    (h40 : rootRecSz ≤ (r.encode ++ rest).length) :
    dlc B (r.encode ++ rest) fr = if fr then .ok true else dlc B rest (r.parsed.kind == kindRoot) := by
  have hlen := r.body_length_lt h
  have hL := r.length_encode h
  have hf := r.encode_eq_frame h
  rw [dlc]
  have h1 : ¬ (r.encode ++ rest).length < rootRecSz := by omega
  simp only [h1, dite_false]
  have hr : readU32? (r.encode ++ rest) = some (r.body.length + 8) := by rw [hf]; exact readU32?_frame _ _ hlen
  rw [hr]
  simp only []
  have ht : (r.encode ++ rest).take (r.body.length + 8) = r.encode := by rw [← hL]; exact List.take_left
  have hd : (r.encode ++ rest).drop (r.body.length + 8) = rest := by rw [← hL]; exact List.drop_left
  have hc : 0 < r.body.length + 8 ∧ r.body.length + 8 ≤ B ∧ r.body.length + 8 ≤ (r.encode ++ rest).length ∧
      isValid ((r.encode ++ rest).take (r.body.length + 8)) = true := by
    refine ⟨by omega, by omega, by simp [hL], ?_⟩
    rw [ht]; exact isValid_encode r h
  rw [dif_pos hc]
  simp only [ht, hd, readRecord_encode r h]

end DoltVerif.Journal
