import DoltVerif.Lemmas.BinlogBytes
/-! NEWDECIMAL lemmas for C40: digit lists, digit groups, sign handling. Core only. -/
namespace DoltVerif.Binlog
set_option linter.unusedSimpArgs false

/-! ### digit lists -/

theorem atoi_foldl (ds : List Nat) (acc : Nat) :
    ds.foldl (fun a d => a * 10 + d) acc = acc * 10 ^ ds.length + atoi ds := by
  induction ds generalizing acc with
  | nil => simp [atoi]
  | cons d ds ih =>
    simp only [List.foldl_cons, List.length_cons, atoi]
    rw [ih (acc * 10 + d), ih (0 * 10 + d)]
    rw [Nat.pow_succ, Nat.add_mul, Nat.add_mul, Nat.mul_assoc, Nat.mul_comm 10]
    omega

theorem atoi_append (a b : List Nat) : atoi (a ++ b) = atoi a * 10 ^ b.length + atoi b := by
  simp only [atoi, List.foldl_append]
  exact atoi_foldl b _

theorem atoi_cons (d : Nat) (ds : List Nat) : atoi (d :: ds) = d * 10 ^ ds.length + atoi ds := by
  have := atoi_foldl ds (0 * 10 + d)
  simp only [atoi, List.foldl_cons] at this ⊢
  rw [this]; simp

theorem atoi_lt (ds : List Nat) (h : ∀ d ∈ ds, d < 10) : atoi ds < 10 ^ ds.length := by
  induction ds with
  | nil => simp [atoi]
  | cons d ds ih =>
    have hd : d < 10 := h d (by simp)
    have := ih (fun x hx => h x (by simp [hx]))
    rw [atoi_cons, List.length_cons, Nat.pow_succ, Nat.mul_comm (10 ^ ds.length) 10]
    calc d * 10 ^ ds.length + atoi ds < d * 10 ^ ds.length + 10 ^ ds.length := by omega
      _ = (d + 1) * 10 ^ ds.length := by rw [Nat.add_mul, Nat.one_mul]
      _ ≤ 10 * 10 ^ ds.length := Nat.mul_le_mul_right _ (by omega)

theorem fixedDigits_length (k n : Nat) : (fixedDigits k n).length = k := by
  induction k generalizing n with
  | zero => rfl
  | succ k ih => simp [fixedDigits, ih]

theorem fixedDigits_lt (k n : Nat) : ∀ d ∈ fixedDigits k n, d < 10 := by
  induction k generalizing n with
  | zero => simp [fixedDigits]
  | succ k ih =>
    intro d hd
    simp only [fixedDigits, List.mem_append, List.mem_singleton] at hd
    rcases hd with h | h
    · exact ih _ d h
    · omega

theorem atoi_fixedDigits (k n : Nat) : atoi (fixedDigits k n) = n % 10 ^ k := by
  induction k generalizing n with
  | zero => simp [fixedDigits, atoi, Nat.mod_one]
  | succ k ih =>
    simp only [fixedDigits]
    rw [atoi_append, ih]
    have e : 10 ^ (k + 1) = 10 * 10 ^ k := by rw [Nat.pow_succ, Nat.mul_comm]
    rw [e, Nat.mod_mul]
    simp only [List.length_cons, List.length_nil, atoi, List.foldl_cons, List.foldl_nil, Nat.zero_add, Nat.pow_one,
      Nat.zero_mul]
    omega

theorem fixedDigits_zero (k : Nat) : fixedDigits k 0 = List.replicate k 0 := by
  induction k with
  | zero => rfl
  | succ k ih => simp [fixedDigits, ih, List.replicate_succ']

theorem natDigits_length_pos (n : Nat) : 0 < (natDigits n).length := by
  unfold natDigits
  split <;> simp

theorem padLeft_natDigits (k n : Nat) (hk : 1 ≤ k) (hn : n < 10 ^ k) :
    padLeft k (natDigits n) = fixedDigits k n ∧ (natDigits n).length ≤ k := by
  induction k generalizing n with
  | zero => omega
  | succ k ih =>
    unfold natDigits
    by_cases h10 : n < 10
    · simp only [h10, dite_true, padLeft, List.length_cons, List.length_nil, fixedDigits]
      have e1 : n / 10 = 0 := by omega
      have e2 : n % 10 = n := by omega
      rw [e1, e2, fixedDigits_zero]
      constructor
      · congr 1
      · omega
    · simp only [h10, dite_false]
      have hk1 : 1 ≤ k := by
        rcases Nat.eq_zero_or_pos k with h | h
        · subst h; simp at hn; omega
        · exact h
      have hlt : n / 10 < 10 ^ k := by rw [Nat.pow_succ] at hn; omega
      obtain ⟨h1, h2⟩ := ih (n / 10) hk1 hlt
      constructor
      · have e : k + 1 - (natDigits (n / 10) ++ [n % 10]).length = k - (natDigits (n / 10)).length := by
          simp only [List.length_append, List.length_cons, List.length_nil]; omega
        simp only [padLeft, fixedDigits, e] at h1 ⊢
        rw [← h1, List.append_assoc]
      · simp only [List.length_append, List.length_cons, List.length_nil]; omega

/-- the digit string cut into groups of the given sizes, each group written big-endian in
`dig2bytes size` bytes -/
def encBySizes : List Nat → List Nat → Bytes
  | [], _ => []
  | sz :: rest, ds => beBytes (dig2bytes sz) (atoi (ds.take sz)) ++ encBySizes rest (ds.drop sz)

theorem group_fits : ∀ sz : Fin 10, 10 ^ sz.val ≤ 256 ^ dig2bytes sz.val := by decide

theorem readGroups_encBySizes (szs : List Nat) (ds : List Nat) (r : Bytes) (acc : Nat)
    (hlen : ds.length = szs.sum) (hd : ∀ d ∈ ds, d < 10) (hsz : ∀ sz ∈ szs, sz ≤ 9) :
    readGroups szs (encBySizes szs ds ++ r) acc = some (acc * 10 ^ szs.sum + atoi ds, r) := by
  induction szs generalizing ds acc with
  | nil =>
    have : ds = [] := List.eq_nil_of_length_eq_zero (by simpa using hlen)
    subst this
    simp [readGroups, encBySizes, atoi]
  | cons sz rest ih =>
    have hsz9 : sz ≤ 9 := hsz sz (by simp)
    simp only [List.sum_cons] at hlen
    have htl : (ds.take sz).length = sz := by simp; omega
    have hdl : (ds.drop sz).length = rest.sum := by simp; omega
    have hlt : atoi (ds.take sz) < 10 ^ sz := by
      have := atoi_lt (ds.take sz) (fun d hm => hd d (List.mem_of_mem_take hm))
      rwa [htl] at this
    have hfit : atoi (ds.take sz) < 256 ^ dig2bytes sz := Nat.lt_of_lt_of_le hlt (group_fits ⟨sz, by omega⟩)
    simp only [readGroups, encBySizes, List.append_assoc, readBE_beBytes, Nat.mod_eq_of_lt hfit]
    rw [ih (ds.drop sz) (acc * 10 ^ sz + atoi (ds.take sz)) hdl (fun d hm => hd d (List.mem_of_mem_drop hm))
      (fun s hs => hsz s (by simp [hs]))]
    congr 2
    have hsplit : atoi ds = atoi (ds.take sz) * 10 ^ rest.sum + atoi (ds.drop sz) := by
      have := atoi_append (ds.take sz) (ds.drop sz)
      rw [List.take_append_drop, hdl] at this
      exact this
    rw [hsplit, List.sum_cons, Nat.pow_add, Nat.add_mul, Nat.mul_assoc]
    omega

theorem encBySizes_length (szs ds) : (encBySizes szs ds).length = (szs.map dig2bytes).sum := by
  induction szs generalizing ds with
  | nil => rfl
  | cons sz rest ih => simp [encBySizes, beBytes_length, ih]

theorem encBySizes_append (a b : List Nat) (ds : List Nat) :
    encBySizes (a ++ b) ds = encBySizes a ds ++ encBySizes b (ds.drop a.sum) := by
  induction a generalizing ds with
  | nil => simp [encBySizes]
  | cons sz rest ih =>
    simp only [List.cons_append, encBySizes, ih, List.append_assoc, List.sum_cons, List.drop_drop]

/-- only the first `szs.sum` digits matter -/
theorem encBySizes_prefix (szs : List Nat) (a b : List Nat) (h : szs.sum ≤ a.length) :
    encBySizes szs (a ++ b) = encBySizes szs a := by
  induction szs generalizing a with
  | nil => rfl
  | cons sz rest ih =>
    simp only [List.sum_cons] at h
    simp only [encBySizes]
    rw [List.take_append_of_le_length (by omega), List.drop_append_of_le_length (by omega)]
    rw [ih (a.drop sz) (by simp; omega)]


theorem digits_tables : ∀ n : Fin 10, digitsToBytes n.val = dig2bytes n.val := by decide

theorem encPartial_eq (ds : List Nat) (h : ds.length ≤ 9) :
    encPartial ds = encBySizes [ds.length] ds := by
  unfold encPartial
  by_cases h0 : ds.length = 0
  · have : ds = [] := List.eq_nil_of_length_eq_zero h0
    subst this
    simp [encBySizes, dig2bytes, beBytes]
  · simp only [h0, if_false, encBySizes, List.take_length, List.append_nil]
    rw [digits_tables ⟨ds.length, by omega⟩]

theorem encGroups_eq (k : Nat) (ds : List Nat) (hd : ∀ d ∈ ds, d < 10) (hlen : 9 * k ≤ ds.length)
    (hrem : ds.length < 9 * k + 9) :
    encGroups ds = (encBySizes (List.replicate k 9) ds, ds.drop (9 * k)) := by
  induction k generalizing ds with
  | zero =>
    unfold encGroups
    have : ¬ ds.length ≥ 9 := by omega
    simp [this, encBySizes]
  | succ k ih =>
    unfold encGroups
    have h9 : ds.length ≥ 9 := by omega
    simp only [h9, dite_true]
    have hdl : (ds.drop 9).length = ds.length - 9 := by simp
    rw [ih (ds.drop 9) (fun d hm => hd d (List.mem_of_mem_drop hm)) (by omega) (by omega)]
    have hlt : atoi (ds.take 9) < 10 ^ 9 := by
      have := atoi_lt (ds.take 9) (fun d hm => hd d (List.mem_of_mem_take hm))
      have hl : (ds.take 9).length = 9 := by simp; omega
      rwa [hl] at this
    have hm : atoi (ds.take 9) % 2 ^ 32 = atoi (ds.take 9) := Nat.mod_eq_of_lt (by omega)
    simp only [List.replicate_succ, encBySizes, hm, List.drop_drop]
    have e1 : dig2bytes 9 = 4 := by decide
    rw [e1]
    congr 2
    omega


theorem xor_tab : ∀ n : Fin 256,
    (((UInt8.ofNat n.val ^^^ 0x80) ^^^ 0x80 = UInt8.ofNat n.val) ∧
     ((((UInt8.ofNat n.val ^^^ 0x80) ^^^ 0xff) ^^^ 0x80) ^^^ 0xff = UInt8.ofNat n.val) ∧
     ((UInt8.ofNat n.val ^^^ 0xff) ^^^ 0xff = UInt8.ofNat n.val) ∧
     (n.val < 128 → ¬ ((UInt8.ofNat n.val ^^^ 0x80).toNat < 128) ∧
        ((UInt8.ofNat n.val ^^^ 0x80) ^^^ 0xff).toNat < 128)) := by decide +kernel

theorem xor_facts (b : UInt8) :
    ((b ^^^ 0x80) ^^^ 0x80 = b) ∧ ((((b ^^^ 0x80) ^^^ 0xff) ^^^ 0x80) ^^^ 0xff = b) ∧ ((b ^^^ 0xff) ^^^ 0xff = b) ∧
    (b.toNat < 128 → ¬ ((b ^^^ 0x80).toNat < 128) ∧ ((b ^^^ 0x80) ^^^ 0xff).toNat < 128) := by
  have h := xor_tab ⟨b.toNat, b.toNat_lt⟩
  simpa [UInt8.ofNat_toNat] using h

theorem xorAll_xorAll (bs : Bytes) : xorAll 0xff (xorAll 0xff bs) = bs := by
  induction bs with
  | nil => rfl
  | cons b t ih =>
    simp only [xorAll, List.map_cons] at ih ⊢
    rw [(xor_facts b).2.2.1, ih]

theorem xorAll_length (m : UInt8) (bs : Bytes) : (xorAll m bs).length = bs.length := by simp [xorAll]

theorem decimalSign_length (neg : Bool) (bs : Bytes) : (decimalSign neg bs).length = bs.length := by
  cases bs with
  | nil => rfl
  | cons b t => cases neg <;> simp [decimalSign, xorAll]

/-- the replica's sign handling undoes dolt's, provided the magnitude's first byte has its top bit clear -/
theorem sign_roundtrip (neg : Bool) (b : UInt8) (t : Bytes) (hb : b.toNat < 128) :
    ∃ b' t', decimalSign neg (b :: t) = b' :: t' ∧ decide (b'.toNat < 128) = neg ∧
      (if neg = true then xorAll 0xff ((b' ^^^ 0x80) :: t') else (b' ^^^ 0x80) :: t') = b :: t := by
  obtain ⟨f1, f2, f3, f4⟩ := xor_facts b
  obtain ⟨g1, g2⟩ := f4 hb
  cases neg
  · refine ⟨b ^^^ 0x80, t, by simp [decimalSign], decide_eq_false g1, by simp [f1]⟩
  · refine ⟨(b ^^^ 0x80) ^^^ 0xff, xorAll 0xff t, by simp [decimalSign, xorAll], decide_eq_true g2, ?_⟩
    have := xorAll_xorAll t
    simp only [xorAll, List.map_cons, if_true] at this ⊢
    rw [f2, this]

theorem head_fits : ∀ sz : Fin 10, 1 ≤ sz.val → 1 ≤ dig2bytes sz.val ∧ 10 ^ sz.val ≤ 128 * 256 ^ (dig2bytes sz.val - 1) := by
  decide

theorem encBySizes_head_lt (szs : List Nat) (ds : List Nat) (hd : ∀ d ∈ ds, d < 10) (hsz : ∀ sz ∈ szs, sz ≤ 9)
    (hlen : szs.sum ≤ ds.length) : ∀ b t, encBySizes szs ds = b :: t → b.toNat < 128 := by
  induction szs generalizing ds with
  | nil => intro b t h; simp [encBySizes] at h
  | cons sz rest ih =>
    intro b t h
    have hsz9 : sz ≤ 9 := hsz sz (by simp)
    simp only [List.sum_cons] at hlen
    by_cases h0 : sz = 0
    · subst h0
      simp only [encBySizes, dig2bytes, beBytes, List.nil_append, List.drop_zero] at h
      have e : (0 * 4 + 8) / 9 = 0 := by decide
      simp only [e, beBytes, List.nil_append] at h
      exact ih ds hd (fun s hs => hsz s (by simp [hs])) (by omega) b t h
    · obtain ⟨hw, hfit⟩ := head_fits ⟨sz, by omega⟩ (by simp; omega)
      simp only at hw hfit
      obtain ⟨w, hwe⟩ : ∃ w, dig2bytes sz = w + 1 := ⟨dig2bytes sz - 1, by omega⟩
      have hlt : atoi (ds.take sz) < 10 ^ sz := by
        have := atoi_lt (ds.take sz) (fun d hm => hd d (List.mem_of_mem_take hm))
        have hl : (ds.take sz).length = sz := by simp; omega
        rwa [hl] at this
      simp only [encBySizes, hwe, beBytes, List.cons_append, List.cons.injEq] at h
      rw [← h.1, byteOf_toNat]
      have hw' : dig2bytes sz - 1 = w := by omega
      rw [hw'] at hfit
      have : atoi (ds.take sz) / 256 ^ w < 128 := by
        apply Nat.div_lt_of_lt_mul
        rw [Nat.mul_comm]
        exact Nat.lt_of_lt_of_le hlt hfit
      rw [Nat.mod_eq_of_lt (Nat.lt_trans this (by decide))]
      exact this


theorem sum_replicate9 (k : Nat) : (List.replicate k 9).sum = 9 * k := by
  induction k with
  | zero => rfl
  | succ k ih => simp [List.replicate_succ, ih]; omega

/-- the digit string dolt builds: `p - s` integer digits then `s` fraction digits -/
def decDigits (p s u : Nat) : List Nat := fixedDigits (p - s) (u / 10 ^ s) ++ fixedDigits s (u % 10 ^ s)

/-- the unsigned buffer -/
def bufOf (p s u : Nat) : Bytes := encBySizes (decimalGroups p s) (decDigits p s u)

theorem decDigits_length (p s u : Nat) (hs : s ≤ p) : (decDigits p s u).length = p := by
  simp [decDigits, fixedDigits_length]; omega

theorem decDigits_lt (p s u : Nat) : ∀ d ∈ decDigits p s u, d < 10 := by
  intro d hd
  simp only [decDigits, List.mem_append] at hd
  rcases hd with h | h
  · exact fixedDigits_lt _ _ d h
  · exact fixedDigits_lt _ _ d h

theorem atoi_decDigits (p s u : Nat) (hs : s ≤ p) (hu : u < 10 ^ p) : atoi (decDigits p s u) = u := by
  have hdiv : u / 10 ^ s < 10 ^ (p - s) := by
    apply Nat.div_lt_of_lt_mul
    rw [← Nat.pow_add]
    have : s + (p - s) = p := by omega
    rw [this]; exact hu
  rw [decDigits, atoi_append, atoi_fixedDigits, atoi_fixedDigits, fixedDigits_length, Nat.mod_eq_of_lt hdiv]
  rw [Nat.mod_mod]
  exact Nat.div_add_mod' u (10 ^ s)

theorem decimalGroups_sum (p s : Nat) (hs : s ≤ p) : (decimalGroups p s).sum = p := by
  simp only [decimalGroups, List.sum_append, List.sum_cons, List.sum_nil, sum_replicate9]
  omega

theorem decimalGroups_le9 (p s : Nat) : ∀ sz ∈ decimalGroups p s, sz ≤ 9 := by
  intro sz h
  simp only [decimalGroups, List.mem_append, List.mem_cons, List.mem_replicate, List.not_mem_nil, or_false] at h
  rcases h with ((h | h) | h) | h <;> omega

/-- `decimalSerializer.serialize` computes exactly the grouped digit string with the sign applied -/
theorem encDecimal_eq (p s : Nat) (neg : Bool) (u : Nat) (hs : s < p) (hu : u < 10 ^ p) :
    encDecimal p s neg u = .ok (decimalSign neg (bufOf p s u)) := by
  have hdiv : u / 10 ^ s < 10 ^ (p - s) := by
    apply Nat.div_lt_of_lt_mul
    rw [← Nat.pow_add]
    have : s + (p - s) = p := by omega
    rw [this]; exact hu
  obtain ⟨hpad, _⟩ := padLeft_natDigits (p - s) (u / 10 ^ s) (by omega) hdiv
  have hx : (p - s) - (p - s) / 9 * 9 = (p - s) % 9 := by omega
  -- names
  obtain ⟨I, hI⟩ : ∃ I, fixedDigits (p - s) (u / 10 ^ s) = I := ⟨_, rfl⟩
  obtain ⟨F, hF⟩ : ∃ F, fixedDigits s (u % 10 ^ s) = F := ⟨_, rfl⟩
  have hIl : I.length = p - s := by rw [← hI, fixedDigits_length]
  have hFl : F.length = s := by rw [← hF, fixedDigits_length]
  have hId : ∀ d ∈ I, d < 10 := by rw [← hI]; exact fixedDigits_lt _ _
  have hFd : ∀ d ∈ F, d < 10 := by rw [← hF]; exact fixedDigits_lt _ _
  -- integer part
  have hg1 := encGroups_eq ((p - s) / 9) (I.drop ((p - s) % 9)) (fun d hm => hId d (List.mem_of_mem_drop hm))
    (by simp [hIl]; omega) (by simp [hIl]; omega)
  have hrem1 : (I.drop ((p - s) % 9)).drop (9 * ((p - s) / 9)) = [] := by
    apply List.eq_nil_of_length_eq_zero; simp [hIl]; omega
  have hp1 := encPartial_eq (I.take ((p - s) % 9)) (by simp; omega)
  have htl : (I.take ((p - s) % 9)).length = (p - s) % 9 := by simp [hIl]; omega
  -- fraction part
  have hg2 := encGroups_eq (s / 9) F hFd (by omega) (by omega)
  have hp2 := encPartial_eq (F.drop (9 * (s / 9))) (by simp [hFl]; omega)
  have hdl : (F.drop (9 * (s / 9))).length = s % 9 := by simp [hFl]; omega
  -- the grouped string
  have hbuf : bufOf p s u =
      encBySizes [(p - s) % 9] (I.take ((p - s) % 9)) ++ encBySizes (List.replicate ((p - s) / 9) 9) (I.drop ((p - s) % 9))
        ++ encBySizes (List.replicate (s / 9) 9) F ++ encBySizes [s % 9] (F.drop (9 * (s / 9))) := by
    simp only [bufOf, decimalGroups, decDigits, hI, hF]
    rw [encBySizes_append, encBySizes_append, encBySizes_append]
    simp only [List.sum_append, List.sum_cons, List.sum_nil, sum_replicate9, Nat.add_zero]
    have e1 : encBySizes [(p - s) % 9] (I ++ F) = encBySizes [(p - s) % 9] (I.take ((p - s) % 9)) := by
      simp only [encBySizes, List.append_nil]
      rw [List.take_append_of_le_length (by omega), List.take_take, Nat.min_self]
    have e2 : List.drop ((p - s) % 9) (I ++ F) = I.drop ((p - s) % 9) ++ F := List.drop_append_of_le_length (by omega)
    have e3 : encBySizes (List.replicate ((p - s) / 9) 9) (I.drop ((p - s) % 9) ++ F)
        = encBySizes (List.replicate ((p - s) / 9) 9) (I.drop ((p - s) % 9)) :=
      encBySizes_prefix _ _ _ (by rw [sum_replicate9]; simp [hIl]; omega)
    have e4 : List.drop ((p - s) % 9 + 9 * ((p - s) / 9)) (I ++ F) = F := by
      have : (p - s) % 9 + 9 * ((p - s) / 9) = I.length := by omega
      rw [this, List.drop_left]
    have e5 : List.drop ((p - s) % 9 + 9 * ((p - s) / 9) + 9 * (s / 9)) (I ++ F) = F.drop (9 * (s / 9)) := by
      rw [← List.drop_drop, e4]
    rw [e1, e2, e3, e4, e5]
  unfold encDecimal
  have hnr : ¬ (u ≥ 10 ^ p) := by omega
  simp only [hnr, if_false, hpad, hI, hF, hx, hg1, hrem1, hg2, List.length_nil, Nat.lt_irrefl]
  rw [hp1, hp2, htl, hdl, hbuf]
  by_cases h0 : s > 0
  · simp only [h0, if_true]
  · have hs0 : s = 0 := by omega
    subst hs0
    have hFn : F = [] := List.eq_nil_of_length_eq_zero hFl
    subst hFn
    simp [encBySizes, dig2bytes, beBytes]

end DoltVerif.Binlog
