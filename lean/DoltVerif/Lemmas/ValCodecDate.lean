import DoltVerif.Lemmas.ValCodecInt
/-! Dates: packed y/m/d round trip; `time.Date` day numbers are strictly monotone in (y,m,d) (C15). -/
namespace DoltVerif.ValCodec

theorem and_ff00 (t : Nat) : (t &&& 255 <<< 8) / 2 ^ 8 = (t / 256) % 256 := by
  rw [← Nat.shiftRight_eq_div_pow, Nat.shiftRight_and_distrib]
  have : (255 <<< 8) >>> 8 = 2 ^ 8 - 1 := by decide
  rw [this, Nat.and_two_pow_sub_one_eq_mod, Nat.shiftRight_eq_div_pow]

theorem dateParts_pack (y m d : Nat) (hy : y < 65536) (hm : m < 256) (hd : d < 256) :
    dateParts (UInt32.ofNat (y <<< yearShift) + UInt32.ofNat (m <<< monthShift) + UInt32.ofNat d) = (y, m, d) := by
  have ht : (UInt32.ofNat (y <<< yearShift) + UInt32.ofNat (m <<< monthShift) + UInt32.ofNat d).toNat
      = y * 65536 + m * 256 + d := by
    simp only [UInt32.toNat_add, UInt32.toNat_ofNat', yearShift, monthShift, Nat.shiftLeft_eq]
    omega
  unfold dateParts
  rw [ht]
  simp only [yearShift, monthShift, monthMask, dayMask, Nat.shiftRight_eq_div_pow]
  have e255 : (255 : Nat) = 2 ^ 8 - 1 := by decide
  rw [and_ff00, e255, Nat.and_two_pow_sub_one_eq_mod]
  refine Prod.ext ?_ (Prod.ext ?_ ?_) <;> simp only [] <;> omega

/-- days in month `m` (1-based) -/
def dim (leap : Bool) : Nat → Nat
  | 1 => 31 | 2 => if leap then 29 else 28 | 3 => 31 | 4 => 30 | 5 => 31 | 6 => 30
  | 7 => 31 | 8 => 31 | 9 => 30 | 10 => 31 | 11 => 30 | 12 => 31 | _ => 0

/-- a civil date -/
def ValidYMD (y m d : Nat) : Prop := 1 ≤ m ∧ m ≤ 12 ∧ 1 ≤ d ∧ d ≤ dim (isLeap y) m

/-- offset of the first day of month `m` (1-based) inside its year -/
def startOf (leap : Bool) (m : Nat) : Int :=
  daysBeforeMonth ((m : Int) - 1) + (if leap && decide (((m : Int) - 1) ≥ 2) then 1 else 0)

theorem civilDays_valid (y m d : Nat) (h1 : 1 ≤ m) (h2 : m ≤ 12) :
    civilDays y m d = daysBeforeYear y + startOf (isLeap y) m + ((d : Int) - 1) := by
  unfold civilDays startOf
  have a : ((m : Int) - 1) / 12 = 0 := by omega
  have b : ((m : Int) - 1) % 12 = (m : Int) - 1 := by omega
  simp only [a, b, Int.add_zero]
  omega

theorem month_table : ∀ leap : Bool, ∀ m m' : Fin 13, 1 ≤ m.val → m.val < m'.val →
    startOf leap m.val + (dim leap m.val : Int) ≤ startOf leap m'.val := by decide

theorem year_table : ∀ leap : Bool, ∀ m : Fin 13, 1 ≤ m.val →
    0 ≤ startOf leap m.val ∧ startOf leap m.val + (dim leap m.val : Int) ≤ 365 + (if leap then 1 else 0) := by decide

theorem daysBeforeYear_succ (y : Int) :
    daysBeforeYear (y + 1) = daysBeforeYear y + 365 + (if isLeap y then 1 else 0) := by
  unfold daysBeforeYear isLeap
  by_cases h4 : y % 4 = 0 <;> by_cases h100 : y % 100 = 0 <;> by_cases h400 : y % 400 = 0 <;>
    simp [h4, h100, h400] <;> omega

theorem daysBeforeYear_mono (y : Int) (k : Nat) : daysBeforeYear y + 365 * k ≤ daysBeforeYear (y + k) := by
  induction k with
  | zero => simp
  | succ k ih =>
    have := daysBeforeYear_succ (y + k)
    have e : y + ((k + 1 : Nat) : Int) = y + k + 1 := by omega
    rw [e, this]
    split <;> omega

/-- **strict monotonicity**: lexicographically smaller civil dates have smaller day numbers -/
theorem civilDays_lt {y m d y' m' d' : Nat} (v : ValidYMD y m d) (v' : ValidYMD y' m' d')
    (h : y < y' ∨ (y = y' ∧ (m < m' ∨ (m = m' ∧ d < d')))) : civilDays y m d < civilDays y' m' d' := by
  obtain ⟨a1, a2, a3, a4⟩ := v
  obtain ⟨b1, b2, b3, b4⟩ := v'
  rw [civilDays_valid y m d a1 a2, civilDays_valid y' m' d' b1 b2]
  have t1 := year_table (isLeap y) ⟨m, by omega⟩ a1
  have t2 := year_table (isLeap y') ⟨m', by omega⟩ b1
  simp only [] at t1 t2
  rcases h with h | ⟨rfl, h | ⟨rfl, h⟩⟩
  · -- earlier year
    obtain ⟨k, rfl⟩ : ∃ k, y' = y + 1 + k := ⟨y' - y - 1, by omega⟩
    have s := daysBeforeYear_succ y
    have mo := daysBeforeYear_mono ((y : Int) + 1) k
    have e : ((y + 1 + k : Nat) : Int) = (y : Int) + 1 + k := by omega
    rw [e]
    split at s <;> split at t1 <;> simp_all <;> omega
  · -- same year, earlier month
    have := month_table (isLeap y) ⟨m, by omega⟩ ⟨m', by omega⟩ a1 h
    simp only [] at this
    omega
  · omega

end DoltVerif.ValCodec
