import DoltVerif.Lemmas.ProllyMergeTiles
/-!
C14, obligation R2 (partly): the comparisons `SendPatches` makes in its range branches decide
overlap of the key intervals correctly (content level).
-/
namespace DoltVerif.ProllyMerge
open DoltVerif.ProllyDiff

variable {cmp : Bytes → Bytes → Ordering}

theorem ordLE_iff (o : Ordering) : ordLE o = true ↔ o ≠ .gt := by cases o <;> simp [ordLE]

/-- range/range and point/range, first test `left.EndKey ≤ right.KeyBelowStart` (nil as minimum):
then no key of left's interval lies in right's interval ("left change is entirely before right change") -/
theorem disjoint_of_end_le_start (ol : OrdLaws cmp) {l r : Patch} (hr : r.level ≠ 0)
    (h : ordLE (cmpNilMin cmp (some l.endKey) r.keyBelowStart) = true) {k : Bytes}
    (hl : l.covers cmp k = true) : r.covers cmp k = false := by
  have hle := covers_le_end ol hl
  cases hkb : r.keyBelowStart with
  | none => rw [hkb] at h; simp [cmpNilMin, ordLE] at h
  | some a =>
    rw [hkb] at h
    have hla : cmp l.endKey a ≠ .gt := (ordLE_iff _).mp h
    cases hc : r.covers cmp k with
    | false => rfl
    | true =>
      have h1 := ((covers_iff_range hr k).mp hc).1 a hkb
      -- k ≤ l.endKey ≤ a < k
      have h2 : cmp a l.endKey ≠ .gt → False := by
        intro _
        have hka : cmp k a ≠ .gt := by
          cases hke : cmp k l.endKey with
          | gt => exact absurd hke hle
          | lt => have := lt_le_lt ol hke hla; intro hg; rw [this] at hg; simp at hg
          | eq =>
            cases hea : cmp l.endKey a with
            | gt => exact absurd hea hla
            | lt => have := ol.eq_lt _ _ _ hke hea; intro hg; rw [this] at hg; simp at hg
            | eq => have := ol.eq_trans hke hea; intro hg; rw [this] at hg; simp at hg
        exact hka ((ol.gt_iff _ _).mpr h1)
      have hak : cmp a k = .lt := h1
      have hka : cmp k a ≠ .gt := by
        cases hke : cmp k l.endKey with
        | gt => exact absurd hke hle
        | lt => have := lt_le_lt ol hke hla; intro hg; rw [this] at hg; simp at hg
        | eq =>
          cases hea : cmp l.endKey a with
          | gt => exact absurd hea hla
          | lt => have := ol.eq_lt _ _ _ hke hea; intro hg; rw [this] at hg; simp at hg
          | eq => have := ol.eq_trans hke hea; intro hg; rw [this] at hg; simp at hg
      exact absurd ((ol.gt_iff _ _).mpr hak) hka

/-- point/range, the three-way decision of the `rightLevel > 0` branch (and, mirrored, of the
`leftLevel > 0` branch): a point patch with key `x` against a range patch `r` —
`x ≤ r.KeyBelowStart` ⇒ the point comes first; otherwise `x > r.EndKey` ⇒ the range comes first;
otherwise the point lies inside the range ("overlap, we need to split the range"). -/
theorem point_range_decision (ol : OrdLaws cmp) (x : Bytes) {r : Patch} (hr : r.level ≠ 0) :
    (ordLE (cmpNilMin cmp (some x) r.keyBelowStart) = true → r.covers cmp x = false) ∧
    (cmp x r.endKey = .gt → r.covers cmp x = false) ∧
    (ordLE (cmpNilMin cmp (some x) r.keyBelowStart) = false → cmp x r.endKey ≠ .gt → r.covers cmp x = true) := by
  refine ⟨?_, ?_, ?_⟩
  · intro h
    cases hkb : r.keyBelowStart with
    | none => rw [hkb] at h; simp [cmpNilMin, ordLE] at h
    | some a =>
      rw [hkb] at h
      have hxa : cmp x a ≠ .gt := (ordLE_iff _).mp h
      cases hc : r.covers cmp x with
      | false => rfl
      | true =>
        have := ((covers_iff_range hr x).mp hc).1 a hkb
        exact absurd ((ol.gt_iff _ _).mpr this) hxa
  · intro h
    cases hc : r.covers cmp x with
    | false => rfl
    | true => exact absurd h ((covers_iff_range hr x).mp hc).2
  · intro h1 h2
    rw [covers_iff_range hr]
    refine ⟨?_, h2⟩
    intro a ha
    rw [ha] at h1
    have : cmp x a = .gt := by
      cases hc : cmp x a with
      | gt => rfl
      | lt => simp [cmpNilMin, ordLE, hc] at h1
      | eq => simp [cmpNilMin, ordLE, hc] at h1
    exact (ol.gt_iff _ _).mp this

/-- the same-address shortcut of the range/range branch: patches whose `To` addresses are equal carry
the same pairs (content addressing) -/
theorem same_address_same_pairs {store : Addr → Option Tree} {a b : Addr} {ta tb : Tree}
    (ha : store a = some ta) (hb : store b = some tb) (h : (PVal.sub a ta).beq (PVal.sub b tb) = true) :
    ta.flatten = tb.flatten := by
  simp [PVal.beq] at h
  subst h
  rw [ha] at hb
  simp at hb
  rw [hb]

end DoltVerif.ProllyMerge
