import DoltVerif.Lemmas.ProllyMergeAdd1
/-!
C14, obligation R1 for the empty base and a tree of ANY height: the generator for `empty → x`.
All patches are `added`; the `to` cursor is an in-bounds path in `x`.  With `D` = the pairs before
the cursor's current item, `I` = the pairs of the item, `A` = the pairs after it (`x.flatten = D ++ I ++ A`):
a patch at level > 0 is `(lastKey D, key] ↦ item subtree`, at level 0 the item's pair; `Next` climbs while
at a node's end and advances (`D := D ++ I`); `split` pushes the item's child (`D` unchanged).
-/
namespace DoltVerif.ProllyMerge
open DoltVerif.ProllyDiff

variable {cmp : Bytes → Bytes → Ordering}

def lastKey (l : List KV) : Option Bytes := l.getLast?.map (·.1)

/-- pairs strictly before the current item -/
def doneOf : Cur → List KV
  | [] => []
  | f :: ps => doneOf ps ++ f.nd.flatTo f.idx

/-- an in-bounds path in `x` (deepest frame first) -/
def APath (x : Tree) : Cur → Prop
  | [] => False
  | [f] => f.nd = x ∧ f.idx < f.nd.count
  | f :: p :: ps => p.nd.child? p.idx = some f.nd ∧ f.idx < f.nd.count ∧ APath x (p :: ps)

/-! ### trees -/

theorem Tree.flatTo_zero (t : Tree) : t.flatTo 0 = [] := by cases t <;> simp [Tree.flatTo, flattenCs]

theorem Tree.flatTo_succ (t : Tree) (i : Nat) (h : i < t.count) : t.flatTo (i + 1) = t.flatTo i ++ t.itemFlat i := by
  cases t with
  | leaf kvs =>
    simp only [Tree.flatTo, Tree.itemFlat]
    rw [List.take_add_one]
  | node cs =>
    simp only [Tree.count] at h
    simp only [Tree.flatTo, Tree.itemFlat]
    rw [List.take_add_one, flattenCs_append]
    simp [h, flattenCs]

theorem Tree.flatTo_count (t : Tree) : t.flatTo t.count = t.flatten := by
  have := Tree.flatTo_flatFrom t t.count
  rw [Tree.flatFrom_ge _ _ (Nat.le_refl _)] at this
  simpa using this

theorem KeysOK_child {t c : Tree} {i : Nat} (hk : t.KeysOK) (h : t.child? i = some c) : c.KeysOK := by
  cases t with
  | leaf kvs => simp [Tree.child?] at h
  | node cs =>
    simp [Tree.child?] at h
    obtain ⟨a, ad, ha⟩ := h
    simp only [Tree.KeysOK] at hk
    exact (KeysOKCs_get hk ha).2

theorem node_item {store : Addr → Option Tree} {t : Tree} (hw : t.WF store) (hk : t.KeysOK) {i : Nat} (hi : i < t.count) (hh : 0 < t.height) :
    ∃ key addr child, t.key? i = some key ∧ t.child? i = some child ∧ t.itemFlat i = child.flatten ∧ store addr = some child ∧
      child.count ≠ 0 ∧ child.height + 1 = t.height ∧ lastKey child.flatten = some key ∧
      (∀ ps, curVal (⟨t, i⟩ :: ps) = some (.sub addr child)) := by
  cases t with
  | leaf kvs => simp [Tree.height] at hh
  | node cs =>
    simp only [Tree.count] at hi
    have hc : cs[i]? = some cs[i] := List.getElem?_eq_getElem hi
    simp only [Tree.WF] at hw
    simp only [Tree.KeysOK] at hk
    obtain ⟨h1, h2, h3, _⟩ := WFCs_get hw.2.2 hc
    obtain ⟨h5, _⟩ := KeysOKCs_get hk hc
    exact ⟨cs[i].1, cs[i].2.1, cs[i].2.2, by simp [Tree.key?, hi], by simp [Tree.child?, hi], by simp [Tree.itemFlat, hi], h1, h2,
      by simp [Tree.height, h3], h5, fun ps => by simp [curVal, hi]⟩

theorem leaf_item {t : Tree} {i : Nat} (hi : i < t.count) (hh : t.height = 0) :
    ∃ kv : KV, t.key? i = some kv.1 ∧ t.itemFlat i = [kv] ∧ (∀ ps, curVal (⟨t, i⟩ :: ps) = some (.val kv.2)) := by
  cases t with
  | node cs => simp [Tree.height] at hh
  | leaf kvs =>
    simp only [Tree.count] at hi
    exact ⟨kvs[i], by simp [Tree.key?, hi], by simp [Tree.itemFlat, hi], fun ps => by simp [curVal, hi]⟩

/-! ### paths -/

theorem apath_head {store : Addr → Option Tree} {x : Tree} (hx : x.WF store) (kx : x.KeysOK) :
    ∀ {ps : Cur} {f : Frame}, APath x (f :: ps) → f.nd.WF store ∧ f.nd.KeysOK ∧ f.idx < f.nd.count
  | [], f, ⟨h, hi⟩ => ⟨by rw [h]; exact hx, by rw [h]; exact kx, hi⟩
  | p :: ps, f, ⟨hch, hi, hp⟩ => by
    obtain ⟨wp, kp, _⟩ := apath_head hx kx hp
    exact ⟨(Tree.WF_child wp hch).2.2, KeysOK_child kp hch, hi⟩

theorem decomp {x : Tree} : ∀ {c : Cur}, APath x c → x.flatten = doneOf c ++ (curItemFlat c ++ remAbove c)
  | [], h => absurd h (by simp [APath])
  | [f], ⟨hx, hi⟩ => by
    simp only [doneOf, curItemFlat, remAbove, List.nil_append, List.append_nil]
    rw [← Tree.flatFrom_lt _ _ hi, Tree.flatTo_flatFrom, hx]
  | f :: p :: ps, ⟨hch, hi, hp⟩ => by
    have ih := decomp hp
    simp only [curItemFlat] at ih
    show x.flatten = (doneOf (p :: ps) ++ f.nd.flatTo f.idx) ++ (f.nd.itemFlat f.idx ++ (f.nd.flatFrom (f.idx + 1) ++ remAbove (p :: ps)))
    rw [ih, Tree.itemFlat_child hch, ← Tree.flatTo_flatFrom f.nd f.idx, Tree.flatFrom_lt _ _ hi]
    simp [List.append_assoc]

theorem next_cursor {x : Tree} : ∀ {c : Cur}, APath x c →
    (valid (advance (climb c)) = true ∧ APath x (advance (climb c)) ∧ doneOf (advance (climb c)) = doneOf c ++ curItemFlat c) ∨
    (valid (advance (climb c)) = false ∧ remAbove c = [])
  | [], h => absurd h (by simp [APath])
  | [f], ⟨hx, hi⟩ => by
    by_cases h1 : f.idx + 1 < f.nd.count
    · left
      have : advance (climb [f]) = [⟨f.nd, f.idx + 1⟩] := by simp [climb, advance, h1]
      rw [this]
      refine ⟨by simp [valid, Frame.valid, h1], ⟨hx, h1⟩, ?_⟩
      simp [doneOf, curItemFlat, Tree.flatTo_succ _ _ hi]
    · right
      have : advance (climb [f]) = [⟨f.nd, f.nd.count⟩] := by simp [climb, advance, h1]
      rw [this]
      refine ⟨by simp [valid, Frame.valid], ?_⟩
      simp only [remAbove, List.append_nil]
      exact Tree.flatFrom_ge _ _ (by omega)
  | f :: p :: ps, ⟨hch, hi, hp⟩ => by
    by_cases h1 : f.idx + 1 < f.nd.count
    · left
      have hne : atNodeEnd (f :: p :: ps) = false := by simp [atNodeEnd]; omega
      have : advance (climb (f :: p :: ps)) = ⟨f.nd, f.idx + 1⟩ :: p :: ps := by
        simp [climb, hne, advance, h1]
      rw [this]
      refine ⟨by simp [valid, Frame.valid, h1], ⟨hch, h1, hp⟩, ?_⟩
      simp [doneOf, curItemFlat, Tree.flatTo_succ _ _ hi]
    · have he : atNodeEnd (f :: p :: ps) = true := by simp [atNodeEnd]; omega
      have hcl : climb (f :: p :: ps) = climb (p :: ps) := by simp [climb, he]
      rw [hcl]
      have hcount : f.nd.count = f.idx + 1 := by omega
      rcases next_cursor hp with ⟨v, ap, hd⟩ | ⟨v, hr⟩
      · left
        refine ⟨v, ap, ?_⟩
        rw [hd]
        show doneOf (p :: ps) ++ p.nd.itemFlat p.idx = (doneOf (p :: ps) ++ f.nd.flatTo f.idx) ++ f.nd.itemFlat f.idx
        rw [Tree.itemFlat_child hch, ← Tree.flatTo_count f.nd, hcount, Tree.flatTo_succ _ _ hi]
        simp
      · right
        refine ⟨v, ?_⟩
        show f.nd.flatFrom (f.idx + 1) ++ remAbove (p :: ps) = []
        rw [Tree.flatFrom_ge _ _ (by omega), hr]; rfl

theorem curKey_of_valid : ∀ {c : Cur}, valid c = true → ∃ key, curKey c = some key
  | [], h => by simp [valid] at h
  | f :: ps, h => by
    simp only [valid, Frame.valid, decide_eq_true_eq] at h
    cases hnd : f.nd with
    | leaf kvs => rw [hnd] at h; simp only [Tree.count] at h; exact ⟨kvs[f.idx].1, by simp [curKey, hnd, Tree.key?, h]⟩
    | node cs => rw [hnd] at h; simp only [Tree.count] at h; exact ⟨cs[f.idx].1, by simp [curKey, hnd, Tree.key?, h]⟩

/-! ### order facts of `D ++ I ++ A` -/

structure ZFacts (cmp : Bytes → Bytes → Ordering) (D I A : List KV) (key : Bytes) : Prop where
  sX : Sorted cmp (D ++ (I ++ A))
  ne : ∃ y ys, I = y :: ys
  last : lastKey I = some key

namespace ZFacts
variable {D I A : List KV} {key : Bytes}

theorem s2 (Z : ZFacts cmp D I A key) : Sorted cmp (I ++ A) := sorted_append_right Z.sX
theorem sI (Z : ZFacts cmp D I A key) : Sorted cmp I := sorted_append_left Z.s2

theorem lastMem (Z : ZFacts cmp D I A key) : ∃ z ∈ I, z.1 = key := by
  have := Z.last
  unfold lastKey at this
  cases hg : I.getLast? with
  | none => rw [hg] at this; simp at this
  | some z => rw [hg] at this; exact ⟨z, getLast?_mem hg, by simpa using this⟩

theorem le (ol : OrdLaws cmp) (Z : ZFacts cmp D I A key) : ∀ x ∈ I, cmp x.1 key ≠ .gt := by
  intro x hx
  obtain ⟨z, hz, hxz⟩ := le_getLast ol Z.sI x hx
  have := Z.last
  unfold lastKey at this
  rw [hz] at this; simp at this
  rw [← this]; exact hxz

theorem gt (Z : ZFacts cmp D I A key) : ∀ y ∈ A, cmp key y.1 = .lt := by
  intro y hy
  obtain ⟨z, hz, hk⟩ := Z.lastMem
  rw [← hk]
  exact sorted_cross Z.s2 z hz y hy

theorem g1 (Z : ZFacts cmp D I A key) : ∀ a, lastKey D = some a → ∀ y ∈ I ++ A, cmp a y.1 = .lt := by
  intro a ha y hy
  unfold lastKey at ha
  cases hg : D.getLast? with
  | none => rw [hg] at ha; simp at ha
  | some w =>
    rw [hg] at ha; simp at ha
    rw [← ha]
    exact sorted_cross Z.sX w (getLast?_mem hg) y hy

theorem g2 (ol : OrdLaws cmp) (Z : ZFacts cmp D I A key) : ∀ x ∈ D, ∃ a, lastKey D = some a ∧ cmp x.1 a ≠ .gt := by
  intro x hx
  obtain ⟨w, hw, hxw⟩ := le_getLast ol (sorted_append_left Z.sX) x hx
  exact ⟨w.1, by unfold lastKey; rw [hw]; rfl, hxw⟩

theorem dLt (ol : OrdLaws cmp) (Z : ZFacts cmp D I A key) : ∀ x ∈ D, cmp x.1 key = .lt := by
  intro x hx
  obtain ⟨z, hz, hk⟩ := Z.lastMem
  rw [← hk]
  exact sorted_cross Z.sX x hx z (List.mem_append_left _ hz)

theorem lsnoc (Z : ZFacts cmp D I A key) : lastKey (D ++ I) = some key := by
  obtain ⟨y, ys, hy⟩ := Z.ne
  have := Z.last
  unfold lastKey at this ⊢
  rw [hy] at this ⊢
  rw [getLast?_append_cons]; exact this

/-- a key of `D` that is `lastKey D` -/
theorem lastD (Z : ZFacts cmp D I A key) {a : Bytes} (ha : lastKey D = some a) : ∃ w ∈ D, w.1 = a := by
  unfold lastKey at ha
  cases hg : D.getLast? with
  | none => rw [hg] at ha; simp at ha
  | some w => rw [hg] at ha; exact ⟨w, getLast?_mem hg, by simpa using ha⟩

end ZFacts

/-! ### what the cursor's current item is -/

structure CurFacts (cmp : Bytes → Bytes → Ordering) (store : Addr → Option Tree) (x : Tree) (c : Cur) (key : Bytes) : Prop where
  flat : x.flatten = doneOf c ++ (curItemFlat c ++ remAbove c)
  z : ZFacts cmp (doneOf c) (curItemFlat c) (remAbove c) key
  range : 0 < level c → ∃ addr child, curVal c = some (.sub addr child) ∧ store addr = some child ∧ child.flatten = curItemFlat c ∧
      pushChild c = .ok (⟨child, 0⟩ :: c) ∧ APath x (⟨child, 0⟩ :: c) ∧ level (⟨child, 0⟩ :: c) + 1 = level c
  point : level c = 0 → ∃ kv : KV, curItemFlat c = [kv] ∧ key = kv.1 ∧ curVal c = some (.val kv.2)
  vld : valid c = true

theorem curFacts {store : Addr → Option Tree} {x : Tree} (hx : x.WF store) (kx : x.KeysOK) (sx : Sorted cmp x.flatten)
    {c : Cur} (ap : APath x c) {key : Bytes} (hk : curKey c = some key) : CurFacts cmp store x c key := by
  cases c with
  | nil => exact absurd ap (by simp [APath])
  | cons f ps =>
    obtain ⟨t, i⟩ := f
    obtain ⟨wf, kf, hi⟩ := apath_head hx kx ap
    simp only at wf kf hi
    have hflat := decomp ap
    have hv : valid (⟨t, i⟩ :: ps) = true := by simp [valid, Frame.valid, hi]
    have hkey : t.key? i = some key := hk
    by_cases hh : 0 < t.height
    · obtain ⟨key0, addr, child, h1, h2, h3, h4, h5, h6, h7, h8⟩ := node_item wf kf hi hh
      have hk0 : key0 = key := by rw [h1] at hkey; simpa using hkey
      subst hk0
      have hI : curItemFlat (⟨t, i⟩ :: ps) = child.flatten := h3
      have hne : ∃ y ys, curItemFlat (⟨t, i⟩ :: ps) = y :: ys := by
        rw [hI]
        cases hc : child.flatten with
        | nil => rw [hc] at h7; simp [lastKey] at h7
        | cons y ys => exact ⟨y, ys, rfl⟩
      refine ⟨hflat, ⟨by rw [← hflat]; exact sx, hne, by rw [hI]; exact h7⟩, ?_, ?_, hv⟩
      · intro _
        refine ⟨addr, child, h8 ps, h4, hI.symm, by simp [pushChild, h2, pure, Except.pure], ⟨h2, Nat.pos_of_ne_zero h5, ap⟩, h6⟩
      · intro h0
        have : t.height = 0 := h0
        omega
    · have hh0 : t.height = 0 := by omega
      obtain ⟨kv, h1, h2, h3⟩ := leaf_item hi hh0
      have hk0 : kv.1 = key := by rw [h1] at hkey; simpa using hkey
      have hI : curItemFlat (⟨t, i⟩ :: ps) = [kv] := h2
      refine ⟨hflat, ⟨by rw [← hflat]; exact sx, ⟨kv, [], hI⟩, by rw [hI]; simp [lastKey, hk0]⟩, ?_, ?_, hv⟩
      · intro h0
        have : 0 < t.height := h0
        omega
      · intro _
        exact ⟨kv, hI, hk0.symm, h3 ps⟩

/-! ### the generator's steps -/

/-- state and patch after `sendAddedRange` / `sendAddedKey` at cursor `c` -/
def addedAt (c : Cur) (pk : Option Bytes) (key : Bytes) : PG × Option (Patch × DiffType) :=
  if 0 < level c then
    (⟨[], c, pk, level c, some .added⟩,
      some ({ keyBelowStart := pk, endKey := key, to? := curVal c, subtreeCount := subtreeSize c, level := level c }, .added))
  else (⟨[], c, pk, 0, some .added⟩, some ({ endKey := key, to? := curVal c }, .added))

theorem fnp_added (sf n : Nat) (c : Cur) (hv : valid c = true) (key : Bytes) (hk : curKey c = some key)
    (pk : Option Bytes) (pl : Nat) (pt : Option DiffType) :
    findNextPatch cmp sf (n + 1) ⟨[], c, pk, pl, pt⟩ = .ok (addedAt c pk key) := by
  have hv0 : valid ([] : Cur) = false := rfl
  by_cases h : 0 < level c <;>
    simp [findNextPatch, hv0, hv, sendAddedRange, sendAddedKey, needKey, hk, addedAt, h, bind, Except.bind, pure, Except.pure]

theorem fnp_invalid (sf n : Nat) (c : Cur) (hv : valid c = false) (pk : Option Bytes) (pl : Nat) (pt : Option DiffType) :
    findNextPatch cmp sf (n + 1) ⟨[], c, pk, pl, pt⟩ = .ok (⟨[], c, pk, pl, pt⟩, none) := by
  have hv0 : valid ([] : Cur) = false := rfl
  simp [findNextPatch, hv0, hv, pure, Except.pure]

theorem pgNext_added (fuel : Nat) (c : Cur) (pk : Option Bytes) (lvl : Nat) :
    pgNext cmp fuel ⟨[], c, pk, lvl, some .added⟩ =
      findNextPatch cmp fuel fuel ⟨[], advance (climb c), curKey c, lvl, some .added⟩ := by
  have hv0 : valid ([] : Cur) = false := rfl
  by_cases h : 0 < lvl <;> simp [pgNext, advanceFromPreviousPatch, h, hv0, bind, Except.bind, pure, Except.pure]

theorem pgSplit_added (fuel : Nat) (c c' : Cur) (hp : pushChild c = .ok c') (key' : Bytes) (hk : curKey c' = some key')
    (pk : Option Bytes) (lvl : Nat) (hl : lvl ≠ 0) :
    pgSplit cmp fuel ⟨[], c, pk, lvl, some .added⟩ = .ok (addedAt c' pk key') := by
  by_cases h : 0 < level c' <;>
    simp [pgSplit, hl, hp, sendAddedRange, sendAddedKey, needKey, hk, addedAt, h, bind, Except.bind, pure, Except.pure]

theorem ok_pair {α β ε : Type} {a : α × β} {d : α} {c : β} (h : (Except.ok a : Except ε (α × β)) = .ok (d, c)) :
    d = a.1 ∧ c = a.2 := by
  cases h; exact ⟨rfl, rfl⟩

/-! ### the invariant -/

def AddInvN (x : Tree) (d : PG) : GenPos → Prop
  | .start => d = ⟨[], [⟨x, 0⟩], none, 0, none⟩
  | .at p t => ∃ c pk key, APath x c ∧ curKey c = some key ∧ (0 < level c → pk = lastKey (doneOf c)) ∧
      d = (addedAt c pk key).1 ∧ some (p, t) = (addedAt c pk key).2
  | .done => True

section
variable (ol : OrdLaws cmp) {store : Addr → Option Tree} {x : Tree}
  (hx : x.WF store) (kx : x.KeysOK) (sx : Sorted cmp x.flatten) (hcnt : 0 < x.count)
include ol hx kx sx

/-- what an `at` state is -/
theorem at_info (d : PG) (p : Patch) (t : DiffType) (hi : AddInvN x d (.at p t)) :
    ∃ c pk key, APath x c ∧ curKey c = some key ∧ CurFacts cmp store x c key ∧ t = .added ∧
      ((0 < level c ∧ pk = lastKey (doneOf c) ∧ d = ⟨[], c, pk, level c, some .added⟩ ∧
          p = { keyBelowStart := pk, endKey := key, to? := curVal c, subtreeCount := subtreeSize c, level := level c }) ∨
       (level c = 0 ∧ d = ⟨[], c, pk, 0, some .added⟩ ∧ p = { endKey := key, to? := curVal c })) := by
  obtain ⟨c, pk, key, ap, hk, hpk, hd, hp⟩ := hi
  have F := curFacts (store := store) hx kx sx ap hk
  by_cases hl : 0 < level c
  · simp [addedAt, hl] at hd hp
    exact ⟨c, pk, key, ap, hk, F, hp.2, Or.inl ⟨hl, hpk hl, hd, hp.1⟩⟩
  · simp [addedAt, hl] at hd hp
    exact ⟨c, pk, key, ap, hk, F, hp.2, Or.inr ⟨by omega, hd, hp.1⟩⟩

/-- no changed key between `D` and the start of the patch at a new cursor -/
theorem gap_new {c2 : Cur} {key2 : Bytes} (F2 : CurFacts cmp store x c2 key2) {pk2 : Option Bytes}
    (hpk : 0 < level c2 → pk2 = lastKey (doneOf c2)) {k : Bytes} (hD : ∀ y ∈ doneOf c2, cmp y.1 k = .lt)
    {p' : Patch} {t' : DiffType} (hp' : (addedAt c2 pk2 key2).2 = some (p', t')) (hs : startsAfter cmp p' k) :
    lookupKV cmp k x.flatten = none := by
  by_cases hl : 0 < level c2
  · simp [addedAt, hl] at hp'
    obtain ⟨rfl, _⟩ := hp'
    have hne : level c2 ≠ 0 := by omega
    simp [startsAfter, hne] at hs
    obtain ⟨a, ha, hka⟩ := hs
    rw [hpk hl] at ha
    obtain ⟨w, hw, hwa⟩ := F2.z.lastD ha
    have := hD w hw
    rw [hwa] at this
    exact absurd ((ol.gt_iff _ _).mpr this) hka
  · simp [addedAt, hl] at hp'
    obtain ⟨rfl, _⟩ := hp'
    simp [startsAfter] at hs
    obtain ⟨kv, hI, hkey, _⟩ := F2.point (by omega)
    rw [F2.flat, hI]
    apply lookup_none_split ol hD
    intro y hy
    rcases List.mem_append.mp hy with hy | hy
    · simp at hy; rw [hy, ← hkey]; exact hs
    · exact ol.lt_trans _ _ _ hs (F2.z.gt y hy)

/-- the patch at a new cursor starts after a patch ending at `lastKey D` -/
theorem before_new {c2 : Cur} {key2 : Bytes} (F2 : CurFacts cmp store x c2 key2) {pk2 : Option Bytes} {key : Bytes}
    (hpk : pk2 = some key) (hlast : lastKey (doneOf c2) = some key)
    {p' : Patch} {t' : DiffType} (hp' : (addedAt c2 pk2 key2).2 = some (p', t')) (p : Patch) (hp : p.endKey = key) :
    Patch.before cmp p p' := by
  by_cases hl : 0 < level c2
  · simp [addedAt, hl] at hp'
    obtain ⟨rfl, _⟩ := hp'
    have hne : level c2 ≠ 0 := by omega
    simp [Patch.before, hne, hpk, hp, ol.refl]
  · simp [addedAt, hl] at hp'
    obtain ⟨rfl, _⟩ := hp'
    obtain ⟨w, hw, hwa⟩ := F2.z.lastD hlast
    have := F2.z.dLt ol w hw
    rw [hwa] at this
    simp [Patch.before, hp, this]

theorem addN_form (d : PG) (p : Patch) (t : DiffType) (hi : AddInvN x d (.at p t)) :
    (p.level = 0 → p.to? = (pvalBytes p.to?).map PVal.val) ∧
    (p.level ≠ 0 → p.to? = none ∨ ∃ a T, p.to? = some (.sub a T)) ∧
    (p.level ≠ 0 → ∀ a T, p.to? = some (.sub a T) → store a = some T ∧ T.flatten.getLast?.map (·.1) = some p.endKey) ∧
    (p.level ≠ 0 → p.to? = none → ∀ k, ¬ startsAfter cmp p k → lookupKV cmp k x.flatten = none) := by
  obtain ⟨c, pk, key, ap, hk, F, rfl, ⟨hl, _, _, rfl⟩ | ⟨hl, _, rfl⟩⟩ := at_info ol hx kx sx d p t hi
  · obtain ⟨addr, child, hcv, hst, hfl, _⟩ := F.range hl
    refine ⟨fun h => absurd h (by show level c ≠ 0; omega), fun _ => Or.inr ⟨addr, child, hcv⟩, ?_, ?_⟩
    · intro _ a T h
      have h' : curVal c = some (.sub a T) := h
      rw [hcv] at h'
      simp at h'
      obtain ⟨rfl, rfl⟩ := h'
      refine ⟨hst, ?_⟩
      have := F.z.last
      rw [← hfl] at this
      exact this
    · intro _ h
      have h' : curVal c = none := h
      rw [hcv] at h'; simp at h'
  · obtain ⟨kv, hI, hkey, hcv⟩ := F.point hl
    refine ⟨fun _ => ?_, fun h => absurd rfl h, fun h => absurd rfl h, fun h => absurd rfl h⟩
    show curVal c = (pvalBytes (curVal c)).map PVal.val
    rw [hcv]; rfl

theorem addN_cur (d : PG) (p : Patch) (t : DiffType) (hi : AddInvN x d (.at p t)) :
    PatchOK cmp p ∧ d.getLevel = p.level ∧
    (∀ k, p.covers cmp k = true → lookupKV cmp k x.flatten = p.valAt cmp k) ∧
    (p.level = 0 → changeOf (lookupKV cmp p.endKey []) (lookupKV cmp p.endKey x.flatten) =
      some ⟨t, p.endKey, pvalBytes p.from?, pvalBytes p.to?⟩) := by
  obtain ⟨c, pk, key, ap, hk, F, rfl, ⟨hl, hpk, rfl, rfl⟩ | ⟨hl, rfl, rfl⟩⟩ := at_info ol hx kx sx d p t hi
  · obtain ⟨addr, child, hcv, hst, hfl, _⟩ := F.range hl
    have hne : level c ≠ 0 := by omega
    have Z := F.z
    obtain ⟨y, ys, hy⟩ := Z.ne
    have hins : Patch.ins ({ keyBelowStart := pk, endKey := key, to? := curVal c, subtreeCount := subtreeSize c, level := level c } : Patch) = curItemFlat c := by
      show (match curVal c with | some (.sub _ t) => t.flatten | _ => []) = curItemFlat c
      rw [hcv]; exact hfl
    refine ⟨⟨fun _ a ha => ?_, fun _ z hz => ?_, fun _ => by rw [hins]; exact Z.sI⟩, ?_, ?_, fun h => absurd h hne⟩
    · have ha' : lastKey (doneOf c) = some a := by rw [← hpk]; exact ha
      have h1 := Z.g1 a ha' y (by rw [hy]; simp)
      have := lt_le_lt ol h1 (Z.le ol y (by rw [hy]; simp))
      show cmp a key ≠ .gt
      rw [this]; simp
    · rw [hins] at hz
      exact ⟨fun a ha => Z.g1 a (by rw [← hpk]; exact ha) z (List.mem_append_left _ hz), Z.le ol z hz⟩
    · simp [PG.getLevel, F.vld]
    · intro k hkc
      obtain ⟨h1, h2⟩ := (covers_iff_range hne k).mp hkc
      have hpre : ∀ z ∈ doneOf c, cmp z.1 k = .lt := by
        intro z hz
        obtain ⟨a, ha, hza⟩ := Z.g2 ol z hz
        exact le_lt_lt ol hza (h1 a (by rw [hpk]; exact ha))
      have hpost : ∀ z ∈ remAbove c, cmp k z.1 = .lt := fun z hz => le_lt_lt ol h2 (Z.gt z hz)
      rw [valAt_range hne, hins, F.flat, lookup_append, lookup_none_of_gt ol hpre, lookup_append, lookup_none_of_lt ol hpost]
      cases lookupKV cmp k (curItemFlat c) <;> rfl
  · obtain ⟨kv, hI, hkey, hcv⟩ := F.point hl
    subst hkey
    have hmem : kv ∈ x.flatten := by rw [F.flat, hI]; simp
    have hlk : ∀ k, cmp k kv.1 = .eq → lookupKV cmp k x.flatten = some kv := fun k hk' =>
      (lookup_some_iff ol k sx kv).mpr ⟨hmem, hk'⟩
    refine ⟨⟨fun h => absurd rfl h, fun h => absurd rfl h, fun h => absurd rfl h⟩, ?_, ?_, ?_⟩
    · simp [PG.getLevel, F.vld, hl]
    · intro k hkc
      rw [hlk k ((covers_iff_point rfl k).mp hkc)]
      simp [Patch.valAt, pointEffect, hcv]
    · intro _
      show changeOf (lookupKV cmp kv.1 []) (lookupKV cmp kv.1 x.flatten) = _
      rw [hlk kv.1 (ol.refl _)]
      simp [lookupKV, changeOf, Event.added, pvalBytes, hcv]

include hcnt in
theorem addN_next (fuel : Nat) (d : PG) (pos : GenPos) (d' : PG) (c' : Option (Patch × DiffType))
    (hi : AddInvN x d pos) (hpos : pos ≠ .done) (hn : pgNext cmp fuel d = .ok (d', c')) :
    AddInvN x d' (GenPos.ofResult c') ∧
    (∀ p t p' t', pos = .at p t → c' = some (p', t') → Patch.before cmp p p') ∧
    (∀ k, (∀ p t, pos = .at p t → cmp p.endKey k = .lt) → (∀ p' t', c' = some (p', t') → startsAfter cmp p' k) →
      changeOf (lookupKV cmp k []) (lookupKV cmp k x.flatten) = none) := by
  cases pos with
  | done => exact absurd rfl hpos
  | start =>
    have hd : d = ⟨[], [⟨x, 0⟩], none, 0, none⟩ := hi
    subst hd
    rw [pgNext_fresh] at hn
    cases fuel with
    | zero => simp [findNextPatch] at hn
    | succ m =>
      have ap : APath x [⟨x, 0⟩] := ⟨rfl, hcnt⟩
      have hv : valid [⟨x, 0⟩] = true := by simp [valid, Frame.valid, hcnt]
      obtain ⟨key, hk⟩ := curKey_of_valid hv
      have F := curFacts (store := store) hx kx sx ap hk
      have hD : doneOf [⟨x, 0⟩] = [] := by simp [doneOf, Tree.flatTo_zero]
      rw [fnp_added (m + 1) m _ hv key hk] at hn
      obtain ⟨rfl, rfl⟩ := ok_pair hn
      have hpk : 0 < level [⟨x, 0⟩] → (none : Option Bytes) = lastKey (doneOf [⟨x, 0⟩]) := by
        intro _; rw [hD]; rfl
      refine ⟨?_, fun p t p' t' h => (by cases h), ?_⟩
      · cases hr : (addedAt [⟨x, 0⟩] none key).2 with
        | none => trivial
        | some pt => exact ⟨_, none, key, ap, hk, hpk, rfl, by rw [hr]⟩
      · intro k _ h2
        cases hr : (addedAt [⟨x, 0⟩] none key).2 with
        | none => by_cases hl : 0 < level [⟨x, 0⟩] <;> simp [addedAt, hl] at hr
        | some pt =>
          obtain ⟨p', t'⟩ := pt
          exact chg_none (gap_new ol hx kx sx F hpk (by rw [hD]; intro y hy; cases hy) hr (h2 p' t' hr))
  | «at» p t =>
    obtain ⟨c, pk, key, ap, hk, F, rfl, hcase⟩ := at_info ol hx kx sx d p t hi
    have hend : p.endKey = key := by
      rcases hcase with ⟨_, _, _, rfl⟩ | ⟨_, _, rfl⟩ <;> rfl
    have hd : ∃ lvl, d = ⟨[], c, pk, lvl, some .added⟩ := by
      rcases hcase with ⟨_, _, h, _⟩ | ⟨_, h, _⟩
      · exact ⟨_, h⟩
      · exact ⟨_, h⟩
    obtain ⟨lvl, rfl⟩ := hd
    rw [pgNext_added] at hn
    have Z := F.z
    cases fuel with
    | zero => simp [findNextPatch] at hn
    | succ m =>
      rcases next_cursor ap with ⟨v, ap2, hd2⟩ | ⟨v, hr⟩
      · obtain ⟨key2, hk2⟩ := curKey_of_valid v
        have F2 := curFacts (store := store) hx kx sx ap2 hk2
        rw [fnp_added (m + 1) m _ v key2 hk2] at hn
        obtain ⟨rfl, rfl⟩ := ok_pair hn
        have hlast : lastKey (doneOf (advance (climb c))) = some key := by rw [hd2]; exact Z.lsnoc
        have hpk2 : 0 < level (advance (climb c)) → curKey c = lastKey (doneOf (advance (climb c))) := by
          intro _; rw [hlast, hk]
        refine ⟨?_, ?_, ?_⟩
        · cases hr : (addedAt (advance (climb c)) (curKey c) key2).2 with
          | none => trivial
          | some pt => exact ⟨_, curKey c, key2, ap2, hk2, hpk2, rfl, by rw [hr]⟩
        · intro p0 t0 p' t' h1 h2
          cases h1
          exact before_new ol hx kx sx F2 hk hlast h2 p hend
        · intro k h1 h2
          have hkk : cmp key k = .lt := by rw [← hend]; exact h1 p _ rfl
          cases hr : (addedAt (advance (climb c)) (curKey c) key2).2 with
          | none => by_cases hl : 0 < level (advance (climb c)) <;> simp [addedAt, hl] at hr
          | some pt =>
            obtain ⟨p', t'⟩ := pt
            refine chg_none (gap_new ol hx kx sx F2 hpk2 ?_ hr (h2 p' t' hr))
            rw [hd2]
            intro y hy
            rcases List.mem_append.mp hy with hy | hy
            · exact ol.lt_trans _ _ _ (Z.dLt ol y hy) hkk
            · exact le_lt_lt ol (Z.le ol y hy) hkk
      · rw [fnp_invalid (m + 1) m _ v] at hn
        cases hn
        refine ⟨trivial, fun p0 t0 p' t' _ h => (by cases h), ?_⟩
        intro k h1 _
        have hkk : cmp key k = .lt := by rw [← hend]; exact h1 p _ rfl
        apply chg_none
        rw [F.flat, hr]
        apply lookup_none_of_gt ol
        intro y hy
        simp at hy
        rcases hy with hy | hy
        · exact ol.lt_trans _ _ _ (Z.dLt ol y hy) hkk
        · exact le_lt_lt ol (Z.le ol y hy) hkk

theorem addN_split (fuel : Nat) (d : PG) (p : Patch) (t : DiffType) (d' : PG) (c' : Option (Patch × DiffType))
    (hi : AddInvN x d (.at p t)) (hlev : p.level ≠ 0) (hs : pgSplit cmp fuel d = .ok (d', c')) :
    AddInvN x d' (GenPos.ofResult c') ∧
    (∀ p' t', c' = some (p', t') → ∀ k, startsAfter cmp p k → startsAfter cmp p' k) ∧
    (∀ k, ¬ startsAfter cmp p k → (∀ p' t', c' = some (p', t') → startsAfter cmp p' k) →
      changeOf (lookupKV cmp k []) (lookupKV cmp k x.flatten) = none) := by
  obtain ⟨c, pk, key, ap, hk, F, rfl, ⟨hl, hpk, rfl, rfl⟩ | ⟨hl, _, rfl⟩⟩ := at_info ol hx kx sx d p t hi
  · obtain ⟨addr, child, hcv, hst, hfl, hpush, ap3, hlv3⟩ := F.range hl
    have hne : level c ≠ 0 := by omega
    have v3 : valid (⟨child, 0⟩ :: c) = true := by
      cases c with
      | nil => exact absurd ap (by simp [APath])
      | cons f ps => simp [valid, Frame.valid]; exact ap3.2.1
    obtain ⟨key3, hk3⟩ := curKey_of_valid v3
    have F3 := curFacts (store := store) hx kx sx ap3 hk3
    rw [pgSplit_added fuel c _ hpush key3 hk3 pk _ hne] at hs
    obtain ⟨rfl, rfl⟩ := ok_pair hs
    have hD3 : doneOf (⟨child, 0⟩ :: c) = doneOf c := by simp [doneOf, Tree.flatTo_zero]
    have hpk3 : 0 < level (⟨child, 0⟩ :: c) → pk = lastKey (doneOf (⟨child, 0⟩ :: c)) := by
      intro _; rw [hD3]; exact hpk
    have Z := F.z
    have hnsD : ∀ k, ¬ startsAfter cmp ({ keyBelowStart := pk, endKey := key, to? := curVal c, subtreeCount := subtreeSize c, level := level c } : Patch) k →
        ∀ y ∈ doneOf c, cmp y.1 k = .lt := by
      intro k hns y hy
      simp [startsAfter, hne] at hns
      obtain ⟨a, ha, hya⟩ := Z.g2 ol y hy
      exact le_lt_lt ol hya ((ol.gt_iff _ _).mp (hns a (by rw [hpk]; exact ha)))
    refine ⟨?_, ?_, ?_⟩
    · cases hr : (addedAt (⟨child, 0⟩ :: c) pk key3).2 with
      | none => trivial
      | some pt => exact ⟨_, pk, key3, ap3, hk3, hpk3, rfl, by rw [hr]⟩
    · intro p' t' hp' k hk'
      by_cases hl3 : 0 < level (⟨child, 0⟩ :: c)
      · simp [addedAt, hl3] at hp'
        obtain ⟨rfl, _⟩ := hp'
        have hne3 : level (⟨child, 0⟩ :: c) ≠ 0 := by omega
        simp [startsAfter, hne] at hk'
        simp [startsAfter, hne3]
        exact hk'
      · simp [addedAt, hl3] at hp'
        obtain ⟨rfl, _⟩ := hp'
        simp [startsAfter, hne] at hk'
        obtain ⟨a, ha, hka⟩ := hk'
        simp [startsAfter]
        obtain ⟨kv3, hI3, hkey3, _⟩ := F3.point (by omega)
        have := F3.z.g1 a (by rw [hD3, ← hpk]; exact ha) kv3 (by rw [hI3]; simp)
        rw [hkey3]
        exact le_lt_lt ol hka this
    · intro k hns hsa
      cases hr : (addedAt (⟨child, 0⟩ :: c) pk key3).2 with
      | none => by_cases hl3 : 0 < level (⟨child, 0⟩ :: c) <;> simp [addedAt, hl3] at hr
      | some pt =>
        obtain ⟨p', t'⟩ := pt
        exact chg_none (gap_new ol hx kx sx F3 hpk3 (by rw [hD3]; exact hnsD k hns) hr (hsa p' t' hr))
  · exact absurd rfl hlev

include hcnt in
/-- **GenSound for `empty → x`**, any height -/
theorem addN_genSound (fuel : Nat) : GenSound cmp store fuel [] x.flatten (AddInvN x) :=
  ⟨addN_form ol hx kx sx, addN_cur ol hx kx sx,
   fun d pos d' c' hi hpos hn => addN_next ol hx kx sx hcnt fuel d pos d' c' hi hpos hn,
   fun d p t d' c' hi hlev hs => addN_split ol hx kx sx fuel d p t d' c' hi hlev hs⟩

end

end DoltVerif.ProllyMerge
