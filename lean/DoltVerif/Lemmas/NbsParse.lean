import DoltVerif.Lemmas.NbsBytes
namespace DoltVerif.NbsFiles

def footerBytes (n unc : Nat) : List UInt8 := beBytes uint32Size n ++ beBytes uint64Size unc ++ magicNumber

theorem footerBytes_length (n unc : Nat) : (footerBytes n unc).length = footerSize := by
  simp [footerBytes, beBytes_length, footerSize, uint32Size, uint64Size, magicNumber]

theorem readFooter_append (x : List UInt8) (n unc : Nat) (hn : n < 256 ^ 4) (hu : unc < 256 ^ 8) :
    readFooter (x ++ footerBytes n unc) = .ok (n, unc) := by
  unfold readFooter
  have hl : (x ++ footerBytes n unc).length = x.length + footerSize := by simp [footerBytes_length]
  have hd : (x ++ footerBytes n unc).drop ((x ++ footerBytes n unc).length - footerSize) = footerBytes n unc := by
    rw [hl, Nat.add_sub_cancel]; exact drop_append_len _ _ _ rfl
  have h1 : ¬ ((x ++ footerBytes n unc).length < footerSize) := by omega
  simp only [h1, if_false, hd]
  have hm : (footerBytes n unc).drop (uint32Size + uint64Size) = magicNumber := by
    unfold footerBytes
    exact drop_append_len _ _ _ (by simp [beBytes_length])
  have h4 : (footerBytes n unc).take uint32Size = beBytes uint32Size n := by
    unfold footerBytes; rw [List.append_assoc]; exact take_append_len _ _ _ (beBytes_length _ _)
  have h8 : ((footerBytes n unc).drop uint32Size).take uint64Size = beBytes uint64Size unc := by
    unfold footerBytes
    rw [List.append_assoc, drop_append_len _ _ _ (beBytes_length _ _)]
    exact take_append_len _ _ _ (beBytes_length _ _)
  simp only [hm, bne_self_eq_false, Bool.false_eq_true, if_false, h4, h8]
  rw [beVal_beBytes _ _ (by simpa [uint32Size] using hn), beVal_beBytes _ _ (by simpa [uint64Size] using hu)]

/-- field bounds of an index that can be written without truncation -/
structure Bounded (ix : Idx) : Prop where
  ord_size : ix.ord.size = ix.pfx.size
  suf_size : ix.suf.size = ix.pfx.size
  len_size : ix.len.size = ix.pfx.size
  pfx_lt : ∀ x ∈ ix.pfx.toList, x < 256 ^ prefixLen
  ord_lt : ∀ x ∈ ix.ord.toList, x < 256 ^ ordinalSize
  suf_lt : ∀ x ∈ ix.suf.toList, x < 256 ^ suffixLen
  len_lt : ∀ x ∈ ix.len.toList, x < 256 ^ lengthSize
  count_lt : ix.pfx.size < 256 ^ 4
  unc_lt : ix.unc < 256 ^ 8

theorem serializeIndex_eq (ix : Idx) : serializeIndex ix =
    (ix.pfx.toList.zip ix.ord.toList).flatMap tupleBytes ++ (ix.len.toList.flatMap (beBytes lengthSize) ++
      (ix.suf.toList.flatMap (beBytes suffixLen) ++ footerBytes ix.count ix.unc)) := by
  unfold serializeIndex footerBytes
  have : (fun (x : Nat × Nat) => match x with | (p, o) => beBytes prefixLen p ++ beBytes ordinalSize o) = tupleBytes := by
    funext x; cases x; rfl
  simp only [this, List.append_assoc]

/-- byte-level round trip of the index: parsing what the writer serialises — after arbitrary chunk
record bytes — gives back the index, field for field. -/
theorem parse_serialize (ix : Idx) (hb : Bounded ix) (before : List UInt8) :
    parseIndex (before ++ serializeIndex ix) = .ok ix := by
  have hn : ix.count = ix.pfx.size := rfl
  have hzl : (ix.pfx.toList.zip ix.ord.toList).length = ix.pfx.size := by
    simp [hb.ord_size]
  have hTU : ((ix.pfx.toList.zip ix.ord.toList).flatMap tupleBytes).length = lengthsOffset ix.pfx.size := by
    rw [flatMap_length_const _ _ tupleBytes_length, hzl]; rfl
  have hLE : (ix.len.toList.flatMap (beBytes lengthSize)).length = ix.pfx.size * lengthSize := by
    rw [flatMap_length_const _ _ (beBytes_length _)]; simp [hb.len_size]
  have hSU : (ix.suf.toList.flatMap (beBytes suffixLen)).length = ix.pfx.size * suffixLen := by
    rw [flatMap_length_const _ _ (beBytes_length _)]; simp [hb.suf_size]
  rw [serializeIndex_eq]
  unfold parseIndex
  -- footer
  have hfile : before ++ ((ix.pfx.toList.zip ix.ord.toList).flatMap tupleBytes ++ (ix.len.toList.flatMap (beBytes lengthSize) ++
      (ix.suf.toList.flatMap (beBytes suffixLen) ++ footerBytes ix.count ix.unc))) =
      (before ++ (ix.pfx.toList.zip ix.ord.toList).flatMap tupleBytes ++ ix.len.toList.flatMap (beBytes lengthSize) ++
        ix.suf.toList.flatMap (beBytes suffixLen)) ++ footerBytes ix.count ix.unc := by
    simp only [List.append_assoc]
  have hrf := readFooter_append (before ++ (ix.pfx.toList.zip ix.ord.toList).flatMap tupleBytes ++
      ix.len.toList.flatMap (beBytes lengthSize) ++ ix.suf.toList.flatMap (beBytes suffixLen)) ix.count ix.unc
      (by rw [hn]; exact hb.count_lt) hb.unc_lt
  rw [← hfile] at hrf
  rw [hrf]
  simp only [bind, Except.bind]
  -- the index region
  have hlen : (before ++ ((ix.pfx.toList.zip ix.ord.toList).flatMap tupleBytes ++ (ix.len.toList.flatMap (beBytes lengthSize) ++
      (ix.suf.toList.flatMap (beBytes suffixLen) ++ footerBytes ix.count ix.unc)))).length =
      before.length + (indexSize ix.count + footerSize) := by
    simp only [List.length_append, hTU, hLE, hSU, footerBytes_length, hn]
    simp only [indexSize, lengthsOffset, prefixTupleSize, lengthSize, suffixLen, prefixLen, ordinalSize]
    omega
  have hns : ¬ (before.length + (indexSize ix.count + footerSize) < indexSize ix.count + footerSize) := by omega
  rw [hlen]
  simp only [hns, if_false, Nat.add_sub_cancel]
  rw [drop_append_len before _ _ rfl]
  -- tuples
  have htu := tuples_flatMap (ix.pfx.toList.zip ix.ord.toList)
    (ix.len.toList.flatMap (beBytes lengthSize) ++ (ix.suf.toList.flatMap (beBytes suffixLen) ++ footerBytes ix.pfx.size ix.unc))
    (by
      intro x hx
      have := List.of_mem_zip hx
      exact ⟨hb.pfx_lt _ this.1, hb.ord_lt _ this.2⟩)
  rw [hzl] at htu
  rw [hn]
  rw [htu]
  rw [drop_append_len _ _ _ hTU]
  have hle := fields_flatMap lengthSize ix.len.toList
    (ix.suf.toList.flatMap (beBytes suffixLen) ++ footerBytes ix.pfx.size ix.unc) hb.len_lt
  rw [show ix.len.toList.length = ix.pfx.size by simp [hb.len_size]] at hle
  rw [hle]
  have hso : suffixesOffset ix.pfx.size = lengthsOffset ix.pfx.size + ix.pfx.size * lengthSize := by
    simp [suffixesOffset, lengthsOffset, Nat.mul_add]
  rw [hso, ← List.drop_drop, drop_append_len _ _ _ hTU, drop_append_len _ _ _ hLE]
  have hsu := fields_flatMap suffixLen ix.suf.toList (footerBytes ix.pfx.size ix.unc) hb.suf_lt
  rw [show ix.suf.toList.length = ix.pfx.size by simp [hb.suf_size]] at hsu
  rw [hsu]
  have h1 : (ix.pfx.toList.zip ix.ord.toList).map (·.1) = ix.pfx.toList :=
    List.map_fst_zip (by simp [hb.ord_size])
  have h2 : (ix.pfx.toList.zip ix.ord.toList).map (·.2) = ix.ord.toList :=
    List.map_snd_zip (by simp [hb.ord_size])
  simp [h1, h2]

end DoltVerif.NbsFiles
