import DoltVerif.Lemmas.ValCodecCompare
/-! Three-way comparisons that are total preorders; lexicographic lifting; keys of encodings (C15). -/
namespace DoltVerif.ValCodec

/-- a three-way comparison that is a total preorder (equivalently: `compare` of some linear order
after a key map) -/
structure Lawful {α : Type} (c : α → α → Ordering) : Prop where
  refl : ∀ a, c a a = .eq
  swap : ∀ a b, c b a = (c a b).swap
  trans_lt : ∀ a b d, c a b = .lt → c b d = .lt → c a d = .lt
  eq_left : ∀ a b d, c a b = .eq → c a d = c b d

theorem Lawful.eq_right {α : Type} {c : α → α → Ordering} (h : Lawful c) (a b d : α) (e : c b d = .eq) :
    c a b = c a d := by
  have e' : c d b = .eq := by rw [h.swap b d, e]; rfl
  have := h.eq_left d b a e'
  rw [h.swap b a, h.swap d a, this]

/-- `≤` is transitive -/
theorem Lawful.trans_le {α : Type} {c : α → α → Ordering} (h : Lawful c) (a b d : α)
    (h1 : c a b ≠ .gt) (h2 : c b d ≠ .gt) : c a d ≠ .gt := by
  cases e1 : c a b with
  | gt => exact absurd e1 h1
  | eq => rw [h.eq_left a b d e1]; exact h2
  | lt =>
    cases e2 : c b d with
    | gt => exact absurd e2 h2
    | eq => rw [← h.eq_right a b d e2, e1]; simp
    | lt => rw [h.trans_lt a b d e1 e2]; simp

theorem lawful_specCmpInt : Lawful specCmpInt where
  refl := specCmpInt_refl
  swap := fun a b => specCmpInt_swap a b
  trans_lt := fun a b d h1 h2 => by
    rw [specCmpInt_lt_iff] at *; omega
  eq_left := fun a b d h => by rw [specCmpInt_eq_iff.1 h]

theorem lawful_bytesCompare : Lawful bytesCompare where
  refl := bytesCompare_refl
  swap := fun a b => bytesCompare_swap a b
  trans_lt := fun a b d h1 h2 => by
    have hle := bytesCompare_trans (a := a) (b := b) (c := d) (by rw [h1]; simp) (by rw [h2]; simp)
    cases e : bytesCompare a d with
    | lt => rfl
    | gt => exact absurd e hle
    | eq =>
      have := bytesCompare_eq_iff.1 e
      subst this
      rw [bytesCompare_swap a b, h1] at h2
      simp [Ordering.swap] at h2
  eq_left := fun a b d h => by rw [bytesCompare_eq_iff.1 h]

/-- order keys: an integer or a byte string (never mixed within one column) -/
abbrev Key := Int ⊕ Bytes

def Key.cmp : Key → Key → Ordering
  | .inl a, .inl b => specCmpInt a b
  | .inr a, .inr b => bytesCompare a b
  | .inl _, .inr _ => .lt
  | .inr _, .inl _ => .gt

theorem lawful_keyCmp : Lawful Key.cmp where
  refl := fun a => by cases a <;> simp [Key.cmp, specCmpInt_refl, bytesCompare_refl]
  swap := fun a b => by
    cases a <;> cases b
    · exact specCmpInt_swap _ _
    · rfl
    · rfl
    · exact bytesCompare_swap _ _
  trans_lt := fun a b d h1 h2 => by
    cases a <;> cases b <;> cases d <;> simp [Key.cmp] at *
    · exact lawful_specCmpInt.trans_lt _ _ _ h1 h2
    · exact lawful_bytesCompare.trans_lt _ _ _ h1 h2
  eq_left := fun a b d h => by
    cases a <;> cases b <;> cases d <;> simp [Key.cmp] at *
    · exact lawful_specCmpInt.eq_left _ _ _ h
    · exact lawful_bytesCompare.eq_left _ _ _ h

/-- NULL (none) first -/
def okCmp {α : Type} (c : α → α → Ordering) : Option α → Option α → Ordering
  | none, none => .eq
  | none, some _ => .lt
  | some _, none => .gt
  | some a, some b => c a b

theorem lawful_okCmp {α : Type} {c : α → α → Ordering} (h : Lawful c) : Lawful (okCmp c) where
  refl := fun a => by cases a <;> simp [okCmp, h.refl]
  swap := fun a b => by
    cases a <;> cases b
    · rfl
    · rfl
    · rfl
    · exact h.swap _ _
  trans_lt := fun a b d h1 h2 => by
    cases a <;> cases b <;> cases d <;> simp [okCmp] at *
    exact h.trans_lt _ _ _ h1 h2
  eq_left := fun a b d e => by
    cases a <;> cases b <;> cases d <;> simp [okCmp] at *
    exact h.eq_left _ _ _ e

/-- lexicographic comparison of equally long rows -/
def lexCmp {α : Type} (c : α → α → Ordering) : List α → List α → Ordering
  | [], [] => .eq
  | [], _ :: _ => .lt
  | _ :: _, [] => .gt
  | a :: as, b :: bs => match c a b with
    | .eq => lexCmp c as bs
    | o => o

theorem lawful_lexCmp {α : Type} {c : α → α → Ordering} (h : Lawful c) : Lawful (lexCmp c) where
  refl := fun a => by induction a with
    | nil => rfl
    | cons x xs ih => simp [lexCmp, h.refl, ih]
  swap := fun a b => by
    induction a generalizing b with
    | nil => cases b <;> rfl
    | cons x xs ih =>
      cases b with
      | nil => rfl
      | cons y ys =>
        simp only [lexCmp]
        rw [h.swap x y]
        cases c x y <;> simp [Ordering.swap, ih]
  trans_lt := fun a b d h1 h2 => by
    induction a generalizing b d with
    | nil =>
      cases b with
      | nil => simp [lexCmp] at h1
      | cons y ys => cases d <;> simp [lexCmp] at *
    | cons x xs ih =>
      cases b with
      | nil => simp [lexCmp] at h1
      | cons y ys =>
        cases d with
        | nil => simp [lexCmp] at h2
        | cons z zs =>
          simp only [lexCmp] at h1 h2 ⊢
          cases e1 : c x y with
          | gt => simp [e1] at h1
          | lt =>
            cases e2 : c y z with
            | gt => simp [e2] at h2
            | lt => simp [h.trans_lt x y z e1 e2]
            | eq => rw [← h.eq_right x y z e2, e1]
          | eq =>
            rw [h.eq_left x y z e1]
            simp only [e1] at h1
            cases e2 : c y z with
            | gt => simp [e2] at h2
            | lt => rfl
            | eq =>
              simp only [e2] at h2 ⊢
              exact ih _ _ h1 h2
  eq_left := fun a b d e => by
    induction a generalizing b d with
    | nil =>
      cases b with
      | nil => rfl
      | cons y ys => simp [lexCmp] at e
    | cons x xs ih =>
      cases b with
      | nil => simp [lexCmp] at e
      | cons y ys =>
        simp only [lexCmp] at e
        cases e1 : c x y with
        | lt => simp [e1] at e
        | gt => simp [e1] at e
        | eq =>
          simp only [e1] at e
          cases d with
          | nil => rfl
          | cons z zs =>
            simp only [lexCmp]
            rw [h.eq_left x y z e1]
            cases c y z <;> simp [ih _ _ e]

end DoltVerif.ValCodec
