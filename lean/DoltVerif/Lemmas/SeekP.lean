/-
Cursor positioning by an arbitrary monotone key predicate (`sort.Search(Count, p)` at every
level: `searchForKey`, `rangeStartSearchFn`, `rangeStopSearchFn`) and the ordinal it lands on.
-/
import DoltVerif.Lemmas.TreeWF
namespace DoltVerif.Prolly
open DoltVerif.SortedDict

variable {κ ν : Type}

/-- `sort.Search(Count, i => p(key i))` -/
def psearch (p : κ → Bool) : SearchFn κ := fun keys =>
  sortSearch keys.length (fun i => match keys[i]? with
    | some k => p k
    | none => true)

/-- `p` is monotone along the key order: once true, true for every larger-or-equal key -/
def Mono (cmp : κ → κ → Ordering) (p : κ → Bool) : Prop := ∀ a b, cmp a b ≠ .gt → p a = true → p b = true

theorem searchForKey_eq_psearch (cmp : κ → κ → Ordering) (k : κ) :
    searchForKey cmp k = psearch (fun x => cmp k x != .gt) := rfl

theorem mono_searchForKey {cmp : κ → κ → Ordering} (hc : TotalPreorder cmp) (k : κ) :
    Mono cmp (fun x => cmp k x != .gt) := by
  intro a b hab ha
  simp only [bne_iff_ne, ne_eq] at ha ⊢
  exact hc.le_trans k a b ha hab

/-- the binary search finds the boundary of a monotone predicate -/
theorem psearch_eq_takeWhile {cmp : κ → κ → Ordering} {p : κ → Bool} (hp : Mono cmp p)
    (keys : List κ) (hs : keys.Pairwise (fun a b => cmp a b = .lt)) :
    psearch p keys = (keys.takeWhile (fun x => !p x)).length := by
  let f : Nat → Bool := fun i => match keys[i]? with
    | some x => p x
    | none => true
  have hf : ∀ i, f i = (match keys[i]? with
    | some x => p x
    | none => true) := fun _ => rfl
  show sortSearch keys.length f = _
  have mono : ∀ a b, a ≤ b → f a = true → f b = true := by
    intro a b hab hfa
    rw [hf] at hfa ⊢
    cases hkb : keys[b]? with
    | none => rfl
    | some kb =>
      simp only
      cases hka : keys[a]? with
      | none =>
        have h1 : keys.length ≤ a := List.getElem?_eq_none_iff.mp hka
        have h2 : b < keys.length := (List.getElem?_eq_some_iff.mp hkb).1
        omega
      | some ka =>
        rw [hka] at hfa
        simp only at hfa
        by_cases hab' : a = b
        · subst hab'; rw [hka] at hkb; cases hkb; exact hfa
        · have hlt := pairwise_getElem? keys hs a b ka kb (by omega) hka hkb
          exact hp ka kb (by rw [hlt]; simp) hfa
  obtain ⟨h1, h2, h3⟩ := sortSearch_spec keys.length f mono
  generalize hr : sortSearch keys.length f = r at h1 h2 h3
  generalize ht : (keys.takeWhile (fun x => !p x)).length = t
  have htn : t ≤ keys.length := by
    rw [← ht]; exact (List.takeWhile_sublist _).length_le
  rcases Nat.lt_trichotomy r t with hlt | heq | hgt
  · have hrn : r < keys.length := by omega
    obtain ⟨a, ha⟩ : ∃ a, keys[r]? = some a := ⟨keys[r], List.getElem?_eq_getElem hrn⟩
    have hpa := takeWhile_getElem?_true (fun x => !p x) keys r a (by omega) ha
    have hfr := h3 r (Nat.le_refl _) hrn
    rw [hf] at hfr
    simp only [ha] at hfr
    simp [hfr] at hpa
  · exact heq
  · have hft := h2 t hgt
    rw [hf] at hft
    have htn' : t < keys.length := by omega
    obtain ⟨a, ha⟩ : ∃ a, keys[t]? = some a := ⟨keys[t], List.getElem?_eq_getElem htn'⟩
    simp only [ha] at hft
    have hpa := takeWhile_getElem?_false (fun x => !p x) keys a (by rw [ht]; exact ha)
    simp [hft] at hpa

/-! ### the ordinal a predicate search lands on -/

def ordAtP (p : κ → Bool) : (n : Nat) → NodeH κ ν n → Option Nat
  | 0, nd => some (psearch p (nodeKeys 0 nd))
  | n+1, nd =>
    match nd[min (psearch p (nodeKeys (n+1) nd)) (nd.length - 1)]? with
    | none => none
    | some it => (ordAtP p n (childOf it)).map
        (· + ((nd.take (min (psearch p (nodeKeys (n+1) nd)) (nd.length - 1))).map (countOf (n+1))).sum)

def ordViaP (p : κ → Bool) (n : Nat) (nd : NodeH κ ν n) : Option Nat :=
  match seekPath (psearch p) n nd with
  | none => none
  | some path => pathOrdinal n nd path

theorem ordViaP_eq_ordAtP (p : κ → Bool) : ∀ (n : Nat) (nd : NodeH κ ν n), ordViaP p n nd = ordAtP p n nd
  | 0, _ => rfl
  | n+1, nd => by
    unfold ordViaP ordAtP
    simp only [seekPath]
    cases hit : nd[min (psearch p (nodeKeys (n+1) nd)) (nd.length - 1)]? with
    | none => rfl
    | some it =>
      simp only
      have ih := ordViaP_eq_ordAtP p n (childOf it)
      unfold ordViaP at ih
      cases hp : seekPath (psearch p) n (childOf it) with
      | none => rw [hp] at ih; rw [← ih]; rfl
      | some path =>
        rw [hp] at ih
        simp only [Option.map_some, pathOrdinal, Nat.min_assoc, Nat.min_self, hit]
        simp only at ih
        rw [ih]

/-- number of entries before the first one whose key satisfies `p` -/
def rankP (p : κ → Bool) (kvs : List (κ × ν)) : Nat := (kvs.takeWhile (fun kv => !p kv.1)).length

/-- **a cursor positioned by a monotone predicate sits at the predicate's boundary**, at every
tree height: its ordinal (computed from the stored subtree counts) is the number of entries whose
key does not satisfy the predicate -/
theorem ordAtP_refines [Inhabited κ] {cmp : κ → κ → Ordering} (hc : TotalPreorder cmp) {p : κ → Bool}
    (hp : Mono cmp p) :
    ∀ (n : Nat) (nd : NodeH κ ν n), WFNode n nd → Sorted cmp (flatten n nd) → (n = 0 ∨ nd ≠ []) →
      ordAtP p n nd = some (rankP p (flatten n nd))
  | 0, nd, _, hs, _ => by
    have hkeys : (nd.map (·.1)).Pairwise (fun a b => cmp a b = .lt) := List.pairwise_map.mpr hs
    have h : ordAtP p 0 nd = some (psearch p (nd.map (·.1))) := rfl
    rw [h, psearch_eq_takeWhile hp _ hkeys, List.takeWhile_map, List.length_map]
    rfl
  | n+1, nd, hwf, hs, hne => by
    have hne : nd ≠ [] := by rcases hne with h | h; exact absurd h (by simp); exact h
    have hkeys := keys_sorted hc n nd hwf hs
    unfold ordAtP
    rw [psearch_eq_takeWhile hp _ hkeys]
    have hlen : (List.takeWhile (fun x => !p x) (nodeKeys (n+1) nd)).length
        = (nd.takeWhile (fun it => !p (keyOf (n+1) it))).length := by
      unfold nodeKeys; rw [List.takeWhile_map]; simp [Function.comp_def]
    rw [hlen]
    have hsplit := List.takeWhile_append_dropWhile (p := fun it : ItemH κ ν (n+1) => !p (keyOf (n+1) it)) (l := nd)
    have hA : ∀ it ∈ nd.takeWhile (fun it => !p (keyOf (n+1) it)), p (keyOf (n+1) it) = false := by
      intro x hx; have := mem_takeWhile_true _ _ x hx; simpa using this
    generalize nd.takeWhile (fun it => !p (keyOf (n+1) it)) = A at hsplit hA
    have hAno : ∀ (B : NodeH κ ν (n+1)), nd = A ++ B → ∀ x ∈ flatten (n+1) A, p x.1 = false := by
      intro B hnd x hx
      obtain ⟨it, hit, hxit⟩ := (mem_flatten_succ n A x).mp hx
      have hitnd : it ∈ nd := by rw [hnd]; simp [hit]
      obtain ⟨hch, hkey, _, hwfc⟩ := hwf it hitnd
      have hsc : Sorted cmp (flatten n (childOf it)) := by
        obtain ⟨l1, l2, hl⟩ := List.append_of_mem hitnd
        rw [hl, flatten_append, flatten_cons] at hs
        exact sorted_append_left (sorted_append_right hs)
      have hle := (le_lastKey hc n (childOf it) hwfc hch hsc).2 x hxit
      rw [← hkey] at hle
      cases hpx : p x.1 with
      | false => rfl
      | true => have := hp x.1 _ hle hpx; rw [hA it hit] at this; cases this
    have hfull : ∀ (l : List (κ × ν)), (∀ x ∈ l, p x.1 = false) → rankP p l = l.length := by
      intro l hl
      have := takeWhile_length_append_pos (fun kv : κ × ν => !p kv.1) l [] (by intro a ha; simp [hl a ha])
      simpa [rankP] using this
    cases hB : nd.dropWhile (fun it => !p (keyOf (n+1) it)) with
    | nil =>
      rw [hB, List.append_nil] at hsplit
      have hall := hAno [] (by simp [hsplit])
      subst hsplit
      have hc1 : A = A.dropLast ++ [A.getLast hne] := (List.dropLast_concat_getLast hne).symm
      have hidx : min A.length (A.length - 1) = A.dropLast.length := by
        rw [List.length_dropLast]; omega
      have hget : A[min A.length (A.length - 1)]? = some (A.getLast hne) := by
        rw [hidx]; conv => lhs; rw [hc1]
        simp
      have htake : A.take (min A.length (A.length - 1)) = A.dropLast := by
        rw [hidx]; conv => lhs; rw [hc1]
        simp
      rw [hget, htake]
      simp only
      have hmem : A.getLast hne ∈ A := List.getLast_mem hne
      obtain ⟨hch, _, _, hwfc⟩ := hwf _ hmem
      have hs' := hs
      rw [hc1, flatten_append] at hs'
      have hfl1 : flatten (n+1) [A.getLast hne] = flatten n (childOf (A.getLast hne)) := by simp [flatten]
      rw [hfl1] at hs'
      rw [ordAtP_refines hc hp n _ hwfc (sorted_append_right hs') (Or.inr hch)]
      have hwfd : WFNode (n+1) A.dropLast := fun x hx => hwf x ((List.dropLast_sublist A).subset hx)
      rw [Option.map_some, sum_counts_eq_length n _ hwfd]
      congr 1
      rw [hfull _ hall]
      rw [hfull _ (fun x hx => hall x ((mem_flatten_succ n A x).mpr ⟨_, hmem, hx⟩))]
      conv => rhs; rw [hc1, flatten_append, hfl1, List.length_append]
      omega
    | cons it B =>
      rw [hB] at hsplit
      have hnot : (!p (keyOf (n+1) it)) = false :=
        dropWhile_head (fun it : ItemH κ ν (n+1) => !p (keyOf (n+1) it)) nd it B hB
      have hano := hAno (it :: B) hsplit.symm
      have hidx : min A.length (nd.length - 1) = A.length := by
        rw [← hsplit]; simp
      have hget : nd[min A.length (nd.length - 1)]? = some it := by
        rw [hidx, ← hsplit]; simp
      have htake : nd.take (min A.length (nd.length - 1)) = A := by
        rw [hidx, ← hsplit]; simp
      rw [hget, htake]
      simp only
      have hitnd : it ∈ nd := by rw [← hsplit]; simp
      obtain ⟨hch, hkey, _, hwfc⟩ := hwf it hitnd
      have hwfA : WFNode (n+1) A := fun x hx => hwf x (by rw [← hsplit]; simp [hx])
      rw [← hsplit, flatten_append, flatten_cons] at hs
      have hsc : Sorted cmp (flatten n (childOf it)) := sorted_append_left (sorted_append_right hs)
      rw [ordAtP_refines hc hp n (childOf it) hwfc hsc (Or.inr hch), Option.map_some, sum_counts_eq_length n A hwfA]
      congr 1
      conv => rhs; rw [← hsplit, flatten_append, flatten_cons]
      unfold rankP
      rw [takeWhile_length_append_pos _ _ _ (by intro a ha; simp [hano a ha])]
      rw [takeWhile_length_append_neg]
      · omega
      · intro z hz
        obtain ⟨⟨kv, hkvmem, hkv⟩, _⟩ := le_lastKey hc n (childOf it) hwfc hch hsc
        have hlt := sorted_append_lt (sorted_append_right hs) kv hkvmem z hz
        rw [hkv, ← hkey] at hlt
        have hpk : p (keyOf (n+1) it) = true := by simpa using hnot
        have := hp _ z.1 (by rw [hlt]; simp) hpk
        simp [this]

end DoltVerif.Prolly
